import RaftProofs.ClusterSnap5O

/-!
[Copy of `ClusterSnap2P.lean` for the development `Snap5` (with `request_snapshot`): `NoReq` is replaced by
`ReqOk`, `SnapCase.restored` is widened — see `ClusterSnap5A.lean`, `RaftProps/C01i.lean`.]

Commit safety of `ClusterSem` with compaction and snapshots, part 2P (as `ClusterSnapO`): the induction
steps for **what a node has marked committed** (`nctm_step`), for the stored commit index (`scm_step`,
`ncts_step`), and for the agreement of the two ghost logs of a node up to `persisted` (`pst_step`).
-/
namespace RaftModel
namespace Cluster
namespace Snap5
open Node Raft Raft.CC RaftProps.C02 RaftProps.C05 RaftProps.C04 Snap

variable {cfg : JointConfig} {c0 : Nat} {h : List Sys}

/-- the commit index is never below the common snapshot point -/
theorem c0_le_committed (H : Hyp2w cfg c0 h) {n : Nat} {s : Sys} (hn : h[n]? = some s) {v : Nat}
    {st : NState} (hv : s.node v = some st) : c0 ≤ st.raft.raftLog.committed :=
  Nat.le_trans (c0_le_snap H hn hv) (node_ok H hn hv).snap_le

/-- a `call` / `deliver` step keeps the ghost entries up to the commit index -/
theorem call_keeps_committed (H : Hyp2w cfg c0 h) {n : Nat} {a : Sys} (ha : h[n]? = some a)
    {k : Nat} {st st' : NState} (hk : a.node k = some st)
    (hs : FCallStep h c0 a k st st') :
    EqUpTo (FL h c0 st') (FL h c0 st) st.raft.raftLog.committed := by
  have o := node_ok H ha hk
  intro j hj
  cases hs with
  | same hl _ => exact hl j
  | grew es hg hl _ =>
    refine hl j ?_
    have := o.inv.committed_le_last
    rw [o.inv.lastIndex_abs] at this
    omega
  | acc m _ _ _ hacc _ _ hci _ _ => exact hacc.low j (by omega)

/-- a commit index taken over from a sender whose own commit index is covered -/
theorem covered_of_src {n cL τ τ' c' : Nat} {L g : LLog} (hcov : Covered h c0 n cL τ L)
    (hle : c' ≤ cL) (hτ : τ ≤ τ') (heq : EqUpTo g L c') : Covered h c0 (n + 1) c' τ' g := by
  rcases hcov with c | ⟨E0, h1, h2, h3, h4, h5⟩
  · exact .inl (by omega)
  · exact .inr ⟨E0, h1, by omega, by omega, by omega, heq.trans (h5.mono hle)⟩

theorem nctm_step (H : Hyp3a cfg c0 h) {n : Nat} (S : SAll h c0 n) {a b : Sys}
    (ha : h[n]? = some a) (hb : h[n + 1]? = some b) :
    ∀ v st', b.node v = some st' →
      Covered h c0 (n + 1) st'.raft.raftLog.committed st'.raft.term (FL h c0 st') := by
  intro v st' hvb
  have H2 := H.toHyp2w
  have Sa := S n a (Nat.le_refl _) ha
  obtain ⟨k, stk, stk', hka, hkb, hoth, hs⟩ := H2.stp ha hb
  by_cases hvk : v = k
  · subst hvk
    rw [hkb] at hvb; cases hvb
    cases hs with
    | restart c rnd hboot hnet _ =>
      have hbt := CV.boot_booted c _ rnd st' hboot
      have o := node_ok H2 ha hka
      obtain ⟨_, habs, _⟩ := boot_log c _ rnd st' o.inv.storeWF hboot
      rw [FL_restart habs, hbt.term]
      rcases boot_committed c _ rnd st' hboot with e | ⟨e0, e⟩
      · rw [e]; exact (Sa.ncts v stk hka).mono (Nat.le_succ _) (Nat.le_refl _)
      · -- no hard state stored: then nothing was compacted
        left
        rw [e]
        apply Classical.byContradiction
        intro hgt
        have hp : c0 < (storeLog stk.raft.raftLog.store).snapIdx := by
          show c0 < stk.raft.raftLog.store.firstIndex - 1; omega
        have := store_snap_le H n a ha v stk hka hp
        rw [e0] at this
        have h0 : ({} : HardState).commit = 0 := rfl
        omega
    | send hp hu hq hsame hnet _ =>
      rw [FL_same (st := stk) (by rw [hsame.1]), hsame.1, hsame.2.1]
      exact (Sa.nctm v stk hka).mono (Nat.le_succ _) (Nat.le_refl _)
    | psnap rnd hp hout hpend hnet =>
      rw [FL_same (persist_abs hout), (persist_same hout).1, (persist_same hout).2.1]
      exact (Sa.nctm v stk hka).mono (Nat.le_succ _) (Nat.le_refl _)
    | snap rnd m hm hto hty hpn hout hnet =>
      cases hout with
      | skip hr =>
        rw [FL_same (st := stk) (by rw [hr]), hr]
        exact (Sa.nctm v stk hka).mono (Nat.le_succ _) (Nat.le_refl _)
      | handled x hsf ht hle hid hq hack hxto hxfrm hxt hsto hcase =>
        have hmt := snap_term_ne_zero H2 ha hm hty
        have hmterm : m.term = st'.raft.term := by
          rcases ht with c | c
          · exact c
          · exact absurd c hmt
        cases hcase with
        | kept hu _ hc _ =>
          rw [FL_same (abs_of_eq hsto hu), hc]
          exact (Sa.nctm v stk hka).mono (Nat.le_succ _) hle
        | ffwd hu _ _ hc hmt' _ _ =>
          obtain ⟨L, src, heq⟩ := ffwd_src H S ha hka hm hty hmt'
          rw [FL_same (abs_of_eq hsto hu), hc]
          exact covered_of_src src.cov (Nat.le_refl _) (Nat.le_of_eq hmterm) heq
        | restored _ _ hu hc _ _ =>
          have hl : st'.raft.raftLog.abs = LLog.ofSnapshot m.snapshot := by
            rw [RaftLog.abs_some (sn := m.snapshot) (by rw [hu]; rfl), hu]; rfl
          obtain ⟨L, src, heq, _⟩ := restored_src H S ha hb hkb hm hty hl
          rw [hc]
          exact covered_of_src src.cov (Nat.le_refl _) (Nat.le_of_eq hmterm) heq
    | call rnd op res hop hnc hca hns hpn hss hcall hnet hpn' _ =>
      obtain ⟨s0, _, hall⟩ := H2.inv_at
      have I := hall a (mem_of_get ha)
      have hL := (call_facts H2 ha hka hop hnc hns hpn hcall).2.1
      obtain ⟨hsrc, _, _⟩ := call_more H2 ha hka hop hnc hns hpn hcall
      have hcs := fcall_step H2 ha hb hka hkb hop hnc hns hpn hcall
      have hkeep := call_keeps_committed H2 ha hka hcs
      have hc0 := c0_le_committed H2 ha hka
      by_cases hch : st'.raft.raftLog.committed = stk.raft.raftLog.committed
      · rw [hch]
        rcases Sa.nctm v stk hka with c | ⟨E0, h1, h2, h3, h4, h5⟩
        · exact .inl c
        · exact .inr ⟨E0, h1, by omega, h3, Nat.le_trans h4 hL.rt.le, hkeep.trans h5⟩
      have hgt : stk.raft.raftLog.committed < st'.raft.raftLog.committed := by
        have := hsrc.1; omega
      by_cases hlead : st'.raft.state = .leader
      · -- the step is a commit event of this node
        right
        refine ⟨⟨n, v, st'.raft.term, st'.raft.raftLog.committed, st'.raft.raftLog.abs,
          st'.raft.raftLog.persisted⟩, ?_, Nat.lt_succ_self _, Nat.le_refl _, Nat.le_refl _,
          fun _ _ => rfl⟩
        exact ⟨a, b, stk, st', ha, hb, hka, hkb, hlead, rfl, hgt, rfl, rfl, rfl⟩
      rcases hop with h2 | ⟨m, rfl, hm, hto⟩
      · rcases hsrc.2 with c | c | ⟨m, r1, c, _⟩
        · exact absurd c hch
        · exact absurd c hlead
        · rw [c] at h2; cases h2
      · by_cases hty : m.msgType = .msgAppend
        · have hok := I.msgOk hm hty
          have hag := I.agree .net (msgLog m) (.log v) _ ⟨m, hm, hty, rfl⟩ ⟨stk, hka, rfl⟩
          obtain ⟨L, cL, src⟩ := app_src H S ha hm hty
          cases append_call (I.inv v stk hka) hty hok hag hcall with
          | noacc _ hc _ => exact absurd hc hch
          | acc hacc hc hci _ ht _ =>
            have hanc := anchor_eq H ha hka hm hty src hacc.anchor
            have hagr := (facc_call H2 ha hb hka hkb hm hto (hns m rfl) hpn hcall hacc hci).agree src.contig
              src.ents hanc
            have hmt : m.term = st'.raft.term := by
              rcases ht with c | c
              · exact c
              · exact absurd c src.tnz
            refine covered_of_src src.cov (c' := st'.raft.raftLog.committed) ?_
              (Nat.le_of_eq hmt) (fun j hj => hagr j ?_)
            · have := src.commit; omega
            · omega
        · by_cases hhb : m.msgType = .msgHeartbeat
          · obtain ⟨L, cL, src⟩ := hb_src H S ha hm hhb
            rcases hb_call (I.inv v stk hka) hhb hcall with c | ⟨c1, c2, c3, c4, _⟩
            · exact absurd c hch
            · have hceq : st'.raft.raftLog.committed = m.commit := by omega
              have htnz : m.term ≠ 0 := by
                obtain ⟨m0, s, l, st0, _, a2, a3, a4, a5, _⟩ := src.ll
                rw [← a5]
                exact (hall s (mem_of_get a2)).tz l st0 a3 (.inr a4)
              have hmt : m.term = st'.raft.term := by
                rcases c2 with c | c
                · exact c
                · exact absurd c htnz
              rcases src.ack with c | ⟨x, hx, hack, hfrm, hxt, hxi⟩
              · omega
              · have hx0 : x.index ≠ 0 := by omega
                have hfrm' : x.frm = v := hfrm.trans hto
                have hle := ack_term_le H2 ha hka (.inl hx) hack hfrm' hx0
                have hxt' : x.term = stk.raft.term := by omega
                obtain ⟨L1, hl1, hreach, heq1⟩ :=
                  Sa.a2m v stk hka x (.inl hx) hack hfrm' (by omega) hxt'
                refine covered_of_src src.cov (c' := st'.raft.raftLog.committed)
                  (by have := src.commit; omega) (Nat.le_of_eq hmt) (fun j hj => ?_)
                rw [FL_same c4, heq1 j (by omega)]
                exact ll_eq H2 hl1 (by rw [hxt]; exact src.ll) (by omega)
                  (by have := src.cle; have := src.commit; omega)
          · rcases hsrc.2 with c | c | ⟨m', r1, c, hls, ev, hrecv⟩
            · exact absurd c hch
            · exact absurd c hlead
            · cases c
              cases ev with
              | append ht _ _ => exact absurd ht hty
              | heartbeat ht _ _ => exact absurd ht hhb
              | snapshot ht _ => exact absurd ht (hns m rfl)
              | byVote ht hz hterm hc' _ =>
                -- the commit point of a (pre-)vote message: the sender's log holds it, covered
                have hq := (call_facts H2 ha hka (.inr ⟨m, rfl, hm, hto⟩) hnc hns hpn hcall).2.2.2.1
                have hlog : st'.raft.raftLog.abs = stk.raft.raftLog.abs := by
                  rcases hq with (c | ⟨es, c⟩ | c) | ⟨j, c, _⟩
                  · exact c
                  · exact absurd c.leader hlead
                  · have c' : m.msgType = .msgAppend := c
                    rw [c'] at ht; cases ht
                  · cases c
                have oa := node_ok H2 ha hka
                have hterm' : stk.raft.raftLog.abs.term m.commit = .ok m.commitTerm := by
                  rw [← hls.abs, ← (hls.inv oa.inv).term_abs]; exact hterm
                rcases vote_src H2 S ha hm ht with c | ⟨n0, s0, w, stw, hn0, hs0, hw, d1, d2, d3, d4⟩
                · omega
                · have Ik := (ghost_inv H2 n a ha).node v stk hka
                  have Iw := (ghost_inv H2 n0 s0 hs0).node w stw hw
                  obtain ⟨e1, he1, ht1⟩ := Ik.log.entry_of_term hterm' hz (by omega)
                  obtain ⟨e2, he2, ht2⟩ := Iw.log.entry_of_term d2 hz (by omega)
                  have heq := flogs_eq_below H2 ha hs0 hka hw he1 he2 (ht1.trans ht2.symm)
                  have hτ : stw.raft.term ≤ st'.raft.term := by
                    rcases hrecv with c | ⟨c1, c2⟩ | ⟨c1, c2⟩
                    · by_cases hp : m.msgType = .msgRequestPreVote
                      · have := d3.1 hp; omega
                      · have := d3.2.1 hp; omega
                    · have := d3.1 c1; omega
                    · have := d3.2.2 (.inl c1)
                      rw [c2] at this; cases this
                  refine covered_of_src d4 (c' := st'.raft.raftLog.committed) (by omega) hτ
                    (fun j hj => ?_)
                  rw [FL_same hlog]
                  exact heq j (by omega)
              | readIndexResp ht hterm hc' _ =>
                -- a read index of a leader of the message's term: the sender's commit index covered it
                have hq := (call_facts H2 ha hka (.inr ⟨m, rfl, hm, hto⟩) hnc hns hpn hcall).2.2.2.1
                have hlog : st'.raft.raftLog.abs = stk.raft.raftLog.abs := by
                  rcases hq with (c | ⟨es, c⟩ | c) | ⟨j, c, _⟩
                  · exact c
                  · exact absurd c.leader hlead
                  · have c' : m.msgType = .msgAppend := c
                    rw [c'] at ht; cases ht
                  · cases c
                have oa := node_ok H2 ha hka
                have hterm' : stk.raft.raftLog.abs.term m.index = .ok m.term := by
                  rw [← hls.abs, ← (hls.inv oa.inv).term_abs]; exact hterm
                obtain ⟨n0, s0, w, stw, hn0, hs0, hw, hwl, hwt, hwi⟩ := H.rirs n a ha m hm ht
                have ow := node_ok H2 hs0 hw
                have htnz : m.term ≠ 0 := by
                  rw [← hwt]; exact (hall s0 (mem_of_get hs0)).tz w stw hw (.inr hwl)
                have Ik := (ghost_inv H2 n a ha).node v stk hka
                have hci : c0 < m.index := by omega
                -- the term answered above `c0` is the term of an entry of the ghost log (a retained
                -- entry, or the entry a restored snapshot point stands for), which is a link of a
                -- real chain somewhere in the history
                obtain ⟨e1, he1, ht1⟩ := Ik.log.entry_of_term hterm' htnz hci
                obtain ⟨gr, ⟨mr, sr, locr, hmr, hatr⟩, hger, _⟩ := Ik.log.der m.index e1 he1
                have hLw : LeaderLog h c0 n m.term (FL h c0 stw) :=
                  ⟨n0, s0, w, stw, hn0, hs0, hw, hwl, hwt, rfl⟩
                have hreach : m.index ≤ (FL h c0 stw).lastIndex := by
                  rw [fl_last H2 hs0 hw, ← ow.inv.lastIndex_abs]
                  exact Nat.le_trans hwi ow.inv.committed_le_last
                have hhas : Has (FL h c0 stw) m.index m.term := by
                  obtain ⟨si, hsi, hprov⟩ := entry_prov H2
                  rcases hprov mr sr hmr locr gr hatr m.index e1 hger with c | c
                  · have := init_entry_term H2 hsi c hs0 (l := w) (t := m.term) ⟨stw, hw, hwl, hwt⟩
                    omega
                  · obtain ⟨m', s', l', stl, c1, c2, c3, c4, c5, c6, _⟩ := c
                    have Il := (ghost_inv H2 m' s' c2).node l' stl c3
                    have hL' : LeaderLog h c0 mr m.term (FL h c0 stl) :=
                      ⟨m', s', l', stl, c1, c2, c3, c4, c5.trans ht1, rfl⟩
                    have := ll_eq H2 hL' hLw ((FL h c0 stl).entryAt_lt (Il.log.entry c6)).2 hreach
                    exact ⟨e1, this.symm.trans (Il.log.entry c6), ht1⟩
                have heq := eq_ll H2 ha hka hLw ⟨e1, he1, ht1⟩ hhas
                have hτ : stw.raft.term ≤ st'.raft.term := by
                  rw [hwt]
                  rcases hrecv with c | ⟨c1, _⟩ | ⟨c1, _⟩
                  · exact c
                  · rw [c1] at ht; cases ht
                  · rw [c1] at ht; cases ht
                refine covered_of_src (((S n0 s0 hn0 hs0).nctm w stw hw).mono hn0 (Nat.le_refl _))
                  (c' := st'.raft.raftLog.committed) (by omega) hτ (fun j hj => ?_)
                rw [FL_same hlog]
                exact heq j (by omega)
  · have hva : a.node v = some st' := by rw [← hoth v hvk]; exact hvb
    exact (Sa.nctm v st' hva).mono (Nat.le_succ _) (Nat.le_refl _)


theorem Covered.le {m cm cm' term : Nat} {g : LLog} (hc : Covered h c0 m cm term g)
    (hle : cm' ≤ cm) : Covered h c0 m cm' term g := by
  rcases hc with c | ⟨E, h1, h2, h3, h4, h5⟩
  · exact .inl (by omega)
  · exact .inr ⟨E, h1, h2, by omega, h4, h5.mono hle⟩

theorem Covered.eq {m cm term : Nat} {g g' : LLog} (hc : Covered h c0 m cm term g)
    (he : EqUpTo g' g cm) : Covered h c0 m cm term g' := by
  rcases hc with c | ⟨E, h1, h2, h3, h4, h5⟩
  · exact .inl c
  · exact .inr ⟨E, h1, h2, h3, h4, he.trans h5⟩

theorem scm_step (H : Hyp3a cfg c0 h) {n : Nat} (S : SAll h c0 n) {a b : Sys}
    (ha : h[n]? = some a) (hb : h[n + 1]? = some b) :
    ∀ v st', b.node v = some st' →
      st'.raft.raftLog.store.hardState.commit ≤ st'.raft.raftLog.committed := by
  intro v st' hvb
  have H2 := H.toHyp2w
  have Sa := S n a (Nat.le_refl _) ha
  obtain ⟨k, stk, stk', hka, hkb, hoth, hs⟩ := H2.stp ha hb
  by_cases hvk : v = k
  · subst hvk
    rw [hkb] at hvb; cases hvb
    cases hs with
    | restart c rnd hboot hnet _ =>
      have hbt := CV.boot_booted c _ rnd st' hboot
      rw [hbt.hs]
      rcases boot_committed c _ rnd st' hboot with e | ⟨e1, _⟩
      · rw [e]; exact Nat.le_refl _
      · rw [e1]; exact Nat.zero_le _
    | send hp hu hq hsame hnet _ =>
      rw [hsame.1]; exact Sa.scm v stk hka
    | psnap rnd hp hout hpend hnet =>
      cases hout with
      | noop hr => rw [hr]; exact Sa.scm v stk hka
      | done sn L hp0 hr _ _ hcm _ _ _ _ _ hhs =>
        rw [hr]
        show L.store.hardState.commit ≤ L.committed
        rw [hhs, hcm, (pend_ok H n a ha v stk sn hka hp0).2.1]
        exact Nat.le_refl _
    | snap rnd m hm hto hty hpn hout hnet =>
      cases hout with
      | skip hr => rw [hr]; exact Sa.scm v stk hka
      | handled x _ _ _ _ _ _ _ _ _ hsto hcase =>
        rw [hsto]
        have h0 := Sa.scm v stk hka
        cases hcase with
        | kept _ _ hc _ => rw [hc]; exact h0
        | ffwd _ _ hle hc _ _ _ => rw [hc]; omega
        | restored hle _ _ hc _ _ => rw [hc]; omega
    | call rnd op res hop hnc hca hns hpn hss hcall hnet hpn' _ =>
      obtain ⟨hsrc, _, hhs⟩ := call_more H2 ha hka hop hnc hns hpn hcall
      have h0 := Sa.scm v stk hka
      rcases hhs with c | ⟨j, rfl, c⟩ | ⟨_, c⟩
      · rw [c]; exact Nat.le_trans h0 hsrc.1
      · rw [c]
        show j ≤ _
        rcases commitApply_call_le hcall with d | d
        · omega
        · exact Nat.le_trans d hsrc.1
      · rw [c]; exact Nat.le_trans h0 hsrc.1
  · have hva : a.node v = some st' := by rw [← hoth v hvk]; exact hvb
    exact Sa.scm v st' hva

theorem ncts_step (H : Hyp3a cfg c0 h) {n : Nat} (S : SAll h c0 n) {a b : Sys}
    (ha : h[n]? = some a) (hb : h[n + 1]? = some b) :
    ∀ v st', b.node v = some st' →
      Covered h c0 (n + 1) st'.raft.raftLog.store.hardState.commit
        st'.raft.raftLog.store.hardState.term (FS h c0 st') := by
  intro v st' hvb
  have H2 := H.toHyp2w
  have Sa := S n a (Nat.le_refl _) ha
  obtain ⟨k, stk, stk', hka, hkb, hoth, hs⟩ := H2.stp ha hb
  by_cases hvk : v = k
  · subst hvk
    have hkb' := hkb
    rw [hkb] at hvb; cases hvb
    have oa := node_ok H2 ha hka
    have ob := node_ok H2 hb hkb'
    cases hs with
    | restart c rnd hboot hnet _ =>
      have hbt := CV.boot_booted c _ rnd st' hboot
      obtain ⟨_, _, hsl⟩ := boot_log c _ rnd st' oa.inv.storeWF hboot
      rw [hbt.hs, FS_same hsl]
      exact (Sa.ncts v stk hka).mono (Nat.le_succ _) (Nat.le_refl _)
    | send hp hu hq hsame hnet _ =>
      rw [FS_same (st := stk) (by rw [hsame.1]), hsame.1]
      exact (Sa.ncts v stk hka).mono (Nat.le_succ _) (Nat.le_refl _)
    | psnap rnd hp hout hpend hnet =>
      cases hout with
      | noop hr =>
        rw [FS_same (st := stk) (by rw [hr]), hr]
        exact (Sa.ncts v stk hka).mono (Nat.le_succ _) (Nat.le_refl _)
      | done sn L hp0 hr hinvL habs hcm hper hus hue hents hmeta hhs =>
        have Ib := (ghost_inv H2 (n + 1) b hb).node v st' hkb'
        have hpk := pend_ok H n a ha v stk sn hka hp0
        have hpnone : st'.raft.raftLog.unstable.snapshot = none := by rw [hr]; exact hus
        have hidx : st'.raft.raftLog.abs.snapIdx = sn.metadata.index := by
          rw [hr]; show L.abs.snapIdx = _; rw [habs, RaftLog.abs_some hp0]
        have hfl : FL h c0 st' = FL h c0 stk := FL_same (by rw [hr]; exact habs)
        have hc1 : st'.raft.raftLog.store.hardState.commit = sn.metadata.index := by rw [hr, hhs]
        have hc2 : st'.raft.raftLog.store.hardState.term =
            max stk.raft.raftLog.store.hardState.term sn.metadata.term := by rw [hr, hhs]
        rw [hc1, hc2]
        have hcov := ((Sa.nctm v stk hka).le (Nat.le_of_eq hpk.2.1.symm)).mono (Nat.le_succ n)
          (show stk.raft.term ≤ max stk.raft.raftLog.store.hardState.term sn.metadata.term by
            rw [hp.1]; exact Nat.le_max_left _ _)
        refine hcov.eq (fun j hj => ?_)
        rw [← Ib.pre hpnone j (by rw [hidx]; exact hj), hfl]
    | snap rnd m hm hto hty hpn hout hnet =>
      cases hout with
      | skip hr =>
        rw [FS_same (st := stk) (by rw [hr]), hr]
        exact (Sa.ncts v stk hka).mono (Nat.le_succ _) (Nat.le_refl _)
      | handled x _ _ _ _ _ _ _ _ _ hsto _ =>
        rw [FS_same (st := stk) (by rw [hsto]), hsto]
        exact (Sa.ncts v stk hka).mono (Nat.le_succ _) (Nat.le_refl _)
    | call rnd op res hop hnc hca hns hpn hss hcall hnet hpn' _ =>
      obtain ⟨hsrc, hse, hhs⟩ := call_more H2 ha hka hop hnc hns hpn hcall
      by_cases hst : op = .stabilize
      · subst hst
        obtain ⟨k1, k2, k3, _, k5, _, _, _⟩ := stabilize_out oa.inv hpn hcall
        have hcm : st'.raft.raftLog.store.hardState.commit =
            stk.raft.raftLog.store.hardState.commit := by
          rcases hhs with c | ⟨j, c, _⟩ | ⟨_, c⟩
          · rw [c]
          · cases c
          · exact c
        rw [hcm, k2.1, k5]
        refine (((Sa.nctm v stk hka).le (Sa.scm v stk hka)).eq (fun j _ => ?_)).mono
          (Nat.le_succ _) (Nat.le_refl _)
        rw [← FL_eq_FS ob hpn' k1, FL_same k3]
      · have Ia := (ghost_inv H2 n a ha).node v stk hka
        have hfs : ∀ j, (FS h c0 st').entryAt j = (FS h c0 stk).entryAt j := by
          rcases hse with c | c | ⟨j, _, ho⟩
          · intro j; rw [FS_same c.storeLog]
          · exact absurd c hst
          · obtain ⟨_, l2⟩ := ho.lt oa.inv
            exact fl_eq (hist_agree H2) ((Ia.sto.compact l2).congr ho.sto)
        rcases hhs with c | ⟨j, rfl, c⟩ | ⟨c, _⟩
        · rw [c]
          exact ((Sa.ncts v stk hka).eq (fun j _ => hfs j)).mono (Nat.le_succ _) (Nat.le_refl _)
        · rw [c]
          show Covered h c0 (n + 1) j stk.raft.raftLog.store.hardState.term _
          obtain ⟨hj1, hj2⟩ := hca j rfl
          rw [hj2.1]
          have hjc : j ≤ stk.raft.raftLog.committed := by
            rcases commitApply_call_le hcall with d | d
            · omega
            · exact d
          refine (((Sa.nctm v stk hka).le hjc).eq (fun i hi => ?_)).mono
            (Nat.le_succ _) (Nat.le_refl _)
          exact (hfs i).trans (Ia.persisted oa hpn (by omega)).symm
        · exact absurd c hst
  · have hva : a.node v = some st' := by rw [← hoth v hvk]; exact hvb
    exact (Sa.ncts v st' hva).mono (Nat.le_succ _) (Nat.le_refl _)



/-- the induction step for `pst`: the two ghost logs of a node hold the same entries up to
`persisted` -/
theorem pst_step (H : Hyp3a cfg c0 h) {n : Nat} (S : SAll h c0 n) {a b : Sys}
    (ha : h[n]? = some a) (hb : h[n + 1]? = some b) :
    ∀ v st', b.node v = some st' → ∀ k, k ≤ st'.raft.raftLog.persisted →
      (FL h c0 st').entryAt k = (FS h c0 st').entryAt k := by
  intro v st' hvb j hj
  have H2 := H.toHyp2w
  have Sa := S n a (Nat.le_refl _) ha
  obtain ⟨k, stk, stk', hka, hkb, hoth, hs⟩ := H2.stp ha hb
  by_cases hvk : v = k
  · subst hvk
    have hkb' := hkb
    rw [hkb] at hvb; cases hvb
    have oa := node_ok H2 ha hka
    have ob := node_ok H2 hb hkb'
    have Ib := (ghost_inv H2 (n + 1) b hb).node v st' hkb'
    cases hs with
    | restart c rnd hboot hnet _ =>
      obtain ⟨_, habs, hsl⟩ := boot_log c _ rnd st' oa.inv.storeWF hboot
      rw [FL_restart habs, FS_same hsl]
    | send hp hu hq hsame hnet _ =>
      rw [FL_same (st := stk) (by rw [hsame.1]), FS_same (st := stk) (by rw [hsame.1])]
      exact Sa.pst v stk hka j (by rw [hsame.1] at hj; exact hj)
    | call rnd op res hop hnc hca hns hpn hss hcall hnet hpn' _ =>
      exact Ib.persisted ob hpn' hj
    | psnap rnd hp hout hpend hnet =>
      cases hout with
      | noop hr =>
        rw [FL_same (st := stk) (by rw [hr]), FS_same (st := stk) (by rw [hr])]
        exact Sa.pst v stk hka j (by rw [hr] at hj; exact hj)
      | done sn L hp0 hr hinvL habs hcm hper hus hue hents hmeta hhs =>
        have hpk := pend_ok H n a ha v stk sn hka hp0
        have hpnone : st'.raft.raftLog.unstable.snapshot = none := by rw [hr]; exact hus
        have hidx : st'.raft.raftLog.abs.snapIdx = sn.metadata.index := by
          rw [hr]; show L.abs.snapIdx = _; rw [habs, RaftLog.abs_some hp0]
        refine Ib.pre hpnone j ?_
        rw [hidx]
        have : st'.raft.raftLog.persisted = max stk.raft.raftLog.persisted sn.metadata.index := by
          rw [hr]; exact hper
        have := hpk.2.2.2
        omega
    | snap rnd m hm hto hty hpn hout hnet =>
      cases hout with
      | skip hr =>
        rw [FL_same (st := stk) (by rw [hr]), FS_same (st := stk) (by rw [hr])]
        exact Sa.pst v stk hka j (by rw [hr] at hj; exact hj)
      | handled x _ _ _ _ _ _ _ _ _ hsto hcase =>
        rw [FS_same (st := stk) (by rw [hsto])]
        cases hcase with
        | kept hu hp _ _ =>
          rw [FL_same (abs_of_eq hsto hu)]
          exact Sa.pst v stk hka j (by rw [hp] at hj; exact hj)
        | ffwd hu hp _ _ _ _ _ =>
          rw [FL_same (abs_of_eq hsto hu)]
          exact Sa.pst v stk hka j (by rw [hp] at hj; exact hj)
        | restored hle _ hu hc hper _ =>
          have hl : st'.raft.raftLog.abs = LLog.ofSnapshot m.snapshot := by
            rw [RaftLog.abs_some (sn := m.snapshot) (by rw [hu]; rfl), hu]; rfl
          obtain ⟨L, src, heq, _⟩ := restored_src H S ha hb hkb' hm hty hl
          rw [hper] at hj
          have hj1 : j ≤ stk.raft.raftLog.persisted := by split at hj <;> omega
          have hj2 : j ≤ stk.raft.raftLog.committed := by split at hj <;> omega
          have Ia := (ghost_inv H2 n a ha).node v stk hka
          obtain ⟨m0, s0, l0, stl, _, a2, a3, _, _, hLeq⟩ := id src.ll
          have hLs : L.snapIdx = c0 := by
            rw [hLeq]; exact ((ghost_inv H2 m0 s0 a2).node l0 stl a3).log.snap
          rw [heq j (by omega), ← Sa.pst v stk hka j hj1]
          exact covered_agree H2 S hLs Ia.log.snap src.cov (Sa.nctm v stk hka) (Nat.le_refl _)
            (Nat.le_refl _) j (by omega) hj2
  · have hva : a.node v = some st' := by rw [← hoth v hvk]; exact hvb
    exact Sa.pst v st' hva j hj

end Snap5
end Cluster
end RaftModel
