import RaftProofs.ClusterLogK
import RaftProps.C13b

/-!
Cluster-level commit safety, helper lemmas part A: the *matched table* of a progress tracker, the part
of the node state the sending / replication helpers never touch (`score`), and the anchored relation
`SF a r` ("`r` is reached from `a` by queueing leader-side messages only") with its preservation by
the sending helpers of the node model.

Batching (`batch_append`) is excluded as in `RaftProofs/ClusterLogB.lean`.
-/
namespace RaftModel
namespace Raft
namespace CC

/-- the matched table of a tracker: `id ↦ matched` -/
def mfun (p : ProgressTracker) : Nat → Option Nat := fun j => (p.get j).map (·.matched)

theorem mfun_of_get {p : ProgressTracker} {j : Nat} {pr : Progress} (h : p.get j = some pr) :
    mfun p j = some pr.matched := by
  unfold mfun; rw [h]; rfl

theorem get_of_mfun {p : ProgressTracker} {j x : Nat} (h : mfun p j = some x) :
    ∃ pr, p.get j = some pr ∧ pr.matched = x := by
  unfold mfun at h
  cases hg : p.get j with
  | none => rw [hg] at h; cases h
  | some pr => rw [hg] at h; cases h; exact ⟨pr, rfl, rfl⟩

/-- writing back a progress whose `matched` is the one in the table keeps the table -/
theorem mfun_set (p : ProgressTracker) (id : Nat) (pr : Progress)
    (h : ∀ old, p.get id = some old → pr.matched = old.matched) : mfun (p.set id pr) = mfun p := by
  funext j
  unfold mfun
  by_cases hj : j = id
  · subst hj
    cases hg : p.get j with
    | none =>
      have : (p.set j pr).get j = none := by
        simp only [ProgressTracker.get, ProgressTracker.set] at *
        rw [c04_lookup_modify_self, hg]; rfl
      rw [this]
    | some old =>
      rw [c04_get_set_self p j pr old hg]
      simp only [Option.map_some, h old hg]
  · rw [c04_get_set_ne p id j pr hj]

theorem get_map_progress (l : List (Nat × Progress)) (f : Nat → Progress → Progress) (j : Nat) :
    (l.map (fun p => (p.1, f p.1 p.2))).lookup j = (l.lookup j).map (f j) := by
  induction l with
  | nil => rfl
  | cons x rest ih =>
    obtain ⟨k, v⟩ := x
    by_cases hk : j = k
    · subst hk; simp [List.lookup_cons]
    · have h2 : (j == k) = false := by simp; omega
      simp only [List.map_cons, List.lookup_cons, h2]
      exact ih

/-- rewriting every progress entry by a function that keeps `matched` keeps the table -/
theorem mfun_mapProgress (r : Raft) (f : Nat → Progress → Progress)
    (hf : ∀ j pr, (f j pr).matched = pr.matched) : mfun (r.mapProgress f).prs = mfun r.prs := by
  funext j
  unfold mfun mapProgress ProgressTracker.get
  dsimp only
  rw [get_map_progress]
  cases r.prs.progress.lookup j with
  | none => rfl
  | some pr => simp only [Option.map_some, hf]

theorem mfun_modifyProgress (r : Raft) (id : Nat) (f : Progress → Progress)
    (hf : ∀ pr, (f pr).matched = pr.matched) : mfun (r.modifyProgress id f).prs = mfun r.prs := by
  funext j
  unfold mfun modifyProgress ProgressTracker.get
  dsimp only
  by_cases hj : j = id
  · subst hj
    rw [c04_lookup_modify_self]
    cases r.prs.progress.lookup j with
    | none => rfl
    | some pr => simp only [Option.map_some, hf]
  · rw [c04_lookup_modify_ne id j hj]

/-! ### the send core -/

/-- the part of the node state the sending helpers never touch -/
structure SCore where
  term : Nat
  vote : Nat
  id : Nat
  state : StateRole
  unstable : Unstable
  committed : Nat
  persisted : Nat
  applied : Nat
  sents : List Entry
  smeta : SnapshotMetadata
  shs : HardState
  mtab : Nat → Option Nat
  conf : Configuration
  gc : Bool
  batch : Bool
  tm : Nat → Res Nat
  last : Nat
  lterm : Res Nat

def score (r : Raft) : SCore :=
  { term := r.term, vote := r.vote, id := r.id, state := r.state, unstable := r.raftLog.unstable,
    committed := r.raftLog.committed, persisted := r.raftLog.persisted,
    applied := r.raftLog.applied, sents := r.raftLog.store.entries,
    smeta := r.raftLog.store.snapshotMetadata, shs := r.raftLog.store.hardState,
    mtab := mfun r.prs, conf := r.prs.conf, gc := r.prs.groupCommit, batch := r.batchAppend,
    tm := r.raftLog.term, last := r.raftLog.lastIndex, lterm := r.raftLog.lastTerm }

/-- the message types the leader-side helpers queue -/
def lkT : MsgType → Bool
  | .msgAppend | .msgHeartbeat | .msgSnapshot | .msgTimeoutNow | .msgReadIndexResp => true
  | _ => false

/-- a message queued by a sending helper on a node with core `c` -/
structure Sent (c : SCore) (x : Message) : Prop where
  frm : x.frm = c.id
  term : x.term = c.term
  ty : lkT x.msgType = true
  app : x.msgType = .msgAppend → x.commit = c.committed ∧ c.tm x.index = .ok x.logTerm
  hb : x.msgType = .msgHeartbeat →
    x.commit ≤ c.committed ∧ ∃ mv, c.mtab x.to = some mv ∧ x.commit ≤ mv ∧ x.to ≠ c.id

/-- anchored: `r` has the core of `a`, and every queued message was queued in `a` or is `Sent` -/
structure SFP (a : Raft) (c : SCore) (ms : List Message) : Prop where
  core : c = score a
  q : ∀ x ∈ ms, x ∈ a.msgs ∨ Sent (score a) x

def SF (a r : Raft) : Prop := SFP a (score r) r.msgs

theorem SF.core {a r : Raft} (h : SF a r) : score r = score a := SFP.core h
theorem SF.q {a r : Raft} (h : SF a r) : ∀ x ∈ r.msgs, x ∈ a.msgs ∨ Sent (score a) x := SFP.q h
theorem SF.rfl {r : Raft} : SF r r := ⟨Eq.refl _, fun _ hx => .inl hx⟩

theorem SF.term {a r : Raft} (h : SF a r) : r.term = a.term := congrArg SCore.term h.core
theorem SF.id {a r : Raft} (h : SF a r) : r.id = a.id := congrArg SCore.id h.core
theorem SF.state {a r : Raft} (h : SF a r) : r.state = a.state := congrArg SCore.state h.core
theorem SF.committed {a r : Raft} (h : SF a r) : r.raftLog.committed = a.raftLog.committed :=
  congrArg SCore.committed h.core
theorem SF.persisted {a r : Raft} (h : SF a r) : r.raftLog.persisted = a.raftLog.persisted :=
  congrArg SCore.persisted h.core
theorem SF.mtab {a r : Raft} (h : SF a r) : mfun r.prs = mfun a.prs := congrArg SCore.mtab h.core
theorem SF.conf {a r : Raft} (h : SF a r) : r.prs.conf = a.prs.conf := congrArg SCore.conf h.core
theorem SF.batch {a r : Raft} (h : SF a r) : r.batchAppend = a.batchAppend :=
  congrArg SCore.batch h.core
theorem SF.tm {a r : Raft} (h : SF a r) : r.raftLog.term = a.raftLog.term := congrArg SCore.tm h.core
theorem SF.last {a r : Raft} (h : SF a r) : r.raftLog.lastIndex = a.raftLog.lastIndex :=
  congrArg SCore.last h.core
theorem SF.lterm {a r : Raft} (h : SF a r) : r.raftLog.lastTerm = a.raftLog.lastTerm :=
  congrArg SCore.lterm h.core
theorem SF.vote {a r : Raft} (h : SF a r) : r.vote = a.vote := congrArg SCore.vote h.core

theorem SF.trans {a b c : Raft} (h1 : SF a b) (h2 : SF b c) : SF a c := by
  refine ⟨h2.core.trans h1.core, fun x hx => ?_⟩
  rcases h2.q x hx with g | g
  · exact h1.q x g
  · right; rw [← h1.core]; exact g

/-- any structure update that keeps `term`, `vote`, `id`, `state`, `raftLog`, `batchAppend`, `prs` and
`msgs` keeps `SF` -/
theorem SF.mk' {a r : Raft} {x4 : List ReadState} {x6 x7 x8 : Nat}
    {x10 : Bool} {x11 : Nat}
    {x12 : Option Nat} {x13 : Nat} {x14 : ReadOnly} {x15 x16 : Nat} {x17 x18 x19 x21 : Bool}
    {x22 x23 x24 x25 x26 : Nat} {x27 : Int} {x28 : UncommittedState} {x29 : Nat}
    {x32 : Option Nat} (h0 : SF a r) :
    SF a { term := r.term, vote := r.vote, id := r.id, readStates := x4, raftLog := r.raftLog,
           maxInflight := x6, maxMsgSize := x7, pendingRequestSnapshot := x8, state := r.state,
           promotable := x10, leaderId := x11, leadTransferee := x12,
           pendingConfIndex := x13, readOnly := x14, electionElapsed := x15,
           heartbeatElapsed := x16, checkQuorum := x17, preVote := x18,
           skipBcastCommit := x19, batchAppend := r.batchAppend, disableProposalForwarding := x21,
           heartbeatTimeout := x22, electionTimeout := x23, randomizedElectionTimeout := x24,
           minElectionTimeout := x25, maxElectionTimeout := x26, priority := x27,
           uncommittedState := x28, maxCommittedSizePerReady := x29, prs := r.prs, msgs := r.msgs,
           nextRand := x32 } := ⟨h0.core, h0.q⟩

/-- writing back a progress entry whose `matched` is unchanged -/
theorem SF.setPr {a r : Raft} {id : Nat} {pr : Progress} (h0 : SF a r)
    (h : ∀ old, r.prs.get id = some old → pr.matched = old.matched) :
    SF a { r with prs := r.prs.set id pr } := by
  refine ⟨?_, h0.q⟩
  rw [← h0.core]
  have := mfun_set r.prs id pr h
  unfold score
  dsimp only
  rw [this]
  rfl

/-- queueing one message that is `Sent` -/
theorem send_sf {a r r' : Raft} {m : Message} (h : r.send m = .ok r')
    (hs : Sent (score r) (r.sendFill m)) (h0 : SF a r) : SF a r' := by
  rw [send_eq r r' m h]
  refine ⟨h0.core, fun x hx => ?_⟩
  rcases List.mem_append.1 hx with hx | hx
  · exact h0.q x hx
  · right; rw [List.mem_singleton.1 hx, ← h0.core]; exact hs

/-- what `send` fills into a message built without sender and term, of a type that is stamped -/
theorem sendFill_lk (r : Raft) (m : Message) (hf : m.frm = 0) (ht : lkT m.msgType = true) :
    (r.sendFill m).frm = r.id ∧ (r.sendFill m).term = r.term ∧
    (r.sendFill m).msgType = m.msgType ∧ (r.sendFill m).commit = m.commit ∧
    (r.sendFill m).to = m.to := by
  unfold sendFill
  cases hm : m.msgType <;> rw [hm] at ht <;> simp_all [lkT, isVoteMsg]

end CC
end Raft
end RaftModel
