import RaftProofs.RaftLog
import RaftProps.C05b

/-!
Cluster-level Log Matching, helper lemmas part A: the *link* view of a logical log.

A logical log (`LLog`: snapshot point + contiguous entries) is read as a set of **links**: an entry
together with the term of its predecessor (`prevTerm`; the predecessor of the first entry is the
snapshot point, whose term may be unknown after a compaction).  The lists of entries that travel
(`MsgAppend`) and that sit in a storage are logical logs too (`msgLog`, `storeLog`).

* `Sub g h`: every link of `g` is a link of `h`;
* `Agree g h`: links of `g` and `h` with the same (index, term) carry the same entry and — where both
  know it — the same predecessor term.  `Agree` on two gap-free logs is Log Matching
  (`agree_matching`);
* `DerivedFrom C g`: every link of `g` is (at least as informative as) a link of some member of `C`;
  pairwise agreement of `C` is inherited by everything derived from it (`agree_of_derived`).
-/
namespace RaftModel

/-- the entries of `g` are numbered consecutively after the snapshot point -/
def LLog.Contig (g : LLog) : Prop := ContigFrom (g.snapIdx + 1) g.ents

/-- term of the predecessor of position `i`: the snapshot term (if known) for the first entry, the
term of the entry at `i - 1` otherwise -/
def LLog.prevTerm (g : LLog) (i : Nat) : Option Nat :=
  if i = g.snapIdx + 1 then g.snapTerm else (g.entryAt (i - 1)).map (·.term)

/-- the entries of a `MsgAppend`, anchored at `(index, log_term)` -/
def msgLog (m : Message) : LLog := { snapIdx := m.index, snapTerm := some m.logTerm, ents := m.entries }

/-- the entries of a storage, anchored at its snapshot point (exactly what `RaftLog::new` over that
storage represents) -/
def storeLog (s : MemStorage) : LLog :=
  { snapIdx := s.firstIndex - 1,
    snapTerm := if s.firstIndex - 1 = s.snapshotMetadata.index then some s.snapshotMetadata.term
                else none,
    ents := s.entries }

theorem LLog.entryAt_some_iff (g : LLog) (i : Nat) (e : Entry) :
    g.entryAt i = some e ↔ g.snapIdx < i ∧ g.ents[i - g.snapIdx - 1]? = some e := by
  unfold LLog.entryAt
  by_cases h : i ≤ g.snapIdx
  · rw [if_pos h]; constructor
    · intro h'; cases h'
    · intro h'; omega
  · rw [if_neg h]; constructor
    · intro h'; exact ⟨by omega, h'⟩
    · intro h'; exact h'.2

theorem LLog.entryAt_lt (g : LLog) {i : Nat} {e : Entry} (h : g.entryAt i = some e) :
    g.snapIdx < i ∧ i ≤ g.lastIndex := by
  obtain ⟨h1, h2⟩ := (g.entryAt_some_iff i e).1 h
  obtain ⟨h3, _⟩ := List.getElem?_eq_some_iff.1 h2
  unfold LLog.lastIndex
  omega

theorem LLog.entryAt_exists (g : LLog) {i : Nat} (h1 : g.snapIdx < i) (h2 : i ≤ g.lastIndex) :
    ∃ e, g.entryAt i = some e := by
  unfold LLog.lastIndex at h2
  have hlt : i - g.snapIdx - 1 < g.ents.length := by omega
  exact ⟨g.ents[i - g.snapIdx - 1], (g.entryAt_some_iff i _).2
    ⟨h1, List.getElem?_eq_some_iff.2 ⟨hlt, rfl⟩⟩⟩

theorem LLog.entryAt_mem (g : LLog) {i : Nat} {e : Entry} (h : g.entryAt i = some e) :
    e ∈ g.ents := by
  obtain ⟨_, h2⟩ := (g.entryAt_some_iff i e).1 h
  exact List.mem_of_getElem? h2

theorem LLog.Contig.index {g : LLog} (hc : g.Contig) {i : Nat} {e : Entry}
    (h : g.entryAt i = some e) : e.index = i := by
  obtain ⟨h1, h2⟩ := (g.entryAt_some_iff i e).1 h
  have := hc _ _ h2
  omega

theorem LLog.Contig.entryAt_of_mem {g : LLog} (hc : g.Contig) {e : Entry} (he : e ∈ g.ents) :
    g.entryAt e.index = some e := by
  obtain ⟨k, hk, rfl⟩ := List.getElem_of_mem he
  have hidx := hc k _ (List.getElem?_eq_some_iff.2 ⟨hk, rfl⟩)
  rw [g.entryAt_some_iff]
  refine ⟨by omega, ?_⟩
  rw [List.getElem?_eq_some_iff]
  exact ⟨by omega, by congr 1; omega⟩

/-- every link of `g` is a link of `h` -/
def Sub (g h : LLog) : Prop :=
  ∀ i e, g.entryAt i = some e →
    h.entryAt i = some e ∧ ∀ p, g.prevTerm i = some p → h.prevTerm i = some p

theorem Sub.refl (g : LLog) : Sub g g := fun _ _ h => ⟨h, fun _ hp => hp⟩

theorem Sub.trans {a b c : LLog} (h1 : Sub a b) (h2 : Sub b c) : Sub a c := by
  intro i e he
  obtain ⟨hb, hpb⟩ := h1 i e he
  obtain ⟨hc, hpc⟩ := h2 i e hb
  exact ⟨hc, fun p hp => hpc p (hpb p hp)⟩

theorem Sub.of_no_entries {g h : LLog} (hg : g.ents = []) : Sub g h := by
  intro i e he
  have := g.entryAt_mem he
  rw [hg] at this
  cases this

/-- links with the same (index, term) agree -/
def Agree (g h : LLog) : Prop :=
  ∀ i e e', g.entryAt i = some e → h.entryAt i = some e' → e.term = e'.term →
    e = e' ∧ ∀ p p', g.prevTerm i = some p → h.prevTerm i = some p' → p = p'

theorem Agree.self (g : LLog) : Agree g g := by
  intro i e e' h1 h2 _
  rw [h1] at h2
  cases h2
  exact ⟨rfl, fun p p' hp hp' => by rw [hp] at hp'; cases hp'; rfl⟩

theorem Agree.symm {g h : LLog} (ha : Agree g h) : Agree h g := by
  intro i e e' h1 h2 ht
  obtain ⟨he, hp⟩ := ha i e' e h2 h1 ht.symm
  exact ⟨he.symm, fun p p' hp1 hp2 => (hp p' p hp2 hp1).symm⟩

/-- every link of `g` is at most as informative as a link of a member of `C` -/
def DerivedFrom (C : LLog → Prop) (g : LLog) : Prop :=
  ∀ i e, g.entryAt i = some e →
    ∃ h, C h ∧ h.entryAt i = some e ∧ ∀ p, g.prevTerm i = some p → h.prevTerm i = some p

theorem DerivedFrom.of_sub {C : LLog → Prop} {g h : LLog} (hs : Sub g h) (hh : C h) :
    DerivedFrom C g := fun i e he => ⟨h, hh, (hs i e he).1, (hs i e he).2⟩

theorem DerivedFrom.of_mem {C : LLog → Prop} {g : LLog} (hg : C g) : DerivedFrom C g :=
  DerivedFrom.of_sub (Sub.refl g) hg

theorem DerivedFrom.mono {C D : LLog → Prop} {g : LLog} (h : DerivedFrom C g)
    (hcd : ∀ x, C x → D x) : DerivedFrom D g := by
  intro i e he
  obtain ⟨x, hx, h1, h2⟩ := h i e he
  exact ⟨x, hcd x hx, h1, h2⟩

theorem agree_of_derived {C : LLog → Prop} (hC : ∀ g h, C g → C h → Agree g h) {g1 g2 : LLog}
    (h1 : DerivedFrom C g1) (h2 : DerivedFrom C g2) : Agree g1 g2 := by
  intro i e e' he he' ht
  obtain ⟨x, hx, hxe, hxp⟩ := h1 i e he
  obtain ⟨y, hy, hye, hyp⟩ := h2 i e' he'
  obtain ⟨heq, hpp⟩ := hC x y hx hy i e e' hxe hye ht
  exact ⟨heq, fun p p' hp hp' => hpp p p' (hxp p hp) (hyp p' hp')⟩

/-- in a gap-free log the predecessor term of a position whose predecessor is an entry -/
theorem LLog.prevTerm_of_entry (g : LLog) {i : Nat} {a : Entry} (h : g.entryAt (i - 1) = some a)
    (hi : 0 < i) : g.prevTerm i = some a.term := by
  have := (g.entryAt_lt h).1
  unfold LLog.prevTerm
  rw [if_neg (by omega), h]
  rfl

/-- **Log Matching from agreement**: two gap-free logs that agree and hold entries with the same
term at `k` hold the same entry at every `k' ≤ k` at which both still hold one -/
theorem agree_matching {g h : LLog} (ha : Agree g h) :
    ∀ (d k : Nat) (e e' : Entry), g.entryAt k = some e → h.entryAt k = some e' → e.term = e'.term →
      ∀ k' a b, k' + d = k → g.entryAt k' = some a → h.entryAt k' = some b → a = b := by
  intro d
  induction d with
  | zero =>
    intro k e e' he he' ht k' a b hk ha' hb'
    have : k' = k := by omega
    subst this
    rw [he] at ha'; rw [he'] at hb'
    cases ha'; cases hb'
    exact (ha k' e e' he he' ht).1
  | succ n ih =>
    intro k e e' he he' ht k' a b hk ha' hb'
    -- both hold an entry at `k - 1`
    have hg1 := g.entryAt_lt he
    have hg2 := g.entryAt_lt ha'
    have hh1 := h.entryAt_lt he'
    have hh2 := h.entryAt_lt hb'
    obtain ⟨x, hx⟩ := g.entryAt_exists (i := k - 1) (by omega) (by omega)
    obtain ⟨y, hy⟩ := h.entryAt_exists (i := k - 1) (by omega) (by omega)
    have hp := (ha k e e' he he' ht).2 x.term y.term
      (g.prevTerm_of_entry hx (by omega)) (h.prevTerm_of_entry hy (by omega))
    exact ih (k - 1) x y hx hy hp k' a b (by omega) ha' hb'

/-! ### operations on a log -/

theorem LLog.append_entryAt_new (g : LLog) (es : List Entry) (i : Nat) (hi : g.lastIndex < i) :
    ({ g with ents := g.ents ++ es } : LLog).entryAt i = es[i - g.lastIndex - 1]? := by
  unfold LLog.entryAt LLog.lastIndex at *
  dsimp only
  rw [if_neg (by omega), List.getElem?_append_right (by omega)]
  congr 1
  omega

/-- appending at the end keeps every link -/
theorem Sub.append (g : LLog) (es : List Entry) : Sub g { g with ents := g.ents ++ es } := by
  intro i e he
  have hl := g.entryAt_lt he
  refine ⟨by rw [RaftProps.C05.c05_append_entryAt g es i hl.2]; exact he, ?_⟩
  intro p hp
  unfold LLog.prevTerm at hp ⊢
  dsimp only
  by_cases h1 : i = g.snapIdx + 1
  · rw [if_pos h1] at hp ⊢; exact hp
  · rw [if_neg h1] at hp ⊢
    rw [RaftProps.C05.c05_append_entryAt g es (i - 1) (by omega)]; exact hp

/-- … and the links at the old positions of the extended log are the old links -/
theorem LLog.append_old_link (g : LLog) (es : List Entry) (i : Nat) (hi : i ≤ g.lastIndex) :
    ({ g with ents := g.ents ++ es } : LLog).entryAt i = g.entryAt i ∧
    ({ g with ents := g.ents ++ es } : LLog).prevTerm i = g.prevTerm i := by
  refine ⟨RaftProps.C05.c05_append_entryAt g es i hi, ?_⟩
  unfold LLog.prevTerm
  dsimp only
  by_cases h1 : i = g.snapIdx + 1
  · rw [if_pos h1, if_pos h1]
  · rw [if_neg h1, if_neg h1, RaftProps.C05.c05_append_entryAt g es (i - 1) (by omega)]

theorem LLog.compactTo_entryAt (g : LLog) (k i : Nat) (_hk : k ≤ g.lastIndex) :
    (g.compactTo k).entryAt i = if i ≤ k then none else g.entryAt i := by
  unfold LLog.compactTo
  by_cases h : k ≤ g.snapIdx
  · rw [if_pos h]
    by_cases h2 : i ≤ k
    · rw [if_pos h2]; unfold LLog.entryAt; rw [if_pos (by omega)]
    · rw [if_neg h2]
  · rw [if_neg h]
    unfold LLog.entryAt LLog.lastIndex at *
    dsimp only
    by_cases h2 : i ≤ k
    · rw [if_pos h2, if_pos h2]
    · rw [if_neg h2, if_neg h2, if_neg (by omega), List.getElem?_drop]
      congr 1
      omega

/-- compaction only forgets links -/
theorem Sub.compactTo (g : LLog) (k : Nat) (hk : k ≤ g.lastIndex) : Sub (g.compactTo k) g := by
  have _ := hk
  by_cases h : k ≤ g.snapIdx
  · have : g.compactTo k = g := by unfold LLog.compactTo; rw [if_pos h]
    rw [this]; exact Sub.refl g
  · intro i e he
    rw [LLog.compactTo_entryAt g k i hk] at he
    by_cases h2 : i ≤ k
    · rw [if_pos h2] at he; cases he
    · rw [if_neg h2] at he
      refine ⟨he, ?_⟩
      intro p hp
      have hsi : (g.compactTo k).snapIdx = k := by unfold LLog.compactTo; rw [if_neg h]
      have hst : (g.compactTo k).snapTerm = none := by unfold LLog.compactTo; rw [if_neg h]
      unfold LLog.prevTerm at hp ⊢
      rw [hsi] at hp
      by_cases h3 : i = k + 1
      · rw [if_pos h3, hst] at hp; cases hp
      · rw [if_neg h3, LLog.compactTo_entryAt g k (i - 1) hk, if_neg (by omega)] at hp
        rw [if_neg (by omega)]
        exact hp

/-! ### a slice of a log with its anchor -/

/-- the term the log answers for a position it holds as an entry -/
theorem LLog.term_of_entry (g : LLog) {i : Nat} {a : Entry} (h : g.entryAt i = some a) :
    g.term i = .ok a.term := by
  have hl := g.entryAt_lt h
  unfold LLog.term
  rw [if_neg (by omega), if_neg (by omega), h]

/-- `term (n - 1) = ok t` for a position `n` that holds an entry gives the predecessor term -/
theorem LLog.prevTerm_of_term (g : LLog) {n t : Nat} {e : Entry} (hn : g.entryAt n = some e)
    (ht : g.term (n - 1) = .ok t) : g.prevTerm n = some t := by
  have hl := g.entryAt_lt hn
  unfold LLog.prevTerm
  by_cases h1 : n = g.snapIdx + 1
  · rw [if_pos h1]
    have h2 : n - 1 = g.snapIdx := by omega
    rw [h2] at ht
    unfold LLog.term at ht
    rw [if_neg (by unfold LLog.lastIndex; omega), if_pos rfl] at ht
    cases hs : g.snapTerm with
    | none => rw [hs] at ht; cases ht
    | some t' => rw [hs] at ht; cases ht; rfl
  · rw [if_neg h1]
    obtain ⟨a, ha⟩ := g.entryAt_exists (i := n - 1) (by omega) (by omega)
    rw [g.term_of_entry ha] at ht
    cases ht
    rw [ha]; rfl

/-- **a slice is a sub-log**: entries numbered from `n`, each the log's own entry at its index,
anchored at `(n - 1, term (n - 1))` -/
theorem sub_of_slice (g : LLog) (n t : Nat) (es : List Entry) (hn : 0 < n)
    (hc : ContigFrom n es) (hes : ∀ e ∈ es, g.entryAt e.index = some e)
    (ht : g.term (n - 1) = .ok t) :
    Sub { snapIdx := n - 1, snapTerm := some t, ents := es } g := by
  intro i e he
  obtain ⟨h1, h2⟩ := (LLog.entryAt_some_iff _ i e).1 he
  dsimp only at h1 h2
  have hidx := hc _ _ h2
  have hi : e.index = i := by omega
  have hmem := List.mem_of_getElem? h2
  have hge : g.entryAt i = some e := by rw [← hi]; exact hes e hmem
  refine ⟨hge, ?_⟩
  intro p hp
  unfold LLog.prevTerm at hp
  dsimp only at hp
  by_cases h3 : i = n - 1 + 1
  · rw [if_pos h3] at hp
    cases hp
    have : i = n := by omega
    subst this
    exact g.prevTerm_of_term hge ht
  · rw [if_neg h3] at hp
    cases hx : LLog.entryAt { snapIdx := n - 1, snapTerm := some t, ents := es } (i - 1) with
    | none => rw [hx] at hp; cases hp
    | some a =>
      rw [hx] at hp
      cases hp
      obtain ⟨h4, h5⟩ := (LLog.entryAt_some_iff _ (i - 1) a).1 hx
      dsimp only at h4 h5
      have hidx' := hc _ _ h5
      have hga : g.entryAt (i - 1) = some a := by
        have := hes a (List.mem_of_getElem? h5)
        rw [show a.index = i - 1 by omega] at this
        exact this
      exact g.prevTerm_of_entry hga (by omega)

/-! ### the follower's `maybe_append` -/

/-- the matched anchor of an append gives the predecessor term of the position after it -/
theorem LLog.prevTerm_of_match (g : LLog) {i t : Nat} (hm : g.matchTerm i t = true)
    (hs : g.snapIdx ≤ i) (hl : i ≤ g.lastIndex) : g.prevTerm (i + 1) = some t := by
  unfold LLog.matchTerm at hm
  unfold LLog.prevTerm
  by_cases h1 : i = g.snapIdx
  · rw [if_pos (by omega)]
    subst h1
    unfold LLog.term at hm
    rw [if_neg (by omega), if_pos rfl] at hm
    cases hst : g.snapTerm with
    | none => rw [hst] at hm; simp at hm
    | some t' =>
      rw [hst] at hm
      simp only [beq_iff_eq] at hm
      rw [hm]
  · rw [if_neg (by omega)]
    obtain ⟨a, ha⟩ := g.entryAt_exists (i := i) (by omega) hl
    rw [g.term_of_entry ha] at hm
    simp only [beq_iff_eq] at hm
    rw [show i + 1 - 1 = i by omega, ha, ← hm]
    rfl

/-- **the truncated-and-continued log is derived from the old log and the message**: `c` is the
first conflicting index (`m.index < c ≤ last + 1`), every entry of the batch below `c` matches the
log by term, the anchor matches -/
theorem derived_truncateAppend (g : LLog) (m : Message) (c : Nat) (C : LLog → Prop)
    (hg : C g) (hmC : C (msgLog m))
    (hc : ContigFrom (m.index + 1) m.entries) (hterms : ∀ e ∈ m.entries, e.term ≠ 0)
    (hsnap : g.snapIdx ≤ m.index) (hanchor : g.matchTerm m.index m.logTerm = true)
    (hc1 : m.index < c) (hc2 : c ≤ g.lastIndex + 1)
    (hall : ∀ e ∈ m.entries.take (c - (m.index + 1)), g.matchTerm e.index e.term = true) :
    DerivedFrom C (g.truncateAppend (c - 1) (m.entries.drop (c - (m.index + 1)))) := by
  have hlast : g.lastIndex = g.snapIdx + g.ents.length := rfl
  -- positions below `c` are the old ones
  have hlow : ∀ i, i < c → (g.truncateAppend (c - 1) (m.entries.drop (c - (m.index + 1)))).entryAt i =
      g.entryAt i := fun i hi => g.truncateAppend_entryAt _ _ i (by omega) (by omega)
  -- positions from `c` on are the message's
  have hhigh : ∀ i, c ≤ i →
      (g.truncateAppend (c - 1) (m.entries.drop (c - (m.index + 1)))).entryAt i =
        (msgLog m).entryAt i := by
    intro i hi
    unfold LLog.truncateAppend LLog.entryAt msgLog
    dsimp only
    rw [if_neg (by omega), if_neg (by omega)]
    rw [List.getElem?_append_right (by rw [List.length_take]; omega), List.length_take,
      List.getElem?_drop]
    congr 1
    omega
  have hsi : (g.truncateAppend (c - 1) (m.entries.drop (c - (m.index + 1)))).snapIdx = g.snapIdx := rfl
  have hst : (g.truncateAppend (c - 1) (m.entries.drop (c - (m.index + 1)))).snapTerm = g.snapTerm := rfl
  intro i e he
  by_cases hi : i < c
  · rw [hlow i hi] at he
    refine ⟨g, hg, he, ?_⟩
    intro p hp
    unfold LLog.prevTerm at hp ⊢
    rw [hsi, hst] at hp
    by_cases h1 : i = g.snapIdx + 1
    · rw [if_pos h1] at hp ⊢; exact hp
    · rw [if_neg h1] at hp ⊢
      rw [hlow (i - 1) (by omega)] at hp; exact hp
  · have hci : c ≤ i := by omega
    rw [hhigh i hci] at he
    refine ⟨msgLog m, hmC, he, ?_⟩
    intro p hp
    by_cases h2 : c < i
    · -- the predecessor is an entry of the message on both sides
      unfold LLog.prevTerm at hp ⊢
      rw [hsi] at hp
      rw [if_neg (by omega), hhigh (i - 1) (by omega)] at hp
      rw [if_neg (by show ¬ i = m.index + 1; omega)]
      exact hp
    · have hic : i = c := by omega
      subst hic
      have hgl : g.snapIdx < i := by omega
      -- predecessor term on the side of the new log: the old log's
      have hp' : g.prevTerm i = some p := by
        unfold LLog.prevTerm at hp ⊢
        rw [hsi, hst] at hp
        by_cases h1 : i = g.snapIdx + 1
        · rw [if_pos h1] at hp ⊢; exact hp
        · rw [if_neg h1] at hp ⊢
          rw [hlow (i - 1) (by omega)] at hp; exact hp
      by_cases h3 : i = m.index + 1
      · -- the anchor
        have := g.prevTerm_of_match hanchor hsnap (by omega)
        rw [← h3, hp'] at this
        cases this
        unfold LLog.prevTerm msgLog
        dsimp only
        rw [if_pos h3]
      · -- the entry of the batch just below the conflict matches by term
        have hk : i - 1 - (m.index + 1) < m.entries.length := by
          obtain ⟨_, h5⟩ := ((msgLog m).entryAt_some_iff i e).1 he
          obtain ⟨h6, _⟩ := List.getElem?_eq_some_iff.1 h5
          show i - 1 - (m.index + 1) < m.entries.length
          have : (msgLog m).snapIdx = m.index := rfl
          have : (msgLog m).ents = m.entries := rfl
          simp only [msgLog] at h6
          omega
        let a := m.entries[i - 1 - (m.index + 1)]
        have hget : m.entries[i - 1 - (m.index + 1)]? = some a :=
          List.getElem?_eq_some_iff.2 ⟨hk, rfl⟩
        have haidx : a.index = i - 1 := by have := hc _ _ hget; omega
        have hmem : a ∈ m.entries.take (i - (m.index + 1)) := by
          rw [List.mem_take_iff_getElem]
          exact ⟨i - 1 - (m.index + 1), by omega, rfl⟩
        have hmt := hall a hmem
        rw [haidx] at hmt
        have hmsg : (msgLog m).entryAt (i - 1) = some a := by
          rw [LLog.entryAt_some_iff]
          refine ⟨by show m.index < i - 1; omega, ?_⟩
          show m.entries[i - 1 - m.index - 1]? = some a
          rw [show i - 1 - m.index - 1 = i - 1 - (m.index + 1) by omega]; exact hget
        have hpm : (msgLog m).prevTerm i = some a.term := (msgLog m).prevTerm_of_entry hmsg (by omega)
        rw [hpm]
        have hge : g.prevTerm i = some a.term := by
          have := g.prevTerm_of_match (i := i - 1) hmt (by omega)
            (by have := g.matchTerm_le_last _ _ hmt (hterms a (List.mem_of_getElem? hget)); omega)
          rw [show i - 1 + 1 = i by omega] at this
          exact this
        rw [hp'] at hge
        exact hge.symm

/-! ### storages -/

theorem storeLog_eq_of_core {s s' : MemStorage} (he : s'.entries = s.entries)
    (hm : s'.snapshotMetadata = s.snapshotMetadata) : storeLog s' = storeLog s := by
  have hf : s'.firstIndex = s.firstIndex := by unfold MemStorage.firstIndex; rw [he, hm]
  unfold storeLog
  rw [he, hm, hf]

theorem storeLog_contig {s : MemStorage} (h : s.WF) : (storeLog s).Contig := by
  unfold LLog.Contig storeLog
  dsimp only
  have := h.first_pos
  rw [show s.firstIndex - 1 + 1 = s.firstIndex by omega]
  exact h.contig

/-- what `RaftLog::new` over a storage represents is the storage's own log -/
theorem abs_new {s : MemStorage} {limit : Nat} {l : RaftLog} (hw : s.WF)
    (h : RaftLog.new s limit = .ok l) : l.abs = storeLog s := by
  unfold RaftLog.new at h
  split at h
  · cases h
  · cases h
    unfold RaftLog.abs storeLog Unstable.new
    dsimp only
    have := hw.last_succ
    rw [List.take_of_length_le (by omega), List.append_nil]

end RaftModel
