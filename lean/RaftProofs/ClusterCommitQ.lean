import RaftProofs.ClusterCommitP

/-!
Cluster-level commit safety, part Q: the contract-abiding steps `KStep`, induction along a history, and
the first cluster invariant: every `matched` of a leader is backed by an accepting append response in
the transport (`MOKc`).
-/
namespace RaftModel
namespace Cluster
open Node Raft Raft.CC

/-- **a step of `ClusterSem` whose application obeys the storage and Ready contracts**: the four rules
of `Cluster.Step` with these extra premises —
* `call`: the log is never compacted (`compact` is not called: **proof gap**, see the report), and
  `commit_apply k` is called only for `k ≤ persisted` (the application records an applied index in its
  storage only for entries that are in that storage: `Ready` hands out committed entries up to
  `persisted + max_apply_unpersisted_log_limit`, default `0`) and only when term and vote are
  persisted (the `HardState` — term, vote, commit — is written as a whole: a commit index is never
  stored next to an older term);
* `send` (*persist before send*, the Ready contract for `persisted_messages`): a node that is not the
  leader hands its queue to the transport only when it has no unstable entries and no unstable
  snapshot — everything it may have acknowledged is in its storage; a leader's messages are sent
  immediately (its own acknowledgement is `on_persist_entries`). -/
inductive KStep : Sys → Sys → Prop where
  | call (s : Sys) (i : Nat) (st st' : NState) (rnd : Option Nat) (op : NodeOp) (res : OpRes) :
      s.node i = some st → appOp op = true → (∀ k, op ≠ .compact k) →
      (∀ k, op = .commitApply k → k ≤ st.raft.raftLog.persisted ∧ hsPersisted st) →
      Node.call st rnd op = .ok (res, st') →
      KStep s (s.setNode i st')
  | deliver (s : Sys) (i : Nat) (st st' : NState) (rnd : Option Nat) (m : Message) (res : OpRes) :
      s.node i = some st → m ∈ s.net → m.to = i → Node.call st rnd (.step m) = .ok (res, st') →
      KStep s (s.setNode i st')
  | send (s : Sys) (i : Nat) (st st' : NState) :
      s.node i = some st → hsPersisted st →
      (st.raft.state ≠ .leader →
        st.raft.raftLog.unstable.entries = [] ∧ st.raft.raftLog.unstable.snapshot = none) →
      Node.call st none .drain = .ok (.ok, st') →
      KStep s { (s.setNode i st') with net := s.net ++ st.raft.msgs }
  | restart (s : Sys) (i : Nat) (st st' : NState) (c : Config) (rnd : Option Nat) :
      s.node i = some st → c.id = i → Node.boot c st.raft.raftLog.store rnd = .ok (.ok st') →
      KStep s (s.setNode i st')

theorem KStep.cstep {s s' : Sys} (h : KStep s s') : CStep s s' := by
  cases h with
  | call i st st' rnd op res h1 h2 h3 _ h4 =>
    exact CStep.call s i st st' rnd op res h1 h2 (fun k hk => absurd hk (h3 k)) h4
  | deliver i st st' rnd m res h1 h2 h3 h4 => exact CStep.deliver s i st st' rnd m res h1 h2 h3 h4
  | send i st st' h1 h2 _ h3 => exact CStep.send s i st st' h1 h2 h3
  | restart i st st' c rnd h1 h2 h3 => exact CStep.restart s i st st' c rnd h1 h2 h3

theorem KStep.step {s s' : Sys} (h : KStep s s') : Step s s' := h.cstep.step

/-- induction along a list of states -/
theorem hist_induct (h : List Sys) (P : Nat → Sys → Prop)
    (h0 : ∀ s, h[0]? = some s → P 0 s)
    (hs : ∀ n a b, h[n]? = some a → h[n + 1]? = some b → P n a → P (n + 1) b) :
    ∀ n s, h[n]? = some s → P n s := by
  intro n
  induction n with
  | zero => exact h0
  | succ n ih =>
    intro s hn
    have hlt : n + 1 < h.length := by
      rcases Nat.lt_or_ge (n + 1) h.length with c | c
      · exact c
      · rw [List.getElem?_eq_none c] at hn; cases hn
    have ha : h[n]? = some h[n] := List.getElem?_eq_some_iff.2 ⟨by omega, rfl⟩
    exact hs n _ s ha hn (ih _ ha)

/-- no `MsgSnapshot` is ever in the transport (**proof gap**: snapshots are not covered) -/
def NoSnapNet (s : Sys) : Prop := ∀ x ∈ s.net, x.msgType ≠ .msgSnapshot

/-- an accepting append response of `j` for term `t` (or without term) with index at least `x` is in
`net` -/
def Anet (net : List Message) (j t x : Nat) : Prop :=
  ∃ a ∈ net, isAck a ∧ a.frm = j ∧ (a.term = t ∨ a.term = 0) ∧ x ≤ a.index

theorem Anet.anti {net : List Message} : ∀ j t x y, y ≤ x → Anet net j t x → Anet net j t y :=
  fun _ _ _ _ hle ⟨a, h1, h2, h3, h4, h5⟩ => ⟨a, h1, h2, h3, h4, Nat.le_trans hle h5⟩

theorem Anet.mono {net net' : List Message} (hsub : ∀ x ∈ net, x ∈ net') {j t x : Nat}
    (h : Anet net j t x) : Anet net' j t x := by
  obtain ⟨a, h1, h2⟩ := h
  exact ⟨a, hsub a h1, h2⟩

theorem _root_.RaftModel.Raft.CC.MOK.mono {A B : Nat → Nat → Nat → Prop} {r : Raft} (h : MOK A r)
    (hab : ∀ j t x, A j t x → B j t x) : MOK B r :=
  ⟨fun hs j x hx => (h.h hs j x hx).imp (fun g => g) (fun g => g.imp (fun g => g) (hab _ _ _))⟩

/-- every node's `matched` values are backed by the transport -/
def MOKc (s : Sys) : Prop := ∀ i st, s.node i = some st → MOK (Anet s.net) st.raft

/-- the per-call relation of a `call` / `deliver` step, with the transport as backing -/
theorem kstep_g {s : Sys} {i : Nat} {st st' : NState} {rnd : Option Nat} {op : NodeOp} {res : OpRes}
    (hm : MOKc s) (hnb : NoBatch s) (hsn : NoSnapNet s) (hi : s.node i = some st)
    (hop : appOp op = true ∨ ∃ m, op = .step m ∧ m ∈ s.net)
    (h : Node.call st rnd op = .ok (res, st')) :
    G (Anet s.net) st.raft (CV.opMsg op) st'.raft := by
  have hop' : op ≠ .drain ∧ ∀ m, op ≠ .rstep m := by
    rcases hop with h1 | ⟨m, h1, _⟩
    · constructor
      · intro hc; rw [hc] at h1; cases h1
      · intro m hc; rw [hc] at h1; cases h1
    · rw [h1]
      exact ⟨(by intro hc; cases hc), (by intro m' hc; cases hc)⟩
  refine call_g (Anet s.net) Anet.anti st st' rnd op res (hnb i st hi) (hm i st hi) hop' ?_ ?_ h
  · intro m hm'
    rcases hop with h1 | ⟨m', h1, h2⟩
    · rw [hm'] at h1; cases h1
    · rw [hm'] at h1; cases h1; exact hsn m h2
  · intro m hm' t hack
    rcases hop with h1 | ⟨m', h1, h2⟩
    · rw [hm'] at h1; cases h1
    · rw [hm'] at h1; cases h1
      exact ⟨m, h2, ⟨hack.1, hack.2.1⟩, rfl, hack.2.2, Nat.le_refl _⟩

theorem MOKc.kstep {s s' : Sys} (hm : MOKc s) (hnb : NoBatch s) (hsn : NoSnapNet s)
    (hstep : KStep s s') : MOKc s' := by
  have other : ∀ (k : Nat) (stk : NState) (net' : List Message), (∀ x ∈ s.net, x ∈ net') →
      MOK (Anet net') stk.raft → ∀ j stj, j ≠ k → s.node j = some stj → MOK (Anet net') stj.raft :=
    fun k stk net' hsub _ j stj _ hj => (hm j stj hj).mono (fun _ _ _ => Anet.mono hsub)
  cases hstep with
  | call k st st' rnd op res h1 h2 _ _ h4 =>
    intro j stj hj
    have g := kstep_g hm hnb hsn h1 (.inl h2) h4
    by_cases hjk : j = k
    · subst hjk
      rw [node_setNode_self] at hj; cases hj
      exact g.mok
    · rw [node_setNode_ne s k j st' hjk] at hj
      exact hm j stj hj
  | deliver k st st' rnd m res h1 h2 _ h4 =>
    intro j stj hj
    have g := kstep_g hm hnb hsn h1 (.inr ⟨m, rfl, h2⟩) h4
    by_cases hjk : j = k
    · subst hjk
      rw [node_setNode_self] at hj; cases hj
      exact g.mok
    · rw [node_setNode_ne s k j st' hjk] at hj
      exact hm j stj hj
  | send k st st' h1 _ _ h3 =>
    intro j stj hj
    have hsub : ∀ x ∈ s.net, x ∈ s.net ++ st.raft.msgs := fun x hx => List.mem_append_left _ hx
    have hj' : (s.setNode k st').node j = some stj := hj
    by_cases hjk : j = k
    · subst hjk
      rw [node_setNode_self] at hj'; cases hj'
      have hf : st'.raft.state = st.raft.state ∧ st'.raft.prs = st.raft.prs ∧
          st'.raft.id = st.raft.id ∧ st'.raft.raftLog = st.raft.raftLog ∧
          st'.raft.term = st.raft.term := by
        unfold Node.call at h3
        simp only [applyOp] at h3
        cases h3; exact ⟨rfl, rfl, rfl, rfl, rfl⟩
      obtain ⟨f1, f2, f3, f4, f5⟩ := hf
      have h0 := (hm j st h1).mono (fun _ _ _ => Anet.mono (net' := s.net ++ st.raft.msgs) hsub)
      constructor
      rw [f1, f2, f3, f4, f5]
      exact h0.h
    · rw [node_setNode_ne s k j st' hjk] at hj'
      exact (hm j stj hj').mono (fun _ _ _ => Anet.mono hsub)
  | restart k st st' c rnd h1 _ h3 =>
    intro j stj hj
    by_cases hjk : j = k
    · subst hjk
      rw [node_setNode_self] at hj; cases hj
      have hb := CV.boot_booted c _ rnd st' h3
      exact ⟨fun hs => by rw [hb.state] at hs; cases hs⟩
    · rw [node_setNode_ne s k j st' hjk] at hj
      exact hm j stj hj

theorem MOKc.init {s : Sys} (h : Init s) : MOKc s := by
  intro i st hi
  obtain ⟨c, store, rnd, _, hb⟩ := h.2 i st hi
  have := CV.boot_booted c store rnd st hb
  exact ⟨fun hs => by rw [this.state] at hs; cases hs⟩

end Cluster
end RaftModel
