import RaftProofs.ClusterLogK

/-!
Cluster-level Log Matching **with `batch_append`**, helper lemmas part A: the link view of a
`MsgAppend` that `try_batching` glued new entries onto.

`try_batching` checks index continuity only (`is_continuous_ents`).  The glued message is a chain whose
links are the links of the queued message, the links of the new entries (a slice of the sender's
log), and ONE junction link: the first new entry with the term of the *last position of the queued
message* as predecessor term.  That junction is a link of the sender's log iff the queued message is
*tail-compatible* with the log:

* `TailC g h`: the chain `g` ends within `h` and the predecessor term of the position after `g`'s end is
  the same in both (where both know it);
* `PrevKeep h h'`: the predecessor terms of `h'` at the positions up to one past the end of `h` are those of
  `h` (appending at the end and compacting keep them) — `TailC g h` then gives `TailC g h'`;
* `glue`: the chain glued from a tail-compatible `g` and a slice of `h` starting right after `g` is
  derived from `g` and `h` and is tail-compatible again.
-/
namespace RaftModel

/-- predecessor terms are kept (or forgotten) at the positions up to one past the end of `h` -/
def PrevKeep (h h' : LLog) : Prop :=
  ∀ i p, h'.prevTerm i = some p → i ≤ h.lastIndex + 1 → h.prevTerm i = some p

theorem PrevKeep.rfl (h : LLog) : PrevKeep h h := fun _ _ hp _ => hp

theorem PrevKeep.of_eq {h h' : LLog} (e : h' = h) : PrevKeep h h' := by
  subst e; exact PrevKeep.rfl _

/-- the predecessor terms at the old positions and one past them survive an append at the end -/
theorem LLog.prevTerm_append_old (g : LLog) (es : List Entry) (i : Nat) (hi : i ≤ g.lastIndex + 1) :
    ({ g with ents := g.ents ++ es } : LLog).prevTerm i = g.prevTerm i := by
  unfold LLog.prevTerm
  dsimp only
  by_cases h1 : i = g.snapIdx + 1
  · rw [if_pos h1, if_pos h1]
  · rw [if_neg h1, if_neg h1, RaftProps.C05.c05_append_entryAt g es (i - 1) (by omega)]

theorem PrevKeep.append (g : LLog) (es : List Entry) :
    PrevKeep g { g with ents := g.ents ++ es } := by
  intro i p hp hi
  rw [LLog.prevTerm_append_old g es i hi] at hp
  exact hp

theorem PrevKeep.compactTo (g : LLog) (k : Nat) (hk : k ≤ g.lastIndex) :
    PrevKeep g (g.compactTo k) := by
  intro i p hp _
  by_cases h : k ≤ g.snapIdx
  · have : g.compactTo k = g := by unfold LLog.compactTo; rw [if_pos h]
    rw [this] at hp; exact hp
  · have hsi : (g.compactTo k).snapIdx = k := by unfold LLog.compactTo; rw [if_neg h]
    have hst : (g.compactTo k).snapTerm = none := by unfold LLog.compactTo; rw [if_neg h]
    unfold LLog.prevTerm at hp ⊢
    rw [hsi] at hp
    by_cases h3 : i = k + 1
    · rw [if_pos h3, hst] at hp; cases hp
    · rw [if_neg h3, LLog.compactTo_entryAt g k (i - 1) hk] at hp
      by_cases h4 : i - 1 ≤ k
      · rw [if_pos h4] at hp; cases hp
      · rw [if_neg h4] at hp
        rw [if_neg (by omega)]
        exact hp

/-- **tail compatibility**: `g` ends within `h`, and the predecessor term of the position after the
end of `g` is the same in both where both know it -/
def TailC (g h : LLog) : Prop :=
  g.lastIndex ≤ h.lastIndex ∧
  ∀ p q, h.prevTerm (g.lastIndex + 1) = some p → g.prevTerm (g.lastIndex + 1) = some q → p = q

theorem TailC.mono {g h h' : LLog} (ht : TailC g h) (hl : h.lastIndex ≤ h'.lastIndex)
    (hk : PrevKeep h h') : TailC g h' :=
  ⟨Nat.le_trans ht.1 hl, fun p q hp hq => ht.2 p q (hk _ p hp (by have := ht.1; omega)) hq⟩

/-- the predecessor term of the position after the end of a chain that ends in an entry -/
theorem LLog.prevTerm_after_last (g : LLog) {e : Entry} (h : g.entryAt g.lastIndex = some e) :
    g.prevTerm (g.lastIndex + 1) = some e.term := by
  have := g.prevTerm_of_entry (i := g.lastIndex + 1) (by simpa using h) (by omega)
  exact this

/-- a chain whose last entry is an entry of `h` at its position is tail-compatible with `h` -/
theorem TailC.of_last_in {g h : LLog} {e : Entry} (hg : g.entryAt g.lastIndex = some e)
    (hh : h.entryAt g.lastIndex = some e) : TailC g h := by
  refine ⟨(h.entryAt_lt hh).2, fun p q hp hq => ?_⟩
  rw [g.prevTerm_after_last hg] at hq
  have := h.prevTerm_of_entry (i := g.lastIndex + 1) (by simpa using hh) (by omega)
  rw [this] at hp
  cases hp; cases hq; rfl

/-- `term (n - 1) = ok t` gives the predecessor term of `n` whenever the log knows one, also at
the position one past its end -/
theorem LLog.prevTerm_eq_of_term (g : LLog) {n t p : Nat} (hn : 0 < n)
    (hs : g.snapIdx < n) (hl : n ≤ g.lastIndex + 1)
    (ht : g.term (n - 1) = .ok t) (hp : g.prevTerm n = some p) : p = t := by
  unfold LLog.prevTerm at hp
  by_cases h1 : n = g.snapIdx + 1
  · rw [if_pos h1] at hp
    have h2 : n - 1 = g.snapIdx := by omega
    rw [h2] at ht
    unfold LLog.term at ht
    rw [if_neg (by unfold LLog.lastIndex; omega), if_pos rfl, hp] at ht
    cases ht; rfl
  · rw [if_neg h1] at hp
    obtain ⟨a, ha⟩ := g.entryAt_exists (i := n - 1) (by omega) (by omega)
    rw [g.term_of_entry ha] at ht
    rw [ha] at hp
    cases ht; cases hp; rfl

theorem LLog.lastIndex_append (g : LLog) (es : List Entry) :
    ({ g with ents := g.ents ++ es } : LLog).lastIndex = g.lastIndex + es.length := by
  unfold LLog.lastIndex
  simp only [List.length_append]
  omega

theorem DerivedFrom.trans' {C D : LLog → Prop} {g : LLog} (h : DerivedFrom C g)
    (hcd : ∀ x, C x → DerivedFrom D x) : DerivedFrom D g := by
  intro i e he
  obtain ⟨x, hx, h1, h2⟩ := h i e he
  obtain ⟨y, hy, h3, h4⟩ := hcd x hx i e h1
  exact ⟨y, hy, h3, fun p hp => h4 p (h2 p hp)⟩

/-- **gluing**: `g` is gap-free and tail-compatible with `h`; `es` is a non-empty slice of `h` that
starts right after the end of `g`, and `h` answers `t` for the term of the position before the
slice.  Then `g ++ es` is gap-free, every link of it is a link of `g` or of `h`, and it is
tail-compatible with `h`. -/
theorem glue (g h : LLog) (e0 : Entry) (es : List Entry) (t : Nat) (hgc : g.Contig) (htc : TailC g h)
    (hc : ContigFrom (g.lastIndex + 1) (e0 :: es))
    (hes : ∀ e ∈ e0 :: es, h.entryAt e.index = some e)
    (ht : h.term (g.lastIndex + 1 - 1) = .ok t) :
    ({ g with ents := g.ents ++ e0 :: es } : LLog).Contig ∧
    DerivedFrom (fun k => k = g ∨ k = h) { g with ents := g.ents ++ e0 :: es } ∧
    TailC { g with ents := g.ents ++ e0 :: es } h := by
  have hlast : g.lastIndex = g.snapIdx + g.ents.length := rfl
  have hcg' : ({ g with ents := g.ents ++ e0 :: es } : LLog).Contig := by
    unfold LLog.Contig
    dsimp only
    apply ContigFrom.append hgc
    rw [show g.snapIdx + 1 + g.ents.length = g.lastIndex + 1 by omega]
    exact hc
  have he0 : e0.index = g.lastIndex + 1 := by
    have := hc 0 e0 rfl; omega
  have hh0 : h.entryAt (g.lastIndex + 1) = some e0 := by
    rw [← he0]; exact hes e0 List.mem_cons_self
  refine ⟨hcg', ?_, ?_⟩
  · intro i e he
    by_cases hi : i ≤ g.lastIndex
    · obtain ⟨h1, h2⟩ := LLog.append_old_link g (e0 :: es) i hi
      rw [h1] at he
      exact ⟨g, .inl rfl, he, fun p hp => by rw [h2] at hp; exact hp⟩
    · have hi' : g.lastIndex < i := by omega
      rw [LLog.append_entryAt_new g (e0 :: es) i hi'] at he
      have hmem := List.mem_of_getElem? he
      have hidx : e.index = i := by have := hc _ _ he; omega
      have hhe : h.entryAt i = some e := by rw [← hidx]; exact hes e hmem
      refine ⟨h, .inr rfl, hhe, ?_⟩
      intro p hp
      by_cases hj : i = g.lastIndex + 1
      · -- the junction
        subst hj
        rw [LLog.prevTerm_append_old g (e0 :: es) _ (Nat.le_refl _)] at hp
        have hpt := h.prevTerm_of_term hh0 ht
        rw [hpt]
        have := htc.2 t p hpt hp
        rw [this]
      · -- inside the slice: the predecessor is an entry of the slice
        have hprev : ({ g with ents := g.ents ++ e0 :: es } : LLog).entryAt (i - 1) =
            (e0 :: es)[i - 1 - g.lastIndex - 1]? :=
          LLog.append_entryAt_new g (e0 :: es) (i - 1) (by omega)
        have hlt : i - 1 - g.lastIndex - 1 < (e0 :: es).length := by
          have := (List.getElem?_eq_some_iff.1 he).1
          omega
        have hget : (e0 :: es)[i - 1 - g.lastIndex - 1]? = some (e0 :: es)[i - 1 - g.lastIndex - 1] :=
          List.getElem?_eq_some_iff.2 ⟨hlt, rfl⟩
        rw [hget] at hprev
        have hidx' := hc _ _ hget
        have hha : h.entryAt (i - 1) = some (e0 :: es)[i - 1 - g.lastIndex - 1] := by
          have := hes _ (List.mem_of_getElem? hget)
          rw [show (e0 :: es)[i - 1 - g.lastIndex - 1].index = i - 1 by omega] at this
          exact this
        have h1 := LLog.prevTerm_of_entry _ hprev (by omega : 0 < i)
        rw [h1] at hp
        cases hp
        exact h.prevTerm_of_entry hha (by omega)
  · -- tail compatibility: the last entry of the slice is an entry of `h`
    have hl' := LLog.lastIndex_append g (e0 :: es)
    have hlen : (e0 :: es).length - 1 < (e0 :: es).length := by simp
    have hget : (e0 :: es)[(e0 :: es).length - 1]? = some (e0 :: es)[(e0 :: es).length - 1] :=
      List.getElem?_eq_some_iff.2 ⟨hlen, rfl⟩
    have hidx := hc _ _ hget
    have hpos : 0 < (e0 :: es).length := by simp
    have hgl : ({ g with ents := g.ents ++ e0 :: es } : LLog).entryAt
        ({ g with ents := g.ents ++ e0 :: es } : LLog).lastIndex =
        some (e0 :: es)[(e0 :: es).length - 1] := by
      rw [hl', LLog.append_entryAt_new g (e0 :: es) _ (by omega)]
      rw [show g.lastIndex + (e0 :: es).length - g.lastIndex - 1 = (e0 :: es).length - 1 by omega]
      exact hget
    refine TailC.of_last_in hgl ?_
    have := hes _ (List.mem_of_getElem? hget)
    rw [hl']
    rw [show (e0 :: es)[(e0 :: es).length - 1].index = g.lastIndex + (e0 :: es).length by omega]
      at this
    exact this

/-- a slice of `h` with its anchor — what `prepare_send_entries` builds — is tail-compatible with
`h` -/
theorem tc_of_slice (h : LLog) (n t : Nat) (es : List Entry) (hn : 0 < n)
    (hc : ContigFrom n es) (hes : ∀ e ∈ es, h.entryAt e.index = some e)
    (ht : h.term (n - 1) = .ok t) (hs : h.snapIdx < n) (hl : n ≤ h.lastIndex + 1) :
    TailC { snapIdx := n - 1, snapTerm := some t, ents := es } h := by
  cases hE : es.getLast? with
  | none =>
    have hnil : es = [] := by simpa using hE
    subst hnil
    have hli : ({ snapIdx := n - 1, snapTerm := some t, ents := [] } : LLog).lastIndex = n - 1 := rfl
    refine ⟨by rw [hli]; omega, fun p q hp hq => ?_⟩
    rw [hli, show n - 1 + 1 = n by omega] at hp hq
    have hq' : q = t := by
      unfold LLog.prevTerm at hq
      dsimp only at hq
      rw [if_pos (by omega)] at hq
      cases hq; rfl
    rw [hq']
    exact h.prevTerm_eq_of_term hn hs hl ht hp
  | some last =>
    have hne : es ≠ [] := by intro hc'; subst hc'; cases hE
    have hpos : 0 < es.length := List.length_pos_iff.2 hne
    have hget : es[es.length - 1]? = some last := by
      rw [List.getLast?_eq_getElem?] at hE; exact hE
    have hidx := hc _ _ hget
    have hli : ({ snapIdx := n - 1, snapTerm := some t, ents := es } : LLog).lastIndex =
        n - 1 + es.length := rfl
    have hgl : ({ snapIdx := n - 1, snapTerm := some t, ents := es } : LLog).entryAt
        ({ snapIdx := n - 1, snapTerm := some t, ents := es } : LLog).lastIndex = some last := by
      rw [LLog.entryAt_some_iff]
      refine ⟨by rw [hli]; show n - 1 < _; omega, ?_⟩
      rw [hli]
      show es[n - 1 + es.length - (n - 1) - 1]? = some last
      rw [show n - 1 + es.length - (n - 1) - 1 = es.length - 1 by omega]
      exact hget
    refine TailC.of_last_in hgl ?_
    have := hes last (List.mem_of_getElem? hget)
    rw [hli]
    rw [show last.index = n - 1 + es.length by omega] at this
    exact this

end RaftModel
