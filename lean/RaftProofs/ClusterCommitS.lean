import RaftProofs.ClusterCommitR
import RaftProps.C05c

/-!
Cluster-level commit safety, part S: the standing hypotheses on a history (`Hyp`), what the earlier
layers give for every state of such a history, and the leader's commit step.
-/
namespace RaftModel
namespace Cluster
open Node Raft Raft.CC

/-- **the standing hypotheses** on a history of `ClusterSem` (all explicit, see the report):
fixed voter configuration (as for Election Safety), the initial states and the absence of batching of
the Log Matching layer, contract-abiding steps (`KStep`), and no snapshot traffic -/
structure Hyp (cfg : JointConfig) (h : List Sys) : Prop where
  hist : History h
  fix : ∀ s ∈ h, FixedCfg cfg s
  ne : cfg.incoming ≠ []
  nd1 : cfg.incoming.Nodup
  nd2 : cfg.outgoing.Nodup
  init : ∀ s : Sys, h[0]? = some s → InitOk s
  steps : ∀ (n : Nat) (a b : Sys), h[n]? = some a → h[n + 1]? = some b → KStep a b
  nb : ∀ s ∈ h, NoBatch s
  nosnap : ∀ s ∈ h, NoSnapNet s

theorem mem_of_get {h : List Sys} {n : Nat} {s : Sys} (hn : h[n]? = some s) : s ∈ h :=
  List.mem_iff_getElem?.2 ⟨n, hn⟩

theorem Hyp.csteps {cfg : JointConfig} {h : List Sys} (H : Hyp cfg h) :
    ∀ (n : Nat) (a b : Sys), h[n]? = some a → h[n + 1]? = some b → CStep a b :=
  fun n a b ha hb => (H.steps n a b ha hb).cstep

/-- the Log Matching invariant in every state -/
theorem Hyp.invL {cfg : JointConfig} {h : List Sys} (H : Hyp cfg h) :
    ∃ s0, h[0]? = some s0 ∧ ∀ s ∈ h, InvL (Owner h) (EntriesOf s0) s :=
  RaftProps.C05.cluster_inv cfg H.ne H.nd1 H.nd2 h H.hist H.fix H.init H.csteps H.nb

/-- the matched tables are backed by the transport in every state -/
theorem Hyp.mokc {cfg : JointConfig} {h : List Sys} (H : Hyp cfg h) :
    ∀ (n : Nat) (s : Sys), h[n]? = some s → MOKc s := by
  refine hist_induct h (fun _ s => MOKc s) (fun s h0 => MOKc.init (hist_init H.hist s h0)) ?_
  intro n a b ha hb ih
  exact ih.kstep (H.nb a (mem_of_get ha)) (H.nosnap a (mem_of_get ha)) (H.steps n a b ha hb)

/-- **the leader's commit step**: when a step moves the commit index of a node that is leader after
the step, the entry at the new commit index carries the leader's term, and a joint quorum of the
leader's voters has `matched` at least the new commit index, each of them accounted for: the leader
itself with `persisted`, or an accepting append response in the transport -/
theorem Hyp.commit_step {cfg : JointConfig} {h : List Sys} (H : Hyp cfg h) (n : Nat) (a b : Sys)
    (ha : h[n]? = some a) (hb : h[n + 1]? = some b) (l : Nat) (sta stb : NState)
    (hla : a.node l = some sta) (hlb : b.node l = some stb) (hs : stb.raft.state = .leader)
    (hc : sta.raft.raftLog.committed < stb.raft.raftLog.committed) :
    stb.raft.raftLog.term stb.raft.raftLog.committed = .ok stb.raft.term ∧
    ∃ Q, IsJointQuorum cfg Q ∧ ∀ j ∈ Q,
      (j = l ∧ stb.raft.raftLog.committed ≤ stb.raft.raftLog.persisted) ∨
      Anet a.net j stb.raft.term stb.raft.raftLog.committed := by
  have hm := H.mokc n a ha
  have hnb := H.nb a (mem_of_get ha)
  have hsn := H.nosnap a (mem_of_get ha)
  have hfix := H.fix b (mem_of_get hb) l stb hlb
  obtain ⟨hid, _⟩ := ((hist_all H.hist).1 b (mem_of_get hb)).ids l stb hlb
  -- the relation of the step at node `l`
  have key : (∃ m, G (Anet a.net) sta.raft m stb.raft) ∨
      stb.raft.raftLog.committed = sta.raft.raftLog.committed ∨ stb.raft.state ≠ .leader := by
    cases H.steps n a b ha hb with
    | call k st st' rnd op res h1 h2 _ _ h4 =>
      by_cases hlk : l = k
      · subst hlk
        rw [node_setNode_self] at hlb; cases hlb
        rw [h1] at hla; cases hla
        exact .inl ⟨_, kstep_g hm hnb hsn h1 (.inl h2) h4⟩
      · rw [node_setNode_ne a k l st' hlk, hla] at hlb; cases hlb
        exact .inr (.inl rfl)
    | deliver k st st' rnd m res h1 h2 _ h4 =>
      by_cases hlk : l = k
      · subst hlk
        rw [node_setNode_self] at hlb; cases hlb
        rw [h1] at hla; cases hla
        exact .inl ⟨_, kstep_g hm hnb hsn h1 (.inr ⟨m, rfl, h2⟩) h4⟩
      · rw [node_setNode_ne a k l st' hlk, hla] at hlb; cases hlb
        exact .inr (.inl rfl)
    | send k st st' h1 _ _ h3 =>
      have hlb' : (a.setNode k st').node l = some stb := hlb
      by_cases hlk : l = k
      · subst hlk
        rw [node_setNode_self] at hlb'; cases hlb'
        rw [h1] at hla; cases hla
        right; left
        unfold Node.call at h3
        simp only [applyOp] at h3
        cases h3; rfl
      · rw [node_setNode_ne a k l st' hlk, hla] at hlb'; cases hlb'
        exact .inr (.inl rfl)
    | restart k st st' c rnd h1 _ h3 =>
      by_cases hlk : l = k
      · subst hlk
        rw [node_setNode_self] at hlb; cases hlb
        right; right
        rw [(CV.boot_booted c _ rnd stb h3).state]; intro hcc; cases hcc
      · rw [node_setNode_ne a k l st' hlk, hla] at hlb; cases hlb
        exact .inr (.inl rfl)
  rcases key with ⟨_, g⟩ | g | g
  · rcases g.lc hs with e | ⟨⟨Q, hQ, hQm⟩, hterm⟩
    · omega
    · refine ⟨hterm, Q, by rw [← hfix]; exact hQ, fun j hj => ?_⟩
      obtain ⟨x, hx, hle⟩ := hQm j hj
      rcases g.mok.h hs j x hx with d | ⟨d1, d2⟩ | d
      · omega
      · left; exact ⟨d1.trans hid, Nat.le_trans hle d2⟩
      · right; exact Anet.anti _ _ _ _ hle d
  · omega
  · exact absurd hs g

end Cluster
end RaftModel
