import RaftProofs.ClusterSnapF

/-!
Commit safety of `ClusterSem` with log compaction, part G: **what one step does to the ghost logs**
(`fnode_step`, `fcall_step`): exactly what a step without compaction does to the logical log
(`Cluster.NodeStep`) — a compaction is invisible —, the ghost version of an accepted `MsgAppend`
(`FAcc`, with `keep` / `agree` as for `Accepted`), and the relation between the two ghost logs of a
node (`NodeFull.persisted`).
-/
namespace RaftModel
namespace Cluster
namespace Snap
open Node Raft Raft.CC RaftProps.C02 RaftProps.C05

variable {cfg : JointConfig} {c0 : Nat} {h : List Sys}

/-- what an accepted `MsgAppend` does to the uncompacted log (`Accepted` without the snapshot point) -/
structure FAcc (g g' : LLog) (m : Message) : Prop where
  ents : ∀ e ∈ m.entries, g'.entryAt e.index = some e
  low : ∀ k, k ≤ m.index → g'.entryAt k = g.entryAt k
  cases : (∀ k, g'.entryAt k = g.entryAt k) ∨
    (¬ (∀ e ∈ m.entries, g.matchTerm e.index e.term = true) ∧
      g'.lastIndex = m.index + m.entries.length ∧
      ∀ k e, g'.entryAt k = some e → g.entryAt k = some e ∨ e ∈ m.entries)

/-- **what an accepted batch keeps** (as `Accepted.keep`) -/
theorem FAcc.keep {g g' L : LLog} {m : Message} (ha : FAcc g g' m)
    (hc : ContigFrom (m.index + 1) m.entries)
    (hsub : ∀ e ∈ m.entries, L.entryAt e.index = some e) {i : Nat}
    (hcompat : ∀ j, j ≤ i → ∀ e, L.entryAt j = some e → g.entryAt j = some e) :
    ∀ k, k ≤ i → g'.entryAt k = g.entryAt k := by
  intro k hk
  rcases ha.cases with e | ⟨hnm, _, _⟩
  · exact e k
  · by_cases hkm : k ≤ m.index
    · exact ha.low k hkm
    · have hex : ∃ e ∈ m.entries, g.matchTerm e.index e.term ≠ true := by
        apply Classical.byContradiction
        intro hno
        apply hnm
        intro e he
        apply Classical.byContradiction
        intro hne
        exact hno ⟨e, he, hne⟩
      obtain ⟨e, he, hne⟩ := hex
      have hei : i < e.index := by
        apply Classical.byContradiction
        intro hle
        have := hcompat e.index (by omega) e (hsub e he)
        exact hne (g.matchTerm_of_entry this)
      have hb := contig_index_lt hc he
      obtain ⟨ek, hek, hidx⟩ := contig_entry hc (k := k) (by omega) (by omega)
      have h1 := ha.ents ek hek
      have h2 := hcompat k hk ek (by rw [← hidx]; exact hsub ek hek)
      rw [hidx] at h1
      rw [h1, h2]

/-- **what the new log agrees with** (as `Accepted.agree`) -/
theorem FAcc.agree {g g' L : LLog} {m : Message} (ha : FAcc g g' m)
    (hc : ContigFrom (m.index + 1) m.entries)
    (hsub : ∀ e ∈ m.entries, L.entryAt e.index = some e)
    (hanchor : ∀ k, k ≤ m.index → g.entryAt k = L.entryAt k) :
    ∀ k, k ≤ m.index + m.entries.length → g'.entryAt k = L.entryAt k := by
  intro k hk
  by_cases hkm : k ≤ m.index
  · rw [ha.low k hkm]; exact hanchor k hkm
  · obtain ⟨ek, hek, hidx⟩ := contig_entry hc (k := k) (by omega) (by omega)
    have h1 := ha.ents ek hek
    have h2 := hsub ek hek
    rw [hidx] at h1 h2
    rw [h1, h2]

/-- the ghost version of an accepted batch -/
theorem facc_of {g g' F F' : LLog} {m : Message} {C : LLog → Prop}
    (hF : Full C c0 g F) (hF' : Full C c0 g' F') (ha : Accepted g g' m)
    (hlow : ∀ k, k ≤ g.snapIdx → F'.entryAt k = F.entryAt k) (hp : g.snapIdx ≤ m.index) :
    FAcc F F' m := by
  have hs := ha.snap.1
  have hcontig : ∀ e ∈ m.entries, g.snapIdx < e.index := by
    intro e he
    have := g'.entryAt_lt (ha.ents e he)
    rw [hs] at this
    exact this.1
  refine ⟨fun e he => hF'.entry (ha.ents e he), fun k hk => ?_, ?_⟩
  · by_cases hkp : k ≤ g.snapIdx
    · exact hlow k hkp
    · rw [hF'.ents k (by rw [hs]; omega), hF.ents k (by omega)]
      exact ha.low k hk
  · rcases ha.cases with c | ⟨c1, c2, c3⟩
    · left
      intro k
      by_cases hkp : k ≤ g.snapIdx
      · exact hlow k hkp
      · rw [hF'.ents k (by rw [hs]; omega), hF.ents k (by omega), c]
    · right
      refine ⟨fun hall => c1 (fun e he => ?_), by rw [hF'.last]; exact c2, fun k e hk => ?_⟩
      · have h1 := hall e he
        have hi := hcontig e he
        unfold LLog.matchTerm at h1 ⊢
        rw [hF.term_eq (Nat.le_of_lt hi) (.inr hi)] at h1
        exact h1
      · by_cases hkp : k ≤ g.snapIdx
        · left; rw [← hlow k hkp]; exact hk
        · rw [hF'.ents k (by rw [hs]; omega)] at hk
          rcases c3 k e hk with d | d
          · left; rw [hF.ents k (by omega)]; exact d
          · exact .inr d

/-- the restarted node's ghost log is the ghost stored log -/
theorem FL_restart {st st' : NState} (hl : st'.raft.raftLog.abs = storeLog st.raft.raftLog.store) :
    FL h c0 st' = FS h c0 st := by
  unfold FL FS; rw [hl]

theorem FL_same {st st' : NState} (hl : st'.raft.raftLog.abs = st.raft.raftLog.abs) :
    FL h c0 st' = FL h c0 st := by
  unfold FL; rw [hl]

theorem FS_same {st st' : NState}
    (hl : storeLog st'.raft.raftLog.store = storeLog st.raft.raftLog.store) :
    FS h c0 st' = FS h c0 st := by
  unfold FS; rw [hl]

/-- with nothing unstable the two ghost logs of a node coincide -/
theorem FL_eq_FS {i : Nat} {st : NState} (o : NodeOk i st)
    (he : st.raft.raftLog.unstable.entries = []) : FL h c0 st = FS h c0 st := by
  unfold FL FS; rw [abs_eq_storeLog o.inv o.snap he]

/-- the two ghost logs of a node hold the same entries up to `persisted` -/
theorem NodeFull.persisted {i : Nat} {st : NState} (I : NodeFull h c0 st) (o : NodeOk i st) {k : Nat}
    (hk : k ≤ st.raft.raftLog.persisted) : (FL h c0 st).entryAt k = (FS h c0 st).entryAt k := by
  by_cases hp : k ≤ st.raft.raftLog.abs.snapIdx
  · exact I.pre k hp
  · rw [I.log.ents k (by omega), I.sto.ents k (by rw [o.sidx]; omega)]
    exact o.inv.abs_store_persisted o.snap hk

/-- a retained entry is an entry of the ghost log -/
theorem NodeFull.real {st : NState} (I : NodeFull h c0 st) {k : Nat}
    (hk : st.raft.raftLog.abs.snapIdx < k) :
    (FL h c0 st).entryAt k = st.raft.raftLog.abs.entryAt k := I.log.ents k hk

/-- what one step does to the ghost log of one node -/
inductive FNodeStep (h : List Sys) (c0 : Nat) (a : Sys) (v : Nat) (sta stb : NState) : Prop
  /-- untouched (another node stepped, a `send`, a call that keeps the log, or a compaction) -/
  | same (hl : ∀ k, (FL h c0 stb).entryAt k = (FL h c0 sta).entryAt k)
      (hli : stb.raft.raftLog.abs.lastIndex = sta.raft.raftLog.abs.lastIndex)
  /-- a leader appended entries of its term -/
  | grew (es : List Entry) (hg : Appended sta.raft stb.raft es)
      (hl : ∀ k, k ≤ sta.raft.raftLog.abs.lastIndex →
        (FL h c0 stb).entryAt k = (FL h c0 sta).entryAt k)
      (hnew : ∀ k e, (FL h c0 stb).entryAt k = some e → sta.raft.raftLog.abs.lastIndex < k → e ∈ es)
  /-- a `MsgAppend` of the transport was accepted -/
  | acc (m : Message) (hm : m ∈ a.net) (hty : m.msgType = .msgAppend) (hto : m.to = v)
      (ha : FAcc (FL h c0 sta) (FL h c0 stb) m)
      (hanc : sta.raft.raftLog.abs.matchTerm m.index m.logTerm = true)
      (hc : stb.raft.raftLog.committed =
        max sta.raft.raftLog.committed (min m.commit (m.index + m.entries.length)))
      (hci : sta.raft.raftLog.committed ≤ m.index)
      (hs : stb.raft.state = .follower) (ht : m.term = stb.raft.term ∨ m.term = 0)
  /-- crash and restart: the log is the stored one -/
  | restart (hl : FL h c0 stb = FS h c0 sta)
      (hs : stb.raft.state = .follower)
      (ht : stb.raft.term = sta.raft.raftLog.store.hardState.term)

/-- … of the stepping node in a `call` / `deliver` step -/
inductive FCallStep (h : List Sys) (c0 : Nat) (a : Sys) (v : Nat) (sta stb : NState) : Prop
  | same (hl : ∀ k, (FL h c0 stb).entryAt k = (FL h c0 sta).entryAt k)
      (hli : stb.raft.raftLog.abs.lastIndex = sta.raft.raftLog.abs.lastIndex)
  | grew (es : List Entry) (hg : Appended sta.raft stb.raft es)
      (hl : ∀ k, k ≤ sta.raft.raftLog.abs.lastIndex →
        (FL h c0 stb).entryAt k = (FL h c0 sta).entryAt k)
      (hnew : ∀ k e, (FL h c0 stb).entryAt k = some e → sta.raft.raftLog.abs.lastIndex < k → e ∈ es)
  | acc (m : Message) (hm : m ∈ a.net) (hty : m.msgType = .msgAppend) (hto : m.to = v)
      (ha : FAcc (FL h c0 sta) (FL h c0 stb) m)
      (hanc : sta.raft.raftLog.abs.matchTerm m.index m.logTerm = true)
      (hc : stb.raft.raftLog.committed =
        max sta.raft.raftLog.committed (min m.commit (m.index + m.entries.length)))
      (hci : sta.raft.raftLog.committed ≤ m.index)
      (hs : stb.raft.state = .follower) (ht : m.term = stb.raft.term ∨ m.term = 0)

theorem FCallStep.node {a : Sys} {v : Nat} {sta stb : NState} (hs : FCallStep h c0 a v sta stb) :
    FNodeStep h c0 a v sta stb := by
  cases hs with
  | same hl hli => exact .same hl hli
  | grew es hg hl hnew => exact .grew es hg hl hnew
  | acc m hm hty hto ha hanc hc hci hs ht => exact .acc m hm hty hto ha hanc hc hci hs ht

/-- a call that is not a compaction keeps the ghost log up to the snapshot point -/
theorem ghost_low (H : Hyp2w cfg c0 h) {n : Nat} {a b : Sys} (ha : h[n]? = some a)
    (hb : h[n + 1]? = some b) {k : Nat} {st st' : NState} {rnd : Option Nat} {op : NodeOp}
    {res : OpRes} (hka : a.node k = some st) (hkb : b.node k = some st')
    (hop : appOp op = true ∨ ∃ m, op = .step m ∧ m ∈ a.net ∧ m.to = k)
    (hnc : ∀ j, op ≠ .compact j)
    (hcall : Node.call st rnd op = .ok (res, st')) :
    st'.raft.raftLog.abs.snapIdx = st.raft.raftLog.abs.snapIdx ∧
    ∀ i, i ≤ st.raft.raftLog.abs.snapIdx → (FL h c0 st').entryAt i = (FL h c0 st).entryAt i := by
  have Ia := node_full H n a ha k st hka
  have Ib := node_full H (n + 1) b hb k st' hkb
  have oa := node_ok H ha hka
  have ob := node_ok H hb hkb
  have hcs0 := call_step0 H ha hka hop hnc hcall
  obtain ⟨k1, k2, k3⟩ := callstep_keeps (c0 := c0) hcs0 oa Ia.log.ne
  have hF1 := Ia.log.splice k1 k2 (abs_Contig ob.inv) (hist_log hb hkb) k3 Ib.log.ne
  have hlo1 : (FL h c0 st).snapIdx ≤ st'.raft.raftLog.abs.snapIdx := by
    rw [Ia.log.snap, k1]; exact Ia.log.le
  have hlo2 : st'.raft.raftLog.abs.snapIdx ≤ (FL h c0 st).lastIndex := by
    rw [Ia.log.last, k1]; exact snap_le_last _
  refine ⟨k1, fun i hi => ?_⟩
  have := fl_eq (hist_agree H) hF1 i
  rw [splice_low hlo1 hlo2 (by rw [k1]; exact hi)] at this
  exact this

/-- the ghost version of a batch accepted in a step of the history -/
theorem facc_call (H : Hyp2w cfg c0 h) {n : Nat} {a b : Sys} (ha : h[n]? = some a)
    (hb : h[n + 1]? = some b) {k : Nat} {st st' : NState} {rnd : Option Nat} {m : Message}
    {res : OpRes} (hka : a.node k = some st) (hkb : b.node k = some st')
    (hm : m ∈ a.net) (hto : m.to = k)
    (hcall : Node.call st rnd (.step m) = .ok (res, st'))
    (hacc : Accepted st.raft.raftLog.abs st'.raft.raftLog.abs m)
    (hci : st.raft.raftLog.committed ≤ m.index) :
    FAcc (FL h c0 st) (FL h c0 st') m := by
  have Ia := node_full H n a ha k st hka
  have Ib := node_full H (n + 1) b hb k st' hkb
  have oa := node_ok H ha hka
  obtain ⟨_, hlow⟩ := ghost_low H ha hb hka hkb (.inr ⟨m, rfl, hm, hto⟩)
    (fun j hc => by cases hc) hcall
  exact facc_of Ia.log Ib.log hacc hlow (by have := oa.snap_le; omega)

/-- **what a `call` / `deliver` step does to the ghost log of its node** -/
theorem fcall_step (H : Hyp2w cfg c0 h) {n : Nat} {a b : Sys} (ha : h[n]? = some a)
    (hb : h[n + 1]? = some b) {k : Nat} {st st' : NState} {rnd : Option Nat} {op : NodeOp}
    {res : OpRes} (hka : a.node k = some st) (hkb : b.node k = some st')
    (hop : appOp op = true ∨ ∃ m, op = .step m ∧ m ∈ a.net ∧ m.to = k)
    (hco : ∀ j, op = .compact j → CompactOk st.raft.raftLog j)
    (hcall : Node.call st rnd op = .ok (res, st')) : FCallStep h c0 a k st st' := by
  have Ia := node_full H n a ha k st hka
  have Ib := node_full H (n + 1) b hb k st' hkb
  have oa := node_ok H ha hka
  have ob := node_ok H hb hkb
  by_cases hcomp : ∃ j, op = .compact j
  · obtain ⟨j, rfl⟩ := hcomp
    have ho := compact_out oa.inv oa.snap (hco j rfl) hcall
    obtain ⟨l1, _⟩ := ho.lt oa.inv
    have hF1 := (Ia.log.compact l1).congr ho.abs
    refine .same (fl_eq (hist_agree H) hF1) ?_
    rw [ho.abs]
    by_cases hle : j - 1 ≤ st.raft.raftLog.abs.snapIdx
    · unfold LLog.compactTo; rw [if_pos hle]
    · exact compactTo_lastIndex _ _ (Nat.le_of_lt (l1 (by omega)))
  · have hnc : ∀ j, op ≠ .compact j := fun j hj => hcomp ⟨j, hj⟩
    have hcs0 := call_step0 H ha hka hop hnc hcall
    obtain ⟨k1, hlow⟩ := ghost_low H ha hb hka hkb hop hnc hcall
    cases hcs0 with
    | same hl => exact .same (fun _ => by rw [FL_same hl]) (by rw [hl])
    | grew es hg =>
      refine .grew es hg (fun i hi => ?_) (fun i e he hi => ?_)
      · by_cases hip : i ≤ st.raft.raftLog.abs.snapIdx
        · exact hlow i hip
        · rw [Ib.log.ents i (by rw [k1]; omega), Ia.log.ents i (by omega), hg.abs]
          exact RaftProps.C05.c05_append_entryAt _ _ _ hi
      · have hsl := snap_le_last st.raft.raftLog.abs
        rw [Ib.log.ents i (by rw [k1]; omega), hg.abs, LLog.append_entryAt_new _ _ _ hi] at he
        exact List.mem_of_getElem? he
    | acc m hm hty hto hacc hc hci hs ht =>
      have hp : st.raft.raftLog.abs.snapIdx ≤ m.index := by have := oa.snap_le; omega
      exact .acc m hm hty hto (facc_of Ia.log Ib.log hacc hlow hp) hacc.anchor hc hci hs ht

/-- **what one step does to the ghost log of one node** -/
theorem fnode_step (H : Hyp2w cfg c0 h) {n : Nat} {a b : Sys} (ha : h[n]? = some a)
    (hb : h[n + 1]? = some b) {v : Nat} {sta stb : NState} (hva : a.node v = some sta)
    (hvb : b.node v = some stb) : FNodeStep h c0 a v sta stb := by
  obtain ⟨k, stk, stk', hka, hkb, hoth, hs⟩ := stp_of H ha hb
  by_cases hvk : v = k
  · subst hvk
    rw [hka] at hva; cases hva
    rw [hkb] at hvb; cases hvb
    cases hs with
    | call rnd op res hop hco _ hcall _ => exact (fcall_step H ha hb hka hkb hop hco hcall).node
    | send _ _ _ hsame _ =>
      exact .same (fun _ => by rw [FL_same (st := sta) (st' := stb) (by rw [hsame.1])])
        (by rw [hsame.1])
    | restart c rnd hboot _ =>
      have hbt := CV.boot_booted c _ rnd stb hboot
      obtain ⟨_, habs, _⟩ := boot_log c _ rnd stb (node_ok H ha hka).inv.storeWF hboot
      exact .restart (FL_restart habs) hbt.state hbt.term
  · rw [hoth v hvk, hva] at hvb
    cases hvb
    exact .same (fun _ => rfl) rfl

end Snap
end Cluster
end RaftModel
