import RaftProofs.ClusterConfI

/-!
C09 at the cluster level, part J: `promotable` IS "voter of my own active configuration" — in every
state of every (plain) history.  `PromOk r : r.promotable = Joint.contains r.prs.voters r.id`.
`post_conf_change` establishes it whenever the configuration is replaced (`apply_conf_change`,
`restore`, `RawNode::new`); every other call keeps the configuration (`call_conf`), the id and the flag
(`CV.call_nstep`).
-/
namespace RaftModel
namespace Raft
open VoteOb Node

/-- the `promotable` flag says "I am a voter (either half) of my own active configuration" -/
def PromOk (r : Raft) : Prop := r.promotable = Joint.contains r.prs.voters r.id

theorem voters_of_tc {a r : Raft} (h : TC a r) : r.prs.voters = a.prs.voters := by
  have hc : r.prs.conf = a.prs.conf := congrArg Tracker.conf h
  unfold ProgressTracker.voters
  rw [hc]

/-- same configuration, same id, same flag -/
theorem PromOk.of_same {a r : Raft} (h : PromOk a) (h1 : TC a r) (h2 : r.id = a.id)
    (h3 : r.promotable = a.promotable) : PromOk r := by
  unfold PromOk at *
  rw [h3, voters_of_tc h1, h2]; exact h

/-- **`post_conf_change` sets the flag** (raft.rs:2743), in every branch -/
theorem postConfChange_promOk {r r' : Raft} {cs : ConfState} (h : r.postConfChange = .ok (r', cs)) :
    PromOk r' := by
  have := Res.Post.of_eq (CV.postConfChange_cases r) h
  rcases this with ⟨_, hv, e⟩ | e | ⟨r2, hf, e⟩
  · have e' : r' = _ := e
    rw [e']
    unfold PromOk
    rw [CV.becomeFollower_promotable]
    have hk := c02_becomeFollower_keep ({ r with promotable := false } : Raft) r.term 0
    unfold ProgressTracker.voters
    rw [hk.conf, hk.id]
    exact hv.symm
  · have e' : r' = _ := e
    rw [e']
    rfl
  · have e' : r' = _ := e
    rw [e']
    have h1 : r2.promotable = Joint.contains r2.prs.voters r2.id := by
      rw [hf.promotable, hf.voters, hf.id]
    split
    · split
      · exact h1
      · exact h1
    · exact h1

theorem applyConfChange_promOk {r r' : Raft} {cc : ConfChangeV2} {x : Except ErrKind ConfState}
    (hp : PromOk r) (h : r.applyConfChange cc = .ok (r', x)) : PromOk r' := by
  unfold Raft.applyConfChange at h
  simp only [] at h
  split at h
  · cases h; exact hp
  · rw [Res.bind_eq_ok_iff] at h
    obtain ⟨⟨r1, cs⟩, hpc, h⟩ := h
    cases h
    exact postConfChange_promOk hpc

/-- `restore`: the tracker view, the id and the flag are kept, or the flag was set by
`post_conf_change` -/
theorem restore_prom {r r' : Raft} {snap : Snapshot} {b : Bool}
    (h : r.restore snap = .ok (r', b)) :
    (TC r r' ∧ r'.id = r.id ∧ r'.promotable = r.promotable) ∨ PromOk r' := by
  unfold Raft.restore at h
  simp only [] at h
  split at h
  · cases h; exact .inl ⟨TC.rfl, rfl, rfl⟩
  · split at h
    · split at h
      · cases h
      · cases h
        exact .inl ⟨becomeFollower_tc _ _ TC.rfl, (c02_becomeFollower_keep _ _ _).id,
          CV.becomeFollower_promotable _ _ _⟩
    · split at h
      · cases h; exact .inl ⟨TC.rfl, rfl, rfl⟩
      · split at h
        · cases h
        · cases h
        · split at h
          · cases h; exact .inl ⟨TC.mk' TC.rfl, rfl, rfl⟩
          · cases h
          · cases h
        · split at h
          · cases h
          · cases h
          · split at h
            · cases h
            · right
              rw [Res.bind_eq_ok_iff] at h
              obtain ⟨⟨r1, cs1⟩, hpc, h⟩ := h
              have h3 := postConfChange_promOk hpc
              simp only [] at h
              split at h
              · cases h
              · split at h
                · cases h
                · split at h
                  · cases h
                  · rw [Res.bind_eq_ok_iff] at h
                    obtain ⟨⟨pr2, u⟩, _, h⟩ := h
                    cases h
                    exact h3.of_same (TC.set _ _ (TC.mk' TC.rfl)) rfl rfl

theorem handleSnapshot_prom {r r' : Raft} {m : Message} (h : r.handleSnapshot m = .ok r') :
    (TC r r' ∧ r'.id = r.id ∧ r'.promotable = r.promotable) ∨ PromOk r' := by
  unfold Raft.handleSnapshot at h
  rw [Res.bind_eq_ok_iff] at h
  obtain ⟨⟨r1, ok⟩, hr, h⟩ := h
  simp only [] at h
  have hs : r' = { r1 with msgs := r'.msgs } := by
    split at h
    · rw [send_eq _ _ _ h]
    · rw [send_eq _ _ _ h]
  have hs1 : TC r1 r' ∧ r'.id = r1.id ∧ r'.promotable = r1.promotable := by
    rw [hs]; exact ⟨TC.mk' TC.rfl, rfl, rfl⟩
  rcases restore_prom hr with ⟨g1, g2, g3⟩ | g
  · exact .inl ⟨g1.trans hs1.1, hs1.2.1.trans g2, hs1.2.2.trans g3⟩
  · exact .inr (g.of_same hs1.1 hs1.2.1 hs1.2.2)

/-- **`Raft::step` keeps `PromOk`** -/
theorem step_promOk {r r' : Raft} {m : Message} {e : Option RaftError} (hp : PromOk r)
    (h : r.step m = .ok (r', e)) : PromOk r' := by
  have hv := Res.Post.of_eq (CV.step_vinv (CV.VInv.refl r m)) h
  have fromTC : TC r r' → PromOk r' := by
    intro htc
    rcases hv.pk with g | g
    · exact hp.of_same htc hv.id g
    · exact g
  by_cases hm : m.msgType = .msgSnapshot
  · obtain ⟨r1, b, ht, hc⟩ := c02_step_cases h
    have h1 : TC r r1 := stepTerm_tc ht TC.rfl
    have keep1 : r1.id = r.id ∧ r1.promotable = r.promotable := by
      rcases c02_stepTerm_cases ht with ⟨e1, _⟩ | ⟨_, _, _, x, hs, _⟩ | ⟨_, _, _, _, l, e1⟩
      · subst e1; exact ⟨rfl, rfl⟩
      · rw [send_eq _ _ _ hs]; exact ⟨rfl, rfl⟩
      · subst e1
        exact ⟨(c02_becomeFollower_keep _ _ _).id, CV.becomeFollower_promotable _ _ _⟩
    have hp1 : PromOk r1 := hp.of_same h1 keep1.1 keep1.2
    rcases hc with ⟨_, e1⟩ | ⟨_, ⟨hm', _⟩ | ⟨hm', _⟩ | ⟨_, _, _, ⟨_, hcand⟩ | ⟨_, hf⟩ | ⟨_, hl⟩⟩⟩
    · rw [e1]; exact hp1
    · rw [hm] at hm'; cases hm'
    · rcases hm' with q | q <;> (rw [hm] at q; cases q)
    · unfold Raft.stepCandidate at hcand
      simp only [hm] at hcand
      split at hcand
      · cases hcand
      · rw [Res.bind_eq_ok_iff] at hcand
        obtain ⟨r2, hh, hcand⟩ := hcand
        cases hcand
        have hbf : PromOk (r1.becomeFollower m.term m.frm) :=
          hp1.of_same (becomeFollower_tc _ _ TC.rfl) (c02_becomeFollower_keep _ _ _).id
            (CV.becomeFollower_promotable _ _ _)
        rcases handleSnapshot_prom hh with ⟨g1, g2, g3⟩ | g
        · exact hbf.of_same g1 g2 g3
        · exact g
    · unfold Raft.stepFollower at hf
      simp only [hm] at hf
      rw [Res.bind_eq_ok_iff] at hf
      obtain ⟨r2, hh, hf⟩ := hf
      cases hf
      have h0 : PromOk ({ r1 with electionElapsed := 0, leaderId := m.frm } : Raft) := hp1
      rcases handleSnapshot_prom hh with ⟨g1, g2, g3⟩ | g
      · exact h0.of_same g1 g2 g3
      · exact g
    · exact fromTC (h1.trans (stepLeader_tc hl TC.rfl))
  · exact fromTC (step_tc_other hm h TC.rfl)

/-- **one call of a node, any `NodeOp`, keeps `PromOk` and the id** -/
theorem call_promOk (st st' : NState) (rnd : Option Nat) (op : NodeOp) (res : OpRes)
    (hp : PromOk st.raft) (h : Node.call st rnd op = .ok (res, st')) :
    PromOk st'.raft ∧ st'.raft.id = st.raft.id := by
  have hn := CV.call_nstep st st' rnd op res h
  refine ⟨?_, hn.id⟩
  have fromTC : TC st.raft st'.raft → PromOk st'.raft := by
    intro htc
    rcases hn.pk with g | g
    · exact hp.of_same htc hn.id g
    · exact g
  have hc := call_conf st st' rnd op res h
  have hp' : PromOk ({ st.raft with nextRand := rnd } : Raft) := hp
  cases op with
  | applyConfChange cc =>
    unfold Node.call at h
    simp only [applyOp] at h
    split at h
    · rename_i raft cs heq
      cases h
      exact applyConfChange_promOk hp' heq
    · rename_i raft e heq
      cases h
      exact applyConfChange_promOk hp' heq
    · cases h
    · cases h
  | step m =>
    unfold Node.call at h
    simp only [applyOp] at h
    obtain ⟨raft, e, hx, hr⟩ := CV.unitRes_ok h
    rw [hr]
    unfold RawNode.step at hx
    split at hx
    · cases hx; exact hp'
    · split at hx
      · exact step_promOk hp' hx
      · cases hx; exact hp'
  | rstep m =>
    unfold Node.call at h
    simp only [applyOp] at h
    obtain ⟨raft, e, hx, hr⟩ := CV.unitRes_ok h
    rw [hr]
    exact step_promOk hp' hx
  | _ => exact fromTC hc

end Raft

namespace Cluster
open Node Raft

/-- every node carries its own id, and its `promotable` flag is "voter of my own configuration" -/
def PromAll (s : Sys) : Prop :=
  ∀ i st, s.node i = some st → st.raft.id = i ∧ PromOk st.raft

theorem boot_prom {c : Config} {store : MemStorage} {rnd : Option Nat} {st : NState}
    (h : Node.boot c store rnd = .ok (.ok st)) : st.raft.id = c.id ∧ PromOk st.raft :=
  ⟨(CV.boot_booted c store rnd st h).id, (CV.boot_booted c store rnd st h).prom⟩

theorem PromAll.init {s : Sys} (h : Init s) : PromAll s := by
  intro i st hi
  obtain ⟨c, store, rnd, hc, hb⟩ := h.2 i st hi
  obtain ⟨g1, g2⟩ := boot_prom hb
  exact ⟨g1.trans hc, g2⟩

theorem PromAll.setNode {s : Sys} (h : PromAll s) (k : Nat) (st' : NState)
    (hk : st'.raft.id = k ∧ PromOk st'.raft) : PromAll (s.setNode k st') := by
  intro i st hi
  by_cases hik : i = k
  · subst hik
    rw [node_setNode_self] at hi; cases hi; exact hk
  · rw [node_setNode_ne s k i st' hik] at hi
    exact h i st hi

theorem PromAll.step {s s' : Sys} (h : PromAll s) (hs : Step s s') : PromAll s' := by
  cases hs with
  | call i st st' rnd op res h1 _ h3 =>
    obtain ⟨g1, g2⟩ := call_promOk st st' rnd op res (h i st h1).2 h3
    exact h.setNode i st' ⟨g2.trans (h i st h1).1, g1⟩
  | deliver i st st' rnd m res h1 _ _ h4 =>
    obtain ⟨g1, g2⟩ := call_promOk st st' rnd (.step m) res (h i st h1).2 h4
    exact h.setNode i st' ⟨g2.trans (h i st h1).1, g1⟩
  | send i st st' h1 _ h3 =>
    obtain ⟨g1, g2⟩ := call_promOk st st' none .drain _ (h i st h1).2 h3
    have := h.setNode i st' ⟨g2.trans (h i st h1).1, g1⟩
    intro j stj hj
    exact this j stj hj
  | restart i st st' c rnd h1 h2 h3 =>
    obtain ⟨g1, g2⟩ := boot_prom h3
    exact h.setNode i st' ⟨g1.trans h2, g2⟩

/-- **`promotable` = "voter of my own active configuration", in every state of every history** -/
theorem prom_hist {h : List Sys} (hh : History h) : ∀ s ∈ h, PromAll s := by
  induction hh with
  | init s hs =>
    intro x hx
    simp only [List.mem_singleton] at hx
    subst hx; exact PromAll.init hs
  | step l a b _ hab ih =>
    intro x hx
    have hx' : x ∈ l ++ [a] ∨ x = b := by
      simp only [List.mem_append, List.mem_cons, List.not_mem_nil, or_false] at hx ⊢
      rcases hx with c | c | c
      · exact .inl (.inl c)
      · exact .inl (.inr c)
      · exact .inr c
    rcases hx' with c | c
    · exact ih x c
    · subst c
      exact (ih a (List.mem_append_right _ (List.mem_singleton.2 rfl))).step hab

end Cluster
end RaftModel
