import RaftProofs.ClusterConfA

/-!
C09 at the cluster level, helper lemmas part B: the tracker view `prs.toCC` through `restore`
(the only function besides `apply_conf_change` that replaces it: then it is `confchange::restore` of
the snapshot's `ConfState` on the empty tracker), the three role arms of `step`, `step`, `tick`, and
the remaining `Raft` methods the node's calls use.
-/
namespace RaftModel
namespace Raft
open VoteOb

/-- the tracker view of `r` is `confchange::restore` of `cs` from the empty tracker -/
def ConfRestored (cs : ConfState) (r : Raft) : Prop :=
  RaftModel.restore Tracker.empty cs = .ok r.prs.toCC

/-- what one `step m` may do to the tracker view: nothing, or — for a `MsgSnapshot` — replace it by
the restored `ConfState` of the snapshot -/
def TCS (a : Raft) (m : Message) (r : Raft) : Prop :=
  TC a r ∨ (m.msgType = .msgSnapshot ∧ ConfRestored m.snapshot.metadata.confState r)

theorem ConfRestored.of_tc {cs : ConfState} {r r' : Raft} (h : ConfRestored cs r) (h1 : TC r r') :
    ConfRestored cs r' := by
  unfold ConfRestored at *; unfold TC at h1; rw [h1]; exact h

theorem TCS.tc {a r r' : Raft} {m : Message} (h : TCS a m r) (h1 : TC r r') : TCS a m r' := by
  rcases h with h | ⟨hm, h⟩
  · exact .inl (h.trans h1)
  · exact .inr ⟨hm, h.of_tc h1⟩

theorem filterProposalEntry_tc {a r r' : Raft} {i : Nat} {e e' : Entry}
    (h : r.filterProposalEntry i e = some (r', e')) (h0 : TC a r) : TC a r' := by
  unfold Raft.filterProposalEntry at h
  tc_auto h [send_tc]

theorem filterProposal_tc {a : Raft} : ∀ (es : List Entry) (r r' : Raft) (i : Nat)
    (oes : Option (List Entry)), r.filterProposal i es = (r', oes) → TC a r → TC a r' := by
  intro es
  induction es with
  | nil => intro r r' i oes h h0; simp [Raft.filterProposal] at h; rw [← h.1]; exact h0
  | cons e es ih =>
    intro r r' i oes h h0
    unfold Raft.filterProposal at h
    split at h
    · cases h; exact h0
    · rename_i r1 e1 h1
      have h2 := filterProposalEntry_tc h1 h0
      split at h
      · rename_i r2 es2 h3
        cases h; exact ih _ _ _ _ h3 h2
      · rename_i r2 h3
        cases h; exact ih _ _ _ _ h3 h2

theorem stepLeader_tc {a r r' : Raft} {m : Message} {e : Option RaftError}
    (h : r.stepLeader m = .ok (r', e)) (h0 : TC a r) : TC a r' := by
  unfold Raft.stepLeader at h
  split at h
  · tc_auto h [bcastHeartbeat_tc]
  · split at h
    rename_i r1 active hq
    have h1 : TC a r1 := checkQuorumActive_tc hq h0
    split at h
    · cases h; exact becomeFollower_tc _ _ h1
    · cases h; exact h1
  · split at h
    · cases h
    · split at h
      · cases h; exact h0
      · split at h
        · cases h; exact h0
        · split at h
          · rename_i r1 hf
            cases h
            exact filterProposal_tc _ _ _ _ _ hf h0
          · rename_i r1 es hf
            have h1 : TC a r1 := filterProposal_tc _ _ _ _ _ hf h0
            tc_auto h [appendEntry_tc, bcastAppend_tc, h1]
  · tc_auto h [handleReadyReadIndex_tc, send_tc, bcastHeartbeatWithCtx_tc]
  · tc_auto h [handleAppendResponse_tc]
  · tc_auto h [handleHeartbeatResponse_tc]
  · cases h; exact handleSnapshotStatus_tc h0
  · cases h; exact handleUnreachable_tc h0
  · tc_auto h [handleTransferLeader_tc]
  · cases h; exact h0

theorem stepTerm_tc {a r r' : Raft} {m : Message} {b : Bool}
    (h : r.stepTerm m = .ok (r', b)) (h0 : TC a r) : TC a r' := by
  rcases c02_stepTerm_cases h with ⟨e, _⟩ | ⟨_, _, _, x, hs, _⟩ | ⟨_, _, _, _, l, e⟩
  · subst e; exact h0
  · exact send_tc hs h0
  · subst e; exact becomeFollower_tc _ _ h0

theorem stepVote_tc {a r r' : Raft} {m : Message}
    (h : r.stepVote m = .ok r') (h0 : TC a r) : TC a r' := by
  unfold Raft.stepVote at h
  split at h
  · cases h
  · split at h
    · unfold Raft.stepVoteGrant at h
      tc_auto h [send_tc]
    · unfold Raft.stepVoteReject at h
      tc_auto h [send_tc, maybeCommitByVote_tc]
    · cases h
    · cases h

theorem sendRequestSnapshot_tc {a r r' : Raft} (h : r.sendRequestSnapshot = .ok r')
    (h0 : TC a r) : TC a r' := by
  unfold Raft.sendRequestSnapshot at h
  tc_auto h [send_tc]

theorem handleAppendEntries_tc {a r r' : Raft} {m : Message}
    (h : r.handleAppendEntries m = .ok r') (h0 : TC a r) : TC a r' := by
  unfold Raft.handleAppendEntries at h
  tc_auto h [send_tc, sendRequestSnapshot_tc]

theorem handleHeartbeat_tc {a r r' : Raft} {m : Message}
    (h : r.handleHeartbeat m = .ok r') (h0 : TC a r) : TC a r' := by
  unfold Raft.handleHeartbeat at h
  tc_auto h [send_tc, sendRequestSnapshot_tc]

theorem clear_toCC (t : ProgressTracker) : t.clear.toCC = Tracker.empty := rfl

/-- **`Raft::restore`** (raft.rs:2640): the tracker view is kept (stale / fast-forwarded snapshot, a
non-follower stepping down, a snapshot whose configuration does not contain the node) or it is
`confchange::restore` of the snapshot's `ConfState` on the empty tracker -/
theorem restore_tc {a r r' : Raft} {snap : Snapshot} {b : Bool}
    (h : r.restore snap = .ok (r', b)) (h0 : TC a r) :
    TC a r' ∨ ConfRestored snap.metadata.confState r' := by
  unfold Raft.restore at h
  simp only [] at h
  split at h
  · cases h; exact .inl h0
  · split at h
    · split at h
      · cases h
      · cases h; exact .inl (becomeFollower_tc _ _ h0)
    · split at h
      · cases h; exact .inl h0
      · split at h
        · cases h
        · cases h
        · split at h
          · cases h; exact .inl (TC.mk' h0)
          · cases h
          · cases h
        · split at h
          · cases h
          · cases h
          · rename_i log hres
            split at h
            · cases h
            · rename_i prs hprs
              right
              rw [Res.bind_eq_ok_iff] at h
              obtain ⟨⟨r1, cs1⟩, hpc, h⟩ := h
              have h1 := (postConfChange_tc hpc TC.rfl).1
              have h2 := RaftProps.C09.C09_restore_is_restore r.prs.clear log.lastIndex snap.metadata.confState
              have hprs' : r.prs.clear.restore log.lastIndex snap.metadata.confState = .ok prs := hprs
              rw [hprs', clear_toCC] at h2
              simp only [] at h2
              have h3 : ConfRestored snap.metadata.confState r1 := by
                unfold ConfRestored
                unfold TC at h1
                rw [h1]
                exact h2.symm
              simp only [] at h
              split at h
              · cases h
              · split at h
                · cases h
                · split at h
                  · cases h
                  · rw [Res.bind_eq_ok_iff] at h
                    obtain ⟨⟨pr2, u⟩, _, h⟩ := h
                    cases h
                    exact h3.of_tc (TC.set _ _ (TC.mk' TC.rfl))

theorem handleSnapshot_tc {a r r' : Raft} {m : Message}
    (h : r.handleSnapshot m = .ok r') (h0 : TC a r) :
    TC a r' ∨ ConfRestored m.snapshot.metadata.confState r' := by
  unfold Raft.handleSnapshot at h
  rw [Res.bind_eq_ok_iff] at h
  obtain ⟨⟨r1, ok⟩, hr, h⟩ := h
  simp only [] at h
  have hs : TC r1 r' := by
    split at h
    · exact send_tc h TC.rfl
    · exact send_tc h TC.rfl
  rcases restore_tc hr h0 with g | g
  · exact .inl (g.trans hs)
  · exact .inr (g.of_tc hs)

theorem stepCandidate_tc {a r r' : Raft} {m : Message} {e : Option RaftError}
    (h : r.stepCandidate m = .ok (r', e)) (h0 : TC a r) : TCS a m r' := by
  unfold Raft.stepCandidate at h
  split at h
  · cases h; exact .inl h0
  · refine .inl ?_
    tc_auto h [handleAppendEntries_tc, becomeFollower_tc]
  · refine .inl ?_
    tc_auto h [handleHeartbeat_tc, becomeFollower_tc]
  · rename_i hm
    split at h
    · cases h
    · rw [Res.bind_eq_ok_iff] at h
      obtain ⟨r1, hh, h⟩ := h
      cases h
      rcases handleSnapshot_tc hh (becomeFollower_tc _ _ h0) with g | g
      · exact .inl g
      · exact .inr ⟨hm, g⟩
  · refine .inl ?_
    tc_auto h [poll_tc, maybeCommitByVote_tc]
  · refine .inl ?_
    tc_auto h [poll_tc, maybeCommitByVote_tc]
  · cases h; exact .inl h0

theorem stepFollower_tc {a r r' : Raft} {m : Message} {e : Option RaftError}
    (h : r.stepFollower m = .ok (r', e)) (h0 : TC a r) : TCS a m r' := by
  unfold Raft.stepFollower at h
  split at h
  · refine .inl ?_
    tc_auto h [send_tc]
  · refine .inl ?_
    tc_auto h [handleAppendEntries_tc]
  · refine .inl ?_
    tc_auto h [handleHeartbeat_tc]
  · rename_i hm
    rw [Res.bind_eq_ok_iff] at h
    obtain ⟨r1, hh, h⟩ := h
    cases h
    rcases handleSnapshot_tc hh (TC.mk' h0) with g | g
    · exact .inl g
    · exact .inr ⟨hm, g⟩
  · refine .inl ?_
    tc_auto h [send_tc]
  · refine .inl ?_
    tc_auto h [hup_tc]
  · refine .inl ?_
    tc_auto h [send_tc]
  · refine .inl ?_
    tc_auto h [send_tc]
  · cases h; exact .inl h0

/-- **`Raft::step`, every role, every message**: the tracker view is kept, or the message is a
`MsgSnapshot` and the view is the restored `ConfState` of its snapshot -/
theorem step_tc {a r r' : Raft} {m : Message} {e : Option RaftError}
    (h : r.step m = .ok (r', e)) (h0 : TC a r) : TCS a m r' := by
  obtain ⟨r1, b, ht, hc⟩ := c02_step_cases h
  have h1 : TC a r1 := stepTerm_tc ht h0
  rcases hc with ⟨_, e1⟩ | ⟨_, ⟨_, hh⟩ | ⟨_, hv⟩ | ⟨_, _, _, ⟨_, hc⟩ | ⟨_, hf⟩ | ⟨_, hl⟩⟩⟩
  · subst e1; exact .inl h1
  · exact .inl (hup_tc hh h1)
  · exact .inl (stepVote_tc hv h1)
  · exact stepCandidate_tc hc h1
  · exact stepFollower_tc hf h1
  · exact .inl (stepLeader_tc hl h1)

/-- a message that is not a `MsgSnapshot` keeps the tracker view -/
theorem step_tc_other {a r r' : Raft} {m : Message} {e : Option RaftError}
    (hm : m.msgType ≠ .msgSnapshot) (h : r.step m = .ok (r', e)) (h0 : TC a r) : TC a r' := by
  rcases step_tc h h0 with g | ⟨g, _⟩
  · exact g
  · exact absurd g hm

theorem stepIgnore_tc {a r r' : Raft} {m : Message} (hm : m.msgType ≠ .msgSnapshot)
    (h : r.stepIgnore m = .ok r') (h0 : TC a r) : TC a r' := by
  unfold Raft.stepIgnore at h
  rw [Res.bind_eq_ok_iff] at h
  obtain ⟨⟨r1, e⟩, hs, h⟩ := h
  cases h
  exact step_tc_other hm hs h0

theorem tickElection_tc {a r r' : Raft} {b : Bool} (h : r.tickElection = .ok (r', b))
    (h0 : TC a r) : TC a r' := by
  unfold Raft.tickElection at h
  simp only [] at h
  split at h
  · cases h; exact TC.mk' h0
  · rw [Res.bind_eq_ok_iff] at h
    obtain ⟨r1, hs, h⟩ := h
    cases h
    exact stepIgnore_tc (by simp [newMessage]) hs (TC.mk' h0)

theorem tickHeartbeat_tc {a r r' : Raft} {b : Bool} (h : r.tickHeartbeat = .ok (r', b))
    (h0 : TC a r) : TC a r' := by
  unfold Raft.tickHeartbeat at h
  simp only [] at h
  rw [Res.bind_eq_ok_iff] at h
  obtain ⟨⟨r1, b1⟩, hs, h⟩ := h
  have h1 : TC a r1 := by
    split at hs
    · rw [Res.bind_eq_ok_iff] at hs
      obtain ⟨⟨r2, b2⟩, hs2, hs⟩ := hs
      have h2 : TC a r2 := by
        split at hs2
        · rw [Res.bind_eq_ok_iff] at hs2
          obtain ⟨r3, hs3, hs2⟩ := hs2
          cases hs2
          exact stepIgnore_tc (by simp [newMessage]) hs3 (TC.mk' h0)
        · cases hs2; exact TC.mk' h0
      simp only [] at hs
      split at hs
      · cases hs; exact TC.mk' h2
      · cases hs; exact h2
    · cases hs; exact TC.mk' h0
  simp only [] at h
  split at h
  · cases h; exact h1
  · split at h
    · rw [Res.bind_eq_ok_iff] at h
      obtain ⟨r3, hs3, h⟩ := h
      cases h
      exact stepIgnore_tc (by simp [newMessage]) hs3 (TC.mk' h1)
    · cases h; exact h1

theorem tick_tc {a r r' : Raft} {b : Bool} (h : r.tick = .ok (r', b)) (h0 : TC a r) :
    TC a r' := by
  unfold Raft.tick at h
  split at h
  · exact tickElection_tc h h0
  · exact tickElection_tc h h0
  · exact tickElection_tc h h0
  · exact tickHeartbeat_tc h h0

end Raft
end RaftModel
