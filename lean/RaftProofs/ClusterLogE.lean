import RaftProofs.ClusterLogD

/-!
Cluster-level Log Matching, helper lemmas part E: the effect `Eff r r' m` of one call on the
log-related parts of a node (logical log in links, stored entries, queue of `MsgAppend`s), for
`Raft::step` and for the other entry points of the node model that keep the logical log.
-/
namespace RaftModel
namespace Raft

/-- the logical log grew at its end by entries of the (new) leader's term -/
def Grew (r r' : Raft) : Prop := ∃ es, Appended r r' es

/-- the effect of one call (input message `m`; only a delivered `MsgAppend` matters) -/
structure Eff (r r' : Raft) (m : Message) : Prop where
  inv : r'.raftLog.Inv
  /-- the stored entries: kept (or compacted), or replaced by the logical log (`stabilize`, which also
  writes the current term) -/
  sto : Sub (storeLog r'.raftLog.store) (storeLog r.raftLog.store) ∨
    (Sub (storeLog r'.raftLog.store) r.raftLog.abs ∧ r'.raftLog.store.hardState.term = r'.term)
  log : Sub r'.raftLog.abs r.raftLog.abs ∨ Grew r r' ∨
    (m.msgType = .msgAppend ∧ r'.state ≠ .leader ∧
      DerivedFrom (fun g => g = r.raftLog.abs ∨ g = msgLog m) r'.raftLog.abs)
  q : ∀ x ∈ r'.msgs, x.msgType = .msgAppend →
    x ∈ r.msgs ∨ SubW x r.raftLog.abs ∨ SubW x r'.raftLog.abs
  /-- a leader that stays leader of its term only appends -/
  keep : r.state = .leader → r'.state = .leader → r'.term = r.term →
    r.raftLog.lastIndex ≤ r'.raftLog.lastIndex ∧
    ∀ i e, r.raftLog.abs.entryAt i = some e → r'.raftLog.abs.snapIdx < i →
      r'.raftLog.abs.entryAt i = some e

theorem storeLog_same {l l' : RaftLog} (he : l'.store.entries = l.store.entries)
    (hm : l'.store.snapshotMetadata = l.store.snapshotMetadata) :
    Sub (storeLog l'.store) (storeLog l.store) := by
  rw [storeLog_eq_of_core he hm]; exact Sub.refl _

theorem K0.eff {r r' : Raft} {m : Message} (h : K0 r r') (hinv : r.raftLog.Inv) : Eff r r' m :=
  ⟨h.inv hinv, .inl (storeLog_same h.ls.ents h.ls.smeta), .inl (by rw [h.abs]; exact Sub.refl _),
    fun x hx hty => by
      rcases h.q x hx hty with c | c
      · exact .inl c
      · exact .inr (.inl c),
    fun _ _ _ => ⟨by rw [h.ls.same.last]; exact Nat.le_refl _, fun i e he _ => by rw [h.abs]; exact he⟩⟩

theorem AppendedK.eff {r r' : Raft} {m : Message} {es : List Entry} (h : AppendedK r r' es) :
    Eff r r' m :=
  ⟨h.app.inv, .inl (storeLog_same h.qs.ents h.qs.smeta), .inr (.inl ⟨es, h.app⟩),
    fun x hx hty => by
      rcases h.qs.q x hx hty with c | c
      · exact .inl c
      · exact .inr (.inr c),
    fun _ _ _ => ⟨by rw [h.app.last]; omega, fun i e he _ => by
      rw [h.app.abs]
      have hl := (r.raftLog.abs.entryAt_lt he).2
      rw [RaftProps.C05.c05_append_entryAt _ _ _ hl]; exact he⟩⟩

/-- **`Raft::step` as an effect** (batching off; a delivered `MsgAppend` is well-numbered with real
terms) -/
theorem step_eff {r r' : Raft} {m : Message} {e : Option RaftError} (hinv : r.raftLog.Inv)
    (hnb : r.batchAppend = false) (hw : m.msgType = .msgAppend → MsgOk m)
    (h : r.step m = .ok (r', e)) : Eff r r' m := by
  rcases step_k hinv hnb h with c | ⟨_, _, _, _, es, _, c⟩ | ⟨_, _, c⟩ | ⟨hm, hr, r0, c1, c2, c3⟩ |
    ⟨hm, hr, c⟩
  · exact c.eff hinv
  · exact c.eff
  · exact AppendedK.eff c
  · obtain ⟨e1, e2, e3, e4, e5, e6⟩ := handleAppendEntries_eff (c1.inv hinv) (hw hm) c3
    have hst : r'.state = .follower := e6.state.trans c2
    refine ⟨e1, .inl (storeLog_same (by rw [e2]; exact c1.ls.ents) (by rw [e2]; exact c1.ls.smeta)),
      .inr (.inr ⟨hm, by rw [hst]; decide, by rw [c1.abs] at e3; exact e3⟩), ?_, ?_⟩
    · intro x hx hty
      rcases c1.q x (e4 x hx hty) hty with d | d
      · exact .inl d
      · exact .inr (.inl d)
    · intro _ h2 _
      rw [hst] at h2; cases h2
  · refine ⟨c.res.inv, .inl (storeLog_same c.qn.ents c.qn.smeta),
      .inl (Sub.of_no_entries (by rw [c.res.abs]; rfl)), ?_, ?_⟩
    · intro x hx hty
      rcases c.qn.q x hx hty with d | d
      · exact .inl d
      · exact .inr (.inl d)
    · intro h1 _ h3
      rcases hr with hr | ⟨hr1, hr2⟩
      · exact absurd h1 hr
      · omega

/-- the same effect seen from a start state that differs in fields the effect does not read -/
theorem Eff.rebase {a r r' : Raft} {m : Message} (h : Eff r r' m) (hl : r.raftLog = a.raftLog)
    (hm : r.msgs = a.msgs) (hs : r.state = a.state) (ht : r.term = a.term) : Eff a r' m :=
  ⟨h.inv, by rw [← hl]; exact h.sto, by
    rcases h.log with c | ⟨es, c⟩ | c
    · exact .inl (by rw [← hl]; exact c)
    · exact .inr (.inl ⟨es, ⟨c.ne, by rw [← hl]; exact c.abs, by rw [← hl]; exact c.contig, c.terms,
        by rw [← hl]; exact c.last, c.inv, by rw [← hl]; exact c.commit, c.leader⟩⟩)
    · exact .inr (.inr (by rw [← hl]; exact c)),
    by rw [← hl, ← hm]; exact h.q, by rw [← hl, ← hs, ← ht]; exact h.keep⟩

theorem stepIgnore_eff {r r' : Raft} {m : Message} (hinv : r.raftLog.Inv)
    (hnb : r.batchAppend = false) (hw : m.msgType = .msgAppend → MsgOk m)
    (h : r.stepIgnore m = .ok r') : Eff r r' m := by
  unfold Raft.stepIgnore at h
  obtain ⟨⟨r1, e⟩, hs, h⟩ := Res.bind_eq_ok h
  cases h
  exact step_eff hinv hnb hw hs

/-! ### the entry points that keep the logical log -/

theorem postConfChange_k {a r r' : Raft} {cs : ConfState}
    (h : r.postConfChange = .ok (r', cs)) (h0 : K a r) : K a r' := by
  unfold Raft.postConfChange at h
  simp only at h
  split at h
  · cases h; exact becomeFollower_k _ _ (K.mk' h0)
  · split at h
    · cases h; exact K.mk' h0
    · obtain ⟨r1, hr1, h⟩ := Res.bind_eq_ok h
      have h1 : K a r1 := by
        split at hr1
        · rename_i r3 hm
          exact bcastAppend_k hr1 (maybeCommit_k hm (K.mk' h0))
        · rename_i r3 hm
          refine forEachPeer_k ?_ hr1 (maybeCommit_k hm (K.mk' h0))
          intro r id pr r' pr' hh hh0
          k_auto hh [maybeSendAppend_k]
        · cases hr1
        · cases hr1
      obtain ⟨r2, hr2, h⟩ := Res.bind_eq_ok h
      have h2 : K a r2 := by
        k_auto hr2 [respondReadStates_k]
      k_auto h [send_k]

theorem applyConfChange_k {a r r' : Raft} {cc : ConfChangeV2} {res : Except ErrKind ConfState}
    (h : r.applyConfChange cc = .ok (r', res)) (h0 : K a r) : K a r' := by
  unfold Raft.applyConfChange at h
  k_auto h [postConfChange_k]

theorem ping_k {a r r' : Raft} (h : r.ping = .ok r') (h0 : K a r) : K a r' := by
  unfold Raft.ping at h
  k_auto h [bcastHeartbeat_k]

theorem requestSnapshot_k {a r r' : Raft} {e : Option RaftError}
    (h : r.requestSnapshot = .ok (r', e)) (h0 : K a r) : K a r' := by
  unfold Raft.requestSnapshot at h
  k_auto h [sendRequestSnapshot_k]

theorem enableGroupCommit_k {a r r' : Raft} {b : Bool}
    (h : r.enableGroupCommit b = .ok r') (h0 : K a r) : K a r' := by
  unfold Raft.enableGroupCommit at h
  k_auto h [maybeCommit_k, bcastAppend_k]

theorem adjustMaxInflightMsgs_k {a r r' : Raft} {t c : Nat}
    (h : r.adjustMaxInflightMsgs t c = .ok r') (h0 : K a r) : K a r' := by
  unfold Raft.adjustMaxInflightMsgs at h
  k_auto h [K.rfl]

theorem assignCommitGroups_k {a r r' : Raft} {ids : List (Nat × Nat)}
    (h : r.assignCommitGroups ids = .ok r') (h0 : K a r) : K a r' := by
  unfold Raft.assignCommitGroups at h
  obtain ⟨r1, hr1, h⟩ := Res.bind_eq_ok h
  have h1 : K a r1 := by
    refine foldl_k _ ?_ _ _ hr1 (by intro r1 e; cases e; exact h0)
    intro acc p r2 h2
    cases acc with
    | err e => cases h2
    | panic s => cases h2
    | ok r0 =>
      refine ⟨r0, rfl, fun h0 => ?_⟩
      change (if p.2 = 0 then Res.panic _ else Res.ok _) = _ at h2
      split at h2
      · cases h2
      · cases h2; exact K.mk' h0
  k_auto h [maybeCommit_k, bcastAppend_k]

/-- `on_persist_entries`: only `persisted` (and on a leader possibly the commit index) moves -/
theorem onPersistEntries_k {r r' : Raft} {index term : Nat} (hinv : r.raftLog.Inv)
    (hnb : r.batchAppend = false) (h : r.onPersistEntries index term = .ok r') : K0 r r' := by
  unfold Raft.onPersistEntries at h
  split at h
  · cases h
  · cases h
  · rename_i log update hmp
    obtain ⟨l', b', hmp', hinv', habs', hc', _, _, _⟩ :=
      RaftProps.C14.C14_maybePersist_spec r.raftLog hinv index term
    rw [hmp] at hmp'
    cases hmp'
    have hsto := RaftModel.C06.maybePersist_store hmp
    have hlast : log.lastIndex = r.raftLog.lastIndex := by
      rw [hinv'.lastIndex_abs, hinv.lastIndex_abs, habs']
    have hls : LogSameS r.raftLog log :=
      ⟨⟨habs', hlast, fun _ => hinv', by omega⟩, by rw [hsto], by rw [hsto]⟩
    simp only [] at h
    have h0 : K r ({ r with raftLog := log } : Raft) := K.log hls K.rfl
    have : K r r' := by
      k_auto h [maybeCommit_k, bcastAppend_k]
    exact this hinv hnb

/-- `step` on a message type that cannot change the log -/
theorem stepIgnore_quiet_k {r r' : Raft} {m : Message} (hinv : r.raftLog.Inv)
    (hnb : r.batchAppend = false)
    (hm : RaftProps.C05.logChanging m.msgType = false) (h : r.stepIgnore m = .ok r') :
    K0 r r' := by
  unfold Raft.stepIgnore at h
  obtain ⟨⟨r1, e⟩, hs, h⟩ := Res.bind_eq_ok h
  cases h
  rcases step_k hinv hnb hs with c | ⟨c, _⟩ | ⟨c, _⟩ | ⟨c, _⟩ | ⟨c, _⟩
  · exact c
  · rw [c] at hm; cases hm
  · rcases c with c | c | c | c <;> rw [c] at hm <;> cases hm
  · rw [c] at hm; cases hm
  · rw [c] at hm; cases hm

theorem K0.of_fields {a r : Raft} (hl : r.raftLog = a.raftLog) (hb : r.batchAppend = a.batchAppend)
    (hm : r.msgs = a.msgs) : K0 a r :=
  ⟨by rw [hl]; exact LogSameS.rfl, hb, fun x hx _ => .inl (by rw [← hm]; exact hx)⟩

theorem stepIgnore_quiet_k' {a r r' : Raft} {m : Message} (h : r.stepIgnore m = .ok r')
    (hinv : a.raftLog.Inv)
    (hnb : a.batchAppend = false) (hl : r.raftLog = a.raftLog) (hb : r.batchAppend = a.batchAppend)
    (hms : r.msgs = a.msgs)
    (hm : RaftProps.C05.logChanging m.msgType = false) :
    K0 a r' :=
  (K0.of_fields hl hb hms).trans (stepIgnore_quiet_k (by rw [hl]; exact hinv) (hb.trans hnb) hm h)

theorem Eff.retag {r r' : Raft} {m m' : Message} (h : Eff r r' m) (hm : m.msgType ≠ .msgAppend) :
    Eff r r' m' :=
  ⟨h.inv, h.sto, by
    rcases h.log with c | c | ⟨c, _⟩
    · exact .inl c
    · exact .inr (.inl c)
    · exact absurd c hm, h.q, h.keep⟩

/-- `tick` on a leader keeps the logical log -/
theorem tick_leader_k {r r' : Raft} {b : Bool} (hinv : r.raftLog.Inv) (hnb : r.batchAppend = false)
    (hs : r.state = .leader) (h : r.tick = .ok (r', b)) : K0 r r' := by
  unfold Raft.tick at h
  rw [hs] at h
  simp only at h
  unfold Raft.tickHeartbeat at h
  simp only at h
  obtain ⟨⟨r1, b1⟩, h1, h⟩ := Res.bind_eq_ok h
  have hl1 : K0 r r1 := by
    split at h1
    · obtain ⟨⟨r2, b2⟩, h2, h1⟩ := Res.bind_eq_ok h1
      have hl2 : K0 r r2 := by
        split at h2
        · obtain ⟨r3, h3, h2⟩ := Res.bind_eq_ok h2
          cases h2
          exact stepIgnore_quiet_k' h3 hinv hnb rfl rfl rfl rfl
        · cases h2; exact K.rfl'
      simp only at h1
      split at h1
      · cases h1; exact hl2
      · cases h1; exact hl2
    · cases h1; exact K.rfl'
  simp only at h
  split at h
  · cases h; exact hl1
  · split at h
    · obtain ⟨r3, h3, h⟩ := Res.bind_eq_ok h
      cases h
      exact hl1.trans (stepIgnore_quiet_k' h3 (hl1.inv hinv) (hl1.ba.trans hnb) rfl rfl rfl rfl)
    · cases h; exact hl1

/-- **`tick` as an effect** -/
theorem tick_eff {r r' : Raft} {b : Bool} {m : Message} (hinv : r.raftLog.Inv) (hnb : r.batchAppend = false)
    (h : r.tick = .ok (r', b)) : Eff r r' m := by
  by_cases hs : r.state = .leader
  · exact (tick_leader_k hinv hnb hs h).eff hinv
  · have hel : r.tickElection = .ok (r', b) := by
      unfold Raft.tick at h
      cases hst : r.state <;> rw [hst] at h <;> first | exact h | exact absurd hst hs
    unfold Raft.tickElection at hel
    simp only at hel
    split at hel
    · cases hel
      refine K0.eff ?_ hinv
      exact K0.of_fields rfl rfl rfl
    · obtain ⟨r3, h3, hel⟩ := Res.bind_eq_ok hel
      cases hel
      have := stepIgnore_eff (r := ({ r with electionElapsed := 0 } : Raft)) hinv hnb
        (fun hc => by cases hc) h3
      exact (this.retag (by intro hc; cases hc)).rebase rfl rfl rfl rfl

end Raft
end RaftModel
