import RaftProofs.ClusterCommit2J
import RaftProps.C04b

/-!
Cluster-level commit safety, part 2K: **why the commit index of one `Raft::step` moved, with the log
the evidence was checked against** (`step_src`): `C04_step_commit_sources` where the intermediate state
is known to hold the logical log of the start state.
-/
namespace RaftModel
namespace Raft
namespace CC
open RaftProps.C04

theorem SameLog.ls {r r0 : Raft} (h : SameLog r r0) : LS r r0 := by
  show LogSame r.raftLog r0.raftLog
  rcases h.2.2.2 with e | e <;> rw [e]
  · exact LogSame.rfl
  · exact c05_limit_same _ _

/-- the term of a message that passed the term preamble -/
theorem stepTerm_term_cases {r r1 : Raft} {m : Message} (h : r.stepTerm m = .ok (r1, true)) :
    m.term ≤ r1.term ∨ m.msgType = .msgRequestPreVote ∨
    (m.msgType = .msgRequestPreVoteResponse ∧ m.reject = false) := by
  unfold Raft.stepTerm at h
  split at h
  · rename_i h0; left; omega
  · split at h
    · simp only at h
      split at h
      · cases h
      · split at h
        · rename_i hpv
          cases h
          rcases hpv with c | ⟨c1, c2⟩
          · exact .inr (.inl c)
          · exact .inr (.inr ⟨c1, by simpa using c2⟩)
        · split at h
          · cases h; left; rw [(becomeFollower_term_vote _ _ _).1]; exact Nat.le_refl _
          · cases h; left; rw [(becomeFollower_term_vote _ _ _).1]; exact Nat.le_refl _
    · split at h
      · split at h
        · split at h <;> cases h
        · split at h
          · split at h <;> cases h
          · cases h
      · cases h
        left; omega

/-- what the receiver knows about the term of a (pre-)vote message whose commit point it used -/
def VRecv (m : Message) (r' : Raft) : Prop :=
  m.term ≤ r'.term ∨ (m.msgType = .msgRequestPreVote ∧ m.term ≤ r'.term + 1) ∨
  (m.msgType = .msgRequestPreVoteResponse ∧ m.reject = false)

/-- the vote arm moves the commit index only under the term guard of a pre-vote request (fix F12);
it keeps the term -/
theorem stepVote_cond {r r' : Raft} {m : Message} (h : r.stepVote m = .ok r')
    (hch : r'.raftLog.committed ≠ r.raftLog.committed) :
    (m.msgType ≠ .msgRequestPreVote ∨ m.term ≤ r.term + 1) ∧ r'.term = r.term := by
  refine ⟨?_, (RaftProps.C16.stepVote_outcome h).1.term⟩
  have h0 : CP (fun x => x = r.raftLog.committed) r := ⟨rfl⟩
  unfold Raft.stepVote at h
  split at h
  · cases h
  · split at h
    · exfalso
      unfold Raft.stepVoteGrant at h
      have : CP (fun x => x = r.raftLog.committed) r' := by
        c04_auto h [send_cp]
      exact hch this.h
    · unfold Raft.stepVoteReject at h
      split at h
      · cases h
      · cases h
      · split at h
        · rename_i r1 hs
          have e1 := send_eq r r1 _ hs
          split at h
          · rename_i hc
            rw [e1] at hc
            exact hc
          · cases h
            exfalso
            apply hch
            rw [e1]
        · cases h
        · cases h
    · cases h
    · cases h

/-- **`Raft::step`: why the commit index moved** -/
theorem step_src {r r' : Raft} {m : Message} {e : Option RaftError} (hinv : r.raftLog.Inv)
    (h : r.step m = .ok (r', e)) :
    r'.raftLog.committed = r.raftLog.committed ∨
    (r.raftLog.committed < r'.raftLog.committed ∧
      ((r.state = .leader ∧ r'.state = .leader ∧ m.msgType = .msgAppendResponse) ∨
       ∃ r1 : Raft, LS r r1 ∧ r1.state ≠ .leader ∧
         CommitEvidence r1.raftLog m r'.raftLog.committed ∧ VRecv m r')) := by
  have hmono := C04_commit_monotone_step r r' m e h
  by_cases hch : r'.raftLog.committed = r.raftLog.committed
  · exact Or.inl hch
  right
  refine ⟨by omega, ?_⟩
  unfold Raft.step at h
  split at h
  · cases h
  · cases h
  · rename_i r0 hst
    cases h
    exact absurd (stepTerm_cp (P := fun x => x = r.raftLog.committed) hst ⟨rfl⟩).h hch
  · rename_i r0 hst
    have e0 : r0.raftLog.committed = r.raftLog.committed :=
      (stepTerm_cp (P := fun x => x = r.raftLog.committed) hst ⟨rfl⟩).h
    have hls : LS r r0 := (stepTerm_sameLog hst).ls
    have nochange : r'.raftLog.committed = r0.raftLog.committed → False :=
      fun hh => hch (hh.trans e0)
    have htc := stepTerm_term_cases hst
    split at h
    · obtain ⟨r2, h2, h⟩ := Res.bind_eq_ok h
      cases h
      exact absurd (hup_cp (P := fun x => x = r0.raftLog.committed) h2 ⟨rfl⟩).h nochange
    · split at h
      · rename_i r2 hv
        cases h
        rcases C04_vote_request_commit_source r0 _ m hv with e2 | ⟨_, hs, ev⟩
        · exact absurd e2 nochange
        · refine .inr ⟨r0, hls, hs, ev, ?_⟩
          obtain ⟨hcond, hterm⟩ := stepVote_cond hv (fun hc => nochange hc)
          rcases htc with c | c | c
          · exact .inl (by rw [hterm]; exact c)
          · rcases hcond with d | d
            · exact absurd c d
            · exact .inr (.inl ⟨c, by rw [hterm]; exact d⟩)
          · exact .inr (.inr c)
      · cases h
      · cases h
    · split at h
      · rename_i r2 hv
        cases h
        rcases C04_vote_request_commit_source r0 _ m hv with e2 | ⟨_, hs, ev⟩
        · exact absurd e2 nochange
        · refine .inr ⟨r0, hls, hs, ev, ?_⟩
          obtain ⟨hcond, hterm⟩ := stepVote_cond hv (fun hc => nochange hc)
          rcases htc with c | c | c
          · exact .inl (by rw [hterm]; exact c)
          · rcases hcond with d | d
            · exact absurd c d
            · exact .inr (.inl ⟨c, by rw [hterm]; exact d⟩)
          · exact .inr (.inr c)
      · cases h
      · cases h
    · rename_i hnh hnv hnp
      have hnpv : m.msgType ≠ .msgRequestPreVote := fun hc => hnp hc
      -- the dispatch keeps or raises the term
      have recv : r0.term ≤ r'.term → VRecv m r' := by
        intro hle
        rcases htc with c | c | c
        · exact .inl (Nat.le_trans c hle)
        · exact absurd c hnpv
        · exact .inr (.inr c)
      have cand : r0.state ≠ .leader → r0.stepCandidate m = .ok (r', e) →
          ∃ r1 : Raft, LS r r1 ∧ r1.state ≠ .leader ∧
            CommitEvidence r1.raftLog m r'.raftLog.committed ∧ VRecv m r' := by
        intro hs hc
        have hv := recv (stepCandidate_rt hc RT.rfl).le
        rcases C04_candidate_commit_sources r0 r' m e hc with
          e2 | ⟨_, ev | ⟨r1, res, hp, _, hs1, ev⟩⟩
        · exact absurd e2 nochange
        · exact ⟨r0, hls, hs, ev, hv⟩
        · rcases poll_grew (hls.inv hinv) LS.rfl hp with c | c
          · exact ⟨r1, hls.trans c, hs1, ev, hv⟩
          · exact absurd c.leader hs1
      split at h
      · rename_i hs; exact .inr (cand (by rw [hs]; simp) h)
      · rename_i hs; exact .inr (cand (by rw [hs]; simp) h)
      · rename_i hs
        rcases C04_follower_commit_sources r0 r' m e h with e2 | ⟨_, ev⟩
        · exact absurd e2 nochange
        · exact .inr ⟨r0, hls, by rw [hs]; simp, ev, recv (stepFollower_rt hs h RT.rfl).le⟩
      · rename_i hs
        left
        have hr0 : r0 = r := by
          rcases RaftProps.C16.stepTerm_true hst with g | ⟨_, _, _, l, g⟩
          · exact g
          · rw [g, (RaftProps.C16.becomeFollower_proj _ _ _).1] at hs; cases hs
        subst hr0
        refine ⟨hs, ?_⟩
        rcases stepLeader_commit h with e2 | ⟨hm, _⟩
        · exact absurd e2 nochange
        · refine ⟨?_, hm⟩
          unfold Raft.stepLeader at h
          rw [hm] at h
          simp only [] at h
          obtain ⟨r1, h1, h⟩ := Res.bind_eq_ok h
          cases h
          rw [(handleAppendResponse_frame h1 Frame.rfl).state]; exact hs

end CC
end Raft
end RaftModel
