import RaftProofs.ClusterSnapE

/-!
Commit safety of `ClusterSem` with log compaction, part F: one step of the history seen from the
stepping node (`Stp`, as `Cluster.Stp` with the compaction contract), and **the ghost-log invariant**
(`node_full`): in every state of a history under `Snap.Hyp2`, the logical log and the stored log of
every node have an uncompacted version (`Full`, chosen as `FL` / `FS`), and the two share the prefix
below the node's snapshot point.
-/
namespace RaftModel
namespace Cluster
namespace Snap
open Node Raft Raft.CC RaftProps.C02 RaftProps.C05

variable {cfg : JointConfig} {c0 : Nat} {h : List Sys}

/-- one step `a → b`, node `k` going from `st` to `st'` (`call` and `deliver` merged) -/
inductive Stp (a b : Sys) (k : Nat) (st st' : NState) : Prop
  | call (rnd : Option Nat) (op : NodeOp) (res : OpRes)
      (hop : appOp op = true ∨ ∃ m, op = .step m ∧ m ∈ a.net ∧ m.to = k)
      (hco : ∀ j, op = .compact j → CompactOk st.raft.raftLog j)
      (hca : ∀ j, op = .commitApply j → j ≤ st.raft.raftLog.persisted ∧ hsPersisted st)
      (hcall : Node.call st rnd op = .ok (res, st')) (hnet : b.net = a.net)
  | send (hp : hsPersisted st)
      (hu : st.raft.state ≠ .leader →
        st.raft.raftLog.unstable.entries = [] ∧ st.raft.raftLog.unstable.snapshot = none)
      (hq : st'.raft.msgs = [])
      (hsame : st'.raft.raftLog = st.raft.raftLog ∧ st'.raft.term = st.raft.term ∧
        st'.raft.state = st.raft.state)
      (hnet : b.net = a.net ++ st.raft.msgs)
  | restart (c : Config) (rnd : Option Nat)
      (hboot : Node.boot c st.raft.raftLog.store rnd = .ok (.ok st')) (hnet : b.net = a.net)

/-- every step of the history is such a step -/
theorem stp_of (H : Hyp2w cfg c0 h) {n : Nat} {a b : Sys} (ha : h[n]? = some a)
    (hb : h[n + 1]? = some b) :
    ∃ k st st', a.node k = some st ∧ b.node k = some st' ∧ (∀ v, v ≠ k → b.node v = a.node v) ∧
      Stp a b k st st' := by
  cases H.steps n a b ha hb with
  | call k st st' rnd op res h1 h2 h3 h5 h4 =>
    exact ⟨k, st, st', h1, node_setNode_self a k st', fun v hv => node_setNode_ne a k v st' hv,
      .call rnd op res (.inl h2) h3 h5 h4 rfl⟩
  | deliver k st st' rnd m res h1 h2 h3 h4 =>
    exact ⟨k, st, st', h1, node_setNode_self a k st', fun v hv => node_setNode_ne a k v st' hv,
      .call rnd (.step m) res (.inr ⟨m, rfl, h2, h3⟩) (fun j hc => by cases hc)
        (fun j hc => by cases hc) h4 rfl⟩
  | send k st st' h1 h2 h2' h3 =>
    have hf : st'.raft.msgs = [] ∧ st'.raft.raftLog = st.raft.raftLog ∧
        st'.raft.term = st.raft.term ∧ st'.raft.state = st.raft.state := by
      unfold Node.call at h3
      simp only [applyOp] at h3
      cases h3; exact ⟨rfl, rfl, rfl, rfl⟩
    exact ⟨k, st, st', h1, node_setNode_self a k st', fun v hv => node_setNode_ne a k v st' hv,
      .send h2 h2' hf.1 hf.2 rfl⟩
  | restart k st st' c rnd h1 h2 h3 =>
    exact ⟨k, st, st', h1, node_setNode_self a k st', fun v hv => node_setNode_ne a k v st' hv,
      .restart c rnd h3 rfl⟩

/-- the transport after the step: what was there, plus (for a `send`) the queue of the stepping node -/
theorem Stp.net_sub {a b : Sys} {k : Nat} {st st' : NState} (hs : Stp a b k st st') :
    ∀ x ∈ b.net, x ∈ a.net ∨ x ∈ st.raft.msgs := by
  intro x hx
  cases hs with
  | call _ _ _ _ _ _ _ hnet => rw [hnet] at hx; exact .inl hx
  | send _ _ _ _ hnet => rw [hnet] at hx; exact List.mem_append.1 hx
  | restart _ _ _ hnet => rw [hnet] at hx; exact .inl hx

theorem Stp.net_mono {a b : Sys} {k : Nat} {st st' : NState} (hs : Stp a b k st st') :
    ∀ x ∈ a.net, x ∈ b.net := by
  intro x hx
  cases hs with
  | call _ _ _ _ _ _ _ hnet => rw [hnet]; exact hx
  | send _ _ _ _ hnet => rw [hnet]; exact List.mem_append_left _ hx
  | restart _ _ _ hnet => rw [hnet]; exact hx

/-! ### the ghost-log invariant -/

/-- the ghost logs of a node: uncompacted versions of its logical log and of its stored log, with the
same entries up to the node's snapshot point -/
structure NodeFull (h : List Sys) (c0 : Nat) (st : NState) : Prop where
  log : Full (HistChain h) c0 st.raft.raftLog.abs (FL h c0 st)
  sto : Full (HistChain h) c0 (storeLog st.raft.raftLog.store) (FS h c0 st)
  pre : ∀ k, k ≤ st.raft.raftLog.abs.snapIdx → (FL h c0 st).entryAt k = (FS h c0 st).entryAt k

theorem NodeFull.of (H : Hyp2w cfg c0 h) {st : NState} {F G : LLog}
    (h1 : Full (HistChain h) c0 st.raft.raftLog.abs F)
    (h2 : Full (HistChain h) c0 (storeLog st.raft.raftLog.store) G)
    (h3 : ∀ k, k ≤ st.raft.raftLog.abs.snapIdx → F.entryAt k = G.entryAt k) : NodeFull h c0 st :=
  ⟨fl_spec h1, fl_spec h2, fun k hk => by
    unfold FL FS
    rw [fl_eq (hist_agree H) h1, fl_eq (hist_agree H) h2]; exact h3 k hk⟩

/-- what a step that is not a compaction does to the snapshot point and the first entry -/
theorem callstep_keeps {a : Sys} {v : Nat} {st st' : NState} (hs : Cluster.CallStep a v st st')
    (o : NodeOk v st)
    (hne : st.raft.raftLog.abs.snapTerm = none → c0 < st.raft.raftLog.abs.snapIdx →
      st.raft.raftLog.abs.ents ≠ []) :
    st'.raft.raftLog.abs.snapIdx = st.raft.raftLog.abs.snapIdx ∧
    st'.raft.raftLog.abs.snapTerm = st.raft.raftLog.abs.snapTerm ∧
    (st.raft.raftLog.abs.snapTerm = none → c0 < st.raft.raftLog.abs.snapIdx →
      st'.raft.raftLog.abs.entryAt (st.raft.raftLog.abs.snapIdx + 1) =
        st.raft.raftLog.abs.entryAt (st.raft.raftLog.abs.snapIdx + 1)) := by
  cases hs with
  | same hl => rw [hl]; exact ⟨rfl, rfl, fun _ _ => rfl⟩
  | grew es hg =>
    rw [hg.abs]
    refine ⟨rfl, rfl, fun hn hp => ?_⟩
    refine RaftProps.C05.c05_append_entryAt _ _ _ ?_
    have hlen : 0 < st.raft.raftLog.abs.ents.length := List.length_pos_iff.2 (hne hn hp)
    unfold LLog.lastIndex; omega
  | acc m _ _ _ hacc _ hci _ _ =>
    refine ⟨hacc.snap.1, hacc.snap.2, fun hn _ => hacc.low _ ?_⟩
    have hp := o.snap_le
    apply Classical.byContradiction
    intro hlt
    have heq : m.index = st.raft.raftLog.abs.snapIdx := by omega
    have hanc := hacc.anchor
    unfold LLog.matchTerm LLog.term at hanc
    rw [if_neg (by have := snap_le_last st.raft.raftLog.abs; omega), if_pos heq, hn] at hanc
    cases hanc

theorem node_full (H : Hyp2w cfg c0 h) : ∀ (n : Nat) (s : Sys), h[n]? = some s →
    ∀ v st, s.node v = some st → NodeFull h c0 st := by
  refine hist_induct h _ ?_ ?_
  · intro s h0 v st hv
    obtain ⟨_, sto, hboot, hwf, _, _⟩ := H.init s h0
    obtain ⟨c, rnd, hb⟩ := hboot v st hv
    obtain ⟨hinv, habs, hsl⟩ := boot_log c _ rnd st (hwf v st hv).1 hb
    have habs' : st.raft.raftLog.abs = storeLog st.raft.raftLog.store := habs.trans hsl.symm
    have hs : (storeLog st.raft.raftLog.store).snapIdx = c0 := by
      show st.raft.raftLog.store.firstIndex - 1 = c0
      rw [H.first0 s h0 v st hv]; rfl
    have hF : Full (HistChain h) c0 (storeLog st.raft.raftLog.store)
        (storeLog st.raft.raftLog.store) :=
      Full.self hs (storeLog_contig hinv.storeWF) (hist_store h0 hv)
    exact NodeFull.of H (hF.congr habs') hF (fun _ _ => rfl)
  · intro n a b ha hb ih v st' hvb
    obtain ⟨k, stk, stk', hka, hkb, hoth, hs⟩ := stp_of H ha hb
    by_cases hvk : v = k
    · subst hvk
      rw [hkb] at hvb; cases hvb
      have I := ih v stk hka
      have oa := node_ok H ha hka
      have ob := node_ok H hb hkb
      cases hs with
      | restart c rnd hboot hnet =>
        obtain ⟨_, habs, hsl⟩ := boot_log c _ rnd st' oa.inv.storeWF hboot
        exact NodeFull.of H (I.sto.congr habs) (I.sto.congr hsl) (fun _ _ => rfl)
      | send hp hu hq hsame hnet =>
        refine NodeFull.of H (I.log.congr (by rw [hsame.1])) (I.sto.congr (by rw [hsame.1]))
          (fun j hj => I.pre j (by rw [hsame.1] at hj; exact hj))
      | call rnd op res hop hco hca hcall hnet =>
        have hcs := call_step H ha hka hop hco hcall
        obtain ⟨_, hse, _⟩ := call_more H ha hka hop hco hcall
        by_cases hcomp : ∃ j, op = .compact j
        · -- a compaction: the ghost logs stay
          obtain ⟨j, rfl⟩ := hcomp
          have ho := compact_out oa.inv oa.snap (hco j rfl) hcall
          obtain ⟨l1, l2⟩ := ho.lt oa.inv
          have hF1 := (I.log.compact l1).congr ho.abs
          have hF2 := (I.sto.compact l2).congr ho.sto
          refine NodeFull.of H hF1 hF2 (fun i hi => ?_)
          rw [ho.abs, compactTo_snapIdx] at hi
          by_cases hi0 : i ≤ stk.raft.raftLog.abs.snapIdx
          · exact I.pre i hi0
          · rw [I.log.ents i (by omega), I.sto.ents i (by rw [oa.sidx]; omega)]
            exact oa.inv.abs_store_persisted oa.snap (by have := ho.ok.2; omega)
        · have hnc : ∀ j, op ≠ .compact j := fun j hj => hcomp ⟨j, hj⟩
          have hcs0 := call_step0 H ha hka hop hnc hcall
          obtain ⟨k1, k2, k3⟩ := callstep_keeps (c0 := c0) hcs0 oa I.log.ne
          have hne' : st'.raft.raftLog.abs.snapTerm = none → c0 < st'.raft.raftLog.abs.snapIdx →
              st'.raft.raftLog.abs.ents ≠ [] := by
            intro hn hp hnil
            rw [k2] at hn
            rw [k1] at hp
            have hne0 := I.log.ne hn hp
            have hlen : 0 < stk.raft.raftLog.abs.ents.length := List.length_pos_iff.2 hne0
            obtain ⟨f, hf⟩ := stk.raft.raftLog.abs.entryAt_exists
              (i := stk.raft.raftLog.abs.snapIdx + 1) (by omega) (by unfold LLog.lastIndex; omega)
            rw [← k3 hn hp] at hf
            have := st'.raft.raftLog.abs.entryAt_mem hf
            rw [hnil] at this
            cases this
          have hF1 := I.log.splice k1 k2 (abs_Contig ob.inv) (hist_log hb hkb) k3 hne'
          have hlo1 : (FL h c0 stk).snapIdx ≤ st'.raft.raftLog.abs.snapIdx := by
            rw [I.log.snap, k1]; exact I.log.le
          have hlo2 : st'.raft.raftLog.abs.snapIdx ≤ (FL h c0 stk).lastIndex := by
            rw [I.log.last, k1]; exact snap_le_last _
          rcases hse with c | c | ⟨j, c, _⟩
          · refine NodeFull.of H hF1 (I.sto.congr c.storeLog) (fun i hi => ?_)
            rw [splice_low hlo1 hlo2 hi]
            exact I.pre i (by rw [← k1]; exact hi)
          · subst c
            obtain ⟨u1, _⟩ := stabilize_out oa.inv oa.snap hcall
            have heq := abs_eq_storeLog ob.inv ob.snap u1
            exact NodeFull.of H hF1 (hF1.congr heq.symm) (fun _ _ => rfl)
          · exact absurd c (hnc j)
    · have hva : a.node v = some st' := by rw [← hoth v hvk]; exact hvb
      exact ih v st' hva

end Snap
end Cluster
end RaftModel
