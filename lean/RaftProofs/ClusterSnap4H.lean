import RaftProofs.ClusterSnap4G

/-!
(Copy of `ClusterCommit4H` for the relation `Raft.CS.PW` of `ClusterSnap4A`: no `QSnap` escape, the
`Snapshot` state allowed.)

Cluster-level commit safety, part 4H: `PW` through `tick`, `post_conf_change` / `apply_conf_change`,
`on_persist_entries`, `commit_apply`, the group-commit switches and the remaining `Raft`-level entry
points.
-/
namespace RaftModel
namespace Raft
namespace CS
open RaftProps.C13

/-! ### `tick` -/

theorem stepIgnore_pw {a r r' : Raft} {m : Message} (h : r.stepIgnore m = .ok r') (h0 : PW a r)
    (hna : m.msgType ≠ .msgAppend) (hms : m.msgType ≠ .msgSnapshot)
    (hnr : m.msgType ≠ .msgAppendResponse)
    (hQ : m.msgType = .msgSnapStatus → r.state = .leader → ∀ x ∈ r.msgs,
      x.msgType = .msgSnapshot → x.snapshot.metadata.index ≤ r.raftLog.lastIndex) : PW a r' := by
  unfold Raft.stepIgnore at h
  rw [Res.bind_eq_ok_iff] at h
  obtain ⟨⟨r1, e⟩, h1, h2⟩ := h
  cases h2
  exact step_pw h1 h0 hna hms (fun _ hc => absurd hc hnr) hQ

theorem tickElection_pw {a r r' : Raft} {b : Bool} (h : r.tickElection = .ok (r', b))
    (h0 : PW a r) : PW a r' := by
  unfold Raft.tickElection at h
  simp only [] at h
  split at h
  · cases h; exact PW.mk' h0
  · rw [Res.bind_eq_ok_iff] at h
    obtain ⟨r1, h1, h2⟩ := h
    cases h2
    exact stepIgnore_pw h1 (PW.mk' (r := { r with electionElapsed := r.electionElapsed + 1 })
      (PW.mk' h0)) (by intro hc; cases hc) (by intro hc; cases hc) (by intro hc; cases hc)
      (by intro hc; cases hc)

theorem tickHeartbeat_pw {a r r' : Raft} {b : Bool} (h : r.tickHeartbeat = .ok (r', b))
    (h0 : PW a r) : PW a r' := by
  unfold Raft.tickHeartbeat at h
  simp only [] at h
  rw [Res.bind_eq_ok_iff] at h
  obtain ⟨⟨r1, b1⟩, h1, h2⟩ := h
  have g0 : PW a ({ r with heartbeatElapsed := r.heartbeatElapsed + 1 } : Raft) := PW.mk' h0
  have g1 : PW a r1 := by
    split at h1
    · rw [Res.bind_eq_ok_iff] at h1
      obtain ⟨⟨r2, b2⟩, h3, h4⟩ := h1
      have g2 : PW a r2 := by
        split at h3
        · rw [Res.bind_eq_ok_iff] at h3
          obtain ⟨r3, h5, h6⟩ := h3
          cases h6
          exact stepIgnore_pw h5 (PW.mk' h0) (by intro hc; cases hc) (by intro hc; cases hc)
            (by intro hc; cases hc) (by intro hc; cases hc)
        · cases h3; exact PW.mk' h0
      dsimp only at h4
      split at h4
      · cases h4; exact PW.mk' g2
      · cases h4; exact g2
    · cases h1; exact PW.mk' h0
  dsimp only at h2
  split at h2
  · cases h2; exact g1
  · split at h2
    · rw [Res.bind_eq_ok_iff] at h2
      obtain ⟨r3, h5, h6⟩ := h2
      cases h6
      exact stepIgnore_pw h5 (PW.mk' g1) (by intro hc; cases hc) (by intro hc; cases hc)
        (by intro hc; cases hc) (by intro hc; cases hc)
    · cases h2; exact g1

theorem tick_pw {a r r' : Raft} {b : Bool} (h : r.tick = .ok (r', b)) (h0 : PW a r) :
    PW a r' := by
  unfold Raft.tick at h
  split at h
  · exact tickElection_pw h h0
  · exact tickElection_pw h h0
  · exact tickElection_pw h h0
  · exact tickHeartbeat_pw h h0

/-! ### `post_conf_change`, `apply_conf_change` -/

theorem maybeSendAppend_lw {a r r' : Raft} {to : Nat} {pr pr' : Progress} {ae b : Bool}
    (h : r.maybeSendAppend to pr ae = .ok (r', pr', b)) (h0 : LW a r) (hp : PQ r pr) :
    LW a r' ∧ PQ r' pr' := by
  obtain ⟨g1, g2⟩ := maybeSendAppend_pw h h0.1 hp
  exact ⟨⟨g1, (maybeSendAppend_frame h Frame.rfl).state.trans h0.2⟩, g2⟩

theorem recvAck_lw {a r : Raft} (id : Nat) (ctx : Bytes) (h0 : LW a r) :
    LW a { r with readOnly := (r.readOnly.recvAck id ctx).1 } := by
  refine ⟨h0.1.ro (fun hs p hp => ?_), h0.2⟩
  obtain ⟨q, hq, he⟩ := recvAck_index _ _ _ p hp
  rw [← he]; exact h0.1.rd hs q hq

theorem advance_lw {a r r' : Raft} {ro ro2 : ReadOnly} {ctx : Bytes} {rss : List ReadIndexStatus}
    (h0 : LW a { r with readOnly := ro }) (ha : ro.advance ctx = .ok (ro2, rss))
    (h : ({ r with readOnly := ro2 } : Raft).respondReadStates rss = .ok r') : LW a r' := by
  obtain ⟨s1, s2⟩ := advance_sub ha
  have g3 : LW a { r with readOnly := ro2 } :=
    ⟨(h0.1.ro (ro := ro2) (fun hs p hp => h0.1.rd hs p (s1 p hp))), h0.2⟩
  refine respondReadStates_lw h g3 (fun rs hrs => ?_)
  obtain ⟨k, hk⟩ := s2 rs hrs
  exact h0.1.rd h0.2 (k, rs) hk

theorem postConfChange_pw {a r r' : Raft} {cs : ConfState}
    (h : r.postConfChange = .ok (r', cs)) (h0 : PW a r) : PW a r' := by
  unfold Raft.postConfChange at h
  simp only [] at h
  have g0 : PW a { r with promotable := Joint.contains r.prs.voters r.id } := PW.mk' h0
  split at h
  · cases h; exact becomeFollower_pw _ _ g0
  · split at h
    · cases h; exact g0
    · rename_i hl
      have hlead : r.state = .leader := by
        apply Classical.byContradiction
        intro hc; exact hl (.inl hc)
      have l0 : LW a { r with promotable := Joint.contains r.prs.voters r.id } := ⟨g0, hlead⟩
      rw [Res.bind_eq_ok_iff] at h
      obtain ⟨r1, h1, h2⟩ := h
      have l1 : LW a r1 := by
        split at h1
        · rename_i r2 hm
          exact bcastAppend_lw h1 (maybeCommit_lw hm l0)
        · rename_i r2 hm
          refine forEachPeer_lw (fun r id pr r' pr' hf g hp => ?_) h1 (maybeCommit_lw hm l0)
          rw [Res.bind_eq_ok_iff] at hf
          obtain ⟨⟨r3, pr3, b3⟩, h3, h4⟩ := hf
          cases h4
          exact maybeSendAppend_lw h3 g hp
        · cases h1
        · cases h1
      rw [Res.bind_eq_ok_iff] at h2
      obtain ⟨r4, h3, h4⟩ := h2
      have l4 : LW a r4 := by
        split at h3
        · cases h3; exact l1
        · rename_i ctx hctx
          have l2 := recvAck_lw r1.id ctx l1
          split at h3
          · split at h3
            · rw [Res.bind_eq_ok_iff] at h3
              obtain ⟨⟨ro2, rss⟩, h5, h6⟩ := h3
              exact advance_lw l2 h5 h6
            · cases h3; exact l2
          · cases h3; exact l2
      cases h4
      split
      · split
        · exact (LW.mk' l4).1
        · exact l4.1
      · exact l4.1

theorem PAll.applyConf {ms : List Message} {li : Nat} {t : ProgressTracker} (h : PAll ms li t)
    (conf : Configuration)
    (changes : MapChange) : PAll ms li (t.applyConf conf changes li) := by
  unfold ProgressTracker.applyConf
  simp only []
  have key : ∀ (l : MapChange) (m : List (Nat × Progress)), (∀ p ∈ m, POk ms li p.2) →
      ∀ p ∈ l.foldl (fun m c => match c.2 with
        | .add => NatMap.insert c.1 { Progress.new li t.maxInflight with recentActive := true } m
        | .remove => NatMap.erase c.1 m) m, POk ms li p.2 := by
    intro l
    induction l with
    | nil => intro m hm; exact hm
    | cons c rest ih =>
      intro m hm
      simp only [List.foldl_cons]
      apply ih
      intro p hp
      split at hp
      · rcases mem_insert hp with d | d
        · rw [d]
          exact ⟨Nat.zero_le _, Nat.le_succ _, fun hc => by cases hc⟩
        · exact hm p d
      · exact hm p (List.mem_filter.1 hp).1
  exact key changes t.progress h

theorem applyConfChange_pw {a r r' : Raft} {cc : ConfChangeV2} {res : Except ErrKind ConfState}
    (h : r.applyConfChange cc = .ok (r', res)) (h0 : PW a r) : PW a r' := by
  unfold Raft.applyConfChange at h
  simp only [] at h
  split at h
  · cases h; exact h0
  · rename_i cfg changes _
    rw [Res.bind_eq_ok_iff] at h
    obtain ⟨⟨r1, cs⟩, h1, h2⟩ := h
    cases h2
    refine postConfChange_pw h1 (h0.prs (fun hs => ?_))
    rcases h0.po hs with c | c
    · exact .inl c
    · exact .inr (c.applyConf _ _)

/-! ### `on_persist_entries`, `commit_apply`, group commit -/

theorem onPersistEntries_pw {a r r' : Raft} {index term : Nat}
    (h : r.onPersistEntries index term = .ok r') (h0 : PW a r) : PW a r' := by
  unfold Raft.onPersistEntries at h
  split at h
  · cases h
  · cases h
  · rename_i log update hmp
    obtain ⟨l', b', hmp', hinv', habs', hc', _, _, hb'⟩ :=
      RaftLog.Inv.maybePersist h0.inv index term
    rw [hmp] at hmp'
    cases hmp'
    have hlast : log.lastIndex = r.raftLog.lastIndex := by
      rw [hinv'.lastIndex_abs, h0.inv.lastIndex_abs, habs']
    have hls : LogSame r.raftLog log := ⟨habs', hlast, fun _ => hinv', by omega⟩
    have g1 : PW a { r with raftLog := log } := h0.log hls
    simp only [] at h
    split at h
    · rename_i hcond
      have l1 : LW a { r with raftLog := log } := ⟨g1, hcond.2⟩
      split at h
      · cases h; exact g1
      · rename_i pr hg
        split at h
        · cases h
        · cases h
        · rename_i pr1 updated hu
          have hidx : index ≤ log.lastIndex := by
            have := (hb' hcond.1).1
            rw [← this]; exact Inv.persisted_le_last hinv'
          have l2 : LW a { ({ r with raftLog := log } : Raft) with
              prs := ({ r with raftLog := log } : Raft).prs.set r.id pr1 } :=
            l1.setPr (PQ.imp (l1.getPr hg) (fun c => (c.maybeUpdate hidx hu).1))
          split at h
          · split at h
            · rename_i r2 hm
              split at h
              · exact (bcastAppend_lw h (maybeCommit_lw hm l2)).1
              · cases h; exact (maybeCommit_lw hm l2).1
            · rename_i r2 hm
              cases h; exact (maybeCommit_lw hm l2).1
            · cases h
            · cases h
          · cases h; exact l2.1
    · cases h; exact g1

theorem commitApplyInternal_pw {a r r' : Raft} {applied : Nat} {skip : Bool}
    (h : r.commitApplyInternal applied skip = .ok r') (h0 : PW a r) : PW a r' := by
  unfold Raft.commitApplyInternal at h
  simp only [] at h
  split at h
  · cases h
  · cases h
  · rename_i log hlog
    obtain ⟨a', hl, _, _⟩ := RaftProps.PDGuards.applyCursor_cases _ _ _ _ hlog
    have hinv1 : log.Inv := by
      rw [hl]
      exact h0.inv.set_cursors r.raftLog.committed r.raftLog.persisted a' h0.inv.dummy_le_committed
        h0.inv.committed_le_last h0.inv.persisted_lt_off h0.inv.persisted_le_store
    have hls : LogSame r.raftLog log :=
      ⟨by rw [hl]; rfl, by rw [hl]; rfl, fun _ => hinv1, by rw [hl]; exact Nat.le_refl _⟩
    have g1 : PW a { r with raftLog := log } := h0.log hls
    split at h
    · rename_i hcond
      split at h
      · rename_i r2 happe
        cases h
        exact (LW.mk' (appendEntry_lw happe ⟨g1, hcond.2.2.2⟩)).1
      · cases h
      · cases h
      · cases h
    · cases h; exact g1

theorem enableGroupCommit_pw {a r r' : Raft} {b : Bool}
    (h : r.enableGroupCommit b = .ok r') (h0 : PW a r) : PW a r' := by
  unfold Raft.enableGroupCommit at h
  simp only [] at h
  have g0 : PW a { r with prs := { r.prs with groupCommit := b } } := h0.prs h0.po
  split at h
  · rename_i hc
    have l0 : LW a { r with prs := { r.prs with groupCommit := b } } := ⟨g0, hc.1⟩
    split at h
    · rename_i r1 hm
      exact (bcastAppend_lw h (maybeCommit_lw hm l0)).1
    · rename_i r1 hm
      cases h; exact (maybeCommit_lw hm l0).1
    · cases h
    · cases h
  · cases h; exact g0

theorem assignCommitGroups_pw {a r r' : Raft} {ids : List (Nat × Nat)}
    (h : r.assignCommitGroups ids = .ok r') (h0 : PW a r) : PW a r' := by
  unfold Raft.assignCommitGroups at h
  simp only [] at h
  rw [Res.bind_eq_ok_iff] at h
  obtain ⟨r1, h1, h2⟩ := h
  have g1 : PW a r1 ∧ r1.state = r.state := by
    have key : ∀ (l : List (Nat × Nat)) (acc : Res Raft),
        l.foldl (fun (acc : Res Raft) (p : Nat × Nat) =>
          acc.bind (fun r =>
            if p.2 = 0 then .panic "raft.assign_commit_groups.assert"
            else .ok (r.modifyProgress p.1 (fun pr => { pr with commitGroupId := p.2 })))) acc
          = .ok r1 →
        (∀ r0, acc = .ok r0 → PW a r0 ∧ r0.state = r.state) → PW a r1 ∧ r1.state = r.state := by
      intro l
      induction l with
      | nil => intro acc hh hacc; exact hacc r1 hh
      | cons p rest ih =>
        intro acc hh hacc
        simp only [List.foldl_cons] at hh
        refine ih _ hh ?_
        intro r2 h2
        cases acc with
        | err e => cases h2
        | panic s => cases h2
        | ok r0 =>
          obtain ⟨k1, k2⟩ := hacc r0 rfl
          simp only [Res.bind] at h2
          split at h2
          · cases h2
          · cases h2
            refine ⟨PW.prs k1 (fun hs => (k1.po hs).imp (fun x => x)
              (fun c => c.modify _ _ (fun pr hp => hp.congr rfl rfl rfl))), k2⟩
    exact key ids (.ok r) h1 (fun r0 e => by cases e; exact ⟨h0, rfl⟩)
  split at h2
  · rename_i hc
    have l0 : LW a r1 := ⟨g1.1, hc.1⟩
    split at h2
    · rename_i r2 hm
      exact (bcastAppend_lw h2 (maybeCommit_lw hm l0)).1
    · rename_i r2 hm
      cases h2; exact (maybeCommit_lw hm l0).1
    · cases h2
    · cases h2
  · cases h2; exact g1.1

theorem ping_pw {a r r' : Raft} (h : r.ping = .ok r') (h0 : PW a r) : PW a r' := by
  unfold Raft.ping at h
  split at h
  · rename_i hs
    exact (bcastHeartbeat_lw h ⟨h0, hs⟩).1
  · cases h; exact h0

theorem adjustMaxInflightMsgs_pw {a r r' : Raft} {t c : Nat}
    (h : r.adjustMaxInflightMsgs t c = .ok r') (h0 : PW a r) : PW a r' := by
  unfold Raft.adjustMaxInflightMsgs at h
  split at h
  · cases h; exact h0
  · rename_i pr hg
    split at h
    · cases h
      refine h0.prs (fun hs => ?_)
      rcases h0.po hs with d | d
      · exact .inl d
      · exact .inr (d.set _ ((d.get hg).congr rfl rfl rfl))
    · cases h

theorem maybeFreeInflightBuffers_pw {a r : Raft} (h0 : PW a r) :
    PW a r.maybeFreeInflightBuffers := by
  unfold Raft.maybeFreeInflightBuffers Raft.mapProgress
  exact h0.prs (fun hs => (h0.po hs).imp (fun x => x)
    (fun c => c.map (fun _ pr => { pr with ins := pr.ins.maybeFreeBuffer })
      (fun id pr hp => hp.congr rfl rfl rfl)))

theorem clearCommitGroup_pw {a r : Raft} (h0 : PW a r) : PW a r.clearCommitGroup := by
  unfold Raft.clearCommitGroup Raft.mapProgress
  exact h0.prs (fun hs => (h0.po hs).imp (fun x => x)
    (fun c => c.map (fun _ pr => { pr with commitGroupId := 0 })
      (fun id pr hp => hp.congr rfl rfl rfl)))

end CS
end Raft
end RaftModel
