import RaftProofs.ProtoCfgE

/-!
**The cross-history guards of P are implied by the local guards of PC** — in any state that satisfies
the invariants of P (`InvAll`, `InvE`) and the invariant of the configuration ghosts (`InvCfg`).
-/
namespace RaftModel.P

/-! ### list lemmas -/

/-- under the shape of the ghost logs, every entry of a prefix-from-leader list is not newer than the last one -/
theorem pfl_le_lastTerm {llog elog : Nat → List LEntry}
    (hll : ∀ t, ∃ r, llog t = elog t ++ r ∧ (∀ e ∈ r, e.term = t) ∧ (∀ e ∈ elog t, e.term < t))
    {l : List LEntry} (h : PFL llog l) : ∀ e ∈ l, e.term ≤ lastTerm l := by
  intro e he
  obtain ⟨k, hk⟩ := List.getElem?_of_mem he
  have hklt := (List.getElem?_eq_some_iff.mp hk).1
  obtain ⟨y, hy, hyt⟩ := termAt_some (show 0 < l.length by omega) (Nat.le_refl _)
  rw [lastTerm_eq_termAt, hyt]
  exact pfl_sorted hll h (by omega) hk hy

/-- a list of entries older than `t` that agrees with `A ++ r` (`r` all of term `t`) up to `n` agrees with `A` up to `n` -/
theorem take_append_older {A r L : List LEntry} {t n : Nat} (h : (A ++ r).take n = L.take n)
    (hr : ∀ e ∈ r, e.term = t) (hL : ∀ e ∈ L, e.term < t) : A.take n = L.take n := by
  by_cases hn : n ≤ A.length
  · rwa [List.take_append_of_le_length hn] at h
  · cases r with
    | nil => simpa using h
    | cons x r' =>
      exfalso
      have hk : A.length < n := by omega
      have h1 := getElem?_of_take_eq h hk
      rw [List.getElem?_append_right (Nat.le_refl _), Nat.sub_self] at h1
      have hx : x ∈ L := List.mem_of_getElem? h1.symm
      have := hr x List.mem_cons_self
      have := hL x hx
      omega

/-! ### Leader Completeness, the core argument once more: entries of the later term allowed -/

/-- `lc_core` for a log `E` that may hold entries of the term `t` of the grants (the leaders up to
and including `t` hold the acknowledged prefix) -/
theorem lc_core_le (cp ce : Cfg) (hadj : adjOk cp ce = true) (s : PSys) (hL : InvL s) (hA : InvA s)
    (hll : ∀ t, ∃ r, s.llog t = s.elog t ++ r ∧ (∀ e ∈ r, e.term = t) ∧ (∀ e ∈ s.elog t, e.term < t))
    (h2 : InvC2 s)
    (t0 c : Nat) (hc : 0 < c) (hlen : c ≤ (s.llog t0).length) (hterm : termAt (s.llog t0) c = t0)
    (q : List Nat) (hq : cp.isQuorum q = true)
    (hacks : ∀ v ∈ q, ∃ a ∈ s.acks, a.term = t0 ∧ a.frm = v ∧ c ≤ a.idx)
    (t : Nat) (ht : t0 < t) (j : Nat) (E : List LEntry) (hE : PFL s.llog E) (hEt : ∀ e ∈ E, e.term ≤ t)
    (Q : List Nat) (hQ : ce.isQuorum Q = true)
    (hgr : ∀ v ∈ Q, ∃ gh, ((⟨t, v, j⟩ : Grant), gh) ∈ s.rgv ∧ gh.early = true ∧
        upToDate (lastTerm E) E.length gh.vlog = true)
    (hnc : NCle s t0 c t) : E.take c = (s.llog t0).take c := by
  obtain ⟨w, hw1, hw2⟩ := adj_intersect cp ce hadj q Q hq hQ
  obtain ⟨a, ha, hat, haf, hai⟩ := hacks w hw1
  obtain ⟨gh, hgh, hearly, hup⟩ := hgr w hw2
  have hsub := hA.sub a ha
  rw [haf, hat] at hsub
  have hV : gh.vlog.take c = (s.llog t0).take c :=
    h2.rgr (⟨t, w, j⟩, gh) hgh hearly t0 w a.idx a.pre (Or.inr (Or.inr hsub)) ht c hai (NClt_of_le hnc)
  have hVp : PFL s.llog gh.vlog :=
    hL.pfl _ (Or.inr (Or.inr (Or.inr (Or.inr (Or.inl ⟨(⟨t, w, j⟩, gh), hgh, rfl⟩)))))
  have hcV : c ≤ gh.vlog.length := len_of_take_eq hV hlen
  have hVt : termAt gh.vlog c = t0 := by rw [termAt_of_take_eq hV (Nat.le_refl _)]; exact hterm
  obtain ⟨x, hx, hxt⟩ := termAt_some hc hcV
  have hVlast : t0 ≤ lastTerm gh.vlog := by
    rw [lastTerm_eq_termAt]
    obtain ⟨y, hy, hyt⟩ := termAt_some (show 0 < gh.vlog.length by omega) (Nat.le_refl _)
    rw [hyt, ← hVt, hxt]
    exact pfl_sorted hll hVp (by omega) hx hy
  have ht0pos : 1 ≤ t0 := by
    obtain ⟨z, hz, hzt⟩ := termAt_some hc hlen
    rw [← hterm, hzt]
    exact (hL.lterm t0 z (List.mem_of_getElem? hz)).1
  simp only [upToDate, Bool.or_eq_true, Bool.and_eq_true, decide_eq_true_eq] at hup
  have hT : t0 ≤ lastTerm E := by rcases hup with h | ⟨h, _⟩ <;> omega
  have hEne : E ≠ [] := by
    intro he; rw [he] at hT; simp [lastTerm] at hT; omega
  have hElast := pfl_last hE hEne
  by_cases hTe : lastTerm E = t0
  · have hlenE : c ≤ E.length := by rcases hup with h | ⟨_, h⟩ <;> omega
    rw [hTe] at hElast
    rw [hElast, List.take_take, Nat.min_eq_left hlenE]
  · have hTgt : t0 < lastTerm E := by omega
    have hEpos : 0 < E.length := List.length_pos_iff.mpr hEne
    obtain ⟨y, hy, hyt⟩ := termAt_some hEpos (Nat.le_refl _)
    rw [← lastTerm_eq_termAt] at hyt
    have hyE : y ∈ E := List.mem_of_getElem? hy
    have hTle : lastTerm E ≤ t := by rw [hyt]; exact hEt y hyE
    have hel : Elected s (lastTerm E) := by
      apply Classical.byContradiction
      intro hno
      have : s.llog (lastTerm E) = [] := hL.nole _ (fun j hj => hno ⟨j, hj⟩)
      rw [this] at hElast
      simp at hElast
      exact hEne hElast
    have hncT := hnc (lastTerm E) hTgt hTle hel
    have hlenE : c ≤ E.length := by
      apply Classical.byContradiction
      intro hlt
      have hk : E.length - 1 < c := by omega
      have h1 : (s.llog (lastTerm E))[E.length - 1]? = some y := by
        have : (E.take E.length)[E.length - 1]? = ((s.llog (lastTerm E)).take E.length)[E.length - 1]? := by
          rw [List.take_length]; rw [← hElast]
        rw [List.take_length, hy, List.getElem?_take] at this
        simp only [show E.length - 1 < E.length by omega, if_true] at this
        exact this.symm
      have h2' := getElem?_of_take_eq hncT hk
      rw [h1] at h2'
      have := (hL.lterm t0 y (List.mem_of_getElem? h2'.symm)).2
      omega
    rw [hElast, List.take_take, Nat.min_eq_left hlenE]; exact hncT

/-! ### the local parts of the guards, unpacked -/

theorem winCore_unpack {s : PSys} {i : Nat} {cfg : Cfg} {q : List Nat} (h : winCore s i cfg q = true) :
    (s.nodes i).up = true ∧ (s.nodes i).role = 1 ∧ (s.nodes i).vote = i ∧ cfg.isQuorum q = true ∧
    (∀ x ∈ q, (⟨(s.nodes i).term, x, i⟩ : Grant) ∈ s.grants) ∧
    (∀ x ∈ q, ∃ p ∈ s.rgv, p.1 = ⟨(s.nodes i).term, x, i⟩ ∧ p.2.early = true ∧
        p.2.clt = lastTerm (s.nodes i).log ∧ p.2.cli = (s.nodes i).log.length) := by
  simp only [winCore, Bool.and_eq_true, decide_eq_true_eq] at h
  obtain ⟨⟨⟨⟨⟨⟨h1, h2⟩, h3⟩, h4⟩, _⟩, h6⟩, h7⟩ := h
  refine ⟨h1, h2, h3, h4, ?_, ?_⟩
  · simp only [List.all_eq_true, List.contains_iff_mem] at h6
    exact h6
  · simp only [List.all_eq_true, List.any_eq_true, decide_eq_true_eq] at h7
    intro x hx
    obtain ⟨p, hp, h1⟩ := h7 x hx
    exact ⟨p, hp, h1.1, h1.2.1, h1.2.2.1, h1.2.2.2⟩

theorem commitCore_unpack {s : PSys} {i c : Nat} {cfg : Cfg} {q : List Nat} (h : commitCore s i c cfg q = true) :
    (s.nodes i).up = true ∧ (s.nodes i).role = 2 ∧ (s.nodes i).commit < c ∧ c ≤ (s.nodes i).log.length ∧
    termAt (s.nodes i).log c = (s.nodes i).term ∧ cfg.isQuorum q = true ∧
    (∀ v ∈ q, ∃ a ∈ s.acks, a.term = (s.nodes i).term ∧ a.frm = v ∧ c ≤ a.idx) := by
  simp only [commitCore, Bool.and_eq_true, decide_eq_true_eq] at h
  obtain ⟨⟨⟨⟨⟨⟨h1, h2⟩, h3⟩, h4⟩, h5⟩, h6⟩, h7⟩ := h
  refine ⟨h1, h2, h3, h4, h5, h6, ?_⟩
  simp only [List.all_eq_true, List.any_eq_true, decide_eq_true_eq] at h7
  exact h7

theorem cvs_mem_cmts {S : CSys} (hC : InvCfg S) {r : (Nat × Nat) × Nat} (hr : r ∈ S.cvs) : r.1 ∈ S.base.cmts := by
  rw [← hC.c1m]; exact List.mem_map.2 ⟨r, hr, rfl⟩

theorem cmts_mem_cvs {S : CSys} (hC : InvCfg S) {p : Nat × Nat} (hp : p ∈ S.base.cmts) : ∃ r ∈ S.cvs, r.1 = p := by
  rw [← hC.c1m] at hp
  obtain ⟨r, hr, h⟩ := List.mem_map.1 hp
  exact ⟨r, hr, h⟩

/-! ### K for `win` -/

/-- no leader commit of a term below the candidate's has committed two membership changes more than
the candidate has applied: a quorum of the version in between acknowledged it, that version is
adjacent to the candidate's, so the candidate's log would hold the committed prefix -/
theorem win_no_far_record (S : CSys) (hI : InvAll S.base) (hC : InvCfg S) (i : Nat) (cfg : Cfg) (q : List Nat)
    (m : Nat) (hcnt : confCount (S.base.nodes i).log ≤ m + 1) (hv : S.vtab[m]? = some cfg)
    (hcore : winCore S.base i cfg q = true)
    (r : (Nat × Nat) × Nat) (hr : r ∈ S.cvs) (ht : r.1.1 < (S.base.nodes i).term)
    (hcc : m + 2 ≤ ccOf S.base.llog r.1) : False := by
  obtain ⟨r', hr', ht', hcc', hver⟩ := CvOk.minimal (S.base.nodes i).term (m + 2) (by omega) hC.c2 r hr ht hcc
  obtain ⟨cp, qa, hcp, hqa, hacks⟩ := hC.cq r' hr'
  have hadj : adjOk cp cfg = true := hC.adj hcp hv (by omega) (by omega)
  have hmem := cvs_mem_cmts hC hr'
  obtain ⟨hc0, hlen, hterm, _, _⟩ := hI.c.c3.cq r'.1 hmem
  obtain ⟨_, _, _, hq, _, hrg⟩ := winCore_unpack hcore
  have hgr : ∀ v ∈ q, ∃ gh, ((⟨(S.base.nodes i).term, v, i⟩ : Grant), gh) ∈ S.base.rgv ∧ gh.early = true ∧
      upToDate (lastTerm (S.base.nodes i).log) (S.base.nodes i).log.length gh.vlog = true := by
    intro v hv
    obtain ⟨p, hp, h1, h2, h3, h4⟩ := hrg v hv
    refine ⟨p.2, ?_, h2, ?_⟩
    · rw [← h1]; exact hp
    · rw [← h3, ← h4]; exact hI.b.gt p hp
  have hpre := lc_core_le cp cfg hadj S.base hI.l hI.a hI.b.ll hI.c.c2 r'.1.1 r'.1.2 hc0 hlen hterm qa hqa hacks
    (S.base.nodes i).term ht' i (S.base.nodes i).log (keep_log _ hI.l i) (hI.l.tle i).1 q hq hgr
    (ncle_of_committed hI.b hI.c hmem _)
  have h1 : ccOf S.base.llog r'.1 = confCount ((S.base.nodes i).log.take r'.1.2) := by
    unfold ccOf; rw [hpre]
  have := confCount_take_le (S.base.nodes i).log r'.1.2
  omega

/-- a second election in the candidate's term cannot have been decided under a version two or more
below the candidate's: the log of that leader would hold the membership changes the candidate has applied -/
theorem win_same_term_far (S : CSys) (hI : InvAll S.base) (hE : InvE S.base) (hC : InvCfg S)
    (i : Nat) (cfg : Cfg) (q : List Nat) (applied m' : Nat)
    (happ : applied ≤ (S.base.nodes i).commit)
    (hv : S.vtab[confCount ((S.base.nodes i).log.take applied)]? = some cfg)
    (hcore : winCore S.base i cfg q = true)
    (hel : Elected S.base (S.base.nodes i).term)
    (hcnt' : confCount (S.base.elog (S.base.nodes i).term) ≤ m' + 1)
    (hfar : m' + 2 ≤ confCount ((S.base.nodes i).log.take applied)) : False := by
  have hkey : (S.base.elog (S.base.nodes i).term).take applied = (S.base.nodes i).log.take applied → False := by
    intro h
    have := confCount_take_le (S.base.elog (S.base.nodes i).term) applied
    rw [h] at this
    omega
  rcases hI.c.c3.cm i with h0 | ⟨pp, hpp, h1, h2, h3⟩
  · have : applied = 0 := by omega
    rw [this] at hfar
    simp [confCount] at hfar
  · by_cases hpt : pp.1 = (S.base.nodes i).term
    · -- the committed prefix is covered by a commit of this very term
      rw [hpt] at h3
      obtain ⟨_, _, _, hq, _, hrg⟩ := winCore_unpack hcore
      obtain ⟨v, hvq, _⟩ := adj_intersect cfg cfg (hC.t0s _ _ hv) q q hq hq
      obtain ⟨p, hp, hp1, hp2, hp3, _⟩ := hrg v hvq
      have hlt := hE.rg p hp hp2
      rw [hp1, hp3] at hlt
      have hold : ∀ e ∈ (S.base.nodes i).log, e.term < (S.base.nodes i).term := by
        intro e he
        have := pfl_le_lastTerm hI.b.ll (keep_log _ hI.l i) e he
        exact Nat.lt_of_le_of_lt this hlt
      obtain ⟨r, hr, hrt, _⟩ := hI.b.ll (S.base.nodes i).term
      have h4 : (S.base.llog (S.base.nodes i).term).take applied = (S.base.nodes i).log.take applied :=
        (take_of_take_eq h3 happ).symm
      rw [hr] at h4
      exact hkey (take_append_older h4 hrt hold)
    · have hlt : pp.1 < (S.base.nodes i).term := by omega
      have hlc := hI.c.lc pp hpp _ hlt hel
      apply hkey
      rw [take_of_take_eq hlc (show applied ≤ pp.2 by omega), take_of_take_eq h3 happ]

/-- **K (win)**, from the invariants -/
theorem win_adj_of_inv (S : CSys) (hI : InvAll S.base) (hE : InvE S.base) (hC : InvCfg S)
    (i : Nat) (cfg : Cfg) (q : List Nat) (applied : Nat)
    (hloc : applied ≤ (S.base.nodes i).commit ∧
            confCount (S.base.nodes i).log ≤ confCount ((S.base.nodes i).log.take applied) + 1 ∧
            S.vtab[confCount ((S.base.nodes i).log.take applied)]? = some cfg)
    (hcore : winCore S.base i cfg q = true) : winAdj S.base i cfg = true := by
  obtain ⟨happ, hcnt, hv⟩ := hloc
  simp only [winAdj, Bool.and_eq_true, List.all_eq_true, decide_eq_true_eq]
  refine ⟨⟨hC.t0s _ _ hv, ?_⟩, ?_⟩
  · -- elections of the same term
    intro p hp
    by_cases hpt : p.1 = (S.base.nodes i).term
    · right
      obtain ⟨m', hm'evs, hm'v⟩ := hC.e1 p hp
      obtain ⟨hel, hcnt', hback⟩ := hC.e2 (p.1, m') hm'evs
      by_cases hadj : confCount ((S.base.nodes i).log.take applied) ≤ m' + 1 ∧
          m' ≤ confCount ((S.base.nodes i).log.take applied) + 1
      · exact hC.adj hv hm'v hadj.1 hadj.2
      · exfalso
        by_cases hfar : confCount ((S.base.nodes i).log.take applied) + 2 ≤ m'
        · rcases hback with h0 | ⟨p', hp', hlt, hle⟩
          · simp only at h0; omega
          · obtain ⟨r, hr, hr1⟩ := cmts_mem_cvs hC hp'
            simp only at hlt hle
            exact win_no_far_record S hI hC i cfg q _ hcnt hv hcore r hr (by rw [hr1, ← hpt]; exact hlt)
              (by rw [hr1]; omega)
        · simp only at hel hcnt'
          rw [hpt] at hel hcnt'
          exact win_same_term_far S hI hE hC i cfg q applied m' happ hv hcore hel hcnt' (by omega)
    · exact Or.inl hpt
  · -- leader commits of earlier terms
    intro pc hpc
    by_cases hlt : (S.base.nodes i).term ≤ pc.1.1
    · exact Or.inl hlt
    · right
      obtain ⟨j, hjcvs, hjv⟩ := hC.c1 pc hpc
      obtain ⟨hcc1, hback⟩ := CvOk.mem hC.c2 (pc.1, j) hjcvs
      simp only at hcc1 hback
      have hmem_pc : pc.1 ∈ S.base.cmts := cvs_mem_cmts hC hjcvs
      by_cases hadj : j ≤ confCount ((S.base.nodes i).log.take applied) + 1 ∧
          confCount ((S.base.nodes i).log.take applied) ≤ j + 1
      · exact Or.inl (hC.adj hjv hv hadj.1 hadj.2)
      · by_cases hfar : confCount ((S.base.nodes i).log.take applied) + 2 ≤ j
        · exfalso
          rcases hback with h0 | ⟨p', hp', hle, hcc⟩
          · omega
          · exact win_no_far_record S hI hC i cfg q _ hcnt hv hcore p' hp' (by omega) (by omega)
        · -- the candidate has applied two membership changes more than the commit's version
          have hm : j + 2 ≤ confCount ((S.base.nodes i).log.take applied) := by omega
          rcases hI.c.c3.cm i with h0 | ⟨pp, hpp, h1, h2, h3⟩
          · exfalso
            have : applied = 0 := by omega
            rw [this] at hm
            simp [confCount] at hm
          · by_cases hk : pc.1.2 ≤ (S.base.nodes i).commit
            · right
              rw [take_of_take_eq h3 hk]
              exact commits_agree hI.b hI.c hpp hmem_pc (by omega) (Nat.le_refl _)
            · exfalso
              have h4 := commits_agree hI.b hI.c hpp hmem_pc h1 (show (S.base.nodes i).commit ≤ pc.1.2 by omega)
              have h5 : (S.base.nodes i).log.take (S.base.nodes i).commit =
                  (S.base.llog pc.1.1).take (S.base.nodes i).commit := by rw [h3, h4]
              have h6 := confCount_of_take_eq h5 happ
              have h7 := confCount_take_mono (S.base.llog pc.1.1) (show applied ≤ pc.1.2 by omega)
              unfold ccOf at hcc1
              omega

/-! ### K for `commitLeader` -/

/-- **Leader Completeness for the commit about to be recorded**: every leader of a later term was
elected with the prefix the leader commits now -/
theorem commit_lc_new (S : CSys) (hI : InvAll S.base) (hC : InvCfg S)
    (i c : Nat) (cfg : Cfg) (q : List Nat) (applied : Nat)
    (hloc : applied ≤ (S.base.nodes i).commit ∧
            confCount ((S.base.nodes i).log.take c) ≤ confCount ((S.base.nodes i).log.take applied) + 1 ∧
            S.vtab[confCount ((S.base.nodes i).log.take applied)]? = some cfg)
    (hcore : commitCore S.base i c cfg q = true) :
    ∀ te, (S.base.nodes i).term < te → Elected S.base te →
      (S.base.elog te).take c = (S.base.llog (S.base.nodes i).term).take c := by
  obtain ⟨happ, hcnt, hv⟩ := hloc
  obtain ⟨_, hrole, hcm, hclen, hcterm, hq, hacks⟩ := commitCore_unpack hcore
  have hll : (S.base.nodes i).log = S.base.llog (S.base.nodes i).term := hI.l.ll i hrole
  have helc : Elected S.base (S.base.nodes i).term :=
    ⟨i, (hI.v.ld i (by simpa [vsys, vproj] using hrole)).1⟩
  rw [hll] at hclen hcterm
  intro te
  induction te using Nat.strongRecOn with
  | _ te ih =>
    intro hlt hel
    obtain ⟨j', hj'⟩ := hel
    obtain ⟨ce, Q, hce, hQ, hgr⟩ := hI.b.eq (te, j') hj'
    obtain ⟨m, hmevs, hmv⟩ := hC.e1 (te, ce) hce
    obtain ⟨_, hcnt', hback⟩ := hC.e2 (te, m) hmevs
    simp only at hcnt' hback hmv
    -- what the leaders in between give
    have hbetween : ∀ t', (S.base.nodes i).term < t' → t' < te → Elected S.base t' →
        (S.base.llog t').take c = (S.base.llog (S.base.nodes i).term).take c := by
      intro t' h1 h2 h3
      have := ih t' h2 h1 h3
      obtain ⟨r, hr, _, _⟩ := hI.b.ll t'
      rw [hr, List.take_append_of_le_length (len_of_take_eq this hclen)]; exact this
    by_cases hadj : confCount ((S.base.nodes i).log.take applied) ≤ m + 1 ∧
        m ≤ confCount ((S.base.nodes i).log.take applied) + 1
    · -- adjacent versions: the classical argument
      have hadj' : adjOk cfg ce = true := hC.adj hv hmv hadj.1 hadj.2
      exact lc_core cfg ce hadj' S.base hI.l hI.a hI.b.ll hI.c.c2 (S.base.nodes i).term c (by omega) hclen hcterm
        q hq hacks te hlt j' (S.base.elog te)
        (hI.l.pfl _ (Or.inr (Or.inr (Or.inr (Or.inr (Or.inr ⟨te, rfl⟩))))))
        (by obtain ⟨r, _, _, h⟩ := hI.b.ll te; exact h) Q hQ hgr hbetween
    · by_cases hfar : confCount ((S.base.nodes i).log.take applied) + 2 ≤ m
      · -- the later election was decided under a much newer version: backed by an earlier commit
        rcases hback with h0 | ⟨p, hp, hpt, hpc⟩
        · omega
        · have hlc := hI.c.lc p hp te hpt ⟨j', hj'⟩
          obtain ⟨_, hplen, _, hpel, _⟩ := hI.c.c3.cq p hp
          have hmn : ∀ n, n ≤ c → n ≤ p.2 →
              (S.base.llog p.1).take n = (S.base.llog (S.base.nodes i).term).take n := by
            intro n hn1 hn2
            by_cases hle : p.1 ≤ (S.base.nodes i).term
            · exact (take_of_take_eq (cmt_prefix hI.b hI.c.c3 hI.c.lc hp hle helc) hn2).symm
            · exact take_of_take_eq (hbetween p.1 (by omega) hpt hpel) hn1
          by_cases hpk : p.2 ≤ c
          · exfalso
            have h1 := hmn p.2 hpk (Nat.le_refl _)
            have h2 := confCount_take_mono (S.base.llog (S.base.nodes i).term) hpk
            unfold ccOf at hpc
            rw [h1, ← hll] at hpc
            rw [← hll] at h2
            omega
          · rw [take_of_take_eq hlc (show c ≤ p.2 by omega)]
            exact hmn c (Nat.le_refl _) (by omega)
      · -- the leader has applied two membership changes more than the later election's version
        exfalso
        have hm : m + 2 ≤ confCount ((S.base.nodes i).log.take applied) := by omega
        rcases hI.c.c3.cm i with h0 | ⟨pp, hpp, h1, h2, h3⟩
        · have : applied = 0 := by omega
          rw [this] at hm
          simp [confCount] at hm
        · have hlc := hI.c.lc pp hpp te (by omega) ⟨j', hj'⟩
          have h4 : (S.base.elog te).take applied = (S.base.nodes i).log.take applied := by
            rw [take_of_take_eq hlc (show applied ≤ pp.2 by omega), take_of_take_eq h3 happ]
          have := confCount_take_le (S.base.elog te) applied
          rw [h4] at this
          omega

/-- **K (commitLeader)**, from the invariants -/
theorem commit_adj_of_inv (S : CSys) (hI : InvAll S.base) (hC : InvCfg S)
    (i c : Nat) (cfg : Cfg) (q : List Nat) (applied : Nat)
    (hloc : applied ≤ (S.base.nodes i).commit ∧
            confCount ((S.base.nodes i).log.take c) ≤ confCount ((S.base.nodes i).log.take applied) + 1 ∧
            S.vtab[confCount ((S.base.nodes i).log.take applied)]? = some cfg)
    (hcore : commitCore S.base i c cfg q = true) : commitAdj S.base i c cfg = true := by
  have hlc := commit_lc_new S hI hC i c cfg q applied hloc hcore
  obtain ⟨_, hrole, _⟩ := commitCore_unpack hcore
  have hll : (S.base.nodes i).log = S.base.llog (S.base.nodes i).term := hI.l.ll i hrole
  simp only [commitAdj, Bool.and_eq_true, List.all_eq_true, decide_eq_true_eq]
  refine ⟨hC.t0s _ _ hloc.2.2, ?_⟩
  intro p hp
  by_cases hle : p.1 ≤ (S.base.nodes i).term
  · exact Or.inl hle
  · right; right
    rw [hll]
    exact hlc p.1 (by omega) (hI.b.ee p hp)

end RaftModel.P
