import RaftProofs.ProtoCfgK

/-!
**The cross-history configuration guard of the read-index events of P (`rdCfgOk`) is implied by the
local guard of PC** — in any state that satisfies the invariants of P (`InvAll`, `InvRd`) and the
invariant of the configuration ghosts (`InvCfg`).

The leader `i` of term `T` answers under the version `j` of the membership changes it has applied.
A leader commit `p` of a term beyond `T` that existed when the request was issued has a version `x`:
* `x` and `j` at distance at most one: the configurations are adjacent (T0);
* `x ≥ j + 2`: among the records that existed when the request was issued there is one of version
  exactly `j + 1` whose committed prefix holds `j + 2` membership changes.  Its term cannot be beyond
  `T` (its quorum — adjacent to the reader's — had acknowledged that term before the request was
  issued, and the reader's quorum confirmed `T` afterwards), cannot be `T` (the leader's version never
  decreases), cannot be below `T` (the leader of `T` was elected with that prefix, so under a version
  `≥ j + 1`, and the leader's version never decreases);
* `x + 2 ≤ j`: the leader's applied prefix is covered by a leader commit of a term `≤ T`; so some
  commit of a term `≤ T` of version `x + 1` has committed `x + 2` membership changes; the leader of
  `p`'s term was elected with that prefix, so under a version `≥ x + 1`, and `p`'s version is not
  below the version of the election of its term (C3).
-/
namespace RaftModel.P

/-! ### the local parts of the guards, unpacked -/

theorem respCore_unpack {s : PSys} {i rid idx : Nat} {cfg : Cfg} (h : respCore s i rid idx cfg = true) :
    (s.nodes i).up = true ∧ (s.nodes i).role = 2 ∧
    (⟨rid, i, (s.nodes i).term, idx⟩ : ReadStart) ∈ s.rd.started ∧
    rdQuorum s cfg i (s.nodes i).term rid = true := by
  simp only [respCore, Bool.and_eq_true, decide_eq_true_eq] at h
  obtain ⟨⟨⟨h1, h2⟩, h3⟩, h4⟩ := h
  exact ⟨h1, h2, by simpa using h3, h4⟩

theorem verMono_unpack {S : CSys} {t j : Nat} (h : verMono S t j = true) :
    (∀ e ∈ S.evs, e.1 = t → e.2 ≤ j) ∧ (∀ p ∈ S.cvs, p.1.1 = t → p.2 ≤ j) := by
  simp only [verMono, Bool.and_eq_true, List.all_eq_true, Bool.or_eq_true, bne_iff_ne, ne_eq,
    decide_eq_true_eq] at h
  refine ⟨fun e he ht => ?_, fun p hp ht => ?_⟩
  · rcases h.1 e he with h1 | h1
    · exact absurd ht h1
    · exact h1
  · rcases h.2 p hp with h1 | h1
    · exact absurd ht h1
    · exact h1

theorem verMono_pack {S : CSys} {t j : Nat}
    (h : (∀ e ∈ S.evs, e.1 = t → e.2 ≤ j) ∧ (∀ p ∈ S.cvs, p.1.1 = t → p.2 ≤ j)) : verMono S t j = true := by
  simp only [verMono, Bool.and_eq_true, List.all_eq_true, Bool.or_eq_true, bne_iff_ne, ne_eq,
    decide_eq_true_eq]
  refine ⟨fun e he => ?_, fun p hp => ?_⟩
  · by_cases ht : e.1 = t
    · exact Or.inr (h.1 e he ht)
    · exact Or.inl ht
  · by_cases ht : p.1.1 = t
    · exact Or.inr (h.2 p hp ht)
    · exact Or.inl ht

/-! ### the quorum argument of the read layer, for an arbitrary backed term -/

/-- a quorum `q` of a configuration adjacent to the reader's released, before the request was issued,
acknowledgements of term `tp`; the reader's leadership in its term was confirmed by a quorum after
the request was registered: `tp` is not beyond the reader's term -/
theorem read_quorum_term {s : PSys} (hI : InvAll s) (hRd : InvRd s) (cfgp cfg : Cfg)
    (hadj : adjOk cfgp cfg = true) (i rid : Nat) (r : ReadRec) (hr : r ∈ s.rd.issued) (hrid : r.rid = rid)
    (hq : rdQuorum s cfg i (s.nodes i).term rid = true)
    (q : List Nat) (hq1 : cfgp.isQuorum q = true) (tp : Nat)
    (hq2 : ∀ v ∈ q, ∃ a ∈ acksAt s r.nak, a.term = tp ∧ a.frm = v) : tp ≤ (s.nodes i).term := by
  unfold rdQuorum at hq
  obtain ⟨w, hw1, hw2⟩ := adj_intersect cfgp cfg hadj q _ hq1 hq
  obtain ⟨a, ha, hat, haf⟩ := hq2 w hw1
  have has : a ∈ s.acks := acksAt_sub ha
  rw [← hat]
  rcases List.mem_cons.mp hw2 with hw | hw
  · have := ack_term_le hI has
    rw [haf, hw] at this; exact this
  · rw [List.mem_map] at hw
    obtain ⟨h, hh, hf⟩ := hw
    rw [List.mem_filter] at hh
    obtain ⟨hh1, hh2⟩ := hh
    have hh2' := of_decide_eq_true hh2
    obtain ⟨r'', hr'', hrid'', hb⟩ := hRd.hb h hh1
    have e2 : r'' = r := rid_unique hRd.uniq hr'' hr (by rw [hrid'', hh2'.1, hrid])
    rw [e2] at hb
    have := hb a ha (by rw [haf, hf])
    omega

/-- E1 + E2 at an elected term: the election has a version record, and the log the leader was
elected with holds at most one membership change beyond it -/
theorem elected_version {S : CSys} (hI : InvAll S.base) (hC : InvCfg S) (t : Nat) (hel : Elected S.base t) :
    ∃ m, (t, m) ∈ S.evs ∧ confCount (S.base.elog t) ≤ m + 1 := by
  obtain ⟨j', hj'⟩ := hel
  obtain ⟨ce, Q, hce, _, _⟩ := hI.b.eq (t, j') hj'
  obtain ⟨m, hm, _⟩ := hC.e1 (t, ce) hce
  exact ⟨m, hm, (hC.e2 (t, m) hm).2.1⟩

/-! ### K for the read events -/

/-- **K (read)**, from the invariants -/
theorem read_adj_of_inv (S : CSys) (hI : InvAll S.base) (hRd : InvRd S.base) (hC : InvCfg S)
    (i rid idx : Nat) (cfg : Cfg) (applied : Nat) (r : ReadRec)
    (hfind : S.base.rd.issued.find? (fun r => r.rid = rid) = some r)
    (hloc : applied ≤ (S.base.nodes i).commit ∧
            S.vtab[confCount ((S.base.nodes i).log.take applied)]? = some cfg ∧
            verMono S (S.base.nodes i).term (confCount ((S.base.nodes i).log.take applied)) = true)
    (hcore : respCore S.base i rid idx cfg = true) :
    rdCfgOk S.base cfg (S.base.nodes i).term r.ncm = true := by
  obtain ⟨happ, hv, hmono⟩ := hloc
  obtain ⟨hme, hmc⟩ := verMono_unpack hmono
  obtain ⟨_, hrole, _, hquo⟩ := respCore_unpack hcore
  have hr := List.mem_of_find?_eq_some hfind
  have hrid : r.rid = rid := by simpa using List.find?_some hfind
  have helT : Elected S.base (S.base.nodes i).term :=
    ⟨i, (hI.v.ld i (by simpa [vsys, vproj] using hrole)).1⟩
  unfold rdCfgOk
  simp only [List.all_eq_true, Bool.or_eq_true, decide_eq_true_eq]
  intro pc hpc
  by_cases hle : pc.1.1 ≤ (S.base.nodes i).term
  · exact Or.inr hle
  left
  have hpc' : pc ∈ ccfgsAt S.base r.ncm := hpc
  obtain ⟨x, hx, hxv⟩ := hC.rc r hr pc hpc'
  have hxc := cvsAt_sub hx
  by_cases hadj : x ≤ confCount ((S.base.nodes i).log.take applied) + 1 ∧
      confCount ((S.base.nodes i).log.take applied) ≤ x + 1
  · exact hC.adj hxv hv hadj.1 hadj.2
  exfalso
  by_cases hfar : confCount ((S.base.nodes i).log.take applied) + 2 ≤ x
  · -- the commit's version is two or more beyond the reader's
    have hok : CvOk S.base.llog (cvsAt S r.ncm) := CvOk.drop _ hC.c2
    obtain ⟨_, hback⟩ := CvOk.mem hok _ hx
    rcases hback with h0 | ⟨p', hp', _, hcc⟩
    · simp only at h0; omega
    · simp only at hcc
      obtain ⟨rs, hrs, _, hccs, hvers⟩ := CvOk.minimal (p'.1.1 + 1)
        (confCount ((S.base.nodes i).log.take applied) + 2) (by omega) hok p' hp' (by omega) (by omega)
      have hrsc := cvsAt_sub hrs
      have hmem := cvs_mem_cmts hC hrsc
      rcases Nat.lt_trichotomy rs.1.1 (S.base.nodes i).term with hlt | heq | hgt
      · -- a commit of an earlier term: the reader was elected with its prefix
        have hlc := hI.c.lc rs.1 hmem _ hlt helT
        obtain ⟨m, hm, hcnt⟩ := elected_version hI hC _ helT
        have h0 := hme (_, m) hm rfl
        have h1 := confCount_take_le (S.base.elog (S.base.nodes i).term) rs.1.2
        rw [hlc] at h1
        unfold ccOf at hccs
        simp only at h0
        omega
      · -- a commit of the reader's own term: its version is not beyond the reader's
        have := hmc rs hrsc heq
        omega
      · -- a commit of a later term: the two quorums meet
        obtain ⟨cp, q, hcp, hq, hacks⟩ := hC.rq r hr rs hrs
        have hadj' : adjOk cp cfg = true := hC.adj hcp hv (by omega) (by omega)
        have := read_quorum_term hI hRd cp cfg hadj' i rid r hr hrid hquo q hq rs.1.1
          (fun v hv => by obtain ⟨a, ha, h1, h2, _⟩ := hacks v hv; exact ⟨a, ha, h1, h2⟩)
        omega
  · -- the reader has applied two membership changes more than the commit's version
    have hm : x + 2 ≤ confCount ((S.base.nodes i).log.take applied) := by omega
    rcases hI.c.c3.cm i with h0 | ⟨pp, hpp, h1, h2, h3⟩
    · have : applied = 0 := by omega
      rw [this] at hm
      simp [confCount] at hm
    · obtain ⟨rr, hrr, hrr1⟩ := cmts_mem_cvs hC hpp
      have hccpp : confCount ((S.base.nodes i).log.take applied) ≤ ccOf S.base.llog rr.1 := by
        rw [hrr1]
        unfold ccOf
        rw [confCount_of_take_eq h3 happ]
        exact confCount_take_mono _ (by omega)
      obtain ⟨r', hr', ht', hcc', hver'⟩ := CvOk.minimal ((S.base.nodes i).term + 1) (x + 2) (by omega)
        hC.c2 rr hrr (by rw [hrr1]; omega) (by omega)
      have hpcm : pc.1 ∈ S.base.cmts := cvs_mem_cmts hC hxc
      have helt : Elected S.base pc.1.1 := (hI.c.c3.cq pc.1 hpcm).2.2.2.1
      have hlc := hI.c.lc r'.1 (cvs_mem_cmts hC hr') pc.1.1 (by omega) helt
      obtain ⟨m, hmm, hcnt⟩ := elected_version hI hC _ helt
      have h4 := hC.c3 (pc.1, x) hxc (pc.1.1, m) hmm rfl
      have h5 := confCount_take_le (S.base.elog pc.1.1) r'.1.2
      rw [hlc] at h5
      unfold ccOf at hcc'
      simp only at h4
      omega

end RaftModel.P
