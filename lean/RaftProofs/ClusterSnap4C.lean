import RaftProofs.ClusterSnap4B

/-!
(Copy of `ClusterCommit4C` for the relation `Raft.CS.PW` of `ClusterSnap4A`: no `QSnap` escape, the
`Snapshot` state allowed.)

Cluster-level commit safety, part 4C: `PW` / `LW` through `maybe_commit`, `append_entry`, the
read-index helpers, `reset` and the role changes.
-/
namespace RaftModel
namespace Raft
namespace CS
open RaftProps.C13

/-- the queue is poisoned, or the progress is within the log -/
def PQ (r : Raft) (pr : Progress) : Prop := QSnap r.msgs ∨ POk r.msgs r.raftLog.lastIndex pr

theorem PQ.imp {r : Raft} {pr pr' : Progress} (h : PQ r pr)
    (hf : POk r.msgs r.raftLog.lastIndex pr → POk r.msgs r.raftLog.lastIndex pr') : PQ r pr' :=
  Or.imp (fun x => x) hf h

/-! ### a log that grew -/

structure LogGrow (l l' : RaftLog) : Prop where
  inv : l'.Inv
  last : l.lastIndex ≤ l'.lastIndex
  commit : l.committed ≤ l'.committed
  first : l.firstIndex ≤ l'.firstIndex

theorem PW.grow {a r : Raft} {l : RaftLog} (hl : LogGrow r.raftLog l) (h0 : PW a r) :
    PW a { r with raftLog := l } := by
  refine ⟨hl.inv, h0.nb, fun hs => ?_, fun hs p hp => ?_, fun x hx hty => ?_,
    fun x hx hty => ?_, h0.sn, Nat.le_trans h0.fi hl.first, h0.qf⟩
  · rcases h0.po hs with c | c
    · exact .inl c
    · exact .inr (c.mono hl.last (fun _ hx => hx))
  · exact Nat.le_trans (h0.rd hs p hp) hl.commit
  · rcases h0.qa x hx hty with c | c | c
    · exact .inl c
    · exact .inr (.inl c)
    · exact .inr (.inr (Nat.le_trans c hl.last))
  · rcases h0.qr x hx hty with c | c
    · exact .inl c
    · exact .inr (Nat.le_trans c hl.commit)

/-- replacing the pending reads -/
theorem PW.ro {a r : Raft} {ro : ReadOnly} (h0 : PW a r)
    (hr : r.state = .leader → ∀ p ∈ ro.pendingReadIndex, p.2.index ≤ r.raftLog.committed) :
    PW a { r with readOnly := ro } :=
  ⟨h0.inv, h0.nb, h0.po, hr, h0.qa, h0.qr, h0.sn, h0.fi, h0.qf⟩

/-! ### `maybe_commit`, `append_entry` -/

theorem maybeCommit_lw {a r r' : Raft} {b : Bool} (h : r.maybeCommit = .ok (r', b))
    (h0 : LW a r) : LW a r' := by
  unfold Raft.maybeCommit at h
  split at h
  · cases h
  · cases h
  · split at h
    · cases h
    · cases h
    · rename_i log hm
      cases h
      have h1 : PW a { r with raftLog := log } := h0.1.log (c05_maybeCommit_same hm)
      refine ⟨?_, h0.2⟩
      exact PW.prs h1 (fun hs => (h1.po hs).imp (fun x => x)
        (fun c => c.modify _ _ (fun pr hp => hp.updateCommitted _)))
    · cases h; exact h0

theorem appendEntry_shape {r r' : Raft} {es : List Entry} {b : Bool}
    (h : r.appendEntry es = .ok (r', b)) :
    ∃ l u, r' = { r with raftLog := l, uncommittedState := u } := by
  unfold Raft.appendEntry at h
  split at h
  · cases h; exact ⟨r.raftLog, r.uncommittedState, rfl⟩
  · rename_i r1 hinc
    have h1 : r1 = { r with uncommittedState := r1.uncommittedState } := by
      unfold Raft.maybeIncreaseUncommittedSize at hinc
      split at hinc
      cases hinc; rfl
    simp only [] at h
    split at h
    · rename_i log k happ
      cases h
      exact ⟨log, r1.uncommittedState, by rw [h1]⟩
    · cases h
    · cases h

theorem appendEntry_lw {a r r' : Raft} {es : List Entry} {b : Bool}
    (h : r.appendEntry es = .ok (r', b)) (h0 : LW a r) : LW a r' := by
  obtain ⟨l, u, he⟩ := appendEntry_shape h
  have hg : LogGrow r.raftLog r'.raftLog := by
    rcases appendEntry_cases h0.1.inv h0.2 h with ⟨_, c⟩ | ⟨_, _, c, _⟩ | ⟨_, c, _⟩
    · rw [c]; exact ⟨h0.1.inv, Nat.le_refl _, Nat.le_refl _, Nat.le_refl _⟩
    · exact ⟨c.inv h0.1.inv, Nat.le_of_eq c.last.symm, c.commit, by
        rw [(c.inv h0.1.inv).firstIndex_abs, h0.1.inv.firstIndex_abs, c.abs]; exact Nat.le_refl _⟩
    · exact ⟨c.inv, by rw [c.last]; omega, c.commit, by
        rw [c.inv.firstIndex_abs, h0.1.inv.firstIndex_abs, c.abs]; exact Nat.le_refl _⟩
  have hl : r'.raftLog = l := by rw [he]
  rw [hl] at hg
  rw [he]
  exact ⟨PW.mk' (r := { r with raftLog := l }) (h0.1.grow hg), h0.2⟩

/-! ### the read-index helpers -/

theorem sendFill_index (r : Raft) (m : Message) : (r.sendFill m).index = m.index := by
  unfold sendFill
  simp only
  split <;> split <;> split <;> rfl

/-- queueing a `MsgReadIndexResp` whose index is at most the commit index -/
theorem send_rir_lw {a r r' : Raft} {m : Message} (h : r.send m = .ok r')
    (hm : m.msgType = .msgReadIndexResp) (hi : m.index ≤ r.raftLog.committed) (h0 : LW a r) :
    LW a r' := by
  refine ⟨?_, (send_frame h Frame.rfl).state.trans h0.2⟩
  rw [send_eq r r' m h]
  refine h0.1.push _ (fun hc => ?_) (fun _ => ?_) (fun hc => ?_)
  · rw [sendFill_msgType, hm] at hc; cases hc
  · rw [sendFill_index]; exact hi
  · rw [sendFill_msgType, hm] at hc; cases hc

theorem handleReadyReadIndex_lw {a r r' : Raft} {req : Message} {i : Nat} {om : Option Message}
    (h : r.handleReadyReadIndex req i = .ok (r', om)) (h0 : LW a r) :
    LW a r' ∧ r'.raftLog = r.raftLog ∧
      ∀ m', om = some m' → m'.msgType = .msgReadIndexResp ∧ m'.index = i := by
  unfold Raft.handleReadyReadIndex at h
  split at h
  · split at h
    · cases h
    · cases h; exact ⟨LW.mk' h0, rfl, fun _ hc => by cases hc⟩
  · cases h; exact ⟨h0, rfl, fun _ hc => by cases hc; exact ⟨rfl, rfl⟩⟩

theorem respondReadStates_lw {a r r' : Raft} {rss : List ReadIndexStatus}
    (h : r.respondReadStates rss = .ok r') (h0 : LW a r)
    (hr : ∀ rs ∈ rss, rs.index ≤ r.raftLog.committed) : LW a r' := by
  unfold Raft.respondReadStates at h
  have key : ∀ (l : List ReadIndexStatus) (acc : Res Raft),
      l.foldl (fun (acc : Res Raft) rs =>
        acc.bind (fun r =>
          (r.handleReadyReadIndex rs.req rs.index).bind (fun (r, om) =>
            match om with
            | some m => r.send m
            | none => .ok r))) acc = .ok r' →
      (∀ rs ∈ l, rs.index ≤ r.raftLog.committed) →
      (∀ r1, acc = .ok r1 → LW a r1 ∧ r1.raftLog = r.raftLog) →
      LW a r' ∧ r'.raftLog = r.raftLog := by
    intro l
    induction l with
    | nil => intro acc h _ h1; exact h1 r' h
    | cons rs rest ih =>
      intro acc h hl h1
      simp only [List.foldl_cons] at h
      refine ih _ h (fun x hx => hl x (List.mem_cons_of_mem _ hx)) ?_
      intro r2 h2
      cases acc with
      | err e => cases h2
      | panic s => cases h2
      | ok r0 =>
        obtain ⟨g0, gl⟩ := h1 r0 rfl
        change (r0.handleReadyReadIndex rs.req rs.index).bind _ = _ at h2
        rw [Res.bind_eq_ok_iff] at h2
        obtain ⟨⟨r3, om⟩, h3, h4⟩ := h2
        obtain ⟨g3, gl3, gm⟩ := handleReadyReadIndex_lw h3 g0
        dsimp only at h4
        split at h4
        · rename_i m'
          obtain ⟨t1, t2⟩ := gm m' rfl
          have hi : m'.index ≤ r3.raftLog.committed := by
            rw [t2, gl3, gl]; exact hl rs List.mem_cons_self
          refine ⟨send_rir_lw h4 t1 hi g3, ?_⟩
          rw [send_eq _ _ _ h4]
          exact gl3.trans gl
        · cases h4; exact ⟨g3, gl3.trans gl⟩
  exact (key rss (.ok r) h hr (fun r1 e => by cases e; exact ⟨h0, rfl⟩)).1

/-! ### `ReadOnly` -/

theorem recvAck_index (ro : ReadOnly) (id : Nat) (ctx : Bytes) :
    ∀ p ∈ (ro.recvAck id ctx).1.pendingReadIndex, ∃ q ∈ ro.pendingReadIndex, q.2.index = p.2.index := by
  intro p hp
  unfold ReadOnly.recvAck at hp
  split at hp
  · exact ⟨p, hp, rfl⟩
  · simp only [List.mem_map] at hp
    obtain ⟨q, hq, rfl⟩ := hp
    refine ⟨q, hq, ?_⟩
    split <;> rfl

theorem popN_sub : ∀ (n : Nat) (ro ro' : ReadOnly) (acc rss : List ReadIndexStatus),
    ReadOnly.popN n ro acc = .ok (ro', rss) →
    (∀ p ∈ ro'.pendingReadIndex, p ∈ ro.pendingReadIndex) ∧
    (∀ rs ∈ rss, rs ∈ acc ∨ ∃ k, (k, rs) ∈ ro.pendingReadIndex) := by
  intro n
  induction n with
  | zero =>
    intro ro ro' acc rss h
    simp only [ReadOnly.popN] at h
    cases h
    exact ⟨fun _ hp => hp, fun _ hr => .inl hr⟩
  | succ n ih =>
    intro ro ro' acc rss h
    unfold ReadOnly.popN at h
    split at h
    · cases h
    · rename_i x rest hq
      split at h
      · cases h
      · rename_i st hl
        obtain ⟨g1, g2⟩ := ih _ _ _ _ h
        refine ⟨fun p hp => ?_, fun rs hr => ?_⟩
        · have := g1 p hp
          exact (List.mem_filter.1 this).1
        · rcases g2 rs hr with c | ⟨k, c⟩
          · rcases List.mem_append.1 c with d | d
            · exact .inl d
            · rw [List.mem_singleton.1 d]
              exact .inr ⟨x, mem_of_lookup' hl⟩
          · exact .inr ⟨k, (List.mem_filter.1 c).1⟩
where
  mem_of_lookup' {l : List (Bytes × ReadIndexStatus)} {k : Bytes} {v : ReadIndexStatus}
      (h : l.lookup k = some v) : (k, v) ∈ l := by
    induction l with
    | nil => cases h
    | cons x rest ih =>
      obtain ⟨k', v'⟩ := x
      by_cases hk : k = k'
      · subst hk
        simp at h
        subst h
        exact List.mem_cons_self
      · have : (k == k') = false := by simpa using hk
        simp only [List.lookup_cons, this] at h
        exact List.mem_cons_of_mem _ (ih h)

theorem advance_sub {ro ro' : ReadOnly} {ctx : Bytes} {rss : List ReadIndexStatus}
    (h : ro.advance ctx = .ok (ro', rss)) :
    (∀ p ∈ ro'.pendingReadIndex, p ∈ ro.pendingReadIndex) ∧
    (∀ rs ∈ rss, ∃ k, (k, rs) ∈ ro.pendingReadIndex) := by
  unfold ReadOnly.advance at h
  split at h
  · obtain ⟨g1, g2⟩ := popN_sub _ _ _ _ _ h
    refine ⟨g1, fun rs hr => ?_⟩
    rcases g2 rs hr with c | c
    · cases c
    · exact c
  · cases h; exact ⟨fun _ hp => hp, fun _ hr => by cases hr⟩
  · cases h
  · cases h

theorem addRequest_index {ro ro' : ReadOnly} {i : Nat} {req : Message} {id : Nat}
    (h : ro.addRequest i req id = .ok ro') :
    ∀ p ∈ ro'.pendingReadIndex, p ∈ ro.pendingReadIndex ∨ p.2.index = i := by
  unfold ReadOnly.addRequest at h
  split at h
  · cases h
  · simp only [] at h
    split at h
    · cases h; exact fun p hp => .inl hp
    · cases h
      intro p hp
      rcases List.mem_append.1 hp with c | c
      · exact .inl c
      · rw [List.mem_singleton.1 c]; exact .inr rfl

end CS
end Raft
end RaftModel
