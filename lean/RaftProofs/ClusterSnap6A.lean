import RaftProofs.ClusterSnap5Y
import RaftProofs.RaftNodeC17

/-!
Commit safety of `ClusterSem` with compaction, snapshots and `request_snapshot`, part 6A (towards
deriving `reqok`): **frame lemmas for `pending_request_snapshot`, the role and the last index**.

`RQ.FrameP r r'`: `r'` has the pending snapshot request, the role, the unstable part of the log and the
stored entries / snapshot metadata of `r` (hence the same `last_index`).  Every sending / replication
helper of the node model satisfies it (the analogue of `FrameT` of `RaftNodeC17.lean`, whose proofs are
followed here).
-/
namespace RaftModel
namespace Raft
namespace RQ

/-- the part of the node state the invariant `ReqOkN` speaks about -/
structure PCore where
  pend : Nat
  state : StateRole
  unst : Unstable
  ents : List Entry
  smeta : SnapshotMetadata

def pcore (r : Raft) : PCore :=
  { pend := r.pendingRequestSnapshot, state := r.state, unst := r.raftLog.unstable,
    ents := r.raftLog.store.entries, smeta := r.raftLog.store.snapshotMetadata }

/-- `r'` differs from `r` only outside `pcore` -/
def FrameP (r r' : Raft) : Prop := pcore r' = pcore r

theorem FrameP.refl (r : Raft) : FrameP r r := rfl
theorem FrameP.trans {a b c : Raft} (h1 : FrameP a b) (h2 : FrameP b c) : FrameP a c := by
  unfold FrameP at *; rw [h2, h1]

theorem FrameP.pend {r r' : Raft} (h : FrameP r r') :
    r'.pendingRequestSnapshot = r.pendingRequestSnapshot := congrArg PCore.pend h
theorem FrameP.state {r r' : Raft} (h : FrameP r r') : r'.state = r.state := congrArg PCore.state h
theorem FrameP.unst {r r' : Raft} (h : FrameP r r') : r'.raftLog.unstable = r.raftLog.unstable :=
  congrArg PCore.unst h
theorem FrameP.ents {r r' : Raft} (h : FrameP r r') :
    r'.raftLog.store.entries = r.raftLog.store.entries := congrArg PCore.ents h
theorem FrameP.smeta {r r' : Raft} (h : FrameP r r') :
    r'.raftLog.store.snapshotMetadata = r.raftLog.store.snapshotMetadata := congrArg PCore.smeta h

/-- the last index is a function of the unstable part and of the stored entries / snapshot metadata -/
theorem lastIndex_congr {l l' : RaftLog} (h1 : l'.unstable = l.unstable)
    (h2 : l'.store.entries = l.store.entries)
    (h3 : l'.store.snapshotMetadata = l.store.snapshotMetadata) : l'.lastIndex = l.lastIndex := by
  unfold RaftLog.lastIndex MemStorage.lastIndex
  rw [h1, h2, h3]

theorem FrameP.last {r r' : Raft} (h : FrameP r r') :
    r'.raftLog.lastIndex = r.raftLog.lastIndex := lastIndex_congr h.unst h.ents h.smeta

/-- a change of the log that keeps the unstable part and the stored entries / snapshot metadata -/
theorem FrameP.of_log {r : Raft} {l : RaftLog} (h1 : l.unstable = r.raftLog.unstable)
    (h2 : l.store.entries = r.raftLog.store.entries)
    (h3 : l.store.snapshotMetadata = r.raftLog.store.snapshotMetadata) :
    FrameP r { r with raftLog := l } := by
  simp [FrameP, pcore, h1, h2, h3]

theorem send_fp (r : Raft) (m : Message) : Res.Post (fun r' => FrameP r r') (r.send m) := by
  apply Res.post_intro
  intro r' h
  rw [send_eq r r' m h]
  simp [FrameP, pcore]

theorem tryBatching_fp (r : Raft) (to : Nat) (pr : Progress) (ents : List Entry) :
    Res.Post (fun x => FrameP r x.1) (r.tryBatching to pr ents) := by
  unfold tryBatching
  split
  · simp [Res.Post, FrameP, pcore]
  · trivial
  · trivial

theorem storeSnapshot_pc (s : MemStorage) (k : Nat) :
    (s.snapshot k).1.entries = s.entries ∧ (s.snapshot k).1.snapshotMetadata = s.snapshotMetadata := by
  unfold MemStorage.snapshot
  split
  · exact ⟨rfl, rfl⟩
  · split <;> exact ⟨rfl, rfl⟩

theorem logSnapshot_pc (l : RaftLog) (k : Nat) :
    (l.snapshot k).1.unstable = l.unstable ∧ (l.snapshot k).1.store.entries = l.store.entries ∧
      (l.snapshot k).1.store.snapshotMetadata = l.store.snapshotMetadata := by
  have hs := storeSnapshot_pc l.store k
  unfold RaftLog.snapshot
  split
  · split
    · exact ⟨rfl, rfl, rfl⟩
    · exact ⟨rfl, hs.1, hs.2⟩
  · exact ⟨rfl, hs.1, hs.2⟩

theorem prepareSendSnapshot_fp (r : Raft) (m : Message) (pr : Progress) (to : Nat) :
    Res.Post (fun x => FrameP r x.1) (r.prepareSendSnapshot m pr to) := by
  have hs := logSnapshot_pc r.raftLog pr.pendingRequestSnapshot
  have hf : FrameP r { r with raftLog := (r.raftLog.snapshot pr.pendingRequestSnapshot).1 } :=
    FrameP.of_log hs.1 hs.2.1 hs.2.2
  unfold prepareSendSnapshot
  split
  · exact Res.post_ok (FrameP.refl _)
  · simp only
    split
    · exact Res.post_ok hf
    · trivial
    · trivial
    · split
      · trivial
      · exact Res.post_ok hf

/-- the snapshot fallback of `maybe_send_append` -/
theorem snapSend_fp (r0 r : Raft) (m : Message) (pr : Progress) (to : Nat) (h0 : FrameP r0 r) :
    Res.Post (fun x => FrameP r0 x.1)
      (match r.prepareSendSnapshot m pr to with
        | .ok (r, m, pr, true) => (r.send m).bind (fun r => .ok (r, pr, true))
        | .ok (r, _, pr, false) => .ok (r, pr, false)
        | .err e => .err e
        | .panic s => .panic s : Res (Raft × Progress × Bool)) := by
  split
  · rename_i r1 m1 pr1 heq
    have h1 := Res.Post.of_eq (prepareSendSnapshot_fp _ _ _ _) heq
    dsimp only at h1
    exact Res.post_bind (send_fp r1 m1) (fun a ha => by
      simp only [Res.Post]; exact (h0.trans h1).trans ha)
  · rename_i r1 m1 pr1 heq
    have h1 := Res.Post.of_eq (prepareSendSnapshot_fp _ _ _ _) heq
    dsimp only at h1
    simp only [Res.Post]; exact h0.trans h1
  · trivial
  · trivial

theorem maybeSendAppend_fp (r : Raft) (to : Nat) (pr : Progress) (ae : Bool) :
    Res.Post (fun x => FrameP r x.1) (r.maybeSendAppend to pr ae) := by
  unfold maybeSendAppend
  split
  · simp [Res.Post, FrameP.refl]
  · simp only
    split
    · exact snapSend_fp r r _ _ _ (FrameP.refl r)
    · generalize r.raftLog.entries pr.nextIdx (some r.maxMsgSize) true = E
      generalize r.raftLog.term (pr.nextIdx - 1) = T
      cases E with
      | panic s => trivial
      | ok ents =>
        simp only
        split
        · simp [Res.Post, FrameP.refl]
        · split
          · trivial
          · cases T with
            | panic s => trivial
            | err e => exact snapSend_fp r r _ _ _ (FrameP.refl r)
            | ok term =>
              simp only
              have hb : Res.Post (fun x => FrameP r x.1)
                  (if r.batchAppend then r.tryBatching to pr ents else .ok (r, pr, false)) := by
                split
                · exact tryBatching_fp _ _ _ _
                · simp [Res.Post, FrameP.refl]
              split
              · rename_i r1 pr1 heq
                exact Res.Post.of_eq (P := fun x => FrameP r x.1) hb heq
              · rename_i r1 pr1 heq
                have h1 : FrameP r r1 := Res.Post.of_eq (P := fun x => FrameP r x.1) hb heq
                split
                · rename_i m2 pr2 heq2
                  exact Res.post_bind (send_fp r1 m2) (fun a ha => by
                    simp only [Res.Post]; exact h1.trans ha)
                · trivial
                · trivial
              · trivial
              · trivial
      | err e =>
        simp only
        split
        · simp [Res.Post, FrameP.refl]
        · split
          · trivial
          · cases T with
            | panic s => trivial
            | err e' =>
              simp only
              split
              · contradiction
              · simp [Res.Post, FrameP.refl]
              · exact snapSend_fp r r _ _ _ (FrameP.refl r)
            | ok term =>
              simp only
              split
              · contradiction
              · simp [Res.Post, FrameP.refl]
              · exact snapSend_fp r r _ _ _ (FrameP.refl r)

theorem set_fp (r : Raft) (id : Nat) (pr : Progress) :
    FrameP r { r with prs := r.prs.set id pr } := by
  simp [FrameP, pcore]

theorem sendAppendPr_fp (r : Raft) (to : Nat) (pr : Progress) :
    Res.Post (fun x => FrameP r x.1) (r.sendAppendPr to pr) := by
  unfold sendAppendPr
  exact Res.post_bind (maybeSendAppend_fp r to pr true) (fun a ha => by
    simp only [Res.Post]; exact ha)

theorem sendAppendAggressivelyPr_fp (fuel : Nat) : ∀ (r : Raft) (to : Nat) (pr : Progress),
    Res.Post (fun x => FrameP r x.1) (sendAppendAggressivelyPr fuel r to pr) := by
  induction fuel with
  | zero => intro r to pr; unfold sendAppendAggressivelyPr; trivial
  | succ n ih =>
    intro r to pr
    unfold sendAppendAggressivelyPr
    split
    · rename_i r1 pr1 heq
      have h1 : FrameP r r1 :=
        Res.Post.of_eq (P := fun x => FrameP r x.1) (maybeSendAppend_fp _ _ _ _) heq
      exact Res.post_mono (ih r1 to pr1) (fun a ha => h1.trans ha)
    · rename_i r1 pr1 heq
      exact Res.Post.of_eq (P := fun x => FrameP r x.1) (maybeSendAppend_fp _ _ _ _) heq
    · trivial
    · trivial

theorem sendHeartbeat_fp (r : Raft) (to : Nat) (pr : Progress) (ctx : Option Bytes) :
    Res.Post (fun x => FrameP r x) (r.sendHeartbeat to pr ctx) := by
  unfold sendHeartbeat
  exact send_fp r _

theorem sendAppend_fp (r : Raft) (to : Nat) :
    Res.Post (fun x => FrameP r x) (r.sendAppend to) := by
  unfold sendAppend
  split
  · trivial
  · exact Res.post_bind (sendAppendPr_fp r to _) (fun a ha => by
      simp only [Res.Post]; exact FrameP.trans ha (set_fp _ _ _))

theorem sendAppendAggressively_fp (r : Raft) (to : Nat) :
    Res.Post (fun x => FrameP r x) (r.sendAppendAggressively to) := by
  unfold sendAppendAggressively
  split
  · trivial
  · exact Res.post_bind (sendAppendAggressivelyPr_fp _ r to _) (fun a ha => by
      simp only [Res.Post]; exact FrameP.trans ha (set_fp _ _ _))

theorem foldl_fp {β : Type} (g : Raft → β → Res Raft)
    (hg : ∀ r b, Res.Post (fun x => FrameP r x) (g r b)) (r0 : Raft) :
    ∀ (l : List β) (acc : Res Raft), Res.Post (fun x => FrameP r0 x) acc →
      Res.Post (fun x => FrameP r0 x) (l.foldl (fun acc b => acc.bind (fun r => g r b)) acc) := by
  intro l
  induction l with
  | nil => intro acc h; exact h
  | cons b rest ih =>
    intro acc h
    simp only [List.foldl_cons]
    apply ih
    exact Res.post_bind h (fun a ha => Res.post_mono (hg a b) (fun x hx => ha.trans hx))

theorem forEachPeer_fp (r : Raft) (f : Raft → Nat → Progress → Res (Raft × Progress))
    (hf : ∀ r id pr, Res.Post (fun x => FrameP r x.1) (f r id pr)) :
    Res.Post (fun x => FrameP r x) (r.forEachPeer f) := by
  unfold forEachPeer
  apply foldl_fp (fun r id => if id = r.id then .ok r
      else match r.prs.get id with
        | none => .ok r
        | some pr => (f r id pr).bind (fun (r, pr) => .ok { r with prs := r.prs.set id pr }))
  · intro r1 id
    dsimp only
    split
    · exact FrameP.refl _
    · split
      · exact FrameP.refl _
      · exact Res.post_bind (hf r1 id _) (fun a ha => by
          simp only [Res.Post]; exact FrameP.trans ha (set_fp _ _ _))
  · exact FrameP.refl _

theorem bcastAppend_fp (r : Raft) : Res.Post (fun x => FrameP r x) r.bcastAppend := by
  unfold bcastAppend
  exact forEachPeer_fp r _ (fun r id pr => sendAppendPr_fp r id pr)

theorem bcastHeartbeatWithCtx_fp (r : Raft) (ctx : Option Bytes) :
    Res.Post (fun x => FrameP r x) (r.bcastHeartbeatWithCtx ctx) := by
  unfold bcastHeartbeatWithCtx
  exact forEachPeer_fp r _ (fun r id pr =>
    Res.post_bind (sendHeartbeat_fp r id pr ctx) (fun a ha => by simp only [Res.Post]; exact ha))

theorem bcastHeartbeat_fp (r : Raft) : Res.Post (fun x => FrameP r x) r.bcastHeartbeat := by
  unfold bcastHeartbeat
  exact bcastHeartbeatWithCtx_fp r _

theorem modifyProgress_fp (r : Raft) (id : Nat) (f : Progress → Progress) :
    FrameP r (r.modifyProgress id f) := by
  simp [FrameP, pcore, modifyProgress]

theorem mapProgress_fp (r : Raft) (f : Nat → Progress → Progress) :
    FrameP r (r.mapProgress f) := by
  simp [FrameP, pcore, mapProgress]

theorem logCommitTo_pc {l l' : RaftLog} {k : Nat} (h : l.commitTo k = .ok l') :
    l'.unstable = l.unstable ∧ l'.store = l.store := by
  unfold RaftLog.commitTo at h
  split at h
  · cases h; exact ⟨rfl, rfl⟩
  · split at h
    · cases h
    · cases h; exact ⟨rfl, rfl⟩

theorem logMaybeCommit_pc {l l' : RaftLog} {k t : Nat} {b : Bool}
    (h : l.maybeCommit k t = .ok (l', b)) : l'.unstable = l.unstable ∧ l'.store = l.store := by
  unfold RaftLog.maybeCommit at h
  split at h
  · split at h
    · split at h
      · split at h
        · rename_i hc
          cases h
          exact logCommitTo_pc hc
        · cases h
        · cases h
      · cases h; exact ⟨rfl, rfl⟩
    · cases h; exact ⟨rfl, rfl⟩
    · cases h
  · cases h; exact ⟨rfl, rfl⟩

theorem FrameP.of_log' {r : Raft} {l : RaftLog} (h : l.unstable = r.raftLog.unstable ∧
    l.store = r.raftLog.store) : FrameP r { r with raftLog := l } :=
  FrameP.of_log h.1 (by rw [h.2]) (by rw [h.2])

theorem maybeCommit_fp (r : Raft) : Res.Post (fun x => FrameP r x.1) r.maybeCommit := by
  unfold maybeCommit
  split
  · trivial
  · trivial
  · split
    · trivial
    · trivial
    · rename_i log hc
      simp only [Res.Post]
      exact FrameP.trans (FrameP.of_log' (logMaybeCommit_pc hc)) (modifyProgress_fp _ _ _)
    · exact FrameP.refl _

theorem handleReadyReadIndex_fp (r : Raft) (req : Message) (index : Nat) :
    Res.Post (fun x => FrameP r x.1) (r.handleReadyReadIndex req index) := by
  unfold handleReadyReadIndex
  split
  · split
    · trivial
    · simp [Res.Post, FrameP, pcore]
  · simp [Res.Post, FrameP.refl]

theorem respondReadStates_fp (r : Raft) (rss : List ReadIndexStatus) :
    Res.Post (fun x => FrameP r x) (r.respondReadStates rss) := by
  unfold respondReadStates
  apply foldl_fp (fun (r : Raft) (rs : ReadIndexStatus) => (r.handleReadyReadIndex rs.req rs.index).bind (fun (r, om) =>
        match om with
        | some m => r.send m
        | none => .ok r))
  · intro r1 rs
    exact Res.post_bind (handleReadyReadIndex_fp r1 _ _) (fun a ha => by
      obtain ⟨r2, om⟩ := a
      dsimp only at ha ⊢
      split
      · rename_i m
        exact Res.post_mono (send_fp r2 m) (fun x hx => ha.trans hx)
      · exact ha)
  · exact FrameP.refl _

/-! ### leader-side handlers -/

theorem checkQuorumActive_fp (r : Raft) : FrameP r r.checkQuorumActive.1 := by
  simp [FrameP, pcore, checkQuorumActive, ProgressTracker.quorumRecentlyActive]

theorem filterProposalEntry_fp (r : Raft) (i : Nat) (e : Entry) :
    ∀ x, r.filterProposalEntry i e = some x → FrameP r x.1 := by
  intro x h
  unfold filterProposalEntry at h
  dsimp only at h
  split at h
  · cases h
  · cases h; exact FrameP.refl _
  · split at h <;> (try split at h) <;> cases h <;> simp [FrameP, pcore]

theorem filterProposal_fp : ∀ (es : List Entry) (r : Raft) (i : Nat),
    FrameP r (r.filterProposal i es).1 := by
  intro es
  induction es with
  | nil => intro r i; exact FrameP.refl _
  | cons e rest ih =>
    intro r i
    unfold filterProposal
    split
    · exact FrameP.refl _
    · rename_i r1 e' heq
      have h1 : FrameP r r1 := filterProposalEntry_fp r i e _ heq
      have h2 := ih r1 (i + 1)
      split
      · rename_i r2 es' heq2
        rw [heq2] at h2; exact h1.trans h2
      · rename_i r2 heq2
        rw [heq2] at h2; exact h1.trans h2

theorem handleHeartbeatResponse_fp (r : Raft) (m : Message) :
    Res.Post (fun x => FrameP r x) (r.handleHeartbeatResponse m) := by
  unfold handleHeartbeatResponse
  split
  · exact FrameP.refl _
  · dsimp only
    apply Res.post_bind (P := fun _ => True)
    · split
      · split <;> trivial
      · trivial
    · intro pr1 _
      apply Res.post_bind (P := fun x => FrameP r x)
      · split
        · exact Res.post_bind (sendAppendPr_fp r m.frm pr1) (fun a ha => by
            simp only [Res.Post]; exact FrameP.trans ha (set_fp _ _ _))
        · exact set_fp _ _ _
      · intro r1 h1
        split
        · exact h1
        · split
          · exact h1.trans (by simp [FrameP, pcore])
          · split
            · apply Res.post_bind (P := fun _ => True)
              · exact Res.post_intro (fun _ _ => trivial)
              · intro a _
                exact Res.post_mono (respondReadStates_fp _ _)
                  (fun x hx => (h1.trans (by simp [FrameP, pcore])).trans hx)
            · exact h1.trans (by simp [FrameP, pcore])

theorem handleSnapshotStatus_fp (r : Raft) (m : Message) : FrameP r (r.handleSnapshotStatus m) := by
  unfold handleSnapshotStatus
  split
  · exact FrameP.refl _
  · split
    · exact FrameP.refl _
    · exact set_fp _ _ _

theorem handleUnreachable_fp (r : Raft) (m : Message) : FrameP r (r.handleUnreachable m) := by
  unfold handleUnreachable
  split
  · exact FrameP.refl _
  · split
    · exact set_fp _ _ _
    · exact FrameP.refl _

theorem sendVoteRequests_fp (r : Raft) (ct : CampaignType) (voteMsg : MsgType) (term : Nat) :
    Res.Post (fun x => FrameP r x) (r.sendVoteRequests ct voteMsg term) := by
  unfold sendVoteRequests
  split
  · trivial
  · trivial
  · rename_i commit commitTerm _
    split
    · trivial
    · trivial
    · rename_i lastTerm _
      apply foldl_fp (fun (r : Raft) (id : Nat) =>
          if id = r.id then .ok r
          else r.send { msgType := voteMsg, to := id, term := term, index := r.raftLog.lastIndex,
                        logTerm := lastTerm, commit := commit, commitTerm := commitTerm,
                        context := if ct = .transfer then campaignTransfer else [] })
      · intro r1 id
        split
        · exact FrameP.refl _
        · exact send_fp r1 _
      · exact FrameP.refl _

theorem sendRequestSnapshot_fp (r : Raft) : Res.Post (fun x => FrameP r x) r.sendRequestSnapshot := by
  unfold sendRequestSnapshot
  dsimp only
  split
  · exact send_fp r _
  · trivial
  · trivial

theorem sendTimeoutNow_fp (r : Raft) (to : Nat) : Res.Post (fun x => FrameP r x) (r.sendTimeoutNow to) := by
  unfold sendTimeoutNow
  exact send_fp r _

end RQ
end Raft
end RaftModel
