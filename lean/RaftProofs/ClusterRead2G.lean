import RaftProofs.ClusterRead2F
import RaftProofs.ClusterReadN

/-!
Cluster-level ReadIndex safety with compaction and snapshots, part 2G: **a concrete history**
(kernel-evaluated) that satisfies every hypothesis of `RdHypS` and in which a leader that has compacted
its log, sent a snapshot to a lagging follower and served a `request_snapshot` answers a `read_index`
request after a heartbeat round.

The 42-state history `Snap5.rx_hist` (`ClusterSnap5Z.lean`: node 1 leads term 1, commits index 2,
compacts, sends a `MsgSnapshot` to node 3, which restores and installs it; node 2 calls
`request_snapshot`, is served a `MsgSnapshot`, restores it over a matching log and installs it) continued
by five steps: `read_index([7])` on node 1 (registered with read index 2, heartbeats with the context are
queued), node 1 sends, node 2 — whose log now consists of the restored snapshot — is delivered the
heartbeat and queues its response, node 2 sends, node 1 is delivered the response and produces the read
state `([7], 2)`.
-/
namespace RaftModel
namespace Cluster
namespace Snap5
namespace Rd
open Node Raft Raft.CC Raft.RD RaftProps.C02 RaftProps.C05 Snap

def rdx_ctx : Bytes := [7]
def rdx_a21 := c02x_st (Node.call rx_a20 none (.readIndex rdx_ctx))
def rdx_a22 := c02x_st (Node.call rdx_a21 none .drain)
/-- the heartbeat for node 2 that carries the context -/
def rdx_hb := (rdx_a21.raft.msgs.filter (fun x => x.msgType == .msgHeartbeat && x.to == 2)).head!
def rdx_b16 := c02x_st (Node.call rx_b15 none (.step rdx_hb))
def rdx_b17 := c02x_st (Node.call rdx_b16 none .drain)
/-- node 2's heartbeat response -/
def rdx_hbr := rdx_b16.raft.msgs.head!
def rdx_a23 := c02x_st (Node.call rdx_a22 none (.step rdx_hbr))

def rdx_t1 : Sys := rx_t8.setNode 1 rdx_a21
def rdx_t2 : Sys := { (rdx_t1.setNode 1 rdx_a22) with net := rdx_t1.net ++ rdx_a21.raft.msgs }
def rdx_t3 : Sys := rdx_t2.setNode 2 rdx_b16
def rdx_t4 : Sys := { (rdx_t3.setNode 2 rdx_b17) with net := rdx_t3.net ++ rdx_b16.raft.msgs }
def rdx_t5 : Sys := rdx_t4.setNode 1 rdx_a23

def rdx_tail : List Sys := [rdx_t1, rdx_t2, rdx_t3, rdx_t4, rdx_t5]
/-- the history: 42 + 5 states -/
def rdx_hist : List Sys := rx_hist ++ rdx_tail

theorem rdx_hb_mem : rdx_hb ∈ rdx_a21.raft.msgs :=
  (List.mem_filter.1 (c02x_head_mem _ (by decide))).1

set_option maxRecDepth 100000 in
theorem rdx_tail_steps : Chained KStep (rx_t8 :: rdx_tail) := by
  refine ⟨?_, ?_, ?_, ?_, ?_, trivial⟩
  · -- the read
    exact KStep.call _ 1 rx_a20 rdx_a21 none (.readIndex rdx_ctx) _ rfl rfl
      (fun k hc => by cases hc) (fun k hc => by cases hc)
      (fun hc => by cases hc) (fun hc => absurd (by decide) hc) (fun _ => by decide)
      (fun k hc => by cases hc) (snapSend_of_none (by decide)) (c02x_out _ (by decide))
  · exact KStep.send _ 1 rdx_a21 rdx_a22 rfl ⟨by decide, by decide⟩
      (fun hc => absurd (by decide) hc) rfl
  · exact KStep.deliver _ 2 rx_b15 rdx_b16 none rdx_hb _ rfl
      (List.mem_append_right _ rdx_hb_mem) (by decide) (by decide)
      (fun _ => by decide) (snapSend_of_none (by decide)) (c02x_out _ (by decide))
  · exact KStep.send _ 2 rdx_b16 rdx_b17 rfl ⟨by decide, by decide⟩
      (fun _ => ⟨by decide, by decide⟩) rfl
  · exact KStep.deliver _ 1 rdx_a22 rdx_a23 none rdx_hbr _ rfl
      (List.mem_append_right _ (c02x_head_mem _ (by decide))) (by decide) (by decide)
      (fun _ => by decide) (snapSend_of_none (by decide)) (c02x_out _ (by decide))

theorem rdx_ksteps : Chained KStep rdx_hist :=
  chained_append (sx_hist ++ [rx_t1, rx_t2, rx_t3, rx_t4, rx_t5, rx_t6, rx_t7]) rx_t8
    rdx_tail (by simpa [rx_hist, rx_tail] using rx_ksteps) rdx_tail_steps

theorem rdx_history : History rdx_hist := by
  have := chained_history [] c02x_s0 (History.init _ c02x_init) _
    (Chained.mono (fun _ _ hc => hc.step) _ rdx_ksteps)
  simpa [rdx_hist, rx_hist, sx_hist, sx_pre, sx_mid, c01x_hist, c05x_hist, c02x_hist] using this

/-! ### the hypotheses of the snapshot layer -/

set_option maxRecDepth 100000 in
theorem rdx_chk_tail : ∀ s ∈ rdx_tail, rx_chk s = true := by
  intro s hs
  simp only [rdx_tail, List.mem_cons, List.not_mem_nil, or_false] at hs
  rcases hs with rfl | rfl | rfl | rfl | rfl <;> decide

theorem rdx_all (s : Sys) (hs : s ∈ rdx_hist) :
    FixedCfg c02x_cfg s ∧ NoBatch s ∧ (∀ x ∈ s.net, sx_msgOk x) ∧ ReqOk s := by
  rcases List.mem_append.1 hs with c | c
  · exact rx_all s c
  · exact rx_chk_ok s (rdx_chk_tail s c)

/-- the history satisfies every hypothesis of the commit layer with compaction, snapshots and
`request_snapshot` -/
theorem rdx_hyp3 : Hyp3 c02x_cfg 0 rdx_hist := by
  have h0 : rdx_hist[0]? = some c02x_s0 := rfl
  have H := sx_hyp3
  have h0' : sx_hist[0]? = some c02x_s0 := rfl
  refine ⟨⟨⟨rdx_history, fun s hs => (rdx_all s hs).1, H.ne, H.nd1, H.nd2, ?_,
    chained_at _ rdx_ksteps, fun s hs => (rdx_all s hs).2.1, fun s hs => (rdx_all s hs).2.2.2⟩,
    H.nolone, ?_, ?_, fun s hs x hx => ((rdx_all s hs).2.2.1 x hx).1, ?_⟩,
    fun s hs x hx => ((rdx_all s hs).2.2.1 x hx).2.1, ?_,
    fun s hs x hx => ((rdx_all s hs).2.2.1 x hx).2.2⟩
  · intro s hs
    rw [h0] at hs; cases hs
    exact H.init _ h0'
  · intro s hs
    rw [h0] at hs; cases hs
    exact H.first0 _ h0'
  · intro s hs
    rw [h0] at hs; cases hs
    exact H.initc _ h0'
  · intro s hs
    rw [h0] at hs; cases hs
    exact H.pend0 _ h0'
  · intro s hs
    rw [h0] at hs; cases hs
    exact H.snapt0 _ h0'

theorem rdx_hyp3r : Hyp3r c02x_cfg 0 rdx_hist :=
  (Hyp3a.toHyp3w (Hyp3.toHyp3a rdx_hyp3)).toHyp3r

/-! ### the read-specific hypotheses -/

/-- `Safe` on every node, no `MsgReadIndex` in the transport -/
def rdx_chk (s : Sys) : Bool :=
  s.nodes.all (fun p => decide (p.2.raft.readOnly.option = .safe)) &&
  s.net.all (fun x => decide (x.msgType ≠ .msgReadIndex))

theorem rdx_chk_ok (s : Sys) (h : rdx_chk s = true) :
    (∀ i st, s.node i = some st → st.raft.readOnly.option = .safe) ∧
    ∀ x ∈ s.net, x.msgType ≠ .msgReadIndex := by
  unfold rdx_chk at h
  simp only [Bool.and_eq_true] at h
  obtain ⟨h2, h3⟩ := h
  refine ⟨fun i st hi => ?_, fun x hx => ?_⟩
  · rw [List.all_eq_true] at h2
    exact of_decide_eq_true (h2 _ (c02_lookup_mem s.nodes i st hi))
  · rw [List.all_eq_true] at h3
    exact of_decide_eq_true (h3 x hx)

set_option maxRecDepth 100000 in
theorem rdx_chk_all : ∀ s ∈ rdx_hist, rdx_chk s = true := by
  intro s hs
  simp only [rdx_hist, rdx_tail, rx_hist, rx_tail, sx_hist, sx_pre, sx_mid, sx_tail, c01x_hist,
    c05x_hist, c02x_hist, List.cons_append, List.nil_append, List.mem_cons, List.not_mem_nil,
    or_false] at hs
  rcases hs with rfl | rfl | rfl | rfl | rfl | rfl | rfl | rfl | rfl | rfl | rfl | rfl | rfl |
    rfl | rfl | rfl | rfl | rfl | rfl | rfl | rfl | rfl | rfl | rfl | rfl | rfl | rfl | rfl | rfl |
    rfl | rfl | rfl | rfl | rfl | rfl | rfl | rfl | rfl | rfl | rfl | rfl | rfl | rfl | rfl | rfl |
    rfl | rfl <;> decide

/-! ### the registrations of the history -/

/-- all consecutive pairs but the one at position 41 (counted from `k`) register nothing -/
def rdx_pairs : Nat → List Sys → Bool
  | k, a :: b :: t => (k == 41 || c08x_noReg a b) && rdx_pairs (k + 1) (b :: t)
  | _, _ => true

theorem rdx_pairs_at : ∀ (l : List Sys) (k : Nat), rdx_pairs k l = true →
    ∀ (n : Nat) (a b : Sys), l[n]? = some a → l[n + 1]? = some b → k + n ≠ 41 →
      c08x_noReg a b = true := by
  intro l
  induction l with
  | nil => intro k _ n a b ha; simp at ha
  | cons x t ih =>
    intro k hk n a b ha hb hne
    cases t with
    | nil =>
      cases n with
      | zero => simp at hb
      | succ n => simp at ha
    | cons y t' =>
      simp only [rdx_pairs, Bool.and_eq_true, Bool.or_eq_true, beq_iff_eq] at hk
      cases n with
      | zero =>
        simp at ha hb
        subst ha; subst hb
        rcases hk.1 with c | c
        · omega
        · exact c
      | succ n =>
        exact ih (k + 1) hk.2 n a b (by simpa using ha) (by simpa using hb) (by omega)

set_option maxRecDepth 100000 in
theorem rdx_pairs_ok : rdx_pairs 0 rdx_hist = true := by decide

/-- every pending context of `s` is `rdx_ctx` -/
def rdx_keys (s : Sys) : Bool :=
  s.nodes.all (fun p => p.2.raft.readOnly.pendingReadIndex.all (fun q => q.1 == rdx_ctx))

set_option maxRecDepth 100000 in
theorem rdx_keys1 : rdx_keys rdx_t1 = true := by decide

/-- the only registration of the history: `read_index([7])` at step 41 -/
theorem rdx_reg_only {n i : Nat} {K : Bytes} (h : RegAt rdx_hist n i K) :
    n = 41 ∧ K = rdx_ctx := by
  obtain ⟨a, b, st, st', rnd, res, h1, h2, h3, h4, h5, h6, h7⟩ := h
  have hb' : b.node i = some st' := by rw [h5]; exact node_setNode_self a i st'
  by_cases hn : n = 41
  · refine ⟨hn, ?_⟩
    subst hn
    have e : rdx_hist[41 + 1]? = some rdx_t1 := rfl
    rw [e] at h2; cases h2
    obtain ⟨rs, hrs⟩ := h7
    have hk := rdx_keys1
    unfold rdx_keys at hk
    rw [List.all_eq_true] at hk
    have h1' := hk _ (c02_lookup_mem _ i st' hb')
    rw [List.all_eq_true] at h1'
    simpa using h1' _ hrs
  · exact (c08x_noReg_ok (rdx_pairs_at _ 0 rdx_pairs_ok n a b h1 h2 (by omega)) h3 hb' h6 h7).elim

/-- **the history satisfies every hypothesis of the read layer with compaction and snapshots** -/
theorem rdx_rdhyp : RdHypS c02x_cfg 0 rdx_hist :=
  { toHyp3r := rdx_hyp3r
    norir := rdx_hyp3.toHyp2.norir
    safe := fun s hs => (rdx_chk_ok s (rdx_chk_all s hs)).1
    nori := fun s hs => (rdx_chk_ok s (rdx_chk_all s hs)).2
    uniq := fun n1 n2 _ _ _ h1 h2 => by rw [(rdx_reg_only h1).1, (rdx_reg_only h2).1]
    nonempty := fun _ _ _ h => by rw [(rdx_reg_only h).2]; decide }

set_option maxRecDepth 100000 in
/-- the `read_index([7])` call of step 41 on node 1 registers the request -/
theorem rdx_regAt : RegAt rdx_hist 41 1 rdx_ctx := by
  refine ⟨rx_t8, rdx_t1, rx_a20, rdx_a21, none, _, rfl, rfl, rfl,
    c02x_out _ (by decide), rfl, ?_, ⟨_, List.mem_singleton.2 rfl⟩⟩
  intro rs hrs
  have : rx_a20.raft.readOnly.pendingReadIndex = [] := by decide
  rw [this] at hrs
  cases hrs

end Rd
end Snap5
end Cluster
end RaftModel
