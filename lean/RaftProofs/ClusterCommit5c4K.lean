import RaftProofs.ClusterCommit5c4J

/-!
Cluster-level commit safety **with `batch_append`** (copy of `ClusterCommit4K.lean` over the bundles without `NoBatch`), part 4K: provenance of the accepting append responses (`ack_prov`), and
**an accepted acknowledgement delivered to the leader of its term lies within the leader's log**
(`ack_bound`): the acknowledging node held, when it queued the response, a prefix of a log of that
term's leader that reaches the acknowledged index (`Sm.a2m`), and the leader's log only grows while it
leads (`leader_log_ext`).
-/
namespace RaftModel
namespace ClusterB
open Node Raft Raft.CC Raft.CP RaftProps.C02 RaftProps.C05 Raft.CB Raft.Bt Cluster

variable {cfg : JointConfig} {c0 : Nat} {h : List Sys}

/-- what is recorded about an accepting append response with a positive index when it is queued -/
def AckGen (h : List Sys) (n i : Nat) (x : Message) : Prop :=
  ∃ s st, h[n]? = some s ∧ s.node i = some st ∧ x ∈ st.raft.msgs ∧ x.term = st.raft.term ∧
    x.frm = i

/-- **provenance of the accepting append responses** -/
theorem ack_prov (H : Hyp2wB cfg c0 h) : ∀ (n : Nat) (s : Sys), h[n]? = some s →
    (∀ i st, s.node i = some st → ∀ x ∈ st.raft.msgs, (isAck x ∧ x.index ≠ 0) →
      Gen (AckGen h) n i x) ∧
    (∀ x ∈ s.net, (isAck x ∧ x.index ≠ 0) → ∃ i, Gen (AckGen h) n i x) := by
  refine provenance h H.hist H.steps (fun x => isAck x ∧ x.index ≠ 0) (AckGen h) ?_
  intro n a b i st st' rnd op res ha hb hi hi' hcall hop hnc hnet x hx hK
  rcases fresh_ack H ha hb hi hi' hnet hop hnc hcall hx hK.1 hK.2 with c | ⟨c1, c2, _, _⟩
  · exact .inl c
  · exact .inr ⟨b, st', hb, hi', hx, c2, c1⟩

/-- the last index of a node is at least the common snapshot point -/
theorem c0_le_last (H : Hyp2wB cfg c0 h) {n : Nat} {s : Sys} (hn : h[n]? = some s) {v : Nat}
    {st : NState} (hv : s.node v = some st) : c0 ≤ st.raft.raftLog.lastIndex :=
  Nat.le_trans (c0_le_committed H hn hv) (node_okB H hn hv).inv.committed_le_last

/-- **an accepted acknowledgement for the term of a leader lies within that leader's log** -/
theorem ack_bound (H : Hyp3aB cfg c0 h) {n : Nat} {a : Sys} (ha : h[n]? = some a) {k : Nat}
    {st : NState} (hk : a.node k = some st) (hs : st.raft.state = .leader) {x : Message}
    (hx : x ∈ a.net) (hack : isAck x) (ht : x.term = 0 ∨ x.term = st.raft.term) :
    x.index ≤ st.raft.raftLog.lastIndex := by
  have H2 := H.toHyp2wB
  by_cases hc : x.index ≤ c0
  · exact Nat.le_trans hc (c0_le_last H2 ha hk)
  · have hx0 : x.index ≠ 0 := by omega
    have htnz := ((ack_inv H2 n a ha).2 x hx hack hx0).2
    have hterm : x.term = st.raft.term := by
      rcases ht with c | c
      · exact absurd c htnz
      · exact c
    obtain ⟨i, n0, hn0, s0, st0, h1, h2, h3, h4, h5⟩ := (ack_prov H2 n a ha).2 x hx ⟨hack, hx0⟩
    obtain ⟨L, hL, hle, _⟩ := (sm_all H h1).a2m i st0 h2 x (.inr h3) hack h5 (by omega) h4
    obtain ⟨m, s', l, stl, hm, a2, a3, a4, a5, rfl⟩ := hL
    obtain ⟨d, rfl⟩ := Nat.exists_eq_add_of_le (Nat.le_trans hm hn0)
    obtain ⟨_, hlast, _⟩ := leader_log_ext H2 a2 ha a3 hk a4 hs a5 hterm.symm
    have ol := node_okB H2 a2 a3
    rw [← ol.inv.lastIndex_abs] at hle
    exact Nat.le_trans hle hlast

end ClusterB
end RaftModel
