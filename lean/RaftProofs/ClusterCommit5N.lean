import RaftProofs.ClusterCommit5M
import RaftProps.C05d

/-!
Cluster-level commit safety **with `batch_append`**, part 5N: the standing hypotheses without `NoBatch`
(`HypB`, `Hyp2wB`: `Hyp` / `Hyp2w` with `nb` replaced by `MultiVoter` and `SaneAnchors` — the second
branch of C05d's `BatchOk`), what the Log Matching layer with batching gives for every state (`InvL`
and the queue invariants `InvB`), the proviso `Prov0` of the batching per-call layer for every `call` /
`deliver` step of the history, and the storage half of the gateway from the per-call layers to the
cluster level (`call_moreB`, the counterpart of `call_more` of `ClusterCommit2P.lean`).
-/
namespace RaftModel
namespace ClusterB
open Node Raft Raft.CC Raft.Bt Cluster RaftProps.C02 RaftProps.C05

/-- **the standing hypotheses without `NoBatch`**: `Hyp` (`RaftProofs/ClusterCommitS.lean`) with the
field `nb` (`batch_append = false` on every node of every state) replaced by
* `mv`: the configuration has two different voters (implied by `nolone` of `Hyp2wB`), and
* `sane`: no queued `MsgAppend` is anchored in the void (`SaneAnchors` of `RaftProps/C05d.lean`; the
  hypothesis the Log Matching layer with batching needs).
`batch_append` may be on, off, or switched by `set_batch_append` at any time. -/
structure HypB (cfg : JointConfig) (h : List Sys) : Prop where
  hist : History h
  fix : ∀ s ∈ h, FixedCfg cfg s
  ne : cfg.incoming ≠ []
  nd1 : cfg.incoming.Nodup
  nd2 : cfg.outgoing.Nodup
  init : ∀ s : Sys, h[0]? = some s → InitOk s
  steps : ∀ (n : Nat) (a b : Sys), h[n]? = some a → h[n + 1]? = some b → KStep a b
  nosnap : ∀ s ∈ h, NoSnapNet s
  mv : MultiVoter cfg
  sane : ∀ s ∈ h, SaneAnchors s

/-- `Hyp` is the special case "nobody batches" — given the two facts `HypB` asks for instead -/
theorem HypB.of_hyp {cfg : JointConfig} {h : List Sys} (H : Hyp cfg h) (hmv : MultiVoter cfg)
    (hsane : ∀ s ∈ h, SaneAnchors s) : HypB cfg h :=
  ⟨H.hist, H.fix, H.ne, H.nd1, H.nd2, H.init, H.steps, H.nosnap, hmv, hsane⟩

/-- `Hyp2w` without `NoBatch` -/
structure Hyp2wB (cfg : JointConfig) (c0 : Nat) (h : List Sys) : Prop extends HypB cfg h where
  nolone : ∀ i Q, IsJointQuorum cfg Q → ∃ k ∈ Q, k ≠ i
  shape : ∀ s ∈ h, ∀ i st, s.node i = some st →
    st.raft.raftLog.unstable.snapshot = none ∧ st.raft.raftLog.store.firstIndex = c0 + 1
  initc : ∀ s : Sys, h[0]? = some s → ∀ i st, s.node i = some st → st.raft.raftLog.committed = c0
  /-- the nodes start without a snapshot point: `SaneAnchors` (an anchor with `log_term = 0` is at index
  0) matches "anchored inside the log" only then -/
  c0z : c0 = 0

variable {cfg : JointConfig} {c0 : Nat} {h : List Sys}

theorem HypB.csteps (H : HypB cfg h) :
    ∀ (n : Nat) (a b : Sys), h[n]? = some a → h[n + 1]? = some b → CStep a b :=
  fun n a b ha hb => (H.steps n a b ha hb).cstep

/-- C05d's hypothesis in place of `NoBatch` -/
theorem HypB.batchOk (H : HypB cfg h) : RaftProps.C05.BatchOk cfg h := .inr ⟨H.mv, H.sane⟩

/-- **the Log Matching invariant and the queue invariants in every state**, batching on or off -/
theorem HypB.invLB (H : HypB cfg h) :
    ∃ s0, h[0]? = some s0 ∧ ∀ s ∈ h, InvL (Owner h) (EntriesOf s0) s ∧ InvB s :=
  RaftProps.C05.cluster_invB_batch cfg H.ne H.nd1 H.nd2 h H.hist H.fix H.init H.csteps H.mv H.sane

theorem HypB.invL (H : HypB cfg h) :
    ∃ s0, h[0]? = some s0 ∧ ∀ s ∈ h, InvL (Owner h) (EntriesOf s0) s := by
  obtain ⟨s0, h0, hall⟩ := H.invLB
  exact ⟨s0, h0, fun s hs => (hall s hs).1⟩

theorem Hyp2wB.inv_at (H : Hyp2wB cfg c0 h) :
    ∃ s0, h[0]? = some s0 ∧ ∀ s ∈ h, InvL (Owner h) (EntriesOf s0) s := H.toHypB.invL

/-- a leader's queue is clean in every state (C05d's `InvB.lc`) -/
theorem HypB.cleanQ (H : HypB cfg h) {s : Sys} (hs : s ∈ h) {k : Nat} {st : NState}
    (hk : s.node k = some st) (hl : st.raft.state = .leader) :
    CleanQ st.raft.msgs st.raft.raftLog.abs := by
  obtain ⟨_, _, hall⟩ := H.invLB
  exact (hall s hs).2.lc k st hk hl

/-- the operations of a `call` / `deliver` step are neither `drain` nor `rstep` -/
theorem op_ok {a : Sys} {i : Nat} {op : NodeOp}
    (hop : appOp op = true ∨ ∃ m, op = .step m ∧ m ∈ a.net ∧ m.to = i) :
    op ≠ .drain ∧ ∀ m, op ≠ .rstep m := by
  rcases hop with h1 | ⟨m, h1, _⟩
  · constructor
    · intro hc; rw [hc] at h1; cases h1
    · intro m hc; rw [hc] at h1; cases h1
  · rw [h1]
    exact ⟨(by intro hc; cases hc), (by intro m' hc; cases hc)⟩

/-- **the proviso of the batching per-call layer holds for every `call` / `deliver` step of the
history**: a node that is leader before the call has a clean queue; a node that is leader only after the
call was candidate of the same term with its vote request in the transport, so its queue holds no
`MsgAppend` at all -/
theorem HypB.prov0 (H : HypB cfg h) {n : Nat} {a b : Sys} (ha : h[n]? = some a)
    (hb : h[n + 1]? = some b) {i : Nat} {st st' : NState} {rnd : Option Nat} {op : NodeOp}
    {res : OpRes} (hi : a.node i = some st) (hi' : b.node i = some st') (hnet : b.net = a.net)
    (hop : appOp op = true ∨ ∃ m, op = .step m ∧ m ∈ a.net ∧ m.to = i)
    (hcall : Node.call st rnd op = .ok (res, st')) :
    (st'.raft.state = .leader →
      st.raft.term = st'.raft.term ∧
        ((st.raft.state = .candidate ∧ ∀ x ∈ st.raft.msgs, x.msgType ≠ .msgAppend) ∨
          st.raft.state = .leader)) ∧
    Prov0 st.raft st'.raft := by
  obtain ⟨s0, _, hall⟩ := H.invLB
  obtain ⟨all1, all2, _⟩ := hist_all H.hist
  have hma := mem_of_get ha
  have hmb := mem_of_get hb
  have I := (hall a hma).1
  have rt := call_rt st st' rnd op res (I.inv i st hi) (op_ok hop) hcall
  exact prov0_of_inv H.nd1 H.nd2 H.mv (hall a hma).2 (all1 a hma) (all1 b hmb)
    (all2 cfg H.fix b hmb) hi hi' hnet rt

/-- the shape of every node of a history under `Hyp2wB` (`NodeOk` without the batching flag) -/
structure NodeOkB (c0 i : Nat) (st : NState) : Prop where
  inv : st.raft.raftLog.Inv
  snap : st.raft.raftLog.unstable.snapshot = none
  snapIdx : st.raft.raftLog.abs.snapIdx = c0
  ssnap : (storeLog st.raft.raftLog.store).snapIdx = c0
  id : st.raft.id = i

theorem node_okB (H : Hyp2wB cfg c0 h) {n : Nat} {s : Sys} (hn : h[n]? = some s) {i : Nat}
    {st : NState} (hi : s.node i = some st) : NodeOkB c0 i st := by
  obtain ⟨s0, _, hall⟩ := H.inv_at
  have hm := mem_of_get hn
  obtain ⟨h1, h2⟩ := H.shape s hm i st hi
  refine ⟨(hall s hm).inv i st hi, h1, ?_, ?_, (((hist_all H.hist).1 s hm).ids i st hi).1⟩
  · rw [RaftLog.abs_none h1]; show st.raft.raftLog.store.firstIndex - 1 = c0; omega
  · show st.raft.raftLog.store.firstIndex - 1 = c0; omega

/-- **the commit index, the storage and the logical log over one `call` / `deliver` step of the
history**, batching on or off (`call_more` of `ClusterCommit2P.lean`, plus `LogRel` — the log half of
`call_q`) -/
theorem call_moreB (H : Hyp2wB cfg c0 h) {n : Nat} {a b : Sys} {i : Nat} {st st' : NState}
    {rnd : Option Nat} {op : NodeOp} {res : OpRes}
    (ha : h[n]? = some a) (hb : h[n + 1]? = some b) (hi : a.node i = some st)
    (hi' : b.node i = some st') (hnet : b.net = a.net)
    (hop : appOp op = true ∨ ∃ m, op = .step m ∧ m ∈ a.net ∧ m.to = i)
    (hc : ∀ j, op ≠ .compact j)
    (hcall : Node.call st rnd op = .ok (res, st')) :
    Src st st' op ∧ (SLg st.raft st'.raft (CV.opMsg op) ∨ op = .stabilize) ∧ HsOut st st' op := by
  obtain ⟨s0, _, hall⟩ := H.inv_at
  have I := hall a (mem_of_get ha)
  have hsn := H.nosnap a (mem_of_get ha)
  have hop' := op_ok hop
  have hms : ∀ m, op = .step m → m.msgType ≠ .msgSnapshot := by
    intro m hm
    rcases hop with h1 | ⟨m', h1, h2, _⟩
    · rw [hm] at h1; cases h1
    · rw [hm] at h1; cases h1; exact hsn m h2
  have hw : ∀ m, op = .step m → m.msgType = .msgAppend → MsgOk m := by
    intro m hm hty
    rcases hop with h1 | ⟨m', h1, h2, _⟩
    · rw [hm] at h1; cases h1
    · rw [hm] at h1; cases h1
      exact I.msgOk h2 hty
  have hs1 := (H.shape a (mem_of_get ha) i st hi).1
  have hp := (H.toHypB.prov0 ha hb hi hi' hnet hop hcall).2
  exact ⟨call_src st st' rnd op res (I.inv i st hi) hop' hc hs1 hcall,
    call_stob st st' rnd op res (I.inv i st hi) hp hop' hw hms hc hs1 hcall,
    call_hs st st' rnd op res hop' hs1 hcall⟩

end ClusterB
end RaftModel
