import RaftProofs.ClusterReadG
import RaftProofs.ClusterSnap2A

/-!
Cluster-level ReadIndex safety **with compaction and snapshots**, part 2A: what the delivery of a
`MsgSnapshot` does to the part of a node the read path uses.

`call_rd` (`ClusterReadG.lean`) excludes the delivery of a `MsgSnapshot` because `Raft::restore` replaces
the progress tracker, and the per-call invariant `RInv` carries "the configuration is the one of the
start of the call".  Nothing is answered during such a call: `restore` does not touch `read_only` or
`read_states`, `handle_snapshot` queues one `MsgAppendResponse`.  `RW` is the frame `RS` without the
configuration; `snapStep_rd` gives the per-call relation `ROut` (which does not mention the
configuration of the result) for the delivery of a `MsgSnapshot`.
-/
namespace RaftModel
namespace Raft
namespace RD
open VoteOb CV Node Raft.CC

/-- the frame `RS` without the configuration -/
structure RW (r r' : Raft) : Prop where
  keep : (r'.readOnly = r.readOnly ∧ r'.term = r.term) ∨
    r'.readOnly = ReadOnly.new r.readOnly.option
  tle : r.term ≤ r'.term
  rs : r'.readStates = r.readStates
  id : r'.id = r.id
  rd : rdOf r'.msgs = rdOf r.msgs

theorem RW.refl (r : Raft) : RW r r := ⟨.inl ⟨rfl, rfl⟩, Nat.le_refl _, rfl, rfl, rfl⟩

theorem RS.toRW {r r' : Raft} (h : RS r r') : RW r r' := ⟨h.keep, h.tle, h.rs, h.id, h.rd⟩

theorem RW.option {r r' : Raft} (h : RW r r') : r'.readOnly.option = r.readOnly.option := by
  rcases h.keep with ⟨g, _⟩ | g <;> rw [g] <;> rfl

theorem RW.trans {a b c : Raft} (h1 : RW a b) (h2 : RW b c) : RW a c := by
  refine ⟨?_, Nat.le_trans h1.tle h2.tle, h2.rs.trans h1.rs, h2.id.trans h1.id, h2.rd.trans h1.rd⟩
  rcases h2.keep with ⟨g1, g2⟩ | g
  · rcases h1.keep with ⟨k1, k2⟩ | k
    · exact .inl ⟨g1.trans k1, g2.trans k2⟩
    · exact .inr (g1.trans k)
  · right; rw [g, h1.option]

/-- the per-call relation survives a frame that may change the configuration -/
theorem RInv.rw_out {a r r' : Raft} {m : Message} (h : RInv a m r) (hs : RW r r') :
    ROut a.prs.voters a m r' := by
  refine ⟨hs.id.trans h.id, Nat.le_trans h.tle hs.tle, hs.option.trans h.opt, ?_, ?_, ?_, ?_⟩
  · intro K rs hm
    rcases hs.keep with ⟨g1, g2⟩ | g
    · rw [g1] at hm
      obtain ⟨k1, k2⟩ := h.pend K rs hm
      exact ⟨g2.trans k1, k2⟩
    · rw [g] at hm; cases hm
  · rcases hs.keep with ⟨g1, _⟩ | g
    · rw [g1]; exact h.queue
    · exact ⟨a.readOnly.readIndexQueue.length, by rw [g, List.drop_length]; rfl⟩
  · rw [hs.rs]; exact h.rst
  · intro x hx
    by_cases hr : rdT x.msgType = false
    · exact .inr (.inl hr)
    · have : x ∈ rdOf r'.msgs := mem_rdOf.2 ⟨hx, by simpa [isRd] using hr⟩
      rw [hs.rd] at this
      exact h.msgs x (mem_rdOf.1 this).1

/-- **`Raft::restore`** does not touch the read path (the progress tracker may be replaced) -/
theorem restore_rw {r r' : Raft} {snap : Snapshot} {b : Bool} (h : r.restore snap = .ok (r', b)) :
    RW r r' := by
  unfold Raft.restore at h
  simp only at h
  split at h
  · cases h; exact RW.refl _
  · split at h
    · split at h
      · cases h
      · cases h
        exact (becomeFollower_rs r (r.term + 1) 0 (by omega)).toRW
    · rename_i hf
      have hf : r.state = .follower := by
        apply Classical.byContradiction; intro hc; exact hf hc
      split at h
      · cases h; exact RW.refl _
      · split at h
        · cases h
        · cases h
        · split at h
          · cases h
            exact ⟨.inl ⟨rfl, rfl⟩, Nat.le_refl _, rfl, rfl, rfl⟩
          · cases h
          · cases h
        · split at h
          · cases h
          · cases h
          · rename_i log hl
            split at h
            · cases h
            · rename_i prs hprs
              obtain ⟨⟨r1, cs1⟩, hpc, h⟩ := Res.bind_eq_ok h
              have hnl : ({ r with raftLog := log, prs := prs } : Raft).state ≠ .leader := by
                show r.state ≠ .leader; rw [hf]; intro hc; cases hc
              have e1 := postConfChange_nl_eq hnl hpc
              simp only at h
              split at h
              · cases h
              · split at h
                · cases h
                · split at h
                  · cases h
                  · obtain ⟨⟨pr1, b1⟩, _, h⟩ := Res.bind_eq_ok h
                    cases h
                    subst e1
                    exact ⟨.inl ⟨rfl, rfl⟩, Nat.le_refl _, rfl, rfl, rfl⟩

/-- **`Raft::handle_snapshot`**: `restore`, then one `MsgAppendResponse` is queued -/
theorem handleSnapshot_rw {r r' : Raft} {m : Message} (h : r.handleSnapshot m = .ok r') :
    RW r r' := by
  unfold Raft.handleSnapshot at h
  obtain ⟨⟨r1, b⟩, hres, h2⟩ := Res.bind_eq_ok h
  have h1 := restore_rw hres
  simp only at h2
  split at h2
  · exact h1.trans (Res.Post.of_eq (P := fun x => RF r1 x) (send_rf r1 _ rfl) h2).toRS.toRW
  · exact h1.trans (Res.Post.of_eq (P := fun x => RF r1 x) (send_rf r1 _ rfl) h2).toRS.toRW

theorem Res.post_of_ok {α : Type} {P : α → Prop} {x : Res α} (h : ∀ a, x = .ok a → P a) :
    Res.Post P x := by
  cases x with
  | ok a => exact h a rfl
  | err e => trivial
  | panic s => trivial

/-- **`Raft::step` for a `MsgSnapshot`** -/
theorem step_snap_out {a r : Raft} {m : Message} (h : RInv a m r)
    (hsn : m.msgType = .msgSnapshot) :
    Res.Post (fun x => ROut a.prs.voters a m x.1) (r.step m) := by
  have hri : m.msgType ≠ .msgReadIndex := by rw [hsn]; intro hc; cases hc
  unfold step
  have hst := stepTerm_rs r m
  split
  · trivial
  · trivial
  · rename_i r1 heq
    exact (h.rs (Res.Post.of_eq hst heq).1).out
  · rename_i r1 heq
    obtain ⟨h1, ht⟩ := Res.Post.of_eq hst heq
    dsimp only at h1 ht
    have h1' := h.rs h1
    have cand : Res.Post (fun x => ROut a.prs.voters a m x.1) (r1.stepCandidate m) := by
      unfold stepCandidate
      rw [hsn]
      dsimp only
      split
      · trivial
      · rename_i htm
        have ht' : r1.term ≤ m.term := by
          have : r1.term = m.term := by
            apply Classical.byContradiction; intro hc; exact htm hc
          omega
        apply Res.post_bind (P := fun x => RW r1 x)
        · exact Res.post_of_ok (fun x hx =>
            (becomeFollower_rs r1 m.term m.frm ht').toRW.trans (handleSnapshot_rw hx))
        · intro b hb
          exact h1'.rw_out hb
    split
    · rename_i hty; rw [hsn] at hty; cases hty
    · rename_i hty; rw [hsn] at hty; cases hty
    · rename_i hty; rw [hsn] at hty; cases hty
    · split
      · exact cand
      · exact cand
      · unfold stepFollower
        rw [hsn]
        dsimp only
        apply Res.post_bind (P := fun x => RW r1 x)
        · exact Res.post_of_ok (fun x hx =>
            (RF.toRS (r := r1) (by simp [RF, rcore])).toRW.trans (handleSnapshot_rw hx))
        · intro b hb
          exact h1'.rw_out hb
      · exact Res.post_mono (stepLeader_rinv h1' hri (fun hq => ht rfl hq)) (fun x hx => hx.out)

/-- **the delivery of a `MsgSnapshot` at a node** -/
theorem snapStep_rd (st st' : NState) (rnd : Option Nat) (m : Message) (res : OpRes)
    (hsn : m.msgType = .msgSnapshot)
    (h : Node.call st rnd (.step m) = .ok (res, st')) :
    ROut st.raft.prs.voters st.raft m st'.raft := by
  unfold Node.call at h
  simp only [applyOp] at h
  obtain ⟨raft, e, hx, hr⟩ := unitRes_ok h
  rw [hr]
  have rebase : ∀ {r : Raft}, ROut ({ st.raft with nextRand := rnd } : Raft).prs.voters
      ({ st.raft with nextRand := rnd } : Raft) m r → ROut st.raft.prs.voters st.raft m r :=
    fun ho => ⟨ho.id, ho.tle, ho.opt, ho.pend, ho.queue, ho.rst, ho.msgs⟩
  apply rebase
  unfold RawNode.step at hx
  split at hx
  · cases hx; exact (RInv.refl _ m).out
  · split at hx
    · have := Res.Post.of_eq
        (step_snap_out (RInv.refl ({ st.raft with nextRand := rnd } : Raft) m) hsn) hx
      exact this
    · cases hx; exact (RInv.refl _ m).out

end RD
end Raft
end RaftModel
