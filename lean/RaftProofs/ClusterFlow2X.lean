import RaftProofs.ClusterFlow2A

/-!
Flow control / leadership transfer with compaction, snapshots and `request_snapshot` (C13d / C17d),
part 2X: **a concrete history** (kernel-evaluated) that satisfies `Snap5.Hyp3r` and has a
`MsgHeartbeat` and a `MsgTimeoutNow` in its transport.

The 42-state history `Snap5.rx_hist` of `ClusterSnap5Z.lean` (compaction at node 1, a snapshot for the
late node 3, `request_snapshot` at node 2 served by a second snapshot) holds `MsgAppend`s but no
`MsgHeartbeat` and no `MsgTimeoutNow`.  It is continued by four steps of node 1 (leader of term 1, log
compacted to index 1, last index 2, commit index 2):

* `ping`: queues `MsgHeartbeat`s — the one for node 2 advertises commit index `2` (`matched = 2`), the
  one for node 3 commit index `1` (`matched = 1`);
* `send`;
* `transfer_leader(2)`: node 2 has `matched = 2 = last_index`, so a `MsgTimeoutNow` for node 2 is queued
  at once;
* `send`.
-/
namespace RaftModel
namespace Cluster
namespace Snap5
namespace Flow2
open Node Raft Raft.CC RaftProps.C02 RaftProps.C05 Snap

def fx_a21 := c02x_st (Node.call rx_a20 none .ping)
def fx_a22 := c02x_st (Node.call fx_a21 none .drain)
def fx_a23 := c02x_st (Node.call fx_a22 none (.transferLeader 2))
def fx_a24 := c02x_st (Node.call fx_a23 none .drain)

/-- the heartbeat of node 1 for node 2 (commit index 2) -/
def fx_hb := fx_a21.raft.msgs.head!
/-- the heartbeat of node 1 for node 3 (commit index 1) -/
def fx_hb3 := fx_a21.raft.msgs.tail.head!
/-- the `MsgTimeoutNow` of node 1 for node 2 -/
def fx_tn := fx_a23.raft.msgs.head!

def fx_t1 : Sys := rx_t8.setNode 1 fx_a21
def fx_t2 : Sys := { (fx_t1.setNode 1 fx_a22) with net := fx_t1.net ++ fx_a21.raft.msgs }
def fx_t3 : Sys := fx_t2.setNode 1 fx_a23
def fx_t4 : Sys := { (fx_t3.setNode 1 fx_a24) with net := fx_t3.net ++ fx_a23.raft.msgs }

def fx_tail : List Sys := [fx_t1, fx_t2, fx_t3, fx_t4]

/-- the 46-state history -/
def fx_hist : List Sys := rx_hist ++ fx_tail

set_option maxRecDepth 100000 in
theorem fx_tail_steps : Chained KStep (rx_t8 :: fx_tail) := by
  refine ⟨?_, ?_, ?_, ?_, trivial⟩
  · exact KStep.call _ 1 rx_a20 fx_a21 none .ping _ rfl rfl
      (fun k hc => by cases hc) (fun k hc => by cases hc)
      (fun hc => by cases hc) (fun hc => absurd (by decide) hc) (fun _ => by decide)
      (fun k hc => by cases hc) (snapSend_of_none (by decide)) (c02x_out _ (by decide))
  · exact KStep.send _ 1 fx_a21 fx_a22 rfl ⟨by decide, by decide⟩
      (fun hc => absurd (by decide) hc) rfl
  · exact KStep.call _ 1 fx_a22 fx_a23 none (.transferLeader 2) _ rfl rfl
      (fun k hc => by cases hc) (fun k hc => by cases hc)
      (fun hc => by cases hc) (fun hc => absurd (by decide) hc) (fun _ => by decide)
      (fun k hc => by cases hc) (snapSend_of_none (by decide)) (c02x_out _ (by decide))
  · exact KStep.send _ 1 fx_a23 fx_a24 rfl ⟨by decide, by decide⟩
      (fun hc => absurd (by decide) hc) rfl

theorem fx_ksteps : Chained KStep fx_hist := by
  have := chained_append (sx_hist ++ [rx_t1, rx_t2, rx_t3, rx_t4, rx_t5, rx_t6, rx_t7]) rx_t8
    fx_tail (by simpa [rx_hist, rx_tail] using rx_ksteps) fx_tail_steps
  simpa [fx_hist, rx_hist, rx_tail] using this

theorem fx_history : History fx_hist := by
  have := chained_history (sx_hist ++ [rx_t1, rx_t2, rx_t3, rx_t4, rx_t5, rx_t6, rx_t7]) rx_t8
    (by simpa [rx_hist, rx_tail] using rx_history) fx_tail
    (Chained.mono (fun _ _ hc => hc.step) _ fx_tail_steps)
  simpa [fx_hist, rx_hist, rx_tail] using this

set_option maxRecDepth 100000 in
theorem fx_chk_tail : ∀ s ∈ fx_tail, rx_chk s = true := by
  intro s hs
  simp only [fx_tail, List.mem_cons, List.not_mem_nil, or_false] at hs
  rcases hs with rfl | rfl | rfl | rfl <;> decide

theorem fx_all (s : Sys) (hs : s ∈ fx_hist) :
    FixedCfg c02x_cfg s ∧ NoBatch s ∧ (∀ x ∈ s.net, sx_msgOk x) ∧ ReqOk s := by
  rcases List.mem_append.1 hs with c | c
  · exact rx_all s c
  · exact rx_chk_ok s (fx_chk_tail s c)

/-- **the history satisfies `Snap5.Hyp3r`** (the bundle of `RaftProps/C01j.lean`) -/
theorem fx_hyp3r : Hyp3r c02x_cfg 0 fx_hist := by
  have h0 : fx_hist[0]? = some c02x_s0 := rfl
  have h0' : rx_hist[0]? = some c02x_s0 := rfl
  have H := rx_hyp3r
  exact
    { hist := fx_history
      fix := fun s hs => (fx_all s hs).1
      ne := H.ne, nd1 := H.nd1, nd2 := H.nd2
      init := fun s hs => by rw [h0] at hs; cases hs; exact H.init _ h0'
      steps := chained_at _ fx_ksteps
      nb := fun s hs => (fx_all s hs).2.1
      nolone := H.nolone
      first0 := fun s hs => by rw [h0] at hs; cases hs; exact H.first0 _ h0'
      initc := fun s hs => by rw [h0] at hs; cases hs; exact H.initc _ h0'
      pend0 := fun s hs => by rw [h0] at hs; cases hs; exact H.pend0 _ h0'
      snapt0 := fun s hs => by rw [h0] at hs; cases hs; exact H.snapt0 _ h0'
      snapidx := fun s hs x hx => ((fx_all s hs).2.2.1 x hx).2.2 }

/-! ### what the history holds -/

theorem fx_s33 : fx_hist[33]? = some sx_t11 := rfl
theorem fx_s43 : fx_hist[43]? = some fx_t2 := rfl
theorem fx_s45 : fx_hist[45]? = some fx_t4 := rfl

/-- the empty `MsgAppend` of node 1 for node 2 with commit index 2 (`rx_app`) is in the transport of
`h[33]` -/
theorem fx_app_mem : rx_app ∈ sx_t11.net := getIdx_mem _ 9 (by decide)

theorem fx_app_facts : rx_app.msgType = .msgAppend ∧ rx_app.frm = 1 ∧ rx_app.to = 2 ∧
    rx_app.term = 1 ∧ rx_app.commit = 2 := by
  refine ⟨?_, ?_, ?_, ?_, ?_⟩ <;> decide

/-- an entry-carrying `MsgAppend` of node 1 is in the transport of `h[33]` too -/
theorem fx_app1_facts : sx_t11.net[7]! ∈ sx_t11.net ∧ sx_t11.net[7]!.msgType = .msgAppend ∧
    sx_t11.net[7]!.entries ≠ [] ∧ sx_t11.net[7]!.frm = 1 ∧ sx_t11.net[7]!.commit = 1 := by
  refine ⟨getIdx_mem _ 7 (by decide), ?_, ?_, ?_, ?_⟩ <;> decide

/-- the heartbeat for node 2 is in the transport of `h[43]`, advertising commit index `2 > c0` -/
theorem fx_hb_mem : fx_hb ∈ fx_t2.net :=
  List.mem_append_right _ (c02x_head_mem _ (by decide))

theorem fx_hb_facts : fx_hb.msgType = .msgHeartbeat ∧ fx_hb.frm = 1 ∧ fx_hb.to = 2 ∧
    fx_hb.term = 1 ∧ fx_hb.commit = 2 := by
  refine ⟨?_, ?_, ?_, ?_, ?_⟩ <;> decide

/-- the `MsgTimeoutNow` for node 2 is in the transport of `h[45]` -/
theorem fx_tn_mem : fx_tn ∈ fx_t4.net :=
  List.mem_append_right _ (c02x_head_mem _ (by decide))

theorem fx_tn_facts : fx_tn.msgType = .msgTimeoutNow ∧ fx_tn.frm = 1 ∧ fx_tn.to = 2 ∧
    fx_tn.term = 1 := by
  refine ⟨?_, ?_, ?_, ?_⟩ <;> decide

/-- node 1, when it queued the `MsgTimeoutNow`: leader of term 1, log compacted (snapshot point 1),
last index 2, `matched = 2` for node 2 -/
theorem fx_a23_facts : fx_a23.raft.state = .leader ∧ fx_a23.raft.term = 1 ∧
    fx_a23.raft.raftLog.lastIndex = 2 ∧ fx_a23.raft.raftLog.abs.snapIdx = 1 ∧
    (fx_a23.raft.prs.get 2).map (·.matched) = some 2 := by
  refine ⟨?_, ?_, ?_, ?_, ?_⟩ <;> decide

end Flow2
end Snap5
end Cluster
end RaftModel
