import RaftProofs.ClusterRead4H
import RaftProofs.ClusterRead3B

/-!
Cluster-level ReadIndex safety for **forwarded** reads (`RaftProps.C08f`), part 4I: the generalised
notion of registration (`Reg` = a local `read_index` call or a delivered `MsgReadIndex` makes the context
pending), the bundle `RdHypF2`, one step of a history as the read path sees it (`rd_step`, with a case for
the delivery of a `MsgReadIndex`), and the first cluster invariant `pend_ok` (copy of
`RaftProofs/ClusterReadH/I.lean` without `nori` / `norir`).
-/
namespace RaftModel
namespace Cluster
namespace R4
open Node Raft Raft.CC Raft.RD.R4 RaftProps.C02 RaftProps.C05

/-- the step `h[n] → h[n+1]` **registers** the context `K` on node `i`: a `read_index(K)` call of the
application of `i` (`RegAt`) or the delivery of a `MsgReadIndex` carrying `K` to `i` (`FwdRegAt`) makes
`K` pending, and it was not pending on `i` before -/
def Reg (h : List Sys) (n i : Nat) (K : Bytes) : Prop :=
  RegAt h n i K ∨ ∃ m idx, FwdRegAt h n i m K idx

/-- **the hypotheses of the read layer with forwarded reads, with unique registration**: `RdHypF`
(`Hyp3w`, `safe`, `once`, `uniqc`, `nonempty`) and
* `uniqr`: a context is registered (made pending on some node, by a local call or by a delivered
  `MsgReadIndex`) by at most one step of the history.  This is `uniq` of C08c's `RdHyp` read over both
  kinds of registration. -/
structure RdHypF2 (cfg : JointConfig) (c0 : Nat) (h : List Sys) : Prop extends RdHypF cfg c0 h where
  uniqr : ∀ n1 n2 i1 i2 K, Reg h n1 i1 K → Reg h n2 i2 K → n1 = n2

theorem Reg.step {h : List Sys} {n i : Nat} {K : Bytes} (hr : Reg h n i K) :
    ∃ a b st', h[n]? = some a ∧ h[n + 1]? = some b ∧ b = a.setNode i st' := by
  rcases hr with ⟨a, b, st, st', _, _, p1, p2, _, _, p5, _⟩ |
    ⟨_, _, a, b, st, st', _, _, p1, p2, _, _, _, _, _, p5, _⟩
  · exact ⟨a, b, st', p1, p2, p5⟩
  · exact ⟨a, b, st', p1, p2, p5⟩

/-- two registrations of one context are the same step on the same node -/
theorem RdHypF2.uniq_node {cfg : JointConfig} {c0 : Nat} {h : List Sys} (H : RdHypF2 cfg c0 h)
    {n1 n2 i1 i2 : Nat} {K : Bytes} (h1 : Reg h n1 i1 K) (h2 : Reg h n2 i2 K) :
    n1 = n2 ∧ i1 = i2 := by
  have e := H.uniqr n1 n2 i1 i2 K h1 h2
  subst e
  refine ⟨rfl, ?_⟩
  obtain ⟨a, b, st', p1, p2, p5⟩ := h1.step
  obtain ⟨a', b', st2', q1, q2, q5⟩ := h2.step
  rw [p1] at q1; cases q1
  rw [p2] at q2; cases q2
  exact setNode_head_inj (p5.symm.trans q5)

/-! ### `add_request` for a delivered request -/

theorem addRequest_specD {ro ro' : ReadOnly} {idx id : Nat} {m : Message}
    (h : ro.addRequest idx m id = .ok ro') :
    ∃ en, m.entries.head? = some en ∧
      ((ro' = ro ∧ ∃ rs, (en.data, rs) ∈ ro.pendingReadIndex) ∨
        ((∀ rs, (en.data, rs) ∉ ro.pendingReadIndex) ∧ ro'.option = ro.option ∧
          ro'.pendingReadIndex = ro.pendingReadIndex ++
            [(en.data, { req := m, index := idx, acks := [id] })] ∧
          ro'.readIndexQueue = ro.readIndexQueue ++ [en.data])) := by
  unfold ReadOnly.addRequest at h
  split at h
  · cases h
  · rename_i en hen
    refine ⟨en, hen, ?_⟩
    dsimp only at h
    split at h
    · rename_i hs
      cases h
      left
      refine ⟨rfl, ?_⟩
      cases hl : ro.pendingReadIndex.lookup en.data with
      | none => rw [hl] at hs; cases hs
      | some rs => exact ⟨rs, rd_lookup_mem _ _ _ hl⟩
    · rename_i hs
      cases h
      right
      refine ⟨?_, rfl, rfl, rfl⟩
      cases hl : ro.pendingReadIndex.lookup en.data with
      | none => exact rd_lookup_none _ _ hl
      | some rs => rw [hl] at hs; exact absurd rfl hs

/-! ### one step of a history, as the read path sees it -/

/-- what one step of a history under `RdHypF` does, for the read path -/
inductive RdStep (cfg : JointConfig) (a b : Sys) : Prop
  /-- a call other than `read_index`, or the delivery of a message `m` of the transport that is not a
  `MsgReadIndex` -/
  | call (k : Nat) (st st' : NState) (m : Message) (hk : a.node k = some st)
      (hb : b = a.setNode k st') (hm : m.msgType = .msgHup ∨ (m ∈ a.net ∧ m.to = k))
      (ho : ROut cfg st.raft m st'.raft)
      (hrir : m.msgType = .msgReadIndexResp → ∀ x ∈ st'.raft.readStates, x ∈ st.raft.readStates ∨
        (st'.raft.state = .follower ∧ (m.term = 0 ∨ m.term = st'.raft.term) ∧
          ∃ en, m.entries = [en] ∧ x = { index := m.index, requestCtx := en.data }))
  /-- a `read_index(K)` call -/
  | read (k : Nat) (st st' : NState) (K : Bytes) (rnd : Option Nat) (res : OpRes)
      (hk : a.node k = some st) (hb : b = a.setNode k st')
      (hcall : Node.call st rnd (.readIndex K) = .ok (res, st'))
      (ho : RiOut st.raft K st'.raft)
  /-- the delivery of a `MsgReadIndex` of the transport -/
  | ri (k : Nat) (st st' : NState) (m : Message) (rnd : Option Nat) (res : OpRes)
      (hk : a.node k = some st) (hb : b = a.setNode k st') (hm : m ∈ a.net) (hto : m.to = k)
      (hty : m.msgType = .msgReadIndex)
      (hcall : Node.call st rnd (.step m) = .ok (res, st'))
      (ho : RiOutD st.raft m st'.raft)
  /-- the queue is handed to the transport; the read states are taken -/
  | send (k : Nat) (st st' : NState) (hk : a.node k = some st)
      (hb : b = { (a.setNode k st') with net := a.net ++ st.raft.msgs })
      (hst : st'.raft = { st.raft with nextRand := none, msgs := [], readStates := [] })
  /-- crash and restart -/
  | restart (k : Nat) (st st' : NState) (hk : a.node k = some st) (hb : b = a.setNode k st')
      (hf : Fresh st'.raft) (hq : st'.raft.msgs = [])

variable {cfg : JointConfig} {c0 : Nat} {h : List Sys}

theorem riOut_rebase {a r : Raft} {K : Bytes} {rnd : Option Nat}
    (ho : RiOut ({ a with nextRand := rnd } : Raft) K r) : RiOut a K r := by
  cases ho with
  | frame hf => exact .frame hf
  | fwd hfo hlead hcore hmsgs => exact .fwd hfo hlead hcore hmsgs
  | now hs => exact .now hs
  | reg hl hc ro hadd hcore hmsgs => exact .reg hl hc ro hadd hcore hmsgs

theorem rd_step (H : Hyp3w cfg c0 h) {n : Nat} {a b : Sys} (ha : h[n]? = some a)
    (hb : h[n + 1]? = some b) : RdStep cfg a b := by
  have H2 := H.toHyp2w
  have hfa := H2.fix a (mem_of_get ha)
  have hfb := H2.fix b (mem_of_get hb)
  have fin : ∀ (k : Nat) (st st' : NState) (m : Message), a.node k = some st →
      b = a.setNode k st' →
      (∃ V, (V = st.raft.prs.voters ∨ V = st'.raft.prs.voters) ∧ ROut V st.raft m st'.raft) →
      ROut cfg st.raft m st'.raft := by
    intro k st st' m hk hbe ⟨V, hV, ho⟩
    have e1 := hfa k st hk
    have e2 := hfb k st' (by rw [hbe]; exact node_setNode_self a k st')
    rcases hV with c | c
    · rw [← e1, ← c]; exact ho
    · rw [← e2, ← c]; exact ho
  cases H2.steps n a b ha hb with
  | call k st st' rnd op res h1 h2 h3 _ h4 =>
    by_cases hri : ∃ K, op = .readIndex K
    · obtain ⟨K, e⟩ := hri
      subst e
      refine .read k st st' K rnd res h1 rfl h4 ?_
      unfold Node.call at h4
      simp only [applyOp] at h4
      obtain ⟨raft, hx, hr⟩ := CV.okRes_ok h4
      rw [hr]
      exact riOut_rebase (readIndex_cases hx)
    · have hop : CV.opMsg op = CV.mLocal := by
        cases op <;> first | rfl | (cases h2; done)
      refine .call k st st' CV.mLocal h1 rfl (.inl rfl) (fin k st st' _ h1 rfl ?_)
        (fun hc => by cases hc)
      rw [← hop]
      refine call_rd st st' rnd op res (fun K hK => hri ⟨K, hK⟩) ?_ ?_ h4
      · intro hc; rw [hc] at h2; cases h2
      · intro m hm
        rcases hm with hm | hm <;> rw [hm] at h2 <;> cases h2
  | deliver k st st' rnd m res h1 h2 h3 h4 =>
    by_cases hty : m.msgType = .msgReadIndex
    · exact .ri k st st' m rnd res h1 rfl h2 h3 hty h4 (callRi_cases hty h4)
    · refine .call k st st' m h1 rfl (.inr ⟨h2, h3⟩) (fin k st st' _ h1 rfl ?_)
        (fun hc => RD.callRir_cases hc h4)
      have := call_rd st st' rnd (.step m) res (fun K hK => by cases hK) (by intro hc; cases hc) ?_ h4
      · exact this
      · intro m' hm
        have e : m' = m := by
          rcases hm with hm | hm
          · injection hm with hm; exact hm.symm
          · cases hm
        subst e
        exact ⟨hty, H2.nosnap a (mem_of_get ha) m' h2⟩
  | send k st st' h1 _ _ h3 =>
    refine .send k st st' h1 rfl ?_
    unfold Node.call at h3
    simp only [applyOp] at h3
    cases h3
    rfl
  | restart k st st' c rnd h1 _ h3 =>
    exact .restart k st st' h1 rfl (boot_fresh c _ rnd st' h3) (CV.boot_booted c _ rnd st' h3).msgs

/-! ### what the read path keeps of a node across a `keep` / `fwd` delivery -/

/-- the node after a dropped or forwarded `MsgReadIndex`: the pending requests, the queue and the term
are unchanged, or nothing is pending / queued any more -/
theorem RS.ro_cases {r r' : Raft} (hs : RS r r') :
    (r'.readOnly = r.readOnly ∧ r'.term = r.term) ∨
    (r'.readOnly.pendingReadIndex = [] ∧ r'.readOnly.readIndexQueue = []) := by
  rcases hs.keep with g | g
  · exact .inl g
  · right; rw [g]; exact ⟨rfl, rfl⟩

/-! ### the first cluster invariant -/

structure PendOk (s : Sys) : Prop where
  req : ∀ v st, s.node v = some st → ∀ K rs, (K, rs) ∈ st.raft.readOnly.pendingReadIndex →
    reqCtx rs.req = some K
  acks : ∀ v st, s.node v = some st → ∀ K rs, (K, rs) ∈ st.raft.readOnly.pendingReadIndex →
    ∀ u ∈ rs.acks, u = v ∨ HbrIn s.net u K st.raft.term

theorem pend_ok (H : Hyp3w cfg c0 h)
    (safe : ∀ s ∈ h, ∀ i st, s.node i = some st → st.raft.readOnly.option = .safe) :
    ∀ (n : Nat) (s : Sys), h[n]? = some s → PendOk s := by
  have H2 := H.toHyp2w
  refine hist_induct h _ ?_ ?_
  · intro s h0
    have hinit := hist_init H2.hist s h0
    have hf : ∀ v st, s.node v = some st → Fresh st.raft := by
      intro v st hv
      obtain ⟨c, store, rnd, _, hb⟩ := hinit.2 v st hv
      exact boot_fresh c store rnd st hb
    refine ⟨fun v st hv K rs hm => ?_, fun v st hv K rs hm => ?_⟩
    · rw [(hf v st hv).1] at hm; cases hm
    · rw [(hf v st hv).1] at hm; cases hm
  · intro n a b ha hb ih
    have hid : ∀ v st, a.node v = some st → st.raft.id = v :=
      fun v st hv => (node_ok H2 ha hv).id
    -- the moved node `k` alone matters
    have wrap : ∀ (k : Nat) (st' : NState) (net : List Message), (∀ x ∈ a.net, x ∈ net) →
        ((∀ K rs, (K, rs) ∈ st'.raft.readOnly.pendingReadIndex → reqCtx rs.req = some K) ∧
          (∀ K rs, (K, rs) ∈ st'.raft.readOnly.pendingReadIndex →
            ∀ u ∈ rs.acks, u = k ∨ HbrIn net u K st'.raft.term)) →
        PendOk { (a.setNode k st') with net := net } := by
      intro k st' net hsub key
      refine ⟨fun v stv hv K rs hmem => ?_, fun v stv hv K rs hmem u hu => ?_⟩
      · have hv' : (a.setNode k st').node v = some stv := hv
        rcases node_cases hv' with ⟨e1, e2⟩ | ⟨_, e2⟩
        · subst e1; subst e2; exact key.1 K rs hmem
        · exact ih.req v stv e2 K rs hmem
      · have hv' : (a.setNode k st').node v = some stv := hv
        rcases node_cases hv' with ⟨e1, e2⟩ | ⟨_, e2⟩
        · subst e1; subst e2; exact key.2 K rs hmem u hu
        · exact (ih.acks v stv e2 K rs hmem u hu).imp (fun g => g) (fun g => g.mono hsub)
    have wrap0 : ∀ (k : Nat) (st' : NState),
        ((∀ K rs, (K, rs) ∈ st'.raft.readOnly.pendingReadIndex → reqCtx rs.req = some K) ∧
          (∀ K rs, (K, rs) ∈ st'.raft.readOnly.pendingReadIndex →
            ∀ u ∈ rs.acks, u = k ∨ HbrIn a.net u K st'.raft.term)) →
        PendOk (a.setNode k st') := fun k st' key => wrap k st' a.net (fun _ hx => hx) key
    have keepCase : ∀ (k : Nat) (st : NState) (r' : Raft), a.node k = some st → RS st.raft r' →
        ((∀ K rs, (K, rs) ∈ r'.readOnly.pendingReadIndex → reqCtx rs.req = some K) ∧
          (∀ K rs, (K, rs) ∈ r'.readOnly.pendingReadIndex →
            ∀ u ∈ rs.acks, u = k ∨ HbrIn a.net u K r'.term)) := by
      intro k st r' hk hs
      rcases RS.ro_cases hs with ⟨g1, g2⟩ | ⟨g1, _⟩
      · rw [g1, g2]; exact ⟨ih.req k st hk, ih.acks k st hk⟩
      · rw [g1]; exact ⟨fun _ _ hm => (by cases hm), fun _ _ hm => (by cases hm)⟩
    cases rd_step H ha hb with
    | call k st st' m hk hbe hm ho hrir =>
      subst hbe
      apply wrap0
      constructor
      · intro K rs hmem
        obtain ⟨_, ⟨rs0, g1, g2, _⟩, _⟩ := ho.pend K rs hmem
        rw [g2]; exact ih.req k st hk K rs0 g1
      · intro K rs hmem u hu
        obtain ⟨g0, _, g3⟩ := ho.pend K rs hmem
        rcases g3 u hu with c | c | ⟨rsA, c1, c2⟩
        · exact .inl (c.trans (hid k st hk))
        · right
          rcases hm with q | ⟨q, _⟩
          · rw [c.1] at q; cases q
          · exact ⟨m, q, c.1, c.2.1, c.2.2.1, by rw [g0]; exact c.2.2.2⟩
        · rw [g0]; exact ih.acks k st hk K rsA c1 u c2
    | read k st st' K' rnd res hk hbe hcall ho =>
      subst hbe
      apply wrap0
      cases ho with
      | frame hf =>
        rw [hf.ro, hf.term]
        exact ⟨ih.req k st hk, ih.acks k st hk⟩
      | fwd hfo hlead hcore hmsgs =>
        have e1 : st'.raft.readOnly = st.raft.readOnly := congrArg RCore.ro hcore
        have e2 : st'.raft.term = st.raft.term := congrArg RCore.term hcore
        rw [e1, e2]
        exact ⟨ih.req k st hk, ih.acks k st hk⟩
      | now hs =>
        exfalso
        rcases hs with c | c
        · rw [not_singleton H2 (mem_of_get ha) hk] at c; cases c
        · exact c (safe a (mem_of_get ha) k st hk)
      | reg hl hc ro hadd hcore hmsgs =>
        have e1 : st'.raft.readOnly = ro := congrArg RCore.ro hcore
        have e2 : st'.raft.term = st.raft.term := congrArg RCore.term hcore
        rw [e1, e2]
        obtain ⟨en, hen, hcase⟩ := addRequest_specD hadd
        rcases hcase with ⟨q1, _⟩ | ⟨_, _, q3, _⟩
        · rw [q1]; exact ⟨ih.req k st hk, ih.acks k st hk⟩
        · rw [q3]
          constructor
          · intro K rs hmem
            rcases List.mem_append.1 hmem with g | g
            · exact ih.req k st hk K rs g
            · rw [List.mem_singleton] at g
              injection g with g1 g2
              subst g1; subst g2
              unfold reqCtx
              rw [hen]; rfl
          · intro K rs hmem u hu
            rcases List.mem_append.1 hmem with g | g
            · exact ih.acks k st hk K rs g u hu
            · rw [List.mem_singleton] at g
              injection g with g1 g2
              subst g2
              left
              rw [List.mem_singleton] at hu
              rw [hu]; exact hid k st hk
    | ri k st st' m rnd res hk hbe hm hto hty hcall ho =>
      subst hbe
      apply wrap0
      cases ho with
      | keep hs _ => exact keepCase k st _ hk hs
      | fwd r1 hs hfo hcore y hmsgs hy =>
        have e1 : st'.raft.readOnly = r1.readOnly := congrArg RCore.ro hcore
        have e2 : st'.raft.term = r1.term := congrArg RCore.term hcore
        rw [e1, e2]
        exact keepCase k st r1 hk hs
      | now hs =>
        exfalso
        rcases hs with c | c
        · rw [not_singleton H2 (mem_of_get ha) hk] at c; cases c
        · exact c (safe a (mem_of_get ha) k st hk)
      | reg hl hc ro hadd hcore hmsgs =>
        have e1 : st'.raft.readOnly = ro := congrArg RCore.ro hcore
        have e2 : st'.raft.term = st.raft.term := congrArg RCore.term hcore
        rw [e1, e2]
        obtain ⟨en, hen, hcase⟩ := addRequest_specD hadd
        rcases hcase with ⟨q1, _⟩ | ⟨_, _, q3, _⟩
        · rw [q1]; exact ⟨ih.req k st hk, ih.acks k st hk⟩
        · rw [q3]
          constructor
          · intro K rs hmem
            rcases List.mem_append.1 hmem with g | g
            · exact ih.req k st hk K rs g
            · rw [List.mem_singleton] at g
              injection g with g1 g2
              subst g1; subst g2
              unfold reqCtx
              rw [hen]; rfl
          · intro K rs hmem u hu
            rcases List.mem_append.1 hmem with g | g
            · exact ih.acks k st hk K rs g u hu
            · rw [List.mem_singleton] at g
              injection g with g1 g2
              subst g2
              left
              rw [List.mem_singleton] at hu
              rw [hu]; exact hid k st hk
    | send k st st' hk hbe hst =>
      subst hbe
      apply wrap k st' _ (fun x hx => List.mem_append_left _ hx)
      rw [hst]
      exact ⟨ih.req k st hk, fun K rs hmem u hu =>
        (ih.acks k st hk K rs hmem u hu).imp (fun g => g)
          (fun g => g.mono (fun x hx => List.mem_append_left _ hx))⟩
    | restart k st st' hk hbe hf hq =>
      subst hbe
      apply wrap0
      rw [hf.1]
      exact ⟨fun _ _ hm => (by cases hm), fun _ _ hm => (by cases hm)⟩

end R4
end Cluster
end RaftModel
