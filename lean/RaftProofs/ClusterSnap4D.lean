import RaftProofs.ClusterSnap4C

/-!
(Copy of `ClusterCommit4D` for the relation `Raft.CS.PW` of `ClusterSnap4A`: no `QSnap` escape, the
`Snapshot` state allowed.)

Cluster-level commit safety, part 4D: `PW` / `LW` through `reset`, the role changes and the leader-side
handlers (`handle_append_response` with the hypothesis that an accepted acknowledgement lies within the
log, `handle_heartbeat_response`, `handle_transfer_leader`, …) up to `step_leader`.
-/
namespace RaftModel
namespace Raft
namespace CS
open RaftProps.C13

/-! ### `reset` -/

theorem reset_progress (r : Raft) (t : Nat) :
    (r.reset t).prs.progress = r.prs.progress.map (fun q => (q.1,
      if q.1 = r.id then
        { (q.2.reset (r.raftLog.lastIndex + 1)) with matched := r.raftLog.persisted,
                                                       committedIndex := r.raftLog.committed }
      else q.2.reset (r.raftLog.lastIndex + 1))) := by
  unfold Raft.reset
  simp only [Raft.mapProgress, Raft.abortLeaderTransfer, Raft.resetRandomizedElectionTimeout,
    ProgressTracker.resetVotes]
  by_cases h : r.term ≠ t <;> simp [h]

theorem reset_readOnly (r : Raft) (t : Nat) :
    (r.reset t).readOnly.pendingReadIndex = [] := by
  unfold Raft.reset
  simp only [Raft.mapProgress, Raft.abortLeaderTransfer, Raft.resetRandomizedElectionTimeout]
  by_cases h : r.term ≠ t <;> simp [h, ReadOnly.new]

theorem Inv.persisted_le_last {l : RaftLog} (h : l.Inv) : l.persisted ≤ l.lastIndex := by
  have h1 := h.last_succ
  have h2 := h.persisted_lt_off
  omega

theorem reset_pall (r : Raft) (t : Nat) (hinv : r.raftLog.Inv) :
    PAll r.msgs r.raftLog.lastIndex (r.reset t).prs := by
  intro p hp
  rw [reset_progress] at hp
  simp only [List.mem_map] at hp
  obtain ⟨q, _, rfl⟩ := hp
  dsimp only
  split
  · exact ⟨Inv.persisted_le_last hinv, Nat.le_refl _,
      fun hc => by cases hc⟩
  · exact POk.reset _ _ _

/-- after `reset` the progress and read-only clauses hold whatever the role -/
theorem reset_pwp {a r : Raft} (t : Nat) (h0 : PW a r) (st : StateRole) :
    PWP a st (r.reset t).raftLog (r.reset t).prs (r.reset t).readOnly (r.reset t).batchAppend
      (r.reset t).msgs := by
  rw [reset_raftLog, reset_msgs, reset_batchAppend]
  refine ⟨h0.inv, h0.nb, fun _ => .inr (reset_pall r t h0.inv), fun _ p hp => ?_, h0.qa, h0.qr,
    h0.sn, h0.fi, h0.qf⟩
  rw [reset_readOnly] at hp; cases hp

theorem reset_pw {a r : Raft} (t : Nat) (h0 : PW a r) : PW a (r.reset t) := reset_pwp t h0 _

/-! ### role changes -/

theorem becomeFollower_pw {a r : Raft} (t l : Nat) (h0 : PW a r) :
    PW a (r.becomeFollower t l) := by
  have h1 : PW a (r.reset t) := reset_pw t h0
  have h2 := h1.log (c05_limit_same (r.reset t).raftLog 0)
  have hs : (r.becomeFollower t l).state ≠ .leader := by
    rw [(RaftProps.C16.becomeFollower_proj r t l).1]; intro hc; cases hc
  exact ⟨h2.inv, h2.nb, fun h => absurd h hs, fun h => absurd h hs, h2.qa, h2.qr, h2.sn, h2.fi, h2.qf⟩

theorem becomeFollower_nl (r : Raft) (t l : Nat) : (r.becomeFollower t l).state ≠ .leader := by
  rw [(RaftProps.C16.becomeFollower_proj r t l).1]; intro hc; cases hc

theorem becomeCandidate_pw {a r r' : Raft} (h : r.becomeCandidate = .ok r') (h0 : PW a r) :
    PW a r' ∧ r'.state = .candidate := by
  unfold Raft.becomeCandidate at h
  split at h
  · cases h
  · split at h
    · cases h
    · cases h
      have h1 := reset_pwp (r.term + 1) h0 .candidate
      exact ⟨h1, rfl⟩

theorem becomePreCandidate_pw {a r r' : Raft} (h : r.becomePreCandidate = .ok r') (h0 : PW a r) :
    PW a r' ∧ r'.state = .preCandidate := by
  unfold Raft.becomePreCandidate at h
  split at h
  · cases h
  · cases h
    refine ⟨?_, rfl⟩
    exact ⟨h0.inv, h0.nb, (fun hc => by cases hc), (fun hc => by cases hc), h0.qa, h0.qr, h0.sn, h0.fi, h0.qf⟩

theorem becomeLeader_lw {a r r' : Raft} (h : r.becomeLeader = .ok r') (h0 : PW a r) :
    LW a r' := by
  unfold Raft.becomeLeader at h
  split at h
  · cases h
  · simp only [] at h
    split at h
    · cases h
    · split at h
      · cases h
      · rename_i pr hpr
        have h1 := reset_pwp r.term h0 .leader
        -- the leader state before the empty entry is appended
        have h2 : LW a { (r.reset r.term) with state := .leader } := ⟨h1, rfl⟩
        have hp : PQ (r.reset r.term) pr.becomeReplicate := by
          rcases h1.po rfl with c | c
          · exact .inl c
          · exact .inr (c.get hpr).becomeReplicate
        have h3 := h2.setPr (id := (r.reset r.term).id) hp
        split at h
        · rename_i r2 happ
          cases h
          exact appendEntry_lw happ (LW.mk' h3)
        · cases h
        · cases h
        · cases h

end CS
end Raft
end RaftModel
