import RaftProofs.ClusterBatchE

/-!
Cluster-level Log Matching **with `batch_append`**, part H: the storage-side steps of the emulated
application, and **one call of a node as an effect** (`call_lstep_b`), batching on or off — the
counterpart of `RaftProofs/ClusterLog{G,H}.lean`.
-/
namespace RaftModel
namespace Raft
namespace Bt
open Node

/-- an effect of `ClusterLogE` that left the queue alone, with the predecessor terms of a leader's log
kept -/
theorem EffB.of_eff {r r' : Raft} {m : Message} (h : Eff r r' m) (hm : r'.msgs = r.msgs)
    (hpk : r.state = .leader → r'.state = .leader → r'.term = r.term →
      PrevKeep r.raftLog.abs r'.raftLog.abs) : EffB r r' m :=
  ⟨h.inv, h.sto, h.log, fun x hx hty => .inl ⟨x, by rw [← hm]; exact hx, hty, rfl⟩, h.keep, hpk⟩

/-- an effect that only touched fields the effect does not read -/
theorem EffB.of_fields {r r' : Raft} {m : Message} (hinv : r.raftLog.Inv)
    (hl : r'.raftLog = r.raftLog) (hm : r'.msgs = r.msgs) : EffB r r' m :=
  EffB.of_eff (Eff.of_fields hinv hl hm) hm (fun _ _ _ => PrevKeep.of_eq (by rw [hl]))

/-- … or the storage's bookkeeping fields (hard state, configuration, test triggers) -/
theorem EffB.of_store_core {r r' : Raft} {m : Message} (hinv : r.raftLog.Inv) (s' : MemStorage)
    (hl : r'.raftLog = { r.raftLog with store := s' }) (he : s'.entries = r.raftLog.store.entries)
    (hsm : s'.snapshotMetadata = r.raftLog.store.snapshotMetadata) (hm : r'.msgs = r.msgs) :
    EffB r r' m :=
  EffB.of_eff (Eff.of_store_core hinv s' hl he hsm hm) hm
    (fun _ _ _ => PrevKeep.of_eq (by rw [hl]; exact (Inv_store_core hinv s' he hsm).2.1))

/-- an effect followed by an update of the storage's bookkeeping fields that keeps the stored term -/
theorem EffB.then_store_core {r r1 r2 : Raft} {m : Message} (h : EffB r r1 m) (s' : MemStorage)
    (hl : r2.raftLog = { r1.raftLog with store := s' })
    (he : s'.entries = r1.raftLog.store.entries)
    (hsm : s'.snapshotMetadata = r1.raftLog.store.snapshotMetadata)
    (hhs : s'.hardState.term = r1.raftLog.store.hardState.term)
    (hm : r2.msgs = r1.msgs) (hs : r2.state = r1.state) (ht : r2.term = r1.term) : EffB r r2 m := by
  obtain ⟨h1, h2, h3⟩ := Inv_store_core h.inv s' he hsm
  have hsl : storeLog r2.raftLog.store = storeLog r1.raftLog.store := by
    rw [hl]; exact storeLog_eq_of_core he hsm
  have habs : r2.raftLog.abs = r1.raftLog.abs := by rw [hl]; exact h2
  have hlast : r2.raftLog.lastIndex = r1.raftLog.lastIndex := by rw [hl]; exact h3
  refine ⟨by rw [hl]; exact h1, ?_, ?_, ?_, ?_, ?_⟩
  · rw [hsl]
    rcases h.sto with c | ⟨c, c2⟩
    · exact .inl c
    · exact .inr ⟨c, by rw [hl, ht]; exact hhs.trans c2⟩
  · rw [habs]
    rcases h.log with c | ⟨es, c⟩ | ⟨c1, c2, c3⟩
    · exact .inl c
    · exact .inr (.inl ⟨es, ⟨c.ne, habs.trans c.abs, c.contig, by rw [ht]; exact c.terms,
        hlast.trans c.last, by rw [hl]; exact h1, by rw [hl]; exact c.commit,
        hs.trans c.leader⟩⟩)
    · exact .inr (.inr ⟨c1, by rw [hs]; exact c2, c3⟩)
  · rw [hm, habs, hs]; exact h.q
  · rw [hs, ht, habs, hlast]; exact h.keep
  · rw [hs, ht, habs]; exact h.pk

/-! ### `stabilize`, `persist_snap`, `compact`: the logical log is kept or compacted -/

theorem stabilize_abs {st st' : NState} {res : OpRes} (hinv : st.raft.raftLog.Inv)
    (h : Node.stabilize st = .ok (res, st')) :
    st'.raft.raftLog.abs = st.raft.raftLog.abs ∧ st'.raft.msgs = st.raft.msgs := by
  unfold Node.stabilize at h
  simp only [] at h
  split at h
  · rename_i l hl0
    have hl : st.raft.raftLog.stabilise = .ok l := hl0
    cases h
    have hl' : l.Inv ∧ l.abs = st.raft.raftLog.abs := by
      cases hs : st.raft.raftLog.unstable.snapshot with
      | none =>
        obtain ⟨l2, e2, i2, a2, _⟩ := RaftProps.C14.stabilise_ok hinv hs
        rw [hl] at e2
        cases e2
        exact ⟨i2, a2⟩
      | some sn =>
        by_cases hne : st.raft.raftLog.unstable.entries = []
        · have : st.raft.raftLog.stabilise = .ok st.raft.raftLog := by
            unfold RaftLog.stabilise; rw [hne]; rfl
          rw [this] at hl
          cases hl
          exact ⟨hinv, rfl⟩
        · obtain ⟨s, hp⟩ := RaftProps.C14.stabilise_pending_panics hinv sn hs hne
          rw [hp] at hl; cases hl
    obtain ⟨i1, a1⟩ := hl'
    obtain ⟨_, a2, _⟩ := Inv_store_core i1
      (l.store.setHardState { l.store.hardState with term := st.raft.term, vote := st.raft.vote })
      rfl rfl
    exact ⟨by show (RaftLog.abs _) = _; rw [a2, a1], rfl⟩
  · cases h
  · cases h

theorem stabilize_effb {st st' : NState} {res : OpRes} {m : Message} (hinv : st.raft.raftLog.Inv)
    (h : Node.stabilize st = .ok (res, st')) : EffB st.raft st'.raft m ∧ RT st.raft st'.raft := by
  obtain ⟨h1, h2⟩ := stabilize_eff (m := m) hinv h
  obtain ⟨a1, a2⟩ := stabilize_abs hinv h
  exact ⟨EffB.of_eff h1 a2 (fun _ _ _ => PrevKeep.of_eq a1), h2⟩

/-! ### `persist_snap` -/

theorem persistSnap_effb {st st' : NState} {res : OpRes} {m : Message} (hinv : st.raft.raftLog.Inv)
    (h : Node.persistSnap st = .ok (res, st')) : EffB st.raft st'.raft m ∧ RT st.raft st'.raft := by
  unfold Node.persistSnap at h
  simp only [] at h
  split at h
  · cases h; exact ⟨EffB.of_fields hinv rfl rfl, RT.rfl⟩
  · rename_i sn hsn
    split at h
    · cases h; exact ⟨EffB.of_fields hinv rfl rfl, RT.rfl⟩
    · cases h
    · rename_i store hap
      split at h
      · cases h
      · cases h
      · rename_i l hl
        split at h
        · rename_i raft hop
          cases h
          have hvf := Res.Post.of_eq (CV.onPersistSnap_vf _ _) hop
          have hge : st.raft.raftLog.store.firstIndex ≤ sn.metadata.index := by
            unfold MemStorage.applySnapshot at hap
            dsimp only at hap
            split at hap
            · cases hap
            · omega
          have hents : store.entries = [] := by
            unfold MemStorage.applySnapshot at hap
            dsimp only at hap
            split at hap
            · cases hap
            · cases hap; rfl
          unfold Raft.onPersistSnap at hop
          split at hop
          · rename_i l2 b hmp
            cases hop
            have hps : st.raft.raftLog.persistSnapshot = .ok l2 := by
              unfold RaftLog.persistSnapshot
              rw [hsn]
              simp only []
              rw [hap]
              simp only []
              rw [hl]
              simp only []
              rw [hmp]
            obtain ⟨l3, e3, i3, a3, _⟩ := RaftProps.C14.persistSnapshot_ok hinv sn hsn hge
            rw [hps] at e3
            cases e3
            have hst2 : l2.store = store := by
              rw [RaftModel.C06.maybePersistSnap_store hmp, RaftModel.C06.stableSnap_store hl]
            have hlast : l2.lastIndex = st.raft.raftLog.lastIndex := by
              rw [i3.lastIndex_abs, hinv.lastIndex_abs, a3]
            refine ⟨⟨i3, .inl (Sub.of_no_entries (by show l2.store.entries = []; rw [hst2]; exact hents)),
              .inl (by show Sub l2.abs _; rw [a3]; exact Sub.refl _),
              fun x hx hty => .inl ⟨x, hx, hty, rfl⟩,
              fun _ _ _ => ⟨(by show _ ≤ l2.lastIndex; rw [hlast]; exact Nat.le_refl _),
                fun i e he _ => (by show l2.abs.entryAt i = _; rw [a3]; exact he)⟩,
              fun _ _ _ => PrevKeep.of_eq (by show l2.abs = _; exact a3)⟩, ?_⟩
            exact RT.rfl.ts rfl rfl
          · cases hop
          · cases hop
        · cases h
        · cases h

/-! ### `commit_apply` -/

theorem commitApplyInternal_n {r r' : Raft} {applied : Nat} {skip : Bool}
    (hinv : r.raftLog.Inv) (h : r.commitApplyInternal applied skip = .ok r') :
    N0 r r' ∨ ∃ es, AppendedN r r' es := by
  unfold Raft.commitApplyInternal at h
  simp only [] at h
  split at h
  · cases h
  · cases h
  · rename_i log hlog
    obtain ⟨a', hl, _, _⟩ := RaftProps.PDGuards.applyCursor_cases _ _ _ _ hlog
    have hinv1 : log.Inv := by
      rw [hl]
      exact hinv.set_cursors r.raftLog.committed r.raftLog.persisted a' hinv.dummy_le_committed
        hinv.committed_le_last hinv.persisted_lt_off hinv.persisted_le_store
    have hk1 : N0 r ({ r with raftLog := log } : Raft) :=
      ⟨⟨⟨by rw [hl]; rfl, by rw [hl]; rfl, fun _ => hinv1, by rw [hl]; exact Nat.le_refl _⟩,
        by rw [hl], by rw [hl]⟩, rfl, fun x hx _ => hx⟩
    split at h
    · rename_i hcond
      split at h
      · rename_i r2 happe
        cases h
        rcases appendEntry_n (r := { r with raftLog := log }) hinv1 hcond.2.2.2 happe with
          ⟨hb, _⟩ | ⟨_, he, _⟩ | ⟨_, hA, _⟩
        · cases hb
        · cases he
        · right
          have hA' := AppendedN.anchor hk1 hA
          exact ⟨_, ⟨⟨hA'.app.ne, hA'.app.abs, hA'.app.contig, hA'.app.terms, hA'.app.last,
            hA'.app.inv, hA'.app.commit, hA'.app.leader⟩,
            ⟨hA'.qs.ents, hA'.qs.smeta, hA'.qs.ba, hA'.qs.q⟩⟩⟩
      · cases h
      · cases h
      · cases h
    · cases h
      exact .inl hk1

theorem commitApply_effb {st st' : NState} {k : Nat} {res : OpRes} {m : Message} (hinv : st.raft.raftLog.Inv)
    (h : Node.commitApply st k = .ok (res, st')) :
    EffB st.raft st'.raft m ∧ RT st.raft st'.raft := by
  unfold Node.commitApply at h
  simp only [] at h
  split at h
  · rename_i r2 hb
    rw [Res.bind_eq_ok_iff] at hb
    obtain ⟨r1, h1, h2⟩ := hb
    have hr1 : r1.raftLog = st.raft.raftLog ∧ r1.msgs = st.raft.msgs ∧ r1.state = st.raft.state ∧
        r1.term = st.raft.term := by
      have hred : ∀ ents, (st.raft.reduceUncommittedSize ents).raftLog = st.raft.raftLog ∧
          (st.raft.reduceUncommittedSize ents).msgs = st.raft.msgs ∧
          (st.raft.reduceUncommittedSize ents).state = st.raft.state ∧
          (st.raft.reduceUncommittedSize ents).term = st.raft.term := by
        intro ents
        unfold Raft.reduceUncommittedSize
        split <;> exact ⟨rfl, rfl, rfl, rfl⟩
      split at h1
      · split at h1
        · cases h1; exact hred _
        · cases h1; exact ⟨rfl, rfl, rfl, rfl⟩
        · cases h1
      · cases h1; exact ⟨rfl, rfl, rfl, rfl⟩
    obtain ⟨e1, e2, e3, e4⟩ := hr1
    have hvf := Res.Post.of_eq (CV.commitApply_vf _ _) h2
    have hrt : RT st.raft r2 := RT.rfl.ts (hvf.term.trans e4) (hvf.state.trans e3)
    have heff : EffB st.raft r2 m := by
      have hinv1 : r1.raftLog.Inv := by rw [e1]; exact hinv
      unfold Raft.commitApply at h2
      have : EffB r1 r2 m := by
        rcases commitApplyInternal_n hinv1 h2 with c | ⟨es, c⟩
        · exact c.effb hinv1
        · exact c.effb
      exact this.rebase e1 e2 e3 e4
    cases h
    split
    · refine ⟨?_, hrt.ts rfl rfl⟩
      exact heff.then_store_core _ rfl rfl rfl rfl rfl rfl rfl
    · exact ⟨heff, hrt⟩
  · cases h
  · cases h

/-! ### `compact` -/

theorem compact_effb {r : Raft} {k : Nat} {store : MemStorage} {m : Message} (hinv : r.raftLog.Inv)
    (hc : CompactOk r.raftLog k) (h : r.raftLog.store.compact k = .ok store) :
    EffB r (withStore r (fun _ => store)) m := by
  have hps := hinv.persisted_le_store
  obtain ⟨l', hcs, hinv', habs1, habs2, hun, _, _, _, _, hsl⟩ :=
    RaftProps.C14.compactStore_ok hinv k hc.1 (by have := hc.2; omega) (.inl (by have := hc.2; omega))
  have hl' : l' = { r.raftLog with store := store } := by
    unfold RaftLog.compactStore at hcs
    rw [h] at hcs
    cases hcs; rfl
  subst hl'
  have hlast : ({ r.raftLog with store := store } : RaftLog).lastIndex = r.raftLog.lastIndex := by
    unfold RaftLog.lastIndex
    dsimp only
    rw [show store.lastIndex = r.raftLog.store.lastIndex from hsl]
  have hsub : (Sub ({ r.raftLog with store := store } : RaftLog).abs r.raftLog.abs ∧
      ∀ i e, r.raftLog.abs.entryAt i = some e →
        ({ r.raftLog with store := store } : RaftLog).abs.snapIdx < i →
        ({ r.raftLog with store := store } : RaftLog).abs.entryAt i = some e) ∧
      PrevKeep r.raftLog.abs ({ r.raftLog with store := store } : RaftLog).abs := by
    cases hs : r.raftLog.unstable.snapshot with
    | none =>
      rw [habs1 hs]
      have hkl : k - 1 ≤ r.raftLog.abs.lastIndex := by
        rw [← hinv.lastIndex_abs]; have := hinv.committed_le_last; have := hc.1; omega
      refine ⟨⟨Sub.compactTo _ _ hkl, ?_⟩, PrevKeep.compactTo _ _ hkl⟩
      intro i e he hi
      rw [LLog.compactTo_entryAt _ _ _ hkl]
      by_cases hle : k - 1 ≤ r.raftLog.abs.snapIdx
      · have hl := (r.raftLog.abs.entryAt_lt he).1
        rw [if_neg (by omega)]; exact he
      · have : (r.raftLog.abs.compactTo (k - 1)).snapIdx = k - 1 := by
          unfold LLog.compactTo; rw [if_neg hle]
        rw [this] at hi
        rw [if_neg (by omega)]; exact he
    | some sn =>
      rw [habs2 sn hs]
      exact ⟨⟨Sub.refl _, fun i e he _ => he⟩, PrevKeep.rfl _⟩
  exact ⟨hinv', .inl (storeLog_compact hinv.storeWF k (by have := hc.2; omega) h), .inl hsub.1.1,
    fun x hx hty => .inl ⟨x, hx, hty, rfl⟩,
    fun _ _ _ => ⟨Nat.le_of_eq hlast.symm, hsub.1.2⟩, fun _ _ _ => hsub.2⟩

/-! ### one call of a node -/

/-- the effect of one call on a node: log / storage / queue (`Eff`) and role / term (`RT`) -/
structure LStepB (a r : Raft) (m : Message) : Prop where
  eff : EffB a r m
  rt : RT a r

theorem LStepB.rebaseRand {a r : Raft} {m : Message} {rnd : Option Nat}
    (h : LStepB ({ a with nextRand := rnd } : Raft) r m) : LStepB a r m :=
  ⟨h.eff.rebase rfl rfl rfl rfl, h.rt.rebase rfl rfl⟩

theorem LStepB.of_n0 {a r : Raft} {m : Message} (hinv : a.raftLog.Inv) (h : N0 a r)
    (ht : r.term = a.term) (hs : r.state = a.state) : LStepB a r m :=
  ⟨h.effb hinv, RT.rfl.ts ht hs⟩

theorem LStepB.of_sl {a r : Raft} {m : Message} (hinv : a.raftLog.Inv) (hcl : Prov0 a r)
    (h : SL a r) (ht : r.term = a.term) (hs : r.state = a.state) : LStepB a r m :=
  ⟨h.effb hinv hcl, RT.rfl.ts ht hs⟩

theorem LStepB.of_fields {a r : Raft} {m : Message} (hinv : a.raftLog.Inv)
    (hl : r.raftLog = a.raftLog) (hm : r.msgs = a.msgs) (ht : r.term = a.term)
    (hs : r.state = a.state) : LStepB a r m :=
  ⟨EffB.of_fields hinv hl hm, RT.rfl.ts ht hs⟩

theorem rawStep_lstep_b {r r' : Raft} {m : Message} {e : Option RaftError} (hinv : r.raftLog.Inv)
    (hcl : Prov0 r r') (hw : m.msgType = .msgAppend → MsgOk m)
    (h : RawNode.step r m = .ok (r', e)) : LStepB r r' m := by
  unfold RawNode.step at h
  split at h
  · cases h; exact LStepB.of_fields hinv rfl rfl rfl rfl
  · split at h
    · exact ⟨step_effb hinv hcl hw h, step_rt h⟩
    · cases h; exact LStepB.of_fields hinv rfl rfl rfl rfl

/-- a call that steps a message built by the application (never a `MsgAppend`) -/
theorem localStep_lstep_b {r r' : Raft} {m m' : Message} {e : Option RaftError}
    (hinv : r.raftLog.Inv) (hcl : Prov0 r r') (hm : m.msgType ≠ .msgAppend)
    (h : r.step m = .ok (r', e)) : LStepB r r' m' :=
  ⟨(step_effb hinv hcl (fun hc => absurd hc hm) h).retag hm, step_rt h⟩

theorem localStepIgnore_lstep_b {r r' : Raft} {m m' : Message}
    (hinv : r.raftLog.Inv) (hcl : Prov0 r r') (hm : m.msgType ≠ .msgAppend)
    (h : r.stepIgnore m = .ok r') : LStepB r r' m' :=
  ⟨(stepIgnore_effb hinv hcl (fun hc => absurd hc hm) h).retag hm, stepIgnore_rt h⟩

/-- **one call of a node** — every `NodeOp` the cluster semantics uses (`step` for a delivered
message, and the application's calls), for a node whose log satisfies the representation invariant
batching on or off, under the proviso `Prov0`; a delivered `MsgAppend` is well-numbered with real terms; `compact` obeys
the storage contract -/
theorem call_lstep_b (st st' : NState) (rnd : Option Nat) (op : NodeOp) (res : OpRes)
    (hinv : st.raft.raftLog.Inv) (hcl : Prov0 st.raft st'.raft)
    (hop : op ≠ .drain ∧ ∀ m, op ≠ .rstep m)
    (hw : ∀ m, op = .step m → m.msgType = .msgAppend → MsgOk m)
    (hc : ∀ k, op = .compact k → CompactOk st.raft.raftLog k)
    (h : Node.call st rnd op = .ok (res, st')) : LStepB st.raft st'.raft (CV.opMsg op) := by
  unfold Node.call at h
  have hinv' : ({ st.raft with nextRand := rnd } : Raft).raftLog.Inv := hinv
  have hcl' : Prov0 ({ st.raft with nextRand := rnd } : Raft) st'.raft := hcl.rebase rfl rfl rfl
  apply LStepB.rebaseRand (rnd := rnd)
  cases op with
  | tick =>
    simp only [applyOp] at h
    split at h
    · rename_i raft b heq
      cases h
      exact ⟨tick_effb hinv' hcl' heq, tick_rt heq⟩
    · cases h
    · cases h
  | step m =>
    simp only [applyOp] at h
    obtain ⟨raft, e, hx, hr⟩ := CV.unitRes_ok h
    rw [hr] at hcl' ⊢
    exact rawStep_lstep_b hinv' hcl' (hw m rfl) hx
  | rstep m => exact absurd rfl (hop.2 m)
  | propose c d =>
    simp only [applyOp] at h
    obtain ⟨raft, e, hx, hr⟩ := CV.unitRes_ok h
    rw [hr] at hcl' ⊢
    exact localStep_lstep_b hinv' hcl' (by intro hc; cases hc) hx
  | proposeCc t c d =>
    simp only [applyOp] at h
    obtain ⟨raft, e, hx, hr⟩ := CV.unitRes_ok h
    rw [hr] at hcl' ⊢
    exact localStep_lstep_b hinv' hcl' (by intro hc; cases hc) hx
  | readIndex c =>
    simp only [applyOp] at h
    obtain ⟨raft, hx, hr⟩ := CV.okRes_ok h
    rw [hr] at hcl' ⊢
    exact localStepIgnore_lstep_b hinv' hcl' (by intro hc; cases hc) hx
  | transferLeader x =>
    simp only [applyOp] at h
    obtain ⟨raft, hx, hr⟩ := CV.okRes_ok h
    rw [hr] at hcl' ⊢
    exact localStepIgnore_lstep_b hinv' hcl' (by intro hc; cases hc) hx
  | campaign =>
    simp only [applyOp] at h
    obtain ⟨raft, e, hx, hr⟩ := CV.unitRes_ok h
    rw [hr] at hcl' ⊢
    exact localStep_lstep_b hinv' hcl' (by intro hc; cases hc) hx
  | ping =>
    simp only [applyOp] at h
    obtain ⟨raft, hx, hr⟩ := CV.okRes_ok h
    rw [hr] at hcl' ⊢
    have hvf := Res.Post.of_eq (CV.ping_vf _) hx
    exact LStepB.of_n0 hinv' (ping_n hx N.rfl hinv') hvf.term hvf.state
  | requestSnapshot =>
    simp only [applyOp] at h
    obtain ⟨raft, e, hx, hr⟩ := CV.unitRes_ok h
    rw [hr] at hcl' ⊢
    have hvf := Res.Post.of_eq (P := fun x => CV.VF _ x.1) (CV.requestSnapshot_vf _) hx
    exact LStepB.of_n0 hinv' (requestSnapshot_n hx N.rfl hinv') hvf.term hvf.state
  | reportUnreachable x =>
    simp only [applyOp] at h
    obtain ⟨raft, hx, hr⟩ := CV.okRes_ok h
    rw [hr] at hcl' ⊢
    exact localStepIgnore_lstep_b hinv' hcl' (by intro hc; cases hc) hx
  | reportSnapshot x f =>
    simp only [applyOp] at h
    obtain ⟨raft, hx, hr⟩ := CV.okRes_ok h
    rw [hr] at hcl' ⊢
    exact localStepIgnore_lstep_b hinv' hcl' (by intro hc; cases hc) hx
  | applyConfChange cc =>
    simp only [applyOp] at h
    split at h
    · rename_i raft cs heq
      cases h
      exact ⟨(applyConfChange_b heq hinv').effb hinv' hcl', applyConfChange_rt heq⟩
    · rename_i raft e heq
      cases h
      exact ⟨(applyConfChange_b heq hinv').effb hinv' hcl', applyConfChange_rt heq⟩
    · cases h
    · cases h
  | stabilize =>
    simp only [applyOp] at h
    obtain ⟨h1, h2⟩ := stabilize_effb (st := { st with raft := { st.raft with nextRand := rnd } }) hinv' h
    exact ⟨h1, h2⟩
  | onPersistEntries i t =>
    simp only [applyOp] at h
    obtain ⟨raft, hx, hr⟩ := CV.okRes_ok h
    rw [hr] at hcl' ⊢
    have hvf := Res.Post.of_eq (CV.onPersistEntries_vf _ _ _) hx
    exact LStepB.of_sl hinv' hcl' (onPersistEntries_b hinv' hx) hvf.term hvf.state
  | persistSnap =>
    simp only [applyOp] at h
    obtain ⟨h1, h2⟩ := persistSnap_effb (st := { st with raft := { st.raft with nextRand := rnd } }) hinv' h
    exact ⟨h1, h2⟩
  | commitApply k =>
    simp only [applyOp] at h
    obtain ⟨h1, h2⟩ := commitApply_effb (st := { st with raft := { st.raft with nextRand := rnd } }) hinv' h
    exact ⟨h1, h2⟩
  | compact k =>
    simp only [applyOp] at h
    split at h
    · rename_i store hcomp
      cases h
      exact ⟨compact_effb hinv' (hc k rfl) hcomp, RT.rfl.ts rfl rfl⟩
    · cases h
    · cases h
  | drain => exact absurd rfl hop.1
  | triggerSnap =>
    simp only [applyOp] at h
    cases h
    exact ⟨EffB.of_store_core hinv' _ rfl rfl rfl rfl, RT.rfl.ts rfl rfl⟩
  | triggerLog b =>
    simp only [applyOp] at h
    cases h
    exact ⟨EffB.of_store_core hinv' _ rfl rfl rfl rfl, RT.rfl.ts rfl rfl⟩
  | setPriority p =>
    simp only [applyOp] at h
    cases h
    exact LStepB.of_fields hinv' rfl rfl rfl rfl
  | setBatchAppend b =>
    simp only [applyOp] at h
    cases h
    exact LStepB.of_fields hinv' rfl rfl rfl rfl
  | skipBcastCommit b =>
    simp only [applyOp] at h
    cases h
    exact LStepB.of_fields hinv' rfl rfl rfl rfl
  | setCheckQuorum b =>
    simp only [applyOp] at h
    cases h
    exact LStepB.of_fields hinv' rfl rfl rfl rfl
  | adjustMaxInflight id cap =>
    simp only [applyOp] at h
    obtain ⟨raft, hx, hr⟩ := CV.okRes_ok h
    rw [hr] at hcl' ⊢
    have hvf := Res.Post.of_eq (CV.adjustMaxInflightMsgs_vf _ _ _) hx
    exact LStepB.of_n0 hinv' (adjustMaxInflightMsgs_n hx N.rfl hinv') hvf.term hvf.state
  | maybeFreeInflightBuffers =>
    simp only [applyOp] at h
    cases h
    exact LStepB.of_fields hinv' rfl rfl rfl rfl
  | enableGroupCommit b =>
    simp only [applyOp] at h
    obtain ⟨raft, hx, hr⟩ := CV.okRes_ok h
    rw [hr] at hcl' ⊢
    have hvf := Res.Post.of_eq (CV.enableGroupCommit_vf _ _) hx
    exact LStepB.of_sl hinv' hcl' (enableGroupCommit_b hx hinv') hvf.term hvf.state
  | assignCommitGroups v =>
    simp only [applyOp] at h
    obtain ⟨raft, hx, hr⟩ := CV.okRes_ok h
    rw [hr] at hcl' ⊢
    have hvf := Res.Post.of_eq (CV.assignCommitGroups_vf _ _) hx
    exact LStepB.of_sl hinv' hcl' (assignCommitGroups_b hx hinv') hvf.term hvf.state
  | clearCommitGroup =>
    simp only [applyOp] at h
    cases h
    exact LStepB.of_fields hinv' rfl rfl rfl rfl
  | checkGroupCommitConsistent =>
    simp only [applyOp] at h
    split at h
    · cases h; exact LStepB.of_fields hinv' rfl rfl rfl rfl
    · cases h; exact LStepB.of_fields hinv' rfl rfl rfl rfl
    · cases h
    · cases h
  | setMaxApplyUnpersistedLogLimit x =>
    simp only [applyOp] at h
    cases h
    refine LStepB.of_n0 hinv' ?_ rfl rfl
    exact ⟨logS_limit _ x, rfl, fun y hy _ => hy⟩
  | setMaxCommittedSizePerReady x =>
    simp only [applyOp] at h
    cases h
    exact LStepB.of_fields hinv' rfl rfl rfl rfl
  | onEntriesFetched to term aggr =>
    rcases CV.onEntriesFetched_ok h with h | ⟨-, hld, -, raft, hx, h⟩
    · cases h; exact LStepB.of_fields hinv' rfl rfl rfl rfl
    · cases h
      rcases hx with hx | hx
      · have hvf := Res.Post.of_eq (CV.sendAppendAggressively_vf _ _) hx
        exact LStepB.of_sl hinv' hcl' (.inr ⟨hld, sendAppendAggressively_l hx (L.rfl hld)⟩) hvf.term hvf.state
      · have hvf := Res.Post.of_eq (CV.sendAppend_vf _ _) hx
        exact LStepB.of_sl hinv' hcl' (.inr ⟨hld, sendAppend_l hx (L.rfl hld)⟩) hvf.term hvf.state


/-! ### role and term transitions of one call, without any proviso -/

theorem rawStep_rt {r r' : Raft} {m : Message} {e : Option RaftError}
    (h : RawNode.step r m = .ok (r', e)) : RT r r' := by
  unfold RawNode.step at h
  split at h
  · cases h; exact RT.rfl
  · split at h
    · exact step_rt h
    · cases h; exact RT.rfl

theorem call_rt (st st' : NState) (rnd : Option Nat) (op : NodeOp) (res : OpRes)
    (hinv : st.raft.raftLog.Inv)
    (hop : op ≠ .drain ∧ ∀ m, op ≠ .rstep m)
    (h : Node.call st rnd op = .ok (res, st')) : RT st.raft st'.raft := by
  unfold Node.call at h
  have hinv' : ({ st.raft with nextRand := rnd } : Raft).raftLog.Inv := hinv
  apply RT.rebase (r := ({ st.raft with nextRand := rnd } : Raft)) (a := st.raft) ?_ rfl rfl
  cases op with
  | tick =>
    simp only [applyOp] at h
    split at h
    · rename_i raft b heq
      cases h
      exact tick_rt heq
    · cases h
    · cases h
  | step m =>
    simp only [applyOp] at h
    obtain ⟨raft, e, hx, hr⟩ := CV.unitRes_ok h
    rw [hr]
    exact rawStep_rt hx
  | rstep m => exact absurd rfl (hop.2 m)
  | propose c d =>
    simp only [applyOp] at h
    obtain ⟨raft, e, hx, hr⟩ := CV.unitRes_ok h
    rw [hr]
    exact step_rt hx
  | proposeCc t c d =>
    simp only [applyOp] at h
    obtain ⟨raft, e, hx, hr⟩ := CV.unitRes_ok h
    rw [hr]
    exact step_rt hx
  | readIndex c =>
    simp only [applyOp] at h
    obtain ⟨raft, hx, hr⟩ := CV.okRes_ok h
    rw [hr]
    exact stepIgnore_rt hx
  | transferLeader x =>
    simp only [applyOp] at h
    obtain ⟨raft, hx, hr⟩ := CV.okRes_ok h
    rw [hr]
    exact stepIgnore_rt hx
  | campaign =>
    simp only [applyOp] at h
    obtain ⟨raft, e, hx, hr⟩ := CV.unitRes_ok h
    rw [hr]
    exact step_rt hx
  | ping =>
    simp only [applyOp] at h
    obtain ⟨raft, hx, hr⟩ := CV.okRes_ok h
    rw [hr]
    have hvf := Res.Post.of_eq (CV.ping_vf _) hx
    exact RT.rfl.ts hvf.term hvf.state
  | requestSnapshot =>
    simp only [applyOp] at h
    obtain ⟨raft, e, hx, hr⟩ := CV.unitRes_ok h
    rw [hr]
    have hvf := Res.Post.of_eq (P := fun x => CV.VF _ x.1) (CV.requestSnapshot_vf _) hx
    exact RT.rfl.ts hvf.term hvf.state
  | reportUnreachable x =>
    simp only [applyOp] at h
    obtain ⟨raft, hx, hr⟩ := CV.okRes_ok h
    rw [hr]
    exact stepIgnore_rt hx
  | reportSnapshot x f =>
    simp only [applyOp] at h
    obtain ⟨raft, hx, hr⟩ := CV.okRes_ok h
    rw [hr]
    exact stepIgnore_rt hx
  | applyConfChange cc =>
    simp only [applyOp] at h
    split at h
    · rename_i raft cs heq
      cases h
      exact applyConfChange_rt heq
    · rename_i raft e heq
      cases h
      exact applyConfChange_rt heq
    · cases h
    · cases h
  | stabilize =>
    simp only [applyOp] at h
    obtain ⟨h1, h2⟩ := stabilize_eff (m := default) (st := { st with raft := { st.raft with nextRand := rnd } }) hinv' h
    exact h2
  | onPersistEntries i t =>
    simp only [applyOp] at h
    obtain ⟨raft, hx, hr⟩ := CV.okRes_ok h
    rw [hr]
    have hvf := Res.Post.of_eq (CV.onPersistEntries_vf _ _ _) hx
    exact RT.rfl.ts hvf.term hvf.state
  | persistSnap =>
    simp only [applyOp] at h
    obtain ⟨h1, h2⟩ := persistSnap_eff (m := default) (st := { st with raft := { st.raft with nextRand := rnd } }) hinv' h
    exact h2
  | commitApply k =>
    simp only [applyOp] at h
    obtain ⟨h1, h2⟩ := commitApply_eff (m := default) (st := { st with raft := { st.raft with nextRand := rnd } }) hinv' h
    exact h2
  | compact k =>
    simp only [applyOp] at h
    split at h
    · rename_i store hcomp
      cases h
      exact RT.rfl.ts rfl rfl
    · cases h
    · cases h
  | drain => exact absurd rfl hop.1
  | triggerSnap =>
    simp only [applyOp] at h
    cases h
    exact RT.rfl.ts rfl rfl
  | triggerLog b =>
    simp only [applyOp] at h
    cases h
    exact RT.rfl.ts rfl rfl
  | setPriority p =>
    simp only [applyOp] at h
    cases h
    exact RT.rfl.ts rfl rfl
  | setBatchAppend b =>
    simp only [applyOp] at h
    cases h
    exact RT.rfl.ts rfl rfl
  | skipBcastCommit b =>
    simp only [applyOp] at h
    cases h
    exact RT.rfl.ts rfl rfl
  | setCheckQuorum b =>
    simp only [applyOp] at h
    cases h
    exact RT.rfl.ts rfl rfl
  | adjustMaxInflight id cap =>
    simp only [applyOp] at h
    obtain ⟨raft, hx, hr⟩ := CV.okRes_ok h
    rw [hr]
    have hvf := Res.Post.of_eq (CV.adjustMaxInflightMsgs_vf _ _ _) hx
    exact RT.rfl.ts hvf.term hvf.state
  | maybeFreeInflightBuffers =>
    simp only [applyOp] at h
    cases h
    exact RT.rfl.ts rfl rfl
  | enableGroupCommit b =>
    simp only [applyOp] at h
    obtain ⟨raft, hx, hr⟩ := CV.okRes_ok h
    rw [hr]
    have hvf := Res.Post.of_eq (CV.enableGroupCommit_vf _ _) hx
    exact RT.rfl.ts hvf.term hvf.state
  | assignCommitGroups v =>
    simp only [applyOp] at h
    obtain ⟨raft, hx, hr⟩ := CV.okRes_ok h
    rw [hr]
    have hvf := Res.Post.of_eq (CV.assignCommitGroups_vf _ _) hx
    exact RT.rfl.ts hvf.term hvf.state
  | clearCommitGroup =>
    simp only [applyOp] at h
    cases h
    exact RT.rfl.ts rfl rfl
  | checkGroupCommitConsistent =>
    simp only [applyOp] at h
    split at h
    · cases h; exact RT.rfl.ts rfl rfl
    · cases h; exact RT.rfl.ts rfl rfl
    · cases h
    · cases h
  | setMaxApplyUnpersistedLogLimit x =>
    simp only [applyOp] at h
    cases h
    exact RT.rfl.ts rfl rfl
  | setMaxCommittedSizePerReady x =>
    simp only [applyOp] at h
    cases h
    exact RT.rfl.ts rfl rfl
  | onEntriesFetched to term aggr =>
    rcases CV.onEntriesFetched_ok h with h | ⟨-, -, -, raft, hx, h⟩
    · cases h; exact RT.rfl.ts rfl rfl
    · cases h
      rcases hx with hx | hx
      · have hvf := Res.Post.of_eq (CV.sendAppendAggressively_vf _ _) hx
        exact RT.rfl.ts hvf.term hvf.state
      · have hvf := Res.Post.of_eq (CV.sendAppend_vf _ _) hx
        exact RT.rfl.ts hvf.term hvf.state

end Bt
end Raft
end RaftModel
