import RaftProofs.ProtoCDefs

/-!
**Leader Completeness** — the core argument and its preservation.

`lc_core`: let `(t0, c)` be backed by a quorum of released acknowledgements (term `t0`, index ≥ `c`,
entry `c` of the log of the leader of `t0` is of term `t0`), let `E` be a log whose holder gathered
a quorum of grant records of term `t > t0` (decided before `t` had a leader, against the tail of
`E`), and let every leader of a term strictly between `t0` and `t` hold the first `c` entries of the
log of the leader of `t0`.  Then `E` holds them too.  (Quorum intersection gives a voter that
acknowledged and granted; its recorded log retains the prefix (`InvC2.rgr`); the up-to-date rule
and the shape of prefix-from-leader logs do the rest.)
-/
namespace RaftModel.P

theorem termAt_some {l : List LEntry} {k : Nat} (h0 : 0 < k) (hk : k ≤ l.length) :
    ∃ x, l[k - 1]? = some x ∧ termAt l k = x.term := by
  have hlt : k - 1 < l.length := by omega
  refine ⟨l[k - 1], List.getElem?_eq_getElem hlt, ?_⟩
  unfold termAt
  rw [if_neg (by omega), List.getElem?_eq_getElem hlt]

theorem lc_core (cp ce : Cfg) (hadj : adjOk cp ce = true) (s : PSys) (hL : InvL s) (hA : InvA s)
    (hll : ∀ t, ∃ r, s.llog t = s.elog t ++ r ∧ (∀ e ∈ r, e.term = t) ∧ (∀ e ∈ s.elog t, e.term < t))
    (h2 : InvC2 s)
    (t0 c : Nat) (hc : 0 < c) (hlen : c ≤ (s.llog t0).length) (hterm : termAt (s.llog t0) c = t0)
    (q : List Nat) (hq : cp.isQuorum q = true)
    (hacks : ∀ v ∈ q, ∃ a ∈ s.acks, a.term = t0 ∧ a.frm = v ∧ c ≤ a.idx)
    (t : Nat) (ht : t0 < t) (j : Nat) (E : List LEntry) (hE : PFL s.llog E) (hEt : ∀ e ∈ E, e.term < t)
    (Q : List Nat) (hQ : ce.isQuorum Q = true)
    (hgr : ∀ v ∈ Q, ∃ gh, ((⟨t, v, j⟩ : Grant), gh) ∈ s.rgv ∧ gh.early = true ∧
        upToDate (lastTerm E) E.length gh.vlog = true)
    (hnc : NClt s t0 c t) : E.take c = (s.llog t0).take c := by
  obtain ⟨w, hw1, hw2⟩ := adj_intersect cp ce hadj q Q hq hQ
  obtain ⟨a, ha, hat, haf, hai⟩ := hacks w hw1
  obtain ⟨gh, hgh, hearly, hup⟩ := hgr w hw2
  have hsub := hA.sub a ha
  rw [haf, hat] at hsub
  -- the voter's recorded log retains the acknowledged prefix
  have hV : gh.vlog.take c = (s.llog t0).take c :=
    h2.rgr (⟨t, w, j⟩, gh) hgh hearly t0 w a.idx a.pre (Or.inr (Or.inr hsub)) ht c hai hnc
  have hVp : PFL s.llog gh.vlog :=
    hL.pfl _ (Or.inr (Or.inr (Or.inr (Or.inr (Or.inl ⟨(⟨t, w, j⟩, gh), hgh, rfl⟩)))))
  have hcV : c ≤ gh.vlog.length := len_of_take_eq hV hlen
  -- the voter's last term is at least t0
  have hVt : termAt gh.vlog c = t0 := by rw [termAt_of_take_eq hV (Nat.le_refl _)]; exact hterm
  obtain ⟨x, hx, hxt⟩ := termAt_some hc hcV
  have hVlast : t0 ≤ lastTerm gh.vlog := by
    rw [lastTerm_eq_termAt]
    obtain ⟨y, hy, hyt⟩ := termAt_some (show 0 < gh.vlog.length by omega) (Nat.le_refl _)
    rw [hyt, ← hVt, hxt]
    exact pfl_sorted hll hVp (by omega) hx hy
  have ht0pos : 1 ≤ t0 := by
    obtain ⟨z, hz, hzt⟩ := termAt_some hc hlen
    rw [← hterm, hzt]
    exact (hL.lterm t0 z (List.mem_of_getElem? hz)).1
  -- the up-to-date rule
  simp only [upToDate, Bool.or_eq_true, Bool.and_eq_true, decide_eq_true_eq] at hup
  have hT : t0 ≤ lastTerm E := by rcases hup with h | ⟨h, _⟩ <;> omega
  have hEne : E ≠ [] := by
    intro he; rw [he] at hT; simp [lastTerm] at hT; omega
  have hElast := pfl_last hE hEne
  by_cases hTe : lastTerm E = t0
  · -- same last term: E is at least as long as the voter's log
    have hlenE : c ≤ E.length := by rcases hup with h | ⟨_, h⟩ <;> omega
    rw [hTe] at hElast
    rw [hElast, List.take_take, Nat.min_eq_left hlenE]
  · have hTgt : t0 < lastTerm E := by omega
    have hEpos : 0 < E.length := List.length_pos_iff.mpr hEne
    obtain ⟨y, hy, hyt⟩ := termAt_some hEpos (Nat.le_refl _)
    rw [← lastTerm_eq_termAt] at hyt
    have hyE : y ∈ E := List.mem_of_getElem? hy
    have hTlt : lastTerm E < t := by rw [hyt]; exact hEt y hyE
    have hel : Elected s (lastTerm E) := by
      apply Classical.byContradiction
      intro hno
      have : s.llog (lastTerm E) = [] := hL.nole _ (fun j hj => hno ⟨j, hj⟩)
      rw [this] at hElast
      simp at hElast
      exact hEne hElast
    have hncT := hnc (lastTerm E) hTgt hTlt hel
    have hlenE : c ≤ E.length := by
      apply Classical.byContradiction
      intro hlt
      have hk : E.length - 1 < c := by omega
      have h1 : (s.llog (lastTerm E))[E.length - 1]? = some y := by
        have : (E.take E.length)[E.length - 1]? = ((s.llog (lastTerm E)).take E.length)[E.length - 1]? := by
          rw [List.take_length]; rw [← hElast]
        rw [List.take_length, hy, List.getElem?_take] at this
        simp only [show E.length - 1 < E.length by omega, if_true] at this
        exact this.symm
      have h2' := getElem?_of_take_eq hncT hk
      rw [h1] at h2'
      have := (hL.lterm t0 y (List.mem_of_getElem? h2'.symm)).2
      omega
    rw [hElast, List.take_take, Nat.min_eq_left hlenE]; exact hncT

/-- **Leader Completeness** for the recorded leader commits, in any state that satisfies the shape of
the ghost logs, the election records, the retention of acknowledged prefixes in the voters' recorded
logs and the quorum evidence of the commits: by induction on the later leader's term.  For a commit
and an election decided under configurations whose quorums meet (`adjOk`: equal configurations,
consecutive configurations of a membership change) this is the classical argument (`lc_core`); for
any other pair P's guards have validated the conclusion when the later of the two events happened
(`InvC3.gd`). -/
theorem invLC_of (s : PSys) (hL : InvL s) (hA : InvA s)
    (hB : InvB s) (h2 : InvC2 s) (h3 : InvC3 s) : InvLC s := by
  intro p hp t
  induction t using Nat.strongRecOn with
  | _ t ih =>
    intro hlt hel
    obtain ⟨hc, hlen, hterm, _, cp, q, hcp, hq, hacks⟩ := h3.cq p hp
    obtain ⟨j, hj⟩ := hel
    obtain ⟨ce, Q, hce, hQ, hgr⟩ := hB.eq (t, j) hj
    rcases h3.gd (p, cp) hcp (t, ce) hce hlt with hadj | hdirect
    · have hnc : NClt s p.1 p.2 t := by
        intro t' h1 h2' h3'
        have := ih t' h2' h1 h3'
        obtain ⟨r, hr, _, _⟩ := hB.ll t'
        rw [hr, List.take_append_of_le_length (len_of_take_eq this hlen)]; exact this
      exact lc_core cp ce hadj s hL hA hB.ll h2 p.1 p.2 hc hlen hterm q hq hacks t hlt j (s.elog t)
        (hL.pfl _ (Or.inr (Or.inr (Or.inr (Or.inr (Or.inr ⟨t, rfl⟩))))))
        (by obtain ⟨r, _, _, h⟩ := hB.ll t; exact h) Q hQ hgr hnc
    · exact hdirect

end RaftModel.P
