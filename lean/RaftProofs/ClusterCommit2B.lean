import RaftProofs.ClusterCommit2A

/-!
Cluster-level commit safety, part 2B: one delivery of a `MsgAppend` at a node, completely
(`append_call`), and the basic facts about the nodes of a history under `Hyp2w`.
-/
namespace RaftModel
namespace Raft
namespace CC
open Node

/-- the outcome of delivering the `MsgAppend` `m` to a node (`st → st'`) -/
inductive AppOut (st st' : NState) (m : Message) : Prop
  /-- not accepted: log and commit index are untouched; whatever was queued is a rejection or
  acknowledges nothing beyond the commit index -/
  | noacc (hl : st'.raft.raftLog.abs = st.raft.raftLog.abs)
      (hc : st'.raft.raftLog.committed = st.raft.raftLog.committed)
      (hq : ∀ x ∈ st'.raft.msgs, x ∈ st.raft.msgs ∨ x.index = 0 ∨ x.reject = true ∨
        (x.index = st.raft.raftLog.committed ∧ st'.raft.state = .follower ∧
          (m.term = st'.raft.term ∨ m.term = 0)))
  /-- accepted -/
  | acc (ha : Accepted st.raft.raftLog.abs st'.raft.raftLog.abs m)
      (hc : st'.raft.raftLog.committed =
        max st.raft.raftLog.committed (min m.commit (m.index + m.entries.length)))
      (hci : st.raft.raftLog.committed ≤ m.index)
      (hs : st'.raft.state = .follower) (ht : m.term = st'.raft.term ∨ m.term = 0)
      (hq : ∀ x ∈ st'.raft.msgs, x ∈ st.raft.msgs ∨
        (x.reject = false ∧ x.index = m.index + m.entries.length))

theorem append_call {st st' : NState} {rnd : Option Nat} {m : Message} {res : OpRes}
    (hinv : st.raft.raftLog.Inv) (hm : m.msgType = .msgAppend) (hok : MsgOk m)
    (hag : Agree (msgLog m) st.raft.raftLog.abs)
    (h : Node.call st rnd (.step m) = .ok (res, st')) : AppOut st st' m := by
  unfold Node.call at h
  simp only [applyOp] at h
  obtain ⟨raft, e, hx, hr⟩ := CV.unitRes_ok h
  unfold RawNode.step at hx
  have hsame : raft = ({ st.raft with nextRand := rnd } : Raft) → AppOut st st' m := by
    intro he
    rw [he] at hr
    exact .noacc (by rw [hr]) (by rw [hr]) (fun x hx => .inl (by rw [hr] at hx; exact hx))
  split at hx
  · cases hx; exact hsame rfl
  · split at hx
    · rcases step_append_unfold hm hx with ⟨r0, h0, hs0, hsl, htm⟩ | ⟨h1, _, h3⟩
      · have hsl' : SameLog st.raft r0 := hsl
        have hinv0 : r0.raftLog.Inv := hsl'.inv hinv
        have hag0 : Agree (msgLog m) r0.raftLog.abs := by rw [hsl'.abs]; exact hag
        obtain ⟨⟨resp, f1, f2, f3, f4, f5⟩, hcase⟩ := handleAppendEntries_full hinv0 hok hag0 h0
        rcases hcase with ⟨g1, g2⟩ | ⟨g1, g2, g3, g4⟩
        · refine .noacc (by rw [hr, g1]; exact hsl'.abs) (by rw [hr, g1]; exact hsl'.committed)
            (fun x hx => ?_)
          rw [hr] at hx
          rcases g2 x hx with c | c | c
          · exact .inl (by rw [← hsl'.1]; exact c)
          · exact .inr (.inr (.inl c))
          · exact .inr (.inr (.inr ⟨by rw [c]; exact hsl'.committed, by rw [hr, f4]; exact hs0,
              by rw [hr, f3]; exact htm⟩))
        · refine .acc (by rw [hr, ← hsl'.abs]; exact g1) (by rw [hr, g3.1, hsl'.committed])
            (by rw [← hsl'.committed]; exact g3.2) (by rw [hr, f4]; exact hs0) (by rw [hr, f3]; exact htm) (fun x hx => ?_)
          rw [hr] at hx
          rcases g4 x hx with c | c
          · exact .inl (by rw [← hsl'.1]; exact c)
          · exact .inr c
      · refine .noacc (by rw [hr, h1]) (by rw [hr, h1]) (fun x hx => ?_)
        rw [hr] at hx
        rcases h3 x hx with c | c
        · exact .inl c
        · exact .inr (.inl c)
    · cases hx; exact hsame rfl

end CC
end Raft
end RaftModel
