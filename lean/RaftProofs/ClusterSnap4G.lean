import RaftProofs.ClusterSnap4F

/-!
(Copy of `ClusterCommit4G` for the relation `Raft.CS.PW` of `ClusterSnap4A`: no `QSnap` escape, the
`Snapshot` state allowed.)

Cluster-level commit safety, part 4G: `PW` through `step_candidate`, `step_follower`, the term preamble
and `Raft::step`: for a message that is not a `MsgAppend` (nor a `MsgSnapshot`, which the transport
never holds) the relation is kept; for a `MsgAppend` — the only call that can shorten the log — nothing
of the relation's types is queued and the node ends outside the leader role (`step_app_pr`).
-/
namespace RaftModel
namespace Raft
namespace CS
open RaftProps.C13

/-! ### the term preamble -/

theorem stepTerm_pw {a r r' : Raft} {m : Message} {b : Bool} (h : r.stepTerm m = .ok (r', b))
    (h0 : PW a r) : PW a r' := by
  unfold Raft.stepTerm at h
  pws_auto h [send_pw, becomeFollower_pw]

theorem stepTerm_nf {a r r' : Raft} {m : Message} {b : Bool} (h : r.stepTerm m = .ok (r', b))
    (h0 : NF a r) : NF a r' := by
  unfold Raft.stepTerm at h
  repeat' (first | split at h | (simp only at h; split at h))
  all_goals first
    | (cases h; exact h0)
    | (cases h; exact h0.of_msgs (becomeFollower_msgs _ _ _))
    | (cases h; done)
    | (cases h; rename_i hs; exact h0.send hs rfl)

/-- a node that is leader after the preamble has not been touched by it, and an append response it
goes on to handle carries its term (or none) -/
theorem stepTerm_lead {r r' : Raft} {m : Message} (h : r.stepTerm m = .ok (r', true))
    (hs : r'.state = .leader) :
    r' = r ∧ (m.msgType = .msgAppendResponse → m.term = 0 ∨ m.term = r.term) := by
  unfold Raft.stepTerm at h
  split at h
  · rename_i h0
    cases h; exact ⟨rfl, fun _ => .inl h0⟩
  · split at h
    · simp only [] at h
      split at h
      · cases h
      · split at h
        · rename_i hp
          cases h
          refine ⟨rfl, fun hty => ?_⟩
          rcases hp with c | ⟨c, _⟩ <;> (rw [hty] at c; cases c)
        · split at h
          · cases h
            rw [(RaftProps.C16.becomeFollower_proj _ _ _).1] at hs; cases hs
          · cases h
            rw [(RaftProps.C16.becomeFollower_proj _ _ _).1] at hs; cases hs
    · split at h
      · split at h
        · split at h <;> cases h
        · split at h
          · split at h <;> cases h
          · cases h
      · cases h
        refine ⟨rfl, fun _ => .inr ?_⟩
        omega

/-! ### `step_candidate`, `step_follower` -/

theorem stepCandidate_pw {a r r' : Raft} {m : Message} {e : Option RaftError}
    (h : r.stepCandidate m = .ok (r', e)) (h0 : PW a r) (hna : m.msgType ≠ .msgAppend)
    (hms : m.msgType ≠ .msgSnapshot) : PW a r' := by
  unfold Raft.stepCandidate at h
  split at h
  · cases h; exact h0
  · rename_i hty; exact absurd hty hna
  · split at h
    · cases h
    · rw [Res.bind_eq_ok_iff] at h
      obtain ⟨r1, h1, h2⟩ := h
      cases h2
      exact handleHeartbeat_pw h1 (becomeFollower_pw _ _ h0)
  · rename_i hty; exact absurd hty hms
  · split at h
    · cases h; exact h0
    · split at h
      · cases h; exact h0
      · rw [Res.bind_eq_ok_iff] at h
        obtain ⟨⟨r1, vr⟩, h1, h2⟩ := h
        rw [Res.bind_eq_ok_iff] at h2
        obtain ⟨r2, h3, h4⟩ := h2
        cases h4
        exact maybeCommitByVote_pw h3 (poll_pw h1 h0)
  · split at h
    · cases h; exact h0
    · split at h
      · cases h; exact h0
      · rw [Res.bind_eq_ok_iff] at h
        obtain ⟨⟨r1, vr⟩, h1, h2⟩ := h
        rw [Res.bind_eq_ok_iff] at h2
        obtain ⟨r2, h3, h4⟩ := h2
        cases h4
        exact maybeCommitByVote_pw h3 (poll_pw h1 h0)
  · cases h; exact h0

theorem stepFollower_pw {a r r' : Raft} {m : Message} {e : Option RaftError}
    (h : r.stepFollower m = .ok (r', e)) (h0 : PW a r) (hna : m.msgType ≠ .msgAppend)
    (hms : m.msgType ≠ .msgSnapshot) : PW a r' := by
  unfold Raft.stepFollower at h
  split at h
  · rename_i hty
    split at h
    · cases h; exact h0
    · split at h
      · cases h; exact h0
      · rw [Res.bind_eq_ok_iff] at h
        obtain ⟨r1, h1, h2⟩ := h
        cases h2
        exact send_pw h1 (by show wqT m.msgType = false; rw [hty]; rfl) h0
  · rename_i hty; exact absurd hty hna
  · rw [Res.bind_eq_ok_iff] at h
    obtain ⟨r1, h1, h2⟩ := h
    cases h2
    exact handleHeartbeat_pw h1 (PW.mk' h0)
  · rename_i hty; exact absurd hty hms
  · rename_i hty
    split at h
    · cases h; exact h0
    · rw [Res.bind_eq_ok_iff] at h
      obtain ⟨r1, h1, h2⟩ := h
      cases h2
      exact send_pw h1 (by show wqT m.msgType = false; rw [hty]; rfl) h0
  · split at h
    · rw [Res.bind_eq_ok_iff] at h
      obtain ⟨r1, h1, h2⟩ := h
      cases h2
      exact hup_pw h1 h0
    · cases h; exact h0
  · rename_i hty
    split at h
    · cases h; exact h0
    · rw [Res.bind_eq_ok_iff] at h
      obtain ⟨r1, h1, h2⟩ := h
      cases h2
      exact send_pw h1 (by show wqT m.msgType = false; rw [hty]; rfl) h0
  · split at h
    · simp only [] at h
      split at h
      · rename_i log b hm
        cases h
        exact PW.mk' (r := { r with raftLog := log }) (h0.log (c05_maybeCommit_same hm))
      · cases h
      · cases h
    · cases h; exact h0
  · cases h; exact h0

/-! ### `Raft::step` -/

/-- `Raft::step` on a message that is neither a `MsgAppend` nor a `MsgSnapshot` -/
theorem step_pw {a r r' : Raft} {m : Message} {e : Option RaftError}
    (h : r.step m = .ok (r', e)) (h0 : PW a r) (hna : m.msgType ≠ .msgAppend)
    (hms : m.msgType ≠ .msgSnapshot)
    (hB : r.state = .leader → m.msgType = .msgAppendResponse → m.reject = false →
      (m.term = 0 ∨ m.term = r.term) → m.index ≤ r.raftLog.lastIndex)
    (hQ : m.msgType = .msgSnapStatus → r.state = .leader → ∀ x ∈ r.msgs,
      x.msgType = .msgSnapshot → x.snapshot.metadata.index ≤ r.raftLog.lastIndex) : PW a r' := by
  unfold Raft.step at h
  split at h
  · cases h
  · cases h
  · rename_i r1 ht
    cases h; exact stepTerm_pw ht h0
  · rename_i r1 ht
    have g1 := stepTerm_pw ht h0
    split at h
    · rw [Res.bind_eq_ok_iff] at h
      obtain ⟨r2, h1, h2⟩ := h
      cases h2
      exact hup_pw h1 g1
    · split at h
      · rename_i r2 hv
        cases h; exact stepVote_pw hv g1
      · cases h
      · cases h
    · split at h
      · rename_i r2 hv
        cases h; exact stepVote_pw hv g1
      · cases h
      · cases h
    · split at h
      · exact stepCandidate_pw h g1 hna hms
      · exact stepCandidate_pw h g1 hna hms
      · exact stepFollower_pw h g1 hna hms
      · rename_i hl
        obtain ⟨he, hterm⟩ := stepTerm_lead ht hl
        subst he
        exact stepLeader_pw h ⟨g1, hl⟩ (fun hty hrej => hB hl hty hrej (hterm hty)) hQ

/-- `Raft::step` on a `MsgAppend`: the only call that may shorten the log queues nothing of the
relation's types, and a node that goes through `handle_append_entries` is a follower afterwards -/
theorem step_app_pr {a r r' : Raft} {m : Message} {e : Option RaftError}
    (h : r.step m = .ok (r', e)) (h0 : PW a r) (hn : NF a r) (hty : m.msgType = .msgAppend) :
    PR a r' := by
  unfold Raft.step at h
  split at h
  · cases h
  · cases h
  · rename_i r1 ht
    cases h; exact (stepTerm_pw ht h0).pr
  · rename_i r1 ht
    have g1 := stepTerm_pw ht h0
    have n1 := stepTerm_nf ht hn
    -- a follower that handles the append
    have key : ∀ (r2 : Raft), NF a r2 → r2.state = .follower →
        r2.handleAppendEntries m = .ok r' → PR a r' := by
      intro r2 n2 s2 hh
      obtain ⟨⟨resp, hm, hr⟩, _⟩ := handleAppendEntries_msgs hh
      refine (n2.push hm (by rw [hr]; rfl)).pr ?_
      rw [(handleAppendEntries_frame hh Frame.rfl).state, s2]
      intro hc; cases hc
    rw [hty] at h
    simp only [] at h
    split at h
    · -- candidate
      unfold Raft.stepCandidate at h
      rw [hty] at h
      simp only [] at h
      split at h
      · cases h
      · rw [Res.bind_eq_ok_iff] at h
        obtain ⟨r2, h1, h2⟩ := h
        cases h2
        exact key _ (n1.of_msgs (becomeFollower_msgs _ _ _)) rfl h1
    · unfold Raft.stepCandidate at h
      rw [hty] at h
      simp only [] at h
      split at h
      · cases h
      · rw [Res.bind_eq_ok_iff] at h
        obtain ⟨r2, h1, h2⟩ := h
        cases h2
        exact key _ (n1.of_msgs (becomeFollower_msgs _ _ _)) rfl h1
    · rename_i hs
      unfold Raft.stepFollower at h
      rw [hty] at h
      simp only [] at h
      rw [Res.bind_eq_ok_iff] at h
      obtain ⟨r2, h1, h2⟩ := h
      cases h2
      exact key { r1 with electionElapsed := 0, leaderId := m.frm } (n1.of_msgs rfl) hs h1
    · unfold Raft.stepLeader at h
      rw [hty] at h
      simp only [] at h
      cases h
      exact g1.pr

end CS
end Raft
end RaftModel
