import RaftProofs.ProtoB
import RaftProofs.ProtoC1
import RaftProofs.ProtoC2
import RaftProofs.ProtoC3
import RaftProofs.ProtoC4
import RaftProofs.ProtoSafety

/-!
The commit-layer invariant `InvC` holds in every reachable state of P — for **every** history, with
the voter configuration changing from election to election and from commit to commit (the
configuration in force is part of the `win` / `commitLeader` events; their guards demand that the
configurations of a leader commit and of an election that must agree are adjacent — equal, or one
membership-change step apart — or else that the agreement is exhibited directly).  The clause groups
are preserved step by step (ProtoC1/2/3); Leader Completeness is re-derived in every state from the
others (`invLC_of`).
-/
namespace RaftModel.P

theorem invC_init : InvC init :=
  ⟨invC1_init, invC2_init, invC3_init ⟨[], []⟩, by intro p hp; simp [init] at hp⟩

/-- all the layers together -/
structure InvAll (s : PSys) : Prop where
  v : InvV (vsys s)
  r : InvR s
  l : InvL s
  a : InvA s
  b : InvB s
  c : InvC s

theorem invAll_reachR (s : PSys) (h : Reach s) : InvAll s := by
  induction h with
  | init =>
    exact ⟨invV_reachR _ .init, invR_reachR _ .init, invL_reachR _ .init, invA_reachR _ .init,
      invB_init ⟨[], []⟩, invC_init⟩
  | step e hr hs ih =>
    rename_i s s'
    have hr' : Reach s' := .step e hr hs
    have hV' := invV_reachR _ hr'
    have hR' := invR_reachR _ hr'
    have hL' := invL_reachR _ hr'
    have hA' := invA_reachR _ hr'
    have hB' := invB_step ⟨[], []⟩ s s' e hs ih.v ih.r ih.l ih.a ih.b
    have g := grow_step s s' e ih.v ih.l hs
    have h1 := invC1_step ⟨[], []⟩ s s' e hs ih.v hV' ih.r hR' ih.l hL' ih.a hA' ih.b hB' ih.c g
    have h2 := invC2_step ⟨[], []⟩ s s' e hs ih.v hV' ih.r hR' ih.l hL' ih.a hA' ih.b hB' ih.c g (invG_reach' s hr)
    have h3 := invC3_step ⟨[], []⟩ s s' e hs ih.v hV' ih.r hR' ih.l hL' ih.a hA' ih.b hB' ih.c g
    exact ⟨hV', hR', hL', hA', hB', ⟨h1, h2, h3, invLC_of s' hL' hA' hB' h2 h3⟩⟩

/-- the fixed-configuration histories are histories -/
theorem invAll_reach (c0 : Cfg) (_hne : c0.incoming ≠ [] ∨ c0.outgoing ≠ []) (s : PSys) (h : ReachC c0 s) :
    InvAll s := invAll_reachR s (reach_of_reachC h)

theorem invC_reach (c0 : Cfg) (hne : c0.incoming ≠ [] ∨ c0.outgoing ≠ []) (s : PSys) (h : ReachC c0 s) :
    InvC s := (invAll_reach c0 hne s h).c

end RaftModel.P
