import RaftProofs.ProtoB
import RaftProofs.ProtoC1
import RaftProofs.ProtoC2
import RaftProofs.ProtoC3
import RaftProofs.ProtoC4
import RaftProofs.ProtoSafety

/-!
The commit-layer invariant `InvC` holds in every reachable state of P (fixed configuration with at
least one voter).  The clause groups are preserved step by step (ProtoC1/2/3); Leader Completeness is
re-derived in every state from the others (`invLC_of`).
-/
namespace RaftModel.P

theorem invC_init (c0 : Cfg) : InvC c0 init :=
  ⟨invC1_init, invC2_init, invC3_init c0, by intro p hp; simp [init] at hp⟩

/-- all the layers together -/
structure InvAll (c0 : Cfg) (s : PSys) : Prop where
  v : InvV c0 (vsys s)
  r : InvR s
  l : InvL s
  a : InvA s
  b : InvB c0 s
  c : InvC c0 s

theorem invAll_reach (c0 : Cfg) (hne : c0.incoming ≠ [] ∨ c0.outgoing ≠ []) (s : PSys) (h : ReachC c0 s) :
    InvAll c0 s := by
  induction h with
  | init =>
    exact ⟨invV_reach c0 _ .init, invR_reach c0 _ .init, invL_reach c0 hne _ .init, invA_reach c0 _ .init,
      invB_init c0, invC_init c0⟩
  | step e hr hc hs ih =>
    rename_i s s'
    have hr' : ReachC c0 s' := .step e hr hc hs
    have hV' := invV_reach c0 _ hr'
    have hR' := invR_reach c0 _ hr'
    have hL' := invL_reach c0 hne _ hr'
    have hA' := invA_reach c0 _ hr'
    have hB' := invB_step c0 hne s s' e hc hs ih.v ih.r ih.l ih.a ih.b
    have g := grow_step c0 hne s s' e hc ih.v ih.l hs
    have h1 := invC1_step c0 hne s s' e hc hs ih.v hV' ih.r hR' ih.l hL' ih.a hA' ih.b hB' ih.c g
    have h2 := invC2_step c0 hne s s' e hc hs ih.v hV' ih.r hR' ih.l hL' ih.a hA' ih.b hB' ih.c g (invG_reach c0 s hr)
    have h3 := invC3_step c0 hne s s' e hc hs ih.v hV' ih.r hR' ih.l hL' ih.a hA' ih.b hB' ih.c g
    exact ⟨hV', hR', hL', hA', hB', ⟨h1, h2, h3, invLC_of c0 hne s' hL' hA' hB' h2 h3⟩⟩

theorem invB_reach' (c0 : Cfg) (hne : c0.incoming ≠ [] ∨ c0.outgoing ≠ []) (s : PSys) (h : ReachC c0 s) :
    InvB c0 s := (invAll_reach c0 hne s h).b

theorem invC_reach (c0 : Cfg) (hne : c0.incoming ≠ [] ∨ c0.outgoing ≠ []) (s : PSys) (h : ReachC c0 s) :
    InvC c0 s := (invAll_reach c0 hne s h).c

end RaftModel.P
