import RaftProofs.ClusterCommitG

/-!
Cluster-level commit safety, helper lemmas part H: queueing a message that is not leader-side, and the
follower handlers `handle_append_entries`, `handle_heartbeat`.
-/
namespace RaftModel
namespace Raft
namespace CC

/-- queueing one message that is not of a leader-side type -/
theorem send_g {A : Nat → Nat → Nat → Prop} {a r r' : Raft} {m x : Message}
    (h : r.send x = .ok r') (h0 : G A a m r) (hlk : lkT x.msgType = false)
    (hak : isAck (r.sendFill x) → AkOK m r (r.sendFill x))
    (hvk : isVoteMsg x.msgType = true → VkOK r (r.sendFill x))
    (hrq : x.msgType = .msgRequestVote → RqOK r (r.sendFill x)) : G A a m r' := by
  rw [send_eq r r' x h]
  refine ⟨h0.id, ⟨h0.mok.h⟩, h0.lc, ?_, ?_, ?_, ?_⟩
  · intro y hy hty
    rcases List.mem_append.1 hy with hy | hy
    · exact (h0.qlk y hy hty).imp (fun g => g) (fun g => ⟨g.lead, g.term, g.frm, g.app, g.hb⟩)
    · rw [List.mem_singleton.1 hy, sendFill_msgType, hlk] at hty; cases hty
  · intro y hy hty
    rcases List.mem_append.1 hy with hy | hy
    · exact (h0.qak y hy hty).imp (fun g => g) (fun g => ⟨g.term, g.frm, g.src⟩)
    · rw [List.mem_singleton.1 hy] at hty ⊢
      have := hak hty
      exact .inr ⟨this.term, this.frm, this.src⟩
  · intro y hy hty
    rcases List.mem_append.1 hy with hy | hy
    · exact h0.qvk y hy hty
    · rw [List.mem_singleton.1 hy] at hty ⊢
      rw [sendFill_msgType] at hty
      exact .inr (hvk hty)
  · intro y hy hty
    rcases List.mem_append.1 hy with hy | hy
    · exact (h0.qrq y hy hty).imp (fun g => g) (fun g => ⟨g.term, g.last, g.lt⟩)
    · rw [List.mem_singleton.1 hy] at hty ⊢
      rw [sendFill_msgType] at hty
      have := hrq hty
      exact .inr ⟨this.term, this.last, this.lt⟩

/-- a message whose type is none of the tracked kinds -/
theorem send_g_plain {A : Nat → Nat → Nat → Prop} {a r r' : Raft} {m x : Message}
    (h : r.send x = .ok r') (h0 : G A a m r) (hlk : lkT x.msgType = false)
    (hak : x.msgType ≠ .msgAppendResponse ∨ x.reject = true)
    (hvk : isVoteMsg x.msgType = false) : G A a m r' := by
  have hrej : (r.sendFill x).reject = x.reject := by
    unfold sendFill; simp only; split <;> split <;> split <;> rfl
  refine send_g h h0 hlk (fun hc => ?_) (fun hc => by rw [hvk] at hc; cases hc) (fun hc => ?_)
  · rcases hak with g | g
    · exact absurd (by rw [← sendFill_msgType r x]; exact hc.1) g
    · have := hc.2; rw [hrej, g] at this; cases this
  · rw [hc] at hvk; cases hvk

/-- what `send` fills into an append response built without sender -/
theorem sendFill_ack (r : Raft) (x : Message) (ht : x.msgType = .msgAppendResponse)
    (hf : x.frm = 0) :
    (r.sendFill x).frm = r.id ∧ (r.sendFill x).term = r.term ∧ (r.sendFill x).index = x.index ∧
    (r.sendFill x).to = x.to ∧ (r.sendFill x).reject = x.reject := by
  unfold sendFill
  simp [ht, hf, isVoteMsg]

theorem akok_of_fill {m : Message} (r : Raft) (x : Message) (ht : x.msgType = .msgAppendResponse)
    (hf : x.frm = 0)
    (hsrc : x.index = 0 ∨ (r.state = .follower ∧ m.msgType = .msgAppend ∧ x.to = m.frm ∧
      (x.index ≤ r.raftLog.committed ∨ x.index = m.index + m.entries.length))) :
    AkOK m r (r.sendFill x) := by
  obtain ⟨f1, f2, f3, f4, _⟩ := sendFill_ack r x ht hf
  refine ⟨f2, f1, ?_⟩
  rw [f3, f4]; exact hsrc

theorem sendRequestSnapshot_g {A : Nat → Nat → Nat → Prop} {a r r' : Raft} {m : Message}
    (h : r.sendRequestSnapshot = .ok r') (h0 : G A a m r) : G A a m r' := by
  unfold Raft.sendRequestSnapshot at h
  simp only [] at h
  split at h
  · exact send_g_plain h h0 rfl (.inr rfl) rfl
  · cases h
  · cases h

/-- **`handle_append_entries`** on a follower, entered with nothing queued -/
theorem handleAppendEntries_g {A : Nat → Nat → Nat → Prop} {a r r' : Raft} {m : Message}
    (hs : r.state = .follower) (ho : Old a r) (hm : m.msgType = .msgAppend)
    (h : r.handleAppendEntries m = .ok r') (h0 : G A a m r) : G A a m r' := by
  unfold Raft.handleAppendEntries at h
  split at h
  · exact sendRequestSnapshot_g h h0
  · split at h
    · -- already committed beyond the anchor: acknowledge the commit index
      refine send_g h h0 rfl (fun _ => ?_) (fun hc => by cases hc) (fun hc => by cases hc)
      exact akok_of_fill r _ rfl rfl (.inr ⟨hs, hm, rfl, .inl (Nat.le_refl _)⟩)
    · split at h
      · cases h
      · cases h
      · rename_i log ci last hma
        simp only [] at h
        have hlast : last = m.index + m.entries.length := by
          rcases RaftLog.c04_maybeAppend_spec hma with ⟨hn, _⟩ | ⟨ci', hn, _⟩
          · cases hn
          · injection hn with hn; injection hn with _ hn
        have g1 : G A a m ({ r with raftLog := log } : Raft) :=
          G.of_old_nl ho h0.id (by rw [hs]; intro hc; cases hc)
        refine send_g h g1 rfl (fun _ => ?_) (fun hc => by cases hc) (fun hc => by cases hc)
        exact akok_of_fill _ _ rfl rfl (.inr ⟨hs, hm, rfl, .inr hlast⟩)
      · rename_i log hma
        simp only [] at h
        split at h
        · cases h
        · cases h
        · cases h
        · have g1 : G A a m ({ r with raftLog := log } : Raft) :=
            G.of_old_nl ho h0.id (by rw [hs]; intro hc; cases hc)
          exact send_g_plain h g1 rfl (.inr rfl) rfl

/-- **`handle_heartbeat`** on a follower, entered with nothing queued -/
theorem handleHeartbeat_g {A : Nat → Nat → Nat → Prop} {a r r' : Raft} {m : Message}
    (hs : r.state = .follower) (ho : Old a r)
    (h : r.handleHeartbeat m = .ok r') (h0 : G A a m r) : G A a m r' := by
  unfold Raft.handleHeartbeat at h
  split at h
  · cases h
  · cases h
  · rename_i log hc
    simp only [] at h
    have g1 : G A a m ({ r with raftLog := log } : Raft) :=
      G.of_old_nl ho h0.id (by rw [hs]; intro hc; cases hc)
    split at h
    · exact sendRequestSnapshot_g h g1
    · exact send_g_plain h g1 rfl (.inl (by intro hc; cases hc)) rfl

end CC
end Raft
end RaftModel
