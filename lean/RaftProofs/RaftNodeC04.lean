import RaftProofs.RaftNodeC16

/-!
Helper lemmas for C04 on the node model: what every function of `src/raft.rs` / `src/raft_log.rs`
does to the commit index `raft_log.committed`.

`CP P r` is `P r.raftLog.committed`.  A function that never touches the commit index satisfies the
*anchored* rule `f r = .ok r' → CP P r → CP P r'` for every `P` (so in particular the commit index
is unchanged: take `P := (· = c)`); a function that may commit satisfies it for the upward closed
`P := (c ≤ ·)` (the commit index does not decrease).
-/
namespace RaftModel

/-! ### `raft_log.rs`: the three writers of `committed` -/
namespace RaftLog

/-- `commit_to` (raft_log.rs:299): never decreases `committed`; raises it only to an index inside
the log, and touches nothing else -/
theorem c04_commitTo_spec {l l' : RaftLog} {c : Nat} (h : l.commitTo c = .ok l') :
    (c ≤ l.committed ∧ l' = l) ∨
    (l.committed < c ∧ c ≤ l.lastIndex ∧ l' = { l with committed := c }) := by
  unfold commitTo at h
  split at h
  · rename_i hc; cases h; exact Or.inl ⟨hc, rfl⟩
  · rename_i hc
    split at h
    · cases h
    · rename_i hl; cases h; exact Or.inr ⟨by omega, by omega, rfl⟩

theorem c04_commitTo_committed {l l' : RaftLog} {c : Nat} (h : l.commitTo c = .ok l') :
    l'.committed = max l.committed c := by
  rcases c04_commitTo_spec h with ⟨hc, rfl⟩ | ⟨hc, _, rfl⟩
  · exact (Nat.max_eq_left hc).symm
  · exact (Nat.max_eq_right (Nat.le_of_lt hc)).symm

/-- `maybe_commit` (raft_log.rs:525): commits `i` exactly when `i` is beyond the commit index, inside
the log, and the entry at `i` carries term `t` -/
theorem c04_maybeCommit_spec {l l' : RaftLog} {i t : Nat} {b : Bool}
    (h : l.maybeCommit i t = .ok (l', b)) :
    (b = true ∧ l.committed < i ∧ i ≤ l.lastIndex ∧ l.term i = .ok t ∧
      l' = { l with committed := i }) ∨
    (b = false ∧ l' = l) := by
  unfold maybeCommit at h
  split at h
  · rename_i hlt
    split at h
    · rename_i t' ht
      split at h
      · rename_i htt
        split at h
        · rename_i l1 hc
          cases h
          rcases c04_commitTo_spec hc with ⟨hc1, _⟩ | ⟨_, hc2, hc3⟩
          · omega
          · exact Or.inl ⟨rfl, hlt, hc2, by rw [ht, htt], hc3⟩
        · cases h
        · cases h
      · cases h; exact Or.inr ⟨rfl, rfl⟩
    · cases h; exact Or.inr ⟨rfl, rfl⟩
    · cases h
  · cases h; exact Or.inr ⟨rfl, rfl⟩

theorem c04_maybeCommit_le {l l' : RaftLog} {i t : Nat} {b : Bool}
    (h : l.maybeCommit i t = .ok (l', b)) : l.committed ≤ l'.committed := by
  rcases c04_maybeCommit_spec h with ⟨_, hlt, _, _, rfl⟩ | ⟨_, rfl⟩
  · exact Nat.le_of_lt hlt
  · exact Nat.le_refl _

/-- `RaftLog::restore` (raft_log.rs:688): the commit index becomes the snapshot index, which is not
below the old one (the `assert!`) -/
theorem c04_restore_committed {l l' : RaftLog} {sn : Snapshot} (h : l.restore sn = .ok l') :
    l'.committed = sn.metadata.index ∧ l.committed ≤ sn.metadata.index := by
  unfold restore at h
  split at h
  · cases h
  · rename_i hc; cases h; exact ⟨rfl, by omega⟩

/-- `append` (raft_log.rs:377) does not touch the commit index -/
theorem c04_append_committed {l l' : RaftLog} {es : List Entry} {n : Nat}
    (h : l.append es = .ok (l', n)) : l'.committed = l.committed := by
  unfold append at h
  split at h
  · cases h; rfl
  · split at h
    · cases h
    · split at h
      · cases h
      · split at h
        · cases h; rfl
        · cases h
        · cases h

theorem c04_appendConflict_committed {l l' : RaftLog} {idx ci : Nat} {es : List Entry}
    (h : l.appendConflict idx ci es = .ok l') : l'.committed = l.committed := by
  unfold appendConflict at h
  split at h
  · cases h
  · split at h
    · cases h
    · split at h
      · rename_i l1 n1 ha
        have := c04_append_committed ha
        cases h
        split
        · exact this
        · exact this
      · cases h
      · cases h

/-- `maybe_append` (raft_log.rs:262): a rejected append (`None`) leaves the log alone; an accepted
one returns `last_new = idx + |ents|` and commits `min(leader_commit, last_new)` through
`commit_to` -/
theorem c04_maybeAppend_spec {l l' : RaftLog} {idx term c : Nat} {ents : List Entry}
    {res : Option (Nat × Nat)} (h : l.maybeAppend idx term c ents = .ok (l', res)) :
    (res = none ∧ l' = l ∧ l.matchTerm idx term = .ok false) ∨
    (∃ ci, res = some (ci, idx + ents.length) ∧ l.matchTerm idx term = .ok true ∧
      l'.committed = max l.committed (min c (idx + ents.length))) := by
  unfold maybeAppend at h
  split at h
  · rename_i hm; cases h; exact Or.inl ⟨rfl, rfl, hm⟩
  · rename_i hm
    split at h
    · rename_i ci hfc
      simp only at h
      generalize hl1 : (if ci = 0 then Res.ok l
        else if ci ≤ l.committed then Res.panic "raft_log.maybe_append.conflict_committed"
        else l.appendConflict idx ci ents) = x1 at h
      cases x1 with
      | err e => cases h
      | panic s => cases h
      | ok l1 =>
        simp only at h
        have hc1 : l1.committed = l.committed := by
          split at hl1
          · cases hl1; rfl
          · split at hl1
            · cases hl1
            · exact c04_appendConflict_committed hl1
        split at h
        · rename_i l2 hl2
          cases h
          refine Or.inr ⟨ci, rfl, hm, ?_⟩
          rw [c04_commitTo_committed hl2, hc1]
        · cases h
        · cases h
    · cases h
    · cases h
  · cases h
  · cases h

end RaftLog

namespace Raft

/-- `P` holds of the commit index of `r` (a structure, so that the unifier never looks inside) -/
structure CP (P : Nat → Prop) (r : Raft) : Prop where
  h : P r.raftLog.committed

/-- any structure update that keeps `raft_log` keeps the commit index -/
theorem CP.mk' {P : Nat → Prop} {r : Raft} {x1 x2 x3 : Nat} {x4 : List ReadState} {x6 x7 x8 : Nat}
    {x9 : StateRole} {x10 : Bool} {x11 : Nat} {x12 : Option Nat} {x13 : Nat} {x14 : ReadOnly}
    {x15 x16 : Nat} {x17 x18 x19 x20 x21 : Bool} {x22 x23 x24 x25 x26 : Nat} {x27 : Int}
    {x28 : UncommittedState} {x29 : Nat} {x30 : ProgressTracker} {x31 : List Message}
    {x32 : Option Nat} (h0 : CP P r) :
    CP P { term := x1, vote := x2, id := x3, readStates := x4, raftLog := r.raftLog,
           maxInflight := x6, maxMsgSize := x7, pendingRequestSnapshot := x8, state := x9,
           promotable := x10, leaderId := x11, leadTransferee := x12, pendingConfIndex := x13,
           readOnly := x14, electionElapsed := x15, heartbeatElapsed := x16, checkQuorum := x17,
           preVote := x18, skipBcastCommit := x19, batchAppend := x20,
           disableProposalForwarding := x21, heartbeatTimeout := x22, electionTimeout := x23,
           randomizedElectionTimeout := x24, minElectionTimeout := x25, maxElectionTimeout := x26,
           priority := x27, uncommittedState := x28, maxCommittedSizePerReady := x29, prs := x30,
           msgs := x31, nextRand := x32 } := ⟨h0.h⟩

/-- … also when the other fields of `raft_log` change -/
theorem CP.mkLog {P : Nat → Prop} {r : Raft} {x1 x2 x3 : Nat} {x4 : List ReadState} {x6 x7 x8 : Nat}
    {x9 : StateRole} {x10 : Bool} {x11 : Nat} {x12 : Option Nat} {x13 : Nat} {x14 : ReadOnly}
    {x15 x16 : Nat} {x17 x18 x19 x20 x21 : Bool} {x22 x23 x24 x25 x26 : Nat} {x27 : Int}
    {x28 : UncommittedState} {x29 : Nat} {x30 : ProgressTracker} {x31 : List Message}
    {x32 : Option Nat} {y1 : MemStorage} {y2 : Unstable} {y3 y4 y5 : Nat} (h0 : CP P r) :
    CP P { term := x1, vote := x2, id := x3, readStates := x4,
           raftLog := { store := y1, unstable := y2, committed := r.raftLog.committed,
                        persisted := y3, applied := y4, maxApplyUnpersistedLogLimit := y5 },
           maxInflight := x6, maxMsgSize := x7, pendingRequestSnapshot := x8, state := x9,
           promotable := x10, leaderId := x11, leadTransferee := x12, pendingConfIndex := x13,
           readOnly := x14, electionElapsed := x15, heartbeatElapsed := x16, checkQuorum := x17,
           preVote := x18, skipBcastCommit := x19, batchAppend := x20,
           disableProposalForwarding := x21, heartbeatTimeout := x22, electionTimeout := x23,
           randomizedElectionTimeout := x24, minElectionTimeout := x25, maxElectionTimeout := x26,
           priority := x27, uncommittedState := x28, maxCommittedSizePerReady := x29, prs := x30,
           msgs := x31, nextRand := x32 } := ⟨h0.h⟩

theorem CP.of_eq {P : Nat → Prop} {r r' : Raft} (h : r'.raftLog.committed = r.raftLog.committed)
    (h0 : CP P r) : CP P r' := ⟨by rw [h]; exact h0.h⟩

theorem CP.le_of_le {c : Nat} {r r' : Raft} (h : r.raftLog.committed ≤ r'.raftLog.committed)
    (h0 : CP (fun x => c ≤ x) r) : CP (fun x => c ≤ x) r' := ⟨Nat.le_trans h0.h h⟩

/-- decompose `h : f … = .ok …`, then chain the anchored lemmas in the list -/
macro "c04_auto" h:ident "[" ls:Lean.Parser.Tactic.SolveByElim.arg,* "]" : tactic =>
  `(tactic| (frame_dec $h:ident <;> (try injections) <;> (try subst_vars) <;>
      (solve_by_elim (maxDepth := 14) only [*, $ls,*, CP.mk'])))

/-! ### sending: the commit index is untouched -/

theorem send_cp {P : Nat → Prop} {r r' : Raft} {m : Message} (h : r.send m = .ok r')
    (h0 : CP P r) : CP P r' := by
  rw [send_eq r r' m h]; exact ⟨h0.h⟩

theorem prepareSendSnapshot_cp {P : Nat → Prop} {r r' : Raft} {m m' : Message} {pr pr' : Progress}
    {to : Nat} {b : Bool} (h : r.prepareSendSnapshot m pr to = .ok (r', m', pr', b))
    (h0 : CP P r) : CP P r' := by
  unfold Raft.prepareSendSnapshot at h
  have hs : ∀ i, (r.raftLog.snapshot i).1.committed = r.raftLog.committed := by
    intro i
    unfold RaftLog.snapshot
    split
    · split
      · rfl
      · rfl
    · rfl
  split at h
  · cases h; exact h0
  · simp only at h
    split at h
    · cases h; exact CP.of_eq (hs _) h0
    · cases h
    · cases h
    · split at h
      · cases h
      · cases h; exact CP.of_eq (hs _) h0

theorem tryBatching_cp {P : Nat → Prop} {r r' : Raft} {to : Nat} {pr pr' : Progress}
    {ents : List Entry} {b : Bool} (h : r.tryBatching to pr ents = .ok (r', pr', b))
    (h0 : CP P r) : CP P r' := by
  unfold Raft.tryBatching at h
  c04_auto h [send_cp]

theorem maybeSendAppend_cp {P : Nat → Prop} {r r' : Raft} {to : Nat} {pr pr' : Progress}
    {ae b : Bool} (h : r.maybeSendAppend to pr ae = .ok (r', pr', b)) (h0 : CP P r) :
    CP P r' := by
  unfold Raft.maybeSendAppend at h
  c04_auto h [send_cp, prepareSendSnapshot_cp, tryBatching_cp]

theorem sendAppendPr_cp {P : Nat → Prop} {r r' : Raft} {to : Nat} {pr pr' : Progress}
    (h : r.sendAppendPr to pr = .ok (r', pr')) (h0 : CP P r) : CP P r' := by
  unfold Raft.sendAppendPr at h
  c04_auto h [maybeSendAppend_cp]

theorem sendAppendAggressivelyPr_cp {P : Nat → Prop} {r' : Raft} {to : Nat} {pr' : Progress} :
    ∀ (fuel : Nat) (r : Raft) (pr : Progress),
      sendAppendAggressivelyPr fuel r to pr = .ok (r', pr') → CP P r → CP P r' := by
  intro fuel
  induction fuel with
  | zero => intro r pr h; simp [sendAppendAggressivelyPr] at h
  | succ n ih =>
    intro r pr h h0
    unfold sendAppendAggressivelyPr at h
    split at h
    · rename_i r1 pr1 hm
      exact ih r1 pr1 h (maybeSendAppend_cp hm h0)
    · rename_i r1 pr1 hm
      cases h; exact maybeSendAppend_cp hm h0
    · cases h
    · cases h

theorem sendHeartbeat_cp {P : Nat → Prop} {r r' : Raft} {to : Nat} {pr : Progress}
    {ctx : Option Bytes} (h : r.sendHeartbeat to pr ctx = .ok r') (h0 : CP P r) : CP P r' := by
  unfold Raft.sendHeartbeat at h
  exact send_cp h h0

theorem sendAppend_cp {P : Nat → Prop} {r r' : Raft} {to : Nat}
    (h : r.sendAppend to = .ok r') (h0 : CP P r) : CP P r' := by
  unfold Raft.sendAppend at h
  c04_auto h [sendAppendPr_cp]

theorem sendAppendAggressively_cp {P : Nat → Prop} {r r' : Raft} {to : Nat}
    (h : r.sendAppendAggressively to = .ok r') (h0 : CP P r) : CP P r' := by
  unfold Raft.sendAppendAggressively at h
  c04_auto h [sendAppendAggressivelyPr_cp]

theorem sendTimeoutNow_cp {P : Nat → Prop} {r r' : Raft} {to : Nat}
    (h : r.sendTimeoutNow to = .ok r') (h0 : CP P r) : CP P r' := by
  unfold Raft.sendTimeoutNow at h
  exact send_cp h h0

theorem foldl_cp {α : Type} {P : Nat → Prop} {r' : Raft} (step : Res Raft → α → Res Raft)
    (hstep : ∀ acc x r1, step acc x = .ok r1 → ∃ r0, acc = .ok r0 ∧ (CP P r0 → CP P r1)) :
    ∀ (l : List α) (acc : Res Raft), l.foldl step acc = .ok r' →
      (∀ r, acc = .ok r → CP P r) → CP P r' := by
  intro l
  induction l with
  | nil => intro acc h h0; exact h0 r' h
  | cons x rest ih =>
    intro acc h h0
    simp only [List.foldl_cons] at h
    refine ih (step acc x) h ?_
    intro r1 h1
    obtain ⟨r0, e0, hf⟩ := hstep acc x r1 h1
    exact hf (h0 r0 e0)

theorem forEachPeer_cp {P : Nat → Prop} {r r' : Raft}
    {f : Raft → Nat → Progress → Res (Raft × Progress)}
    (hf : ∀ r id pr r' pr', f r id pr = .ok (r', pr') → CP P r → CP P r')
    (h : r.forEachPeer f = .ok r') (h0 : CP P r) : CP P r' := by
  unfold Raft.forEachPeer at h
  refine foldl_cp _ ?_ _ _ h (by intro r1 e; cases e; exact h0)
  intro acc id r1 h1
  cases acc with
  | err e => cases h1
  | panic s => cases h1
  | ok r0 =>
    refine ⟨r0, rfl, fun h0 => ?_⟩
    change (if id = r0.id then Res.ok r0 else _) = _ at h1
    c04_auto h1 [hf]

theorem bcastAppend_cp {P : Nat → Prop} {r r' : Raft} (h : r.bcastAppend = .ok r')
    (h0 : CP P r) : CP P r' := by
  unfold Raft.bcastAppend at h
  exact forEachPeer_cp (fun r id pr r' pr' h => sendAppendPr_cp h) h h0

theorem bcastHeartbeatWithCtx_cp {P : Nat → Prop} {r r' : Raft} {ctx : Option Bytes}
    (h : r.bcastHeartbeatWithCtx ctx = .ok r') (h0 : CP P r) : CP P r' := by
  unfold Raft.bcastHeartbeatWithCtx at h
  refine forEachPeer_cp (fun r id pr r' pr' h h0 => ?_) h h0
  c04_auto h [sendHeartbeat_cp]

theorem bcastHeartbeat_cp {P : Nat → Prop} {r r' : Raft} (h : r.bcastHeartbeat = .ok r')
    (h0 : CP P r) : CP P r' := by
  unfold Raft.bcastHeartbeat at h
  exact bcastHeartbeatWithCtx_cp h h0

/-! ### commit, append, read index -/

theorem modifyProgress_cp {P : Nat → Prop} {r : Raft} {id : Nat} {f : Progress → Progress}
    (h0 : CP P r) : CP P (r.modifyProgress id f) := ⟨h0.h⟩

theorem mapProgress_cp {P : Nat → Prop} {r : Raft} {f : Nat → Progress → Progress}
    (h0 : CP P r) : CP P (r.mapProgress f) := ⟨h0.h⟩

/-- `Raft::maybe_commit` (raft.rs:939), exactly: the tracker's `maximal_committed_index` is handed to
`RaftLog::maybe_commit` with the node's *current term*; on success only `committed` (and the
leader's own `committed_index` book-keeping) change -/
theorem maybeCommit_spec {r r' : Raft} {b : Bool} (h : r.maybeCommit = .ok (r', b)) :
    ∃ mci gc, r.prs.maximalCommittedIndex = .ok (mci, gc) ∧
      ((b = true ∧ r.raftLog.committed < mci ∧ mci ≤ r.raftLog.lastIndex ∧
          r.raftLog.term mci = .ok r.term ∧
          r' = ({ r with raftLog := { r.raftLog with committed := mci } } : Raft).modifyProgress r.id
                 (fun pr => pr.updateCommitted mci)) ∨
       (b = false ∧ r' = r)) := by
  unfold Raft.maybeCommit at h
  split at h
  · cases h
  · cases h
  · rename_i mci gc hm
    refine ⟨mci, gc, hm, ?_⟩
    split at h
    · cases h
    · cases h
    · rename_i log hl
      cases h
      rcases RaftLog.c04_maybeCommit_spec hl with ⟨_, h1, h2, h3, rfl⟩ | ⟨hb, _⟩
      · exact Or.inl ⟨rfl, h1, h2, h3, rfl⟩
      · cases hb
    · rename_i log hl
      cases h
      exact Or.inr ⟨rfl, rfl⟩

theorem maybeCommit_cle {c : Nat} {r r' : Raft} {b : Bool} (h : r.maybeCommit = .ok (r', b))
    (h0 : CP (fun x => c ≤ x) r) : CP (fun x => c ≤ x) r' := by
  obtain ⟨mci, gc, _, h1 | h1⟩ := maybeCommit_spec h
  · obtain ⟨_, hlt, _, _, rfl⟩ := h1
    exact ⟨Nat.le_trans h0.h (Nat.le_of_lt hlt)⟩
  · obtain ⟨_, rfl⟩ := h1; exact h0

theorem maybeIncreaseUncommittedSize_cp {P : Nat → Prop} {r r' : Raft} {es : List Entry} {b : Bool}
    (h : r.maybeIncreaseUncommittedSize es = (r', b)) (h0 : CP P r) : CP P r' := by
  unfold Raft.maybeIncreaseUncommittedSize at h
  split at h
  cases h
  exact ⟨h0.h⟩

/-- `append_entry` (raft.rs:1043) only appends: the commit index and the whole tracker are
untouched -/
theorem appendEntry_spec {r r' : Raft} {es : List Entry} {b : Bool}
    (h : r.appendEntry es = .ok (r', b)) :
    r'.raftLog.committed = r.raftLog.committed ∧ r'.prs = r.prs ∧ r'.id = r.id ∧
    r'.term = r.term ∧ r'.state = r.state := by
  unfold Raft.appendEntry at h
  split at h
  · cases h; exact ⟨rfl, rfl, rfl, rfl, rfl⟩
  · rename_i r1 hm
    have e1 : r1 = { r with uncommittedState := r1.uncommittedState } := by
      unfold Raft.maybeIncreaseUncommittedSize at hm
      split at hm
      cases hm; rfl
    simp only at h
    split at h
    · rename_i log n ha
      cases h
      have := RaftLog.c04_append_committed ha
      rw [e1] at this ⊢
      exact ⟨this, rfl, rfl, rfl, rfl⟩
    · cases h
    · cases h

theorem appendEntry_cp {P : Nat → Prop} {r r' : Raft} {es : List Entry} {b : Bool}
    (h : r.appendEntry es = .ok (r', b)) (h0 : CP P r) : CP P r' :=
  CP.of_eq (appendEntry_spec h).1 h0

theorem handleReadyReadIndex_cp {P : Nat → Prop} {r r' : Raft} {req : Message} {i : Nat}
    {om : Option Message} (h : r.handleReadyReadIndex req i = .ok (r', om)) (h0 : CP P r) :
    CP P r' := by
  unfold Raft.handleReadyReadIndex at h
  c04_auto h [send_cp]

theorem respondReadStates_cp {P : Nat → Prop} {r r' : Raft} {rss : List ReadIndexStatus}
    (h : r.respondReadStates rss = .ok r') (h0 : CP P r) : CP P r' := by
  unfold Raft.respondReadStates at h
  refine foldl_cp _ ?_ _ _ h (by intro r1 e; cases e; exact h0)
  intro acc rs r1 h1
  cases acc with
  | err e => cases h1
  | panic s => cases h1
  | ok r0 =>
    refine ⟨r0, rfl, fun h0 => ?_⟩
    change (r0.handleReadyReadIndex rs.req rs.index).bind _ = _ at h1
    c04_auto h1 [handleReadyReadIndex_cp, send_cp]

/-! ### leader side -/

theorem checkQuorumActive_cp {P : Nat → Prop} {r r' : Raft} {b : Bool}
    (h : r.checkQuorumActive = (r', b)) (h0 : CP P r) : CP P r' := by
  unfold Raft.checkQuorumActive at h
  split at h
  cases h
  exact ⟨h0.h⟩

theorem handleAppendResponseAccepted_cle {c : Nat} {r r' : Raft} {m : Message} {pr : Progress}
    {op : Bool} (h : r.handleAppendResponseAccepted m pr op = .ok r')
    (h0 : CP (fun x => c ≤ x) r) : CP (fun x => c ≤ x) r' := by
  unfold Raft.handleAppendResponseAccepted at h
  c04_auto h [maybeCommit_cle, bcastAppend_cp, sendAppend_cp, sendAppendAggressively_cp,
    sendTimeoutNow_cp]

theorem handleAppendResponse_cle {c : Nat} {r r' : Raft} {m : Message}
    (h : r.handleAppendResponse m = .ok r') (h0 : CP (fun x => c ≤ x) r) :
    CP (fun x => c ≤ x) r' := by
  unfold Raft.handleAppendResponse at h
  c04_auto h [handleAppendResponseAccepted_cle, sendAppend_cp]

theorem handleHeartbeatResponse_cp {P : Nat → Prop} {r r' : Raft} {m : Message}
    (h : r.handleHeartbeatResponse m = .ok r') (h0 : CP P r) : CP P r' := by
  unfold Raft.handleHeartbeatResponse at h
  c04_auto h [sendAppendPr_cp, respondReadStates_cp]

theorem handleTransferLeader_cp {P : Nat → Prop} {r r' : Raft} {m : Message}
    (h : r.handleTransferLeader m = .ok r') (h0 : CP P r) : CP P r' := by
  unfold Raft.handleTransferLeader at h
  repeat' (first | split at h | (simp only at h; split at h))
  all_goals c04_auto h [sendTimeoutNow_cp, sendAppendPr_cp]

theorem handleSnapshotStatus_cp {P : Nat → Prop} {r : Raft} {m : Message} (h0 : CP P r) :
    CP P (r.handleSnapshotStatus m) := by
  unfold Raft.handleSnapshotStatus
  split
  · exact h0
  · split
    · exact h0
    · exact ⟨h0.h⟩

theorem handleUnreachable_cp {P : Nat → Prop} {r : Raft} {m : Message} (h0 : CP P r) :
    CP P (r.handleUnreachable m) := by
  unfold Raft.handleUnreachable
  split
  · exact h0
  · split
    · exact ⟨h0.h⟩
    · exact h0

theorem filterProposalEntry_cp {P : Nat → Prop} {r r' : Raft} {i : Nat} {e e' : Entry}
    (h : r.filterProposalEntry i e = some (r', e')) (h0 : CP P r) : CP P r' := by
  unfold Raft.filterProposalEntry at h
  c04_auto h [send_cp]

theorem filterProposal_cp {P : Nat → Prop} : ∀ (es : List Entry) (r r' : Raft) (i : Nat)
    (oes : Option (List Entry)), r.filterProposal i es = (r', oes) → CP P r → CP P r' := by
  intro es
  induction es with
  | nil => intro r r' i oes h h0; simp [Raft.filterProposal] at h; rw [← h.1]; exact h0
  | cons e es ih =>
    intro r r' i oes h h0
    unfold Raft.filterProposal at h
    split at h
    · cases h; exact h0
    · rename_i r1 e1 h1
      have h2 := filterProposalEntry_cp h1 h0
      split at h
      · rename_i r2 es2 h3
        cases h; exact ih _ _ _ _ h3 h2
      · rename_i r2 h3
        cases h; exact ih _ _ _ _ h3 h2

/-! ### role changes -/

theorem reset_raftLog (r : Raft) (t : Nat) : (r.reset t).raftLog = r.raftLog := by
  unfold Raft.reset
  simp only [Raft.mapProgress, Raft.abortLeaderTransfer, Raft.resetRandomizedElectionTimeout]
  split <;> rfl

theorem reset_cp {P : Nat → Prop} {r : Raft} {t : Nat} (h0 : CP P r) : CP P (r.reset t) := by
  exact CP.of_eq (by rw [reset_raftLog]) h0

theorem becomeFollower_committed (r : Raft) (t l : Nat) :
    (r.becomeFollower t l).raftLog.committed = r.raftLog.committed := by
  unfold Raft.becomeFollower
  simp only [reset_raftLog]

theorem becomeFollower_raftLog (r : Raft) (t l : Nat) :
    (r.becomeFollower t l).raftLog = { r.raftLog with maxApplyUnpersistedLogLimit := 0 } := by
  unfold Raft.becomeFollower
  simp only [reset_raftLog]

/-- the log queries do not read `max_apply_unpersisted_log_limit` -/
theorem c04_log_limit_irrelevant (l : RaftLog) (n : Nat) :
    (∀ i, ({ l with maxApplyUnpersistedLogLimit := n } : RaftLog).term i = l.term i) ∧
    (∀ i t, ({ l with maxApplyUnpersistedLogLimit := n } : RaftLog).matchTerm i t = l.matchTerm i t) ∧
    ({ l with maxApplyUnpersistedLogLimit := n } : RaftLog).lastIndex = l.lastIndex :=
  ⟨fun _ => rfl, fun _ _ => rfl, rfl⟩

theorem becomeFollower_cp {P : Nat → Prop} {r : Raft} {t l : Nat} (h0 : CP P r) :
    CP P (r.becomeFollower t l) := CP.of_eq (becomeFollower_committed r t l) h0

/- from here on the unifier must not look inside `reset` / `become_follower` (it would, when
`solve_by_elim` tries `becomeFollower_cp` against a structure update) -/
seal Raft.reset Raft.becomeFollower

theorem becomeCandidate_cp {P : Nat → Prop} {r r' : Raft} (h : r.becomeCandidate = .ok r')
    (h0 : CP P r) : CP P r' := by
  unfold Raft.becomeCandidate at h
  frame_dec h
  exact CP.mk' (reset_cp h0)

theorem becomePreCandidate_cp {P : Nat → Prop} {r r' : Raft} (h : r.becomePreCandidate = .ok r')
    (h0 : CP P r) : CP P r' := by
  unfold Raft.becomePreCandidate at h
  c04_auto h [reset_cp]

theorem becomeLeader_cp {P : Nat → Prop} {r r' : Raft} (h : r.becomeLeader = .ok r')
    (h0 : CP P r) : CP P r' := by
  unfold Raft.becomeLeader at h
  c04_auto h [reset_cp, appendEntry_cp]

/-! ### campaigning: the commit index is untouched -/

theorem sendVoteRequests_cp {P : Nat → Prop} {r r' : Raft} {ct : CampaignType} {vm : MsgType}
    {t : Nat} (h : r.sendVoteRequests ct vm t = .ok r') (h0 : CP P r) : CP P r' := by
  unfold Raft.sendVoteRequests at h
  split at h
  · cases h
  · cases h
  · split at h
    · cases h
    · cases h
    · refine foldl_cp _ ?_ _ _ h (by intro r1 e; cases e; exact h0)
      intro acc id r1 h1
      cases acc with
      | err e => cases h1
      | panic s => cases h1
      | ok r0 =>
        refine ⟨r0, rfl, fun h0 => ?_⟩
        change (if id = r0.id then Res.ok r0 else _) = _ at h1
        c04_auto h1 [send_cp]

theorem pollWith_cp {P : Nat → Prop} {onPreWin : Raft → Res Raft}
    (hp : ∀ r r', onPreWin r = .ok r' → CP P r → CP P r')
    {r r' : Raft} {frm : Nat} {t : MsgType} {v : Bool} {res : VoteResult}
    (h : pollWith onPreWin r frm t v = .ok (r', res)) (h0 : CP P r) : CP P r' := by
  unfold Raft.pollWith at h
  c04_auto h [hp, becomeLeader_cp, bcastAppend_cp, becomeFollower_cp]

theorem campaignWith_cp {P : Nat → Prop}
    {poll : Raft → Nat → MsgType → Bool → Res (Raft × VoteResult)}
    (hp : ∀ r f t v r' res, poll r f t v = .ok (r', res) → CP P r → CP P r')
    {r r' : Raft} {ct : CampaignType} (h : campaignWith poll r ct = .ok r') (h0 : CP P r) :
    CP P r' := by
  unfold Raft.campaignWith at h
  simp only at h
  obtain ⟨⟨r1, vm, t⟩, hs, h⟩ := Res.bind_eq_ok h
  have h1 : CP P r1 := by
    c04_auto hs [becomePreCandidate_cp, becomeCandidate_cp]
  obtain ⟨⟨r2, res⟩, hp2, h⟩ := Res.bind_eq_ok h
  have h2 := hp _ _ _ _ _ _ hp2 h1
  c04_auto h [sendVoteRequests_cp]

theorem campaignAfterPreVote_cp {P : Nat → Prop} {r r' : Raft}
    (h : r.campaignAfterPreVote = .ok r') (h0 : CP P r) : CP P r' := by
  unfold Raft.campaignAfterPreVote at h
  refine campaignWith_cp (fun r f t v r' res hh => pollWith_cp ?_ hh) h h0
  intro r r' hh; cases hh

theorem poll_cp {P : Nat → Prop} {r r' : Raft} {frm : Nat} {t : MsgType} {v : Bool}
    {res : VoteResult} (h : r.poll frm t v = .ok (r', res)) (h0 : CP P r) : CP P r' := by
  unfold Raft.poll at h
  exact pollWith_cp (fun _ _ hh => campaignAfterPreVote_cp hh) h h0

theorem campaign_cp {P : Nat → Prop} {r r' : Raft} {ct : CampaignType}
    (h : r.campaign ct = .ok r') (h0 : CP P r) : CP P r' := by
  unfold Raft.campaign at h
  exact campaignWith_cp (fun _ _ _ _ _ _ hh => poll_cp hh) h h0

theorem hup_cp {P : Nat → Prop} {r r' : Raft} {b : Bool} (h : r.hup b = .ok r') (h0 : CP P r) :
    CP P r' := by
  unfold Raft.hup at h
  c04_auto h [campaign_cp]

/-! ### follower side -/

/-- `maybe_commit_by_vote` (raft.rs:2248): the commit index moves only to `m.commit`, only on a
non-leader, and only when the local entry at `m.commit` carries `m.commit_term` -/
theorem maybeCommitByVote_spec {r r' : Raft} {m : Message} (h : r.maybeCommitByVote m = .ok r') :
    r'.raftLog.committed = r.raftLog.committed ∨
    (r.state ≠ .leader ∧ m.commitTerm ≠ 0 ∧ r.raftLog.committed < m.commit ∧
      m.commit ≤ r.raftLog.lastIndex ∧ r.raftLog.term m.commit = .ok m.commitTerm ∧
      r'.raftLog.committed = m.commit) := by
  unfold Raft.maybeCommitByVote at h
  split at h
  · cases h; exact Or.inl rfl
  · rename_i hz
    simp only at h
    split at h
    · cases h; exact Or.inl rfl
    · rename_i hl
      split at h
      · cases h
      · cases h
      · cases h; exact Or.inl rfl
      · rename_i log hm
        rcases RaftLog.c04_maybeCommit_spec hm with ⟨_, h1, h2, h3, rfl⟩ | ⟨hb, _⟩
        · have key : r.state ≠ .leader ∧ m.commitTerm ≠ 0 ∧ r.raftLog.committed < m.commit ∧
              m.commit ≤ r.raftLog.lastIndex ∧ r.raftLog.term m.commit = .ok m.commitTerm :=
            ⟨fun e => hl (Or.inr e), fun e => hz (Or.inr e), h1, h2, h3⟩
          split at h
          · cases h; exact Or.inr ⟨key.1, key.2.1, key.2.2.1, key.2.2.2.1, key.2.2.2.2, rfl⟩
          · split at h
            · cases h
            · cases h
            · cases h
              exact Or.inr ⟨key.1, key.2.1, key.2.2.1, key.2.2.2.1, key.2.2.2.2,
                becomeFollower_committed _ _ _⟩
            · cases h; exact Or.inr ⟨key.1, key.2.1, key.2.2.1, key.2.2.2.1, key.2.2.2.2, rfl⟩
        · cases hb

theorem maybeCommitByVote_cle {c : Nat} {r r' : Raft} {m : Message}
    (h : r.maybeCommitByVote m = .ok r') (h0 : CP (fun x => c ≤ x) r) :
    CP (fun x => c ≤ x) r' := by
  rcases maybeCommitByVote_spec h with e | ⟨_, _, hlt, _, _, e⟩
  · exact CP.of_eq e h0
  · exact CP.le_of_le (by omega) h0

theorem sendRequestSnapshot_cp {P : Nat → Prop} {r r' : Raft} (h : r.sendRequestSnapshot = .ok r')
    (h0 : CP P r) : CP P r' := by
  unfold Raft.sendRequestSnapshot at h
  c04_auto h [send_cp]

/-- `handle_append_entries` (raft.rs:2528): the commit index moves only when the append matched
(`maybe_append` returned `Some`), and then to `min(m.commit, m.index + |entries|)` -/
theorem handleAppendEntries_spec {r r' : Raft} {m : Message}
    (h : r.handleAppendEntries m = .ok r') :
    r'.raftLog.committed = r.raftLog.committed ∨
    (r.pendingRequestSnapshot = 0 ∧ r.raftLog.committed ≤ m.index ∧
      r.raftLog.matchTerm m.index m.logTerm = .ok true ∧
      r.raftLog.committed < r'.raftLog.committed ∧
      r'.raftLog.committed = min m.commit (m.index + m.entries.length)) := by
  unfold Raft.handleAppendEntries at h
  split at h
  · exact Or.inl (sendRequestSnapshot_cp (P := fun x => x = r.raftLog.committed) h ⟨rfl⟩).h
  · rename_i hp
    split at h
    · exact Or.inl (send_cp (P := fun x => x = r.raftLog.committed) h ⟨rfl⟩).h
    · rename_i hi
      split at h
      · cases h
      · cases h
      · rename_i log ci last hm
        have e1 := (send_cp (P := fun x => x = log.committed) h ⟨rfl⟩).h
        rcases RaftLog.c04_maybeAppend_spec hm with ⟨hn, _⟩ | ⟨ci', _, hmt, hc⟩
        · cases hn
        · by_cases hle : min m.commit (m.index + m.entries.length) ≤ r.raftLog.committed
          · left; rw [e1, hc]; exact Nat.max_eq_left hle
          · right
            have : log.committed = min m.commit (m.index + m.entries.length) := by
              rw [hc]; exact Nat.max_eq_right (by omega)
            exact ⟨by simpa using hp, by omega, hmt, by rw [e1, this]; omega, by rw [e1, this]⟩
      · rename_i log hm
        rcases RaftLog.c04_maybeAppend_spec hm with ⟨_, rfl, _⟩ | ⟨ci', hn, _⟩
        · simp only at h
          split at h
          · cases h
          · cases h
          · cases h
          · exact Or.inl (send_cp (P := fun x => x = r.raftLog.committed) h ⟨rfl⟩).h
        · cases hn

theorem handleAppendEntries_cle {c : Nat} {r r' : Raft} {m : Message}
    (h : r.handleAppendEntries m = .ok r') (h0 : CP (fun x => c ≤ x) r) :
    CP (fun x => c ≤ x) r' := by
  rcases handleAppendEntries_spec h with e | ⟨_, _, _, hlt, _⟩
  · exact CP.of_eq e h0
  · exact CP.le_of_le (Nat.le_of_lt hlt) h0

/-- `handle_heartbeat` (raft.rs:2591): `commit_to(m.commit)`; it panics when `m.commit` is beyond
the log -/
theorem handleHeartbeat_spec {r r' : Raft} {m : Message} (h : r.handleHeartbeat m = .ok r') :
    r'.raftLog.committed = max r.raftLog.committed m.commit ∧
    (r.raftLog.committed < m.commit → m.commit ≤ r.raftLog.lastIndex) := by
  unfold Raft.handleHeartbeat at h
  split at h
  · cases h
  · cases h
  · rename_i log hc
    simp only at h
    have e1 : r'.raftLog.committed = log.committed := by
      split at h
      · exact (sendRequestSnapshot_cp (P := fun x => x = log.committed) h ⟨rfl⟩).h
      · exact (send_cp (P := fun x => x = log.committed) h ⟨rfl⟩).h
    refine ⟨by rw [e1, RaftLog.c04_commitTo_committed hc], fun hlt => ?_⟩
    rcases RaftLog.c04_commitTo_spec hc with ⟨h1, _⟩ | ⟨_, h2, _⟩
    · omega
    · exact h2

theorem handleHeartbeat_cle {c : Nat} {r r' : Raft} {m : Message}
    (h : r.handleHeartbeat m = .ok r') (h0 : CP (fun x => c ≤ x) r) :
    CP (fun x => c ≤ x) r' :=
  CP.le_of_le (by rw [(handleHeartbeat_spec h).1]; exact Nat.le_max_left _ _) h0

/-- away from the leader role `post_conf_change` only recomputes `promotable` -/
theorem postConfChange_nonleader_cp {P : Nat → Prop} {r r' : Raft} {cs : ConfState}
    (hs : r.state ≠ .leader) (h : r.postConfChange = .ok (r', cs)) (h0 : CP P r) : CP P r' := by
  unfold Raft.postConfChange at h
  have hb : (r.state == StateRole.leader) = false := by
    cases hst : r.state <;> simp_all
  simp only [hb, Bool.and_false, hs, ne_eq, not_false_eq_true, true_or, if_true, if_false,
    Bool.false_eq_true] at h
  c04_auto h [send_cp]

/-- `post_conf_change` (raft.rs:2743) on any node: the commit index does not decrease (a leader
re-evaluates `maybe_commit` under the new configuration) -/
theorem postConfChange_cle {c : Nat} {r r' : Raft} {cs : ConfState}
    (h : r.postConfChange = .ok (r', cs)) (h0 : CP (fun x => c ≤ x) r) :
    CP (fun x => c ≤ x) r' := by
  unfold Raft.postConfChange at h
  simp only at h
  split at h
  · cases h; exact becomeFollower_cp (CP.mk' h0)
  · split at h
    · cases h; exact CP.mk' h0
    · obtain ⟨r1, hr1, h⟩ := Res.bind_eq_ok h
      have h1 : CP (fun x => c ≤ x) r1 := by
        split at hr1
        · rename_i r3 hm
          exact bcastAppend_cp hr1 (maybeCommit_cle hm (CP.mk' h0))
        · rename_i r3 hm
          refine forEachPeer_cp ?_ hr1 (maybeCommit_cle hm (CP.mk' h0))
          intro r id pr r' pr' hh hh0
          c04_auto hh [maybeSendAppend_cp]
        · cases hr1
        · cases hr1
      obtain ⟨r2, hr2, h⟩ := Res.bind_eq_ok h
      have h2 : CP (fun x => c ≤ x) r2 := by
        c04_auto hr2 [respondReadStates_cp]
      c04_auto h [send_cp]

/-- `Raft::restore` (raft.rs:2640), what it does to the commit index: nothing, or (on a follower,
for a snapshot not below the commit index) it moves it to the snapshot index — by the fast-forward
`commit_to` when the log already holds the snapshot's last entry (`match_term`; result `false`), or
by the full `RaftLog::restore` (result `true`) -/
theorem restore_spec {r r' : Raft} {snap : Snapshot} {b : Bool}
    (h : r.restore snap = .ok (r', b)) :
    (b = false ∧ r'.raftLog.committed = r.raftLog.committed) ∨
    (r.state = .follower ∧ r.raftLog.committed ≤ snap.metadata.index ∧
      r'.raftLog.committed = snap.metadata.index ∧
      (b = false → r.raftLog.matchTerm snap.metadata.index snap.metadata.term = .ok true ∧
        snap.metadata.index ≤ r.raftLog.lastIndex)) := by
  unfold Raft.restore at h
  simp only at h
  split at h
  · cases h; exact Or.inl ⟨rfl, rfl⟩
  · rename_i hge
    split at h
    · split at h
      · cases h
      · cases h; exact Or.inl ⟨rfl, becomeFollower_committed _ _ _⟩
    · rename_i hst
      have hf : r.state = .follower := by
        apply Classical.byContradiction; intro hc; exact hst hc
      split at h
      · cases h; exact Or.inl ⟨rfl, rfl⟩
      · split at h
        · cases h
        · cases h
        · rename_i hff
          have hmt : r.raftLog.matchTerm snap.metadata.index snap.metadata.term = .ok true := by
            split at hff
            · split at hff
              · rename_i b1 hb1; cases hff; exact hb1
              · cases hff
              · cases hff
            · cases hff
          split at h
          · rename_i log hc
            cases h
            by_cases hlt : r.raftLog.committed < snap.metadata.index
            · right
              rcases RaftLog.c04_commitTo_spec hc with ⟨h1, _⟩ | ⟨_, h2, rfl⟩
              · omega
              · exact ⟨hf, by omega, rfl, fun _ => ⟨hmt, h2⟩⟩
            · left
              refine ⟨rfl, ?_⟩
              show log.committed = _
              rw [RaftLog.c04_commitTo_committed hc]
              exact Nat.max_eq_left (by omega)
          · cases h
          · cases h
        · split at h
          · cases h
          · cases h
          · rename_i log hl
            obtain ⟨hc1, hc2⟩ := RaftLog.c04_restore_committed hl
            split at h
            · cases h
            · rename_i prs hprs
              obtain ⟨⟨r1, cs1⟩, hpc, h⟩ := Res.bind_eq_ok h
              have e1 : r1.raftLog.committed = log.committed :=
                (postConfChange_nonleader_cp (P := fun x => x = log.committed)
                  (by show r.state ≠ .leader; rw [hf]; simp) hpc ⟨rfl⟩).h
              simp only at h
              split at h
              · cases h
              · split at h
                · cases h
                · split at h
                  · cases h
                  · obtain ⟨⟨pr1, b1⟩, _, h⟩ := Res.bind_eq_ok h
                    cases h
                    right
                    exact ⟨hf, hc2, by show r1.raftLog.committed = _; rw [e1, hc1],
                      fun hb => by cases hb⟩

theorem restore_cle {c : Nat} {r r' : Raft} {snap : Snapshot} {b : Bool}
    (h : r.restore snap = .ok (r', b)) (h0 : CP (fun x => c ≤ x) r) :
    CP (fun x => c ≤ x) r' := by
  rcases restore_spec h with ⟨_, e⟩ | ⟨_, hle, e, _⟩
  · exact CP.of_eq e h0
  · exact CP.le_of_le (by omega) h0

theorem handleSnapshot_committed {r r' : Raft} {m : Message} (h : r.handleSnapshot m = .ok r') :
    ∃ r1 b, r.restore m.snapshot = .ok (r1, b) ∧ r'.raftLog.committed = r1.raftLog.committed := by
  unfold Raft.handleSnapshot at h
  obtain ⟨⟨r1, b⟩, hr, h⟩ := Res.bind_eq_ok h
  refine ⟨r1, b, hr, ?_⟩
  simp only at h
  split at h
  · exact (send_cp (P := fun x => x = r1.raftLog.committed) h ⟨rfl⟩).h
  · exact (send_cp (P := fun x => x = r1.raftLog.committed) h ⟨rfl⟩).h

theorem handleSnapshot_cle {c : Nat} {r r' : Raft} {m : Message}
    (h : r.handleSnapshot m = .ok r') (h0 : CP (fun x => c ≤ x) r) :
    CP (fun x => c ≤ x) r' := by
  obtain ⟨r1, b, hr, e⟩ := handleSnapshot_committed h
  exact CP.of_eq e (restore_cle hr h0)

/-! ### the dispatchers -/

seal Raft.handleSnapshotStatus Raft.handleUnreachable

theorem stepLeader_cle {c : Nat} {r r' : Raft} {m : Message} {e : Option RaftError}
    (h : r.stepLeader m = .ok (r', e)) (h0 : CP (fun x => c ≤ x) r) :
    CP (fun x => c ≤ x) r' := by
  unfold Raft.stepLeader at h
  split at h
  case h_4 =>
    c04_auto h [handleReadyReadIndex_cp, send_cp, bcastHeartbeatWithCtx_cp]
  all_goals c04_auto h [bcastHeartbeat_cp, checkQuorumActive_cp, becomeFollower_cp, filterProposal_cp,
    appendEntry_cp, bcastAppend_cp, handleReadyReadIndex_cp, send_cp, bcastHeartbeatWithCtx_cp,
    handleAppendResponse_cle, handleHeartbeatResponse_cp, handleSnapshotStatus_cp,
    handleUnreachable_cp, handleTransferLeader_cp]

theorem stepCandidate_cle {c : Nat} {r r' : Raft} {m : Message} {e : Option RaftError}
    (h : r.stepCandidate m = .ok (r', e)) (h0 : CP (fun x => c ≤ x) r) :
    CP (fun x => c ≤ x) r' := by
  unfold Raft.stepCandidate at h
  c04_auto h [becomeFollower_cp, handleAppendEntries_cle, handleHeartbeat_cle, handleSnapshot_cle,
    poll_cp, maybeCommitByVote_cle]

theorem stepFollower_cle {c : Nat} {r r' : Raft} {m : Message} {e : Option RaftError}
    (h : r.stepFollower m = .ok (r', e)) (h0 : CP (fun x => c ≤ x) r) :
    CP (fun x => c ≤ x) r' := by
  unfold Raft.stepFollower at h
  split at h
  case h_8 =>
    split at h
    · simp only at h
      split at h
      · rename_i log b hm
        cases h
        exact ⟨Nat.le_trans h0.h (RaftLog.c04_maybeCommit_le hm)⟩
      · cases h
      · cases h
    · cases h; exact h0
  all_goals c04_auto h [send_cp, handleAppendEntries_cle, handleHeartbeat_cle, handleSnapshot_cle,
    hup_cp]

theorem stepTerm_cp {P : Nat → Prop} {r r' : Raft} {m : Message} {b : Bool}
    (h : r.stepTerm m = .ok (r', b)) (h0 : CP P r) : CP P r' := by
  unfold Raft.stepTerm at h
  c04_auto h [send_cp, becomeFollower_cp]

theorem stepVote_cle {c : Nat} {r r' : Raft} {m : Message}
    (h : r.stepVote m = .ok r') (h0 : CP (fun x => c ≤ x) r) : CP (fun x => c ≤ x) r' := by
  unfold Raft.stepVote Raft.stepVoteGrant Raft.stepVoteReject at h
  c04_auto h [send_cp, maybeCommitByVote_cle]

theorem step_cle {c : Nat} {r r' : Raft} {m : Message} {e : Option RaftError}
    (h : r.step m = .ok (r', e)) (h0 : CP (fun x => c ≤ x) r) : CP (fun x => c ≤ x) r' := by
  unfold Raft.step at h
  c04_auto h [stepTerm_cp, hup_cp, stepVote_cle, stepCandidate_cle, stepFollower_cle,
    stepLeader_cle]

theorem stepIgnore_cle {c : Nat} {r r' : Raft} {m : Message}
    (h : r.stepIgnore m = .ok r') (h0 : CP (fun x => c ≤ x) r) : CP (fun x => c ≤ x) r' := by
  unfold Raft.stepIgnore at h
  c04_auto h [step_cle]

theorem tickElection_cle {c : Nat} {r r' : Raft} {b : Bool}
    (h : r.tickElection = .ok (r', b)) (h0 : CP (fun x => c ≤ x) r) :
    CP (fun x => c ≤ x) r' := by
  unfold Raft.tickElection at h
  c04_auto h [stepIgnore_cle]

theorem tickHeartbeat_cle {c : Nat} {r r' : Raft} {b : Bool}
    (h : r.tickHeartbeat = .ok (r', b)) (h0 : CP (fun x => c ≤ x) r) :
    CP (fun x => c ≤ x) r' := by
  unfold Raft.tickHeartbeat at h
  c04_auto h [stepIgnore_cle]

theorem tick_cle {c : Nat} {r r' : Raft} {b : Bool}
    (h : r.tick = .ok (r', b)) (h0 : CP (fun x => c ≤ x) r) : CP (fun x => c ≤ x) r' := by
  unfold Raft.tick at h
  c04_auto h [tickElection_cle, tickHeartbeat_cle]

/-! ### where a leader's commit index can move inside `step` -/

theorem handleAppendResponseAccepted_commit {r r' : Raft} {m : Message} {pr : Progress} {op : Bool}
    (h : r.handleAppendResponseAccepted m pr op = .ok r') :
    ∃ pr1 r2 b, ({ r with prs := r.prs.set m.frm pr1 } : Raft).maybeCommit = .ok (r2, b) ∧
      r'.raftLog.committed = r2.raftLog.committed := by
  unfold Raft.handleAppendResponseAccepted at h
  obtain ⟨pr1, _, h⟩ := Res.bind_eq_ok h
  simp only at h
  obtain ⟨r3, h3, h⟩ := Res.bind_eq_ok h
  have tail : ∀ r2 : Raft, CP (fun x => x = r2.raftLog.committed) r3 →
      r'.raftLog.committed = r2.raftLog.committed := by
    intro r2 h0
    have : CP (fun x => x = r2.raftLog.committed) r' := by
      c04_auto h [sendAppendAggressively_cp, sendTimeoutNow_cp]
    exact this.h
  split at h3
  · rename_i r2 hm
    refine ⟨pr1, r2, true, hm, tail r2 ?_⟩
    have h0 : CP (fun x => x = r2.raftLog.committed) r2 := ⟨rfl⟩
    c04_auto h3 [bcastAppend_cp]
  · rename_i r2 hm
    refine ⟨pr1, r2, false, hm, tail r2 ?_⟩
    have h0 : CP (fun x => x = r2.raftLog.committed) r2 := ⟨rfl⟩
    c04_auto h3 [sendAppend_cp]
  · cases h3
  · cases h3

/-- `handle_append_response` (raft.rs:1676): the commit index moves only through `maybe_commit`,
evaluated after the sender's progress has been updated -/
theorem handleAppendResponse_commit {r r' : Raft} {m : Message}
    (h : r.handleAppendResponse m = .ok r') :
    r'.raftLog.committed = r.raftLog.committed ∨
    ∃ pr1 r2, ({ r with prs := r.prs.set m.frm pr1 } : Raft).maybeCommit = .ok (r2, true) ∧
      r'.raftLog.committed = r2.raftLog.committed := by
  have h0 : CP (fun x => x = r.raftLog.committed) r := ⟨rfl⟩
  unfold Raft.handleAppendResponse at h
  obtain ⟨npi, _, h⟩ := Res.bind_eq_ok h
  simp only at h
  split at h
  · cases h; exact Or.inl rfl
  · split at h
    · left
      have : CP (fun x => x = r.raftLog.committed) r' := by
        c04_auto h [sendAppend_cp]
      exact this.h
    · split at h
      · cases h
      · cases h
      · cases h; exact Or.inl rfl
      · obtain ⟨pr1, r2, b, hm, e⟩ := handleAppendResponseAccepted_commit h
        cases b with
        | true => exact Or.inr ⟨pr1, r2, hm, e⟩
        | false =>
          left
          obtain ⟨_, _, _, hh | hh⟩ := maybeCommit_spec hm
          · cases hh.1
          · rw [e, hh.2]

theorem stepLeader_commit {r r' : Raft} {m : Message} {e : Option RaftError}
    (h : r.stepLeader m = .ok (r', e)) :
    r'.raftLog.committed = r.raftLog.committed ∨
    (m.msgType = .msgAppendResponse ∧
      ∃ pr1 r2, ({ r with prs := r.prs.set m.frm pr1 } : Raft).maybeCommit = .ok (r2, true) ∧
        r'.raftLog.committed = r2.raftLog.committed) := by
  have h0 : CP (fun x => x = r.raftLog.committed) r := ⟨rfl⟩
  unfold Raft.stepLeader at h
  split at h
  case h_5 =>
    rename_i hm
    obtain ⟨r1, h1, h⟩ := Res.bind_eq_ok h
    cases h
    rcases handleAppendResponse_commit h1 with e | e
    · exact Or.inl e
    · exact Or.inr ⟨hm, e⟩
  case h_4 =>
    left
    have : CP (fun x => x = r.raftLog.committed) r' := by
      c04_auto h [handleReadyReadIndex_cp, send_cp, bcastHeartbeatWithCtx_cp]
    exact this.h
  all_goals
    left
    have : CP (fun x => x = r.raftLog.committed) r' := by
      c04_auto h [bcastHeartbeat_cp, checkQuorumActive_cp, becomeFollower_cp, filterProposal_cp,
        appendEntry_cp, bcastAppend_cp, handleHeartbeatResponse_cp, handleSnapshotStatus_cp,
        handleUnreachable_cp, handleTransferLeader_cp]
    exact this.h

/-! ### the leader's own progress: who writes `matched` -/

theorem c04_lookup_modify_self {α : Type} (k : Nat) (f : α → α) (m : List (Nat × α)) :
    (NatMap.modify k f m).lookup k = (m.lookup k).map f := by
  induction m with
  | nil => rfl
  | cons a m ih =>
    obtain ⟨k', v⟩ := a
    by_cases h : k' = k
    · subst h; simp [NatMap.modify]
    · have h2 : (k == k') = false := by simp; omega
      simp only [NatMap.modify, List.map_cons, h, if_false, List.lookup_cons, h2]
      exact ih

theorem c04_lookup_modify_ne {α : Type} (k j : Nat) (hj : j ≠ k) (f : α → α)
    (m : List (Nat × α)) : (NatMap.modify k f m).lookup j = m.lookup j := by
  induction m with
  | nil => rfl
  | cons a m ih =>
    obtain ⟨k', v⟩ := a
    by_cases h : k' = k
    · subst h
      have h2 : (j == k') = false := by simp; omega
      simp only [NatMap.modify, List.map_cons, if_true, List.lookup_cons, h2]
      exact ih
    · simp only [NatMap.modify, List.map_cons, h, if_false, List.lookup_cons]
      split
      · rfl
      · exact ih

theorem c04_get_set_self (t : ProgressTracker) (id : Nat) (p q : Progress) (h : t.get id = some q) :
    (t.set id p).get id = some p := by
  simp only [ProgressTracker.get, ProgressTracker.set] at *
  rw [c04_lookup_modify_self, h]; rfl

theorem c04_get_set_ne (t : ProgressTracker) (id j : Nat) (p : Progress) (h : j ≠ id) :
    (t.set id p).get j = t.get j := by
  simp only [ProgressTracker.get, ProgressTracker.set]
  exact c04_lookup_modify_ne id j h _ _

/-- `P` holds of the node id and the tracker of `r` -/
structure SP (P : Nat → ProgressTracker → Prop) (r : Raft) : Prop where
  h : P r.id r.prs

theorem SP.mk' {P : Nat → ProgressTracker → Prop} {r : Raft} {x1 x2 : Nat} {x4 : List ReadState}
    {x5 : RaftLog} {x6 x7 x8 : Nat}
    {x9 : StateRole} {x10 : Bool} {x11 : Nat} {x12 : Option Nat} {x13 : Nat} {x14 : ReadOnly}
    {x15 x16 : Nat} {x17 x18 x19 x20 x21 : Bool} {x22 x23 x24 x25 x26 : Nat} {x27 : Int}
    {x28 : UncommittedState} {x29 : Nat} {x31 : List Message}
    {x32 : Option Nat} (h0 : SP P r) :
    SP P { term := x1, vote := x2, id := r.id, readStates := x4, raftLog := x5,
           maxInflight := x6, maxMsgSize := x7, pendingRequestSnapshot := x8, state := x9,
           promotable := x10, leaderId := x11, leadTransferee := x12, pendingConfIndex := x13,
           readOnly := x14, electionElapsed := x15, heartbeatElapsed := x16, checkQuorum := x17,
           preVote := x18, skipBcastCommit := x19, batchAppend := x20,
           disableProposalForwarding := x21, heartbeatTimeout := x22, electionTimeout := x23,
           randomizedElectionTimeout := x24, minElectionTimeout := x25, maxElectionTimeout := x26,
           priority := x27, uncommittedState := x28, maxCommittedSizePerReady := x29, prs := r.prs,
           msgs := x31, nextRand := x32 } := ⟨h0.h⟩

macro "c04_sp_auto" h:ident "[" ls:Lean.Parser.Tactic.SolveByElim.arg,* "]" : tactic =>
  `(tactic| (frame_dec $h:ident <;> (try injections) <;> (try subst_vars) <;>
      (solve_by_elim (maxDepth := 14) only [*, $ls,*, SP.mk'])))

theorem send_sp {P : Nat → ProgressTracker → Prop} {r r' : Raft} {m : Message}
    (h : r.send m = .ok r') (h0 : SP P r) : SP P r' := by
  rw [send_eq r r' m h]; exact ⟨h0.h⟩

theorem prepareSendSnapshot_sp {P : Nat → ProgressTracker → Prop} {r r' : Raft} {m m' : Message}
    {pr pr' : Progress} {to : Nat} {b : Bool}
    (h : r.prepareSendSnapshot m pr to = .ok (r', m', pr', b)) (h0 : SP P r) : SP P r' := by
  unfold Raft.prepareSendSnapshot at h
  c04_sp_auto h [send_sp]

theorem tryBatching_sp {P : Nat → ProgressTracker → Prop} {r r' : Raft} {to : Nat}
    {pr pr' : Progress} {ents : List Entry} {b : Bool}
    (h : r.tryBatching to pr ents = .ok (r', pr', b)) (h0 : SP P r) : SP P r' := by
  unfold Raft.tryBatching at h
  c04_sp_auto h [send_sp]

theorem maybeSendAppend_sp {P : Nat → ProgressTracker → Prop} {r r' : Raft} {to : Nat}
    {pr pr' : Progress} {ae b : Bool} (h : r.maybeSendAppend to pr ae = .ok (r', pr', b))
    (h0 : SP P r) : SP P r' := by
  unfold Raft.maybeSendAppend at h
  c04_sp_auto h [send_sp, prepareSendSnapshot_sp, tryBatching_sp]

theorem sendAppendPr_sp {P : Nat → ProgressTracker → Prop} {r r' : Raft} {to : Nat}
    {pr pr' : Progress} (h : r.sendAppendPr to pr = .ok (r', pr')) (h0 : SP P r) : SP P r' := by
  unfold Raft.sendAppendPr at h
  c04_sp_auto h [maybeSendAppend_sp]

/-- the leader's own progress entry -/
def selfProgress (r : Raft) : Option Progress := r.prs.get r.id

/-- `bcast_append` (raft.rs:904) skips the leader itself: its id and its own progress entry are
untouched -/
theorem bcastAppend_self {r r' : Raft} (h : r.bcastAppend = .ok r') :
    r'.id = r.id ∧ selfProgress r' = selfProgress r := by
  unfold Raft.bcastAppend Raft.forEachPeer at h
  have key : ∀ (l : List Nat) (acc : Res Raft), l.foldl (fun (acc : Res Raft) id =>
      acc.bind (fun r =>
        if id = r.id then .ok r
        else match r.prs.get id with
          | none => .ok r
          | some pr => (r.sendAppendPr id pr).bind
              (fun (x : Raft × Progress) => .ok { x.1 with prs := x.1.prs.set id x.2 }))) acc = .ok r' →
      (∀ r0, acc = .ok r0 → r0.id = r.id ∧ selfProgress r0 = selfProgress r) →
      r'.id = r.id ∧ selfProgress r' = selfProgress r := by
    intro l
    induction l with
    | nil => intro acc h h0; exact h0 r' h
    | cons x rest ih =>
      intro acc h h0
      simp only [List.foldl_cons] at h
      refine ih _ h ?_
      intro r1 h1
      obtain ⟨r0, e0, h1⟩ := Res.bind_eq_ok h1
      obtain ⟨i0, s0⟩ := h0 r0 e0
      split at h1
      · cases h1; exact ⟨i0, s0⟩
      · rename_i hne
        split at h1
        · cases h1; exact ⟨i0, s0⟩
        · rename_i pr hg
          obtain ⟨⟨r2, pr2⟩, hs, h1⟩ := Res.bind_eq_ok h1
          cases h1
          have := (sendAppendPr_sp (P := fun i t => i = r0.id ∧ t = r0.prs) hs ⟨rfl, rfl⟩).h
          obtain ⟨i2, p2⟩ := this
          refine ⟨i2.trans i0, ?_⟩
          show (r2.prs.set x pr2).get r2.id = _
          rw [c04_get_set_ne _ _ _ _ (by rw [i2]; exact fun e => hne e.symm), p2, i2]
          exact s0
  exact key _ _ h (by intro r0 e; cases e; exact ⟨rfl, rfl⟩)

/-- `maybe_commit` only records the new commit index in the leader's own `committed_index` -/
theorem maybeCommit_self {r r' : Raft} {b : Bool} (h : r.maybeCommit = .ok (r', b)) :
    r'.id = r.id ∧ (selfProgress r').map (·.matched) = (selfProgress r).map (·.matched) := by
  obtain ⟨mci, gc, _, hh | hh⟩ := maybeCommit_spec h
  · obtain ⟨_, _, _, _, rfl⟩ := hh
    refine ⟨rfl, ?_⟩
    simp only [selfProgress, Raft.modifyProgress, ProgressTracker.get]
    rw [c04_lookup_modify_self]
    cases r.prs.progress.lookup r.id with
    | none => rfl
    | some pr =>
      simp only [Option.map_some, Progress.updateCommitted]
      split <;> rfl
  · obtain ⟨_, rfl⟩ := hh; exact ⟨rfl, rfl⟩

end Raft
end RaftModel
