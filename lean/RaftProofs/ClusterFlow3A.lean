import RaftProps.C13b
import RaftProofs.RaftNodeC17
import RaftProofs.RaftNodeC10
import RaftProofs.ClusterVoteF

/-!
C13e helper lemmas, part A (per-function layer): what the sending helpers of the node model do to the
`MsgAppend`s addressed to a peer `j` whose progress is in the `Snapshot` state (`SK pb j`) or in the `Probe`
state with `paused` (`PK j`): the progress of `j` keeps its state (and `pending_snapshot` / `paused`) and the
projection `apOf j` of the queue is unchanged.
-/
namespace RaftModel
namespace Raft
namespace F3
open RaftProps.C13

/-- the `MsgAppend`s addressed to `j` of an outgoing queue, in order -/
def apOf (j : Nat) (l : List Message) : List Message :=
  l.filter (fun m => m.to == j && m.msgType == .msgAppend)

theorem apOf_append (j : Nat) (a b : List Message) : apOf j (a ++ b) = apOf j a ++ apOf j b := by
  simp [apOf]

theorem apOf_single_to (j : Nat) (m : Message) (h : m.to ≠ j) : apOf j [m] = [] := by
  simp [apOf, h]

theorem apOf_single_ty (j : Nat) (m : Message) (h : m.msgType ≠ .msgAppend) : apOf j [m] = [] := by
  simp [apOf, h]

/-- a progress that `maybe_send_append` does not serve, of one of the two kinds tracked here -/
def Held (pb : Bool) (pr : Progress) : Prop :=
  pr.state = .snapshot ∨ (pb = true ∧ pr.state = .probe ∧ pr.paused = true)

variable {pb : Bool}

theorem Held.paused {pr : Progress} (h : Held pb pr) : pr.isPaused = true := by
  rcases h with h | h
  · exact C13_snapshot_state_is_paused pr h
  · exact (C13_isPaused_char pr).2 (Or.inl h.2)

/-- the progress of `j` is the same up to the fields that do not matter here -/
def SameHeld (pb : Bool) (pr pr' : Progress) : Prop :=
  pr'.state = pr.state ∧ pr'.pendingSnapshot = pr.pendingSnapshot ∧
  (pb = true → pr.state = .probe → pr'.paused = pr.paused)

theorem SameHeld.refl (pr : Progress) : SameHeld pb pr pr := ⟨rfl, rfl, fun _ _ => rfl⟩
theorem SameHeld.trans {a b c : Progress} (h1 : SameHeld pb a b) (h2 : SameHeld pb b c) : SameHeld pb a c :=
  ⟨h2.1.trans h1.1, h2.2.1.trans h1.2.1, fun hp h => (h2.2.2 hp (h1.1.trans h)).trans (h1.2.2 hp h)⟩
theorem SameHeld.held {a b : Progress} (h : SameHeld pb a b) (ha : Held pb a) : Held pb b := by
  obtain ⟨h1, _, h3⟩ := h
  rcases ha with ha | ⟨hp, ha, hb⟩
  · exact Or.inl (h1.trans ha)
  · exact Or.inr ⟨hp, h1.trans ha, (h3 hp ha).trans hb⟩

/-- **the relation tracked through a call**: when the progress of `j` is held before, it is held the same
way afterwards and the appends to `j` of the queue are unchanged -/
def SK (pb : Bool) (j : Nat) (r r' : Raft) : Prop :=
  ∀ pr, r.prs.get j = some pr → Held pb pr →
    (∃ pr', r'.prs.get j = some pr' ∧ SameHeld pb pr pr') ∧ apOf j r'.msgs = apOf j r.msgs

theorem SK.refl (j : Nat) (r : Raft) : SK pb j r r := fun pr h _ => ⟨⟨pr, h, SameHeld.refl (pb := pb) pr⟩, rfl⟩

theorem SK.trans {j : Nat} {a b c : Raft} (h1 : SK pb j a b) (h2 : SK pb j b c) : SK pb j a c := by
  intro pr hg hh
  obtain ⟨⟨pr1, hg1, hs1⟩, hm1⟩ := h1 pr hg hh
  obtain ⟨⟨pr2, hg2, hs2⟩, hm2⟩ := h2 pr1 hg1 (hs1.held hh)
  exact ⟨⟨pr2, hg2, hs1.trans hs2⟩, hm2.trans hm1⟩

theorem SK.of_eq {j : Nat} {r r' : Raft} (hp : r'.prs = r.prs) (hm : r'.msgs = r.msgs) : SK pb j r r' := by
  intro pr hg _
  exact ⟨⟨pr, by rw [hp]; exact hg, SameHeld.refl (pb := pb) pr⟩, by rw [hm]⟩

/-- the post-condition of a helper that works on the progress `pr` of peer `to` taken out of the tracker -/
def SendOk (pb : Bool) (j : Nat) (r : Raft) (to : Nat) (pr : Progress) (x : Raft × Progress) : Prop :=
  x.1.prs = r.prs ∧ (to ≠ j → apOf j x.1.msgs = apOf j r.msgs) ∧
  (Held pb pr → apOf j x.1.msgs = apOf j r.msgs ∧ x.2 = pr)

theorem SendOk.refl (j : Nat) (r : Raft) (to : Nat) (pr : Progress) : SendOk pb j r to pr (r, pr) :=
  ⟨rfl, fun _ => rfl, fun _ => ⟨rfl, rfl⟩⟩

theorem SendOk.trans {j : Nat} {r r1 r2 : Raft} {to : Nat} {pr pr1 pr2 : Progress}
    (h1 : SendOk pb j r to pr (r1, pr1)) (h2 : SendOk pb j r1 to pr1 (r2, pr2)) : SendOk pb j r to pr (r2, pr2) := by
  obtain ⟨a1, b1, c1⟩ := h1
  obtain ⟨a2, b2, c2⟩ := h2
  refine ⟨a2.trans a1, fun h => (b2 h).trans (b1 h), fun h => ?_⟩
  obtain ⟨d1, e1⟩ := c1 h
  dsimp only at e1 d1
  subst e1
  obtain ⟨d2, e2⟩ := c2 h
  exact ⟨d2.trans d1, e2⟩

/-- batching onto a queued append for `to ≠ j` leaves the appends to `j` alone -/
theorem apOf_batched (j to : Nat) (pre post : List Message) (msg : Message) (c : Nat) (ents : List Entry)
    (hm : IsAppendTo to msg) (hne : to ≠ j) :
    apOf j (pre ++ batchedMsg c msg ents :: post) = apOf j (pre ++ msg :: post) := by
  have h1 : msg.to ≠ j := by rw [hm.2]; exact hne
  have h2 : (batchedMsg c msg ents).to ≠ j := h1
  simp [apOf, h1, h2]

/-- `maybe_send_append` -/
theorem maybeSendAppend_sk (j : Nat) (r r' : Raft) (to : Nat) (pr pr' : Progress) (ae sent : Bool)
    (h : r.maybeSendAppend to pr ae = .ok (r', pr', sent)) : SendOk pb j r to pr (r', pr') := by
  by_cases hh : Held pb pr
  · rw [C13_no_send_when_paused r to pr ae hh.paused] at h
    cases h
    exact SendOk.refl j r to pr
  · rcases C13_send_classification r r' to pr pr' ae sent h with
      ⟨_, h1, h2, _⟩ | ⟨_, _, _, t, es, _, _, _, _, _, hr⟩ | ⟨_, _, h1, h2, _⟩ | ⟨_, _, hv⟩
    · rw [h1, h2]; exact SendOk.refl j r to pr
    · rcases hr with ⟨_, htb⟩ | ⟨_, h2⟩
      · obtain ⟨e1, e2, _⟩ := C13_batching r r' to pr pr' es true htb
        obtain ⟨pre, msg, post, q1, _, q3, _, q5, _⟩ := e2 rfl
        refine ⟨by rw [e1], fun hne => ?_, fun hc => absurd hc hh⟩
        rw [q5, q1]
        exact apOf_batched j to pre post msg _ es q3 hne
      · subst h2
        refine ⟨rfl, fun hne => ?_, fun hc => absurd hc hh⟩
        show apOf j (r.msgs ++ [appendMsg r to pr t es]) = apOf j r.msgs
        rw [apOf_append, apOf_single_to j _ (by exact hne)]
        simp
    · rw [h1, h2]; exact SendOk.refl j r to pr
    · have hs := viaSnapshot_spec r r' to pr pr' sent hv
      cases sent with
      | true =>
        obtain ⟨_, sn, _, _, h4, _⟩ := hs.1 rfl
        refine ⟨by rw [h4], fun _ => ?_, fun hc => absurd hc hh⟩
        rw [h4]
        show apOf j (r.msgs ++ [snapMsg r to sn]) = apOf j r.msgs
        rw [apOf_append, apOf_single_ty j _ (by simp [snapMsg])]
        simp
      | false =>
        obtain ⟨_, h2, _⟩ := hs.2 rfl
        exact ⟨by rw [h2], fun _ => by rw [h2], fun hc => absurd hc hh⟩

theorem sendAppendPr_sk (j : Nat) (r : Raft) (to : Nat) (pr : Progress) :
    Res.Post (SendOk pb j r to pr) (r.sendAppendPr to pr) := by
  unfold sendAppendPr
  apply Res.post_intro
  intro a ha
  rw [Res.bind_eq_ok_iff] at ha
  obtain ⟨⟨r1, pr1, s⟩, h1, h2⟩ := ha
  cases h2
  exact maybeSendAppend_sk j r r1 to pr pr1 true s h1

theorem sendAppendAggressivelyPr_sk (j : Nat) (fuel : Nat) : ∀ (r : Raft) (to : Nat) (pr : Progress),
    Res.Post (SendOk pb j r to pr) (sendAppendAggressivelyPr fuel r to pr) := by
  induction fuel with
  | zero => intro r to pr; simp [sendAppendAggressivelyPr, Res.Post]
  | succ n ih =>
    intro r to pr
    unfold sendAppendAggressivelyPr
    split
    · rename_i r1 pr1 heq
      have h1 : SendOk pb j r to pr (r1, pr1) := maybeSendAppend_sk j r r1 to pr pr1 false true heq
      exact Res.post_mono (ih r1 to pr1) (fun a ha => SendOk.trans h1 ha)
    · rename_i r1 pr1 heq
      exact maybeSendAppend_sk j r r1 to pr pr1 false false heq
    · trivial
    · trivial

/-- writing the progress of `to` back after a helper that satisfies `SendOk` -/
theorem sk_writeback (j : Nat) (r : Raft) (to : Nat) (pr : Progress) (hg : r.prs.get to = some pr)
    (x : Raft × Progress) (hx : SendOk pb j r to pr x) :
    SK pb j r { x.1 with prs := x.1.prs.set to x.2 } := by
  obtain ⟨a, b, c⟩ := hx
  intro q hq hh
  by_cases hne : to = j
  · subst hne
    rw [hg] at hq
    cases hq
    obtain ⟨c1, c2⟩ := c hh
    refine ⟨⟨pr, ?_, SameHeld.refl (pb := pb) pr⟩, c1⟩
    show (x.1.prs.set to x.2).get to = some pr
    rw [c2, a]
    exact ProgressTracker.get_set_self _ _ _ _ hg
  · refine ⟨⟨q, ?_, SameHeld.refl (pb := pb) q⟩, b hne⟩
    show (x.1.prs.set to x.2).get j = some q
    rw [ProgressTracker.get_set_ne _ _ _ _ (fun e => hne e.symm), a]
    exact hq

theorem sendAppend_sk (j : Nat) (r : Raft) (to : Nat) : Res.Post (SK pb j r) (r.sendAppend to) := by
  unfold sendAppend
  split
  · trivial
  · rename_i pr hg
    exact Res.post_bind (sendAppendPr_sk j r to pr) (fun a ha => sk_writeback j r to pr hg a ha)

theorem sendAppendAggressively_sk (j : Nat) (r : Raft) (to : Nat) :
    Res.Post (SK pb j r) (r.sendAppendAggressively to) := by
  unfold sendAppendAggressively
  split
  · trivial
  · rename_i pr hg
    exact Res.post_bind (sendAppendAggressivelyPr_sk j _ r to pr)
      (fun a ha => sk_writeback j r to pr hg a ha)

theorem foldl_sk {β : Type} (j : Nat) (g : Raft → β → Res Raft)
    (hg : ∀ r b, Res.Post (SK pb j r) (g r b)) (r0 : Raft) :
    ∀ (l : List β) (acc : Res Raft), Res.Post (SK pb j r0) acc →
      Res.Post (SK pb j r0) (l.foldl (fun acc b => acc.bind (fun r => g r b)) acc) := by
  intro l
  induction l with
  | nil => intro acc h; exact h
  | cons b rest ih =>
    intro acc h
    simp only [List.foldl_cons]
    apply ih
    exact Res.post_bind h (fun a ha => Res.post_mono (hg a b) (fun x hx => ha.trans hx))

theorem forEachPeer_sk (j : Nat) (r : Raft) (f : Raft → Nat → Progress → Res (Raft × Progress))
    (hf : ∀ r id pr, Res.Post (SendOk pb j r id pr) (f r id pr)) :
    Res.Post (SK pb j r) (r.forEachPeer f) := by
  unfold forEachPeer
  apply foldl_sk j (fun r id => if id = r.id then .ok r
      else match r.prs.get id with
        | none => .ok r
        | some pr => (f r id pr).bind (fun (r, pr) => .ok { r with prs := r.prs.set id pr }))
  · intro r1 id
    dsimp only
    split
    · exact SK.refl j _
    · split
      · exact SK.refl j _
      · rename_i pr hg
        exact Res.post_bind (hf r1 id pr) (fun a ha => sk_writeback j r1 id pr hg a ha)
  · exact SK.refl j _

theorem bcastAppend_sk (j : Nat) (r : Raft) : Res.Post (SK pb j r) r.bcastAppend := by
  unfold bcastAppend
  exact forEachPeer_sk j r _ (fun r id pr => sendAppendPr_sk j r id pr)

theorem sendHeartbeat_sk (j : Nat) (r : Raft) (to : Nat) (pr : Progress) (ctx : Option Bytes) :
    Res.Post (fun x => x.prs = r.prs ∧ apOf j x.msgs = apOf j r.msgs) (r.sendHeartbeat to pr ctx) := by
  unfold sendHeartbeat
  apply Res.post_intro
  intro r' h
  rw [send_eq r r' _ h]
  refine ⟨rfl, ?_⟩
  show apOf j (r.msgs ++ [_]) = apOf j r.msgs
  rw [apOf_append, apOf_single_ty j _ (by rw [sendFill_msgType]; simp)]
  simp

theorem bcastHeartbeatWithCtx_sk (j : Nat) (r : Raft) (ctx : Option Bytes) :
    Res.Post (SK pb j r) (r.bcastHeartbeatWithCtx ctx) := by
  unfold bcastHeartbeatWithCtx
  exact forEachPeer_sk j r _ (fun r id pr =>
    Res.post_bind (sendHeartbeat_sk j r id pr ctx) (fun a ha => by
      simp only [Res.Post]
      exact ⟨ha.1, fun _ => ha.2, fun _ => ⟨ha.2, rfl⟩⟩))

theorem bcastHeartbeat_sk (j : Nat) (r : Raft) : Res.Post (SK pb j r) r.bcastHeartbeat := by
  unfold bcastHeartbeat
  exact bcastHeartbeatWithCtx_sk j r _

theorem ping_sk (j : Nat) (r : Raft) : Res.Post (SK pb j r) r.ping := by
  unfold ping
  split
  · exact bcastHeartbeat_sk j r
  · exact Res.post_ok (SK.refl j r)

end F3
end Raft
end RaftModel
