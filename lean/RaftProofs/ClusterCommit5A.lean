import RaftProofs.ClusterCommitP
import RaftProps.C13b

/-!
Cluster-level commit safety WITHOUT the hypothesis `batch_append = false`, part A: the relation
`BatOf y x` ("`x` is `y` with entries glued on and another commit index": what `try_batching` does to a
queued `MsgAppend`), the generalised anchored relation `SFb a r` (as `CC.SF`, a queued message may also be
a batched version of a message of the start queue), and `SFb` through `maybe_send_append` (both
branches), its callers, and the heartbeat senders.
-/
namespace RaftModel
namespace Raft
namespace CB
open CC

/-- `x` is `y` with entries glued on and another commit index (what `try_batching` does to a queued
append) -/
def BatOf (y x : Message) : Prop :=
  y.msgType = .msgAppend ∧ ∃ es c, x = { y with entries := y.entries ++ es, commit := c }

theorem BatOf.msgType {y x : Message} (h : BatOf y x) : x.msgType = .msgAppend := by
  obtain ⟨h1, es, c, rfl⟩ := h; exact h1
theorem BatOf.src {y x : Message} (h : BatOf y x) : y.msgType = .msgAppend := h.1
theorem BatOf.to {y x : Message} (h : BatOf y x) : x.to = y.to := by
  obtain ⟨_, es, c, rfl⟩ := h; rfl
theorem BatOf.frm {y x : Message} (h : BatOf y x) : x.frm = y.frm := by
  obtain ⟨_, es, c, rfl⟩ := h; rfl
theorem BatOf.term {y x : Message} (h : BatOf y x) : x.term = y.term := by
  obtain ⟨_, es, c, rfl⟩ := h; rfl
theorem BatOf.index {y x : Message} (h : BatOf y x) : x.index = y.index := by
  obtain ⟨_, es, c, rfl⟩ := h; rfl
theorem BatOf.logTerm {y x : Message} (h : BatOf y x) : x.logTerm = y.logTerm := by
  obtain ⟨_, es, c, rfl⟩ := h; rfl

theorem BatOf.trans {z y x : Message} (h1 : BatOf z y) (h2 : BatOf y x) : BatOf z x := by
  obtain ⟨t1, es1, c1, rfl⟩ := h1
  obtain ⟨_, es2, c2, rfl⟩ := h2
  exact ⟨t1, es1 ++ es2, c2, by simp only [List.append_assoc]⟩

/-- the glued message of `try_batching` -/
theorem BatOf.batched (c : Nat) (msg : Message) (es : List Entry) (h : msg.msgType = .msgAppend) :
    BatOf msg (RaftProps.C13.batchedMsg c msg es) := ⟨h, es, c, rfl⟩

/-- batching onto a message that was `Sent` leaves it `Sent`, if the commit index is the node's -/
theorem sent_bat {c : SCore} {y x : Message} (hy : Sent c y) (hb : BatOf y x)
    (hc : x.commit = c.committed) : Sent c x := by
  refine ⟨hb.frm.trans hy.frm, hb.term.trans hy.term, by rw [hb.msgType]; rfl, fun _ => ?_, fun hh => ?_⟩
  · rw [hb.index, hb.logTerm]; exact ⟨hc, (hy.app hb.src).2⟩
  · rw [hb.msgType] at hh; cases hh

/-- anchored: `r` has the core of `a`, and every queued message was queued in `a`, is `Sent`, or is a
batched version (with the node's commit index) of a message queued in `a` -/
structure SFPb (a : Raft) (c : SCore) (ms : List Message) : Prop where
  core : c = score a
  q : ∀ x ∈ ms, x ∈ a.msgs ∨ Sent (score a) x ∨
    (∃ y ∈ a.msgs, BatOf y x ∧ x.commit = (score a).committed)

def SFb (a r : Raft) : Prop := SFPb a (score r) r.msgs

theorem SFb.core {a r : Raft} (h : SFb a r) : score r = score a := SFPb.core h
theorem SFb.q {a r : Raft} (h : SFb a r) : ∀ x ∈ r.msgs, x ∈ a.msgs ∨ Sent (score a) x ∨
    (∃ y ∈ a.msgs, BatOf y x ∧ x.commit = (score a).committed) := SFPb.q h
theorem SFb.rfl {r : Raft} : SFb r r := ⟨Eq.refl _, fun _ hx => .inl hx⟩

/-- the old relation is a special case -/
theorem SFb.of_sf {a r : Raft} (h : SF a r) : SFb a r :=
  ⟨h.core, fun x hx => (h.q x hx).imp (fun g => g) (fun g => .inl g)⟩

theorem SFb.term {a r : Raft} (h : SFb a r) : r.term = a.term := congrArg SCore.term h.core
theorem SFb.id {a r : Raft} (h : SFb a r) : r.id = a.id := congrArg SCore.id h.core
theorem SFb.state {a r : Raft} (h : SFb a r) : r.state = a.state := congrArg SCore.state h.core
theorem SFb.committed {a r : Raft} (h : SFb a r) : r.raftLog.committed = a.raftLog.committed :=
  congrArg SCore.committed h.core
theorem SFb.persisted {a r : Raft} (h : SFb a r) : r.raftLog.persisted = a.raftLog.persisted :=
  congrArg SCore.persisted h.core
theorem SFb.mtab {a r : Raft} (h : SFb a r) : mfun r.prs = mfun a.prs := congrArg SCore.mtab h.core
theorem SFb.conf {a r : Raft} (h : SFb a r) : r.prs.conf = a.prs.conf := congrArg SCore.conf h.core
theorem SFb.batch {a r : Raft} (h : SFb a r) : r.batchAppend = a.batchAppend :=
  congrArg SCore.batch h.core
theorem SFb.tm {a r : Raft} (h : SFb a r) : r.raftLog.term = a.raftLog.term := congrArg SCore.tm h.core
theorem SFb.last {a r : Raft} (h : SFb a r) : r.raftLog.lastIndex = a.raftLog.lastIndex :=
  congrArg SCore.last h.core
theorem SFb.lterm {a r : Raft} (h : SFb a r) : r.raftLog.lastTerm = a.raftLog.lastTerm :=
  congrArg SCore.lterm h.core
theorem SFb.vote {a r : Raft} (h : SFb a r) : r.vote = a.vote := congrArg SCore.vote h.core

theorem SFb.trans {a b c : Raft} (h1 : SFb a b) (h2 : SFb b c) : SFb a c := by
  refine ⟨h2.core.trans h1.core, fun x hx => ?_⟩
  rcases h2.q x hx with g | g | ⟨y, hy, hb, hc⟩
  · exact h1.q x g
  · right; left; rw [← h1.core]; exact g
  · rw [h1.core] at hc
    rcases h1.q y hy with g | g | ⟨z, hz, hb2, _⟩
    · exact .inr (.inr ⟨y, g, hb, hc⟩)
    · exact .inr (.inl (sent_bat g hb hc))
    · exact .inr (.inr ⟨z, hz, hb2.trans hb, hc⟩)

/-- replacing queued messages by batched versions of themselves, the rest of the state untouched -/
theorem SFb.bat {a r : Raft} {ms : List Message} (h0 : SFb a r)
    (h : ∀ x ∈ ms, x ∈ r.msgs ∨ ∃ y ∈ r.msgs, BatOf y x ∧ x.commit = r.raftLog.committed) :
    SFb a { r with msgs := ms } := by
  have h1 : SFb r { r with msgs := ms } := ⟨Eq.refl _, fun x hx => by
    rcases h x hx with g | g
    · exact .inl g
    · exact .inr (.inr g)⟩
  exact h0.trans h1

/-- any structure update that keeps `term`, `vote`, `id`, `state`, `raftLog`, `batchAppend`, `prs` and
`msgs` keeps `SFb` -/
theorem SFb.mk' {a r : Raft} {x4 : List ReadState} {x6 x7 x8 : Nat}
    {x10 : Bool} {x11 : Nat}
    {x12 : Option Nat} {x13 : Nat} {x14 : ReadOnly} {x15 x16 : Nat} {x17 x18 x19 x21 : Bool}
    {x22 x23 x24 x25 x26 : Nat} {x27 : Int} {x28 : UncommittedState} {x29 : Nat}
    {x32 : Option Nat} (h0 : SFb a r) :
    SFb a {term := r.term, vote := r.vote, id := r.id, readStates := x4, raftLog := r.raftLog,
           maxInflight := x6, maxMsgSize := x7, pendingRequestSnapshot := x8, state := r.state,
           promotable := x10, leaderId := x11, leadTransferee := x12,
           pendingConfIndex := x13, readOnly := x14, electionElapsed := x15,
           heartbeatElapsed := x16, checkQuorum := x17, preVote := x18,
           skipBcastCommit := x19, batchAppend := r.batchAppend, disableProposalForwarding := x21,
           heartbeatTimeout := x22, electionTimeout := x23, randomizedElectionTimeout := x24,
           minElectionTimeout := x25, maxElectionTimeout := x26, priority := x27,
           uncommittedState := x28, maxCommittedSizePerReady := x29, prs := r.prs, msgs := r.msgs,
           nextRand := x32 } := ⟨h0.core, h0.q⟩

/-- writing back a progress entry whose `matched` is unchanged -/
theorem SFb.setPr {a r : Raft} {id : Nat} {pr : Progress} (h0 : SFb a r)
    (h : ∀ old, r.prs.get id = some old → pr.matched = old.matched) :
    SFb a { r with prs := r.prs.set id pr } := by
  refine ⟨?_, h0.q⟩
  rw [← h0.core]
  have := mfun_set r.prs id pr h
  unfold score
  dsimp only
  rw [this]
  rfl

/-- queueing one message that is `Sent` -/
theorem send_sfb {a r r' : Raft} {m : Message} (h : r.send m = .ok r')
    (hs : Sent (score r) (r.sendFill m)) (h0 : SFb a r) : SFb a r' := by
  rw [send_eq r r' m h]
  refine ⟨h0.core, fun x hx => ?_⟩
  rcases List.mem_append.1 hx with hx | hx
  · exact h0.q x hx
  · right; left; rw [List.mem_singleton.1 hx, ← h0.core]; exact hs

theorem SFb.snapLog {a r : Raft} (i : Nat) (h0 : SFb a r) :
    SFb a { r with raftLog := (r.raftLog.snapshot i).1 } := by
  refine ⟨?_, h0.q⟩
  rw [← h0.core]
  rcases snapshot_core r.raftLog i with e | e <;> rw [e] <;> rfl
theorem prepareSendSnapshot_sfb {a r r' : Raft} {m m' : Message} {pr pr' : Progress} {to : Nat}
    {b : Bool} (h : r.prepareSendSnapshot m pr to = .ok (r', m', pr', b)) (h0 : SFb a r) :
    SFb a r' ∧ pr'.matched = pr.matched ∧
    (b = true → m'.msgType = .msgSnapshot ∧ m'.frm = m.frm ∧ m'.to = m.to) := by
  unfold Raft.prepareSendSnapshot at h
  split at h
  · cases h; exact ⟨h0, rfl, fun hb => nomatch hb⟩
  · simp only [] at h
    have hs := h0.snapLog pr.pendingRequestSnapshot
    split at h
    · cases h; exact ⟨hs, rfl, fun hb => nomatch hb⟩
    · cases h
    · cases h
    · split at h
      · cases h
      · cases h; exact ⟨hs, rfl, fun _ => ⟨rfl, rfl, rfl⟩⟩

theorem viaSnapshot_sfb {a r r' : Raft} {to : Nat} {pr pr' : Progress} {sent : Bool}
    (h : RaftProps.C13.viaSnapshot r to pr = .ok (r', pr', sent)) (h0 : SFb a r) :
    SFb a r' ∧ pr'.matched = pr.matched := by
  unfold RaftProps.C13.viaSnapshot at h
  split at h
  · rename_i r1 m1 pr1 heq
    obtain ⟨h1, h2, h3⟩ := prepareSendSnapshot_sfb heq h0
    rw [Res.bind_eq_ok_iff] at h
    obtain ⟨r2, hs, h4⟩ := h
    cases h4
    obtain ⟨e1, e2, e3⟩ := h3 rfl
    exact ⟨send_sfb hs (sent_other r1 m1 (by rw [e2]) (by rw [e1]; rfl) (by rw [e1]; decide)
      (by rw [e1]; decide)) h1, h2⟩
  · rename_i r1 m1 pr1 heq
    cases h
    obtain ⟨h1, h2, _⟩ := prepareSendSnapshot_sfb heq h0
    exact ⟨h1, h2⟩
  · cases h
  · cases h

/-- **`maybe_send_append`**, both with and without batching -/
theorem maybeSendAppend_sfb {a r r' : Raft} {to : Nat} {pr pr' : Progress} {ae b : Bool}
    (h : r.maybeSendAppend to pr ae = .ok (r', pr', b)) (h0 : SFb a r) :
    SFb a r' ∧ pr'.matched = pr.matched := by
  rcases RaftProps.C13.C13_send_classification r r' to pr pr' ae b h with
    ⟨_, he, hp, _⟩ | ⟨_, _, hn, t, es, ht, hes, _, _, hsu, hcase⟩ | ⟨_, _, he, hp, _⟩ | ⟨_, _, hv⟩
  · rw [he, hp]; exact ⟨h0, rfl⟩
  · have hm : pr'.matched = pr.matched := by
      unfold RaftProps.C13.SentUpdate at hsu
      split at hsu
      · rw [hsu]
      · exact updateState_matched hsu
    rcases hcase with ⟨_, htb⟩ | ⟨_, he⟩
    · -- batched: one queued append is replaced by a glued version of itself
      obtain ⟨hr', hb1, _⟩ := RaftProps.C13.C13_batching r r' to pr pr' es true htb
      obtain ⟨pre, msg, post, hms, _, hto, _, hms', _⟩ := hb1 rfl
      refine ⟨?_, hm⟩
      rw [hr']
      refine h0.bat (fun x hx => ?_)
      rw [hms'] at hx
      rw [hms]
      rcases List.mem_append.1 hx with hx | hx
      · exact .inl (List.mem_append_left _ hx)
      · rcases List.mem_cons.1 hx with hx | hx
        · right
          refine ⟨msg, List.mem_append_right _ List.mem_cons_self, ?_, ?_⟩
          · rw [hx]; exact BatOf.batched _ _ _ hto.1
          · rw [hx]; rfl
        · exact .inl (List.mem_append_right _ (List.mem_cons_of_mem _ hx))
    · rw [he]
      refine ⟨⟨h0.core, fun x hx => ?_⟩, hm⟩
      rcases List.mem_append.1 hx with hx | hx
      · exact h0.q x hx
      · right; left
        rw [List.mem_singleton.1 hx, ← h0.core]
        exact ⟨rfl, rfl, rfl, fun _ => ⟨rfl, ht⟩, fun hc => by cases hc⟩
  · rw [he, hp]; exact ⟨h0, rfl⟩
  · exact viaSnapshot_sfb hv h0

theorem sendAppendPr_sfb {a r r' : Raft} {to : Nat} {pr pr' : Progress}
    (h : r.sendAppendPr to pr = .ok (r', pr')) (h0 : SFb a r) :
    SFb a r' ∧ pr'.matched = pr.matched := by
  unfold Raft.sendAppendPr at h
  obtain ⟨⟨r1, pr1, b⟩, h1, h2⟩ := Res.bind_eq_ok h
  cases h2
  exact maybeSendAppend_sfb h1 h0

theorem sendAppendAggressivelyPr_sfb {a r' : Raft} {to : Nat} {pr' : Progress}
    :
    ∀ (fuel : Nat) (r : Raft) (pr : Progress),
      sendAppendAggressivelyPr fuel r to pr = .ok (r', pr') → SFb a r →
      SFb a r' ∧ pr'.matched = pr.matched := by
  intro fuel
  induction fuel with
  | zero => intro r pr h; simp [sendAppendAggressivelyPr] at h
  | succ n ih =>
    intro r pr h h0
    unfold sendAppendAggressivelyPr at h
    split at h
    · rename_i r1 pr1 hm
      obtain ⟨g1, g2⟩ := maybeSendAppend_sfb hm h0
      obtain ⟨g3, g4⟩ := ih r1 pr1 h g1
      exact ⟨g3, g4.trans g2⟩
    · rename_i r1 pr1 hm
      cases h; exact maybeSendAppend_sfb hm h0
    · cases h
    · cases h

/-- write-back after a sending helper that ran on the progress entry of `to` -/
theorem SFb.writeBack {a r r1 : Raft} {to : Nat} {pr pr1 : Progress} (h0 : SFb a r) (h1 : SFb a r1)
    (hg : r.prs.get to = some pr) (hm : pr1.matched = pr.matched) :
    SFb a { r1 with prs := r1.prs.set to pr1 } := by
  refine h1.setPr (fun old ho => ?_)
  have e1 : mfun r1.prs to = mfun r.prs to := by rw [h1.mtab, h0.mtab]
  rw [mfun_of_get ho, mfun_of_get hg] at e1
  injection e1 with e1
  rw [hm, e1]

theorem sendAppend_sfb {a r r' : Raft} {to : Nat}
    (h : r.sendAppend to = .ok r') (h0 : SFb a r) : SFb a r' := by
  unfold Raft.sendAppend at h
  split at h
  · cases h
  · rename_i pr hg
    obtain ⟨⟨r1, pr1⟩, h1, h2⟩ := Res.bind_eq_ok h
    cases h2
    obtain ⟨g1, g2⟩ := sendAppendPr_sfb h1 h0
    exact h0.writeBack g1 hg g2

theorem sendAppendAggressively_sfb {a r r' : Raft} {to : Nat}
    (h : r.sendAppendAggressively to = .ok r') (h0 : SFb a r) : SFb a r' := by
  unfold Raft.sendAppendAggressively at h
  split at h
  · cases h
  · rename_i pr hg
    obtain ⟨⟨r1, pr1⟩, h1, h2⟩ := Res.bind_eq_ok h
    cases h2
    obtain ⟨g1, g2⟩ := sendAppendAggressivelyPr_sfb _ _ _ h1 h0
    exact h0.writeBack g1 hg g2

theorem sendHeartbeat_sfb {a r r' : Raft} {to : Nat} {pr : Progress} {ctx : Option Bytes}
    (h : r.sendHeartbeat to pr ctx = .ok r') (hg : mfun r.prs to = some pr.matched)
    (hid : to ≠ r.id) (h0 : SFb a r) : SFb a r' := by
  unfold Raft.sendHeartbeat at h
  refine send_sfb h ?_ h0
  let m0 : Message :=
    { msgType := .msgHeartbeat, to := to, commit := min pr.matched r.raftLog.committed,
      context := ctx.getD [] }
  obtain ⟨f1, f2, f3, f4, f5⟩ := sendFill_lk r m0 rfl rfl
  refine ⟨f1, f2, (by rw [f3]; rfl), (fun hc => by rw [f3] at hc; cases hc), fun _ => ?_⟩
  rw [f4, f5]
  exact ⟨Nat.min_le_right _ _, pr.matched, hg, Nat.min_le_left _ _, hid⟩

theorem sendTimeoutNow_sfb {a r r' : Raft} {to : Nat}
    (h : r.sendTimeoutNow to = .ok r') (h0 : SFb a r) : SFb a r' := by
  unfold Raft.sendTimeoutNow at h
  exact send_sfb h (sent_other r _ rfl rfl (by show MsgType.msgTimeoutNow ≠ _; decide)
    (by show MsgType.msgTimeoutNow ≠ _; decide)) h0

end CB
end Raft
end RaftModel
