import RaftProofs.ProtoCDefs

/-!
The clause group `InvC1` of the commit layer (acknowledgement truth `atr`, retention of acknowledged
prefixes `ret` / `reti` / `retd`) holds initially and is preserved by every event of P.

Structure: `NC1 s n` is the clause group for one node `n` against the ghost history of `s`;
`NC1.grow` transports it along `Grow s s'`; `invC1_node` is the frame lemma ("node `i` replaced by
`n`, ghost history grown"); `NC1.keep` / `NC1.newack` / `NC1.empty` build `NC1` for the usual shapes
of the modified node; `invC1_step` is the 25-event case split.
-/
namespace RaftModel.P

/-- the clauses of `InvC1` for one node, against the ghost history of `s` -/
structure NC1 (s : PSys) (n : PNode) : Prop where
  atr : ∀ t f idx pre, nodeAcks n (.ack t f idx pre) →
          idx ≤ (s.llog t).length ∧ pre = (s.llog t).take idx ∧ Elected s t
  ret : ∀ t0 f idx pre, OMsg.ack t0 f idx pre ∈ n.outbox → ∀ c, c ≤ idx →
          NCle s t0 c n.term → n.log.take c = (s.llog t0).take c
  reti : ∀ im ∈ n.pending, ∀ t0 f idx pre, OMsg.ack t0 f idx pre ∈ im.acks → ∀ c, c ≤ idx →
          NCle s t0 c im.term → im.log.take c = (s.llog t0).take c
  retd : ∀ t0 f idx pre, OMsg.ack t0 f idx pre ∈ n.dacks → ∀ c, c ≤ idx →
          NCle s t0 c n.dterm → n.dlog.take c = (s.llog t0).take c

theorem InvC1.node {s : PSys} (h : InvC1 s) (i : Nat) : NC1 s (s.nodes i) :=
  ⟨h.atr i, h.ret i, h.reti i, h.retd i⟩

theorem InvC1.of_nodes {s : PSys} (h : ∀ i, NC1 s (s.nodes i)) : InvC1 s :=
  ⟨fun i => (h i).atr, fun i => (h i).ret, fun i => (h i).reti, fun i => (h i).retd⟩

/-- transport: the clauses of an unchanged node survive any growth of the ghost history -/
theorem NC1.grow {s s' : PSys} (g : Grow s s') (hlt : ∀ t e, e ∈ s.llog t → e.term ≤ t) {n : PNode}
    (h : NC1 s n) : NC1 s' n := by
  have key : ∀ t0 f idx pre, nodeAcks n (.ack t0 f idx pre) → ∀ c, c ≤ idx → ∀ T, NCle s' t0 c T →
      NCle s t0 c T ∧ (s'.llog t0).take c = (s.llog t0).take c := by
    intro t0 f idx pre hm c hc T hN
    obtain ⟨h1, _, h3⟩ := h.atr t0 f idx pre hm
    exact ⟨g.ncle h3 (by omega) (hlt t0) hN, g.take_eq h3 (by omega)⟩
  constructor
  · intro t f idx pre hm
    obtain ⟨h1, h2, h3⟩ := h.atr t f idx pre hm
    refine ⟨Nat.le_trans h1 (g.len_le h3), ?_, g.el t h3⟩
    rw [g.take_eq h3 h1]; exact h2
  · intro t0 f idx pre hm c hc hN
    obtain ⟨k1, k2⟩ := key t0 f idx pre (Or.inl hm) c hc _ hN
    rw [k2]; exact h.ret t0 f idx pre hm c hc k1
  · intro im him t0 f idx pre hm c hc hN
    obtain ⟨k1, k2⟩ := key t0 f idx pre (Or.inr (Or.inl ⟨im, him, hm⟩)) c hc _ hN
    rw [k2]; exact h.reti im him t0 f idx pre hm c hc k1
  · intro t0 f idx pre hm c hc hN
    obtain ⟨k1, k2⟩ := key t0 f idx pre (Or.inr (Or.inr hm)) c hc _ hN
    rw [k2]; exact h.retd t0 f idx pre hm c hc k1

/-- frame lemma: node `i` replaced by `n` (whose clauses hold against the *old* ghost history), the
ghost history grown, everything else about the nodes unchanged -/
theorem invC1_node (s s' : PSys) (g : Grow s s') (hL : InvL s) (h : InvC1 s) (i : Nat) (n : PNode)
    (hn : s'.nodes = upd s.nodes i n) (hni : NC1 s n) : InvC1 s' := by
  have hlt : ∀ t e, e ∈ s.llog t → e.term ≤ t := fun t e he => (hL.lterm t e he).2
  apply InvC1.of_nodes
  intro j
  by_cases hj : j = i
  · subst hj; rw [hn]; simp only [upd, if_true]; exact hni.grow g hlt
  · rw [hn]; simp only [upd, hj, if_false]; exact (h.node j).grow g hlt

/-- the modified node keeps its logs and durable state, its term does not decrease, it knows no new
acknowledgement -/
theorem NC1.keep {s : PSys} {n n' : PNode} (h : NC1 s n) (hlog : n'.log = n.log) (hterm : n.term ≤ n'.term)
    (hout : ∀ t f idx pre, OMsg.ack t f idx pre ∈ n'.outbox → OMsg.ack t f idx pre ∈ n.outbox)
    (hpend : ∀ im ∈ n'.pending, im ∈ n.pending) (hdacks : n'.dacks = n.dacks)
    (hdlog : n'.dlog = n.dlog) (hdterm : n'.dterm = n.dterm) : NC1 s n' := by
  constructor
  · intro t f idx pre hm
    apply h.atr t f idx pre
    rcases hm with hm | ⟨im, him, hm⟩ | hm
    · exact Or.inl (hout _ _ _ _ hm)
    · exact Or.inr (Or.inl ⟨im, hpend im him, hm⟩)
    · rw [hdacks] at hm; exact Or.inr (Or.inr hm)
  · intro t0 f idx pre hm c hc hN
    rw [hlog]; exact h.ret t0 f idx pre (hout _ _ _ _ hm) c hc (NCle_mono hN hterm)
  · intro im him; exact h.reti im (hpend im him)
  · rw [hdacks, hdlog, hdterm]; exact h.retd

/-- a node that knows no acknowledgement at all -/
theorem NC1.empty {s : PSys} {n : PNode} (ho : n.outbox = []) (hp : n.pending = []) (hd : n.dacks = []) :
    NC1 s n := by
  constructor
  · intro t f idx pre hm
    rcases hm with hm | ⟨im, him, _⟩ | hm
    · rw [ho] at hm; cases hm
    · rw [hp] at him; cases him
    · rw [hd] at hm; cases hm
  · intro t0 f idx pre hm; rw [ho] at hm; cases hm
  · intro im him; rw [hp] at him; cases him
  · intro t0 f idx pre hm; rw [hd] at hm; cases hm

/-- the modified node generates one new acknowledgement (and may change its log) -/
theorem NC1.newack {s : PSys} {n n' : PNode} (h : NC1 s n) {t f idx : Nat} {pre : List LEntry}
    (hterm : n'.term = n.term) (hout : n'.outbox = n.outbox ++ [.ack t f idx pre])
    (hpend : n'.pending = n.pending) (hdacks : n'.dacks = n.dacks) (hdlog : n'.dlog = n.dlog)
    (hdterm : n'.dterm = n.dterm)
    (hatr : idx ≤ (s.llog t).length ∧ pre = (s.llog t).take idx ∧ Elected s t)
    (hnew : n'.log.take idx = (s.llog t).take idx)
    (hold : ∀ t0 f0 idx0 pre0, OMsg.ack t0 f0 idx0 pre0 ∈ n.outbox → ∀ c, c ≤ idx0 →
        NCle s t0 c n.term → n.log.take c = (s.llog t0).take c → n'.log.take c = (s.llog t0).take c) :
    NC1 s n' := by
  constructor
  · intro t1 f1 idx1 pre1 hm
    rcases hm with hm | ⟨im, him, hm⟩ | hm
    · rw [hout] at hm
      rcases mem_outbox_append hm with hm | hm
      · exact h.atr t1 f1 idx1 pre1 (Or.inl hm)
      · cases hm; exact hatr
    · rw [hpend] at him; exact h.atr t1 f1 idx1 pre1 (Or.inr (Or.inl ⟨im, him, hm⟩))
    · rw [hdacks] at hm; exact h.atr t1 f1 idx1 pre1 (Or.inr (Or.inr hm))
  · intro t0 f0 idx0 pre0 hm c hc hN
    rw [hout] at hm
    rw [hterm] at hN
    rcases mem_outbox_append hm with hm | hm
    · exact hold t0 f0 idx0 pre0 hm c hc hN (h.ret t0 f0 idx0 pre0 hm c hc hN)
    · cases hm; exact take_of_take_eq hnew hc
  · rw [hpend]; exact h.reti
  · rw [hdacks, hdlog, hdterm]; exact h.retd

/-- the leader of the node's current term holds what the leader of an earlier acknowledged term
held, when all the leaders in between do -/
theorem ncle_cur {s : PSys} {t0 c t : Nat} (hN : NCle s t0 c t) (hle : t0 ≤ t) (hel : Elected s t) :
    (s.llog t).take c = (s.llog t0).take c := by
  by_cases h0 : t0 = t
  · rw [h0]
  · exact hN t (by omega) (Nat.le_refl _) hel

theorem invC1_init : InvC1 init :=
  InvC1.of_nodes (fun _ => NC1.empty rfl rfl rfl)

/-! ### the events that change a log or generate an acknowledgement -/

theorem invC1_rdy (s s' : PSys) (i : Nat) (h : applyEvent s (.rdy i) = .ok s') (hL : InvL s)
    (hC1 : InvC1 s) (g : Grow s s') : InvC1 s' := by
  have hn1 := hC1.node i
  simp only [applyEvent, ok] at h
  split at h
  · cases h
    refine invC1_node s _ g hL hC1 i _ rfl ⟨?_, hn1.ret, ?_, hn1.retd⟩
    · intro t f idx pre hm
      apply hn1.atr t f idx pre
      rcases hm with hm | ⟨im, him, hm⟩ | hm
      · exact Or.inl hm
      · simp only [List.mem_append, List.mem_singleton] at him
        rcases him with him | him
        · exact Or.inr (Or.inl ⟨im, him, hm⟩)
        · subst him; simp only [image, List.mem_filter] at hm; exact Or.inl hm.1
      · exact Or.inr (Or.inr hm)
    · intro im him
      simp only [List.mem_append, List.mem_singleton] at him
      rcases him with him | him
      · exact hn1.reti im him
      · subst him
        intro t0 f idx pre hm c hc hN
        simp only [image, List.mem_filter] at hm
        exact hn1.ret t0 f idx pre hm.1 c hc hN
  · cases h

theorem invC1_persist (s s' : PSys) (i k : Nat) (h : applyEvent s (.persist i k) = .ok s') (hL : InvL s)
    (hC1 : InvC1 s) (g : Grow s s') : InvC1 s' := by
  have hn1 := hC1.node i
  simp only [applyEvent, ok] at h
  split at h
  · split at h
    · rename_i im him; cases h
      have hmem : im ∈ (s.nodes i).pending := List.mem_of_getElem? him
      refine invC1_node s _ g hL hC1 i _ rfl ⟨?_, hn1.ret, ?_, hn1.reti im hmem⟩
      · intro t f idx pre hm
        apply hn1.atr t f idx pre
        rcases hm with hm | ⟨x, hx, hm⟩ | hm
        · exact Or.inl hm
        · exact Or.inr (Or.inl ⟨x, List.mem_of_mem_drop hx, hm⟩)
        · exact Or.inr (Or.inl ⟨im, hmem, hm⟩)
      · intro x hx; exact hn1.reti x (List.mem_of_mem_drop hx)
    · cases h
  · cases h

theorem invC1_restart (s s' : PSys) (i : Nat) (h : applyEvent s (.restart i) = .ok s') (hL : InvL s)
    (hC1 : InvC1 s) (g : Grow s s') : InvC1 s' := by
  have hn1 := hC1.node i
  simp only [applyEvent, ok] at h
  split at h
  · cases h
    refine invC1_node s _ g hL hC1 i _ rfl ⟨?_, ?_, ?_, hn1.retd⟩
    · intro t f idx pre hm
      apply hn1.atr t f idx pre
      rcases hm with hm | ⟨x, hx, _⟩ | hm
      · simp only [List.mem_filter] at hm; exact Or.inr (Or.inr hm.1)
      · simp at hx
      · exact Or.inr (Or.inr hm)
    · intro t0 f idx pre hm c hc hN
      simp only [List.mem_filter] at hm
      exact hn1.retd t0 f idx pre hm.1 c hc hN
    · intro im him; simp at him
  · cases h

theorem invC1_leaderAppend (s s' : PSys) (i : Nat) (e : LEntry) (h : applyEvent s (.leaderAppend i e) = .ok s')
    (hL : InvL s) (hC1 : InvC1 s) (g : Grow s s') : InvC1 s' := by
  have hn1 := hC1.node i
  simp only [applyEvent, ok] at h
  split at h
  · cases h
    refine invC1_node s _ g hL hC1 i _ rfl ⟨hn1.atr, ?_, hn1.reti, hn1.retd⟩
    intro t0 f idx pre hm c hc hN
    have h1 := hn1.ret t0 f idx pre hm c hc hN
    have h2 := (hn1.atr t0 f idx pre (Or.inl hm)).1
    have h3 : c ≤ (s.nodes i).log.length := len_of_take_eq h1 (by omega)
    show ((s.nodes i).log ++ [e]).take c = _
    rw [List.take_append_of_le_length h3]; exact h1
  · cases h

theorem invC1_recvApp (s s' : PSys) (i : Nat) (m : App) (h : applyEvent s (.recvApp i m) = .ok s')
    (hR : InvR s) (hL : InvL s) (hC1 : InvC1 s) (g : Grow s s') : InvC1 s' := by
  have hn1 := hC1.node i
  simp only [applyEvent, ok] at h
  split at h
  · rename_i hg; cases h
    have hm : m ∈ s.apps := by simpa [List.contains_iff_mem] using hg.2.1
    have hok := hL.msg m hm
    have hLL : PFL s.llog (s.llog m.term) := hL.pfl _ (listsOf_llog s m.term)
    have hanchor : termAt (s.nodes i).log m.prev = termAt (s.llog m.term) m.prev := by
      rw [hg.2.2.2.2.2.1]; exact hok.anchor
    have hpre := anchor_take (keep_log s hL i) hLL hg.2.2.2.2.1 (by have := hok.len; omega) hanchor
    have hmt : m.term = (s.nodes i).term := hg.2.2.1
    have hel : Elected s m.term := hok.hl
    have hlen := hok.len
    have hslice := hok.slice
    have htake := mergeAt_take s.llog (s.llog m.term) hLL m.es (s.nodes i).log m.prev (keep_log s hL i)
      hg.2.2.2.2.1 hpre hslice hlen
    rw [hmt] at hel hlen hslice htake
    refine invC1_node s _ g hL hC1 i _ rfl (hn1.newack rfl rfl rfl rfl rfl rfl ⟨hlen, htake, hel⟩ htake ?_)
    intro t0 f0 idx0 pre0 hm0 c hc hN hlog
    have ht0 : t0 ≤ (s.nodes i).term := (hR.own i _ hm0).2 rfl
    have heq := ncle_cur hN ht0 hel
    rw [← heq] at hlog ⊢
    exact mergeAt_keep (s.llog (s.nodes i).term) c m.es (s.nodes i).log m.prev hg.2.2.2.2.1 hslice hlen hlog
  · cases h

theorem invC1_ackCommitted (c0 : Cfg) (s s' : PSys) (i : Nat) (h : applyEvent s (.ackCommitted i) = .ok s')
    (hL : InvL s) (hB : InvB s) (hC : InvC s) (g : Grow s s') : InvC1 s' := by
  have hn1 := hC.c1.node i
  simp only [applyEvent, ok] at h
  split at h
  · rename_i hg; cases h
    have hel : Elected s (s.nodes i).term := by
      have := hg.2.2
      simp only [List.any_eq_true, decide_eq_true_eq] at this
      obtain ⟨m, hm, hmt⟩ := this
      rw [← hmt]; exact (hL.msg m hm).hl
    have key : (s.nodes i).commit ≤ (s.llog (s.nodes i).term).length ∧
        (s.nodes i).log.take (s.nodes i).commit = (s.llog (s.nodes i).term).take (s.nodes i).commit := by
      rcases hC.c3.cm i with h0 | ⟨p, hp, h1, h2, h3⟩
      · rw [h0]; simp
      · have h4 := cmt_prefix_le hB hC.c3 hC.lc hp h2 hel h1
        have h5 := (hC.c3.cq p hp).2.1
        exact ⟨len_of_take_eq h4 (by omega), by rw [h4]; exact h3⟩
    exact invC1_node s _ g hL hC.c1 i _ rfl
      (hn1.newack rfl rfl rfl rfl rfl rfl ⟨key.1, key.2, hel⟩ key.2 (fun _ _ _ _ _ _ _ _ h => h))
  · cases h

theorem invC1_ackSelf (c0 : Cfg) (s s' : PSys) (i idx : Nat) (h : applyEvent s (.ackSelf i idx) = .ok s')
    (hV : InvV (vsys s)) (hL : InvL s) (hC1 : InvC1 s) (g : Grow s s') : InvC1 s' := by
  have hn1 := hC1.node i
  simp only [applyEvent, ok] at h
  split at h
  · rename_i hg; cases h
    have hll := hL.ll i hg.2.1
    have hel : Elected s (s.nodes i).term := by
      have := (hV.ld i (by simpa [vsys, vproj] using hg.2.1)).1
      exact ⟨i, by simpa [vsys, vproj] using this⟩
    refine invC1_node s _ g hL hC1 i _ rfl
      (hn1.newack rfl rfl rfl rfl rfl rfl ⟨?_, ?_, hel⟩ ?_ (fun _ _ _ _ _ _ _ _ h => h))
    · rw [← hll]; exact hg.2.2
    · rw [← hll]
    · show (s.nodes i).log.take idx = _
      rw [← hll]
  · cases h

theorem invC1_installSnap (c0 : Cfg) (s s' : PSys) (i t idx sterm : Nat)
    (h : applyEvent s (.installSnap i t idx sterm) = .ok s')
    (hR : InvR s) (hL : InvL s) (hC : InvC s) (g : Grow s s') : InvC1 s' := by
  have hn1 := hC.c1.node i
  simp only [applyEvent, ok] at h
  split at h
  · rename_i m hm
    split at h
    · rename_i hg; cases h
      have hmem : m ∈ s.snaps := List.mem_of_find?_eq_some hm
      obtain ⟨hel, _, hlen, hpre, hst⟩ := hC.c3.csn m hmem
      have hmt : m.term = (s.nodes i).term := hg.2.1
      rw [hmt] at hel hlen hpre hst
      refine invC1_node s _ g hL hC.c1 i _ rfl (hn1.newack rfl rfl rfl rfl rfl rfl ⟨hlen, hpre, hel⟩ ?_ ?_)
      · show m.pre.take m.idx = _
        rw [hpre, List.take_take, Nat.min_self]
      · intro t0 f0 idx0 pre0 hm0 c hc hN hlog
        have ht0 : t0 ≤ (s.nodes i).term := (hR.own i _ hm0).2 rfl
        have heq := ncle_cur hN ht0 hel
        have hc0 := (hn1.atr t0 f0 idx0 pre0 (Or.inl hm0)).1
        have hcL : c ≤ (s.llog (s.nodes i).term).length := len_of_take_eq heq (by omega)
        rw [← heq] at hlog ⊢
        have hcl : c ≤ (s.nodes i).log.length := len_of_take_eq hlog hcL
        have hcm : c ≤ m.idx := by
          by_cases hle : c ≤ m.idx
          · exact hle
          · exfalso
            rcases hg.2.2.2.2.2 with h1 | h1
            · omega
            · apply h1; rw [hst]; exact termAt_of_take_eq hlog (by omega)
        show m.pre.take c = _
        rw [hpre, List.take_take, Nat.min_eq_left hcm]
    · cases h
  · cases h

/-! ### the step theorem -/

theorem invC1_step (c0 : Cfg) (s s' : PSys) (e : Event)
    (h : applyEvent s e = .ok s')
    (hV : InvV (vsys s)) (hV' : InvV (vsys s')) (hR : InvR s) (hR' : InvR s')
    (hL : InvL s) (hL' : InvL s') (hA : InvA s) (hA' : InvA s')
    (hB : InvB s) (hB' : InvB s') (hC : InvC s) (g : Grow s s') : InvC1 s' := by
  have hC1 := hC.c1
  have same : ∀ i, NC1 s (s.nodes i) := fun i => hC1.node i
  cases e with
  | read r =>
    simp only [applyEvent, ok] at h
    split at h
    · cases h; exact ⟨hC.c1.atr, hC.c1.ret, hC.c1.reti, hC.c1.retd⟩
    · cases h
  | bump i t =>
    simp only [applyEvent, ok] at h
    split at h
    · rename_i hg; cases h
      exact invC1_node s _ g hL hC1 i _ rfl
        ((same i).keep rfl (Nat.le_of_lt hg.2) (fun _ _ _ _ hm => hm) (fun _ hm => hm) rfl rfl rfl)
    · cases h
  | campaign i =>
    simp only [applyEvent, ok] at h
    split at h
    · cases h
      exact invC1_node s _ g hL hC1 i _ rfl
        ((same i).keep rfl (Nat.le_refl _) (by intro t f idx pre hm; simpa using hm) (fun _ hm => hm) rfl rfl rfl)
    · cases h
  | grant i c =>
    simp only [applyEvent, ok] at h
    split at h
    · split at h
      · cases h
        exact invC1_node s _ g hL hC1 i _ rfl
          ((same i).keep rfl (Nat.le_refl _) (by intro t f idx pre hm; simpa using hm) (fun _ hm => hm) rfl rfl rfl)
      · cases h
    · cases h
  | rdy i => exact invC1_rdy s s' i h hL hC1 g
  | persist i k => exact invC1_persist s s' i k h hL hC1 g
  | release i key =>
    simp only [applyEvent, ok] at h
    split at h
    · split at h
      · split at h
        · cases h
          exact invC1_node s _ g hL hC1 i (s.nodes i)
            (by rw [(addReleased_llog _ _).2.2.1, upd_self]) (same i)
        · cases h
      · cases h
    · split at h
      · split at h
        · split at h
          · cases h
            exact invC1_node s _ g hL hC1 i _ (addReleased_llog _ _).2.2.1
              ((same i).keep rfl (Nat.le_refl _) (fun _ _ _ _ hm => List.mem_of_mem_eraseIdx hm)
                (fun _ hm => hm) rfl rfl rfl)
          · cases h
        · cases h
      · cases h
  | crash i =>
    simp only [applyEvent, ok] at h
    split at h
    · cases h
      exact invC1_node s _ g hL hC1 i _ rfl
        ((same i).keep rfl (Nat.le_refl _) (by intro t f idx pre hm; simp at hm)
          (by intro im him; simp at him) rfl rfl rfl)
    · cases h
  | restart i => exact invC1_restart s s' i h hL hC1 g
  | win i cfg q =>
    simp only [applyEvent, ok] at h
    split at h
    · cases h
      exact invC1_node s _ g hL hC1 i _ rfl
        ((same i).keep rfl (Nat.le_refl _) (fun _ _ _ _ hm => hm) (fun _ hm => hm) rfl rfl rfl)
    · cases h
  | stepDown i =>
    simp only [applyEvent, ok] at h
    split at h
    · cases h
      exact invC1_node s _ g hL hC1 i _ rfl
        ((same i).keep rfl (Nat.le_refl _) (fun _ _ _ _ hm => hm) (fun _ hm => hm) rfl rfl rfl)
    · cases h
  | leaderAppend i e => exact invC1_leaderAppend s s' i e h hL hC1 g
  | sendApp i m =>
    simp only [applyEvent, ok] at h
    split at h
    · cases h; exact invC1_node s _ g hL hC1 i (s.nodes i) (by simp [upd_self]) (same i)
    · cases h
  | recvApp i m => exact invC1_recvApp s s' i m h hR hL hC1 g
  | ackCommitted i => exact invC1_ackCommitted c0 s s' i h hL hB hC g
  | ackSelf i idx => exact invC1_ackSelf c0 s s' i idx h hV hL hC1 g
  | commitLeader i c cfg q =>
    simp only [applyEvent, ok] at h
    split at h
    · cases h
      exact invC1_node s _ g hL hC1 i _ rfl
        ((same i).keep rfl (Nat.le_refl _) (fun _ _ _ _ hm => hm) (fun _ hm => hm) rfl rfl rfl)
    · cases h
  | commitApp i c m =>
    simp only [applyEvent, ok] at h
    split at h
    · cases h
      exact invC1_node s _ g hL hC1 i _ rfl
        ((same i).keep rfl (Nat.le_refl _) (fun _ _ _ _ hm => hm) (fun _ hm => hm) rfl rfl rfl)
    · cases h
  | commitHB i c m =>
    simp only [applyEvent, ok] at h
    split at h
    · cases h
      exact invC1_node s _ g hL hC1 i _ rfl
        ((same i).keep rfl (Nat.le_refl _) (fun _ _ _ _ hm => hm) (fun _ hm => hm) rfl rfl rfl)
    · cases h
  | commitClaim i m =>
    simp only [applyEvent, ok] at h
    split at h
    · cases h
      exact invC1_node s _ g hL hC1 i _ rfl
        ((same i).keep rfl (Nat.le_refl _) (fun _ _ _ _ hm => hm) (fun _ hm => hm) rfl rfl rfl)
    · cases h
  | sendHB i to c =>
    simp only [applyEvent, ok] at h
    split at h
    · cases h; exact invC1_node s _ g hL hC1 i (s.nodes i) (by simp [upd_self]) (same i)
    · cases h
  | claim i idx =>
    simp only [applyEvent, ok] at h
    split at h
    · cases h; exact invC1_node s _ g hL hC1 i (s.nodes i) (by simp [upd_self]) (same i)
    · cases h
  | sendSnap i idx =>
    simp only [applyEvent, ok] at h
    split at h
    · cases h; exact invC1_node s _ g hL hC1 i (s.nodes i) (by simp [upd_self]) (same i)
    · cases h
  | installSnap i t idx sterm => exact invC1_installSnap c0 s s' i t idx sterm h hR hL hC g
  | commitSnap i t idx sterm =>
    simp only [applyEvent, ok] at h
    split at h
    · split at h
      · cases h
        exact invC1_node s _ g hL hC1 i _ rfl
          ((same i).keep rfl (Nat.le_refl _) (fun _ _ _ _ hm => hm) (fun _ hm => hm) rfl rfl rfl)
      · cases h
    · cases h
  | bootstrap i donor idx =>
    simp only [applyEvent, ok] at h
    split at h
    · rename_i hg; cases h
      have ho : (s.nodes i).outbox = [] := hg.2.2.2.2.2.2.2.2.1
      have hp : (s.nodes i).pending = [] := hg.2.2.2.2.2.2.2.2.2.1
      have hd : (s.nodes i).dacks = [] := hg.2.2.2.2.2.2.2.2.2.2.2.2.2.2.2
      exact invC1_node s _ g hL hC1 i _ rfl (NC1.empty ho hp hd)
    · cases h

end RaftModel.P
