import RaftProofs.ClusterCommitY

/-!
Cluster-level commit safety, part Z: **what an accepted `MsgAppend` does to the logical log**
(`Accepted`): the anchor matched, the batch is in the new log, everything up to the anchor is kept,
and either nothing changed or the log was cut at the first conflicting index and continued by the
batch.
-/
namespace RaftModel

structure Accepted (g g' : LLog) (m : Message) : Prop where
  anchor : g.matchTerm m.index m.logTerm = true
  snap : g'.snapIdx = g.snapIdx ∧ g'.snapTerm = g.snapTerm
  ents : ∀ e ∈ m.entries, g'.entryAt e.index = some e
  low : ∀ k, k ≤ m.index → g'.entryAt k = g.entryAt k
  cases : g' = g ∨
    (¬ (∀ e ∈ m.entries, g.matchTerm e.index e.term = true) ∧
      g'.lastIndex = m.index + m.entries.length ∧
      ∀ k e, g'.entryAt k = some e → g.entryAt k = some e ∨ e ∈ m.entries)

theorem LLog.matchTerm_entry (g : LLog) {i t : Nat} (hm : g.matchTerm i t = true) (ht : t ≠ 0)
    (hs : g.snapIdx < i) : ∃ e, g.entryAt i = some e ∧ e.term = t := by
  have hl := g.matchTerm_le_last i t hm ht
  obtain ⟨e, he⟩ := g.entryAt_exists hs hl
  refine ⟨e, he, ?_⟩
  unfold LLog.matchTerm at hm
  rw [g.term_of_entry he] at hm
  simpa using hm

theorem LLog.findConflict_zero (g : LLog) : ∀ (ents : List Entry),
    (∀ e ∈ ents, g.matchTerm e.index e.term = true) → g.findConflict ents = 0 := by
  intro ents
  induction ents with
  | nil => intro _; rfl
  | cons e es ih =>
    intro hall
    simp only [LLog.findConflict]
    rw [if_pos (hall e List.mem_cons_self)]
    exact ih (fun x hx => hall x (List.mem_cons_of_mem _ hx))

namespace RaftLog

/-- **an accepted `maybe_append`** -/
theorem maybeAppend_accepted {l l' : RaftLog} (h : l.Inv) {m : Message} {c : Nat} {p : Nat × Nat}
    (hok : MsgOk m) (hag : Agree (msgLog m) l.abs) (hci : l.committed ≤ m.index)
    (hm : l.maybeAppend m.index m.logTerm c m.entries = .ok (l', some p)) :
    Accepted l.abs l'.abs m ∧ l'.Inv ∧
    l'.committed = max l.committed (min c (m.index + m.entries.length)) := by
  have hcg : (msgLog m).Contig := hok.1
  have hmt : l.abs.matchTerm m.index m.logTerm = true := by
    rcases c04_maybeAppend_spec hm with ⟨hn, _⟩ | ⟨_, _, hmt, _⟩
    · cases hn
    · rw [h.matchTerm_abs] at hmt
      injection hmt
  have hcm : l'.committed = max l.committed (min c (m.index + m.entries.length)) := by
    rcases c04_maybeAppend_spec hm with ⟨hn, _⟩ | ⟨_, _, _, hc⟩
    · cases hn
    · exact hc
  have hsnap : l.abs.snapIdx ≤ m.index := by
    have h1 := h.dummy_le_committed
    rw [h.firstIndex_abs] at h1
    simp only [LLog.firstIndex] at h1
    omega
  -- an entry of the batch that matches by term is the log's entry
  have hsame : ∀ e ∈ m.entries, l.abs.matchTerm e.index e.term = true →
      l.abs.entryAt e.index = some e := by
    intro e he hme
    have hidx : m.index < e.index := ((msgLog m).entryAt_lt (hcg.entryAt_of_mem he)).1
    obtain ⟨e0, he0, ht0⟩ := l.abs.matchTerm_entry hme (hok.2 e he) (by omega)
    have := (hag e.index e e0 (hcg.entryAt_of_mem he) he0 ht0.symm).1
    rw [he0, this]
  have hnoconf : l'.abs = l.abs → l'.Inv →
      (∀ e ∈ m.entries, l.abs.matchTerm e.index e.term = true) →
      Accepted l.abs l'.abs m ∧ l'.Inv ∧
        l'.committed = max l.committed (min c (m.index + m.entries.length)) := by
    intro habs hinv hall
    refine ⟨⟨hmt, by rw [habs]; exact ⟨rfl, rfl⟩, fun e he => ?_, fun k _ => by rw [habs],
      .inl habs⟩, hinv, hcm⟩
    rw [habs]; exact hsame e he (hall e he)
  rcases Nat.lt_or_ge l.lastIndex m.index with hgap | hidx
  · by_cases hE : m.entries = []
    · have hm' := hm
      rw [hE] at hm'
      have hs := (maybeAppend_nil hm').1
      exact hnoconf hs.abs (hs.inv h) (by rw [hE]; intro e he; cases he)
    · obtain ⟨e0, es, hE'⟩ := List.exists_cons_of_ne_nil hE
      have hm' := hm
      rw [hE'] at hm'
      have hi0 : e0.index = m.index + 1 := by
        have := hok.1 0 e0 (by rw [hE']; rfl); omega
      exact absurd hm' (maybeAppend_gap h hgap hi0 (hok.2 e0 (by rw [hE']; exact List.mem_cons_self)))
  · obtain ⟨_, hspec⟩ := RaftProps.C14.C14_maybeAppend_spec l h m.index m.logTerm c m.entries
      hok.1 hidx hok.2
    obtain ⟨hnc, hpan, hcf⟩ := hspec hmt
    rcases l.abs.findConflict_char m.entries (m.index + 1) hok.1 with ⟨hz, hall⟩ | ⟨k, hk, hf, hall⟩
    · obtain ⟨hres, hinv'⟩ := hnc hz
      rw [hres] at hm
      cases hm
      exact hnoconf rfl hinv' hall
    · have hpos : 0 < l.abs.findConflict m.entries := by omega
      rcases Nat.lt_or_ge l.committed (l.abs.findConflict m.entries) with hgt | hle
      · obtain ⟨l2, hres, habs, _, _, _, hlast, hinv'⟩ := hcf hgt
        rw [hres] at hm
        cases hm
        have hle : m.index + 1 + k ≤ l.abs.lastIndex + 1 := by
          rcases Nat.eq_zero_or_pos k with hk0 | hkpos
          · rw [← h.lastIndex_abs]; omega
          · have hmem : m.entries[k - 1] ∈ m.entries.take k := by
              rw [List.mem_take_iff_getElem]
              exact ⟨k - 1, by omega, rfl⟩
            have h1 := hall _ hmem
            have h2 := l.abs.matchTerm_le_last _ _ h1 (hok.2 _ (List.getElem_mem _))
            have h3 := hok.1 (k - 1) m.entries[k - 1] (List.getElem?_eq_some_iff.2 ⟨by omega, rfl⟩)
            omega
        -- positions below the conflict are the old ones, positions from it on are the batch's
        have hlow : ∀ i, i < m.index + 1 + k →
            (l.abs.truncateAppend (l.abs.findConflict m.entries - 1)
              (m.entries.drop (l.abs.findConflict m.entries - (m.index + 1)))).entryAt i =
            l.abs.entryAt i := fun i hi => l.abs.truncateAppend_entryAt _ _ i (by omega) (by omega)
        have hhigh : ∀ i, m.index + 1 + k ≤ i →
            (l.abs.truncateAppend (l.abs.findConflict m.entries - 1)
              (m.entries.drop (l.abs.findConflict m.entries - (m.index + 1)))).entryAt i =
            (msgLog m).entryAt i := by
          intro i hi
          unfold LLog.truncateAppend LLog.entryAt msgLog
          dsimp only
          rw [if_neg (by omega), if_neg (by omega)]
          rw [List.getElem?_append_right (by rw [List.length_take]; omega), List.length_take,
            List.getElem?_drop]
          congr 1
          have : l.abs.lastIndex = l.abs.snapIdx + l.abs.ents.length := rfl
          omega
        refine ⟨⟨hmt, by rw [habs]; exact ⟨rfl, rfl⟩, fun e he => ?_, fun i hi => ?_, .inr ⟨?_, ?_, ?_⟩⟩,
          hinv', hcm⟩
        · rw [habs]
          by_cases hlt : e.index < m.index + 1 + k
          · rw [hlow _ hlt]
            apply hsame e he
            obtain ⟨j, hj, rfl⟩ := List.getElem_of_mem he
            have hidx := hok.1 j _ (List.getElem?_eq_some_iff.2 ⟨hj, rfl⟩)
            apply hall
            rw [List.mem_take_iff_getElem]
            exact ⟨j, by omega, rfl⟩
          · rw [hhigh _ (by omega)]; exact hcg.entryAt_of_mem he
        · rw [habs]; exact hlow i (by omega)
        · intro hc
          have := l.abs.findConflict_zero m.entries hc
          omega
        · rw [← hinv'.lastIndex_abs]; exact hlast
        · intro i e he
          rw [habs] at he
          by_cases hlt : i < m.index + 1 + k
          · rw [hlow _ hlt] at he; exact .inl he
          · rw [hhigh _ (by omega)] at he
            exact .inr ((msgLog m).entryAt_mem he)
      · obtain ⟨s, hp⟩ := hpan hpos hle
        rw [hp] at hm
        cases hm

end RaftLog

namespace Raft
namespace CC

/-- **`handle_append_entries`, completely**: nothing is accepted — the log is untouched and the reply
is a rejection or acknowledges the commit index —, or the batch is accepted (`Accepted`) and the reply
acknowledges its last index -/
theorem handleAppendEntries_full {r r' : Raft} {m : Message} (hinv : r.raftLog.Inv) (hok : MsgOk m)
    (hag : Agree (msgLog m) r.raftLog.abs) (h : r.handleAppendEntries m = .ok r') :
    (∃ resp, r'.msgs = r.msgs ++ [resp] ∧ resp.msgType = .msgAppendResponse ∧ r'.term = r.term ∧
      r'.state = r.state ∧ r'.id = r.id) ∧
    ((r'.raftLog = r.raftLog ∧
        ∀ x ∈ r'.msgs, x ∈ r.msgs ∨ x.reject = true ∨ x.index = r.raftLog.committed) ∨
     (Accepted r.raftLog.abs r'.raftLog.abs m ∧ r'.raftLog.Inv ∧
        (r'.raftLog.committed =
          max r.raftLog.committed (min m.commit (m.index + m.entries.length)) ∧
          r.raftLog.committed ≤ m.index) ∧
        ∀ x ∈ r'.msgs, x ∈ r.msgs ∨ (x.reject = false ∧ x.index = m.index + m.entries.length))) := by
  have key : ∀ (r0 : Raft) (x : Message), x.msgType = .msgAppendResponse → x.frm = 0 →
      r0.send x = .ok r' →
      (∃ resp, r'.msgs = r0.msgs ++ [resp] ∧ resp.msgType = .msgAppendResponse ∧ r'.term = r0.term ∧
        r'.state = r0.state ∧ r'.id = r0.id) ∧ r'.raftLog = r0.raftLog ∧
      ∀ y ∈ r'.msgs, y ∈ r0.msgs ∨ (y.reject = x.reject ∧ y.index = x.index) := by
    intro r0 x hx hf hs
    rw [send_eq _ _ _ hs]
    obtain ⟨_, _, f3, _, f5⟩ := sendFill_ack r0 x hx hf
    refine ⟨⟨_, rfl, by rw [sendFill_msgType]; exact hx, rfl, rfl, rfl⟩, rfl, fun y hy => ?_⟩
    rcases List.mem_append.1 hy with g | g
    · exact .inl g
    · rw [List.mem_singleton.1 g]; exact .inr ⟨f5, f3⟩
  unfold Raft.handleAppendEntries at h
  split at h
  · unfold Raft.sendRequestSnapshot at h
    simp only [] at h
    split at h
    · obtain ⟨k1, k2, k3⟩ := key _ _ rfl rfl h
      exact ⟨k1, .inl ⟨k2, fun x hx => (k3 x hx).imp (fun g => g) (fun g => .inl g.1)⟩⟩
    · cases h
    · cases h
  · split at h
    · obtain ⟨k1, k2, k3⟩ := key _ _ rfl rfl h
      exact ⟨k1, .inl ⟨k2, fun x hx => (k3 x hx).imp (fun g => g) (fun g => .inr g.2)⟩⟩
    · rename_i hci
      split at h
      · cases h
      · cases h
      · rename_i log ci last hma
        simp only [] at h
        have hlast : last = m.index + m.entries.length := by
          rcases RaftLog.c04_maybeAppend_spec hma with ⟨hn, _⟩ | ⟨ci', hn, _⟩
          · cases hn
          · injection hn with hn; injection hn with _ hn
        obtain ⟨a1, a2, a3⟩ := RaftLog.maybeAppend_accepted hinv hok hag (by omega) hma
        obtain ⟨k1, k2, k3⟩ := key ({ r with raftLog := log } : Raft) _ rfl rfl h
        refine ⟨k1, .inr ⟨by rw [k2]; exact a1, by rw [k2]; exact a2,
          ⟨by rw [k2]; exact a3, by omega⟩,
          fun x hx => (k3 x hx).imp (fun g => g) (fun g => ⟨g.1, by rw [g.2]; exact hlast⟩)⟩⟩
      · rename_i log hma
        simp only [] at h
        have hl : log = r.raftLog := by
          rcases RaftLog.c04_maybeAppend_spec hma with ⟨_, hl, _⟩ | ⟨ci', hn, _⟩
          · exact hl
          · cases hn
        subst hl
        split at h
        · cases h
        · cases h
        · cases h
        · obtain ⟨k1, k2, k3⟩ := key ({ r with raftLog := r.raftLog } : Raft) _ rfl rfl h
          exact ⟨k1, .inl ⟨k2, fun x hx => (k3 x hx).imp (fun g => g) (fun g => .inl g.1)⟩⟩

end CC
end Raft
end RaftModel
