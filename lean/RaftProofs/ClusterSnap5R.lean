import RaftProofs.ClusterSnap5Q

/-!
[Copy of `ClusterSnap2R.lean` for the development `Snap5` (with `request_snapshot`): `NoReq` is replaced by
`ReqOk`, `SnapCase.restored` is widened — see `ClusterSnap5A.lean`, `RaftProps/C01i.lean`.]

Commit safety of `ClusterSem` with compaction and snapshots, part 2R (as `ClusterSnapQ`): the last term of
a log is not below the term of any entry of a led term its ghost log holds (`has_le_lastTerm`; the last
entry of the ghost log was, by `NodeFull.pastL`, an entry of a real log of the past), a node that led a
term is never candidate of it afterwards (`led_not_cand`), and the induction step for **granted votes**
(`g1_step`).
-/
namespace RaftModel
namespace Cluster
namespace Snap5
open Node Raft Raft.CC RaftProps.C02 RaftProps.C05 Snap

variable {cfg : JointConfig} {c0 : Nat} {h : List Sys}

/-- the chains of the initial state start at the common snapshot point and are gap-free -/
theorem init_chain (H : Hyp2w cfg c0 h) {s0 : Sys} (h0 : h[0]? = some s0) {loc : Loc} {g : LLog}
    (hat : At s0 loc g) : g.snapIdx = c0 ∧ g.Contig := by
  have hinit := hist_init H.hist s0 h0
  have hsn : ∀ j stj, s0.node j = some stj → (storeLog stj.raft.raftLog.store).snapIdx = c0 := by
    intro j stj h1
    show stj.raft.raftLog.store.firstIndex - 1 = c0
    rw [H.first0 s0 h0 j stj h1]; rfl
  cases loc with
  | log j =>
    obtain ⟨stj, h1, h2⟩ := hat
    have o := node_ok H h0 h1
    rw [h2]; exact ⟨by rw [← o.sidx (H.pend0 s0 h0 j stj h1)]; exact hsn j stj h1, abs_Contig o.inv⟩
  | store j =>
    obtain ⟨stj, h1, h2⟩ := hat
    have o := node_ok H h0 h1
    rw [h2]; exact ⟨hsn j stj h1, storeLog_contig o.inv.storeWF⟩
  | queue j =>
    obtain ⟨stj, x, h1, hx, _⟩ := hat
    rw [init_queue hinit j stj h1] at hx; cases hx
  | net =>
    obtain ⟨x, hx, _⟩ := hat
    rw [hinit.1] at hx; cases hx

/-- **the last term of a log is not below the term of an entry of a led term it holds** (in its
ghost log) -/
theorem has_le_lastTerm (H : Hyp3a cfg c0 h) {n : Nat} {a : Sys} (ha : h[n]? = some a) {v : Nat}
    {st : NState} (hv : a.node v = some st) {c t : Nat} (hh : Has (FL h c0 st) c t)
    {n' : Nat} {s' : Sys} {l' : Nat} (hn' : h[n']? = some s') (hl' : leads s' l' t) {lt : Nat}
    (hlt : st.raft.raftLog.lastTerm = .ok lt) : t ≤ lt := by
  have H2 := H.toHyp2w
  have o := node_ok H2 ha hv
  have I := (ghost_inv H2 n a ha).node v st hv
  rw [o.inv.lastTerm_abs] at hlt
  obtain ⟨ec, hec, hect⟩ := hh
  have hcl := (FL h c0 st).entryAt_lt hec
  rw [I.log.last, I.log.snap] at hcl
  -- the last entry of the ghost log carries the last term, and was an entry of a real log
  obtain ⟨e, he, helt⟩ := I.log.lastTerm hlt (by omega)
  subst helt
  obtain ⟨m0, sm, loc0, g0, hm0, hsm, hat0, hg0⟩ := I.pastL _ e he
  obtain ⟨s0, h0, hprov⟩ := entry_prov H2
  rcases hprov m0 sm hsm loc0 g0 hat0 _ e hg0 with ⟨loc, g, i, hat, hg⟩ | hborn
  · -- an entry of the initial state: then the entry of term `t` below it is initial, too
    exfalso
    obtain ⟨hgs, hgc⟩ := init_chain H2 h0 hat
    have hi : i = st.raft.raftLog.abs.lastIndex := by
      rw [← hgc.index hg, I.log.contig.index he]
    subst hi
    have hag : Agree (FL h c0 st) g :=
      agree_of_derived (hist_agree H2) I.log.der (DerivedFrom.of_mem ⟨0, s0, loc, h0, hat⟩)
    have heq := eq_below hag (I.log.snap.trans hgs.symm) he hg rfl c hcl.2
    have : EntriesOf s0 ec := ⟨loc, g, c, hat, by rw [← heq]; exact hec⟩
    have := init_entry_term H2 h0 this hn' hl'
    omega
  · -- created by the leader of its term, whose log holds the entry of term `t`, too
    obtain ⟨m, s, l, stl, hm, hs, hl, hsl, htl, hel, _⟩ := hborn
    have Il := (ghost_inv H2 m s hs).node l stl hl
    have heq := flogs_eq_below H2 ha hs hv hl he (Il.log.entry hel) rfl c hcl.2
    have hmem : ec ∈ (FL h c0 stl).ents :=
      (FL h c0 stl).entryAt_mem (by rw [← heq]; exact hec)
    have := (term_le H m s hs).log l stl hl ec hmem
    omega

/-- **a node that led a term is never candidate of that term afterwards** -/
theorem led_not_cand (H : Hyp2w cfg c0 h) {m' : Nat} {s' : Sys} {l T : Nat} (hm' : h[m']? = some s')
    (hl : leads s' l T) :
    ∀ (d : Nat) (s : Sys), h[m' + d]? = some s → ∀ st, s.node l = some st →
      ¬ (st.raft.state = .candidate ∧ st.raft.term = T) := by
  intro d
  induction d with
  | zero =>
    intro s hs st hst ⟨hc, _⟩
    rw [Nat.add_zero, hm'] at hs; cases hs
    obtain ⟨st2, h2, h3, _⟩ := hl
    rw [hst] at h2; cases h2
    rw [hc] at h3; cases h3
  | succ d ih =>
    intro b hb st' hst' ⟨hc, ht⟩
    have hlt : m' + d < h.length := by
      rcases Nat.lt_or_ge (m' + d) h.length with c | c
      · exact c
      · have : h.length ≤ m' + (d + 1) := by omega
        rw [List.getElem?_eq_none this] at hb; cases hb
    have ha : h[m' + d]? = some h[m' + d] := List.getElem?_eq_some_iff.2 ⟨hlt, rfl⟩
    have hfl := (leader_floor H (mem_of_get hm') hl).later H.hist hm' ha (Nat.le_add_right _ _)
    obtain ⟨st, hst, hf1, _⟩ := hfl
    obtain ⟨k, stk, stk', hka, hkb, hoth, hs⟩ := H.stp ha (by rw [← hb]; rfl)
    by_cases hlk : l = k
    · subst hlk
      have hstk : st = stk := by rw [hst] at hka; exact Option.some.inj hka
      subst hstk
      rw [hkb] at hst'; cases hst'
      cases hs with
      | restart c rnd hboot _ _ =>
        rw [(CV.boot_booted c _ rnd st' hboot).state] at hc; cases hc
      | send _ _ _ hsame _ _ =>
        exact ih _ ha st hst ⟨by rw [← hsame.2.2]; exact hc, by rw [← hsame.2.1]; exact ht⟩
      | snap rnd m hm hto hty hpn hout hnet =>
        cases hout with
        | skip hr => exact ih _ ha st hst ⟨by rw [hr] at hc; exact hc, by rw [hr] at ht; exact ht⟩
        | handled x hsf => rw [hsf] at hc; cases hc
      | psnap rnd hp hout hpend hnet =>
        obtain ⟨_, p2, p3⟩ := persist_same hout
        exact ih _ ha st hst ⟨by rw [← p3]; exact hc, by rw [← p2]; exact ht⟩
      | call rnd op res hop hnc _ hns hpn _ hcall _ _ _ =>
        have hL := (call_facts H ha hst hop hnc hns hpn hcall).2.1
        rcases hL.rt.cand hc with c | ⟨c1, c2⟩
        · omega
        · exact ih _ ha st hst ⟨c2, by rw [c1]; exact ht⟩
    · have : b.node l = (h[m' + d]).node l := hoth l hlk
      rw [this, hst] at hst'; cases hst'
      exact ih _ ha _ hst ⟨hc, ht⟩

/-- a granted vote that is around carries a term its sender has reached -/
theorem grant_term_le (H : Hyp2w cfg c0 h) {n : Nat} {a : Sys} (ha : h[n]? = some a) {v : Nat}
    {st : NState} (hv : a.node v = some st) {g : Message} (hg : g ∈ a.net ∨ g ∈ st.raft.msgs)
    (hig : isGrant g) (hfrm : g.frm = v) : g.term ≤ st.raft.term := by
  have I1 := (hist_all H.hist).1 a (mem_of_get ha)
  have hrv : CV.isRVm g = true := by simp [CV.isRVm, hig.1, hig.2]
  have hge : CV.Ge st.raft g.term (tgt g) := by
    rcases hg with c | c
    · obtain ⟨stq, h1, hok, _⟩ := I1.net g c hrv
      rw [hfrm, hv] at h1; cases h1
      exact hok.2.2.2.1
    · exact (I1.queue v st hv g c hrv).2.2.2.1
  rcases hge with c | ⟨c, _⟩ <;> omega

theorem g1_step (H : Hyp3a cfg c0 h) {n : Nat} (S : SAll h c0 n) {a b : Sys}
    (ha : h[n]? = some a) (hb : h[n + 1]? = some b) :
    ∀ E : Ev, E.ok h → ∀ v st' g, b.node v = some st' → (g ∈ b.net ∨ g ∈ st'.raft.msgs) →
      isGrant g → g.frm = v → E.t < g.term → AckedMem b (n + 1) E v st' →
      ¬ LedBy h (n + 1) g.term →
      ∃ q ∈ b.net, q.msgType = .msgRequestVote ∧ q.frm = g.to ∧ q.term = g.term ∧
        UpTo q E.c E.t := by
  intro E hE v st' g hvb hg hig hfrm hEt hk hnl
  have H2 := H.toHyp2w
  have Sa := S n a (Nat.le_refl _) ha
  have hnl' : ¬ LedBy h n g.term := fun hc => hnl (hc.mono (Nat.le_succ _))
  obtain ⟨_, _, hc0⟩ := Ev.leaderLog H2 hE
  obtain ⟨k, stk, stk', hka, hkb, hoth, hs⟩ := H2.stp ha hb
  -- from the situation before the step
  have fromOld : ∀ st, a.node v = some st → (g ∈ a.net ∨ g ∈ st.raft.msgs) → AckedMem a n E v st →
      ∃ q ∈ b.net, q.msgType = .msgRequestVote ∧ q.frm = g.to ∧ q.term = g.term ∧
        UpTo q E.c E.t := by
    intro st hst hg' hk'
    obtain ⟨q, hq, h2⟩ := Sa.g1 E hE v st g hst hg' hig hfrm hEt hk' hnl'
    exact ⟨q, hs.net_mono q hq, h2⟩
  by_cases hvk : v = k
  · subst hvk
    have hkb' := hkb
    rw [hkb] at hvb; cases hvb
    cases hs with
    | restart c rnd hboot hnet _ =>
      have hbt := CV.boot_booted c _ rnd st' hboot
      have hne : E.nE ≠ n := by
        refine not_ev_of_same hE ha hb (fun w sta stb hwa hwb hl => ?_)
        by_cases hw : w = v
        · subst hw
          rw [hkb'] at hwb; cases hwb
          rw [hbt.state] at hl; cases hl
        · rw [hoth w hw, hwa] at hwb; cases hwb; exact Nat.le_refl _
      refine fromOld stk hka ?_ (acked_back (fun x hx => by rw [hnet] at hx; exact .inl hx)
        (fun x hx => by rw [hbt.msgs] at hx; cases hx) hne hk)
      rcases hg with c | c
      · rw [hnet] at c; exact .inl c
      · rw [hbt.msgs] at c; cases c
    | send hp hu hq hsame hnet _ =>
      have hne : E.nE ≠ n := by
        refine not_ev_of_same hE ha hb (fun w sta stb hwa hwb _ => ?_)
        by_cases hw : w = v
        · subst hw
          rw [hkb'] at hwb; cases hwb
          rw [hka] at hwa; cases hwa
          rw [hsame.1]; exact Nat.le_refl _
        · rw [hoth w hw, hwa] at hwb; cases hwb; exact Nat.le_refl _
      refine fromOld stk hka ?_ (acked_back (fun x hx => by
        rw [hnet] at hx; exact List.mem_append.1 hx) (fun x hx => by rw [hq] at hx; cases hx) hne hk)
      rcases hg with c | c
      · rw [hnet] at c; exact List.mem_append.1 c
      · rw [hq] at c; cases c
    | psnap rnd hp hout hpend hnet =>
      have hne := not_ev_at hE ha hb hka hkb' hoth (.inr (Nat.le_of_eq (persist_same hout).1))
      have hq := PersistOut.msgs hout
      refine fromOld stk hka ?_ (acked_back (fun x hx => by rw [hnet] at hx; exact .inl hx)
        (fun x hx => by rw [hq] at hx; exact hx) hne hk)
      rcases hg with c | c
      · rw [hnet] at c; exact .inl c
      · rw [hq] at c; exact .inr c
    | snap rnd m hm hto hty hpn hout hnet =>
      cases hout with
      | skip hr =>
        have hne := not_ev_at hE ha hb hka hkb' hoth (.inr (by rw [hr]; exact Nat.le_refl _))
        refine fromOld stk hka ?_ (acked_back (fun x hx => by rw [hnet] at hx; exact .inl hx)
          (fun x hx => by rw [hr] at hx; exact hx) hne hk)
        rcases hg with c | c
        · rw [hnet] at c; exact .inl c
        · rw [hr] at c; exact .inr c
      | handled x hsf _ hle _ hq hack _ _ hxt _ _ =>
        -- the only new message is an acknowledgement of the node's (new) term
        have hne := not_ev_at hE ha hb hka hkb' hoth (.inl (by rw [hsf]; intro hc; cases hc))
        have hgold : g ∈ a.net ∨ g ∈ stk.raft.msgs := by
          rcases hg with c | c
          · rw [hnet] at c; exact .inl c
          · rw [hq] at c
            rcases List.mem_append.1 c with d | d
            · exact .inr d
            · exfalso
              have e := List.mem_singleton.1 d
              subst e
              have h1 := hig.1
              rw [hack.1] at h1; cases h1
        have hgt := grant_term_le H2 ha hka hgold hig hfrm
        have hkold : AckedMem a n E v stk := by
          rcases hk with ⟨y, hy, hyack, hyf, hyt, hyi⟩ | ⟨h1, h2, h3⟩
          · rcases hy with c | c
            · rw [hnet] at c; exact .inl ⟨y, .inl c, hyack, hyf, hyt, hyi⟩
            · rw [hq] at c
              rcases List.mem_append.1 c with d | d
              · exact .inl ⟨y, .inr d, hyack, hyf, hyt, hyi⟩
              · exfalso
                have e := List.mem_singleton.1 d
                subst e
                omega
          · exact .inr ⟨h1, by omega, h3⟩
        exact fromOld stk hka hgold hkold
    | call rnd op res hop hnc hca hns hpn hss hcall hnet _ _ =>
      have hL := (call_facts H2 ha hka hop hnc hns hpn hcall).2.1
      have I1b := (hist_all H.hist).1 b (mem_of_get hb)
      -- the granted vote binds the node to a term beyond the event's
      have hgt' : g.term ≤ st'.raft.term := grant_term_le H2 hb hkb' hg hig hfrm
      -- so the acknowledgement is not new, and the event is not this step
      have hkold : AckedMem a n E v stk := by
        rcases hk with ⟨x, hx, hack, hxf, hxt, hxi⟩ | ⟨h1, h2, h3⟩
        · have hx0 : x.index ≠ 0 := by omega
          by_cases hold : x ∈ a.net ∨ x ∈ stk.raft.msgs
          · exact .inl ⟨x, hold, hack, hxf, hxt, hxi⟩
          · exfalso
            have hxq : x ∈ st'.raft.msgs ∧ x ∉ stk.raft.msgs := by
              rcases hx with c | c
              · rw [hnet] at c; exact absurd (.inl c) hold
              · exact ⟨c, fun d => hold (.inr d)⟩
            obtain ⟨_, f2, _⟩ := fresh_ack2 H2 ha hb hka hkb' hop hnc hns hpn hcall hxq.1 hxq.2 hack hx0
            omega
        · by_cases hne : E.nE = n
          · exfalso
            obtain ⟨a', b', sta, stb, ha', hb', hla, hlb, _, ht, _⟩ := id hE
            rw [hne, hb] at hb'; cases hb'
            rw [← h1, hkb'] at hlb; cases hlb
            omega
          · exact .inr ⟨h1, by omega, h3⟩
      by_cases hgold : g ∈ a.net ∨ g ∈ stk.raft.msgs
      · exact fromOld stk hka hgold hkold
      · -- a fresh grant: it answers a delivered request that is at least as up-to-date as the log
        have hgq : g ∈ st'.raft.msgs ∧ g ∉ stk.raft.msgs := by
          rcases hg with c | c
          · rw [hnet] at c; exact absurd (.inl c) hgold
          · exact ⟨c, fun d => hgold (.inr d)⟩
        have hop' : appOp op = true ∨ ∃ m, op = .step m := by
          rcases hop with c | ⟨m, c, _⟩
          · exact .inl c
          · exact .inr ⟨m, c⟩
        obtain ⟨m, hopm, hty, hto, hterm, lt, hlt, hup⟩ :=
          fresh_grant hcall hop' hgq.1 hgq.2 hig
        have hm : m ∈ a.net := by
          rcases hop with c | ⟨m', c, c2, _⟩
          · rw [hopm] at c; cases c
          · rw [hopm] at c; cases c; exact c2
        have hh := Sa.retm E hE v stk hka hkold
        obtain ⟨a', b', sta, stb, _, hb', _, hlb, hsl, htl, _⟩ := id hE
        have hle := has_le_lastTerm H ha hka hh hb' ⟨stb, hlb, hsl, htl⟩ hlt
        have o := node_ok H2 ha hka
        refine ⟨m, by rw [hnet]; exact hm, hty, hto.symm, hterm.symm, ?_⟩
        obtain ⟨ec, hec, _⟩ := hh
        have hcl := ((FL h c0 stk).entryAt_lt hec).2
        rw [fl_last H2 ha hka, ← o.inv.lastIndex_abs] at hcl
        rcases hup with c | ⟨c1, c2⟩
        · exact .inl (by omega)
        · by_cases hlt2 : E.t < lt
          · exact .inl (by omega)
          · exact .inr ⟨by omega, by omega⟩
  · have hva : a.node v = some st' := by rw [← hoth v hvk]; exact hvb
    obtain ⟨o1, _, o3⟩ := sm_other H2 ha hb Sa hka hs hvk hva
    refine fromOld st' hva (o3 g hg hig hfrm) ?_
    rcases hk with ⟨x, hx, hack, hxf, hxt, hxi⟩ | ⟨h1, h2, h3⟩
    · exact .inl ⟨x, o1 x hx hack (by omega) hxf, hack, hxf, hxt, hxi⟩
    · by_cases he : E.nE = n
      · have := ev_at_step hE (by rw [he]; exact ha) (by rw [he]; exact hb) hoth
        exact absurd (h1.trans this) hvk
      · exact .inr ⟨h1, by omega, h3⟩


end Snap5
end Cluster
end RaftModel
