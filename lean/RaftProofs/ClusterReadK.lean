import RaftProofs.ClusterReadJ

/-!
Cluster-level ReadIndex safety, part K: late contexts, the term floor behind every heartbeat response
that carries a late context (`hbr_floor`), the commit index of one node over a stretch without restart
(`commit_mono`), and **the read index recorded at registration covers every earlier commit of a term not
above the leader's** (`idx_ok_reg`).
-/
namespace RaftModel
namespace Cluster
open Node Raft Raft.CC Raft.RD RaftProps.C02 RaftProps.C05

variable {cfg : JointConfig} {c0 : Nat} {h : List Sys}

/-- the context `K` is not empty and is not registered by any step before index `n0` -/
def Late (h : List Sys) (n0 : Nat) (K : Bytes) : Prop := K ≠ [] ∧ ∀ n i, RegAt h n i K → n0 ≤ n

theorem late_not_occ (H : RdHyp cfg c0 h) {n0 k : Nat} {s : Sys} (hk : h[k]? = some s)
    (hle : k ≤ n0) {K : Bytes} (hL : Late h n0 K) : ¬ Occ s K := by
  intro ho
  obtain ⟨n, i, h1, h2⟩ := occ_issued H k s hk K hL.1 ho
  have := hL.2 n i h2
  omega

/-- the sender of `x` was not below any of its term floors of `s0` when it sent `x` -/
def FloorOK (s0 : Sys) (x : Message) : Prop := ∀ τ, TermFloor s0 x.frm τ → τ ≤ x.term

/-- every heartbeat response with a late context was sent after `h[n0]` -/
structure HbrFloor (h : List Sys) (n0 : Nat) (s0 s : Sys) : Prop where
  q : ∀ v st, s.node v = some st → ∀ x ∈ st.raft.msgs, x.msgType = .msgHeartbeatResponse →
    Late h n0 x.context → FloorOK s0 x
  net : ∀ x ∈ s.net, x.msgType = .msgHeartbeatResponse → Late h n0 x.context → FloorOK s0 x

theorem hbr_floor (H : RdHyp cfg c0 h) {n0 : Nat} {s0 : Sys} (hn0 : h[n0]? = some s0) :
    ∀ (k : Nat) (s : Sys), h[k]? = some s → HbrFloor h n0 s0 s := by
  have H2 := H.toHyp3w.toHyp2w
  refine hist_induct h _ ?_ ?_
  · intro s h0
    have hinit := hist_init H2.hist s h0
    refine ⟨fun v st hv x hx => ?_, fun x hx => ?_⟩
    · rw [init_queue hinit v st hv] at hx; cases hx
    · rw [hinit.1] at hx; cases hx
  · intro n a b ha hb ih
    cases rd_step H ha hb with
    | call k st st' m hk hbe hm ho =>
      subst hbe
      refine ⟨fun v stv hv x hx hty hL => ?_, ih.net⟩
      rcases node_cases hv with ⟨e1, e2⟩ | ⟨_, e2⟩
      · subst e1; subst e2
        rcases ho.msgs x hx with c | c | c | c
        · exact ih.q v st hk x c hty hL
        · rw [hty] at c; cases c
        · rw [c.1] at hty; cases hty
        · -- a fresh response: the step is after `n0`
          have hle : n0 ≤ n := by
            apply Classical.byContradiction
            intro hc
            exact late_not_occ H hb (by omega) hL
              (.inl ⟨v, stv, node_setNode_self a v stv, .inr (.inr (.inl ⟨x, hx, by rw [hty]; rfl, rfl⟩))⟩)
          intro τ hτ
          obtain ⟨st2, q1, q2, _⟩ := hτ.later H2.hist hn0 ha hle
          have hid := (node_ok H2 ha hk).id
          rw [c.2.2.2.1, hid, hk] at q1
          cases q1
          exact Nat.le_trans q2 c.2.2.2.2
      · exact ih.q v stv e2 x hx hty hL
    | read k st st' K' rnd res hk hbe hcall ho =>
      subst hbe
      refine ⟨fun v stv hv x hx hty hL => ?_, ih.net⟩
      rcases node_cases hv with ⟨e1, e2⟩ | ⟨_, e2⟩
      · subst e1; subst e2
        cases ho with
        | frame hf =>
          have : x ∈ rdOf stv.raft.msgs := mem_rdOf.2 ⟨hx, by unfold isRd; rw [hty]; rfl⟩
          rw [hf.rd] at this
          exact ih.q v st hk x (mem_rdOf.1 this).1 hty hL
        | now hs =>
          exfalso
          rcases hs with c | c
          · rw [not_singleton H2 (mem_of_get ha) hk] at c; cases c
          · exact c (H.safe a (mem_of_get ha) v st hk)
        | reg hl hc ro hadd hcore hmsgs =>
          rcases hmsgs x hx with c | ⟨c, _⟩
          · exact ih.q v st hk x c hty hL
          · rw [c] at hty; cases hty
      · exact ih.q v stv e2 x hx hty hL
    | send k st st' hk hbe hst =>
      subst hbe
      refine ⟨fun v stv hv x hx hty hL => ?_, fun x hx hty hL => ?_⟩
      · have hv' : (a.setNode k st').node v = some stv := hv
        rcases node_cases hv' with ⟨e1, e2⟩ | ⟨_, e2⟩
        · subst e1; subst e2
          rw [hst] at hx; cases hx
        · exact ih.q v stv e2 x hx hty hL
      · have hx' : x ∈ a.net ++ st.raft.msgs := hx
        rcases List.mem_append.1 hx' with c | c
        · exact ih.net x c hty hL
        · exact ih.q k st hk x c hty hL
    | restart k st st' hk hbe hf hq =>
      subst hbe
      refine ⟨fun v stv hv x hx hty hL => ?_, ih.net⟩
      rcases node_cases hv with ⟨e1, e2⟩ | ⟨_, e2⟩
      · subst e1; subst e2
        rw [hq] at hx; cases hx
      · exact ih.q v stv e2 x hx hty hL

/-! ### the commit index of one node over a stretch without restart -/

theorem commit_mono (H : Hyp2w cfg c0 h) (v : Nat) : ∀ (d n : Nat) (s s' : Sys) (st st' : NState),
    h[n]? = some s → h[n + d]? = some s' →
    (∀ m a b, n ≤ m → m < n + d → h[m]? = some a → h[m + 1]? = some b → ¬ IsRestart v a b) →
    s.node v = some st → s'.node v = some st' →
    st.raft.raftLog.committed ≤ st'.raft.raftLog.committed := by
  intro d
  induction d with
  | zero =>
    intro n s s' st st' hn hn' _ hv hv'
    rw [Nat.add_zero, hn] at hn'; cases hn'
    rw [hv] at hv'; cases hv'
    exact Nat.le_refl _
  | succ d ih =>
    intro n s s' st st' hn hn' hnr hv hv'
    have hlt : n + 1 < h.length := by
      rcases Nat.lt_or_ge (n + 1) h.length with c | c
      · exact c
      · have : h.length ≤ n + (d + 1) := by omega
        rw [List.getElem?_eq_none this] at hn'; cases hn'
    obtain ⟨b, h1⟩ : ∃ b, h[n + 1]? = some b := ⟨_, List.getElem?_eq_some_iff.2 ⟨hlt, rfl⟩⟩
    have hstep := H.steps n s b hn h1
    obtain ⟨st1, hv1, _, _⟩ := C06_cluster_step_term_vote s b hstep.step v st hv
    have hle1 : st.raft.raftLog.committed ≤ st1.raft.raftLog.committed := by
      have hno := hnr n s b (Nat.le_refl _) (by omega) hn h1
      have callCase : ∀ (k : Nat) (sk sk' : NState) (rnd : Option Nat) (op : NodeOp) (res : OpRes),
          s.node k = some sk → (appOp op = true ∨ ∃ m, op = .step m ∧ m ∈ s.net ∧ m.to = k) →
          (∀ j, op ≠ .compact j) → Node.call sk rnd op = .ok (res, sk') →
          (s.setNode k sk').node v = some st1 →
          st.raft.raftLog.committed ≤ st1.raft.raftLog.committed := by
        intro k sk sk' rnd op res hk hop hnc hcall hv1'
        rcases node_cases hv1' with ⟨e1, e2⟩ | ⟨_, e2⟩
        · subst e1; subst e2
          rw [hv] at hk; cases hk
          exact (call_more H hn hv hop hnc hcall).1.1
        · rw [hv] at e2; cases e2; exact Nat.le_refl _
      cases hstep with
      | call k sk sk' rnd op res q1 q2 q3 _ q4 => exact callCase k sk sk' rnd op res q1 (.inl q2) q3 q4 hv1
      | deliver k sk sk' rnd m res q1 q2 q3 q4 =>
        exact callCase k sk sk' rnd (.step m) res q1 (.inr ⟨m, rfl, q2, q3⟩)
          (fun j hc => by cases hc) q4 hv1
      | send k sk sk' q1 _ _ q3 =>
        have hv1' : (s.setNode k sk').node v = some st1 := hv1
        rcases node_cases hv1' with ⟨e1, e2⟩ | ⟨_, e2⟩
        · subst e1; subst e2
          rw [hv] at q1; cases q1
          unfold Node.call at q3
          simp only [applyOp] at q3
          cases q3
          exact Nat.le_refl _
        · rw [hv] at e2; cases e2; exact Nat.le_refl _
      | restart k sk sk' c rnd q1 q2 q3 =>
        rcases node_cases hv1 with ⟨e1, e2⟩ | ⟨_, e2⟩
        · subst e1; subst e2
          exact absurd ⟨sk, st1, c, rnd, q1, q2, q3, rfl⟩ hno
        · rw [hv] at e2; cases e2; exact Nat.le_refl _
    have := ih (n + 1) b s' st1 st' h1 (by rw [← hn']; congr 1; omega)
      (fun m a b g1 g2 => hnr m a b (by omega) (by omega)) hv1 hv'
    omega

/-! ### the read index recorded at registration -/

/-- the read index `r` is not below the common snapshot point and covers every commit event before
`h[n0]` of a term at most `t` -/
def IdxOK (h : List Sys) (c0 n0 t r : Nat) : Prop :=
  c0 ≤ r ∧ ∀ E : Ev, E.ok h → E.nE < n0 → E.t ≤ t → E.c ≤ r

/-- **a leader that has committed an entry of its own term has a commit index that covers every
earlier commit event of its own and of all earlier terms** (its own: the commit index of a leader only
grows; earlier terms: Leader Completeness — the committed entry of an earlier term cannot lie behind
an entry of the leader's term) -/
theorem idx_ok_reg (H : Hyp3a cfg c0 h) {n0 : Nat} {a : Sys} (ha : h[n0]? = some a) {v : Nat}
    {st : NState} (hv : a.node v = some st) (hl : st.raft.state = .leader)
    (hc : st.raft.commitToCurrentTerm = .ok true) :
    IdxOK h c0 n0 st.raft.term st.raft.raftLog.committed := by
  have H2 := H.toHyp2w
  have o := node_ok H2 ha hv
  obtain ⟨s0, h0, hall⟩ := H2.inv_at
  have htz : st.raft.term ≠ 0 := (hall a (mem_of_get ha)).tz v st hv (.inr hl)
  have hterm : st.raft.raftLog.term st.raft.raftLog.committed = .ok st.raft.term := by
    unfold commitToCurrentTerm at hc
    split at hc
    · rename_i t ht
      injection hc with hc
      have : t = st.raft.term := by simpa using hc
      rw [ht, this]
    · cases hc
    · cases hc
  refine ⟨c0_le_committed H2 ha hv, fun E hE hlt hle => ?_⟩
  obtain ⟨a', b', sta, stb, ea, eb, hla, hlb, hs, ht, hcE, hg, _, _, _, _, _⟩ := Ev.facts H2 hE
  by_cases heq : E.t = st.raft.term
  · -- the leader's own earlier commit
    have hll : E.l = v :=
      C02_cluster_election_safety cfg H2.ne H2.nd1 H2.nd2 h H2.hist H2.fix b' a (mem_of_get eb)
        (mem_of_get ha) E.l v E.t ⟨stb, hlb, hs, ht⟩ ⟨st, hv, hl, heq.symm⟩
    rw [hll] at hlb
    obtain ⟨d, hd⟩ : ∃ d, n0 = E.nE + 1 + d := ⟨n0 - (E.nE + 1), by omega⟩
    have ha' : h[E.nE + 1 + d]? = some a := by rw [← hd]; exact ha
    have hnr := no_restart_between H2 eb ha' ⟨stb, hlb, hs, ht⟩ ⟨st, hv, hl, heq.symm⟩
    have := commit_mono H2 v d (E.nE + 1) b' a stb st eb ha' hnr hlb hv
    rw [hcE]; exact this
  · have hlt2 : E.t < st.raft.term := by omega
    apply Classical.byContradiction
    intro hgt
    have hgt : st.raft.raftLog.committed < E.c := by omega
    have hhas : Has st.raft.raftLog.abs E.c E.t := (sm_all H ha).lc E hE v st hv hl hlt2
    obtain ⟨hEl, hEh, _⟩ := Ev.leaderLog H2 hE
    have hequ := eq_ll H2 ha hv hEl hhas hEh
    rw [o.inv.term_abs] at hterm
    unfold LLog.term at hterm
    split at hterm
    · injection hterm with hterm; exact htz hterm.symm
    · split at hterm
      · split at hterm
        · rename_i t0 hst
          injection hterm with hterm
          rw [hterm] at hst
          obtain ⟨st0, hv0⟩ := node_back_steps
            ((hist_all H2.hist).2.2 0 n0 s0 a (Nat.zero_le _) h0 ha) v st hv
          have h1 := H.snapt a (mem_of_get ha) v st hv _ hst s0 h0 v st0 hv0
          have h2 := lead_above_init H2 h0 hv0 ha ⟨st, hv, hl, rfl⟩
          omega
        · cases hterm
      · split at hterm
        · rename_i e he
          injection hterm with hterm
          have he' : E.gE.entryAt st.raft.raftLog.committed = some e := by
            rw [← hequ _ (by omega)]; exact he
          have hmem := E.gE.entryAt_mem he'
          rw [hg] at hmem
          have := (term_le H2 (E.nE + 1) b' eb).log E.l stb hlb e hmem
          omega
        · injection hterm with hterm; exact htz hterm.symm

end Cluster
end RaftModel
