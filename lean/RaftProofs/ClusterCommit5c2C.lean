import RaftProofs.ClusterCommit5cY

/-!
Cluster-level commit safety **with `batch_append`** (copy of `ClusterCommit2C.lean` over `Hyp2wB`), part 2C: the nodes of a history under `Hyp2wB` (`node_okB`), holding an
entry (`Has`), equality of two logs below a common entry (`eq_below`), and **what one step does to the
log of one node** (`node_step`).
-/
namespace RaftModel
namespace ClusterB
open Node Raft Raft.CC Raft.CB Raft.Bt Cluster RaftProps.C02 RaftProps.C05

variable {cfg : JointConfig} {c0 : Nat} {h : List Sys}

/-- `g` holds an entry of term `t` at index `c` -/
def Has (g : LLog) (c t : Nat) : Prop := ∃ e, g.entryAt c = some e ∧ e.term = t

/-- two agreeing logs with the same snapshot point that hold entries of the same term at `q` are
equal up to `q` -/
theorem eq_below {g1 g2 : LLog} (hag : Agree g1 g2) (hs : g1.snapIdx = g2.snapIdx) {q : Nat}
    {e1 e2 : Entry} (h1 : g1.entryAt q = some e1) (h2 : g2.entryAt q = some e2)
    (ht : e1.term = e2.term) : ∀ k, k ≤ q → g1.entryAt k = g2.entryAt k := by
  intro k hk
  by_cases hks : k ≤ g1.snapIdx
  · unfold LLog.entryAt
    rw [if_pos hks, if_pos (by omega)]
  · have l1 := g1.entryAt_lt h1
    have l2 := g2.entryAt_lt h2
    obtain ⟨a, ha⟩ := g1.entryAt_exists (i := k) (by omega) (by omega)
    obtain ⟨b, hb⟩ := g2.entryAt_exists (i := k) (by omega) (by omega)
    rw [ha, hb, agree_matching hag (q - k) q e1 e2 h1 h2 ht k a b (by omega) ha hb]

/-- what one step does to one node -/
inductive NodeStep (a : Sys) (v : Nat) (sta stb : NState) : Prop
  /-- the logical log is untouched (another node stepped, a `send`, or a call that keeps the log) -/
  | same (hl : stb.raft.raftLog.abs = sta.raft.raftLog.abs)
  /-- a leader appended entries of its term -/
  | grew (es : List Entry) (hg : Appended sta.raft stb.raft es)
  /-- a `MsgAppend` of the transport was accepted -/
  | acc (m : Message) (hm : m ∈ a.net) (hty : m.msgType = .msgAppend) (hto : m.to = v)
      (ha : Accepted sta.raft.raftLog.abs stb.raft.raftLog.abs m)
      (hc : stb.raft.raftLog.committed =
        max sta.raft.raftLog.committed (min m.commit (m.index + m.entries.length)))
      (hci : sta.raft.raftLog.committed ≤ m.index)
      (hs : stb.raft.state = .follower) (ht : m.term = stb.raft.term ∨ m.term = 0)
  /-- crash and restart: the log is the stored one -/
  | restart (hl : stb.raft.raftLog.abs = storeLog sta.raft.raftLog.store)
      (hs : stb.raft.state = .follower)
      (ht : stb.raft.term = sta.raft.raftLog.store.hardState.term)

theorem node_step (H : Hyp2wB cfg c0 h) {n : Nat} {a b : Sys} (ha : h[n]? = some a)
    (hb : h[n + 1]? = some b) {v : Nat} {sta stb : NState} (hva : a.node v = some sta)
    (hvb : b.node v = some stb) : NodeStep a v sta stb := by
  obtain ⟨s0, _, hall⟩ := H.inv_at
  have I := hall a (mem_of_get ha)
  have other : ∀ (k : Nat) (st' : NState), v ≠ k → (a.setNode k st').node v = some stb →
      NodeStep a v sta stb := by
    intro k st' hvk hb'
    rw [node_setNode_ne a k v st' hvk, hva] at hb'
    cases hb'
    exact .same rfl
  cases H.steps n a b ha hb with
  | call k st st' rnd op res h1 h2 h3 _ h4 =>
    by_cases hvk : v = k
    · subst hvk
      rw [node_setNode_self] at hvb
      rw [h1] at hva
      cases hva; cases hvb
      obtain ⟨_, _, hq, _⟩ := call_factsB H ha hb h1 (node_setNode_self _ _ _) rfl (.inl h2) h3 h4
      rcases hq.l with c | ⟨es, c⟩ | c
      · exact .same c
      · exact .grew es c
      · cases op <;> first | (cases h2; done) | (cases c; done)
    · exact other k st' hvk hvb
  | deliver k st st' rnd m res h1 h2 h3 h4 =>
    by_cases hvk : v = k
    · subst hvk
      rw [node_setNode_self] at hvb
      rw [h1] at hva
      cases hva; cases hvb
      by_cases hty : m.msgType = .msgAppend
      · have hok := I.msgOk h2 hty
        have hag := I.agree .net (msgLog m) (.log v) _ ⟨m, h2, hty, rfl⟩ ⟨sta, h1, rfl⟩
        cases append_call (I.inv v sta h1) hty hok hag h4 with
        | noacc hl _ _ => exact .same hl
        | acc ha' hc hci hs ht _ => exact .acc m h2 hty h3 ha' hc hci hs ht
      · obtain ⟨_, _, hq, _⟩ := call_factsB H ha hb h1 (node_setNode_self _ _ _) rfl (.inr ⟨m, rfl, h2, h3⟩)
          (fun j hc => by cases hc) h4
        rcases hq.l with c | ⟨es, c⟩ | c
        · exact .same c
        · exact .grew es c
        · exact absurd c hty
    · exact other k st' hvk hvb
  | send k st st' h1 _ _ h3 =>
    have hvb' : (a.setNode k st').node v = some stb := hvb
    by_cases hvk : v = k
    · subst hvk
      rw [node_setNode_self] at hvb'
      rw [h1] at hva
      cases hva; cases hvb'
      refine .same ?_
      unfold Node.call at h3
      simp only [applyOp] at h3
      cases h3; rfl
    · exact other k st' hvk hvb'
  | restart k st st' c rnd h1 _ h3 =>
    by_cases hvk : v = k
    · subst hvk
      rw [node_setNode_self] at hvb
      rw [h1] at hva
      cases hva; cases hvb
      have hbt := CV.boot_booted c _ rnd stb h3
      obtain ⟨_, habs, _⟩ := boot_log c _ rnd stb (I.inv v sta h1).storeWF h3
      exact .restart habs hbt.state hbt.term
    · exact other k st' hvk hvb

end ClusterB
end RaftModel
