import RaftProofs.ClusterSnap5G

/-!
[Copy of `ClusterSnap2H.lean` for the development `Snap5` (with `request_snapshot`): `NoReq` is replaced by
`ReqOk`, `SnapCase.restored` is widened — see `ClusterSnap5A.lean`, `RaftProps/C01i.lean`.]

Commit safety of `ClusterSem` with compaction and snapshots, part 2H: provenance of `MsgSnapshot`s
(`snap_prov`), and the message-level invariants of `ClusterSnapH` (accepting append responses carry
their sender and a term it has reached — also those that answer a snapshot; no late acknowledgements;
where entries come from).
-/
namespace RaftModel
namespace Cluster
namespace Snap5
open Node Raft Raft.CC RaftProps.C02 RaftProps.C05 Snap

variable {cfg : JointConfig} {c0 : Nat} {h : List Sys}

/-- the term of every `MsgAppend` of the transport is a leader's term: not `0` -/
theorem append_term_ne_zero (H : Hyp2w cfg c0 h) {n : Nat} {s : Sys} (hn : h[n]? = some s)
    {x : Message} (hx : x ∈ s.net) (hty : x.msgType = .msgAppend) : x.term ≠ 0 := by
  obtain ⟨s0, _, hall⟩ := H.inv_at
  obtain ⟨i, m, _, s1, st, h1, h2, h3, h4, _⟩ := (append_prov H n s hn).2 x hx hty
  rw [← h4]
  exact (hall s1 (mem_of_get h1)).tz i st h2 (.inr h3)

/-- what is recorded about a `MsgSnapshot` when it is queued: the step `h[m-1] → h[m]` of node `i`,
leader of the message's term after it, whose storage held the snapshot before it -/
def SnapGen (h : List Sys) (m i : Nat) (x : Message) : Prop :=
  ∃ (n : Nat) (a b : Sys) (st st' : NState), m = n + 1 ∧ h[n]? = some a ∧ h[n + 1]? = some b ∧
    a.node i = some st ∧ b.node i = some st' ∧ st'.raft.state = .leader ∧
    st'.raft.term = x.term ∧ x.frm = i ∧ st.raft.term ≤ st'.raft.term ∧
    st.raft.raftLog.store.snapshotCore = .ok x.snapshot ∧
    st.raft.raftLog.unstable.snapshot = none

/-- **provenance of `MsgSnapshot`s** -/
theorem snap_prov (H : Hyp2w cfg c0 h) : ∀ (n : Nat) (s : Sys), h[n]? = some s →
    (∀ i st, s.node i = some st → ∀ x ∈ st.raft.msgs, x.msgType = .msgSnapshot →
      Gen (SnapGen h) n i x) ∧
    (∀ x ∈ s.net, x.msgType = .msgSnapshot → ∃ i, Gen (SnapGen h) n i x) := by
  refine provenance H.toHyp (fun x => x.msgType = .msgSnapshot)
    (fun x hx hc => by rw [hx] at hc; cases hc) (SnapGen h) ?_
  intro n a b i st st' rnd op res ha hb hi hi' hcall hop hco hns hpn hss _ x hx hty
  obtain ⟨g, hL, _, _, hid⟩ := call_facts H ha hi hop hco hns hpn hcall
  by_cases hold : x ∈ st.raft.msgs
  · exact .inl hold
  rcases g.qlk x hx (by rw [hty]; rfl) with c | c
  · exact .inl c
  · right
    exact ⟨n, a, b, st, st', rfl, ha, hb, hi, hi', c.lead, c.term.symm, c.frm.trans (g.id.trans hid),
      hL.rt.le, hss x hx hold hty, hpn⟩

/-- the term of every `MsgSnapshot` of the transport is a leader's term: not `0` -/
theorem snap_term_ne_zero (H : Hyp2w cfg c0 h) {n : Nat} {s : Sys} (hn : h[n]? = some s)
    {x : Message} (hx : x ∈ s.net) (hty : x.msgType = .msgSnapshot) : x.term ≠ 0 := by
  obtain ⟨s0, _, hall⟩ := H.inv_at
  obtain ⟨i, m, _, n0, a, b, st, st', _, _, hb, _, h2, h3, h4, _⟩ := (snap_prov H n s hn).2 x hx hty
  rw [← h4]
  exact (hall b (mem_of_get hb)).tz i st' h2 (.inr h3)

/-- what a `call` / `deliver` step queues as accepting append response with a positive index: it
carries the node's id and its (non-zero) term after the step -/
theorem fresh_ack (H : Hyp2w cfg c0 h) {n : Nat} {a : Sys} {i : Nat} {st st' : NState}
    {rnd : Option Nat} {op : NodeOp} {res : OpRes}
    (ha : h[n]? = some a) (hi : a.node i = some st)
    (hop : appOp op = true ∨ ∃ m, op = .step m ∧ m ∈ a.net ∧ m.to = i)
    (hc : ∀ j, op = .compact j → CompactOk st.raft.raftLog j)
    (hns : ∀ m, op = .step m → m.msgType ≠ .msgSnapshot)
    (hpn : st.raft.raftLog.unstable.snapshot = none)
    (hcall : Node.call st rnd op = .ok (res, st'))
    {x : Message} (hx : x ∈ st'.raft.msgs) (hack : isAck x) (hidx : x.index ≠ 0) :
    x ∈ st.raft.msgs ∨ (x.frm = i ∧ x.term = st'.raft.term ∧ x.term ≠ 0 ∧
      st'.raft.state = .follower) := by
  obtain ⟨s0, _, hall⟩ := H.inv_at
  have I := hall a (mem_of_get ha)
  obtain ⟨g, _, _, _, hid⟩ := call_facts H ha hi hop hc hns hpn hcall
  by_cases hold : x ∈ st.raft.msgs
  · exact .inl hold
  rcases g.qak x hx hack with c | c
  · exact .inl c
  · right
    rcases c.src with d | ⟨d1, d2, _, _⟩
    · exact absurd d hidx
    · -- the input is a `MsgAppend` of the transport
      rcases hop with g1 | ⟨m, g1, g2, g3⟩
      · cases op <;> first | (cases g1; done) | (cases d2; done)
      · subst g1
        have hty : m.msgType = .msgAppend := d2
        have hmt := append_term_ne_zero H ha g2 hty
        refine ⟨c.frm.trans (g.id.trans hid), c.term, ?_, d1⟩
        have hok := I.msgOk g2 hty
        have hag := I.agree .net (msgLog m) (.log i) _ ⟨m, g2, hty, rfl⟩ ⟨st, hi, rfl⟩
        cases append_call (I.inv i st hi) hty hok hag hcall with
        | noacc _ _ hq =>
          rcases hq x hx with e | e | e | ⟨_, _, e⟩
          · exact absurd e hold
          · exact absurd e hidx
          · rw [hack.2] at e; cases e
          · rcases e with e | e
            · rw [c.term, ← e]; exact hmt
            · exact absurd e hmt
        | acc _ _ _ _ ht _ =>
          rcases ht with e | e
          · rw [c.term, ← e]; exact hmt
          · exact absurd e hmt

/-- **the accepting append responses a step queues** (positive index): they carry the node's id and
its (non-zero) term after the step, and the node is a follower then -/
theorem step_ack (H : Hyp2w cfg c0 h) {n : Nat} {a b : Sys} (ha : h[n]? = some a) {k : Nat}
    {st st' : NState} (hka : a.node k = some st) (hs : Stp a b k st st')
    {x : Message} (hx : x ∈ st'.raft.msgs) (hack : isAck x) (hidx : x.index ≠ 0) :
    x ∈ st.raft.msgs ∨ (x.frm = k ∧ x.term = st'.raft.term ∧ x.term ≠ 0 ∧
      st'.raft.state = .follower) := by
  cases hs with
  | call rnd op res hop hco _ hns hpn _ hcall _ _ =>
    exact fresh_ack H ha hka hop hco hns hpn hcall hx hack hidx
  | snap rnd m hm _ hty _ hout _ =>
    cases hout with
    | skip hr => rw [hr] at hx; exact .inl hx
    | handled y hsf ht _ hid hq _ _ hfrm hxt _ _ =>
      rw [hq] at hx
      rcases List.mem_append.1 hx with c | c
      · exact .inl c
      · right
        rw [List.mem_singleton.1 c]
        have hmt := snap_term_ne_zero H ha hm hty
        refine ⟨by rw [hfrm, hid]; exact (node_ok H ha hka).id, hxt, ?_, hsf⟩
        rcases ht with e | e
        · rw [hxt, ← e]; exact hmt
        · exact absurd e hmt
  | psnap rnd _ hout _ _ => rw [hout.msgs] at hx; exact .inl hx
  | send _ _ hq _ _ _ => rw [hq] at hx; cases hx
  | restart c rnd hboot _ => rw [(CV.boot_booted c _ rnd st' hboot).msgs] at hx; cases hx

/-- the term of the stepping node does not decrease, unless the step is a restart -/
theorem stp_term_le (H : Hyp2w cfg c0 h) {n : Nat} {a b : Sys} (ha : h[n]? = some a) {k : Nat}
    {st st' : NState} (hka : a.node k = some st) (hs : Stp a b k st st') :
    st.raft.term ≤ st'.raft.term ∨ st'.raft.msgs = [] := by
  cases hs with
  | call rnd op res hop hco _ hns hpn _ hcall _ _ =>
    exact .inl (call_facts H ha hka hop hco hns hpn hcall).2.1.rt.le
  | snap rnd m _ _ _ _ hout _ =>
    cases hout with
    | skip hr => exact .inl (by rw [hr]; exact Nat.le_refl _)
    | handled y _ _ hle _ _ _ _ _ _ _ _ => exact .inl hle
  | psnap rnd _ hout _ _ =>
    cases hout with
    | noop hr => exact .inl (by rw [hr]; exact Nat.le_refl _)
    | done sn L _ hr _ _ _ _ _ _ _ _ _ => exact .inl (by rw [hr]; exact Nat.le_refl _)
  | send _ _ hq _ _ _ => exact .inr hq
  | restart c rnd hboot _ => exact .inr (CV.boot_booted c _ rnd st' hboot).msgs

theorem ack_inv (H : Hyp2w cfg c0 h) : ∀ (n : Nat) (s : Sys), h[n]? = some s → AckQ s ∧ AckN s := by
  refine hist_induct h _ ?_ ?_
  · intro s h0
    have hinit := hist_init H.hist s h0
    refine ⟨fun v st hv a ha => ?_, fun a ha => ?_⟩
    · rw [init_queue hinit v st hv] at ha; cases ha
    · rw [hinit.1] at ha; cases ha
  · intro n a b ha hb ⟨ihq, ihn⟩
    have hstep := H.steps n a b ha hb
    obtain ⟨k, stk, stk', hka, hkb, hoth, hs⟩ := H.stp ha hb
    refine ⟨fun v stv hv x hx hack hidx => ?_, fun x hx hack hidx => ?_⟩
    · by_cases hvk : v = k
      · subst hvk
        rw [hkb] at hv; cases hv
        rcases step_ack H ha hka hs hx hack hidx with c | ⟨c1, c2, c3, _⟩
        · obtain ⟨d1, d2, d3⟩ := ihq v stk hka x c hack hidx
          rcases stp_term_le H ha hka hs with e | e
          · exact ⟨d1, Nat.le_trans d2 e, d3⟩
          · rw [e] at hx; cases hx
        · exact ⟨c1, Nat.le_of_eq c2, c3⟩
      · rw [hoth v hvk] at hv
        exact ihq v stv hv x hx hack hidx
    · rcases hs.net_sub x hx with g | g
      · exact ⟨(ihn x g hack hidx).1.step hstep.step, (ihn x g hack hidx).2⟩
      · -- the queue of the stepping node was handed over: the step is a `send`
        obtain ⟨d1, d2, d3⟩ := ihq k stk hka x g hack hidx
        refine ⟨?_, d3⟩
        cases hs with
        | send hp _ _ _ _ _ =>
          have hfa : FloorAt a x.frm x.term := by
            intro st2 hk2
            rw [d1, hka] at hk2; cases hk2
            exact ⟨d2, by rw [hp.1]; exact d2⟩
          exact hfa.step hstep.step
        | call _ _ _ _ _ _ _ _ _ _ hnet _ =>
          rw [hnet] at hx
          exact (ihn x hx hack hidx).1.step hstep.step
        | snap _ _ _ _ _ _ _ hnet =>
          rw [hnet] at hx
          exact (ihn x hx hack hidx).1.step hstep.step
        | psnap _ _ _ _ hnet =>
          rw [hnet] at hx
          exact (ihn x hx hack hidx).1.step hstep.step
        | restart _ _ _ hnet =>
          rw [hnet] at hx
          exact (ihn x hx hack hidx).1.step hstep.step

theorem ack_back (H : Hyp2w cfg c0 h) {n : Nat} {a b : Sys} (ha : h[n]? = some a)
    (hb : h[n + 1]? = some b) {v T : Nat} (hf : FloorAt a v T) {x : Message} (hack : isAck x)
    (hidx : x.index ≠ 0) (hfrm : x.frm = v) (ht : x.term < T) (hp : Pending b v x) :
    Pending a v x := by
  have hstep := H.steps n a b ha hb
  have hfb : FloorAt b v T := hf.step hstep.step
  obtain ⟨hq, _⟩ := ack_inv H n a ha
  obtain ⟨k, stk, stk', hka, hkb, hoth, hs⟩ := H.stp ha hb
  rcases hp with g | ⟨stv, hv, g⟩
  · rcases hs.net_sub x g with c | c
    · exact .inl c
    · have := (hq k stk hka x c hack hidx).1
      rw [hfrm] at this
      subst this
      exact .inr ⟨stk, hka, c⟩
  · by_cases hvk : v = k
    · subst hvk
      rw [hkb] at hv; cases hv
      rcases step_ack H ha hka hs g hack hidx with c | ⟨_, c2, _, _⟩
      · exact .inr ⟨stk, hka, c⟩
      · have := (hfb stk' hkb).1
        omega
    · rw [hoth v hvk] at hv
      exact .inr ⟨stv, hv, g⟩

/-- **no late acknowledgements** -/
theorem ack_fwd (H : Hyp2w cfg c0 h) {v T : Nat} {x : Message} (hack : isAck x)
    (hidx : x.index ≠ 0) (hfrm : x.frm = v) (ht : x.term < T) :
    ∀ (d n : Nat) (a b : Sys), h[n]? = some a → h[n + d]? = some b → FloorAt a v T →
      Pending b v x → Pending a v x := by
  intro d
  induction d with
  | zero => intro n a b ha hb _ hp; rw [Nat.add_zero, ha] at hb; cases hb; exact hp
  | succ d ih =>
    intro n a b ha hb hf hp
    have hlt : n + 1 < h.length := by
      rcases Nat.lt_or_ge (n + 1) h.length with c | c
      · exact c
      · have : h.length ≤ n + (d + 1) := by omega
        rw [List.getElem?_eq_none this] at hb; cases hb
    have h1 : h[n + 1]? = some h[n + 1] := List.getElem?_eq_some_iff.2 ⟨hlt, rfl⟩
    have hstep := H.steps n a _ ha h1
    have hp1 := ih (n + 1) _ b h1 (by rw [← hb]; congr 1; omega) (hf.step hstep.step) hp
    exact ack_back H ha h1 hf hack hidx hfrm ht hp1


theorem entry_prov (H : Hyp2w cfg c0 h) :
    ∃ s0, h[0]? = some s0 ∧ ∀ (n : Nat) (s : Sys), h[n]? = some s → ∀ loc g, At s loc g →
      ∀ q e, g.entryAt q = some e → EntriesOf s0 e ∨ Born h n q e := by
  obtain ⟨s0, h0, hall⟩ := H.inv_at
  refine ⟨s0, h0, ?_⟩
  refine hist_induct h _ ?_ ?_
  · intro s hs loc g hat q e he
    rw [h0] at hs; cases hs
    exact .inl ⟨loc, g, q, hat, he⟩
  · intro n a b ha hb ih loc' g' hat q e he
    have I := hall a (mem_of_get ha)
    have hstep := H.steps n a b ha hb
    obtain ⟨κ, st, st', pers, crash, T⟩ := trans_of_cstep I (H.nb a (mem_of_get ha)) hstep.cstep
    rcases T.prov loc' g' hat q e he with ⟨loc, g, hA, hE, _⟩ | ⟨_, hl, ht, hi, hL, _⟩
    · rcases ih loc g hA q e hE with c | ⟨m, s, l, stl, c1, c2⟩
      · exact .inl c
      · exact .inr ⟨m, s, l, stl, Nat.le_succ_of_le c1, c2⟩
    · right
      refine ⟨n + 1, b, κ, st', Nat.le_refl _, hb, T.hk', hl, ht.symm, hL, fun k e' hk hqk => ?_⟩
      rcases cstep_nodeRel I (H.nb a (mem_of_get ha)) hstep.cstep κ st st' T.hk T.hk' with c | c
      · rw [ht]
        refine c.own hl k e' hk ?_
        rw [← (I.inv κ st T.hk).lastIndex_abs]; omega
      · obtain ⟨_, st2, cf, rnd, _, _, h3, h4⟩ := c
        have := T.hk'
        rw [h4, node_setNode_self] at this
        cases this
        rw [(CV.boot_booted cf _ rnd st' h3).state] at hl; cases hl

/-- the initial term of node `l` is below every term it ever leads -/
theorem lead_above_init (H : Hyp2w cfg c0 h) {s0 : Sys} (h0 : h[0]? = some s0) {l : Nat}
    {st0 : NState} (hl0 : s0.node l = some st0) {n : Nat} {s : Sys} (hn : h[n]? = some s) {t : Nat}
    (hl : leads s l t) : st0.raft.term < t := by
  obtain ⟨_, sto, hboot, _, _, _⟩ := H.init s0 h0
  obtain ⟨c, rnd, hb⟩ := hboot l st0 hl0
  have hbt := CV.boot_booted c _ rnd st0 hb
  have hd0 : Dead s0 l st0.raft.term :=
    ⟨st0, hl0, by rw [hbt.hs, ← hbt.term]; exact Nat.le_refl _, .inr ⟨rfl, .inl hbt.state⟩⟩
  have hd : Dead s l st0.raft.term := Dead.later H n 0 s0 s h0 (by rw [Nat.zero_add]; exact hn) hd0
  obtain ⟨st, hk, hst, htm⟩ := hl
  obtain ⟨st2, hk2, _, hd2⟩ := hd
  rw [hk] at hk2; cases hk2
  rcases hd2 with c | ⟨c, c2⟩
  · omega
  · rcases c2 with c2 | c2 <;> rw [hst] at c2 <;> cases c2

/-- an entry of the initial state has a term below every term that is ever led -/
theorem init_entry_term (H : Hyp2w cfg c0 h) {s0 : Sys} (h0 : h[0]? = some s0) {e : Entry}
    (he : EntriesOf s0 e) {n : Nat} {s : Sys} (hn : h[n]? = some s) {l t : Nat}
    (hl : leads s l t) : e.term < t := by
  obtain ⟨hnet, sto, hboot, hwf, _, hbound⟩ := H.init s0 h0
  -- the leader already ran in the initial state
  have hex : ∃ st0, s0.node l = some st0 := by
    obtain ⟨st, hk, _⟩ := hl
    exact node_back_steps ((hist_all H.hist).2.2 0 n s0 s (Nat.zero_le _) h0 hn) l st hk
  obtain ⟨st0, hl0⟩ := hex
  have hlt := lead_above_init H h0 hl0 hn hl
  obtain ⟨c, rnd, hb⟩ := hboot l st0 hl0
  have hbt := CV.boot_booted c _ rnd st0 hb
  obtain ⟨loc, g, i, hat, hge⟩ := he
  -- every chain of the initial state is a stored log
  have hchain : ∃ j stj, s0.node j = some stj ∧ g = storeLog (sto j) := by
    cases loc with
    | log j =>
      obtain ⟨stj, h1, h2⟩ := hat
      obtain ⟨cj, rj, hbj⟩ := hboot j stj h1
      exact ⟨j, stj, h1, h2.trans (boot_log cj _ rj stj (hwf j stj h1).1 hbj).2.1⟩
    | store j =>
      obtain ⟨stj, h1, h2⟩ := hat
      obtain ⟨cj, rj, hbj⟩ := hboot j stj h1
      exact ⟨j, stj, h1, h2.trans (boot_log cj _ rj stj (hwf j stj h1).1 hbj).2.2⟩
    | queue j =>
      obtain ⟨stj, x, h1, hx, _⟩ := hat
      obtain ⟨cj, rj, hbj⟩ := hboot j stj h1
      rw [(CV.boot_booted cj _ rj stj hbj).msgs] at hx
      cases hx
    | net =>
      obtain ⟨x, hx, _⟩ := hat
      rw [hnet] at hx
      cases hx
  obtain ⟨j, stj, hj, hg⟩ := hchain
  subst hg
  have := hbound j l stj st0 hj hl0 e ((storeLog (sto j)).entryAt_mem hge)
  rw [hbt.term] at hlt
  omega



end Snap5
end Cluster
end RaftModel
