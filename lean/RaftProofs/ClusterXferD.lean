import RaftProofs.ClusterXferC

/-!
Cluster-level leadership transfer (C17c), part D: **why the durable half of
`C17_cluster_timeout_now_target_caught_up` is conditional** — a concrete history (kernel-evaluated, five
nodes, voters 1 … 5) that satisfies every hypothesis of the commit layer (`Hyp3w`) and in which a leader
sends a `MsgTimeoutNow` to a node whose **storage never held** the leader's last entry.

Node 1 is elected leader of term 1 by nodes 2 and 3 and sends its empty entry `(1, term 1)`; node 2
appends it *in memory* and queues its acknowledgement, but does not persist yet.  Node 3 campaigns for
term 2, is elected by nodes 4 and 5 (whose logs are empty) and sends its empty entry `(1, term 2)`;
node 2 receives it, moves to term 2, truncates its unpersisted entry and appends `(1, term 2)`.  Only now
node 2 persists — its storage holds `(1, term 2)` — and hands its queue to the transport: both
acknowledgements, the stale one for term 1 included (nothing in the Ready contract forbids it: everything
the node holds is persisted).  Node 1, which has heard nothing of term 2, receives the acknowledgement
for term 1, sets `matched = 1 = last_index` for node 2, and on `transfer_leader(2)` sends
`MsgTimeoutNow` to node 2.
-/
namespace RaftModel
namespace Cluster
open Node Raft Raft.CC RaftProps.C02 RaftProps.C05

def c17y_store : MemStorage := { confState := { voters := [1, 2, 3, 4, 5] } }
def c17y_cfg : JointConfig := { incoming := [1, 2, 3, 4, 5], outgoing := [] }
def c17y_boot (i : Nat) : NState :=
  match Node.boot (c02x_config i) c17y_store none with
  | .ok (.ok st) => st
  | _ => default

-- node 1 is elected leader of term 1 by nodes 2 and 3
def c17y_a1 := c02x_st (Node.call (c17y_boot 1) none .campaign)
def c17y_a2 := c02x_st (Node.call c17y_a1 none .stabilize)
def c17y_a3 := c02x_st (Node.call c17y_a2 none .drain)
def c17y_rv2 := c17y_a2.raft.msgs.head!
def c17y_rv3 := c17y_a2.raft.msgs.tail.head!
def c17y_b1 := c02x_st (Node.call (c17y_boot 2) none (.step c17y_rv2))
def c17y_b2 := c02x_st (Node.call c17y_b1 none .stabilize)
def c17y_b3 := c02x_st (Node.call c17y_b2 none .drain)
def c17y_g2 := c17y_b2.raft.msgs.head!
def c17y_c1 := c02x_st (Node.call (c17y_boot 3) none (.step c17y_rv3))
def c17y_c2 := c02x_st (Node.call c17y_c1 none .stabilize)
def c17y_c3 := c02x_st (Node.call c17y_c2 none .drain)
def c17y_g3 := c17y_c2.raft.msgs.head!
def c17y_a4 := c02x_st (Node.call c17y_a3 none (.step c17y_g2))
def c17y_a5 := c02x_st (Node.call c17y_a4 none (.step c17y_g3))
def c17y_a6 := c02x_st (Node.call c17y_a5 none .stabilize)
def c17y_a7 := c02x_st (Node.call c17y_a6 none .drain)
/-- the `MsgAppend` of leader 1 (term 1) for node 2 -/
def c17y_app2 := c17y_a6.raft.msgs.head!
-- node 2 appends in memory, does not persist
def c17y_b4 := c02x_st (Node.call c17y_b3 none (.step c17y_app2))
-- node 3 is elected leader of term 2 by nodes 4 and 5
def c17y_c4 := c02x_st (Node.call c17y_c3 none .campaign)
def c17y_c5 := c02x_st (Node.call c17y_c4 none .stabilize)
def c17y_c6 := c02x_st (Node.call c17y_c5 none .drain)
def c17y_rv4 := c17y_c5.raft.msgs.tail.tail.head!
def c17y_rv5 := c17y_c5.raft.msgs.tail.tail.tail.head!
def c17y_d1 := c02x_st (Node.call (c17y_boot 4) none (.step c17y_rv4))
def c17y_d2 := c02x_st (Node.call c17y_d1 none .stabilize)
def c17y_d3 := c02x_st (Node.call c17y_d2 none .drain)
def c17y_g4 := c17y_d2.raft.msgs.head!
def c17y_e1 := c02x_st (Node.call (c17y_boot 5) none (.step c17y_rv5))
def c17y_e2 := c02x_st (Node.call c17y_e1 none .stabilize)
def c17y_e3 := c02x_st (Node.call c17y_e2 none .drain)
def c17y_g5 := c17y_e2.raft.msgs.head!
def c17y_c7 := c02x_st (Node.call c17y_c6 none (.step c17y_g4))
def c17y_c8 := c02x_st (Node.call c17y_c7 none (.step c17y_g5))
def c17y_c9 := c02x_st (Node.call c17y_c8 none .stabilize)
def c17y_c10 := c02x_st (Node.call c17y_c9 none .drain)
/-- the `MsgAppend` of leader 3 (term 2) for node 2 -/
def c17y_app2' := c17y_c9.raft.msgs.tail.head!
-- node 2 is truncated, then persists and sends both acknowledgements
def c17y_b5 := c02x_st (Node.call c17y_b4 none (.step c17y_app2'))
def c17y_b6 := c02x_st (Node.call c17y_b5 none .stabilize)
def c17y_b7 := c02x_st (Node.call c17y_b6 none .drain)
/-- the stale acknowledgement of node 2 for term 1 -/
def c17y_ack := c17y_b6.raft.msgs.head!
-- node 1 counts it and transfers
def c17y_a8 := c02x_st (Node.call c17y_a7 none (.step c17y_ack))
def c17y_a9 := c02x_st (Node.call c17y_a8 none (.transferLeader 2))
def c17y_a10 := c02x_st (Node.call c17y_a9 none .drain)
/-- the `MsgTimeoutNow` of node 1 for node 2 -/
def c17y_tn := c17y_a9.raft.msgs.tail.head!

def c17y_s0 : Sys :=
  { nodes := [(1, c17y_boot 1), (2, c17y_boot 2), (3, c17y_boot 3), (4, c17y_boot 4),
              (5, c17y_boot 5)], net := [] }
def c17y_s1 : Sys := c17y_s0.setNode 1 c17y_a1
def c17y_s2 : Sys := c17y_s1.setNode 1 c17y_a2
def c17y_s3 : Sys := { (c17y_s2.setNode 1 c17y_a3) with net := c17y_s2.net ++ c17y_a2.raft.msgs }
def c17y_s4 : Sys := c17y_s3.setNode 2 c17y_b1
def c17y_s5 : Sys := c17y_s4.setNode 2 c17y_b2
def c17y_s6 : Sys := { (c17y_s5.setNode 2 c17y_b3) with net := c17y_s5.net ++ c17y_b2.raft.msgs }
def c17y_s7 : Sys := c17y_s6.setNode 3 c17y_c1
def c17y_s8 : Sys := c17y_s7.setNode 3 c17y_c2
def c17y_s9 : Sys := { (c17y_s8.setNode 3 c17y_c3) with net := c17y_s8.net ++ c17y_c2.raft.msgs }
def c17y_s10 : Sys := c17y_s9.setNode 1 c17y_a4
def c17y_s11 : Sys := c17y_s10.setNode 1 c17y_a5
def c17y_s12 : Sys := c17y_s11.setNode 1 c17y_a6
def c17y_s13 : Sys :=
  { (c17y_s12.setNode 1 c17y_a7) with net := c17y_s12.net ++ c17y_a6.raft.msgs }
def c17y_s14 : Sys := c17y_s13.setNode 2 c17y_b4
def c17y_s15 : Sys := c17y_s14.setNode 3 c17y_c4
def c17y_s16 : Sys := c17y_s15.setNode 3 c17y_c5
def c17y_s17 : Sys :=
  { (c17y_s16.setNode 3 c17y_c6) with net := c17y_s16.net ++ c17y_c5.raft.msgs }
def c17y_s18 : Sys := c17y_s17.setNode 4 c17y_d1
def c17y_s19 : Sys := c17y_s18.setNode 4 c17y_d2
def c17y_s20 : Sys :=
  { (c17y_s19.setNode 4 c17y_d3) with net := c17y_s19.net ++ c17y_d2.raft.msgs }
def c17y_s21 : Sys := c17y_s20.setNode 5 c17y_e1
def c17y_s22 : Sys := c17y_s21.setNode 5 c17y_e2
def c17y_s23 : Sys :=
  { (c17y_s22.setNode 5 c17y_e3) with net := c17y_s22.net ++ c17y_e2.raft.msgs }
def c17y_s24 : Sys := c17y_s23.setNode 3 c17y_c7
def c17y_s25 : Sys := c17y_s24.setNode 3 c17y_c8
def c17y_s26 : Sys := c17y_s25.setNode 3 c17y_c9
def c17y_s27 : Sys :=
  { (c17y_s26.setNode 3 c17y_c10) with net := c17y_s26.net ++ c17y_c9.raft.msgs }
def c17y_s28 : Sys := c17y_s27.setNode 2 c17y_b5
def c17y_s29 : Sys := c17y_s28.setNode 2 c17y_b6
def c17y_s30 : Sys :=
  { (c17y_s29.setNode 2 c17y_b7) with net := c17y_s29.net ++ c17y_b6.raft.msgs }
def c17y_s31 : Sys := c17y_s30.setNode 1 c17y_a8
def c17y_s32 : Sys := c17y_s31.setNode 1 c17y_a9
def c17y_s33 : Sys :=
  { (c17y_s32.setNode 1 c17y_a10) with net := c17y_s32.net ++ c17y_a9.raft.msgs }

def c17y_tail : List Sys :=
  [c17y_s1, c17y_s2, c17y_s3, c17y_s4, c17y_s5, c17y_s6, c17y_s7, c17y_s8, c17y_s9, c17y_s10,
   c17y_s11, c17y_s12, c17y_s13, c17y_s14, c17y_s15, c17y_s16, c17y_s17, c17y_s18, c17y_s19,
   c17y_s20, c17y_s21, c17y_s22, c17y_s23, c17y_s24, c17y_s25, c17y_s26, c17y_s27, c17y_s28,
   c17y_s29, c17y_s30, c17y_s31, c17y_s32, c17y_s33]

def c17y_hist : List Sys := c17y_s0 :: c17y_tail

theorem tail2_head_mem (l : List Message) (h : l.tail.tail ≠ []) : l.tail.tail.head! ∈ l :=
  List.mem_of_mem_tail (List.mem_of_mem_tail (c02x_head_mem _ h))

theorem tail3_head_mem (l : List Message) (h : l.tail.tail.tail ≠ []) :
    l.tail.tail.tail.head! ∈ l :=
  List.mem_of_mem_tail (List.mem_of_mem_tail (List.mem_of_mem_tail (c02x_head_mem _ h)))

set_option maxRecDepth 100000 in
theorem c17y_init : Init c17y_s0 ∧ InitOk c17y_s0 := by
  have hb : ∀ k, c02x_ok (match Node.boot (c02x_config k) c17y_store none with
      | .ok (.ok st) => (.ok (.ok, st) : Out) | _ => .panic "") = true →
      Node.boot (c02x_config k) c17y_store none = .ok (.ok (c17y_boot k)) := by
    intro k hk
    unfold c17y_boot
    split at hk
    · rename_i st heq; rw [heq]
    · cases hk
  have hcase : ∀ i st, c17y_s0.node i = some st →
      (i = 1 ∧ st = c17y_boot 1) ∨ (i = 2 ∧ st = c17y_boot 2) ∨ (i = 3 ∧ st = c17y_boot 3) ∨
      (i = 4 ∧ st = c17y_boot 4) ∨ (i = 5 ∧ st = c17y_boot 5) := by
    intro i st hn
    have hm := c02_lookup_mem _ i st hn
    simpa only [c17y_s0, List.mem_cons, Prod.mk.injEq, List.not_mem_nil, or_false] using hm
  have hboot : ∀ i st, c17y_s0.node i = some st →
      (c02x_config i).id = i ∧ Node.boot (c02x_config i) c17y_store none = .ok (.ok st) := by
    intro i st hn
    rcases hcase i st hn with ⟨rfl, rfl⟩ | ⟨rfl, rfl⟩ | ⟨rfl, rfl⟩ | ⟨rfl, rfl⟩ | ⟨rfl, rfl⟩
    · exact ⟨rfl, hb 1 (by decide)⟩
    · exact ⟨rfl, hb 2 (by decide)⟩
    · exact ⟨rfl, hb 3 (by decide)⟩
    · exact ⟨rfl, hb 4 (by decide)⟩
    · exact ⟨rfl, hb 5 (by decide)⟩
  refine ⟨⟨rfl, fun i st hn => ⟨c02x_config i, c17y_store, none, (hboot i st hn).1, (hboot i st hn).2⟩⟩,
    rfl, fun _ => c17y_store, ?_, ?_, ?_, ?_⟩
  · intro i st hn
    exact ⟨c02x_config i, none, (hboot i st hn).2⟩
  · intro i st _
    exact ⟨⟨fun k e hk => by simp [c17y_store] at hk,
      (by show c17y_store.snapshotMetadata.index < c17y_store.firstIndex; decide)⟩,
      fun e he => by simp [c17y_store] at he⟩
  · intro i j _ _ _ _
    exact Agree.self _
  · intro i j _ _ _ _ e he
    simp [c17y_store] at he

set_option maxRecDepth 100000 in
theorem c17y_ksteps : Chained KStep c17y_hist := by
  refine ⟨?_, ?_, ?_, ?_, ?_, ?_, ?_, ?_, ?_, ?_, ?_, ?_, ?_, ?_, ?_, ?_, ?_, ?_, ?_, ?_, ?_, ?_, ?_,
    ?_, ?_, ?_, ?_, ?_, ?_, ?_, ?_, ?_, ?_, trivial⟩
  · exact KStep.call _ 1 (c17y_boot 1) c17y_a1 none .campaign _ rfl rfl
      (fun k hc => by cases hc) (fun k hc => by cases hc) (c02x_out _ (by decide))
  · exact KStep.call _ 1 c17y_a1 c17y_a2 none .stabilize _ rfl rfl
      (fun k hc => by cases hc) (fun k hc => by cases hc) (c02x_out _ (by decide))
  · exact KStep.send _ 1 c17y_a2 c17y_a3 rfl ⟨by decide, by decide⟩
      (fun _ => ⟨by decide, rfl⟩) rfl
  · exact KStep.deliver _ 2 (c17y_boot 2) c17y_b1 none c17y_rv2 _ rfl
      (c02x_head_mem _ (by decide)) (by decide) (c02x_out _ (by decide))
  · exact KStep.call _ 2 c17y_b1 c17y_b2 none .stabilize _ rfl rfl
      (fun k hc => by cases hc) (fun k hc => by cases hc) (c02x_out _ (by decide))
  · exact KStep.send _ 2 c17y_b2 c17y_b3 rfl ⟨by decide, by decide⟩
      (fun _ => ⟨by decide, rfl⟩) rfl
  · exact KStep.deliver _ 3 (c17y_boot 3) c17y_c1 none c17y_rv3 _ rfl
      (List.mem_append_left _ (tail_head_mem _ (by decide))) (by decide) (c02x_out _ (by decide))
  · exact KStep.call _ 3 c17y_c1 c17y_c2 none .stabilize _ rfl rfl
      (fun k hc => by cases hc) (fun k hc => by cases hc) (c02x_out _ (by decide))
  · exact KStep.send _ 3 c17y_c2 c17y_c3 rfl ⟨by decide, by decide⟩
      (fun _ => ⟨by decide, rfl⟩) rfl
  · exact KStep.deliver _ 1 c17y_a3 c17y_a4 none c17y_g2 _ rfl
      (List.mem_append_left _ (List.mem_append_right _ (c02x_head_mem _ (by decide))))
      (by decide) (c02x_out _ (by decide))
  · exact KStep.deliver _ 1 c17y_a4 c17y_a5 none c17y_g3 _ rfl
      (List.mem_append_right _ (c02x_head_mem _ (by decide))) (by decide) (c02x_out _ (by decide))
  · exact KStep.call _ 1 c17y_a5 c17y_a6 none .stabilize _ rfl rfl
      (fun k hc => by cases hc) (fun k hc => by cases hc) (c02x_out _ (by decide))
  · exact KStep.send _ 1 c17y_a6 c17y_a7 rfl ⟨by decide, by decide⟩
      (fun _ => ⟨by decide, rfl⟩) rfl
  · exact KStep.deliver _ 2 c17y_b3 c17y_b4 none c17y_app2 _ rfl
      (List.mem_append_right _ (c02x_head_mem _ (by decide))) (by decide) (c02x_out _ (by decide))
  · exact KStep.call _ 3 c17y_c3 c17y_c4 none .campaign _ rfl rfl
      (fun k hc => by cases hc) (fun k hc => by cases hc) (c02x_out _ (by decide))
  · exact KStep.call _ 3 c17y_c4 c17y_c5 none .stabilize _ rfl rfl
      (fun k hc => by cases hc) (fun k hc => by cases hc) (c02x_out _ (by decide))
  · exact KStep.send _ 3 c17y_c5 c17y_c6 rfl ⟨by decide, by decide⟩
      (fun _ => ⟨by decide, rfl⟩) rfl
  · exact KStep.deliver _ 4 (c17y_boot 4) c17y_d1 none c17y_rv4 _ rfl
      (List.mem_append_right _ (tail2_head_mem _ (by decide))) (by decide) (c02x_out _ (by decide))
  · exact KStep.call _ 4 c17y_d1 c17y_d2 none .stabilize _ rfl rfl
      (fun k hc => by cases hc) (fun k hc => by cases hc) (c02x_out _ (by decide))
  · exact KStep.send _ 4 c17y_d2 c17y_d3 rfl ⟨by decide, by decide⟩
      (fun _ => ⟨by decide, rfl⟩) rfl
  · exact KStep.deliver _ 5 (c17y_boot 5) c17y_e1 none c17y_rv5 _ rfl
      (List.mem_append_left _ (List.mem_append_right _ (tail3_head_mem _ (by decide))))
      (by decide) (c02x_out _ (by decide))
  · exact KStep.call _ 5 c17y_e1 c17y_e2 none .stabilize _ rfl rfl
      (fun k hc => by cases hc) (fun k hc => by cases hc) (c02x_out _ (by decide))
  · exact KStep.send _ 5 c17y_e2 c17y_e3 rfl ⟨by decide, by decide⟩
      (fun _ => ⟨by decide, rfl⟩) rfl
  · exact KStep.deliver _ 3 c17y_c6 c17y_c7 none c17y_g4 _ rfl
      (List.mem_append_left _ (List.mem_append_right _ (c02x_head_mem _ (by decide))))
      (by decide) (c02x_out _ (by decide))
  · exact KStep.deliver _ 3 c17y_c7 c17y_c8 none c17y_g5 _ rfl
      (List.mem_append_right _ (c02x_head_mem _ (by decide))) (by decide) (c02x_out _ (by decide))
  · exact KStep.call _ 3 c17y_c8 c17y_c9 none .stabilize _ rfl rfl
      (fun k hc => by cases hc) (fun k hc => by cases hc) (c02x_out _ (by decide))
  · exact KStep.send _ 3 c17y_c9 c17y_c10 rfl ⟨by decide, by decide⟩
      (fun _ => ⟨by decide, rfl⟩) rfl
  · exact KStep.deliver _ 2 c17y_b4 c17y_b5 none c17y_app2' _ rfl
      (List.mem_append_right _ (tail_head_mem _ (by decide))) (by decide) (c02x_out _ (by decide))
  · exact KStep.call _ 2 c17y_b5 c17y_b6 none .stabilize _ rfl rfl
      (fun k hc => by cases hc) (fun k hc => by cases hc) (c02x_out _ (by decide))
  · exact KStep.send _ 2 c17y_b6 c17y_b7 rfl ⟨by decide, by decide⟩
      (fun _ => ⟨by decide, rfl⟩) rfl
  · exact KStep.deliver _ 1 c17y_a7 c17y_a8 none c17y_ack _ rfl
      (List.mem_append_right _ (c02x_head_mem _ (by decide))) (by decide) (c02x_out _ (by decide))
  · exact KStep.call _ 1 c17y_a8 c17y_a9 none (.transferLeader 2) _ rfl rfl
      (fun k hc => by cases hc) (fun k hc => by cases hc) (c02x_out _ (by decide))
  · exact KStep.send _ 1 c17y_a9 c17y_a10 rfl ⟨by decide, by decide⟩
      (fun _ => ⟨by decide, rfl⟩) rfl

theorem c17y_history : History c17y_hist :=
  chained_history [] c17y_s0 (History.init _ c17y_init.1) _
    (Chained.mono (fun _ _ hc => hc.step) _ c17y_ksteps)

def c17y_fixed (s : Sys) : Bool := s.nodes.all (fun p => decide (p.2.raft.prs.voters = c17y_cfg))
theorem c17y_fixed_ok (s : Sys) (h : c17y_fixed s = true) : FixedCfg c17y_cfg s := by
  intro i st hn
  have hm := c02_lookup_mem s.nodes i st hn
  unfold c17y_fixed at h
  rw [List.all_eq_true] at h
  simpa using h _ hm

/-- the storage of node 2 holds no entry of term 1 at index 1 -/
def c17y_never (s : Sys) : Bool :=
  s.nodes.all (fun p => p.1 != 2 ||
    decide (((storeLog p.2.raft.raftLog.store).entryAt 1).map (·.term) ≠ some 1))

def c17y_chk (s : Sys) : Bool :=
  c17y_fixed s && c05x_nobatch s && s.net.all (fun x => decide (c01y_msgOk x)) &&
  s.nodes.all (fun p => c01x_nodeOk p.2) && c17y_never s

theorem c17y_chk_ok (s : Sys) (h : c17y_chk s = true) :
    FixedCfg c17y_cfg s ∧ NoBatch s ∧ (∀ x ∈ s.net, c01y_msgOk x) ∧
    (∀ i st, s.node i = some st → c01x_nodeOk st = true) ∧
    (∀ st, s.node 2 = some st →
      ((storeLog st.raft.raftLog.store).entryAt 1).map (·.term) ≠ some 1) := by
  unfold c17y_chk at h
  simp only [Bool.and_eq_true] at h
  obtain ⟨⟨⟨⟨h1, h2⟩, h3⟩, h4⟩, h5⟩ := h
  refine ⟨c17y_fixed_ok s h1, c05x_nobatch_ok s h2, fun x hx => ?_, fun i st hi => ?_,
    fun st hi => ?_⟩
  · rw [List.all_eq_true] at h3
    exact of_decide_eq_true (h3 x hx)
  · rw [List.all_eq_true] at h4
    exact h4 _ (c02_lookup_mem s.nodes i st hi)
  · unfold c17y_never at h5
    rw [List.all_eq_true] at h5
    have := h5 _ (c02_lookup_mem s.nodes 2 st hi)
    simpa using this

set_option maxRecDepth 100000 in
theorem c17y_chk_all : ∀ s ∈ c17y_hist, c17y_chk s = true := by
  intro s hs
  simp only [c17y_hist, c17y_tail, List.mem_cons, List.not_mem_nil, or_false] at hs
  rcases hs with rfl | rfl | rfl | rfl | rfl | rfl | rfl | rfl | rfl | rfl | rfl | rfl | rfl | rfl |
    rfl | rfl | rfl | rfl | rfl | rfl | rfl | rfl | rfl | rfl | rfl | rfl | rfl | rfl | rfl | rfl |
    rfl | rfl | rfl | rfl <;> decide

theorem c17y_nolone : ∀ i Q, IsJointQuorum c17y_cfg Q → ∃ k ∈ Q, k ≠ i := by
  intro i Q hQ
  apply Classical.byContradiction
  intro hc
  have hall : ∀ k ∈ Q, k = i := by
    intro k hk
    apply Classical.byContradiction
    intro hne
    exact hc ⟨k, hk, hne⟩
  have h1 := lone_joint_quorum_only_voter c17y_cfg Q i 1 (by decide) (by decide) hQ hall (by decide)
  have h2 := lone_joint_quorum_only_voter c17y_cfg Q i 2 (by decide) (by decide) hQ hall (by decide)
  omega

/-- **the history satisfies every hypothesis of the commit layer** -/
theorem c17y_hyp3w : Hyp3w c17y_cfg 0 c17y_hist := by
  have h0 : c17y_hist[0]? = some c17y_s0 := rfl
  have hall := fun s hs => c17y_chk_ok s (c17y_chk_all s hs)
  have hnode : ∀ s ∈ c17y_hist, ∀ i st, s.node i = some st →
      st.raft.raftLog.unstable.snapshot = none ∧ st.raft.raftLog.store.firstIndex = 1 ∧
      (st.raft.raftLog.abs.snapTerm = some 0 ∨ st.raft.raftLog.abs.snapTerm = none) := by
    intro s hs i st hi
    have := (hall s hs).2.2.2.1 i st hi
    unfold c01x_nodeOk at this
    simp only [Bool.and_eq_true, Bool.or_eq_true, decide_eq_true_eq, Option.isNone_iff_eq_none] at this
    exact ⟨this.1.1, this.1.2, this.2⟩
  refine ⟨⟨⟨c17y_history, fun s hs => (hall s hs).1, by decide, by decide, by decide, ?_,
    chained_at _ c17y_ksteps, fun s hs => (hall s hs).2.1, fun s hs x hx => (hall s hs).2.2.1 x hx⟩,
    c17y_nolone, fun s hs i st hi => ⟨(hnode s hs i st hi).1, (hnode s hs i st hi).2.1⟩, ?_⟩, ?_⟩
  · intro s hs
    rw [h0] at hs; cases hs
    exact c17y_init.2
  · intro s hs i st hi
    rw [h0] at hs; cases hs
    have hm := c02_lookup_mem _ i st hi
    simp only [c17y_s0, List.mem_cons, Prod.mk.injEq, List.not_mem_nil, or_false] at hm
    rcases hm with ⟨rfl, rfl⟩ | ⟨rfl, rfl⟩ | ⟨rfl, rfl⟩ | ⟨rfl, rfl⟩ | ⟨rfl, rfl⟩ <;> decide
  · intro s hs i st hi t0 ht0 j st0 _
    rcases (hnode s (mem_of_get hs) i st hi).2.2 with c | c
    · rw [c] at ht0; cases ht0; exact Nat.zero_le _
    · rw [c] at ht0; cases ht0

/-- in no state of the history does the storage of node 2 hold an entry of term 1 at index 1 -/
theorem c17y_never_stored : ∀ s ∈ c17y_hist, ∀ st, s.node 2 = some st →
    ∀ e, (storeLog st.raft.raftLog.store).entryAt 1 = some e → e.term ≠ 1 := by
  intro s hs st hi e he hc
  have := (c17y_chk_ok s (c17y_chk_all s hs)).2.2.2.2 st hi
  rw [he] at this
  exact this (by simp [hc])

end Cluster
end RaftModel
