import RaftProofs.ClusterCommit2R
import RaftProps.C03b

/-!
Cluster-level commit safety, part 2S: **a vote is granted only to an up-to-date log** at the level of
one call of the node (`fresh_grant`): a granted real vote response queued by a call answers the
delivered `MsgRequestVote`, whose `(log_term, index)` is at least the `(last_term, last_index)` of the
voter's log before the call.
-/
namespace RaftModel
namespace Raft
namespace CC
open Node CV

theorem fresh_grant {st st' : NState} {rnd : Option Nat} {op : NodeOp} {res : OpRes}
    (hcall : Node.call st rnd op = .ok (res, st')) (hop : Cluster.appOp op = true ∨ ∃ m, op = .step m)
    {g : Message} (hg : g ∈ st'.raft.msgs) (hold : g ∉ st.raft.msgs) (hig : Cluster.isGrant g) :
    ∃ m, op = .step m ∧ m.msgType = .msgRequestVote ∧ g.to = m.frm ∧ g.term = m.term ∧
      ∃ lt, st.raft.raftLog.lastTerm = .ok lt ∧
        (lt < m.logTerm ∨ (lt = m.logTerm ∧ st.raft.raftLog.lastIndex ≤ m.index)) := by
  have hN := call_nstep st st' rnd op res hcall
  have hrv : isRVm g = true := by simp [isRVm, hig.1, hig.2]
  rcases hN.msgs g hg hrv with c | c
  · exact absurd c hold
  obtain ⟨hty, hto, hterm, _⟩ := c.2.2.2 hig.1
  rcases hop with h1 | ⟨m, rfl⟩
  · cases op <;> first | (cases h1; done) | (cases hty; done)
  · refine ⟨m, rfl, hty, hto, hterm, ?_⟩
    unfold Node.call at hcall
    simp only [applyOp] at hcall
    obtain ⟨raft, e, hx, hr⟩ := unitRes_ok hcall
    unfold RawNode.step at hx
    have same : raft = ({ st.raft with nextRand := rnd } : Raft) → False := by
      intro he
      rw [hr, he] at hg
      exact hold hg
    split at hx
    · cases hx; exact (same rfl).elim
    · split at hx
      · rcases RaftProps.C03.C03_grant_only_if_up_to_date _ _ m e (.inl hty) hx with c1 | ⟨x, c1, _, _, c4⟩
        · rw [hr, c1] at hg
          exact absurd hg hold
        · rw [hr, c1] at hg
          rcases List.mem_append.1 hg with d | d
          · exact absurd d hold
          · rw [List.mem_singleton.1 d] at hig
            obtain ⟨_, _, _, _, _, hlt, _⟩ := c4 hig.2
            exact hlt
      · cases hx; exact (same rfl).elim

end CC
end Raft
end RaftModel
