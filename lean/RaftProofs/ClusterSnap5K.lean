import RaftProofs.ClusterSnap5J

/-!
[Copy of `ClusterSnap2K.lean` for the development `Snap5` (with `request_snapshot`): `NoReq` is replaced by
`ReqOk`, `SnapCase.restored` is widened — see `ClusterSnap5A.lean`, `RaftProps/C01i.lean`.]

Commit safety of `ClusterSem` with compaction and snapshots, part 2K: the hypotheses of the main
induction (`Snap5.Hyp3`), the term recorded for the *initial* snapshot point (`snapT`, `Hyp3.snapt`),
and **no entry is ahead of its holder's term** for the ghost logs — also for the uncompacted version
of every snapshot that travels (`term_le`).
-/
namespace RaftModel
namespace Cluster
namespace Snap5
open Node Raft Raft.CC RaftProps.C02 RaftProps.C05 Snap

/-- **the hypotheses of the main induction** on top of `Hyp2w` (as `Snap.Hyp3a`: `anch`, still a
**proof gap** here; `rirs` — a `MsgReadIndexResp` was sent by a leader of its term whose commit index
covered its index — in place of the gap `norir`; `snapt0`), plus `snapidx` -/
structure Hyp3a (cfg : JointConfig) (c0 : Nat) (h : List Sys) : Prop extends Hyp2w cfg c0 h where
  anch : ∀ s ∈ h, ∀ x ∈ s.net, x.msgType = .msgAppend → x.logTerm ≠ 0 ∨ x.index ≤ c0
  rirs : ∀ n s, h[n]? = some s → ∀ x ∈ s.net, x.msgType = .msgReadIndexResp → RirSrc h n x
  snapt0 : ∀ s0, h[0]? = some s0 → ∀ i sti, s0.node i = some sti → ∀ t0,
    sti.raft.raftLog.abs.snapTerm = some t0 → ∀ j stj, s0.node j = some stj → t0 ≤ stj.raft.term
  snapidx : ∀ s ∈ h, ∀ x ∈ s.net, x.msgType = .msgSnapshot → c0 < x.snapshot.metadata.index

/-- **the hypotheses of the main induction as first stated** (`RaftProps/C01e.lean`, part 2) on top of
`Hyp2` (as `Snap.Hyp3`), plus
* `snapidx`: a `MsgSnapshot` of the transport names an index above the common initial snapshot point
  `c0` (for `c0 = 0` a fact of the model: `prepare_send_snapshot` refuses an empty snapshot). -/
structure Hyp3 (cfg : JointConfig) (c0 : Nat) (h : List Sys) : Prop extends Hyp2 cfg c0 h where
  anch : ∀ s ∈ h, ∀ x ∈ s.net, x.msgType = .msgAppend → x.logTerm ≠ 0 ∨ x.index ≤ c0
  snapt0 : ∀ s0, h[0]? = some s0 → ∀ i sti, s0.node i = some sti → ∀ t0,
    sti.raft.raftLog.abs.snapTerm = some t0 → ∀ j stj, s0.node j = some stj → t0 ≤ stj.raft.term
  snapidx : ∀ s ∈ h, ∀ x ∈ s.net, x.msgType = .msgSnapshot → c0 < x.snapshot.metadata.index

variable {cfg : JointConfig} {c0 : Nat} {h : List Sys}

theorem Hyp3.toHyp2w (H : Hyp3 cfg c0 h) : Hyp2w cfg c0 h := H.toHyp2.toHyp2w

theorem Hyp3.toHyp3a (H : Hyp3 cfg c0 h) : Hyp3a cfg c0 h :=
  { toHyp2w := H.toHyp2w, anch := H.anch, snapt0 := H.snapt0, snapidx := H.snapidx,
    rirs := fun n s hn x hx hty => absurd hty (H.norir s (mem_of_get hn) x hx) }

/-- at the common initial snapshot point, a log knows no term but the one its node started with -/
def InitSnapT (h : List Sys) (c0 v : Nat) (g : LLog) : Prop :=
  g.snapIdx = c0 → ∀ t, g.snapTerm = some t →
    ∃ s0 st0, h[0]? = some s0 ∧ s0.node v = some st0 ∧ st0.raft.raftLog.abs.snapTerm = some t

theorem snapT (H : Hyp3a cfg c0 h) : ∀ (n : Nat) (s : Sys), h[n]? = some s →
    ∀ v st, s.node v = some st → InitSnapT h c0 v st.raft.raftLog.abs ∧
      InitSnapT h c0 v (storeLog st.raft.raftLog.store) := by
  have H2 := H.toHyp2w
  refine hist_induct h _ ?_ ?_
  · intro s h0 v st hv
    obtain ⟨_, sto, hboot, hwf, _, _⟩ := H.init s h0
    obtain ⟨c, rnd, hb⟩ := hboot v st hv
    obtain ⟨_, habs, hsl⟩ := boot_log c _ rnd st (hwf v st hv).1 hb
    refine ⟨fun _ t ht => ⟨s, st, h0, hv, ht⟩, fun _ t ht => ⟨s, st, h0, hv, ?_⟩⟩
    rw [habs, ← hsl]; exact ht
  · intro n a b ha hb ih v stb hvb
    obtain ⟨k, stk, stk', hka, hkb, hoth, hs⟩ := H2.stp ha hb
    by_cases hvk : v = k
    · subst hvk
      rw [hkb] at hvb; cases hvb
      obtain ⟨ia, is⟩ := ih v stk hka
      have oa := node_ok H2 ha hka
      have ob := node_ok H2 hb hkb
      -- the logical log
      have hlog : InitSnapT h c0 v stb.raft.raftLog.abs := by
        cases node_step H2 ha hb hka hkb with
        | same hl => rw [hl]; exact ia
        | grew es hg => rw [hg.abs]; exact ia
        | acc m _ _ _ hacc _ _ _ _ => intro h1 t h2; rw [hacc.snap.1] at h1; rw [hacc.snap.2] at h2; exact ia h1 t h2
        | restart hl _ _ => rw [hl]; exact is
        | compacted j ho =>
          rw [ho.abs]
          unfold LLog.compactTo
          split
          · exact ia
          · rename_i hgt
            intro h1
            have h1' : j - 1 = c0 := h1
            have := c0_le_snap H2 ha hka
            omega
        | restored m hm hty _ hl _ _ _ _ _ =>
          rw [hl]
          intro h1
          have h1' : m.snapshot.metadata.index = c0 := h1
          have := H.snapidx a (mem_of_get ha) m hm hty
          omega
      refine ⟨hlog, ?_⟩
      cases hs with
      | call rnd op res hop hco _ hns hpn _ hcall _ hpn' =>
        obtain ⟨_, hse, _⟩ := call_more H2 ha hka hop hco hns hpn hcall
        rcases hse with c | c | ⟨j, _, ho⟩
        · rw [c.storeLog]; exact is
        · subst c
          obtain ⟨u1, _⟩ := stabilize_out oa.inv hpn hcall
          rw [← abs_eq_storeLog ob.inv hpn' u1]; exact hlog
        · rw [ho.sto]
          unfold LLog.compactTo
          split
          · exact is
          · rename_i hgt
            intro h1
            have h1' : j - 1 = c0 := h1
            have h2 := c0_le_snap H2 ha hka
            rw [← oa.sidx hpn] at h2
            omega
      | snap rnd m _ _ _ _ hout _ =>
        cases hout with
        | skip hr => rw [hr]; exact is
        | handled x _ _ _ _ _ _ _ _ _ hsto _ => rw [hsto]; exact is
      | psnap rnd _ hout _ _ =>
        cases hout with
        | noop hr => rw [hr]; exact is
        | done sn L hp0 hr _ _ _ _ _ _ hents hmeta _ =>
          have hsl : storeLog stb.raft.raftLog.store =
              { snapIdx := sn.metadata.index, snapTerm := some sn.metadata.term, ents := [] } := by
            rw [hr]; exact storeLog_snap hents hmeta
          rw [hsl]
          have habsk := RaftLog.abs_some hp0
          intro h1 t h2
          exact ia (by rw [habsk]; exact h1) t (by rw [habsk]; exact h2)
      | send _ _ _ hsame _ _ => rw [hsame.1]; exact is
      | restart c rnd hboot _ =>
        obtain ⟨_, _, hsl⟩ := boot_log c _ rnd stb oa.inv.storeWF hboot
        rw [hsl]; exact is
    · rw [hoth v hvk] at hvb
      exact ih v stb hvb

/-- the term a node records for the common initial snapshot point is not above the initial term of any
node -/
theorem Hyp3a.snapt (H : Hyp3a cfg c0 h) : ∀ s ∈ h, ∀ i st, s.node i = some st →
    st.raft.raftLog.abs.snapIdx = c0 → ∀ t0, st.raft.raftLog.abs.snapTerm = some t0 →
    ∀ s0, h[0]? = some s0 → ∀ j st0, s0.node j = some st0 → t0 ≤ st0.raft.term := by
  intro s hs i st hi hc t0 ht0 s0 h0 j st0 hj
  obtain ⟨n, hn⟩ := List.mem_iff_getElem?.1 hs
  obtain ⟨s0', sti, h0', hi0, he⟩ := (snapT H n s hn i st hi).1 hc t0 ht0
  rw [h0] at h0'; cases h0'
  exact H.snapt0 s0 h0 i sti hi0 t0 he j st0 hj

theorem Hyp3.snapt (H : Hyp3 cfg c0 h) : ∀ s ∈ h, ∀ i st, s.node i = some st →
    st.raft.raftLog.abs.snapIdx = c0 → ∀ t0, st.raft.raftLog.abs.snapTerm = some t0 →
    ∀ s0, h[0]? = some s0 → ∀ j st0, s0.node j = some st0 → t0 ≤ st0.raft.term :=
  H.toHyp3a.snapt

/-- **no entry is ahead of its holder's term** — for the ghost logs, the queued and transported
`MsgAppend`s, and the uncompacted version of every snapshot that travels; and the stored term is not
ahead of the term -/
structure TermLe (h : List Sys) (c0 : Nat) (s : Sys) : Prop where
  log : ∀ i st, s.node i = some st → ∀ e ∈ (FL h c0 st).ents, e.term ≤ st.raft.term
  sto : ∀ i st, s.node i = some st → ∀ e ∈ (FS h c0 st).ents,
    e.term ≤ st.raft.raftLog.store.hardState.term
  que : ∀ i st, s.node i = some st → ∀ x ∈ st.raft.msgs, x.msgType = .msgAppend →
    ∀ e ∈ x.entries, e.term ≤ x.term
  net : ∀ x ∈ s.net, x.msgType = .msgAppend → ∀ e ∈ x.entries, e.term ≤ x.term
  sle : ∀ i st, s.node i = some st → st.raft.raftLog.store.hardState.term ≤ st.raft.term
  snq : ∀ i st, s.node i = some st → ∀ x ∈ st.raft.msgs, x.msgType = .msgSnapshot →
    ∀ F, Full (HistChain h) c0 (LLog.ofSnapshot x.snapshot) F → ∀ e ∈ F.ents, e.term ≤ x.term
  snn : ∀ x ∈ s.net, x.msgType = .msgSnapshot →
    ∀ F, Full (HistChain h) c0 (LLog.ofSnapshot x.snapshot) F → ∀ e ∈ F.ents, e.term ≤ x.term

theorem term_le (H : Hyp3a cfg c0 h) : ∀ (n : Nat) (s : Sys), h[n]? = some s → TermLe h c0 s := by
  have H2 := H.toHyp2w
  refine hist_induct h _ ?_ ?_
  · intro s h0
    have hinit := hist_init H.hist s h0
    obtain ⟨hnet, sto, hboot, hwf, _, hbound⟩ := H.init s h0
    have key : ∀ i st, s.node i = some st →
        st.raft.term = (sto i).hardState.term ∧
        st.raft.raftLog.store.hardState = (sto i).hardState ∧
        (∀ e ∈ (FL h c0 st).ents, e ∈ (sto i).entries) ∧
        (∀ e ∈ (FS h c0 st).ents, e ∈ (sto i).entries) := by
      intro i st hi
      obtain ⟨c, rnd, hb⟩ := hboot i st hi
      have hbt := CV.boot_booted c _ rnd st hb
      obtain ⟨hinv, h2, h3⟩ := boot_log c _ rnd st (hwf i st hi).1 hb
      have I := (ghost_inv H2 0 s h0).node i st hi
      have hs : (storeLog st.raft.raftLog.store).snapIdx = c0 := by
        show st.raft.raftLog.store.firstIndex - 1 = c0
        rw [H.first0 s h0 i st hi]; rfl
      have hself : Full (HistChain h) c0 (storeLog st.raft.raftLog.store)
          (storeLog st.raft.raftLog.store) :=
        Full.self hs (storeLog_contig hinv.storeWF) (hist_store h0 hi)
      have e2 : ∀ k, (FS h c0 st).entryAt k = (storeLog (sto i)).entryAt k := by
        intro k; rw [← h3]; exact fl_eq (hist_agree H2) hself k
      have e1 : ∀ k, (FL h c0 st).entryAt k = (storeLog (sto i)).entryAt k := by
        intro k
        rw [← h2]
        exact fl_eq (hist_agree H2) (Full.self (by rw [h2, ← h3]; exact hs) (abs_Contig hinv)
          (hist_log h0 hi)) k
      exact ⟨hbt.term, hbt.hs, fun e he => mem_of_eqAll I.log.contig e1 he,
        fun e he => mem_of_eqAll I.sto.contig e2 he⟩
    refine ⟨fun i st hi e he => ?_, fun i st hi e he => ?_, fun i st hi x hx => ?_,
      fun x hx => ?_, fun i st hi => ?_, fun i st hi x hx => ?_, fun x hx => ?_⟩
    · obtain ⟨k1, _, k3, _⟩ := key i st hi
      rw [k1]; exact hbound i i st st hi hi e (k3 e he)
    · obtain ⟨_, k2, _, k4⟩ := key i st hi
      rw [k2]; exact hbound i i st st hi hi e (k4 e he)
    · rw [init_queue hinit i st hi] at hx; cases hx
    · rw [hnet] at hx; cases hx
    · obtain ⟨k1, k2, _, _⟩ := key i st hi
      rw [k1, k2]; exact Nat.le_refl _
    · rw [init_queue hinit i st hi] at hx; cases hx
    · rw [hnet] at hx; cases hx
  · intro n a b ha hb ih
    obtain ⟨s0, _, hall⟩ := H2.inv_at
    have Iinv := hall a (mem_of_get ha)
    obtain ⟨k, stk, stk', hka, hkb, hoth, hs⟩ := H2.stp ha hb
    have oa := node_ok H2 ha hka
    have ob := node_ok H2 hb hkb
    have Ia := (ghost_inv H2 n a ha).node k stk hka
    have Ib := (ghost_inv H2 (n + 1) b hb).node k stk' hkb
    -- the nodes that do not step, and the transport
    have hnode : ∀ i st, b.node i = some st → (i = k ∧ st = stk') ∨ (i ≠ k ∧ a.node i = some st) := by
      intro i st hi
      by_cases hik : i = k
      · subst hik; rw [hkb] at hi; cases hi; exact .inl ⟨rfl, rfl⟩
      · rw [hoth i hik] at hi; exact .inr ⟨hik, hi⟩
    have hnet : ∀ x ∈ b.net, x.msgType = .msgAppend → ∀ e ∈ x.entries, e.term ≤ x.term := by
      intro x hx hty
      rcases hs.net_sub x hx with c | c
      · exact ih.net x c hty
      · exact ih.que k stk hka x c hty
    have hsnn : ∀ x ∈ b.net, x.msgType = .msgSnapshot →
        ∀ F, Full (HistChain h) c0 (LLog.ofSnapshot x.snapshot) F → ∀ e ∈ F.ents, e.term ≤ x.term := by
      intro x hx hty
      rcases hs.net_sub x hx with c | c
      · exact ih.snn x c hty
      · exact ih.snq k stk hka x c hty
    suffices hk : (∀ e ∈ (FL h c0 stk').ents, e.term ≤ stk'.raft.term) ∧
        (∀ e ∈ (FS h c0 stk').ents, e.term ≤ stk'.raft.raftLog.store.hardState.term) ∧
        (∀ x ∈ stk'.raft.msgs, x.msgType = .msgAppend → ∀ e ∈ x.entries, e.term ≤ x.term) ∧
        stk'.raft.raftLog.store.hardState.term ≤ stk'.raft.term ∧
        (∀ x ∈ stk'.raft.msgs, x.msgType = .msgSnapshot →
          ∀ F, Full (HistChain h) c0 (LLog.ofSnapshot x.snapshot) F →
            ∀ e ∈ F.ents, e.term ≤ x.term) by
      obtain ⟨k1, k2, k3, k4, k5⟩ := hk
      refine ⟨fun i st hi => ?_, fun i st hi => ?_, fun i st hi => ?_, hnet, fun i st hi => ?_,
        fun i st hi => ?_, hsnn⟩
      · rcases hnode i st hi with ⟨_, rfl⟩ | ⟨_, c⟩
        · exact k1
        · exact ih.log i st c
      · rcases hnode i st hi with ⟨_, rfl⟩ | ⟨_, c⟩
        · exact k2
        · exact ih.sto i st c
      · rcases hnode i st hi with ⟨_, rfl⟩ | ⟨_, c⟩
        · exact k3
        · exact ih.que i st c
      · rcases hnode i st hi with ⟨_, rfl⟩ | ⟨_, c⟩
        · exact k4
        · exact ih.sle i st c
      · rcases hnode i st hi with ⟨_, rfl⟩ | ⟨_, c⟩
        · exact k5
        · exact ih.snq i st c
    -- a step that keeps the raft state up to the log
    have quiet : stk'.raft.term = stk.raft.term → stk'.raft.msgs = stk.raft.msgs →
        stk'.raft.raftLog.store.hardState.term = stk.raft.raftLog.store.hardState.term →
        (∀ k, (FL h c0 stk').entryAt k = (FL h c0 stk).entryAt k) →
        (∀ k, (FS h c0 stk').entryAt k = (FS h c0 stk).entryAt k) →
        (∀ e ∈ (FL h c0 stk').ents, e.term ≤ stk'.raft.term) ∧
        (∀ e ∈ (FS h c0 stk').ents, e.term ≤ stk'.raft.raftLog.store.hardState.term) ∧
        (∀ x ∈ stk'.raft.msgs, x.msgType = .msgAppend → ∀ e ∈ x.entries, e.term ≤ x.term) ∧
        stk'.raft.raftLog.store.hardState.term ≤ stk'.raft.term ∧
        (∀ x ∈ stk'.raft.msgs, x.msgType = .msgSnapshot →
          ∀ F, Full (HistChain h) c0 (LLog.ofSnapshot x.snapshot) F →
            ∀ e ∈ F.ents, e.term ≤ x.term) := by
      intro q1 q2 q3 q4 q5
      refine ⟨fun e he => ?_, fun e he => ?_, fun x hx => ?_, ?_, fun x hx => ?_⟩
      · rw [q1]; exact ih.log k stk hka e (mem_of_eqAll Ib.log.contig q4 he)
      · rw [q3]; exact ih.sto k stk hka e (mem_of_eqAll Ib.sto.contig q5 he)
      · rw [q2] at hx; exact ih.que k stk hka x hx
      · rw [q1, q3]; exact ih.sle k stk hka
      · rw [q2] at hx; exact ih.snq k stk hka x hx
    cases hs with
    | restart c rnd hboot _ =>
      have hbt := CV.boot_booted c _ rnd stk' hboot
      obtain ⟨_, habs, hsl⟩ := boot_log c _ rnd stk' oa.inv.storeWF hboot
      refine ⟨?_, ?_, ?_, ?_, ?_⟩
      · rw [FL_restart habs, hbt.term]; exact ih.sto k stk hka
      · rw [FS_same hsl, hbt.hs]; exact ih.sto k stk hka
      · intro x hx; rw [hbt.msgs] at hx; cases hx
      · rw [hbt.hs, hbt.term]; exact Nat.le_refl _
      · intro x hx; rw [hbt.msgs] at hx; cases hx
    | send hp hu hq hsame _ _ =>
      refine ⟨?_, ?_, ?_, ?_, ?_⟩
      · rw [FL_same (st := stk) (by rw [hsame.1]), hsame.2.1]; exact ih.log k stk hka
      · rw [FS_same (st := stk) (by rw [hsame.1]), hsame.1]; exact ih.sto k stk hka
      · intro x hx; rw [hq] at hx; cases hx
      · rw [hsame.1, hsame.2.1]; exact ih.sle k stk hka
      · intro x hx; rw [hq] at hx; cases hx
    | psnap rnd hp hout hpend _ =>
      cases hout with
      | noop hr =>
        exact quiet (by rw [hr]) (by rw [hr]) (by rw [hr])
          (fun _ => by rw [FL_same (st := stk) (by rw [hr])])
          (fun _ => by rw [FS_same (st := stk) (by rw [hr])])
      | done sn L hp0 hr hinvL habs hcm hper hus hue hents hmeta hhs =>
        have hl : ∀ j, (FL h c0 stk').entryAt j = (FL h c0 stk).entryAt j :=
          fun _ => by rw [FL_same (st := stk) (by rw [hr]; exact habs)]
        have hlog : ∀ e ∈ (FL h c0 stk').ents, e.term ≤ stk.raft.term :=
          fun e he => ih.log k stk hka e (mem_of_eqAll Ib.log.contig hl he)
        have hterm : stk'.raft.term = stk.raft.term := by rw [hr]
        have hst : stk'.raft.raftLog.store.hardState.term =
            max stk.raft.raftLog.store.hardState.term sn.metadata.term := by rw [hr, hhs]
        -- the stored log is a prefix of the logical log; the snapshot's term is the term of an entry
        have hsnt : sn.metadata.term ≤ stk.raft.term := by
          have habsk := RaftLog.abs_some hp0
          by_cases hi0 : c0 < sn.metadata.index
          · obtain ⟨e, he, het⟩ := Ia.log.sT sn.metadata.term (by rw [habsk])
              (by rw [habsk]; exact hi0)
            rw [← het]
            exact ih.log k stk hka e ((FL h c0 stk).entryAt_mem he)
          · -- a snapshot at the common initial point is not installed (`snapidx`); use the bound anyway
            have hle := Ia.log.le
            rw [habsk] at hle
            have heq : sn.metadata.index = c0 := by
              have : c0 ≤ sn.metadata.index := hle
              omega
            have := H.snapt a (mem_of_get ha) k stk hka (by rw [habsk]; exact heq)
              sn.metadata.term (by rw [habsk])
            obtain ⟨s0', h0'⟩ : ∃ s0', h[0]? = some s0' := ⟨s0, by assumption⟩
            obtain ⟨st0, hst0⟩ := node_back_steps
              ((hist_all H.hist).2.2 0 n s0' a (Nat.zero_le _) h0' ha) k stk hka
            have h1 := this s0' h0' k st0 hst0
            obtain ⟨_, sto, hboot, _, _, _⟩ := H.init s0' h0'
            obtain ⟨c, rnd0, hb0⟩ := hboot k st0 hst0
            have hd0 : Dead s0' k st0.raft.term :=
              ⟨st0, hst0, by rw [(CV.boot_booted c _ rnd0 st0 hb0).hs,
                ← (CV.boot_booted c _ rnd0 st0 hb0).term]; exact Nat.le_refl _,
                .inr ⟨rfl, .inl (CV.boot_booted c _ rnd0 st0 hb0).state⟩⟩
            have hfl : TermFloor s0' k st0.raft.term :=
              ⟨st0, hst0, Nat.le_refl _, by rw [(CV.boot_booted c _ rnd0 st0 hb0).hs,
                ← (CV.boot_booted c _ rnd0 st0 hb0).term]; exact Nat.le_refl _⟩
            obtain ⟨st2, h2, h3, _⟩ := hfl.later H.hist h0' ha (Nat.zero_le _)
            rw [hka] at h2; cases h2
            omega
        refine ⟨fun e he => by rw [hterm]; exact hlog e he, fun e he => ?_, fun x hx => ?_, ?_,
          fun x hx => ?_⟩
        · -- entries of the stored ghost log are entries of the logical ghost log
          rw [hst]
          have hpnone : stk'.raft.raftLog.unstable.snapshot = none := by rw [hr]; exact hus
          have he' := Ib.sto.contig.entryAt_of_mem he
          have hidx : e.index ≤ stk'.raft.raftLog.abs.snapIdx := by
            have h1 := ((FS h c0 stk').entryAt_lt he').2
            rw [Ib.sto.last] at h1
            have hsl : storeLog stk'.raft.raftLog.store =
                { snapIdx := sn.metadata.index, snapTerm := some sn.metadata.term, ents := [] } := by
              rw [hr]; exact storeLog_snap hents hmeta
            rw [hsl] at h1
            have : stk'.raft.raftLog.abs.snapIdx = sn.metadata.index := by
              rw [hr]; show L.abs.snapIdx = _; rw [habs, RaftLog.abs_some hp0]
            rw [this]
            exact h1
          rw [← Ib.pre hpnone e.index hidx] at he'
          have := hlog e ((FL h c0 stk').entryAt_mem he')
          rw [← hp.1] at this
          omega
        · rw [show stk'.raft.msgs = stk.raft.msgs by rw [hr]] at hx; exact ih.que k stk hka x hx
        · rw [hst, hterm, hp.1]; exact Nat.max_le.2 ⟨Nat.le_refl _, hsnt⟩
        · rw [show stk'.raft.msgs = stk.raft.msgs by rw [hr]] at hx; exact ih.snq k stk hka x hx
    | snap rnd m hm hto hty hpn hout _ =>
      cases hout with
      | skip hr =>
        exact quiet (by rw [hr]) (by rw [hr]) (by rw [hr])
          (fun _ => by rw [FL_same (st := stk) (by rw [hr])])
          (fun _ => by rw [FS_same (st := stk) (by rw [hr])])
      | handled x hsf ht hle hid hq hack _ _ _ hsto hcase =>
        have hfs : FS h c0 stk' = FS h c0 stk := FS_same (by rw [hsto])
        have hqa : ∀ y ∈ stk'.raft.msgs, y.msgType ≠ .msgAppendResponse → y ∈ stk.raft.msgs := by
          intro y hy hne
          rw [hq] at hy
          rcases List.mem_append.1 hy with c | c
          · exact c
          · rw [List.mem_singleton.1 c] at hne; exact absurd hack.1 hne
        have hrest : (∀ e ∈ (FS h c0 stk').ents, e.term ≤ stk'.raft.raftLog.store.hardState.term) ∧
            (∀ y ∈ stk'.raft.msgs, y.msgType = .msgAppend → ∀ e ∈ y.entries, e.term ≤ y.term) ∧
            stk'.raft.raftLog.store.hardState.term ≤ stk'.raft.term ∧
            (∀ y ∈ stk'.raft.msgs, y.msgType = .msgSnapshot →
              ∀ F, Full (HistChain h) c0 (LLog.ofSnapshot y.snapshot) F →
                ∀ e ∈ F.ents, e.term ≤ y.term) := by
          refine ⟨fun e he => ?_, fun y hy hyt => ?_, ?_, fun y hy hyt => ?_⟩
          · rw [hfs] at he; rw [hsto]; exact ih.sto k stk hka e he
          · exact ih.que k stk hka y (hqa y hy (by rw [hyt]; intro hc; cases hc)) hyt
          · rw [hsto]; exact Nat.le_trans (ih.sle k stk hka) hle
          · exact ih.snq k stk hka y (hqa y hy (by rw [hyt]; intro hc; cases hc)) hyt
        have keep : stk'.raft.raftLog.unstable = stk.raft.raftLog.unstable →
            ∀ e ∈ (FL h c0 stk').ents, e.term ≤ stk'.raft.term := by
          intro hu e he
          rw [FL_same (abs_of_eq hsto hu)] at he
          exact Nat.le_trans (ih.log k stk hka e he) hle
        cases hcase with
        | kept hu _ _ _ => exact ⟨keep hu, hrest⟩
        | ffwd hu _ _ _ _ _ _ => exact ⟨keep hu, hrest⟩
        | restored _ _ hu _ _ _ =>
          refine ⟨fun e he => ?_, hrest⟩
          have habs : stk'.raft.raftLog.abs = LLog.ofSnapshot m.snapshot := by
            rw [RaftLog.abs_some (sn := m.snapshot) (by rw [hu]; rfl), hu]; rfl
          have hmt := snap_term_ne_zero H2 ha hm hty
          have := ih.snn m hm hty (FL h c0 stk') (Ib.log.congr habs.symm) e he
          rcases ht with c | c
          · rw [← c]; exact this
          · exact absurd c hmt
    | call rnd op res hop hco hca hns hpn hss hcall _ hpn' =>
      obtain ⟨g, hL, hq, _, hid⟩ := call_facts H2 ha hka hop hco hns hpn hcall
      obtain ⟨_, hse, hhs⟩ := call_more H2 ha hka hop hco hns hpn hcall
      -- the ghost log
      have hlog : ∀ e ∈ (FL h c0 stk').ents, e.term ≤ stk'.raft.term := by
        intro e he
        have hold : ∀ e ∈ (FL h c0 stk).ents, e.term ≤ stk'.raft.term :=
          fun e he => Nat.le_trans (ih.log k stk hka e he) hL.rt.le
        have he' := Ib.log.contig.entryAt_of_mem he
        cases fcall_step H2 ha hb hka hkb hop hco hns hpn hcall with
        | same hl _ => exact hold e (mem_of_eqAll Ib.log.contig hl he)
        | grew es hg hl hnew =>
          by_cases hi : e.index ≤ stk.raft.raftLog.abs.lastIndex
          · rw [hl _ hi] at he'
            exact hold e ((FL h c0 stk).entryAt_mem he')
          · exact Nat.le_of_eq (hg.terms e (hnew _ e he' (by omega)))
        | acc m hm hty hto hacc _ _ _ _ ht =>
          rcases hacc.cases with c | ⟨_, _, c⟩
          · exact hold e (mem_of_eqAll Ib.log.contig c he)
          · rcases c e.index e he' with d | d
            · exact hold e ((FL h c0 stk).entryAt_mem d)
            · have := ih.net m hm hty e d
              rcases ht with t1 | t1 <;> omega
      -- the ghost stored log, and the stored term
      have hsto : (∀ e ∈ (FS h c0 stk').ents,
          e.term ≤ stk'.raft.raftLog.store.hardState.term) ∧
          stk'.raft.raftLog.store.hardState.term ≤ stk'.raft.term := by
        by_cases hst : op = .stabilize
        · subst hst
          obtain ⟨k1, k2, k3, _, k5, _⟩ := stabilize_out oa.inv hpn hcall
          refine ⟨fun e he => ?_, by rw [k2.1]; exact Nat.le_refl _⟩
          rw [k2.1, k5]
          rw [← FL_eq_FS ob hpn' k1, FL_same k3] at he
          exact ih.log k stk hka e he
        · have hterm : stk'.raft.raftLog.store.hardState.term =
              stk.raft.raftLog.store.hardState.term := by
            rcases hhs with d | ⟨j, _, d⟩ | ⟨d, _⟩
            · rw [d]
            · rw [d]
            · exact absurd d hst
          rw [hterm]
          refine ⟨fun e he => ?_, Nat.le_trans (ih.sle k stk hka) hL.rt.le⟩
          rcases hse with c | c | ⟨j, _, ho⟩
          · rw [FS_same c.storeLog] at he; exact ih.sto k stk hka e he
          · exact absurd c hst
          · obtain ⟨_, l2⟩ := ho.lt oa.inv
            have hF2 := (Ia.sto.compact l2).congr ho.sto
            exact ih.sto k stk hka e (mem_of_eqAll Ib.sto.contig (fl_eq (hist_agree H2) hF2) he)
      -- the queue
      have hque : ∀ x ∈ stk'.raft.msgs, x.msgType = .msgAppend →
          ∀ e ∈ x.entries, e.term ≤ x.term := by
        intro x hx hty e he
        rcases g.qlk x hx (by rw [hty]; rfl) with c | c
        · exact ih.que k stk hka x c hty e he
        · rcases hq x hx hty with d | d
          · exact ih.que k stk hka x d hty e he
          · rw [c.term]
            exact hlog e ((FL h c0 stk').entryAt_mem (Ib.log.entry (subw_entries d e he)))
      -- the snapshots queued in this call come from the node's own storage
      have hsnq : ∀ x ∈ stk'.raft.msgs, x.msgType = .msgSnapshot →
          ∀ F, Full (HistChain h) c0 (LLog.ofSnapshot x.snapshot) F →
            ∀ e ∈ F.ents, e.term ≤ x.term := by
        intro x hx hty F hF e he
        by_cases hold : x ∈ stk.raft.msgs
        · exact ih.snq k stk hka x hold hty F hF e he
        · have hsn := hss x hx hold hty
          have hxt : x.term = stk'.raft.term := by
            rcases g.qlk x hx (by rw [hty]; rfl) with c | c
            · exact absurd c hold
            · exact c.term
          have he' := hF.contig.entryAt_of_mem he
          have hei := (F.entryAt_lt he')
          rw [hF.last, hF.snap] at hei
          have hil : (LLog.ofSnapshot x.snapshot).lastIndex = x.snapshot.metadata.index := by
            unfold LLog.ofSnapshot LLog.lastIndex; rfl
          rw [hil] at hei
          have hi0 : c0 < x.snapshot.metadata.index := by omega
          obtain ⟨es, hes, hest⟩ := snapshotCore_ok Ia oa.inv.storeWF
            (fun e he => Iinv.nz (.store k) _ ⟨stk, hka, rfl⟩ e.index e
              ((storeLog_contig oa.inv.storeWF).entryAt_of_mem he)) hsn hi0
          obtain ⟨ef, hef, heft⟩ := hF.sT x.snapshot.metadata.term rfl hi0
          have heq := full_eq_below H2 hF Ia.sto hef hes (heft.trans hest.symm) e.index hei.2
          rw [heq] at he'
          have h1 := ih.sto k stk hka e ((FS h c0 stk).entryAt_mem he')
          have h2 := ih.sle k stk hka
          have h3 := hL.rt.le
          omega
      exact ⟨hlog, hsto.1, hque, hsto.2, hsnq⟩

end Snap5
end Cluster
end RaftModel
