import RaftProofs.ProtoV
import RaftProofs.ProtoQuorum

/-!
Every event of P acts on the vote-layer projection as one of the ten V-transitions or as the
identity; hence `InvV` holds in every reachable state of P (for histories whose elections and
commits are all decided under one fixed joint configuration `c0`).
-/
namespace RaftModel.P

/-- the events of a fixed-configuration history: elections and leader commits use `c0` -/
def Event.cfgOk (c0 : Cfg) : Event → Prop
  | .win _ cfg _ => cfg = c0
  | .commitLeader _ _ cfg _ => cfg = c0
  | .read (.resp _ _ _ cfg) => cfg = c0
  | .read (.rstate _ _ _ cfg) => cfg = c0
  | _ => True

/-- a read-index event changes the read bookkeeping only -/
theorem read_frame {s s' : PSys} {r : REvent} (h : applyEvent s (.read r) = .ok s') :
    ∃ rd, s' = { s with rd := rd } := by
  simp only [applyEvent, ok] at h
  split at h
  · rename_i rd _; cases h; exact ⟨rd, rfl⟩
  · cases h

/-- reachable states of P under a fixed configuration -/
inductive ReachC (c0 : Cfg) : PSys → Prop where
  | init : ReachC c0 init
  | step {s s' : PSys} (e : Event) : ReachC c0 s → e.cfgOk c0 → applyEvent s e = .ok s' → ReachC c0 s'

theorem reach_of_reachC {c0 : Cfg} {s : PSys} (h : ReachC c0 s) : Reach s := by
  induction h with
  | init => exact .init
  | step e _ _ hs ih => exact .step e ih hs

theorem vsys_nodes (s : PSys) (i : Nat) (n : PNode) (g : List Grant) (el : List (Nat × Nat))
    (s' : PSys) (hn : s'.nodes = upd s.nodes i n) (hg : s'.grants = g) (he : s'.elected = el)
    (hc : s'.ecfgs = s.ecfgs) :
    vsys s' = { setN (vsys s) i (vproj n) with grants := g, elected := el } := by
  simp only [vsys, setN, hn, hg, he, hc, vproj_upd]

theorem vsys_mk (f : Nat → PNode) (i : Nat) (n : PNode) (r : List VoteReq) (g : List Grant) (a : List Ack)
    (ap : List App) (hb : List HB) (sn : List Snap) (cl : List Claim) (ll : Nat → List LEntry)
    (el : List (Nat × Nat)) (eg : Nat → List LEntry) (rg : List (Grant × VGhost)) (cm : List (Nat × Nat)) (rd : RdState)
    (ec : List (Nat × Cfg)) (cc : List ((Nat × Nat) × Cfg)) :
    vsys ⟨upd f i n, r, g, a, ap, hb, sn, cl, ll, el, eg, rg, cm, rd, ec, cc⟩ =
      { nodes := updV (fun j => vproj (f j)) i (vproj n), grants := g, elected := el, ecfgs := ec } := by
  simp only [vsys, vproj_upd]

theorem vsys_mk' (s : PSys) : (vsys s) = { nodes := fun j => vproj (s.nodes j), grants := s.grants, elected := s.elected, ecfgs := s.ecfgs } := rfl

theorem vsys_mk_same (s : PSys) (i : Nat) (n : PNode) (r : List VoteReq) (a : List Ack)
    (ap : List App) (hb : List HB) (sn : List Snap) (cl : List Claim) (ll : Nat → List LEntry)
    (eg : Nat → List LEntry) (rg : List (Grant × VGhost)) (cm : List (Nat × Nat)) (rd : RdState) (cc : List ((Nat × Nat) × Cfg))
    (hp : vproj n = vproj (s.nodes i)) :
    vsys ⟨upd s.nodes i n, r, s.grants, a, ap, hb, sn, cl, ll, s.elected, eg, rg, cm, rd, s.ecfgs, cc⟩ = vsys s := by
  rw [vsys_mk, hp]
  simp only [vsys]
  congr
  funext j; by_cases h : j = i <;> simp [updV, h]

theorem setN_self (v : VSys) (i : Nat) : setN v i (v.nodes i) = v := by
  cases v with
  | mk nodes grants elected ecfgs =>
    simp only [setN]
    congr
    funext j; by_cases h : j = i <;> simp [updV, h]

/-- a node update that leaves the vote-layer projection of the node unchanged -/
theorem vsys_same (s s' : PSys) (i : Nat) (n : PNode) (hn : s'.nodes = upd s.nodes i n)
    (hp : vproj n = vproj (s.nodes i)) (hg : s'.grants = s.grants) (he : s'.elected = s.elected)
    (hc : s'.ecfgs = s.ecfgs) :
    vsys s' = vsys s := by
  rw [vsys_nodes s i n s.grants s.elected s' hn hg he hc, hp]
  have : (vsys s).nodes i = vproj (s.nodes i) := rfl
  rw [← this, setN_self]
  rfl

theorem filterMap_eraseIdx_none {α β} (f : α → Option β) :
    ∀ (l : List α) (k : Nat) (m : α), l[k]? = some m → f m = none →
      (l.eraseIdx k).filterMap f = l.filterMap f := by
  intro l
  induction l with
  | nil => intro k m h; simp at h
  | cons a l ih =>
    intro k m h hf
    cases k with
    | zero =>
      simp only [List.getElem?_cons_zero, Option.some.injEq] at h
      subst h
      simp [List.eraseIdx, List.filterMap_cons, hf]
    | succ k =>
      simp only [List.getElem?_cons_succ] at h
      simp only [List.eraseIdx_cons_succ, List.filterMap_cons]
      rw [ih k m h hf]

theorem filterMap_eraseIdx_some {α β} (f : α → Option β) :
    ∀ (l : List α) (k : Nat) (m : α) (g : β), l[k]? = some m → f m = some g →
      ∃ k', (l.filterMap f)[k']? = some g ∧ (l.eraseIdx k).filterMap f = (l.filterMap f).eraseIdx k' := by
  intro l
  induction l with
  | nil => intro k m g h; simp at h
  | cons a l ih =>
    intro k m g h hf
    cases k with
    | zero =>
      simp only [List.getElem?_cons_zero, Option.some.injEq] at h
      subst h
      refine ⟨0, ?_, ?_⟩
      · simp [List.filterMap_cons, hf]
      · simp [List.eraseIdx, List.filterMap_cons, hf]
    | succ k =>
      simp only [List.getElem?_cons_succ] at h
      obtain ⟨k', h1, h2⟩ := ih k m g h hf
      simp only [List.eraseIdx_cons_succ, List.filterMap_cons]
      cases hfa : f a with
      | none => exact ⟨k', by simpa using h1, by simpa using h2⟩
      | some b => exact ⟨k' + 1, by simpa using h1, by simp [h2]⟩

theorem filterMap_grantOf_acks (l : List OMsg) : (l.filter OMsg.isAck).filterMap grantOf = [] := by
  induction l with
  | nil => rfl
  | cons a l ih =>
    cases a with
    | voteReq t c lt li => simpa [List.filter_cons, OMsg.isAck] using ih
    | grant t v c gh => simpa [List.filter_cons, OMsg.isAck] using ih
    | ack t f idx pre =>
      rw [List.filter_cons]
      simp only [OMsg.isAck, if_true, List.filterMap_cons, grantOf]
      exact ih

theorem og_append_nongrant (n : PNode) (m : OMsg) (hm : grantOf m = none) :
    (n.outbox ++ [m]).filterMap grantOf = n.outbox.filterMap grantOf := by
  simp [List.filterMap_append, hm]


/-- tactic-free helper: conclude from an identity of projections -/
theorem invV_of_eq {v v' : VSys} (h : InvV v) (e : v' = v) : InvV v' := e ▸ h

set_option maxHeartbeats 800000 in
theorem invV_step (s s' : PSys) (e : Event)
    (hI : InvV (vsys s)) (h : applyEvent s e = .ok s') : InvV (vsys s') := by
  cases e with
  | bump i t =>
    simp only [applyEvent, ok] at h
    split at h
    · rename_i hg
      cases h
      rw [vsys_mk]; show InvV (setN (vsys s) i _)
      exact invV_bump hI i t hg.2
    · cases h
  | campaign i =>
    simp only [applyEvent, ok] at h
    split at h
    · rename_i hg
      cases h
      rw [vsys_mk]; show InvV (setN (vsys s) i _)
      have : vproj { s.nodes i with vote := i, role := 1, outbox := (s.nodes i).outbox ++ [.voteReq (s.nodes i).term i (lastTerm (s.nodes i).log) (s.nodes i).log.length, .grant (s.nodes i).term i i ⟨(s.nodes i).log, !(s.elected.any (fun p => p.1 = (s.nodes i).term)), lastTerm (s.nodes i).log, (s.nodes i).log.length⟩] }
          = nCampaign ((vsys s).nodes i) i := by
        simp [vproj, nCampaign, vsys, List.filterMap_append, List.filterMap_cons, grantOf]
      rw [this]
      exact invV_campaign hI i hg.2.1 hg.2.2.2.1
    · cases h
  | grant i c =>
    simp only [applyEvent, ok] at h
    split at h
    · rename_i r hr
      split at h
      · rename_i hg
        cases h
        rw [vsys_mk]; show InvV (setN (vsys s) i _)
        have : vproj { s.nodes i with vote := c, role := 0, outbox := (s.nodes i).outbox ++ [.grant (s.nodes i).term i c ⟨(s.nodes i).log, !(s.elected.any (fun p => p.1 = (s.nodes i).term)), r.lastTerm, r.lastIdx⟩] }
            = nGrant ((vsys s).nodes i) i c := by
          simp [vproj, nGrant, vsys, List.filterMap_append, grantOf]
        rw [this]
        exact invV_grant hI i c hg.2.2.2.1 hg.2.2.1
      · cases h
    · cases h
  | rdy i =>
    simp only [applyEvent, ok] at h
    split at h
    · cases h
      rw [vsys_mk]; show InvV (setN (vsys s) i _)
      have : vproj { s.nodes i with pending := (s.nodes i).pending ++ [image (s.nodes i)] }
          = nRdy ((vsys s).nodes i) := by
        simp [vproj, nRdy, vsys, image, VNode.vol]
      rw [this]
      exact invV_rdy hI i
    · cases h
  | persist i k =>
    simp only [applyEvent, ok] at h
    split at h
    · rename_i hg
      split at h
      · rename_i im him
        cases h
        rw [vsys_mk]; show InvV (setN (vsys s) i _)
        have : vproj { s.nodes i with dterm := im.term, dvote := im.vote, dlog := im.log, dcommit := im.commit, dacks := im.acks, pending := (s.nodes i).pending.drop k }
            = nPersist ((vsys s).nodes i) (im.term, im.vote) k := by
          simp [vproj, nPersist, vsys, List.map_drop]
        rw [this]
        apply invV_persist hI i k (im.term, im.vote) hg.2.1
        simp [vsys, vproj, List.getElem?_map, him]
      · cases h
    · cases h
  | release i key =>
    simp only [applyEvent, ok] at h
    split at h
    · -- an acknowledgement: nothing of the vote layer changes
      split at h
      · rename_i m hm
        split at h
        · rename_i hg
          cases m with
          | ack t f idx pre =>
            simp only [addReleased] at h
            cases h
            exact hI
          | voteReq t c lt li => simp [OMsg.isAck] at hg
          | grant t vv c gh => simp [OMsg.isAck] at hg
        · cases h
      · cases h
    · split at h
      · rename_i k hk
        split at h
        · rename_i m hm
          split at h
          · rename_i hg
            cases m with
            | voteReq t c lt li =>
              simp only [addReleased] at h
              cases h
              apply invV_of_eq hI
              apply vsys_mk_same s i
              simp only [vproj]
              rw [filterMap_eraseIdx_none grantOf _ k _ hm rfl]
            | ack t f idx pre => simp [OMsg.isAck] at hg
            | grant t vv c gh =>
              simp only [addReleased] at h
              cases h
              obtain ⟨k', h1, h2⟩ := filterMap_eraseIdx_some grantOf _ k _ ⟨t, vv, c⟩ hm rfl
              rw [vsys_mk]; show InvV { setN (vsys s) i _ with grants := ⟨t, vv, c⟩ :: (vsys s).grants }
              have : vproj { s.nodes i with outbox := (s.nodes i).outbox.eraseIdx k }
                  = nRelease ((vsys s).nodes i) k' := by
                simp only [vproj, nRelease, vsys, h2]
              rw [this]
              apply invV_release hI i k' ⟨t, vv, c⟩ h1
              have hr := hg.2.1
              simp only [releasable, Bool.or_eq_true, Bool.and_eq_true, decide_eq_true_eq] at hr
              exact hr
          · cases h
        · cases h
      · cases h
  | crash i =>
    simp only [applyEvent, ok] at h
    split at h
    · cases h
      rw [vsys_mk]; show InvV (setN (vsys s) i _)
      exact invV_crash hI i
    · cases h
  | restart i =>
    simp only [applyEvent, ok] at h
    split at h
    · cases h
      rw [vsys_mk]; show InvV (setN (vsys s) i _)
      have : vproj { s.nodes i with up := true, term := (s.nodes i).dterm, vote := (s.nodes i).dvote, log := (s.nodes i).dlog, commit := (s.nodes i).dcommit, role := 0, pending := [], outbox := (s.nodes i).dacks.filter OMsg.isAck }
          = nRestart ((vsys s).nodes i) := by
        simp [vproj, nRestart, vsys, filterMap_grantOf_acks]
      rw [this]
      exact invV_restart hI i
    · cases h
  | read r =>
    simp only [applyEvent, ok] at h
    split at h
    · cases h; exact invV_of_eq hI rfl
    · cases h
  | win i cfg q =>
    simp only [applyEvent, ok] at h
    split at h
    · rename_i hg
      cases h
      rw [vsys_mk]; show InvV { setN (vsys s) i _ with elected := (((vsys s).nodes i).term, i) :: (vsys s).elected, ecfgs := (((vsys s).nodes i).term, cfg) :: (vsys s).ecfgs }
      have hall : ∀ x ∈ q, (⟨(s.nodes i).term, x, i⟩ : Grant) ∈ s.grants := by
        have := hg.2.2.2.2.2.1
        simp only [List.all_eq_true, List.contains_iff_mem] at this
        exact this
      have hself : (⟨(s.nodes i).term, i, i⟩ : Grant) ∈ s.grants := by
        have := hg.2.2.2.2.1
        simpa [List.contains_iff_mem] using this
      have hadj := hg.2.2.2.2.2.2.2.2.1
      simp only [List.all_eq_true, Bool.or_eq_true, decide_eq_true_eq] at hadj
      refine invV_win hI i cfg q hg.2.2.2.1 hg.2.2.1 hself hall ?_
      intro p hp hpt q' hq'
      have := hadj p hp
      rcases this with hne | hok
      · exact absurd hpt hne
      · exact adj_intersect cfg p.2 hok q q' hg.2.2.2.1 hq'
    · cases h
  | stepDown i =>
    simp only [applyEvent, ok] at h
    split at h
    · cases h
      rw [vsys_mk]; show InvV (setN (vsys s) i _)
      exact invV_role0 hI i
    · cases h
  | leaderAppend i e =>
    simp only [applyEvent, ok] at h
    split at h
    · cases h
      exact invV_of_eq hI (vsys_mk_same s i _ _ _ _ _ _ _ _ _ _ _ _ _ rfl)
    · cases h
  | sendApp i m =>
    simp only [applyEvent, ok] at h
    split at h
    · cases h; exact hI
    · cases h
  | recvApp i m =>
    simp only [applyEvent, ok] at h
    split at h
    · cases h
      rw [vsys_mk]; show InvV (setN (vsys s) i _)
      have : vproj { s.nodes i with role := 0, log := mergeAt (s.nodes i).log m.prev m.es, outbox := (s.nodes i).outbox ++ [.ack (s.nodes i).term i (m.prev + m.es.length) ((mergeAt (s.nodes i).log m.prev m.es).take (m.prev + m.es.length))] }
          = nRole0 ((vsys s).nodes i) := by
        simp [vproj, nRole0, vsys, List.filterMap_append, grantOf]
      rw [this]
      exact invV_role0 hI i
    · cases h
  | ackCommitted i =>
    simp only [applyEvent, ok] at h
    split at h
    · cases h
      apply invV_of_eq hI
      apply vsys_mk_same s i
      simp [vproj, List.filterMap_append, grantOf]
    · cases h
  | ackSelf i idx =>
    simp only [applyEvent, ok] at h
    split at h
    · cases h
      apply invV_of_eq hI
      apply vsys_mk_same s i
      simp [vproj, List.filterMap_append, grantOf]
    · cases h
  | commitLeader i c cfg q =>
    simp only [applyEvent, ok] at h
    split at h
    · cases h
      exact invV_of_eq hI (vsys_mk_same s i _ _ _ _ _ _ _ _ _ _ _ _ _ rfl)
    · cases h
  | commitApp i c m =>
    simp only [applyEvent, ok] at h
    split at h
    · cases h
      exact invV_of_eq hI (vsys_mk_same s i _ _ _ _ _ _ _ _ _ _ _ _ _ rfl)
    · cases h
  | commitHB i c m =>
    simp only [applyEvent, ok] at h
    split at h
    · cases h
      exact invV_of_eq hI (vsys_mk_same s i _ _ _ _ _ _ _ _ _ _ _ _ _ rfl)
    · cases h
  | commitClaim i m =>
    simp only [applyEvent, ok] at h
    split at h
    · cases h
      exact invV_of_eq hI (vsys_mk_same s i _ _ _ _ _ _ _ _ _ _ _ _ _ rfl)
    · cases h
  | sendHB i to c =>
    simp only [applyEvent, ok] at h
    split at h
    · cases h; exact hI
    · cases h
  | claim i idx =>
    simp only [applyEvent, ok] at h
    split at h
    · cases h; exact hI
    · cases h
  | sendSnap i idx =>
    simp only [applyEvent, ok] at h
    split at h
    · cases h; exact hI
    · cases h
  | installSnap i t idx sterm =>
    simp only [applyEvent, ok] at h
    split at h
    · rename_i m hm
      split at h
      · cases h
        rw [vsys_mk]; show InvV (setN (vsys s) i _)
        have : vproj { s.nodes i with role := 0, log := m.pre, commit := m.idx, outbox := (s.nodes i).outbox ++ [.ack (s.nodes i).term i m.idx m.pre] }
            = nRole0 ((vsys s).nodes i) := by
          simp [vproj, nRole0, vsys, List.filterMap_append, grantOf]
        rw [this]
        exact invV_role0 hI i
      · cases h
    · cases h
  | commitSnap i t idx sterm =>
    simp only [applyEvent, ok] at h
    split at h
    · split at h
      · cases h
        exact invV_of_eq hI (vsys_mk_same s i _ _ _ _ _ _ _ _ _ _ _ _ _ rfl)
      · cases h
    · cases h
  | bootstrap i donor idx =>
    simp only [applyEvent, ok] at h
    split at h
    · rename_i hg
      cases h
      rw [vsys_mk]; show InvV (setN (vsys s) i _)
      have : vproj { s.nodes i with up := true, term := (s.nodes donor).dterm, dterm := (s.nodes donor).dterm, log := (s.nodes donor).dlog.take idx, dlog := (s.nodes donor).dlog.take idx, commit := idx, dcommit := idx }
          = { (vsys s).nodes i with term := (s.nodes donor).dterm, dterm := (s.nodes donor).dterm } := by
        simp [vproj, vsys]
      rw [this]
      apply invV_boot hI i _ <;> simp [vsys, vproj, hg.1, hg.2.1, hg.2.2.2.2.2.1, hg.2.2.2.2.2.2.2.2.1, hg.2.2.2.2.2.2.2.2.2.1, hg.2.2.2.2.2.2.2.2.2.2.1]
    · cases h


/-- **InvV holds in every reachable state** of P under a fixed configuration -/
theorem invV_reachR (s : PSys) (h : Reach s) : InvV (vsys s) := by
  induction h with
  | init => rw [vsys_init]; exact invV_init
  | step e _ hs ih => exact invV_step _ _ e ih hs

theorem invV_reach (c0 : Cfg) (s : PSys) (h : ReachC c0 s) : InvV (vsys s) :=
  invV_reachR s (reach_of_reachC h)

end RaftModel.P
