import RaftProofs.ClusterCommit5c2C

/-!
Cluster-level commit safety **with `batch_append`** (copy of `ClusterCommit2D.lean` over `Hyp2wB`), part 2D: commit events, and what the queues and the transport hold of
accepting append responses: the sender, a term that is not ahead of the sender (and that the sender
never falls below once the response is in the transport).
-/
namespace RaftModel
namespace ClusterB
open Node Raft Raft.CC Raft.CB Raft.Bt Cluster RaftProps.C02 RaftProps.C05

variable {cfg : JointConfig} {c0 : Nat} {h : List Sys}

/-- **a commit event**: the step `h[nE] → h[nE + 1]` takes the commit index of node `l`, leader of
term `t` after the step, up to `c`; `gE` is its logical log and `pE` its `persisted` after the step -/
def CommitEv (h : List Sys) (nE l t c : Nat) (gE : LLog) (pE : Nat) : Prop :=
  ∃ a b sta stb, h[nE]? = some a ∧ h[nE + 1]? = some b ∧ a.node l = some sta ∧
    b.node l = some stb ∧ stb.raft.state = .leader ∧ stb.raft.term = t ∧
    sta.raft.raftLog.committed < stb.raft.raftLog.committed ∧ c = stb.raft.raftLog.committed ∧
    gE = stb.raft.raftLog.abs ∧ pE = stb.raft.raftLog.persisted

/-- the term of every `MsgAppend` of the transport is a leader's term: not `0` -/
theorem append_term_ne_zero (H : Hyp2wB cfg c0 h) {n : Nat} {s : Sys} (hn : h[n]? = some s)
    {x : Message} (hx : x ∈ s.net) (hty : x.msgType = .msgAppend) : x.term ≠ 0 := by
  obtain ⟨s0, _, hall⟩ := H.inv_at
  obtain ⟨i, m, _, s1, st, h1, h2, h3, h4, _⟩ := (append_prov H n s hn).2 x hx hty
  rw [← h4]
  exact (hall s1 (mem_of_get h1)).tz i st h2 (.inr h3)

/-- the accepting append responses with a positive index in the queue of `v` -/
def AckQ (s : Sys) : Prop :=
  ∀ v st, s.node v = some st → ∀ a ∈ st.raft.msgs, isAck a → a.index ≠ 0 →
    a.frm = v ∧ a.term ≤ st.raft.term ∧ a.term ≠ 0

/-- … and in the transport -/
def AckN (s : Sys) : Prop :=
  ∀ a ∈ s.net, isAck a → a.index ≠ 0 → FloorAt s a.frm a.term ∧ a.term ≠ 0

/-- what a `call` / `deliver` step queues as accepting append response with a positive index: it
carries the node's id and its (non-zero) term after the step -/
theorem fresh_ack (H : Hyp2wB cfg c0 h) {n : Nat} {a b : Sys} {i : Nat} {st st' : NState}
    {rnd : Option Nat} {op : NodeOp} {res : OpRes}
    (ha : h[n]? = some a) (hb : h[n + 1]? = some b) (hi : a.node i = some st)
    (hi' : b.node i = some st') (hnet : b.net = a.net)
    (hop : appOp op = true ∨ ∃ m, op = .step m ∧ m ∈ a.net ∧ m.to = i)
    (hc : ∀ j, op ≠ .compact j) (hcall : Node.call st rnd op = .ok (res, st'))
    {x : Message} (hx : x ∈ st'.raft.msgs) (hack : isAck x) (hidx : x.index ≠ 0) :
    x ∈ st.raft.msgs ∨ (x.frm = i ∧ x.term = st'.raft.term ∧ x.term ≠ 0 ∧
      st'.raft.state = .follower) := by
  obtain ⟨s0, _, hall⟩ := H.inv_at
  have I := hall a (mem_of_get ha)
  obtain ⟨g, _, _, hid⟩ := call_factsB H ha hb hi hi' hnet hop hc hcall
  by_cases hold : x ∈ st.raft.msgs
  · exact .inl hold
  rcases g.qak x hx hack with c | c
  · exact .inl c
  · right
    rcases c.src with d | ⟨d1, d2, _, _⟩
    · exact absurd d hidx
    · -- the input is a `MsgAppend` of the transport
      rcases hop with g1 | ⟨m, g1, g2, g3⟩
      · cases op <;> first | (cases g1; done) | (cases d2; done)
      · subst g1
        have hty : m.msgType = .msgAppend := d2
        have hmt := append_term_ne_zero H ha g2 hty
        refine ⟨c.frm.trans (g.id.trans hid), c.term, ?_, d1⟩
        have hok := I.msgOk g2 hty
        have hag := I.agree .net (msgLog m) (.log i) _ ⟨m, g2, hty, rfl⟩ ⟨st, hi, rfl⟩
        cases append_call (I.inv i st hi) hty hok hag hcall with
        | noacc _ _ hq =>
          rcases hq x hx with e | e | e | ⟨_, _, e⟩
          · exact absurd e hold
          · exact absurd e hidx
          · rw [hack.2] at e; cases e
          · rcases e with e | e
            · rw [c.term, ← e]; exact hmt
            · exact absurd e hmt
        | acc _ _ _ _ ht _ =>
          rcases ht with e | e
          · rw [c.term, ← e]; exact hmt
          · exact absurd e hmt

theorem ack_inv (H : Hyp2wB cfg c0 h) : ∀ (n : Nat) (s : Sys), h[n]? = some s → AckQ s ∧ AckN s := by
  refine hist_induct h _ ?_ ?_
  · intro s h0
    have hinit := hist_init H.hist s h0
    refine ⟨fun v st hv a ha => ?_, fun a ha => ?_⟩
    · rw [init_queue hinit v st hv] at ha; cases ha
    · rw [hinit.1] at ha; cases ha
  · intro n a b ha hb ⟨ihq, ihn⟩
    have hstep := H.steps n a b ha hb
    have hnet : ∀ x ∈ a.net, isAck x → x.index ≠ 0 → FloorAt b x.frm x.term ∧ x.term ≠ 0 :=
      fun x hx h1 h2 => ⟨(ihn x hx h1 h2).1.step hstep.step, (ihn x hx h1 h2).2⟩
    -- a `call` / `deliver` step at node `k`
    have callCase : ∀ (k : Nat) (st st' : NState) (rnd : Option Nat) (op : NodeOp) (res : OpRes),
        a.node k = some st → (appOp op = true ∨ ∃ m, op = .step m ∧ m ∈ a.net ∧ m.to = k) →
        (∀ j, op ≠ .compact j) → Node.call st rnd op = .ok (res, st') → b = a.setNode k st' →
        AckQ b ∧ AckN b := by
      intro k st st' rnd op res h1 hop hnc h4 hbe
      subst hbe
      refine ⟨fun v stv hv x hx hack hidx => ?_, fun x hx => hnet x hx⟩
      by_cases hvk : v = k
      · subst hvk
        rw [node_setNode_self] at hv; cases hv
        obtain ⟨_, hL, _, _⟩ := call_factsB H ha hb h1 (node_setNode_self _ _ _) rfl hop hnc h4
        rcases fresh_ack H ha hb h1 (node_setNode_self _ _ _) rfl hop hnc h4 hx hack hidx with c | ⟨c1, c2, c3, _⟩
        · obtain ⟨d1, d2, d3⟩ := ihq v st h1 x c hack hidx
          exact ⟨d1, Nat.le_trans d2 hL.rt.le, d3⟩
        · exact ⟨c1, Nat.le_of_eq c2, c3⟩
      · rw [node_setNode_ne a k v st' hvk] at hv
        exact ihq v stv hv x hx hack hidx
    cases hstep with
    | call k st st' rnd op res h1 h2 h3 _ h4 =>
      exact callCase k st st' rnd op res h1 (.inl h2) h3 h4 rfl
    | deliver k st st' rnd m res h1 h2 h3 h4 =>
      exact callCase k st st' rnd (.step m) res h1 (.inr ⟨m, rfl, h2, h3⟩)
        (fun j hc => by cases hc) h4 rfl
    | send k st st' h1 h2 _ h3 =>
      have hq : st'.raft.msgs = [] := by
        unfold Node.call at h3
        simp only [applyOp] at h3
        cases h3; rfl
      refine ⟨fun v stv hv x hx hack hidx => ?_, fun x hx hack hidx => ?_⟩
      · have hv' : (a.setNode k st').node v = some stv := hv
        by_cases hvk : v = k
        · subst hvk
          rw [node_setNode_self] at hv'; cases hv'
          rw [hq] at hx; cases hx
        · rw [node_setNode_ne a k v st' hvk] at hv'
          exact ihq v stv hv' x hx hack hidx
      · rcases List.mem_append.1 hx with g | g
        · exact hnet x g hack hidx
        · obtain ⟨d1, d2, d3⟩ := ihq k st h1 x g hack hidx
          refine ⟨?_, d3⟩
          have hfa : FloorAt a x.frm x.term := by
            intro st2 hk2
            rw [d1, h1] at hk2; cases hk2
            exact ⟨d2, by rw [h2.1]; exact d2⟩
          exact hfa.step (KStep.send a k st st' h1 h2 (by assumption) h3).step
    | restart k st st' c rnd h1 h2 h3 =>
      refine ⟨fun v stv hv x hx hack hidx => ?_, fun x hx => hnet x hx⟩
      by_cases hvk : v = k
      · subst hvk
        rw [node_setNode_self] at hv; cases hv
        rw [(CV.boot_booted c _ rnd st' h3).msgs] at hx; cases hx
      · rw [node_setNode_ne a k v st' hvk] at hv
        exact ihq v stv hv x hx hack hidx

end ClusterB
end RaftModel
