import RaftProofs.ClusterCommit3G

/-!
Cluster-level commit safety, part 3H: **a concrete history** (kernel-evaluated) that satisfies every
hypothesis of the commit layer (`Hyp3`) and in which a leader commits an entry using the
acknowledgement of a follower.

The history of `C05_cluster_nonvacuous` (three nodes booted from empty storages with voters 1, 2, 3;
node 1 is elected leader of term 1 by the vote of node 2, persists its log and sends the `MsgAppend`
with its empty entry; node 2 appends it) continued by four steps: node 1 is told that its entry is
persisted (`on_persist_entries(1, 1)`), node 2 persists its log and hard state (`stabilize`), node 2
hands its queue — the accepting `MsgAppendResponse` — to the transport, and node 1 is delivered the
response and moves its commit index from 0 to 1.
-/
namespace RaftModel
namespace Cluster
open Node Raft Raft.CC RaftProps.C02 RaftProps.C05

def c01x_a7 := c02x_st (Node.call c05x_a6 none (.onPersistEntries 1 1))
def c01x_b5 := c02x_st (Node.call c05x_b4 none .stabilize)
def c01x_b6 := c02x_st (Node.call c01x_b5 none .drain)
/-- the accepting `MsgAppendResponse` of node 2 -/
def c01x_ack := c01x_b5.raft.msgs.head!
def c01x_a8 := c02x_st (Node.call c01x_a7 none (.step c01x_ack))

def c01x_s11 : Sys := c05x_s10.setNode 1 c01x_a7
def c01x_s12 : Sys := c01x_s11.setNode 2 c01x_b5
def c01x_s13 : Sys :=
  { (c01x_s12.setNode 2 c01x_b6) with net := c01x_s12.net ++ c01x_b5.raft.msgs }
def c01x_s14 : Sys := c01x_s13.setNode 1 c01x_a8

def c01x_hist : List Sys := c05x_hist ++ [c01x_s11, c01x_s12, c01x_s13, c01x_s14]

set_option maxRecDepth 100000 in
theorem c01x_ksteps : Chained KStep c01x_hist := by
  refine ⟨?_, ?_, ?_, ?_, ?_, ?_, ?_, ?_, ?_, ?_, ?_, ?_, ?_, ?_, trivial⟩
  · exact KStep.call _ 1 (c02x_boot 1) c02x_a1 none .campaign _ rfl rfl
      (fun k hc => by cases hc) (fun k hc => by cases hc) (c02x_out _ (by decide))
  · exact KStep.call _ 1 c02x_a1 c02x_a2 none .stabilize _ rfl rfl
      (fun k hc => by cases hc) (fun k hc => by cases hc) (c02x_out _ (by decide))
  · exact KStep.send _ 1 c02x_a2 c02x_a3 rfl ⟨by decide, by decide⟩
      (fun _ => ⟨by decide, rfl⟩) rfl
  · exact KStep.deliver _ 2 (c02x_boot 2) c02x_b1 none c02x_req _ rfl
      (c02x_head_mem _ (by decide)) (by decide) (c02x_out _ (by decide))
  · exact KStep.call _ 2 c02x_b1 c02x_b2 none .stabilize _ rfl rfl
      (fun k hc => by cases hc) (fun k hc => by cases hc) (c02x_out _ (by decide))
  · exact KStep.send _ 2 c02x_b2 c02x_b3 rfl ⟨by decide, by decide⟩
      (fun _ => ⟨by decide, rfl⟩) rfl
  · exact KStep.deliver _ 1 c02x_a3 c02x_a4 none c02x_resp _ rfl
      (List.mem_append_right _ (c02x_head_mem _ (by decide))) (by decide) (c02x_out _ (by decide))
  · exact KStep.call _ 1 c02x_a4 c05x_a5 none .stabilize _ rfl rfl
      (fun k hc => by cases hc) (fun k hc => by cases hc) (c02x_out _ (by decide))
  · exact KStep.send _ 1 c05x_a5 c05x_a6 rfl ⟨by decide, by decide⟩
      (fun _ => ⟨by decide, rfl⟩) rfl
  · exact KStep.deliver _ 2 c02x_b3 c05x_b4 none c05x_app _ rfl
      (List.mem_append_right _ (c02x_head_mem _ (by decide))) (by decide) (c02x_out _ (by decide))
  · exact KStep.call _ 1 c05x_a6 c01x_a7 none (.onPersistEntries 1 1) _ rfl rfl
      (fun k hc => by cases hc) (fun k hc => by cases hc) (c02x_out _ (by decide))
  · exact KStep.call _ 2 c05x_b4 c01x_b5 none .stabilize _ rfl rfl
      (fun k hc => by cases hc) (fun k hc => by cases hc) (c02x_out _ (by decide))
  · exact KStep.send _ 2 c01x_b5 c01x_b6 rfl ⟨by decide, by decide⟩
      (fun _ => ⟨by decide, rfl⟩) rfl
  · exact KStep.deliver _ 1 c01x_a7 c01x_a8 none c01x_ack _ rfl
      (List.mem_append_right _ (c02x_head_mem _ (by decide))) (by decide) (c02x_out _ (by decide))

theorem c01x_history : History c01x_hist := by
  have := chained_history [] c02x_s0 (History.init _ c02x_init) _
    (Chained.mono (fun _ _ hc => hc.step) _ c01x_ksteps)
  simpa [c01x_hist, c05x_hist, c02x_hist] using this

/-- what the commit layer assumes about one message of the transport (`c0 = 0`) -/
def c01x_msgOk (x : Message) : Prop :=
  x.msgType ≠ .msgSnapshot ∧ x.msgType ≠ .msgReadIndexResp ∧
  (x.msgType = .msgAppend → x.logTerm ≠ 0 ∨ x.index ≤ 0)

instance (x : Message) : Decidable (c01x_msgOk x) := by unfold c01x_msgOk; infer_instance

/-- … and about one node -/
def c01x_nodeOk (st : NState) : Bool :=
  st.raft.raftLog.unstable.snapshot.isNone && decide (st.raft.raftLog.store.firstIndex = 1) &&
  (decide (st.raft.raftLog.abs.snapTerm = some 0) || decide (st.raft.raftLog.abs.snapTerm = none))

def c01x_chk (s : Sys) : Bool :=
  c02x_fixed s && c05x_nobatch s && s.net.all (fun x => decide (c01x_msgOk x)) &&
  s.nodes.all (fun p => c01x_nodeOk p.2)

theorem c01x_chk_ok (s : Sys) (h : c01x_chk s = true) :
    FixedCfg c02x_cfg s ∧ NoBatch s ∧ (∀ x ∈ s.net, c01x_msgOk x) ∧
    ∀ i st, s.node i = some st → c01x_nodeOk st = true := by
  unfold c01x_chk at h
  simp only [Bool.and_eq_true] at h
  obtain ⟨⟨⟨h1, h2⟩, h3⟩, h4⟩ := h
  refine ⟨c02x_fixed_ok s h1, c05x_nobatch_ok s h2, fun x hx => ?_, fun i st hi => ?_⟩
  · rw [List.all_eq_true] at h3
    exact of_decide_eq_true (h3 x hx)
  · rw [List.all_eq_true] at h4
    exact h4 _ (c02_lookup_mem s.nodes i st hi)

set_option maxRecDepth 100000 in
theorem c01x_chk_all : ∀ s ∈ c01x_hist, c01x_chk s = true := by
  intro s hs
  simp only [c01x_hist, c05x_hist, c02x_hist, List.cons_append, List.nil_append, List.mem_cons,
    List.not_mem_nil, or_false] at hs
  rcases hs with rfl | rfl | rfl | rfl | rfl | rfl | rfl | rfl | rfl | rfl | rfl | rfl | rfl |
    rfl | rfl <;> decide

theorem c01x_nolone : ∀ i Q, IsJointQuorum c02x_cfg Q → ∃ k ∈ Q, k ≠ i := by
  intro i Q hQ
  have hq := hQ.1 (by decide)
  unfold IsQuorum at hq
  have hq' : 2 ≤ [1, 2, 3].countP (fun v => decide (v ∈ Q)) := hq
  simp only [List.countP_cons, List.countP_nil] at hq'
  by_cases h1 : 1 ∈ Q <;> by_cases h2 : 2 ∈ Q <;> by_cases h3 : 3 ∈ Q <;>
    simp [h1, h2, h3] at hq'
  all_goals
    first
    | (by_cases hi : i = 1
       · exact ⟨2, ‹2 ∈ Q›, by omega⟩
       · exact ⟨1, ‹1 ∈ Q›, fun hc => hi hc.symm⟩)
    | (by_cases hi : i = 1
       · exact ⟨3, ‹3 ∈ Q›, by omega⟩
       · exact ⟨1, ‹1 ∈ Q›, fun hc => hi hc.symm⟩)
    | (by_cases hi : i = 2
       · exact ⟨3, ‹3 ∈ Q›, by omega⟩
       · exact ⟨2, ‹2 ∈ Q›, fun hc => hi hc.symm⟩)

set_option maxRecDepth 100000 in
/-- **the history satisfies every hypothesis of the commit layer** -/
theorem c01x_hyp3 : Hyp3 c02x_cfg 0 c01x_hist := by
  have h0 : c01x_hist[0]? = some c02x_s0 := rfl
  have hall := fun s hs => c01x_chk_ok s (c01x_chk_all s hs)
  have hnode : ∀ s ∈ c01x_hist, ∀ i st, s.node i = some st →
      st.raft.raftLog.unstable.snapshot = none ∧ st.raft.raftLog.store.firstIndex = 1 ∧
      (st.raft.raftLog.abs.snapTerm = some 0 ∨ st.raft.raftLog.abs.snapTerm = none) := by
    intro s hs i st hi
    have := (hall s hs).2.2.2 i st hi
    unfold c01x_nodeOk at this
    simp only [Bool.and_eq_true, Bool.or_eq_true, decide_eq_true_eq, Option.isNone_iff_eq_none] at this
    exact ⟨this.1.1, this.1.2, this.2⟩
  refine ⟨⟨⟨⟨c01x_history, fun s hs => (hall s hs).1, by decide, by decide, by decide, ?_,
    chained_at _ c01x_ksteps, fun s hs => (hall s hs).2.1, fun s hs x hx => ((hall s hs).2.2.1 x hx).1⟩,
    c01x_nolone, fun s hs i st hi => ⟨(hnode s hs i st hi).1, (hnode s hs i st hi).2.1⟩, ?_⟩,
    fun s hs x hx => ((hall s hs).2.2.1 x hx).2.1⟩,
    fun s hs x hx => ((hall s hs).2.2.1 x hx).2.2, ?_⟩
  · intro s hs
    rw [h0] at hs; cases hs
    exact c05x_initOk
  · intro s hs i st hi
    rw [h0] at hs; cases hs
    have hm := c02_lookup_mem _ i st hi
    simp only [c02x_s0, List.mem_cons, Prod.mk.injEq, List.not_mem_nil, or_false] at hm
    rcases hm with ⟨rfl, rfl⟩ | ⟨rfl, rfl⟩ | ⟨rfl, rfl⟩ <;> decide
  · intro s hs i st hi t0 ht0 j st0 _
    rcases (hnode s (mem_of_get hs) i st hi).2.2 with c | c
    · rw [c] at ht0; cases ht0; exact Nat.zero_le _
    · rw [c] at ht0; cases ht0

end Cluster
end RaftModel
