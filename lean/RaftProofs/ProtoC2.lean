import RaftProofs.ProtoCDefs

/-!
Commit layer of P, clause group `InvC2`: the voter's log recorded with a grant (generated: `rgo`,
released: `rgr`) retains what the voter had acknowledged before, provided the leaders in between
held it.

`rgr` is *not* inductive relative to the invariants `InvV/InvR/InvL/InvA/InvB/InvC` alone: nothing in
them links the ghost records `rgv` to the released grants `grants` (they are added together by
`addReleased`, but no clause says so).  The link is needed to bound the term of a record of voter `v`
by the current term of `v` when `v` generates a new acknowledgement.  `InvG` below is that link; it is
inductive on its own (`invG_step` has no other hypothesis) and holds in every reachable state.
-/
namespace RaftModel.P

/-! ### the missing link: every ghost grant record belongs to a released grant -/

def InvG (s : PSys) : Prop := ∀ p ∈ s.rgv, p.1 ∈ s.grants

theorem invG_init : InvG init := by
  intro p hp; simp [init] at hp

theorem invG_addReleased (s : PSys) (m : OMsg) (hG : InvG s) : InvG (addReleased s m) := by
  cases m with
  | voteReq t c lt li => exact hG
  | ack t f idx pre => exact hG
  | grant t v c gh =>
    intro p hp
    simp only [addReleased, List.mem_cons] at hp ⊢
    rcases hp with hp | hp
    · left; rw [hp]
    · right; exact hG p hp

theorem invG_step (s s' : PSys) (e : Event) (h : applyEvent s e = .ok s') (hG : InvG s) : InvG s' := by
  cases e with
  | read r =>
    simp only [applyEvent, ok] at h
    split at h
    · cases h; exact hG
    · cases h
  | release i key =>
    simp only [applyEvent, ok] at h
    split at h
    · split at h
      · split at h
        · cases h; exact invG_addReleased _ _ hG
        · cases h
      · cases h
    · split at h
      · split at h
        · split at h
          · cases h; exact invG_addReleased _ _ hG
          · cases h
        · cases h
      · cases h
  | grant i c | persist i k | installSnap i t idx sterm | commitSnap i t idx sterm =>
    simp only [applyEvent, ok] at h
    split at h
    · split at h
      · cases h; exact hG
      · cases h
    · cases h
  | bump i t | campaign i | rdy i | crash i | restart i | stepDown i | sendApp i m | recvApp i m
  | ackCommitted i | ackSelf i idx | commitLeader i c cfg q | commitApp i c m | commitHB i c m
  | commitClaim i m | sendHB i to c | claim i idx | sendSnap i idx | bootstrap i donor idx
  | win i cfg q | leaderAppend i e =>
    simp only [applyEvent, ok] at h
    split at h
    · cases h; exact hG
    · cases h

theorem invG_reachC (c0 : Cfg) (s : PSys) (h : ReachC c0 s) : InvG s := by
  induction h with
  | init => exact invG_init
  | step e _ _ hs ih => exact invG_step _ _ e hs ih

theorem invG_reach' (s : PSys) (h : Reach s) : InvG s := by
  induction h with
  | init => exact invG_init
  | step e _ hs ih => exact invG_step _ _ e hs ih

/-! ### helpers -/

/-- a generated grant of node `i` is of a term not beyond the node's -/
theorem grant_term_le {s : PSys} (hV : InvV (vsys s)) {i t v cd : Nat} {gh : VGhost}
    (h : OMsg.grant t v cd gh ∈ (s.nodes i).outbox) : t ≤ (s.nodes i).term := by
  have hm : (⟨t, v, cd⟩ : Grant) ∈ ((vsys s).nodes i).og := by
    simp only [vsys, vproj]
    exact List.mem_filterMap.2 ⟨_, h, rfl⟩
  exact (hV.gu i ⟨t, v, cd⟩ (Or.inl hm)).2.1

/-- a released grant record of voter `v` is of a term not beyond `v`'s -/
theorem rgrant_term_le {s : PSys} (hV : InvV (vsys s)) (hG : InvG s) {p : Grant × VGhost}
    (hp : p ∈ s.rgv) : p.1.term ≤ (s.nodes p.1.voter).term :=
  (hV.gu p.1.voter p.1 (Or.inr ⟨hG p hp, rfl⟩)).2.1

theorem not_elected_of_early {s : PSys} {t : Nat}
    (h : (!(s.elected.any (fun p => p.1 = t))) = true) : ¬ Elected s t := by
  rintro ⟨j, hj⟩
  have : s.elected.any (fun p => p.1 = t) = true :=
    List.any_eq_true.2 ⟨(t, j), hj, by simp⟩
  rw [this] at h
  cases h

/-- while a node is up, every acknowledgement it knows is in its outbox -/
theorem nodeAcks_outbox {s : PSys} (hA : InvA s) {i : Nat} (hup : (s.nodes i).up = true) {t0 f idx : Nat}
    {pre : List LEntry} (h : nodeAcks (s.nodes i) (.ack t0 f idx pre)) :
    OMsg.ack t0 f idx pre ∈ (s.nodes i).outbox := by
  rcases h with h | ⟨im, him, hm⟩ | h
  · exact h
  · exact hA.o2 i im him _ hm
  · exact hA.o1 i hup _ h rfl

/-- transport along a step: for an acknowledgement known in the pre-state, the condition on the
leaders in between and the acknowledged prefix of the ghost log are those of the pre-state -/
theorem grow_back {s s' : PSys} (hL : InvL s) (hC1 : InvC1 s) (g : Grow s s') {j t0 f idx : Nat}
    {pre : List LEntry} {c T : Nat} (ha : nodeAcks (s.nodes j) (.ack t0 f idx pre)) (hc : c ≤ idx)
    (h : NClt s' t0 c T) : NClt s t0 c T ∧ (s'.llog t0).take c = (s.llog t0).take c := by
  obtain ⟨hlen, _, hel⟩ := hC1.atr j t0 f idx pre ha
  have hcl : c ≤ (s.llog t0).length := by omega
  exact ⟨g.nclt hel hcl (fun e he => (hL.lterm t0 e he).2) h, g.take_eq hel hcl⟩

/-! ### frame lemmas -/

/-- node `i` is replaced by `n`, grant records are kept or added for voter `i`; all obligations are
stated over the ghost history of the pre-state -/
theorem invC2_node {s s' : PSys} (hL : InvL s) (hC1 : InvC1 s) (h2 : InvC2 s) (g : Grow s s')
    (i : Nat) (n : PNode) (hn : s'.nodes = upd s.nodes i n)
    (hgo : ∀ t v cd gh, OMsg.grant t v cd gh ∈ n.outbox → gh.early = true →
      ∀ t0 f idx pre, OMsg.ack t0 f idx pre ∈ n.outbox → t0 < t →
        nodeAcks (s.nodes i) (.ack t0 f idx pre) ∧
        ∀ c, c ≤ idx → NClt s t0 c t → gh.vlog.take c = (s.llog t0).take c)
    (hka : ∀ p ∈ s.rgv, p.1.voter = i → ∀ t0 f idx pre, nodeAcks n (.ack t0 f idx pre) →
      t0 < p.1.term → nodeAcks (s.nodes i) (.ack t0 f idx pre))
    (hr : ∀ p ∈ s'.rgv, p ∈ s.rgv ∨ (p.1.voter = i ∧ (p.2.early = true →
      ∀ t0 f idx pre, nodeAcks n (.ack t0 f idx pre) → t0 < p.1.term →
        nodeAcks (s.nodes i) (.ack t0 f idx pre) ∧
        ∀ c, c ≤ idx → NClt s t0 c p.1.term → p.2.vlog.take c = (s.llog t0).take c))) :
    InvC2 s' := by
  have hnode : ∀ j, j ≠ i → s'.nodes j = s.nodes j := by intro j hj; rw [hn]; simp [upd, hj]
  have hnodei : s'.nodes i = n := by rw [hn]; simp [upd]
  constructor
  · intro j t v cd gh hg he t0 f idx pre ha hlt c hc hN
    by_cases hj : j = i
    · rw [hj, hnodei] at hg ha
      obtain ⟨hk, hh⟩ := hgo t v cd gh hg he t0 f idx pre ha hlt
      obtain ⟨h1, h3⟩ := grow_back hL hC1 g hk hc hN
      rw [h3]; exact hh c hc h1
    · rw [hnode j hj] at hg ha
      have hk : nodeAcks (s.nodes j) (.ack t0 f idx pre) := Or.inl ha
      obtain ⟨h1, h3⟩ := grow_back hL hC1 g hk hc hN
      rw [h3]; exact h2.rgo j t v cd gh hg he t0 f idx pre ha hlt c hc h1
  · intro p hp he t0 f idx pre ha hlt c hc hN
    rcases hr p hp with hp' | ⟨hv, hh⟩
    · have hk : nodeAcks (s.nodes p.1.voter) (.ack t0 f idx pre) := by
        by_cases hj : p.1.voter = i
        · rw [hj, hnodei] at ha; rw [hj]; exact hka p hp' hj t0 f idx pre ha hlt
        · rw [hnode _ hj] at ha; exact ha
      obtain ⟨h1, h3⟩ := grow_back hL hC1 g hk hc hN
      rw [h3]; exact h2.rgr p hp' he t0 f idx pre hk hlt c hc h1
    · rw [hv, hnodei] at ha
      obtain ⟨hk, hh'⟩ := hh he t0 f idx pre ha hlt
      obtain ⟨h1, h3⟩ := grow_back hL hC1 g hk hc hN
      rw [h3]; exact hh' c hc h1

/-- the node loses messages / known acknowledgements, or keeps them -/
theorem invC2_shrink {s s' : PSys} (hL : InvL s) (hC1 : InvC1 s) (h2 : InvC2 s) (g : Grow s s')
    (i : Nat) (n : PNode) (hn : s'.nodes = upd s.nodes i n) (hr : s'.rgv = s.rgv)
    (hoo : (∀ t v cd gh, OMsg.grant t v cd gh ∉ n.outbox) ∨ (∀ m ∈ n.outbox, m ∈ (s.nodes i).outbox))
    (hka : ∀ t0 f idx pre, nodeAcks n (.ack t0 f idx pre) → nodeAcks (s.nodes i) (.ack t0 f idx pre)) :
    InvC2 s' := by
  refine invC2_node hL hC1 h2 g i n hn ?_ ?_ ?_
  · intro t v cd gh hg he t0 f idx pre ha hlt
    rcases hoo with hoo | hoo
    · exact absurd hg (hoo t v cd gh)
    · exact ⟨Or.inl (hoo _ ha), h2.rgo i t v cd gh (hoo _ hg) he t0 f idx pre (hoo _ ha) hlt⟩
  · intro p _ _ t0 f idx pre ha _; exact hka t0 f idx pre ha
  · intro p hp; rw [hr] at hp; exact Or.inl hp

/-- outbox, pending images and durable acknowledgements of the node are unchanged -/
theorem invC2_same {s s' : PSys} (hL : InvL s) (hC1 : InvC1 s) (h2 : InvC2 s) (g : Grow s s')
    (i : Nat) (n : PNode) (hn : s'.nodes = upd s.nodes i n) (hr : s'.rgv = s.rgv)
    (ho : n.outbox = (s.nodes i).outbox) (hp : n.pending = (s.nodes i).pending)
    (hd : n.dacks = (s.nodes i).dacks) : InvC2 s' := by
  refine invC2_shrink hL hC1 h2 g i n hn hr (Or.inr ?_) ?_
  · intro m hm; rw [ho] at hm; exact hm
  · intro t0 f idx pre ha
    unfold nodeAcks at ha ⊢
    rw [ho, hp, hd] at ha; exact ha

/-- no node changes at all -/
theorem invC2_nodes_eq {s s' : PSys} (hL : InvL s) (hC1 : InvC1 s) (h2 : InvC2 s) (g : Grow s s')
    (hn : s'.nodes = s.nodes) (hr : s'.rgv = s.rgv) : InvC2 s' :=
  invC2_same hL hC1 h2 g 0 (s.nodes 0) (by rw [hn, upd_self]) hr rfl rfl rfl

/-- the node generates an acknowledgement (of its current term) -/
theorem invC2_genack {s s' : PSys} (hV : InvV (vsys s)) (hG : InvG s)
    (hL : InvL s) (hC1 : InvC1 s) (h2 : InvC2 s) (g : Grow s s')
    (i : Nat) (n : PNode) (hn : s'.nodes = upd s.nodes i n) (hr : s'.rgv = s.rgv)
    (x : Nat) (pre' : List LEntry)
    (ho : n.outbox = (s.nodes i).outbox ++ [.ack (s.nodes i).term i x pre'])
    (hp : n.pending = (s.nodes i).pending) (hd : n.dacks = (s.nodes i).dacks) : InvC2 s' := by
  refine invC2_node hL hC1 h2 g i n hn ?_ ?_ ?_
  · intro t v cd gh hg he t0 f idx pre ha hlt
    rw [ho] at hg ha
    simp only [List.mem_append, List.mem_singleton] at hg ha
    rcases hg with hg | hg
    · have hle := grant_term_le hV hg
      rcases ha with ha | ha
      · exact ⟨Or.inl ha, h2.rgo i t v cd gh hg he t0 f idx pre ha hlt⟩
      · injection ha with e1 _ _ _
        omega
    · cases hg
  · intro p hp' hv t0 f idx pre ha hlt
    have hle := rgrant_term_le hV hG hp'
    rw [hv] at hle
    rcases ha with ha | ha | ha
    · rw [ho] at ha
      simp only [List.mem_append, List.mem_singleton] at ha
      rcases ha with ha | ha
      · exact Or.inl ha
      · injection ha with e1 _ _ _
        omega
    · rw [hp] at ha; exact Or.inr (Or.inl ha)
    · rw [hd] at ha; exact Or.inr (Or.inr ha)
  · intro p hp'; rw [hr] at hp'; exact Or.inl hp'

/-- the node generates non-acknowledgements; a generated grant records the node's log and whether
its term had no leader yet -/
theorem invC2_gengrant {s s' : PSys} (hL : InvL s) (hC1 : InvC1 s) (h2 : InvC2 s) (g : Grow s s')
    (i : Nat) (n : PNode) (hn : s'.nodes = upd s.nodes i n) (hr : s'.rgv = s.rgv)
    (extra : List OMsg) (ho : n.outbox = (s.nodes i).outbox ++ extra)
    (hp : n.pending = (s.nodes i).pending) (hd : n.dacks = (s.nodes i).dacks)
    (hex : ∀ m ∈ extra, (∀ t f idx pre, m ≠ .ack t f idx pre) ∧
      ∀ t v cd gh, m = .grant t v cd gh → gh.early = true →
        t = (s.nodes i).term ∧ gh.vlog = (s.nodes i).log ∧ ¬ Elected s t) : InvC2 s' := by
  have hack : ∀ t0 f idx pre, OMsg.ack t0 f idx pre ∈ n.outbox → OMsg.ack t0 f idx pre ∈ (s.nodes i).outbox := by
    intro t0 f idx pre ha
    rw [ho] at ha
    rcases List.mem_append.1 ha with ha | ha
    · exact ha
    · exact absurd rfl ((hex _ ha).1 t0 f idx pre)
  refine invC2_node hL hC1 h2 g i n hn ?_ ?_ ?_
  · intro t v cd gh hg he t0 f idx pre ha hlt
    have ha' := hack t0 f idx pre ha
    rw [ho] at hg
    rcases List.mem_append.1 hg with hg | hg
    · exact ⟨Or.inl ha', h2.rgo i t v cd gh hg he t0 f idx pre ha' hlt⟩
    · obtain ⟨ht, hvl, hne⟩ := (hex _ hg).2 t v cd gh rfl he
      refine ⟨Or.inl ha', ?_⟩
      intro c hc hN
      rw [hvl]
      refine hC1.ret i t0 f idx pre ha' c hc ?_
      rw [← ht]
      exact NCle_of_lt hN hne
  · intro p _ _ t0 f idx pre ha _
    rcases ha with ha | ha | ha
    · exact Or.inl (hack t0 f idx pre ha)
    · rw [hp] at ha; exact Or.inr (Or.inl ha)
    · rw [hd] at ha; exact Or.inr (Or.inr ha)
  · intro p hp'; rw [hr] at hp'; exact Or.inl hp'

/-! ### the release event -/

theorem invC2_release (s s' : PSys) (i : Nat) (key : OMsg)
    (h : applyEvent s (.release i key) = .ok s')
    (hR : InvR s) (hL : InvL s) (hA : InvA s) (hC1 : InvC1 s) (h2 : InvC2 s) (g : Grow s s') :
    InvC2 s' := by
  simp only [applyEvent, ok] at h
  split at h
  · split at h
    · split at h
      · cases h
        exact invC2_nodes_eq hL hC1 h2 g (addReleased_llog _ _).2.2.1 (by
          rename_i m _ hg
          cases m with
          | ack t f idx pre => rfl
          | voteReq t c lt li => simp [OMsg.isAck] at hg
          | grant t vv c gh => simp [OMsg.isAck] at hg)
      · cases h
    · cases h
  · split at h
    · rename_i k hk
      split at h
      · rename_i m hm
        split at h
        · rename_i hg
          have hmem : m ∈ (s.nodes i).outbox := List.mem_of_getElem? hm
          have hsub : ∀ x, x ∈ (s.nodes i).outbox.eraseIdx k → x ∈ (s.nodes i).outbox :=
            fun x hx => List.mem_of_mem_eraseIdx hx
          have hka : ∀ t0 f idx pre,
              nodeAcks { s.nodes i with outbox := (s.nodes i).outbox.eraseIdx k } (.ack t0 f idx pre) →
              nodeAcks (s.nodes i) (.ack t0 f idx pre) := by
            intro t0 f idx pre ha
            rcases ha with ha | ha | ha
            · exact Or.inl (hsub _ ha)
            · exact Or.inr (Or.inl ha)
            · exact Or.inr (Or.inr ha)
          cases m with
          | voteReq t c lt li =>
            simp only [addReleased] at h
            cases h
            exact invC2_shrink hL hC1 h2 g i _ rfl rfl (Or.inr hsub) hka
          | ack t f idx pre => simp [OMsg.isAck] at hg
          | grant t vv c gh =>
            simp only [addReleased] at h
            cases h
            have hown : vv = i := by
              have := (hR.own i _ hmem).1; simpa [OMsg.owner] using this
            refine invC2_node hL hC1 h2 g i _ rfl ?_ ?_ ?_
            · intro t' v cd gh' hg' he t0 f idx pre ha hlt
              exact ⟨Or.inl (hsub _ ha), h2.rgo i t' v cd gh' (hsub _ hg') he t0 f idx pre (hsub _ ha) hlt⟩
            · intro p _ _ t0 f idx pre ha _; exact hka t0 f idx pre ha
            · intro p hp
              simp only [List.mem_cons] at hp
              rcases hp with hp | hp
              · right
                subst hp
                refine ⟨hown, ?_⟩
                intro he t0 f idx pre ha hlt
                have hk := hka t0 f idx pre ha
                have ho := nodeAcks_outbox hA hg.1 hk
                exact ⟨hk, h2.rgo i t vv c gh hmem he t0 f idx pre ho hlt⟩
              · exact Or.inl hp
        · cases h
      · cases h
    · cases h

/-! ### the step theorem -/

theorem invC2_init : InvC2 init := by
  constructor
  · intro i t v cd gh hg; simp [init] at hg
  · intro p hp; simp [init] at hp

set_option maxHeartbeats 800000 in
/-- `InvC2` is preserved by every event.  Besides the invariants of the brief it needs `InvG s`
(ghost grant records belong to released grants), see the head of this file. -/
theorem invC2_step (c0 : Cfg) (s s' : PSys) (e : Event)
    (h : applyEvent s e = .ok s')
    (hV : InvV (vsys s)) (hV' : InvV (vsys s')) (hR : InvR s) (hR' : InvR s')
    (hL : InvL s) (hL' : InvL s') (hA : InvA s) (hA' : InvA s')
    (hB : InvB s) (hB' : InvB s') (hC : InvC s) (g : Grow s s') (hG : InvG s) : InvC2 s' := by
  cases e with
  | read r =>
    simp only [applyEvent, ok] at h
    split at h
    · cases h; exact ⟨hC.c2.rgo, hC.c2.rgr⟩
    · cases h
  | release i key => exact invC2_release s s' i key h hR hL hA hC.c1 hC.c2 g
  | bump i t | win i cfg q | stepDown i | leaderAppend i e | commitLeader i c cfg q | commitApp i c m
  | commitHB i c m | commitClaim i m | bootstrap i donor idx =>
    simp only [applyEvent, ok] at h
    split at h
    · cases h; exact invC2_same hL hC.c1 hC.c2 g i _ rfl rfl rfl rfl rfl
    · cases h
  | commitSnap i t idx sterm =>
    simp only [applyEvent, ok] at h
    split at h
    · split at h
      · cases h; exact invC2_same hL hC.c1 hC.c2 g i _ rfl rfl rfl rfl rfl
      · cases h
    · cases h
  | sendApp i m | sendHB i to c | claim i idx | sendSnap i idx =>
    simp only [applyEvent, ok] at h
    split at h
    · cases h; exact invC2_nodes_eq hL hC.c1 hC.c2 g rfl rfl
    · cases h
  | recvApp i m | ackCommitted i | ackSelf i idx =>
    simp only [applyEvent, ok] at h
    split at h
    · cases h; exact invC2_genack hV hG hL hC.c1 hC.c2 g i _ rfl rfl _ _ rfl rfl rfl
    · cases h
  | installSnap i t idx sterm =>
    simp only [applyEvent, ok] at h
    split at h
    · split at h
      · cases h; exact invC2_genack hV hG hL hC.c1 hC.c2 g i _ rfl rfl _ _ rfl rfl rfl
      · cases h
    · cases h
  | campaign i =>
    simp only [applyEvent, ok] at h
    split at h
    · cases h
      refine invC2_gengrant hL hC.c1 hC.c2 g i _ rfl rfl _ rfl rfl rfl ?_
      intro m hm
      simp only [List.mem_cons, List.not_mem_nil, or_false] at hm
      rcases hm with hm | hm
      · subst hm
        exact ⟨fun _ _ _ _ h => (by cases h), fun _ _ _ _ h => (by cases h)⟩
      · subst hm
        refine ⟨fun _ _ _ _ h => (by cases h), ?_⟩
        intro t v cd gh hm he
        injection hm with e1 _ _ e4
        subst e4; subst e1
        exact ⟨rfl, rfl, not_elected_of_early he⟩
    · cases h
  | grant i c =>
    simp only [applyEvent, ok] at h
    split at h
    · split at h
      · cases h
        refine invC2_gengrant hL hC.c1 hC.c2 g i _ rfl rfl _ rfl rfl rfl ?_
        intro m hm
        simp only [List.mem_cons, List.not_mem_nil, or_false] at hm
        subst hm
        refine ⟨fun _ _ _ _ h => (by cases h), ?_⟩
        intro t v cd gh hm he
        injection hm with e1 _ _ e4
        subst e4; subst e1
        exact ⟨rfl, rfl, not_elected_of_early he⟩
      · cases h
    · cases h
  | rdy i =>
    simp only [applyEvent, ok] at h
    split at h
    · cases h
      refine invC2_shrink hL hC.c1 hC.c2 g i _ rfl rfl (Or.inr (fun m hm => hm)) ?_
      intro t0 f idx pre ha
      rcases ha with ha | ⟨im, him, hm⟩ | ha
      · exact Or.inl ha
      · simp only [List.mem_append, List.mem_singleton] at him
        rcases him with him | him
        · exact Or.inr (Or.inl ⟨im, him, hm⟩)
        · subst him
          simp only [image, List.mem_filter] at hm
          exact Or.inl hm.1
      · exact Or.inr (Or.inr ha)
    · cases h
  | persist i k =>
    simp only [applyEvent, ok] at h
    split at h
    · split at h
      · rename_i im him
        cases h
        refine invC2_shrink hL hC.c1 hC.c2 g i _ rfl rfl (Or.inr (fun m hm => hm)) ?_
        intro t0 f idx pre ha
        rcases ha with ha | ⟨im', him', hm⟩ | ha
        · exact Or.inl ha
        · exact Or.inr (Or.inl ⟨im', List.mem_of_mem_drop him', hm⟩)
        · exact Or.inr (Or.inl ⟨im, List.mem_of_getElem? him, ha⟩)
      · cases h
    · cases h
  | crash i =>
    simp only [applyEvent, ok] at h
    split at h
    · cases h
      refine invC2_shrink hL hC.c1 hC.c2 g i _ rfl rfl (Or.inr (by intro m hm; simp at hm)) ?_
      intro t0 f idx pre ha
      rcases ha with ha | ⟨im, him, _⟩ | ha
      · simp at ha
      · simp at him
      · exact Or.inr (Or.inr ha)
    · cases h
  | restart i =>
    simp only [applyEvent, ok] at h
    split at h
    · cases h
      refine invC2_shrink hL hC.c1 hC.c2 g i _ rfl rfl (Or.inl ?_) ?_
      · intro t v cd gh hm
        simp only [List.mem_filter] at hm
        have := hm.2
        simp [OMsg.isAck] at this
      · intro t0 f idx pre ha
        rcases ha with ha | ⟨im, him, _⟩ | ha
        · simp only [List.mem_filter] at ha
          exact Or.inr (Or.inr ha.1)
        · simp at him
        · exact Or.inr (Or.inr ha)
    · cases h

end RaftModel.P
