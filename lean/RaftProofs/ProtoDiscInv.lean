import RaftProofs.ProtoDiscDefs

/-!
The invariant of the discipline layer PD (`InvD`) and the frame lemmas.
-/
namespace RaftModel.P

theorem upd_same (f : Nat → PNode) (i : Nat) (n : PNode) : upd f i n i = n := by simp [upd]
theorem upd_other (f : Nat → PNode) (i j : Nat) (n : PNode) (h : j ≠ i) : upd f i n j = f j := by simp [upd, h]

structure InvD (D : DSys) : Prop where
  /-- **APPL** the applied index is not beyond the commit index -/
  appl : ∀ i, D.applied i ≤ (D.pc.base.nodes i).commit
  /-- **INV1** at most one membership-change entry beyond the commit index: volatile log, ... -/
  v : ∀ i, One (D.pc.base.nodes i).log (D.pc.base.nodes i).commit
  /-- ... pending images, ... -/
  p : ∀ i, ∀ im ∈ (D.pc.base.nodes i).pending, One im.log im.commit
  /-- ... durable image -/
  d : ∀ i, One (D.pc.base.nodes i).dlog (D.pc.base.nodes i).dcommit
  /-- **MINV** the same for what a released append makes of a follower's log -/
  m : ∀ m ∈ D.pc.base.apps, One ((D.pc.base.llog m.term).take (m.prev + m.es.length)) m.commit
  /-- **PCONF** a leader's log holds no membership-change entry beyond `pending_conf_index` -/
  pc : ∀ i, (D.pc.base.nodes i).role = 2 →
        confCount (D.pc.base.nodes i).log = confCount ((D.pc.base.nodes i).log.take (D.pconf i)) ∧
        D.pconf i ≤ (D.pc.base.nodes i).log.length
  /-- **HUP / INV2** a candidate's and a leader's log hold at most one membership-change entry beyond
  the applied index -/
  hup : ∀ i, (D.pc.base.nodes i).role ≠ 0 → One (D.pc.base.nodes i).log (D.applied i)
  /-- **LVER** a leader's version is not below the versions recorded for its term -/
  lver : ∀ i, (D.pc.base.nodes i).role = 2 →
        verMono D.pc (D.pc.base.nodes i).term (confCount ((D.pc.base.nodes i).log.take (D.applied i))) = true

theorem invD_init : InvD dinit := by
  constructor
  · intro i; simp [dinit, cinit, init]
  · intro i; simp [dinit, cinit, init, One, confCount]
  · intro i im him; simp [dinit, cinit, init] at him
  · intro i; simp [dinit, cinit, init, One, confCount]
  · intro m hm; simp [dinit, cinit, init] at hm
  · intro i h; simp [dinit, cinit, init] at h
  · intro i h; simp [dinit, cinit, init] at h
  · intro i h; simp [dinit, cinit, init] at h

theorem verMono_mono {S : CSys} {t j j' : Nat} (h : verMono S t j = true) (hj : j ≤ j') : verMono S t j' = true := by
  obtain ⟨h1, h2⟩ := verMono_unpack h
  exact verMono_pack ⟨fun e he ht => Nat.le_trans (h1 e he ht) hj, fun p hp ht => Nat.le_trans (h2 p hp ht) hj⟩

theorem verMono_congr {S S' : CSys} (he : S'.evs = S.evs) (hc : S'.cvs = S.cvs) (t j : Nat) :
    verMono S' t j = verMono S t j := by
  unfold verMono; rw [he, hc]

/-- MINV is stable: the ghost logs only grow, and the message lies inside the ghost log of its term -/
theorem minv_keep {s s' : PSys} (hL : InvL s) (g : Grow s s')
    (hm : ∀ m ∈ s.apps, One ((s.llog m.term).take (m.prev + m.es.length)) m.commit)
    (happs : ∀ m ∈ s'.apps, m ∈ s.apps) :
    ∀ m ∈ s'.apps, One ((s'.llog m.term).take (m.prev + m.es.length)) m.commit := by
  intro m hm'
  have h0 := happs m hm'
  have ok := hL.msg m h0
  rw [g.take_eq ok.hl ok.len]
  exact hm m h0

/-- frame: only node `i` (and its applied index / `pending_conf_index`) changes -/
theorem invD_frame (D D' : DSys) (hD : InvD D) (i : Nat)
    (hn : ∀ j, j ≠ i → D'.pc.base.nodes j = D.pc.base.nodes j)
    (ha : ∀ j, j ≠ i → D'.applied j = D.applied j)
    (hp : ∀ j, j ≠ i → D'.pconf j = D.pconf j)
    (hm : ∀ m ∈ D'.pc.base.apps, One ((D'.pc.base.llog m.term).take (m.prev + m.es.length)) m.commit)
    (hvm : ∀ j, j ≠ i → (D.pc.base.nodes j).role = 2 → ∀ x, verMono D.pc (D.pc.base.nodes j).term x = true →
            verMono D'.pc (D.pc.base.nodes j).term x = true)
    (h1 : D'.applied i ≤ (D'.pc.base.nodes i).commit)
    (h2 : One (D'.pc.base.nodes i).log (D'.pc.base.nodes i).commit)
    (h3 : ∀ im ∈ (D'.pc.base.nodes i).pending, One im.log im.commit)
    (h4 : One (D'.pc.base.nodes i).dlog (D'.pc.base.nodes i).dcommit)
    (h5 : (D'.pc.base.nodes i).role = 2 →
        confCount (D'.pc.base.nodes i).log = confCount ((D'.pc.base.nodes i).log.take (D'.pconf i)) ∧
        D'.pconf i ≤ (D'.pc.base.nodes i).log.length)
    (h6 : (D'.pc.base.nodes i).role ≠ 0 → One (D'.pc.base.nodes i).log (D'.applied i))
    (h7 : (D'.pc.base.nodes i).role = 2 →
        verMono D'.pc (D'.pc.base.nodes i).term (confCount ((D'.pc.base.nodes i).log.take (D'.applied i))) = true) :
    InvD D' := by
  constructor
  · intro j
    by_cases hj : j = i
    · subst hj; exact h1
    · rw [hn j hj, ha j hj]; exact hD.appl j
  · intro j
    by_cases hj : j = i
    · subst hj; exact h2
    · rw [hn j hj]; exact hD.v j
  · intro j
    by_cases hj : j = i
    · subst hj; exact h3
    · rw [hn j hj]; exact hD.p j
  · intro j
    by_cases hj : j = i
    · subst hj; exact h4
    · rw [hn j hj]; exact hD.d j
  · exact hm
  · intro j
    by_cases hj : j = i
    · subst hj; exact h5
    · rw [hn j hj, hp j hj]; exact hD.pc j
  · intro j
    by_cases hj : j = i
    · subst hj; exact h6
    · rw [hn j hj, ha j hj]; exact hD.hup j
  · intro j
    by_cases hj : j = i
    · subst hj; exact h7
    · rw [hn j hj, ha j hj]
      intro hr
      exact hvm j hj hr _ (hD.lver j hr)

/-- nothing the invariant looks at changes, except possibly the released appends -/
theorem invD_congr (D D' : DSys) (hD : InvD D) (hn : D'.pc.base.nodes = D.pc.base.nodes)
    (he : D'.pc.evs = D.pc.evs) (hc : D'.pc.cvs = D.pc.cvs) (ha : D'.applied = D.applied) (hp : D'.pconf = D.pconf)
    (hm : ∀ m ∈ D'.pc.base.apps, One ((D'.pc.base.llog m.term).take (m.prev + m.es.length)) m.commit) :
    InvD D' := by
  constructor
  · intro j; rw [hn, ha]; exact hD.appl j
  · intro j; rw [hn]; exact hD.v j
  · intro j; rw [hn]; exact hD.p j
  · intro j; rw [hn]; exact hD.d j
  · exact hm
  · intro j; rw [hn, hp]; exact hD.pc j
  · intro j; rw [hn, ha]; exact hD.hup j
  · intro j; rw [hn, ha, verMono_congr he hc]; exact hD.lver j

/-! ### the events of P that PD does not refine -/

/-- what an event of P that PD does not refine does to the fields the invariant looks at: only node
`i` changes; its commit index does not decrease; its log stays the same — and the node stays in its
role and term or becomes a follower — or the node becomes a follower with a log that is all
committed; pending images are old ones or images of the current state; the durable image is the old
one, a pending one, or all committed; no append is released -/
structure Quiet (s s' : PSys) (i : Nat) : Prop where
  oth : ∀ j, j ≠ i → s'.nodes j = s.nodes j
  cm : (s.nodes i).commit ≤ (s'.nodes i).commit
  lg : ((s'.nodes i).log = (s.nodes i).log ∧
          ((s'.nodes i).role = 0 ∨ ((s'.nodes i).role = (s.nodes i).role ∧ (s'.nodes i).term = (s.nodes i).term))) ∨
       ((s'.nodes i).role = 0 ∧ One (s'.nodes i).log (s'.nodes i).commit)
  pd : ∀ im ∈ (s'.nodes i).pending, im ∈ (s.nodes i).pending ∨
          (im.log = (s.nodes i).log ∧ im.commit = (s.nodes i).commit)
  du : ((s'.nodes i).dlog = (s.nodes i).dlog ∧ (s'.nodes i).dcommit = (s.nodes i).dcommit) ∨
       (∃ im ∈ (s.nodes i).pending, (s'.nodes i).dlog = im.log ∧ (s'.nodes i).dcommit = im.commit) ∨
       One (s'.nodes i).dlog (s'.nodes i).dcommit
  ap : s'.apps = s.apps

theorem quiet_nodes {s s' : PSys} (hn : s'.nodes = s.nodes) (ha : s'.apps = s.apps) : Quiet s s' 0 := by
  refine ⟨fun j _ => by rw [hn], by rw [hn]; exact Nat.le_refl _, Or.inl ⟨by rw [hn], Or.inr ⟨by rw [hn], by rw [hn]⟩⟩,
    fun im him => Or.inl (by rw [hn] at him; exact him), Or.inl ⟨by rw [hn], by rw [hn]⟩, ha⟩

theorem quiet_upd (s s' : PSys) (i : Nat) (n' : PNode) (hn : s'.nodes = upd s.nodes i n') (ha : s'.apps = s.apps)
    (cm : (s.nodes i).commit ≤ n'.commit)
    (lg : (n'.log = (s.nodes i).log ∧ (n'.role = 0 ∨ (n'.role = (s.nodes i).role ∧ n'.term = (s.nodes i).term))) ∨
       (n'.role = 0 ∧ One n'.log n'.commit))
    (pd : ∀ im ∈ n'.pending, im ∈ (s.nodes i).pending ∨ (im.log = (s.nodes i).log ∧ im.commit = (s.nodes i).commit))
    (du : (n'.dlog = (s.nodes i).dlog ∧ n'.dcommit = (s.nodes i).dcommit) ∨
       (∃ im ∈ (s.nodes i).pending, n'.dlog = im.log ∧ n'.dcommit = im.commit) ∨ One n'.dlog n'.dcommit) :
    Quiet s s' i := by
  have e : s'.nodes i = n' := by rw [hn, upd_same]
  refine ⟨fun j hj => by rw [hn, upd_other _ _ _ _ hj], ?_, ?_, ?_, ?_, ha⟩
  · rw [e]; exact cm
  · rw [e]; exact lg
  · rw [e]; exact pd
  · rw [e]; exact du

theorem addReleased_nodes_apps (s : PSys) (m : OMsg) :
    (addReleased s m).nodes = s.nodes ∧ (addReleased s m).apps = s.apps := by
  cases m <;> exact ⟨rfl, rfl⟩

theorem quiet_step (s s' : PSys) (e : Event) (h : applyEvent s e = .ok s')
    (hr : refined (.base e) = false) (hw : isWinOrCommit e = false) : ∃ i, Quiet s s' i := by
  cases e with
  | win i cfg q => simp [isWinOrCommit] at hw
  | commitLeader i c cfg q => simp [isWinOrCommit] at hw
  | campaign i => simp [refined] at hr
  | restart i => simp [refined] at hr
  | leaderAppend i e => simp [refined] at hr
  | sendApp i m => simp [refined] at hr
  | recvApp i m => simp [refined] at hr
  | commitApp i c m => simp [refined] at hr
  | read r =>
    obtain ⟨rd, _, hs⟩ := read_apply h
    subst hs
    exact ⟨0, quiet_nodes rfl rfl⟩
  | bump i t =>
    simp only [applyEvent, ok] at h
    split at h
    · cases h
      exact ⟨i, quiet_upd s _ i _ rfl rfl (Nat.le_refl _) (Or.inl ⟨rfl, Or.inl rfl⟩) (fun im h => Or.inl h)
        (Or.inl ⟨rfl, rfl⟩)⟩
    · cases h
  | grant i c =>
    simp only [applyEvent, ok] at h
    split at h
    · split at h
      · cases h
        exact ⟨i, quiet_upd s _ i _ rfl rfl (Nat.le_refl _) (Or.inl ⟨rfl, Or.inl rfl⟩) (fun im h => Or.inl h)
          (Or.inl ⟨rfl, rfl⟩)⟩
      · cases h
    · cases h
  | rdy i =>
    simp only [applyEvent, ok] at h
    split at h
    · cases h
      refine ⟨i, quiet_upd s _ i _ rfl rfl (Nat.le_refl _) (Or.inl ⟨rfl, Or.inr ⟨rfl, rfl⟩⟩) ?_ (Or.inl ⟨rfl, rfl⟩)⟩
      intro im him
      simp only [List.mem_append, List.mem_singleton] at him
      rcases him with him | him
      · exact Or.inl him
      · subst him; exact Or.inr ⟨rfl, rfl⟩
    · cases h
  | persist i k =>
    simp only [applyEvent, ok] at h
    split at h
    · split at h
      · rename_i im him
        cases h
        exact ⟨i, quiet_upd s _ i _ rfl rfl (Nat.le_refl _) (Or.inl ⟨rfl, Or.inr ⟨rfl, rfl⟩⟩)
          (fun x hx => Or.inl (List.mem_of_mem_drop hx))
          (Or.inr (Or.inl ⟨im, List.mem_of_getElem? him, rfl, rfl⟩))⟩
      · cases h
    · cases h
  | release i key =>
    simp only [applyEvent, ok] at h
    split at h
    · split at h
      · split at h
        · cases h
          exact ⟨0, quiet_nodes (addReleased_nodes_apps _ _).1 (addReleased_nodes_apps _ _).2⟩
        · cases h
      · cases h
    · split at h
      · split at h
        · split at h
          · cases h
            exact ⟨i, quiet_upd s _ i _ ((addReleased_nodes_apps _ _).1.trans rfl)
              ((addReleased_nodes_apps _ _).2.trans rfl) (Nat.le_refl _)
              (Or.inl ⟨rfl, Or.inr ⟨rfl, rfl⟩⟩) (fun im h => Or.inl h) (Or.inl ⟨rfl, rfl⟩)⟩
          · cases h
        · cases h
      · cases h
  | crash i =>
    simp only [applyEvent, ok] at h
    split at h
    · cases h
      exact ⟨i, quiet_upd s _ i _ rfl rfl (Nat.le_refl _) (Or.inl ⟨rfl, Or.inl rfl⟩)
        (fun im h => by simp at h) (Or.inl ⟨rfl, rfl⟩)⟩
    · cases h
  | stepDown i =>
    simp only [applyEvent, ok] at h
    split at h
    · cases h
      exact ⟨i, quiet_upd s _ i _ rfl rfl (Nat.le_refl _) (Or.inl ⟨rfl, Or.inl rfl⟩) (fun im h => Or.inl h)
        (Or.inl ⟨rfl, rfl⟩)⟩
    · cases h
  | ackCommitted i | ackSelf i idx =>
    simp only [applyEvent, ok] at h
    split at h
    · cases h
      exact ⟨i, quiet_upd s _ i _ rfl rfl (Nat.le_refl _) (Or.inl ⟨rfl, Or.inr ⟨rfl, rfl⟩⟩) (fun im h => Or.inl h)
        (Or.inl ⟨rfl, rfl⟩)⟩
    · cases h
  | commitHB i c m =>
    simp only [applyEvent, ok] at h
    split at h
    · rename_i hg
      cases h
      exact ⟨i, quiet_upd s _ i _ rfl rfl (Nat.le_of_lt hg.2.2.2.2.1) (Or.inl ⟨rfl, Or.inr ⟨rfl, rfl⟩⟩)
        (fun im h => Or.inl h) (Or.inl ⟨rfl, rfl⟩)⟩
    · cases h
  | commitClaim i m =>
    simp only [applyEvent, ok] at h
    split at h
    · rename_i hg
      cases h
      exact ⟨i, quiet_upd s _ i _ rfl rfl (Nat.le_of_lt hg.2.2.1) (Or.inl ⟨rfl, Or.inr ⟨rfl, rfl⟩⟩)
        (fun im h => Or.inl h) (Or.inl ⟨rfl, rfl⟩)⟩
    · cases h
  | sendHB i to c | claim i idx | sendSnap i idx =>
    simp only [applyEvent, ok] at h
    split at h
    · cases h
      exact ⟨0, quiet_nodes rfl rfl⟩
    · cases h
  | installSnap i t idx sterm =>
    simp only [applyEvent, ok] at h
    split at h
    · split at h
      · rename_i m hm hg
        cases h
        exact ⟨i, quiet_upd s _ i _ rfl rfl hg.2.2.2.1
          (Or.inr ⟨rfl, One.of_len (Nat.le_of_eq hg.2.2.2.2.1)⟩) (fun im h => Or.inl h) (Or.inl ⟨rfl, rfl⟩)⟩
      · cases h
    · cases h
  | commitSnap i t idx sterm =>
    simp only [applyEvent, ok] at h
    split at h
    · split at h
      · rename_i m hm hg
        cases h
        exact ⟨i, quiet_upd s _ i _ rfl rfl (Nat.le_of_lt hg.2.2.1) (Or.inl ⟨rfl, Or.inr ⟨rfl, rfl⟩⟩)
          (fun im h => Or.inl h) (Or.inl ⟨rfl, rfl⟩)⟩
      · cases h
    · cases h
  | bootstrap i donor idx =>
    simp only [applyEvent, ok] at h
    split at h
    · rename_i hg
      cases h
      refine ⟨i, quiet_upd s _ i _ rfl rfl (by rw [hg.2.2.2.1]; exact Nat.zero_le _)
        (Or.inr ⟨hg.2.2.2.2.2.2.2.2.2.2.1, One.of_len (by simp [List.length_take]; omega)⟩)
        (fun im h => Or.inl h) (Or.inr (Or.inr (One.of_len (by simp [List.length_take]; omega))))⟩
    · cases h

end RaftModel.P

namespace RaftModel.P

theorem updN_self (f : Nat → Nat) (i : Nat) : updN f i (f i) = f := by
  funext j; by_cases h : j = i <;> simp [updN, h]

theorem updN_same (f : Nat → Nat) (i v : Nat) : updN f i v i = v := by simp [updN]
theorem updN_other (f : Nat → Nat) (i j v : Nat) (h : j ≠ i) : updN f i v j = f j := by simp [updN, h]

/-- frame, with the new node / applied index / `pending_conf_index` of `i` given explicitly -/
theorem invD_frame_upd (D D' : DSys) (hD : InvD D) (i : Nat) (n' : PNode) (a pcf : Nat)
    (hn : D'.pc.base.nodes = upd D.pc.base.nodes i n')
    (ha : D'.applied = updN D.applied i a)
    (hp : D'.pconf = updN D.pconf i pcf)
    (hm : ∀ m ∈ D'.pc.base.apps, One ((D'.pc.base.llog m.term).take (m.prev + m.es.length)) m.commit)
    (hvm : ∀ j, j ≠ i → (D.pc.base.nodes j).role = 2 → ∀ x, verMono D.pc (D.pc.base.nodes j).term x = true →
            verMono D'.pc (D.pc.base.nodes j).term x = true)
    (h1 : a ≤ n'.commit)
    (h2 : One n'.log n'.commit)
    (h3 : ∀ im ∈ n'.pending, One im.log im.commit)
    (h4 : One n'.dlog n'.dcommit)
    (h5 : n'.role = 2 → confCount n'.log = confCount (n'.log.take pcf) ∧ pcf ≤ n'.log.length)
    (h6 : n'.role ≠ 0 → One n'.log a)
    (h7 : n'.role = 2 → verMono D'.pc n'.term (confCount (n'.log.take a)) = true) :
    InvD D' := by
  have e1 : D'.pc.base.nodes i = n' := by rw [hn, upd_same]
  have e2 : D'.applied i = a := by rw [ha, updN_same]
  have e3 : D'.pconf i = pcf := by rw [hp, updN_same]
  refine invD_frame D D' hD i (fun j hj => by rw [hn, upd_other _ _ _ _ hj])
    (fun j hj => by rw [ha, updN_other _ _ _ _ hj]) (fun j hj => by rw [hp, updN_other _ _ _ _ hj]) hm hvm
    ?_ ?_ ?_ ?_ ?_ ?_ ?_
  · rw [e1, e2]; exact h1
  · rw [e1]; exact h2
  · rw [e1]; exact h3
  · rw [e1]; exact h4
  · rw [e1, e3]; exact h5
  · rw [e1, e2]; exact h6
  · rw [e1, e2]; exact h7

end RaftModel.P
