import RaftProofs.ClusterSnap6B
import RaftProofs.ClusterBatchH

/-!
Commit safety of `ClusterSem` with compaction, snapshots and `request_snapshot`, part 6C (towards
deriving `reqok`): **one call of a node — every `NodeOp` — keeps the invariant `ReqI`**
("a node with a pending snapshot request is not leader and its log ends at or before the requested
index"), `RQ.call_reqI`; and a freshly booted node has no pending request (`RQ.boot_pend`).

`Raft::step` and `Raft::tick` are covered by `step_q` / `tick_q` (`ClusterSnap6B`); here the relation
`Q` is lifted to the entry points that are not `step` (`ping`, `apply_conf_change`,
`on_persist_entries`, `on_persist_snap`, `commit_apply`, the group-commit calls, `on_entries_fetched`,
the emulated application's storage steps — `stabilize`, `persist_snap`, `compact` — and the run-time
knobs), and `request_snapshot`, the one call that sets a request, is treated directly
(`requestSnapshot_out`: the request index is the last index, on a node that is not leader).
-/
namespace RaftModel
namespace Raft
namespace RQ
open Node RaftProps.C17

theorem postConfChange_q (r : Raft) : Res.Post (fun x => Q r x.1) r.postConfChange := by
  unfold postConfChange
  dsimp only
  have h0 : FrameP r { r with promotable := Joint.contains r.prs.voters r.id } := by
    simp [FrameP, pcore]
  split
  · exact Res.post_ok (h0.toQ.trans (becomeFollower_q _ _ _))
  · split
    · exact Res.post_ok h0.toQ
    · apply Res.post_bind (P := fun x => FrameP r x)
      · split
        · rename_i r1 heq
          have h1 := Res.Post.of_eq (P := fun x => FrameP _ x.1) (maybeCommit_fp _) heq
          exact Res.post_mono (bcastAppend_fp r1) (fun x hx => (h0.trans h1).trans hx)
        · rename_i r1 heq
          have h1 := Res.Post.of_eq (P := fun x => FrameP _ x.1) (maybeCommit_fp _) heq
          refine Res.post_mono (forEachPeer_fp r1 _ ?_) (fun x hx => (h0.trans h1).trans hx)
          intro r3 id pr
          exact Res.post_bind (maybeSendAppend_fp r3 id pr false) (fun a ha => ha)
        · trivial
        · trivial
      · intro r1 hr1
        apply Res.post_bind (P := fun x => FrameP r x)
        · split
          · exact hr1
          · split
            · split
              · apply Res.post_bind (P := fun _ => True)
                · exact Res.post_intro (fun _ _ => trivial)
                · intro a _
                  exact Res.post_mono (respondReadStates_fp _ _)
                    (fun x hx => (hr1.trans (by simp [FrameP, pcore])).trans hx)
              · exact hr1.trans (by simp [FrameP, pcore])
            · exact hr1.trans (by simp [FrameP, pcore])
        · intro r2 hr2
          refine Res.post_ok ?_
          dsimp only
          split
          · split
            · exact (hr2.trans (by simp [FrameP, pcore, abortLeaderTransfer])).toQ
            · exact hr2.toQ
          · exact hr2.toQ

theorem applyConfChange_q (r : Raft) (cc : ConfChangeV2) :
    Res.Post (fun x => Q r x.1) (r.applyConfChange cc) := by
  unfold applyConfChange
  dsimp only
  split
  · exact Res.post_ok (Q.refl _)
  · apply Res.post_bind (postConfChange_q _)
    intro a ha
    exact Res.post_ok (Q.trans (Q.of_same rfl rfl rfl) ha)

theorem ping_fp (r : Raft) : Res.Post (fun x => FrameP r x) r.ping := by
  unfold ping
  split
  · exact bcastHeartbeat_fp r
  · exact Res.post_ok (FrameP.refl _)

/-- `maybe_commit` followed by `bcast_append` when the commit index moved -/
theorem commitBcast_fp (r : Raft) :
    Res.Post (fun x => FrameP r x)
      (match r.maybeCommit with
        | .ok (r, true) => r.bcastAppend
        | .ok (r, false) => .ok r
        | .err e => .err e
        | .panic s => .panic s) := by
  have hc := maybeCommit_fp r
  split
  · rename_i r1 heq
    rw [heq] at hc
    exact Res.post_mono (bcastAppend_fp r1) (fun a ha => FrameP.trans hc ha)
  · rename_i r1 heq
    rw [heq] at hc
    exact Res.post_ok hc
  · trivial
  · trivial

/-- `maybe_commit` followed by `bcast_append` when the commit index moved and `should_bcast_commit` -/
theorem commitBcast2_fp (r : Raft) :
    Res.Post (fun x => FrameP r x)
      (match r.maybeCommit with
        | .ok (r, true) => if r.shouldBcastCommit then r.bcastAppend else .ok r
        | .ok (r, false) => .ok r
        | .err e => .err e
        | .panic s => .panic s) := by
  have hc := maybeCommit_fp r
  split
  · rename_i r1 heq
    rw [heq] at hc
    split
    · exact Res.post_mono (bcastAppend_fp r1) (fun a ha => FrameP.trans hc ha)
    · exact Res.post_ok hc
  · rename_i r1 heq
    rw [heq] at hc
    exact Res.post_ok hc
  · trivial
  · trivial

theorem logMaybePersist_pc {l l' : RaftLog} {i t : Nat} {b : Bool}
    (h : l.maybePersist i t = .ok (l', b)) : l'.unstable = l.unstable ∧ l'.store = l.store := by
  unfold RaftLog.maybePersist at h
  dsimp only at h
  split at h <;> split at h <;> (try split at h) <;> (try split at h) <;> cases h <;>
    exact ⟨rfl, rfl⟩

theorem logMaybePersistSnap_pc {l l' : RaftLog} {i : Nat} {b : Bool}
    (h : l.maybePersistSnap i = .ok (l', b)) : l'.unstable = l.unstable ∧ l'.store = l.store := by
  unfold RaftLog.maybePersistSnap at h
  split at h
  · split at h
    · cases h
    · split at h
      · cases h
      · cases h; exact ⟨rfl, rfl⟩
  · cases h; exact ⟨rfl, rfl⟩

theorem logAppliedTo_pc {l l' : RaftLog} {i : Nat}
    (h : l.appliedTo i = .ok l') : l'.unstable = l.unstable ∧ l'.store = l.store := by
  unfold RaftLog.appliedTo at h
  split at h
  · cases h; exact ⟨rfl, rfl⟩
  · split at h
    · cases h
    · cases h; exact ⟨rfl, rfl⟩

theorem onPersistEntries_fp (r : Raft) (index term : Nat) :
    Res.Post (fun x => FrameP r x) (r.onPersistEntries index term) := by
  unfold onPersistEntries
  split
  · trivial
  · trivial
  · rename_i log update hc
    have hf : FrameP r { r with raftLog := log } := FrameP.of_log' (logMaybePersist_pc hc)
    dsimp only
    split
    · split
      · exact Res.post_ok hf
      · split
        · trivial
        · trivial
        · split
          · exact Res.post_mono (commitBcast2_fp _)
              (fun a ha => (hf.trans (set_fp _ _ _)).trans ha)
          · exact Res.post_ok (hf.trans (set_fp _ _ _))
    · exact Res.post_ok hf

theorem onPersistSnap_fp (r : Raft) (index : Nat) :
    Res.Post (fun x => FrameP r x) (r.onPersistSnap index) := by
  unfold onPersistSnap
  split
  · rename_i log b hc
    exact Res.post_ok (FrameP.of_log' (logMaybePersistSnap_pc hc))
  · trivial
  · trivial

theorem commitApply_q (r : Raft) (k : Nat) : Res.Post (fun x => Q r x) (r.commitApply k) := by
  unfold commitApply commitApplyInternal
  dsimp only
  split
  · trivial
  · trivial
  · rename_i log hl
    have hl' : r.raftLog.appliedTo k = .ok log := by simpa using hl
    have hf : FrameP r { r with raftLog := log } := FrameP.of_log' (logAppliedTo_pc hl')
    split
    · rename_i hcnd
      have hs : r.state = .leader := hcnd.2.2.2
      have ha := appendEntry_ps ({ r with raftLog := log } : Raft) [{ etype := 2 }]
      split
      · rename_i r1 heq
        rw [heq] at ha
        exact Res.post_ok (Q.of_leader ha.1 hs)
      · trivial
      · trivial
      · trivial
    · exact Res.post_ok hf.toQ

theorem reduceUncommittedSize_fp (r : Raft) (ents : List Entry) :
    FrameP r (r.reduceUncommittedSize ents) := by
  unfold reduceUncommittedSize
  split
  · exact FrameP.refl _
  · simp [FrameP, pcore]

theorem enableGroupCommit_fp (r : Raft) (b : Bool) :
    Res.Post (fun x => FrameP r x) (r.enableGroupCommit b) := by
  unfold enableGroupCommit
  dsimp only
  have h0 : FrameP r { r with prs := { r.prs with groupCommit := b } } := by simp [FrameP, pcore]
  split
  · exact Res.post_mono (commitBcast_fp _) (fun a ha => h0.trans ha)
  · exact Res.post_ok h0

theorem assignFold_fp (ids : List (Nat × Nat)) : ∀ (acc : Res Raft) (r : Raft),
    Res.Post (fun x => FrameP r x) acc →
    Res.Post (fun x => FrameP r x) (ids.foldl (fun (acc : Res Raft) (p : Nat × Nat) =>
      acc.bind (fun r =>
        if p.2 = 0 then .panic "raft.assign_commit_groups.assert"
        else .ok (r.modifyProgress p.1 (fun pr => { pr with commitGroupId := p.2 })))) acc) := by
  induction ids with
  | nil => intro acc r h; exact h
  | cons p t ih =>
    intro acc r h
    simp only [List.foldl_cons]
    apply ih
    apply Res.post_bind h
    intro a ha
    split
    · trivial
    · exact Res.post_ok (FrameP.trans ha (modifyProgress_fp _ _ _))

theorem assignCommitGroups_fp (r : Raft) (ids : List (Nat × Nat)) :
    Res.Post (fun x => FrameP r x) (r.assignCommitGroups ids) := by
  unfold assignCommitGroups
  dsimp only
  apply Res.post_bind (assignFold_fp ids (.ok r) r (FrameP.refl _))
  intro a ha
  split
  · exact Res.post_mono (commitBcast_fp _) (fun b hb => FrameP.trans ha hb)
  · exact Res.post_ok ha

theorem adjustMaxInflightMsgs_fp (r : Raft) (id cap : Nat) :
    Res.Post (fun x => FrameP r x) (r.adjustMaxInflightMsgs id cap) := by
  unfold adjustMaxInflightMsgs
  split
  · exact Res.post_ok (FrameP.refl _)
  · split
    · exact Res.post_ok (set_fp _ _ _)
    · trivial

/-! ### the invariant over one call -/

/-- the invariant on a node: a node with a pending snapshot request is not leader and its log ends at
or before the requested index -/
def ReqInv (st : NState) : Prop := ReqI st.raft

/-- the clause of `Snap5.Hyp` (`reqok`) for one node -/
def ReqOkN (st : NState) : Prop :=
  st.raft.pendingRequestSnapshot ≠ 0 → st.raft.raftLog.lastIndex ≤ st.raft.pendingRequestSnapshot

theorem ReqInv.reqOkN {st : NState} (h : ReqInv st) : ReqOkN st := fun hp => (h hp).2

theorem ReqInv.not_leader {st : NState} (h : ReqInv st) (hp : st.raft.pendingRequestSnapshot ≠ 0) :
    st.raft.state ≠ .leader := (h hp).1

theorem keeps_rnd {st st' : NState} {rnd : Option Nat} (hi : ReqI st.raft)
    (h : Q ({ st.raft with nextRand := rnd } : Raft) st'.raft) : ReqI st'.raft :=
  (Q.trans (Q.of_same rfl rfl rfl) h).keeps hi

theorem keeps_fp {st st' : NState} (hi : ReqI st.raft) (h : FrameP st.raft st'.raft) :
    ReqI st'.raft := h.toQ.keeps hi

theorem post_fst_rq {α β : Type} {P : α → Prop} {x : Res (α × β)} {a : α} {b : β}
    (hp : Res.Post (fun y => P y.1) x) (h : x = .ok (a, b)) : P a :=
  Res.Post.of_eq (P := fun y => P y.1) hp h

/-- **one call of a node — every `NodeOp`, every outcome — keeps the invariant.**  The log satisfies
the representation invariant (needed for `stabilize`, `persist_snap`, `compact`: the last index is
read off the representation), and `compact` obeys the storage contract with no snapshot pending. -/
theorem call_reqI (st st' : NState) (rnd : Option Nat) (op : NodeOp) (res : OpRes)
    (hinv : st.raft.raftLog.Inv)
    (hco : ∀ k, op = .compact k →
      CompactOk st.raft.raftLog k ∧ st.raft.raftLog.unstable.snapshot = none)
    (hi : ReqInv st)
    (h : Node.call st rnd op = .ok (res, st')) : ReqInv st' := by
  have h0 := h
  unfold ReqInv at hi ⊢
  unfold Node.call at h
  cases op with
  | tick =>
    simp only [applyOp] at h
    split at h
    · rename_i raft b heq
      cases h
      have heq' : ({ st.raft with nextRand := rnd } : Raft).tick = .ok (raft, b) := heq
      exact keeps_rnd (rnd := rnd) hi (post_fst_rq (tick_q _) heq')
    · cases h
    · cases h
  | step m =>
    simp only [applyOp] at h
    obtain ⟨raft, e, hx, hr⟩ := CV.unitRes_ok h
    unfold RawNode.step at hx
    split at hx
    · cases hx; exact keeps_rnd (rnd := rnd) hi (by rw [hr]; exact Q.refl _)
    · split at hx
      · rw [← hr] at hx
        exact keeps_rnd (rnd := rnd) hi (post_fst_rq (step_q _ m) hx)
      · cases hx; exact keeps_rnd (rnd := rnd) hi (by rw [hr]; exact Q.refl _)
  | rstep m =>
    simp only [applyOp] at h
    obtain ⟨raft, e, hx, hr⟩ := CV.unitRes_ok h
    rw [← hr] at hx
    exact keeps_rnd (rnd := rnd) hi (post_fst_rq (step_q _ m) hx)
  | propose c d =>
    simp only [applyOp] at h
    obtain ⟨raft, e, hx, hr⟩ := CV.unitRes_ok h
    rw [← hr] at hx
    exact keeps_rnd (rnd := rnd) hi (post_fst_rq (step_q _ _) hx)
  | proposeCc t c d =>
    simp only [applyOp] at h
    obtain ⟨raft, e, hx, hr⟩ := CV.unitRes_ok h
    rw [← hr] at hx
    exact keeps_rnd (rnd := rnd) hi (post_fst_rq (step_q _ _) hx)
  | readIndex c =>
    simp only [applyOp] at h
    obtain ⟨raft, hx, hr⟩ := CV.okRes_ok h
    rw [← hr] at hx
    exact keeps_rnd (rnd := rnd) hi (Res.Post.of_eq (stepIgnore_q _ _) hx)
  | transferLeader x =>
    simp only [applyOp] at h
    obtain ⟨raft, hx, hr⟩ := CV.okRes_ok h
    rw [← hr] at hx
    exact keeps_rnd (rnd := rnd) hi (Res.Post.of_eq (stepIgnore_q _ _) hx)
  | campaign =>
    simp only [applyOp] at h
    obtain ⟨raft, e, hx, hr⟩ := CV.unitRes_ok h
    rw [← hr] at hx
    exact keeps_rnd (rnd := rnd) hi (post_fst_rq (step_q _ _) hx)
  | ping =>
    simp only [applyOp] at h
    obtain ⟨raft, hx, hr⟩ := CV.okRes_ok h
    rw [← hr] at hx
    exact keeps_rnd (rnd := rnd) hi (Res.Post.of_eq (ping_fp _) hx).toQ
  | requestSnapshot =>
    simp only [applyOp] at h
    obtain ⟨raft, e, hx, hr⟩ := CV.unitRes_ok h
    rw [← hr] at hx
    rcases Cluster.Snap5.requestSnapshot_out hx with c | ⟨c1, _, c3, c4, c5, _⟩
    · rw [c]; exact keeps_rnd (rnd := rnd) (st' := ⟨{ st.raft with nextRand := rnd }, st.appCs⟩) hi
        (Q.refl _)
    · intro _
      refine ⟨by rw [c5]; exact c1, ?_⟩
      rw [c3, c4]
      exact Nat.le_refl _
  | reportUnreachable x =>
    simp only [applyOp] at h
    obtain ⟨raft, hx, hr⟩ := CV.okRes_ok h
    rw [← hr] at hx
    exact keeps_rnd (rnd := rnd) hi (Res.Post.of_eq (stepIgnore_q _ _) hx)
  | reportSnapshot x f =>
    simp only [applyOp] at h
    obtain ⟨raft, hx, hr⟩ := CV.okRes_ok h
    rw [← hr] at hx
    exact keeps_rnd (rnd := rnd) hi (Res.Post.of_eq (stepIgnore_q _ _) hx)
  | applyConfChange cc =>
    simp only [applyOp] at h
    split at h
    · rename_i raft cs heq
      cases h
      exact keeps_rnd (rnd := rnd) hi (post_fst_rq (applyConfChange_q _ cc) heq)
    · rename_i raft e heq
      cases h
      exact keeps_rnd (rnd := rnd) hi (post_fst_rq (applyConfChange_q _ cc) heq)
    · cases h
    · cases h
  | stabilize =>
    simp only [applyOp] at h
    have hinv' : (⟨{ st.raft with nextRand := rnd }, st.appCs⟩ : NState).raft.raftLog.Inv := hinv
    obtain ⟨L, hL, _, _⟩ := CC.stabilize_shape h
    have habs := (Bt.stabilize_abs hinv' h).1
    have hinv2 := (stabilize_eff (m := default) hinv' h).1.inv
    refine keeps_rnd (rnd := rnd) hi (Q.of_same (by rw [hL]) (by rw [hL]) ?_)
    rw [hinv2.lastIndex_abs, habs]
    exact hinv'.lastIndex_abs.symm
  | onPersistEntries i t =>
    simp only [applyOp] at h
    obtain ⟨raft, hx, hr⟩ := CV.okRes_ok h
    rw [← hr] at hx
    exact keeps_rnd (rnd := rnd) hi (Res.Post.of_eq (onPersistEntries_fp _ i t) hx).toQ
  | persistSnap =>
    rcases CC.persist_out hinv h0 with hr | ⟨sn, L, _, hr, hinv2, habs, _, _, _, _, _, _, _⟩
    · rw [hr]
      exact keeps_rnd (rnd := rnd) (st' := ⟨{ st.raft with nextRand := rnd }, st.appCs⟩) hi (Q.refl _)
    · refine (Q.of_same (r := st.raft) (by rw [hr]) (by rw [hr]) ?_).keeps hi
      rw [hr]
      show L.lastIndex = _
      rw [hinv2.lastIndex_abs, habs]
      exact hinv.lastIndex_abs.symm
  | commitApply k =>
    simp only [applyOp, Node.commitApply] at h
    split at h
    · rename_i r2 hb
      rw [Res.bind_eq_ok_iff] at hb
      obtain ⟨r1, h1, h2⟩ := hb
      have m1 : Q ({ st.raft with nextRand := rnd } : Raft) r1 := by
        split at h1
        · split at h1
          · cases h1; exact (reduceUncommittedSize_fp _ _).toQ
          · cases h1; exact Q.refl _
          · cases h1
        · cases h1; exact Q.refl _
      have m2 := Q.trans m1 (Res.Post.of_eq (commitApply_q r1 k) h2)
      cases h
      refine keeps_rnd (rnd := rnd) hi ?_
      dsimp only
      split
      · exact Q.trans m2 (Q.of_same rfl rfl rfl)
      · exact m2
    · cases h
    · cases h
  | compact k =>
    obtain ⟨hc1, hc2⟩ := hco k rfl
    have hfr := Cluster.Snap.compact_frame hinv hc2 hc1 h0
    simp only [applyOp] at h
    split at h
    · cases h
      refine (Q.of_same (r := st.raft) ?_ ?_ hfr.2.2).keeps hi <;> rfl
    · cases h
    · cases h
  | drain =>
    simp only [applyOp] at h
    cases h
    exact keeps_rnd (rnd := rnd) hi (Q.of_same rfl rfl rfl)
  | triggerSnap =>
    simp only [applyOp] at h; cases h; exact keeps_rnd (rnd := rnd) hi (Q.of_same rfl rfl rfl)
  | triggerLog b =>
    simp only [applyOp] at h; cases h; exact keeps_rnd (rnd := rnd) hi (Q.of_same rfl rfl rfl)
  | setPriority p =>
    simp only [applyOp] at h; cases h; exact keeps_rnd (rnd := rnd) hi (Q.of_same rfl rfl rfl)
  | setBatchAppend b =>
    simp only [applyOp] at h; cases h; exact keeps_rnd (rnd := rnd) hi (Q.of_same rfl rfl rfl)
  | skipBcastCommit b =>
    simp only [applyOp] at h; cases h; exact keeps_rnd (rnd := rnd) hi (Q.of_same rfl rfl rfl)
  | setCheckQuorum b =>
    simp only [applyOp] at h; cases h; exact keeps_rnd (rnd := rnd) hi (Q.of_same rfl rfl rfl)
  | adjustMaxInflight id cap =>
    simp only [applyOp] at h
    obtain ⟨raft, hx, hr⟩ := CV.okRes_ok h
    rw [← hr] at hx
    exact keeps_rnd (rnd := rnd) hi (Res.Post.of_eq (adjustMaxInflightMsgs_fp _ id cap) hx).toQ
  | maybeFreeInflightBuffers =>
    simp only [applyOp] at h; cases h
    exact keeps_rnd (rnd := rnd) hi (mapProgress_fp _ _).toQ
  | enableGroupCommit b =>
    simp only [applyOp] at h
    obtain ⟨raft, hx, hr⟩ := CV.okRes_ok h
    rw [← hr] at hx
    exact keeps_rnd (rnd := rnd) hi (Res.Post.of_eq (enableGroupCommit_fp _ b) hx).toQ
  | assignCommitGroups v =>
    simp only [applyOp] at h
    obtain ⟨raft, hx, hr⟩ := CV.okRes_ok h
    rw [← hr] at hx
    exact keeps_rnd (rnd := rnd) hi (Res.Post.of_eq (assignCommitGroups_fp _ v) hx).toQ
  | clearCommitGroup =>
    simp only [applyOp] at h; cases h
    exact keeps_rnd (rnd := rnd) hi (mapProgress_fp _ _).toQ
  | checkGroupCommitConsistent =>
    simp only [applyOp] at h
    split at h
    · cases h; exact keeps_rnd (rnd := rnd) hi (Q.refl _)
    · cases h; exact keeps_rnd (rnd := rnd) hi (Q.refl _)
    · cases h
    · cases h
  | setMaxApplyUnpersistedLogLimit x =>
    simp only [applyOp] at h; cases h; exact keeps_rnd (rnd := rnd) hi (Q.of_same rfl rfl rfl)
  | setMaxCommittedSizePerReady x =>
    simp only [applyOp] at h; cases h; exact keeps_rnd (rnd := rnd) hi (Q.of_same rfl rfl rfl)
  | onEntriesFetched to term aggr =>
    rcases CV.onEntriesFetched_ok h with h | ⟨-, -, -, raft, hx, h⟩
    · cases h; exact keeps_rnd (rnd := rnd) hi (Q.refl _)
    · cases h
      rcases hx with hx | hx
      · exact keeps_rnd (rnd := rnd) hi (Res.Post.of_eq (sendAppendAggressively_fp _ to) hx).toQ
      · exact keeps_rnd (rnd := rnd) hi (Res.Post.of_eq (sendAppend_fp _ to) hx).toQ

/-! ### a freshly booted node has no pending request -/

theorem commitApplyInternal_pend (r : Raft) (a : Nat) (sk : Bool) :
    Res.Post (fun x => x.pendingRequestSnapshot = r.pendingRequestSnapshot)
      (r.commitApplyInternal a sk) := by
  unfold commitApplyInternal
  dsimp only
  split
  · trivial
  · trivial
  · rename_i log _
    split
    · have ha := appendEntry_ps ({ r with raftLog := log } : Raft) [{ etype := 2 }]
      split
      · rename_i r1 heq
        rw [heq] at ha
        exact Res.post_ok ha.1
      · trivial
      · trivial
      · trivial
    · exact Res.post_ok rfl

theorem Q.pend0 {r r' : Raft} (h : Q r r') (h0 : r.pendingRequestSnapshot = 0) :
    r'.pendingRequestSnapshot = 0 := by
  rcases h with h | ⟨h, _⟩
  · exact h
  · exact h.trans h0

theorem raftNew_pend (c : Config) (store : MemStorage) (rnd : Option Nat) (r : Raft)
    (h : Raft.new c store rnd = .ok (.ok r)) : r.pendingRequestSnapshot = 0 := by
  unfold Raft.new at h
  split at h
  · cases h
  · dsimp only at h
    split at h
    · cases h
    · cases h
    · rename_i log hnew
      split at h
      · cases h
      · rename_i prs _
        obtain ⟨⟨r1, cs1⟩, h1, h⟩ := Res.bind_eq_ok h
        have p1 : r1.pendingRequestSnapshot = 0 :=
          (post_fst_rq (postConfChange_q _) h1).pend0 rfl
        dsimp only at h
        split at h
        · cases h
        · obtain ⟨r2, h2, h⟩ := Res.bind_eq_ok h
          obtain ⟨r3, h3, h⟩ := Res.bind_eq_ok h
          cases h
          have p2 : r2.pendingRequestSnapshot = r1.pendingRequestSnapshot := by
            split at h2
            · unfold Raft.loadState at h2
              split at h2
              · cases h2
              · cases h2; rfl
            · cases h2; rfl
          have p3 : r3.pendingRequestSnapshot = r2.pendingRequestSnapshot := by
            split at h3
            · exact Res.Post.of_eq (P := fun x => x.pendingRequestSnapshot = r2.pendingRequestSnapshot)
                (commitApplyInternal_pend r2 _ _) h3
            · cases h3; rfl
          show r3.pendingRequestSnapshot = 0
          rw [p3, p2, p1]

/-- **a freshly booted node has no pending snapshot request** -/
theorem boot_pend (c : Config) (store : MemStorage) (rnd : Option Nat) (st : NState)
    (h : Node.boot c store rnd = .ok (.ok st)) : st.raft.pendingRequestSnapshot = 0 := by
  unfold Node.boot at h
  split at h
  · rename_i raft hn
    cases h
    unfold RawNode.new at hn
    split at hn
    · cases hn
    · exact raftNew_pend c store rnd raft hn
  · cases h
  · cases h
  · cases h

theorem boot_reqInv (c : Config) (store : MemStorage) (rnd : Option Nat) (st : NState)
    (h : Node.boot c store rnd = .ok (.ok st)) : ReqInv st :=
  fun hp => absurd (boot_pend c store rnd st h) hp

end RQ
end Raft
end RaftModel
