import RaftProofs.ClusterCommit5D

/-! Commit layer without `batch_append = false`, part E: `poll`, `campaign`, `hup`, the vote handlers (copy of `ClusterCommitI/J`). -/
namespace RaftModel
namespace Raft
namespace CB
open CC VoteOb

/-- replacing the tracker by one with the same matched table and the same voters -/
theorem Gb.setPrs {A : Nat → Nat → Nat → Prop} {a r : Raft} {m : Message} {p : ProgressTracker}
    (h0 : Gb A a m r) (hp : mfun p = mfun r.prs) (hv : p.voters = r.prs.voters) :
    Gb A a m { r with prs := p } := by
  refine ⟨h0.id, ⟨?_⟩, fun hs => ?_, ?_, ?_, h0.qvk, ?_⟩
  · show r.state = .leader → ∀ j x, mfun p j = some x → _
    rw [hp]; exact h0.mok.h
  · rcases h0.lc hs with g | g
    · exact .inl g
    · right
      unfold LCok at *
      show (∃ Q, IsJointQuorum p.voters Q ∧ ∀ v ∈ Q, ∃ x, mfun p v = some x ∧ _) ∧ _
      rw [hp, hv]; exact g
  · intro x hx hty
    exact (h0.qlk x hx hty).imp (fun g => g) (fun g => g.imp (fun g => ⟨g.lead, g.term, g.frm, g.app, g.hb⟩) (fun g => ⟨g.1, g.2.1, g.2.2⟩))
  · intro x hx hty
    exact (h0.qak x hx hty).imp (fun g => g) (fun g => ⟨g.term, g.frm, g.src⟩)
  · intro x hx hty
    exact (h0.qrq x hx hty).imp (fun g => g) (fun g => ⟨g.term, g.last, g.lt⟩)
/-- the vote-request loop of `campaign` -/
theorem sendVoteRequests_gb {A : Nat → Nat → Nat → Prop} {a r r' : Raft} {m : Message}
    {ct : CampaignType} {vm : MsgType} {term : Nat}
    (hvm : vm = .msgRequestVote ∨ vm = .msgRequestPreVote) (hterm : term ≠ 0)
    (hrq : vm = .msgRequestVote → term = r.term)
    (hpq : vm = .msgRequestPreVote → term = r.term + 1)
    (h : r.sendVoteRequests ct vm term = .ok r') (h0 : Gb A a m r) : Gb A a m r' := by
  obtain ⟨lt, c, cterm, hlt, hci, e⟩ := c02_sendVoteRequests_spec hvm hterm h
  have hci' : c = r.raftLog.committed ∧ r.raftLog.term c = .ok cterm := by
    unfold RaftLog.commitInfo at hci
    split at hci
    · rename_i t ht
      cases hci
      exact ⟨rfl, ht⟩
    · cases hci
    · cases hci
  have hnew : ∀ y ∈ (c02_voteTargets r).map (voteReq r vm ct term c cterm lt),
      y.msgType = vm ∧ y.term = term ∧ y.index = r.raftLog.lastIndex ∧ y.logTerm = lt ∧
      y.commit = c ∧ y.commitTerm = cterm := by
    intro y hy
    obtain ⟨to, _, rfl⟩ := List.mem_map.1 hy
    exact ⟨rfl, rfl, rfl, rfl, rfl, rfl⟩
  have hvm' : lkT vm = false ∧ vm ≠ .msgAppendResponse := by
    rcases hvm with g | g <;> rw [g] <;> exact ⟨rfl, by intro hc; cases hc⟩
  rw [e]
  refine ⟨h0.id, ⟨h0.mok.h⟩, h0.lc, ?_, ?_, ?_, ?_⟩
  · intro y hy hty
    rcases List.mem_append.1 hy with hy | hy
    · exact (h0.qlk y hy hty).imp (fun g => g) (fun g => g.imp (fun g => ⟨g.lead, g.term, g.frm, g.app, g.hb⟩) (fun g => ⟨g.1, g.2.1, g.2.2⟩))
    · rw [(hnew y hy).1, hvm'.1] at hty; cases hty
  · intro y hy hty
    rcases List.mem_append.1 hy with hy | hy
    · exact (h0.qak y hy hty).imp (fun g => g) (fun g => ⟨g.term, g.frm, g.src⟩)
    · exact absurd ((hnew y hy).1.symm.trans hty.1) hvm'.2
  · intro y hy hty
    rcases List.mem_append.1 hy with hy | hy
    · exact h0.qvk y hy hty
    · obtain ⟨f1, f2, _, _, f5, f6⟩ := hnew y hy
      right; right
      show y.commit ≤ r.raftLog.committed ∧ r.raftLog.term y.commit = .ok y.commitTerm ∧
        VT r.term y
      rw [f5, f6]
      refine ⟨Nat.le_of_eq hci'.1, hci'.2, fun hc => ?_, fun hc => ?_, fun hc => ?_⟩
      · rw [f2]; exact hpq (f1.symm.trans hc)
      · rw [f2]
        rcases hvm with g | g
        · exact hrq g
        · exact absurd (f1.trans g) hc
      · rw [f1] at hc
        rcases hvm with g | g <;> rw [g] at hc <;> rcases hc with c | c <;> cases c
  · intro y hy hty
    rcases List.mem_append.1 hy with hy | hy
    · exact (h0.qrq y hy hty).imp (fun g => g) (fun g => ⟨g.term, g.last, g.lt⟩)
    · obtain ⟨f1, f2, f3, f4, _, _⟩ := hnew y hy
      right
      exact ⟨f2.trans (hrq (f1.symm.trans hty)), f3, by rw [f4]; exact hlt⟩
/-- **`poll`**, entered with nothing queued and the commit index of the start -/
theorem pollWith_gb {A : Nat → Nat → Nat → Prop} {a r r' : Raft} {m : Message}
    {f : Raft → Res Raft} {frm : Nat} {t : MsgType} {v : Bool} {res : VoteResult}
    (hA : ∀ j t x y, y ≤ x → A j t x → A j t y)
    (hf : ∀ r0 r1, f r0 = .ok r1 → Gb A a m r0 → Old a r0 →
      r0.raftLog.committed = a.raftLog.committed → Gb A a m r1)
    (h : pollWith f r frm t v = .ok (r', res)) (h0 : Gb A a m r) (ho : Old a r)
    (hcm : r.raftLog.committed = a.raftLog.committed) :
    Gb A a m r' ∧ (res ≠ .won → Old a r' ∧ r'.raftLog.committed = a.raftLog.committed ∧
      r'.term = r.term) := by
  have g1 : Gb A a m (voted r frm v) :=
    h0.setPrs (mfun_recordVote _ _ _) (voters_recordVote _ _ _)
  have ho1 : Old a (voted r frm v) := ho
  obtain ⟨_, hc⟩ := c02_pollWith_cases h
  rcases hc with ⟨c1, _, c3⟩ | ⟨c1, _, c3⟩ | ⟨c1, c2⟩ | ⟨c1, c2⟩
  · exact ⟨hf _ _ c3 g1 ho1 hcm, fun hne => absurd c1 hne⟩
  · unfold wonBy at c3
    obtain ⟨r1, h1, h2⟩ := Res.bind_eq_ok c3
    obtain ⟨g2, _, _, g5⟩ := becomeLeader_gb h1 g1 ho1 hcm
    exact ⟨g2.sf hA (bcastAppend_sfb h2 SFb.rfl) (.inl g5), fun hne => absurd c1 hne⟩
  · rw [c2]
    refine ⟨becomeFollower_gb _ _ g1 ho1, fun _ => ⟨ho1.becomeFollower _ _, ?_, ?_⟩⟩
    · rw [becomeFollower_committed]; exact hcm
    · exact (becomeFollower_term_vote _ _ _).1
  · rw [c2]
    exact ⟨g1, fun _ => ⟨ho1, hcm, rfl⟩⟩
/-- the shape of what `poll` guarantees, as used by `campaign` -/
def PollOkb (A : Nat → Nat → Nat → Prop) (a : Raft) (m : Message)
    (poll : Raft → Nat → MsgType → Bool → Res (Raft × VoteResult)) : Prop :=
  ∀ r0 r1 frm t v res, poll r0 frm t v = .ok (r1, res) → Gb A a m r0 → Old a r0 →
    r0.raftLog.committed = a.raftLog.committed →
    Gb A a m r1 ∧ (res ≠ .won → Old a r1 ∧ r1.raftLog.committed = a.raftLog.committed ∧
      r1.term = r0.term)

theorem campaignWith_gb {A : Nat → Nat → Nat → Prop} {a r r' : Raft} {m : Message}
    {poll : Raft → Nat → MsgType → Bool → Res (Raft × VoteResult)} {ct : CampaignType}
    (hpoll : PollOkb A a m poll)
    (h : campaignWith poll r ct = .ok r') (h0 : Gb A a m r) (ho : Old a r)
    (hcm : r.raftLog.committed = a.raftLog.committed) : Gb A a m r' := by
  unfold Raft.campaignWith at h
  obtain ⟨⟨r1, vm, term⟩, hstart, h⟩ := Res.bind_eq_ok h
  simp only [] at h
  -- the state after the role change
  have hs1 : Gb A a m r1 ∧ Old a r1 ∧
      r1.raftLog.committed = a.raftLog.committed ∧ term ≠ 0 ∧
      (vm = .msgRequestVote ∨ vm = .msgRequestPreVote) ∧ (vm = .msgRequestVote → term = r1.term) ∧
      (vm = .msgRequestPreVote → term = r1.term + 1) := by
    split at hstart
    · obtain ⟨r2, h2, h3⟩ := Res.bind_eq_ok hstart
      obtain ⟨g1, g2⟩ := becomePreCandidate_gb h2 h0 ho
      have e : r2.batchAppend = r.batchAppend ∧ r2.raftLog = r.raftLog := by
        unfold Raft.becomePreCandidate at h2
        split at h2
        · cases h2
        · cases h2; exact ⟨rfl, rfl⟩
      split at h3
      · cases h3
      · cases h3
        exact ⟨g1, g2, by rw [e.2]; exact hcm, by omega, .inr rfl,
          (fun hc => by cases hc), (fun _ => rfl)⟩
    · obtain ⟨r2, h2, h3⟩ := Res.bind_eq_ok hstart
      cases h3
      obtain ⟨g1, g2⟩ := becomeCandidate_gb h2 h0 ho
      obtain ⟨hk, e1, _⟩ := c02_becomeCandidate_spec h2
      exact ⟨g1, g2, hk.log.committed.trans hcm,
        by rw [e1]; omega, .inl rfl, (fun _ => rfl), (fun hc => by cases hc)⟩
  obtain ⟨g1, o1, c1, t1, v1, q1, p1⟩ := hs1
  obtain ⟨⟨r3, res⟩, hp, h⟩ := Res.bind_eq_ok h
  obtain ⟨g3, hrest⟩ := hpoll _ _ _ _ _ _ hp g1 o1 c1
  simp only [] at h
  split at h
  · cases h; exact g3
  · rename_i hne
    obtain ⟨_, _, t3⟩ := hrest hne
    exact sendVoteRequests_gb v1 t1 (fun hv => (q1 hv).trans t3.symm)
      (fun hv => by rw [p1 hv, t3]) h g3

theorem pollWith_ok {A : Nat → Nat → Nat → Prop} {a : Raft} {m : Message} {f : Raft → Res Raft}
    (hA : ∀ j t x y, y ≤ x → A j t x → A j t y)
    (hf : ∀ r0 r1, f r0 = .ok r1 → Gb A a m r0 → Old a r0 →
      r0.raftLog.committed = a.raftLog.committed → Gb A a m r1) :
    PollOkb A a m (pollWith f) :=
  fun _ _ _ _ _ _ h h0 ho hcm => pollWith_gb hA hf h h0 ho hcm

theorem campaignAfterPreVote_gb {A : Nat → Nat → Nat → Prop} {a r r' : Raft} {m : Message}
    (hA : ∀ j t x y, y ≤ x → A j t x → A j t y)
    (h : r.campaignAfterPreVote = .ok r') (h0 : Gb A a m r) (ho : Old a r)
    (hcm : r.raftLog.committed = a.raftLog.committed) : Gb A a m r' := by
  unfold Raft.campaignAfterPreVote at h
  refine campaignWith_gb (pollWith_ok hA ?_) h h0 ho hcm
  intro r0 r1 hc
  cases hc

theorem poll_ok {A : Nat → Nat → Nat → Prop} {a : Raft} {m : Message}
    (hA : ∀ j t x y, y ≤ x → A j t x → A j t y) : PollOkb A a m Raft.poll := by
  unfold Raft.poll
  exact pollWith_ok hA (fun r0 r1 h h0 ho hcm => campaignAfterPreVote_gb hA h h0 ho hcm)

theorem campaign_gb {A : Nat → Nat → Nat → Prop} {a r r' : Raft} {m : Message} {ct : CampaignType}
    (hA : ∀ j t x y, y ≤ x → A j t x → A j t y)
    (h : r.campaign ct = .ok r') (h0 : Gb A a m r) (ho : Old a r)
    (hcm : r.raftLog.committed = a.raftLog.committed) : Gb A a m r' := by
  unfold Raft.campaign at h
  exact campaignWith_gb (poll_ok hA) h h0 ho hcm

theorem hup_gb {A : Nat → Nat → Nat → Prop} {a r r' : Raft} {m : Message} {tl : Bool}
    (hA : ∀ j t x y, y ≤ x → A j t x → A j t y)
    (h : r.hup tl = .ok r') (h0 : Gb A a m r) (ho : Old a r)
    (hcm : r.raftLog.committed = a.raftLog.committed) : Gb A a m r' := by
  unfold Raft.hup at h
  split at h
  · cases h; exact h0
  · split at h
    · cases h; exact h0
    · split at h
      · cases h
      · cases h
      · cases h; exact h0
      · split at h
        · cases h; exact h0
        · split at h
          · exact campaign_gb hA h h0 ho hcm
          · split at h
            · exact campaign_gb hA h h0 ho hcm
            · exact campaign_gb hA h h0 ho hcm


/-- `become_follower` at the same term, on a node that is not the leader: whatever was queued in this
call stays described by the new state -/
theorem becomeFollower_same_gb {A : Nat → Nat → Nat → Prop} {a r : Raft} {m : Message} (l : Nat)
    (h0 : Gb A a m r) (hs : r.state ≠ .leader) : Gb A a m (r.becomeFollower r.term l) := by
  have hst : (r.becomeFollower r.term l).state = .follower :=
    (RaftProps.C16.becomeFollower_proj r r.term l).1
  have hst' : (r.becomeFollower r.term l).state ≠ .leader := by rw [hst]; intro hc; cases hc
  have hms := becomeFollower_msgs r r.term l
  have hid := becomeFollower_id r r.term l
  have htm : (r.becomeFollower r.term l).term = r.term := (becomeFollower_term_vote r r.term l).1
  have hlog := becomeFollower_raftLog r r.term l
  refine ⟨hid.trans h0.id, ⟨fun h => absurd h hst'⟩, fun h => absurd h hst', ?_, ?_, ?_, ?_⟩
  · intro x hx hty
    rw [hms] at hx
    rcases h0.qlk x hx hty with g | g | g
    · exact .inl g
    · exact absurd g.lead hs
    · exact absurd g.1 hs
  · intro x hx hty
    rw [hms] at hx
    rcases h0.qak x hx hty with g | g
    · exact .inl g
    · right
      refine ⟨g.term.trans htm.symm, g.frm.trans hid.symm, ?_⟩
      rcases g.src with d | ⟨_, d2, d3, d4⟩
      · exact .inl d
      · right; rw [becomeFollower_committed]; exact ⟨hst, d2, d3, d4⟩
  · intro x hx hty
    rw [hms] at hx
    rcases h0.qvk x hx hty with g | g
    · exact .inl g
    · right
      unfold VkOK at *
      rw [becomeFollower_committed, hlog, (c04_log_limit_irrelevant _ _).1, htm]
      exact g
  · intro x hx hty
    rw [hms] at hx
    rcases h0.qrq x hx hty with g | g
    · exact .inl g
    · right
      refine ⟨g.term.trans htm.symm, ?_, ?_⟩
      · rw [hlog]; exact g.last
      · rw [hlog]; exact g.lt

theorem maybeCommitByVote_gb {A : Nat → Nat → Nat → Prop} {a r r' : Raft} {m mm : Message}
    (h : r.maybeCommitByVote mm = .ok r') (h0 : Gb A a m r) : Gb A a m r' := by
  unfold Raft.maybeCommitByVote at h
  split at h
  · cases h; exact h0
  · simp only at h
    split at h
    · cases h; exact h0
    · rename_i hnl
      have hs : r.state ≠ .leader := fun hc => hnl (.inr hc)
      split at h
      · cases h
      · cases h
      · cases h; exact h0
      · rename_i log hmc
        rcases RaftLog.c04_maybeCommit_spec hmc with ⟨_, hlt, _, _, hl⟩ | ⟨hb, _⟩
        · have g1 : Gb A a m ({ r with raftLog := log } : Raft) :=
            h0.commitUp rfl rfl rfl rfl rfl hl (Nat.le_of_lt hlt) (fun hc => absurd hc hs)
          split at h
          · cases h; exact g1
          · split at h
            · cases h
            · cases h
            · cases h; exact becomeFollower_same_gb 0 g1 hs
            · cases h; exact g1
        · cases hb

/-! ### the vote arm -/

theorem stepVote_gb {A : Nat → Nat → Nat → Prop} {a r r' : Raft} {m mm : Message}
    (h : r.stepVote mm = .ok r') (h0 : Gb A a m r) : Gb A a m r' := by
  unfold Raft.stepVote at h
  split at h
  · cases h
  · rename_i rt hrt
    have hty := voteResp_type hrt
    have hlk : lkT rt = false := by rcases hty with g | g <;> rw [g] <;> rfl
    have hiv : isVoteMsg rt = true := by rcases hty with g | g <;> rw [g] <;> rfl
    have hna : rt ≠ .msgAppendResponse := by rcases hty with g | g <;> rw [g] <;> (intro hc; cases hc)
    have hnr : rt ≠ .msgRequestVote := by rcases hty with g | g <;> rw [g] <;> (intro hc; cases hc)
    split at h
    · -- grant
      unfold Raft.stepVoteGrant at h
      split at h
      · rename_i r1 hs
        have g1 : Gb A a m r1 := by
          refine send_gb hs h0 hlk (fun hc => ?_) (fun _ => ?_) (fun hc => absurd hc hnr)
          · have := hc.1; rw [sendFill_msgType] at this; exact absurd this hna
          · left; exact (sendFill_vote r _ hiv).1
        split at h
        · cases h; exact Gb.mk' g1
        · cases h; exact g1
      · cases h
      · cases h
    · -- reject
      unfold Raft.stepVoteReject at h
      split at h
      · cases h
      · cases h
      · rename_i c cterm hci
        have hci' : c = r.raftLog.committed ∧ r.raftLog.term c = .ok cterm := by
          unfold RaftLog.commitInfo at hci
          split at hci
          · rename_i t ht
            cases hci
            exact ⟨rfl, ht⟩
          · cases hci
          · cases hci
        split at h
        · rename_i r1 hs
          have g1 : Gb A a m r1 := by
            refine send_gb hs h0 hlk (fun hc => ?_) (fun _ => ?_) (fun hc => absurd hc hnr)
            · have := hc.1; rw [sendFill_msgType] at this; exact absurd this hna
            · right
              obtain ⟨f1, f2, f3, f4⟩ := sendFill_vote r
                { msgType := rt, to := mm.frm, reject := true, term := r.term, commit := c,
                  commitTerm := cterm } hiv
              rw [f1, f2]
              refine ⟨Nat.le_of_eq hci'.1, hci'.2, fun hc => ?_, fun _ => f4, fun _ => f3⟩
              rw [sendFill_msgType] at hc
              rcases hty with g | g <;> rw [g] at hc <;> cases hc
          split at h
          · exact maybeCommitByVote_gb h g1
          · cases h; exact g1
        · cases h
        · cases h
    · cases h
    · cases h


end CB
end Raft
end RaftModel
