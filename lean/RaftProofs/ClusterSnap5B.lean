import RaftProps.C01g
import RaftProofs.ClusterSnap5X

/-!
Commit safety of `ClusterSem` with compaction, snapshots **and `request_snapshot`**, part 5B: the twelve
statements of `RaftProps/C01g2.lean` (namespace `RaftProps.C01g.Snapshots`) re-proved, word for word,
for the development `Snap5` (`Snap5.Hyp3a`: `reqok` in place of `noreq`).  `RaftProps/C01i.lean`
restates them under the final bundle.
-/
namespace RaftProps.C01i.Aux
open RaftModel RaftModel.Cluster RaftModel.Node RaftModel.Raft RaftModel.Raft.CC

/-- **the ghost logs**: in every state of a history, the logical log and the stored log of every node
have uncompacted versions `FL` / `FS` (`Snap.Full`), which hold the same entries up to the node's
snapshot point unless a snapshot is pending (restored, not yet installed in the storage); any two
uncompacted versions of one log hold the same entries. -/
theorem C01i_ghost_log (cfg : JointConfig) (c0 : Nat) (h : List Sys) (H : Snap5.Hyp3a cfg c0 h)
    (m : Nat) (s : Sys) (hm : h[m]? = some s) (v : Nat) (st : NState) (hv : s.node v = some st) :
    Snap.Full (Snap.HistChain h) c0 st.raft.raftLog.abs (Snap.FL h c0 st) ∧
    Snap.Full (Snap.HistChain h) c0 (storeLog st.raft.raftLog.store) (Snap.FS h c0 st) ∧
    (st.raft.raftLog.unstable.snapshot = none → ∀ k, k ≤ st.raft.raftLog.abs.snapIdx →
      (Snap.FL h c0 st).entryAt k = (Snap.FS h c0 st).entryAt k) ∧
    (∀ g F F', Snap.Full (Snap.HistChain h) c0 g F → Snap.Full (Snap.HistChain h) c0 g F' →
      ∀ k, F.entryAt k = F'.entryAt k) := by
  have I := (Snap5.ghost_inv H.toHyp2w m s hm).node v st hv
  exact ⟨I.log, I.sto, I.pre, fun g F F' h1 h2 => h1.uniq (Snap5.hist_agree H.toHyp2w) h2⟩

/-- **C04 `cluster_leader_commit_rule`** with compaction and snapshots — the commit rule with **durable
acknowledgements**: whenever a step `h[n] → h[n+1]` takes the commit index of a node `l` that is leader
of term `t` after the step from `c` to `c' > c`, the entry at `c'` in its log carries term `t`, and
there is a joint quorum `Q` of `cfg` such that every `j ∈ Q` is

* `l` itself, with `persisted ≥ c'` — and its storage holds its log up to `c'`; or
* the sender of an accepting `MsgAppendResponse` `x` for term `t` with `index ≥ c'` that is in the
  transport before the step, **and in every state of the history whose transport holds `x` the
  storage of `j` reaches `c'` and holds `l`'s log up to `c'`** — the uncompacted versions are equal up
  to `c'`, hence so are the logs at every index both still retain. -/
theorem C04_cluster_leader_commit_rule (cfg : JointConfig) (c0 : Nat) (h : List Sys)
    (H : Snap5.Hyp3a cfg c0 h)
    (n : Nat) (a b : Sys) (ha : h[n]? = some a) (hb : h[n + 1]? = some b)
    (l : Nat) (sta stb : NState) (hla : a.node l = some sta) (hlb : b.node l = some stb)
    (t : Nat) (hs : stb.raft.state = .leader) (ht : stb.raft.term = t)
    (hc : sta.raft.raftLog.committed < stb.raft.raftLog.committed) :
    stb.raft.raftLog.term stb.raft.raftLog.committed = .ok t ∧
    ∃ Q, IsJointQuorum cfg Q ∧ ∀ j ∈ Q,
      (j = l ∧ stb.raft.raftLog.committed ≤ stb.raft.raftLog.persisted ∧
        ∀ k, k ≤ stb.raft.raftLog.committed →
          (storeLog stb.raft.raftLog.store).entryAt k = stb.raft.raftLog.abs.entryAt k) ∨
      ∃ x ∈ a.net, x.msgType = .msgAppendResponse ∧ x.reject = false ∧ x.frm = j ∧ x.term = t ∧
        stb.raft.raftLog.committed ≤ x.index ∧
        ∀ (m : Nat) (s : Sys) (stj : NState), h[m]? = some s → x ∈ s.net → s.node j = some stj →
          stb.raft.raftLog.committed ≤ (storeLog stj.raft.raftLog.store).lastIndex ∧
          (∀ k, k ≤ stb.raft.raftLog.committed →
            (Snap.FS h c0 stj).entryAt k = (Snap.FL h c0 stb).entryAt k) ∧
          ∀ k, k ≤ stb.raft.raftLog.committed →
            (storeLog stj.raft.raftLog.store).snapIdx < k → stb.raft.raftLog.abs.snapIdx < k →
            (storeLog stj.raft.raftLog.store).entryAt k = stb.raft.raftLog.abs.entryAt k := by
  have H2 := H.toHyp2w
  obtain ⟨h1, Q, hQ, hq⟩ := H2.toHyp.commit_step n a b ha hb l sta stb hla hlb hs hc
  subst ht
  have hE := RaftProps.C01g.ev_of_step ha hb hla hlb hs hc
  obtain ⟨_, hEh, hc0⟩ := Snap5.Ev.leaderLog H2 hE
  have ob := Snap5.node_ok H2 hb hlb
  have Ib := (Snap5.ghost_inv H2 (n + 1) b hb).node l stb hlb
  refine ⟨h1, Q, hQ, fun j hj => ?_⟩
  rcases hq j hj with ⟨g1, g2⟩ | ⟨x, hx, hack, hfrm, hterm, hidx⟩
  · exact .inl ⟨g1, g2, fun k hk => (ob.inv.abs_store_persisted
      (Snap5.commit_step_pend H2 ha hb hla hlb hs hc) (by omega)).symm⟩
  · right
    have hx0 : x.index ≠ 0 := by
      have : c0 < stb.raft.raftLog.committed := hc0
      omega
    have hterm' : x.term = stb.raft.term := by
      rcases hterm with d | d
      · exact d
      · exact absurd d ((Snap5.ack_inv H2 n a ha).2 x hx hack hx0).2
    refine ⟨x, hx, hack.1, hack.2, hfrm, hterm', hidx, fun m s stj hm hxs hj => ?_⟩
    have hh := (Snap5.sm_all H hm).rets _ hE j stj hj (.inl ⟨x, hxs, hack, hfrm, hterm', hidx⟩)
    have Ij := (Snap5.ghost_inv H2 m s hm).node j stj hj
    obtain ⟨e1, he1, ht1⟩ := hh
    obtain ⟨e2, he2, ht2⟩ := hEh
    have heq := Snap5.full_eq_below H2 Ij.sto Ib.log he1 he2 (ht1.trans ht2.symm)
    refine ⟨?_, heq, fun k hk hk1 hk2 => ?_⟩
    · rw [← Ij.sto.last]; exact ((Snap.FS h c0 stj).entryAt_lt he1).2
    · rw [← Ij.sto.ents k hk1, ← Ib.log.ents k hk2]; exact heq k hk

/-- **C03 `cluster_leader_completeness`** with compaction and snapshots — every entry a leader has committed is in
the log of every leader of a later term: if a step `h[n] → h[n+1]` takes the commit index of `l`, leader
of term `t` after the step, to `c'`, then the log of any node that leads a term `t' > t` in any state
`h[m]` of the history reaches `c'` and holds, at every index up to `c'`, the entry `l` held there — in
the uncompacted versions, hence wherever both logs retain the index. -/
theorem C03_cluster_leader_completeness (cfg : JointConfig) (c0 : Nat) (h : List Sys)
    (H : Snap5.Hyp3a cfg c0 h)
    (n : Nat) (a b : Sys) (ha : h[n]? = some a) (hb : h[n + 1]? = some b)
    (l : Nat) (sta stb : NState) (hla : a.node l = some sta) (hlb : b.node l = some stb)
    (hs : stb.raft.state = .leader)
    (hc : sta.raft.raftLog.committed < stb.raft.raftLog.committed)
    (m : Nat) (s : Sys) (hm : h[m]? = some s) (l' : Nat) (st' : NState)
    (hl' : s.node l' = some st') (hs' : st'.raft.state = .leader)
    (ht : stb.raft.term < st'.raft.term) :
    stb.raft.raftLog.committed ≤ st'.raft.raftLog.abs.lastIndex ∧
    (∀ k, k ≤ stb.raft.raftLog.committed →
      (Snap.FL h c0 st').entryAt k = (Snap.FL h c0 stb).entryAt k) ∧
    ∀ k, k ≤ stb.raft.raftLog.committed →
      st'.raft.raftLog.abs.snapIdx < k → stb.raft.raftLog.abs.snapIdx < k →
      st'.raft.raftLog.abs.entryAt k = stb.raft.raftLog.abs.entryAt k := by
  have H2 := H.toHyp2w
  have hE := RaftProps.C01g.ev_of_step ha hb hla hlb hs hc
  obtain ⟨_, hEh, _⟩ := Snap5.Ev.leaderLog H2 hE
  have hh := (Snap5.sm_all H hm).lc _ hE l' st' hl' hs' ht
  have I' := (Snap5.ghost_inv H2 m s hm).node l' st' hl'
  have Ib := (Snap5.ghost_inv H2 (n + 1) b hb).node l stb hlb
  obtain ⟨e1, he1, ht1⟩ := hh
  obtain ⟨e2, he2, ht2⟩ := hEh
  have heq := Snap5.full_eq_below H2 I'.log Ib.log he1 he2 (ht1.trans ht2.symm)
  refine ⟨?_, heq, fun k hk hk1 hk2 => ?_⟩
  · rw [← I'.log.last]; exact ((Snap.FL h c0 st').entryAt_lt he1).2
  · rw [← I'.log.ents k hk1, ← Ib.log.ents k hk2]; exact heq k hk

/-- **C04 `cluster_follower_commit_sound`** with compaction and snapshots — *every* commit index is sound: in every
state `h[m]`, what a node `v` has marked committed is at most the common initial snapshot point `c0`,
or it was committed by a leader: there is an earlier step `h[n] → h[n+1]` (`n < m`) that took the commit
index of a node `l`, leader of a term `t ≤ term(v)` after the step, to some `c' ≥ committed(v)`, and the
log of `v` equals the log `l` had then up to `committed(v)` — in the uncompacted versions, hence
wherever both retain the index. -/
theorem C04_cluster_follower_commit_sound (cfg : JointConfig) (c0 : Nat) (h : List Sys)
    (H : Snap5.Hyp3a cfg c0 h) (m : Nat) (s : Sys) (hm : h[m]? = some s) (v : Nat) (st : NState)
    (hv : s.node v = some st) :
    st.raft.raftLog.committed ≤ c0 ∨
    ∃ (n : Nat) (a b : Sys) (l : Nat) (sta stb : NState), n < m ∧ h[n]? = some a ∧
      h[n + 1]? = some b ∧ a.node l = some sta ∧ b.node l = some stb ∧
      stb.raft.state = .leader ∧ sta.raft.raftLog.committed < stb.raft.raftLog.committed ∧
      st.raft.raftLog.committed ≤ stb.raft.raftLog.committed ∧ stb.raft.term ≤ st.raft.term ∧
      (∀ k, k ≤ st.raft.raftLog.committed →
        (Snap.FL h c0 st).entryAt k = (Snap.FL h c0 stb).entryAt k) ∧
      ∀ k, k ≤ st.raft.raftLog.committed →
        st.raft.raftLog.abs.snapIdx < k → stb.raft.raftLog.abs.snapIdx < k →
        st.raft.raftLog.abs.entryAt k = stb.raft.raftLog.abs.entryAt k := by
  have H2 := H.toHyp2w
  rcases (Snap5.sm_all H hm).nctm v st hv with c | ⟨E, hE, h2, h3, h4, h5⟩
  · exact .inl c
  · right
    obtain ⟨a, b, sta, stb, ha, hb, hla, hlb, hs, ht, e1, e2, hev, _, hc, _⟩ := Snap5.Ev.facts H2 hE
    have I := (Snap5.ghost_inv H2 m s hm).node v st hv
    have Ib := (Snap5.ghost_inv H2 (E.nE + 1) b hb).node E.l stb hlb
    have hg : ∀ k, k ≤ st.raft.raftLog.committed →
        (Snap.FL h c0 st).entryAt k = (Snap.FL h c0 stb).entryAt k := by
      intro k hk; rw [← hev]; exact h5 k hk
    exact ⟨E.nE, a, b, E.l, sta, stb, h2, ha, hb, hla, hlb, hs, by rw [← e1]; exact hc,
      by rw [← e1]; exact h3, by rw [ht]; exact h4, hg,
      fun k hk hk1 hk2 => by rw [← I.log.ents k hk1, ← Ib.log.ents k hk2]; exact hg k hk⟩

/-- … and so is every **stored** commit index (what a restarted node starts from): it is not ahead of
the commit index, and it is covered by a leader's commit of a term not above the stored term, with the
stored entries. -/
theorem C04_cluster_stored_commit_sound (cfg : JointConfig) (c0 : Nat) (h : List Sys)
    (H : Snap5.Hyp3a cfg c0 h) (m : Nat) (s : Sys) (hm : h[m]? = some s) (v : Nat) (st : NState)
    (hv : s.node v = some st) :
    st.raft.raftLog.store.hardState.commit ≤ st.raft.raftLog.committed ∧
    (st.raft.raftLog.store.hardState.commit ≤ c0 ∨
     ∃ (n : Nat) (a b : Sys) (l : Nat) (sta stb : NState), n < m ∧ h[n]? = some a ∧
      h[n + 1]? = some b ∧ a.node l = some sta ∧ b.node l = some stb ∧
      stb.raft.state = .leader ∧ sta.raft.raftLog.committed < stb.raft.raftLog.committed ∧
      st.raft.raftLog.store.hardState.commit ≤ stb.raft.raftLog.committed ∧
      stb.raft.term ≤ st.raft.raftLog.store.hardState.term ∧
      (∀ k, k ≤ st.raft.raftLog.store.hardState.commit →
        (Snap.FS h c0 st).entryAt k = (Snap.FL h c0 stb).entryAt k) ∧
      ∀ k, k ≤ st.raft.raftLog.store.hardState.commit →
        (storeLog st.raft.raftLog.store).snapIdx < k → stb.raft.raftLog.abs.snapIdx < k →
        (storeLog st.raft.raftLog.store).entryAt k = stb.raft.raftLog.abs.entryAt k) := by
  have H2 := H.toHyp2w
  refine ⟨(Snap5.sm_all H hm).scm v st hv, ?_⟩
  rcases (Snap5.sm_all H hm).ncts v st hv with c | ⟨E, hE, h2, h3, h4, h5⟩
  · exact .inl c
  · right
    obtain ⟨a, b, sta, stb, ha, hb, hla, hlb, hs, ht, e1, e2, hev, _, hc, _⟩ := Snap5.Ev.facts H2 hE
    have I := (Snap5.ghost_inv H2 m s hm).node v st hv
    have Ib := (Snap5.ghost_inv H2 (E.nE + 1) b hb).node E.l stb hlb
    have hg : ∀ k, k ≤ st.raft.raftLog.store.hardState.commit →
        (Snap.FS h c0 st).entryAt k = (Snap.FL h c0 stb).entryAt k := by
      intro k hk; rw [← hev]; exact h5 k hk
    exact ⟨E.nE, a, b, E.l, sta, stb, h2, ha, hb, hla, hlb, hs, by rw [← e1]; exact hc,
      by rw [← e1]; exact h3, by rw [ht]; exact h4, hg,
      fun k hk hk1 hk2 => by rw [← I.sto.ents k hk1, ← Ib.log.ents k hk2]; exact hg k hk⟩

/-- **C01 `cluster_state_machine_safety`, ghost form** — the uncompacted logs of any two nodes, in any
two states of the history (the same node before and after a restart or a compaction included), hold the
same entry at every index both have marked committed. -/
theorem C01_cluster_state_machine_safety_ghost (cfg : JointConfig) (c0 : Nat) (h : List Sys)
    (H : Snap5.Hyp3a cfg c0 h)
    (m1 : Nat) (s1 : Sys) (hm1 : h[m1]? = some s1) (v1 : Nat) (st1 : NState)
    (hv1 : s1.node v1 = some st1)
    (m2 : Nat) (s2 : Sys) (hm2 : h[m2]? = some s2) (v2 : Nat) (st2 : NState)
    (hv2 : s2.node v2 = some st2)
    (k : Nat) (hk1 : k ≤ st1.raft.raftLog.committed) (hk2 : k ≤ st2.raft.raftLog.committed) :
    (Snap.FL h c0 st1).entryAt k = (Snap.FL h c0 st2).entryAt k :=
  Snap5.sms_ghost H hm1 hv1 hm2 hv2 hk1 hk2

/-- **C01 `cluster_state_machine_safety`** with compaction and snapshots — any two nodes, in any two
states of the history (the same node before and after a restart or a compaction included), hold the same entry at
every index both have marked committed **and both still retain** (`snapIdx < k`; a compacted log
answers `none` below its snapshot point). -/
theorem C01_cluster_state_machine_safety (cfg : JointConfig) (c0 : Nat) (h : List Sys)
    (H : Snap5.Hyp3a cfg c0 h)
    (m1 : Nat) (s1 : Sys) (hm1 : h[m1]? = some s1) (v1 : Nat) (st1 : NState)
    (hv1 : s1.node v1 = some st1)
    (m2 : Nat) (s2 : Sys) (hm2 : h[m2]? = some s2) (v2 : Nat) (st2 : NState)
    (hv2 : s2.node v2 = some st2)
    (k : Nat) (hk1 : k ≤ st1.raft.raftLog.committed) (hk2 : k ≤ st2.raft.raftLog.committed)
    (hr1 : st1.raft.raftLog.abs.snapIdx < k) (hr2 : st2.raft.raftLog.abs.snapIdx < k) :
    st1.raft.raftLog.abs.entryAt k = st2.raft.raftLog.abs.entryAt k := by
  have I1 := (Snap5.ghost_inv H.toHyp2w m1 s1 hm1).node v1 st1 hv1
  have I2 := (Snap5.ghost_inv H.toHyp2w m2 s2 hm2).node v2 st2 hv2
  rw [← I1.log.ents k hr1, ← I2.log.ents k hr2]
  exact Snap5.sms_ghost H hm1 hv1 hm2 hv2 hk1 hk2

/-- … in particular for the **applied** entries of two nodes whose applied index is within their
commit index (`AppliedOk`, which holds outside the restart window — `raft_log.rs:44-46`). -/
theorem C01_cluster_state_machine_safety_applied (cfg : JointConfig) (c0 : Nat) (h : List Sys)
    (H : Snap5.Hyp3a cfg c0 h)
    (m1 : Nat) (s1 : Sys) (hm1 : h[m1]? = some s1) (v1 : Nat) (st1 : NState)
    (hv1 : s1.node v1 = some st1) (ha1 : st1.raft.raftLog.AppliedOk)
    (m2 : Nat) (s2 : Sys) (hm2 : h[m2]? = some s2) (v2 : Nat) (st2 : NState)
    (hv2 : s2.node v2 = some st2) (ha2 : st2.raft.raftLog.AppliedOk)
    (k : Nat) (hk1 : k ≤ st1.raft.raftLog.applied) (hk2 : k ≤ st2.raft.raftLog.applied)
    (hr1 : st1.raft.raftLog.abs.snapIdx < k) (hr2 : st2.raft.raftLog.abs.snapIdx < k) :
    st1.raft.raftLog.abs.entryAt k = st2.raft.raftLog.abs.entryAt k :=
  C01_cluster_state_machine_safety cfg c0 h H m1 s1 hm1 v1 st1 hv1 m2 s2 hm2 v2 st2 hv2 k
    (Nat.le_trans hk1 ha1) (Nat.le_trans hk2 ha2) hr1 hr2

/-- **a compacted prefix is a committed prefix** (`C15`-style, for compaction points): in every state,
the snapshot point of every node — of its logical log and of its storage, which coincide unless a
snapshot is pending — is not below the common initial snapshot point `c0` and not above the node's
commit index; and every other
node, in any state, whose commit index reaches an index `k` up to that snapshot point holds, in its
uncompacted log, exactly the entry the compacting node's uncompacted log holds at `k`. -/
theorem C01_cluster_compacted_prefix_committed (cfg : JointConfig) (c0 : Nat) (h : List Sys)
    (H : Snap5.Hyp3a cfg c0 h)
    (m1 : Nat) (s1 : Sys) (hm1 : h[m1]? = some s1) (v1 : Nat) (st1 : NState)
    (hv1 : s1.node v1 = some st1) :
    c0 ≤ st1.raft.raftLog.abs.snapIdx ∧
    (st1.raft.raftLog.unstable.snapshot = none →
      (storeLog st1.raft.raftLog.store).snapIdx = st1.raft.raftLog.abs.snapIdx) ∧
    st1.raft.raftLog.abs.snapIdx ≤ st1.raft.raftLog.committed ∧
    ∀ (m2 : Nat) (s2 : Sys) (v2 : Nat) (st2 : NState), h[m2]? = some s2 → s2.node v2 = some st2 →
      ∀ k, k ≤ st1.raft.raftLog.abs.snapIdx → k ≤ st2.raft.raftLog.committed →
        (Snap.FL h c0 st1).entryAt k = (Snap.FL h c0 st2).entryAt k := by
  have H2 := H.toHyp2w
  have o := Snap5.node_ok H2 hm1 hv1
  refine ⟨Snap5.c0_le_snap H2 hm1 hv1, o.sidx, o.snap_le, fun m2 s2 v2 st2 hm2 hv2 k hk1 hk2 => ?_⟩
  exact Snap5.sms_ghost H hm1 hv1 hm2 hv2 (Nat.le_trans hk1 o.snap_le) hk2

/-- **a released snapshot is a committed prefix**: every `MsgSnapshot` `x` in the transport of a state
`h[m]` names an index `i > c0` and a term `t` such that there is an earlier step `h[n] → h[n+1]`
(`n < m`) that took the commit index of a node `l`, leader of a term `≤ x.term` after the step, to some
`c' ≥ i`, and the uncompacted log of `l` after that step holds an entry of term `t` at `i` — in its real
log, if that still retains `i`. -/
theorem C01_cluster_snapshot_committed_prefix (cfg : JointConfig) (c0 : Nat) (h : List Sys)
    (H : Snap5.Hyp3a cfg c0 h) (m : Nat) (s : Sys) (hm : h[m]? = some s) (x : Message)
    (hx : x ∈ s.net) (hty : x.msgType = .msgSnapshot) :
    c0 < x.snapshot.metadata.index ∧
    ∃ (n : Nat) (a b : Sys) (l : Nat) (sta stb : NState), n < m ∧ h[n]? = some a ∧
      h[n + 1]? = some b ∧ a.node l = some sta ∧ b.node l = some stb ∧
      stb.raft.state = .leader ∧ sta.raft.raftLog.committed < stb.raft.raftLog.committed ∧
      x.snapshot.metadata.index ≤ stb.raft.raftLog.committed ∧ stb.raft.term ≤ x.term ∧
      Has (Snap.FL h c0 stb) x.snapshot.metadata.index x.snapshot.metadata.term ∧
      (stb.raft.raftLog.abs.snapIdx < x.snapshot.metadata.index →
        Has stb.raft.raftLog.abs x.snapshot.metadata.index x.snapshot.metadata.term) := by
  have H2 := H.toHyp2w
  obtain ⟨hi, E, hE, h2, h3, h4, hh⟩ := Snap5.snap_msg_committed H hm hx hty
  obtain ⟨a, b, sta, stb, ha, hb, hla, hlb, hs, ht, e1, e2, hev, _, hc, _⟩ := Snap5.Ev.facts H2 hE
  rw [hev] at hh
  exact ⟨hi, E.nE, a, b, E.l, sta, stb, h2, ha, hb, hla, hlb, hs, by rw [← e1]; exact hc,
    by rw [← e1]; exact h3, by rw [ht]; exact h4, hh, (Snap5.has_real H2 hb hlb hh).1⟩

/-- **snapshot-point term agreement**: if the log of a node `v1` (in any state) starts at a snapshot
point `i > c0` whose term `t` it knows — after it restored a snapshot (pending or installed), or after
a restart —, then `i` is within `v1`'s commit index, and every node `v2`, in any state, whose commit
index reaches `i` holds an entry of term `t` at `i` in its uncompacted log: in its real log if that
retains `i`, and as the term of its own snapshot point if that is `i` and it knows the term.  (With
`C01_cluster_state_machine_safety_ghost`: the prefix a snapshot stands for is the committed prefix of
every node.) -/
theorem C01_cluster_snapshot_point_agreement (cfg : JointConfig) (c0 : Nat) (h : List Sys)
    (H : Snap5.Hyp3a cfg c0 h)
    (m1 : Nat) (s1 : Sys) (hm1 : h[m1]? = some s1) (v1 : Nat) (st1 : NState)
    (hv1 : s1.node v1 = some st1) (t : Nat) (ht : st1.raft.raftLog.abs.snapTerm = some t)
    (hi : c0 < st1.raft.raftLog.abs.snapIdx) :
    st1.raft.raftLog.abs.snapIdx ≤ st1.raft.raftLog.committed ∧
    ∀ (m2 : Nat) (s2 : Sys) (v2 : Nat) (st2 : NState), h[m2]? = some s2 → s2.node v2 = some st2 →
      st1.raft.raftLog.abs.snapIdx ≤ st2.raft.raftLog.committed →
      Has (Snap.FL h c0 st2) st1.raft.raftLog.abs.snapIdx t ∧
      (st2.raft.raftLog.abs.snapIdx < st1.raft.raftLog.abs.snapIdx →
        Has st2.raft.raftLog.abs st1.raft.raftLog.abs.snapIdx t) ∧
      (st2.raft.raftLog.abs.snapIdx = st1.raft.raftLog.abs.snapIdx →
        ∀ t', st2.raft.raftLog.abs.snapTerm = some t' → t' = t) := by
  have H2 := H.toHyp2w
  refine ⟨(Snap5.node_ok H2 hm1 hv1).snap_le, fun m2 s2 v2 st2 hm2 hv2 hk => ?_⟩
  have hh := Snap5.snap_point_agree H hm1 hv1 ht hi hm2 hv2 hk
  obtain ⟨r1, r2⟩ := Snap5.has_real H2 hm2 hv2 hh
  exact ⟨hh, r1, fun heq => r2 heq hi⟩

/-- **a restored snapshot never drops a committed entry, and installs a committed prefix**: in every
state, a node with a pending snapshot `sn` (restored from a `MsgSnapshot`, not yet installed in its
storage) has commit index `sn.index > c0`, an empty unstable log, and nothing persisted beyond
`sn.index`; and its stored commit index never exceeds its commit index. -/
theorem C01_cluster_pending_snapshot (cfg : JointConfig) (c0 : Nat) (h : List Sys)
    (H : Snap5.Hyp3a cfg c0 h) (m : Nat) (s : Sys) (hm : h[m]? = some s) (v : Nat) (st : NState)
    (hv : s.node v = some st) (sn : Snapshot) (hp : st.raft.raftLog.unstable.snapshot = some sn) :
    st.raft.raftLog.unstable.entries = [] ∧ st.raft.raftLog.committed = sn.metadata.index ∧
    c0 < sn.metadata.index ∧ st.raft.raftLog.persisted ≤ sn.metadata.index ∧
    st.raft.raftLog.store.hardState.commit ≤ st.raft.raftLog.committed :=
  have hk := Snap5.pend_ok H m s hm v st sn hv hp
  ⟨hk.1, hk.2.1, hk.2.2.1, hk.2.2.2, (Snap5.sm_all H hm).scm v st hv⟩

end RaftProps.C01i.Aux
