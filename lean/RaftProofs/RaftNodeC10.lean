import RaftProofs.RaftNode
import RaftProofs.Inflights

/-!
Helper lemmas for C10 (`RaftProps/C10.lean`): what `free_first_one` does to a window that satisfies
the ring invariant; `get`/`set` on the progress map; and what the sending path
(`maybe_send_append` and everything it calls) can and cannot do to a `Progress` and to the node.
-/
namespace RaftModel.Inflights

theorem full_count_pos (s : Inflights) (h : Inv s) (hf : s.full = true)
    (hc : 0 < s.cap) : 0 < s.count := by
  unfold full at hf
  cases hi : s.incomingCap with
  | none => simp [hi] at hf; omega
  | some c => exact (h.pend c hi).1

theorem abs_count (s : Inflights) : s.abs.items.length = s.count := by simp [abs]

theorem drained_items (f : Fifo) : f.drained.items = f.items := by
  unfold Fifo.drained; split <;> simp_all

/-- `free_first_one` on a non-empty window: no panic, invariant kept, strictly fewer in flight -/
theorem freeFirstOne_count_lt (s : Inflights) (h : Inv s) (hc : 0 < s.count) :
    ∃ s', s.freeFirstOne = .ok s' ∧ Inv s' ∧ s'.count < s.count := by
  obtain ⟨s', e, i, a⟩ := freeFirstOne_refines s h
  refine ⟨s', e, i, ?_⟩
  have hl := congrArg (fun f => f.items.length) a
  simp only [abs_count] at hl
  rw [hl]
  cases hit : s.abs.items with
  | nil => have := abs_count s; rw [hit] at this; simp at this; omega
  | cons b l =>
    have hcnt : s.count = l.length + 1 := by rw [← abs_count s, hit]; rfl
    simp only [Fifo.freeFirstOne, hit, Fifo.freeTo, drained_items, List.dropWhile_cons,
      Nat.le_refl, decide_true, if_true]
    have := (List.dropWhile_sublist (fun b_1 => decide (b_1 ≤ b)) (l := l)).length_le
    omega

theorem dropWhile_all_false {α} (p : α → Bool) (l : List α) (h : ∀ x ∈ l, p x = false) :
    l.dropWhile p = l := by
  cases l with
  | nil => rfl
  | cons a l => simp [h a (by simp)]

/-- for the strictly increasing windows the leader builds, exactly one slot is freed -/
theorem freeFirstOne_count_exact (s : Inflights) (h : Inv s) (hc : 0 < s.count)
    (hinc : s.contents.Pairwise (· < ·)) :
    ∃ s', s.freeFirstOne = .ok s' ∧ Inv s' ∧ s'.count + 1 = s.count ∧
      s'.contents = s.contents.tail := by
  obtain ⟨s', e, i, a⟩ := freeFirstOne_refines s h
  refine ⟨s', e, i, ?_⟩
  rw [← items_eq_contents s h] at hinc
  rw [← items_eq_contents s h, ← items_eq_contents s' i]
  have hit' : s'.items = s'.abs.items := rfl
  have hit0 : s.items = s.abs.items := rfl
  rw [hit', a, ← items_length s', hit', a]
  cases hit : s.abs.items with
  | nil => have := abs_count s; rw [hit] at this; simp at this; omega
  | cons b l =>
    have hcnt : s.count = l.length + 1 := by rw [← abs_count s, hit]; rfl
    rw [hit0, hit, List.pairwise_cons] at hinc
    have hd : l.dropWhile (fun x => decide (x ≤ b)) = l :=
      dropWhile_all_false _ l (by intro x hx; have := hinc.1 x hx; simp; omega)
    simp only [Fifo.freeFirstOne, hit, Fifo.freeTo, drained_items, List.dropWhile_cons,
      Nat.le_refl, decide_true, if_true, hd, hit0, List.tail_cons]
    exact ⟨by omega, trivial⟩

/-- without a pending capacity reduction, freeing the first slot of a non-empty window leaves it
not full -/
theorem freeFirstOne_not_full (s : Inflights) (hs : Inv s) (hc : 0 < s.count)
    (hp : s.incomingCap = none) :
    ∃ s', s.freeFirstOne = .ok s' ∧ Inv s' ∧ s'.count < s.count ∧ s'.full = false := by
  obtain ⟨s', e, i, hlt⟩ := freeFirstOne_count_lt s hs hc
  obtain ⟨s'', e', _, a⟩ := freeFirstOne_refines s hs
  rw [e] at e'; cases e'
  refine ⟨s', e, i, hlt, ?_⟩
  have hcl := hs.count_le
  have hcap' : s'.cap = s.cap ∧ s'.incomingCap = none := by
    have h1 := congrArg Fifo.cap a
    have h2 := congrArg Fifo.pending a
    simp only [abs] at h1 h2
    revert h1 h2
    simp only [Fifo.freeFirstOne, Fifo.freeTo, Fifo.drained, hp]
    split <;> (try split) <;> simp_all
  simp [full, hcap'.1, hcap'.2]; omega
end RaftModel.Inflights

namespace RaftModel

theorem NatMap.lookup_modify_self {α : Type} (k : Nat) (f : α → α) (m : List (Nat × α)) :
    (NatMap.modify k f m).lookup k = (m.lookup k).map f := by
  induction m with
  | nil => rfl
  | cons a m ih =>
    obtain ⟨k', v⟩ := a
    by_cases h : k' = k
    · subst h; simp [NatMap.modify]
    · have h2 : (k == k') = false := by simp; omega
      simp only [NatMap.modify, List.map_cons, h, if_false, List.lookup_cons, h2]
      exact ih

theorem NatMap.lookup_modify_ne {α : Type} (k j : Nat) (hj : j ≠ k) (f : α → α)
    (m : List (Nat × α)) : (NatMap.modify k f m).lookup j = m.lookup j := by
  induction m with
  | nil => rfl
  | cons a m ih =>
    obtain ⟨k', v⟩ := a
    by_cases h : k' = k
    · subst h
      have h2 : (j == k') = false := by simp; omega
      simp only [NatMap.modify, List.map_cons, if_true, List.lookup_cons, h2]
      exact ih
    · simp only [NatMap.modify, List.map_cons, h, if_false, List.lookup_cons]
      split
      · rfl
      · exact ih

theorem NatMap.keys_modify {α : Type} (k : Nat) (f : α → α) (m : List (Nat × α)) :
    (NatMap.modify k f m).map (·.1) = m.map (·.1) := by
  induction m with
  | nil => rfl
  | cons a m ih =>
    simp only [NatMap.modify, List.map_cons] at ih ⊢
    rw [ih]; split <;> rfl

namespace ProgressTracker
theorem get_set_self (t : ProgressTracker) (id : Nat) (p q : Progress) (h : t.get id = some q) :
    (t.set id p).get id = some p := by
  simp only [get, set] at *
  rw [NatMap.lookup_modify_self, h]; rfl

theorem get_set_ne (t : ProgressTracker) (id j : Nat) (p : Progress) (h : j ≠ id) :
    (t.set id p).get j = t.get j := by
  simp only [get, set]
  exact NatMap.lookup_modify_ne id j h _ _

theorem keys_set (t : ProgressTracker) (id : Nat) (p : Progress) :
    (t.set id p).progress.map (·.1) = t.progress.map (·.1) := by
  simp only [set]; exact NatMap.keys_modify _ _ _
end ProgressTracker

/-- what the sending path (`update_state`, `become_snapshot`) and `update_committed` may do to a
`Progress`: `matched` is kept, the state is kept or becomes `Snapshot`, and a progress already in
`Snapshot` keeps its pending snapshot index -/
def SendRel (p p' : Progress) : Prop :=
  p'.matched = p.matched ∧ (p'.state = p.state ∨ p'.state = .snapshot) ∧
  (p.state = .snapshot → p'.pendingSnapshot = p.pendingSnapshot)

theorem SendRel.refl (p : Progress) : SendRel p p := ⟨rfl, Or.inl rfl, fun _ => rfl⟩

theorem SendRel.trans {p q s : Progress} (h1 : SendRel p q) (h2 : SendRel q s) : SendRel p s := by
  obtain ⟨a1, b1, c1⟩ := h1
  obtain ⟨a2, b2, c2⟩ := h2
  refine ⟨a2.trans a1, ?_, ?_⟩
  · rcases b2 with b2 | b2
    · rw [b2]; exact b1
    · exact Or.inr b2
  · intro hp
    have hq : q.state = .snapshot := by rcases b1 with b1 | b1 <;> simp_all
    rw [c2 hq, c1 hp]

theorem updateState_rel (p p' : Progress) (last : Nat) (h : p.updateState last = .ok p') :
    SendRel p p' := by
  unfold Progress.updateState at h
  split at h
  · rename_i hs
    split at h
    · cases h
    · split at h
      · cases h; exact ⟨rfl, Or.inl rfl, fun hh => by simp [hs] at hh⟩
      · cases h
  · cases h; exact ⟨rfl, Or.inl rfl, fun _ => rfl⟩
  · cases h

namespace Raft

theorem send_frameP (r r' : Raft) (m : Message) (h : r.send m = .ok r') :
    r'.prs = r.prs ∧ r'.raftLog = r.raftLog ∧ r'.msgs = r.msgs ++ [r.sendFill m] := by
  rw [send_eq r r' m h]; exact ⟨rfl, rfl, rfl⟩

theorem prepareSendSnapshot_rel (r r' : Raft) (m m' : Message) (pr pr' : Progress) (to : Nat)
    (b : Bool) (h : r.prepareSendSnapshot m pr to = .ok (r', m', pr', b)) :
    r'.prs = r.prs ∧ r'.msgs = r.msgs ∧ pr'.matched = pr.matched ∧ m'.to = m.to ∧
    (b = true → m'.msgType = .msgSnapshot ∧ pr'.state = .snapshot) ∧ (b = false → pr' = pr) ∧
    (b = false → pr.recentActive = false ∨
      (r.raftLog.snapshot pr.pendingRequestSnapshot).2 = .err .snapshotTemporarilyUnavailable) := by
  unfold Raft.prepareSendSnapshot at h
  split at h
  · rename_i hra
    cases h
    exact ⟨rfl, rfl, rfl, rfl, by simp, by simp, fun _ => Or.inl (by simpa using hra)⟩
  · simp only at h
    split at h
    · rename_i heq
      cases h; exact ⟨rfl, rfl, rfl, rfl, by simp, by simp, fun _ => Or.inr heq⟩
    · cases h
    · cases h
    · split at h
      · cases h
      · cases h
        exact ⟨rfl, rfl, rfl, rfl, fun _ => ⟨rfl, rfl⟩, by simp, by simp⟩

theorem prepareSendEntries_rel (r : Raft) (m m' : Message) (pr pr' : Progress) (term : Nat)
    (ents : List Entry) (h : r.prepareSendEntries m pr term ents = .ok (m', pr')) :
    SendRel pr pr' ∧ m'.to = m.to ∧ m'.msgType = .msgAppend := by
  unfold Raft.prepareSendEntries at h
  split at h
  · cases h
  · simp only at h
    split at h
    · cases h; exact ⟨SendRel.refl _, rfl, rfl⟩
    · split at h
      · rename_i pr1 hu
        cases h; exact ⟨updateState_rel _ _ _ hu, rfl, rfl⟩
      · cases h
      · cases h

theorem tryBatchingLoop_rel (committed to : Nat) (pr : Progress) (ents : List Entry)
    (msgs msgs' : List Message) (pr' : Progress) (b : Bool)
    (h : tryBatchingLoop committed to pr ents msgs = .ok (msgs', pr', b)) :
    SendRel pr pr' ∧ (b = false → pr' = pr) ∧
    (b = true → ∃ m ∈ msgs', m.msgType = .msgAppend ∧ m.to = to) := by
  induction msgs generalizing msgs' with
  | nil => simp only [tryBatchingLoop] at h; cases h; exact ⟨SendRel.refl _, by simp, by simp⟩
  | cons msg rest ih =>
    simp only [tryBatchingLoop] at h
    split at h
    · rename_i hm
      split at h
      · split at h
        · cases h; exact ⟨SendRel.refl _, by simp, by simp⟩
        · split at h
          · cases h
          · split at h
            · rename_i pr1 hu
              cases h
              exact ⟨updateState_rel _ _ _ hu, by simp, fun _ => ⟨_, List.mem_cons_self, hm.1, hm.2⟩⟩
            · cases h
            · cases h
      · cases h
        exact ⟨SendRel.refl _, by simp, fun _ => ⟨_, List.mem_cons_self, hm.1, hm.2⟩⟩
    · split at h
      · rename_i rest' pr1 b1 hrec
        cases h
        obtain ⟨h1, h2, h3⟩ := ih rest' hrec
        refine ⟨h1, h2, ?_⟩
        intro hb
        obtain ⟨m, hm, hx⟩ := h3 hb
        exact ⟨m, List.mem_cons_of_mem _ hm, hx⟩
      · cases h
      · cases h

theorem tryBatching_rel (r r' : Raft) (to : Nat) (pr pr' : Progress) (ents : List Entry) (b : Bool)
    (h : r.tryBatching to pr ents = .ok (r', pr', b)) :
    r'.prs = r.prs ∧ r'.raftLog = r.raftLog ∧ SendRel pr pr' ∧ (b = false → pr' = pr) ∧
    (b = true → ∃ m ∈ r'.msgs, m.msgType = .msgAppend ∧ m.to = to) := by
  unfold Raft.tryBatching at h
  split at h
  · rename_i msgs pr1 b1 hl
    cases h
    obtain ⟨h1, h2, h3⟩ := tryBatchingLoop_rel _ _ _ _ _ _ _ _ hl
    exact ⟨rfl, rfl, h1, h2, h3⟩
  · cases h
  · cases h


theorem sendFill_to_type (r : Raft) (m : Message) :
    (r.sendFill m).to = m.to ∧ (r.sendFill m).msgType = m.msgType := by
  unfold Raft.sendFill
  simp only
  split <;> split <;> split <;> simp

theorem SendRel.of_state_ne {p p' : Progress} (hs : p.state ≠ .snapshot)
    (h1 : p'.matched = p.matched) (h2 : p'.state = p.state ∨ p'.state = .snapshot) : SendRel p p' :=
  ⟨h1, h2, fun h => absurd h hs⟩

/-- the snapshot arm shared by the two places `maybe_send_append` falls back to a snapshot -/
theorem sendSnapshotArm (r r' : Raft) (to : Nat) (pr pr' : Progress) (b : Bool)
    (hs : pr.state ≠ .snapshot)
    (h : (match r.prepareSendSnapshot { to := to } pr to with
      | .ok (r, m, pr, true) => (r.send m).bind (fun r => .ok (r, pr, true))
      | .ok (r, _, pr, false) => .ok (r, pr, false)
      | .err e => .err e
      | .panic s => .panic s) = .ok (r', pr', b)) :
    r'.prs = r.prs ∧ SendRel pr pr' ∧
    (b = false → pr' = pr ∧ (pr.recentActive = false ∨
      (r.raftLog.snapshot pr.pendingRequestSnapshot).2 = .err .snapshotTemporarilyUnavailable)) ∧
    (b = true → ∃ m ∈ r'.msgs, m.to = to ∧ (m.msgType = .msgAppend ∨ m.msgType = .msgSnapshot)) := by
  split at h
  · rename_i r1 m1 pr1 hp
    obtain ⟨a1, a2, a3, a4, a5, a6, a7⟩ := prepareSendSnapshot_rel _ _ _ _ _ _ _ _ hp
    cases hsd : r1.send m1 with
    | ok r2 =>
      rw [hsd] at h
      simp only [Res.bind] at h
      cases h
      obtain ⟨b1, b2, b3⟩ := send_frameP _ _ _ hsd
      refine ⟨b1.trans a1, SendRel.of_state_ne hs a3 (Or.inr (a5 rfl).2), by simp, ?_⟩
      intro _
      refine ⟨r1.sendFill m1, by rw [b3]; simp, ?_, ?_⟩
      · rw [(sendFill_to_type r1 m1).1, a4]
      · rw [(sendFill_to_type r1 m1).2, (a5 rfl).1]; exact Or.inr rfl
    | err e => rw [hsd] at h; cases h
    | panic s => rw [hsd] at h; cases h
  · rename_i r1 m1 pr1 hp
    obtain ⟨a1, a2, a3, a4, a5, a6, a7⟩ := prepareSendSnapshot_rel _ _ _ _ _ _ _ _ hp
    cases h
    have := a6 rfl
    subst this
    exact ⟨a1, SendRel.refl _, fun _ => ⟨rfl, a7 rfl⟩, by simp⟩
  · cases h
  · cases h


/-- the entries arm of `maybe_send_append`: batch into a queued `MsgAppend` or queue a new one -/
theorem sendEntriesArm (r r' : Raft) (to : Nat) (pr pr' : Progress) (term : Nat) (ents : List Entry)
    (b : Bool)
    (h : (match (if r.batchAppend then r.tryBatching to pr ents else Res.ok (r, pr, false) :
            Res (Raft × Progress × Bool)) with
      | .ok (r, pr, true) => Res.ok (r, pr, true)
      | .ok (r, pr, false) =>
        (match r.prepareSendEntries { to := to } pr term ents with
          | .ok (m, pr) => (r.send m).bind (fun r => Res.ok (r, pr, true))
          | .err e => Res.err e
          | .panic s => Res.panic s)
      | .err e => Res.err e
      | .panic s => Res.panic s) = Res.ok (r', pr', b)) :
    r'.prs = r.prs ∧ SendRel pr pr' ∧ b = true ∧
    ∃ m ∈ r'.msgs, m.to = to ∧ (m.msgType = .msgAppend ∨ m.msgType = .msgSnapshot) := by
  split at h
  · rename_i r1 pr1 hb
    cases h
    split at hb
    · obtain ⟨a1, a2, a3, a4, a5⟩ := tryBatching_rel _ _ _ _ _ _ _ hb
      obtain ⟨m, hm, hx⟩ := a5 rfl
      exact ⟨a1, a3, rfl, m, hm, hx.2, Or.inl hx.1⟩
    · cases hb
  · rename_i r1 pr1 hb
    have hb' : r1.prs = r.prs ∧ SendRel pr pr1 := by
      split at hb
      · obtain ⟨a1, a2, a3, a4, a5⟩ := tryBatching_rel _ _ _ _ _ _ _ hb
        exact ⟨a1, a3⟩
      · cases hb; exact ⟨rfl, SendRel.refl _⟩
    split at h
    · rename_i m1 pr2 he
      obtain ⟨c1, c2, c3⟩ := prepareSendEntries_rel _ _ _ _ _ _ _ he
      cases hsd : r1.send m1 with
      | ok r2 =>
        rw [hsd] at h
        simp only [Res.bind] at h
        cases h
        obtain ⟨b1, b2, b3⟩ := send_frameP _ _ _ hsd
        refine ⟨b1.trans hb'.1, hb'.2.trans c1, rfl, r1.sendFill m1, by rw [b3]; simp, ?_, ?_⟩
        · rw [(sendFill_to_type r1 m1).1, c2]
        · rw [(sendFill_to_type r1 m1).2, c3]; exact Or.inl rfl
      | err e => rw [hsd] at h; cases h
      | panic s => rw [hsd] at h; cases h
    · cases h
    · cases h
  · cases h
  · cases h

/-- why `maybe_send_append` may decline to send: the progress is paused; the caller does not want
an empty append; the storage fetches the entries asynchronously; the follower has not been heard
from (snapshot only); the snapshot is still being generated -/
def SendBlocked (r : Raft) (pr : Progress) (ae : Bool) : Prop :=
  pr.isPaused = true ∨ ae = false ∨
  r.raftLog.entries pr.nextIdx (some r.maxMsgSize) true = .err .logTemporarilyUnavailable ∨
  pr.recentActive = false ∨
  (r.raftLog.snapshot pr.pendingRequestSnapshot).2 = .err .snapshotTemporarilyUnavailable

theorem maybeSendAppend_rel (r r' : Raft) (to : Nat) (pr pr' : Progress) (ae b : Bool)
    (h : r.maybeSendAppend to pr ae = .ok (r', pr', b)) :
    r'.prs = r.prs ∧ SendRel pr pr' ∧ (b = false → pr' = pr ∧ SendBlocked r pr ae) ∧
    (b = true → pr.isPaused = false ∧
      ∃ m ∈ r'.msgs, m.to = to ∧ (m.msgType = .msgAppend ∨ m.msgType = .msgSnapshot)) := by
  unfold Raft.maybeSendAppend at h
  split at h
  · rename_i hp
    cases h; exact ⟨rfl, SendRel.refl _, fun _ => ⟨rfl, Or.inl hp⟩, by simp⟩
  · rename_i hp
    have hp' : pr.isPaused = false := by simpa using hp
    have hs : pr.state ≠ .snapshot := by
      intro hh; simp [Progress.isPaused, hh] at hp'
    simp only at h
    split at h
    · obtain ⟨a, b1, c, d⟩ := sendSnapshotArm _ _ _ _ _ _ hs h
      exact ⟨a, b1, fun hb => ⟨(c hb).1, Or.inr (Or.inr (Or.inr (c hb).2))⟩, fun hb => ⟨hp', d hb⟩⟩
    · cases hents : r.raftLog.entries pr.nextIdx (some r.maxMsgSize) true with
      | panic s => rw [hents] at h; cases h
      | ok es =>
        rw [hents] at h
        simp only at h
        split at h
        · rename_i hae
          cases h
          exact ⟨rfl, SendRel.refl _, fun _ => ⟨rfl, Or.inr (Or.inl (by
            cases ae <;> simp_all))⟩, by simp⟩
        · split at h
          · cases h
          · cases hterm : r.raftLog.term (pr.nextIdx - 1) with
            | panic s => rw [hterm] at h; cases h
            | ok t =>
              rw [hterm] at h
              simp only at h
              obtain ⟨a, b1, c, d⟩ := sendEntriesArm _ _ _ _ _ _ _ _ h
              subst c
              exact ⟨a, b1, by simp, fun _ => ⟨hp', d⟩⟩
            | err e =>
              rw [hterm] at h
              simp only at h
              obtain ⟨a, b1, c, d⟩ := sendSnapshotArm _ _ _ _ _ _ hs h
              exact ⟨a, b1, fun hb => ⟨(c hb).1, Or.inr (Or.inr (Or.inr (c hb).2))⟩, fun hb => ⟨hp', d hb⟩⟩
      | err e =>
        rw [hents] at h
        simp only at h
        split at h
        · rename_i hae
          cases h
          exact ⟨rfl, SendRel.refl _, fun _ => ⟨rfl, Or.inr (Or.inl (by
            cases ae <;> simp_all))⟩, by simp⟩
        · split at h
          · cases h
          · cases hterm : r.raftLog.term (pr.nextIdx - 1) with
            | panic s => rw [hterm] at h; cases h
            | ok t =>
              rw [hterm] at h
              simp only at h
              split at h
              · rename_i heq; cases heq
              · rename_i heq
                cases heq
                cases h
                exact ⟨rfl, SendRel.refl _, fun _ => ⟨rfl, Or.inr (Or.inr (Or.inl hents))⟩, by simp⟩
              · obtain ⟨a, b1, c, d⟩ := sendSnapshotArm _ _ _ _ _ _ hs h
                exact ⟨a, b1, fun hb => ⟨(c hb).1, Or.inr (Or.inr (Or.inr (c hb).2))⟩, fun hb => ⟨hp', d hb⟩⟩
            | err e2 =>
              rw [hterm] at h
              simp only at h
              split at h
              · rename_i heq; cases heq
              · rename_i heq
                cases heq
                cases h
                exact ⟨rfl, SendRel.refl _, fun _ => ⟨rfl, Or.inr (Or.inr (Or.inl hents))⟩, by simp⟩
              · obtain ⟨a, b1, c, d⟩ := sendSnapshotArm _ _ _ _ _ _ hs h
                exact ⟨a, b1, fun hb => ⟨(c hb).1, Or.inr (Or.inr (Or.inr (c hb).2))⟩, fun hb => ⟨hp', d hb⟩⟩

end Raft
end RaftModel

namespace RaftModel

/-- every progress of `t` is still there in `t'`, related by `SendRel` -/
def TRel (t t' : ProgressTracker) : Prop :=
  ∀ id pr, t.get id = some pr → ∃ pr', t'.get id = some pr' ∧ SendRel pr pr'

theorem TRel.refl (t : ProgressTracker) : TRel t t := fun _ pr h => ⟨pr, h, SendRel.refl _⟩

theorem TRel.of_eq {t t' : ProgressTracker} (h : t' = t) : TRel t t' := h ▸ TRel.refl t

theorem TRel.trans {a b c : ProgressTracker} (h1 : TRel a b) (h2 : TRel b c) : TRel a c := by
  intro id pr hg
  obtain ⟨p1, g1, r1⟩ := h1 id pr hg
  obtain ⟨p2, g2, r2⟩ := h2 id p1 g1
  exact ⟨p2, g2, r1.trans r2⟩

theorem TRel.set (t : ProgressTracker) (id : Nat) (pr pr' : Progress) (hg : t.get id = some pr)
    (h : SendRel pr pr') : TRel t (t.set id pr') := by
  intro j q hq
  by_cases hj : j = id
  · subst hj
    rw [hg] at hq; cases hq
    exact ⟨pr', ProgressTracker.get_set_self t j pr' pr hg, h⟩
  · exact ⟨q, by rw [ProgressTracker.get_set_ne t id j pr' hj]; exact hq, SendRel.refl _⟩

namespace Raft

theorem sendAppendPr_rel (r r' : Raft) (to : Nat) (pr pr' : Progress)
    (h : r.sendAppendPr to pr = .ok (r', pr')) : r'.prs = r.prs ∧ SendRel pr pr' := by
  unfold Raft.sendAppendPr at h
  cases hm : r.maybeSendAppend to pr true with
  | ok x =>
    obtain ⟨r1, pr1, b⟩ := x
    rw [hm] at h; simp only [Res.bind] at h; cases h
    obtain ⟨a, b1, _, _⟩ := maybeSendAppend_rel _ _ _ _ _ _ _ hm
    exact ⟨a, b1⟩
  | err e => rw [hm] at h; cases h
  | panic s => rw [hm] at h; cases h

theorem sendAppend_trel (r r' : Raft) (to : Nat) (h : r.sendAppend to = .ok r') :
    TRel r.prs r'.prs := by
  unfold Raft.sendAppend at h
  split at h
  · cases h
  · rename_i pr hg
    cases hs : r.sendAppendPr to pr with
    | ok x =>
      obtain ⟨r1, pr1⟩ := x
      rw [hs] at h; simp only [Res.bind] at h; cases h
      obtain ⟨a, b⟩ := sendAppendPr_rel _ _ _ _ _ hs
      simp only
      rw [a]
      exact TRel.set _ _ _ _ hg b
    | err e => rw [hs] at h; cases h
    | panic s => rw [hs] at h; cases h

theorem sendAppendAggressivelyPr_rel (fuel : Nat) (r r' : Raft) (to : Nat) (pr pr' : Progress)
    (h : sendAppendAggressivelyPr fuel r to pr = .ok (r', pr')) :
    r'.prs = r.prs ∧ SendRel pr pr' := by
  induction fuel generalizing r pr with
  | zero => simp [sendAppendAggressivelyPr] at h
  | succ n ih =>
    simp only [sendAppendAggressivelyPr] at h
    split at h
    · rename_i r1 pr1 hm
      obtain ⟨a, b, _, _⟩ := maybeSendAppend_rel _ _ _ _ _ _ _ hm
      obtain ⟨a2, b2⟩ := ih r1 pr1 h
      exact ⟨a2.trans a, b.trans b2⟩
    · rename_i r1 pr1 hm
      cases h
      obtain ⟨a, b, _, _⟩ := maybeSendAppend_rel _ _ _ _ _ _ _ hm
      exact ⟨a, b⟩
    · cases h
    · cases h

theorem sendAppendAggressively_trel (r r' : Raft) (to : Nat)
    (h : r.sendAppendAggressively to = .ok r') : TRel r.prs r'.prs := by
  unfold Raft.sendAppendAggressively at h
  split at h
  · cases h
  · rename_i pr hg
    cases hs : sendAppendAggressivelyPr (r.raftLog.lastIndex + 3) r to pr with
    | ok x =>
      obtain ⟨r1, pr1⟩ := x
      rw [hs] at h; simp only [Res.bind] at h; cases h
      obtain ⟨a, b⟩ := sendAppendAggressivelyPr_rel _ _ _ _ _ _ hs
      simp only
      rw [a]
      exact TRel.set _ _ _ _ hg b
    | err e => rw [hs] at h; cases h
    | panic s => rw [hs] at h; cases h

theorem forEachPeer_fold_trel (f : Raft → Nat → Progress → Res (Raft × Progress))
    (hf : ∀ r id pr r1 pr1, f r id pr = .ok (r1, pr1) → r1.prs = r.prs ∧ SendRel pr pr1)
    (ids : List Nat) (acc : Res Raft) (r' : Raft)
    (h : ids.foldl (fun (acc : Res Raft) id =>
      acc.bind (fun r =>
        if id = r.id then .ok r
        else match r.prs.get id with
          | none => .ok r
          | some pr => (f r id pr).bind (fun (r, pr) => .ok { r with prs := r.prs.set id pr }))) acc
      = .ok r') :
    ∃ r0, acc = .ok r0 ∧ TRel r0.prs r'.prs := by
  induction ids generalizing acc with
  | nil => simp only [List.foldl_nil] at h; exact ⟨r', h, TRel.refl _⟩
  | cons id rest ih =>
    simp only [List.foldl_cons] at h
    obtain ⟨r1, h1, t1⟩ := ih _ h
    cases acc with
    | ok r0 =>
      refine ⟨r0, rfl, ?_⟩
      simp only [Res.bind] at h1
      split at h1
      · cases h1; exact t1
      · split at h1
        · cases h1; exact t1
        · rename_i pr hg
          cases hfr : f r0 id pr with
          | ok x =>
            obtain ⟨r2, pr2⟩ := x
            rw [hfr] at h1; simp only at h1; cases h1
            obtain ⟨a, b⟩ := hf _ _ _ _ _ hfr
            refine TRel.trans ?_ t1
            simp only
            rw [a]
            exact TRel.set _ _ _ _ hg b
          | err e => rw [hfr] at h1; cases h1
          | panic s => rw [hfr] at h1; cases h1
    | err e => simp [Res.bind] at h1
    | panic s => simp [Res.bind] at h1

theorem bcastAppend_trel (r r' : Raft) (h : r.bcastAppend = .ok r') : TRel r.prs r'.prs := by
  unfold Raft.bcastAppend Raft.forEachPeer at h
  obtain ⟨r0, h0, t⟩ := forEachPeer_fold_trel _ (fun r id pr r1 pr1 hh => sendAppendPr_rel _ _ _ _ _ hh) _ _ _ h
  cases h0; exact t

theorem updateCommitted_rel (p : Progress) (ci : Nat) : SendRel p (p.updateCommitted ci) := by
  unfold Progress.updateCommitted; split
  · exact ⟨rfl, Or.inl rfl, fun _ => rfl⟩
  · exact SendRel.refl _

theorem modifyProgress_trel (r : Raft) (id : Nat) (f : Progress → Progress)
    (hf : ∀ p, SendRel p (f p)) : TRel r.prs (r.modifyProgress id f).prs := by
  intro j q hq
  simp only [Raft.modifyProgress, ProgressTracker.get] at *
  by_cases hj : j = id
  · subst hj
    rw [NatMap.lookup_modify_self, hq]
    exact ⟨f q, rfl, hf q⟩
  · rw [NatMap.lookup_modify_ne id j hj]
    exact ⟨q, hq, SendRel.refl _⟩

theorem maybeCommit_trel (r r' : Raft) (b : Bool) (h : r.maybeCommit = .ok (r', b)) :
    TRel r.prs r'.prs := by
  unfold Raft.maybeCommit at h
  split at h
  · cases h
  · cases h
  · split at h
    · cases h
    · cases h
    · cases h
      exact modifyProgress_trel _ _ _ (fun p => updateCommitted_rel p _)
    · cases h; exact TRel.refl _


theorem sendTimeoutNow_prs (r r' : Raft) (to : Nat) (h : r.sendTimeoutNow to = .ok r') :
    r'.prs = r.prs := (send_frameP _ _ _ h).1

theorem _root_.RaftModel.Res.bind_eq_ok {α β : Type} {x : Res α} {f : α → Res β} {b : β}
    (h : x.bind f = .ok b) : ∃ a, x = .ok a ∧ f a = .ok b := by
  cases x with
  | ok a => exact ⟨a, rfl, h⟩
  | err e => cases h
  | panic s => cases h

theorem handleAppendResponseAccepted_trel (r r' : Raft) (m : Message) (pr : Progress) (op : Bool)
    (h : r.handleAppendResponseAccepted m pr op = .ok r') :
    ∃ pr1, (match pr.state with
        | .probe => pr1 = pr.becomeReplicate
        | .snapshot => pr1 = (if pr.isSnapshotCaughtUp then pr.becomeProbe else pr)
        | .replicate => ∃ ins, pr.ins.freeTo m.index = .ok ins ∧ pr1 = { pr with ins := ins }) ∧
      TRel (r.prs.set m.frm pr1) r'.prs := by
  unfold Raft.handleAppendResponseAccepted at h
  dsimp only at h
  obtain ⟨pr1, hpr1, h⟩ := Res.bind_eq_ok h
  obtain ⟨r1, hr1, h⟩ := Res.bind_eq_ok h
  obtain ⟨r2, hr2, h⟩ := Res.bind_eq_ok h
  refine ⟨pr1, ?_, ?_⟩
  · cases hst : pr.state <;> simp only [hst] at hpr1 ⊢
    · cases hpr1; rfl
    · split at hpr1
      · rename_i ins hi; cases hpr1; exact ⟨ins, hi, rfl⟩
      · cases hpr1
    · cases hpr1; rfl
  · have t1 : TRel (r.prs.set m.frm pr1) r1.prs := by
      split at hr1
      · rename_i r0 hc
        have tc := maybeCommit_trel _ _ _ hc
        split at hr1
        · exact tc.trans (bcastAppend_trel _ _ hr1)
        · cases hr1; exact tc
      · rename_i r0 hc
        have tc := maybeCommit_trel _ _ _ hc
        split at hr1
        · exact tc.trans (sendAppend_trel _ _ _ hr1)
        · cases hr1; exact tc
      · cases hr1
      · cases hr1
    have t2 : TRel r1.prs r2.prs := sendAppendAggressively_trel _ _ _ hr2
    refine t1.trans (t2.trans ?_)
    split at h
    · split at h
      · cases h
      · split at h
        · exact TRel.of_eq (sendTimeoutNow_prs _ _ _ h)
        · cases h; exact TRel.refl _
    · cases h; exact TRel.refl _

theorem handleReadyReadIndex_prs (r r' : Raft) (req : Message) (index : Nat) (om : Option Message)
    (h : r.handleReadyReadIndex req index = .ok (r', om)) : r'.prs = r.prs := by
  unfold Raft.handleReadyReadIndex at h
  split at h
  · split at h
    · cases h
    · cases h; rfl
  · cases h; rfl

theorem respondReadStates_fold_prs (rss : List ReadIndexStatus) (acc : Res Raft) (r' : Raft)
    (h : rss.foldl (fun (acc : Res Raft) rs =>
      acc.bind (fun r =>
        (r.handleReadyReadIndex rs.req rs.index).bind (fun (r, om) =>
          match om with
          | some m => r.send m
          | none => .ok r))) acc = .ok r') :
    ∃ r0, acc = .ok r0 ∧ r'.prs = r0.prs := by
  induction rss generalizing acc with
  | nil => simp only [List.foldl_nil] at h; exact ⟨r', h, rfl⟩
  | cons rs rest ih =>
    simp only [List.foldl_cons] at h
    obtain ⟨r1, h1, t1⟩ := ih _ h
    obtain ⟨r0, h0, h1⟩ := Res.bind_eq_ok h1
    obtain ⟨x, hx, h1⟩ := Res.bind_eq_ok h1
    obtain ⟨r2, om⟩ := x
    refine ⟨r0, h0, ?_⟩
    have e1 := handleReadyReadIndex_prs _ _ _ _ _ hx
    cases om with
    | some m => simp only at h1; rw [t1, (send_frameP _ _ _ h1).1, e1]
    | none => simp only at h1; cases h1; rw [t1, e1]

theorem respondReadStates_prs (r r' : Raft) (rss : List ReadIndexStatus)
    (h : r.respondReadStates rss = .ok r') : r'.prs = r.prs := by
  unfold Raft.respondReadStates at h
  obtain ⟨r0, h0, t⟩ := respondReadStates_fold_prs _ _ _ h
  cases h0; exact t

end Raft
end RaftModel
