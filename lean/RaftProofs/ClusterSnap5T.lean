import RaftProofs.ClusterSnap5S

/-!
[Copy of `ClusterSnap2T.lean` for the development `Snap5` (with `request_snapshot`): `NoReq` is replaced by
`ReqOk`, `SnapCase.restored` is widened — see `ClusterSnap5A.lean`, `RaftProps/C01i.lean`.]

Commit safety of `ClusterSem` with compaction and snapshots, part 2T (as `ClusterSnapS` / `ClusterSnapT`):
the invariant `Sm` holds initially (`sm_init`) and in every state of the history (`sall`, `sm_all`); the
ghost-log forms of the final statements (`ev_logs_agree`, `sms_ghost`).
-/
namespace RaftModel
namespace Cluster
namespace Snap5
open Node Raft Raft.CC RaftProps.C02 RaftProps.C05 Snap

variable {cfg : JointConfig} {c0 : Nat} {h : List Sys}

theorem sm_init (H : Hyp3a cfg c0 h) {s : Sys} (h0 : h[0]? = some s) : Sm h c0 0 s := by
  have H2 := H.toHyp2w
  have hinit := hist_init H.hist s h0
  obtain ⟨hnet, sto, hboot, _⟩ := H.init s h0
  have hq : ∀ v st, s.node v = some st → st.raft.msgs = [] := init_queue hinit
  have noMem : ∀ E : Ev, ∀ v st, s.node v = some st → ¬ AckedMem s 0 E v st := by
    intro E v st hv hk
    rcases hk with ⟨x, hx, _⟩ | ⟨_, h2, _⟩
    · rcases hx with c | c
      · rw [hnet] at c; cases c
      · rw [hq v st hv] at c; cases c
    · omega
  have hcm : ∀ v st, s.node v = some st →
      st.raft.raftLog.store.hardState.commit ≤ c0 ∧ st.raft.raftLog.committed = c0 := by
    intro v st hv
    obtain ⟨c, rnd, hb⟩ := hboot v st hv
    have hbt := CV.boot_booted c _ rnd st hb
    have hc := H.initc s h0 v st hv
    refine ⟨?_, hc⟩
    rw [hbt.hs]
    rcases boot_committed c _ rnd st hb with e | ⟨e, _⟩
    · rw [← e, hc]; exact Nat.le_refl _
    · rw [e]; exact Nat.zero_le _
  refine ⟨?_, ?_, ?_, ?_, ?_, ?_, ?_, ?_, ?_, ?_⟩
  · intro E _ l st hl hs
    obtain ⟨c, rnd, hb⟩ := hboot l st hl
    rw [(CV.boot_booted c _ rnd st hb).state] at hs; cases hs
  · intro E _ v st hv hk
    exact absurd hk (noMem E v st hv)
  · intro E _ v st hv hk
    exact absurd hk.mem (noMem E v st hv)
  · intro v st hv x hx
    rcases hx with c | c
    · rw [hnet] at c; cases c
    · rw [hq v st hv] at c; cases c
  · intro v st hv x hx
    rw [hnet] at hx; cases hx
  · intro E _ v st g hv hg
    rcases hg with c | c
    · rw [hnet] at c; cases c
    · rw [hq v st hv] at c; cases c
  · intro v st hv
    exact .inl (Nat.le_of_eq (hcm v st hv).2)
  · intro v st hv
    exact .inl (hcm v st hv).1
  · intro v st hv
    rw [(hcm v st hv).2]; exact (hcm v st hv).1
  · intro v st hv k hk
    exact ((ghost_inv H2 0 s h0).node v st hv).persisted (node_ok H2 h0 hv) (H.pend0 s h0 v st hv) hk

/-- **the main induction** -/
theorem sall (H : Hyp3a cfg c0 h) : ∀ n, SAll h c0 n := by
  intro n
  induction n with
  | zero =>
    intro m s hm hs
    have : m = 0 := by omega
    subst this
    exact sm_init H hs
  | succ n ih =>
    intro m s hm hs
    by_cases hle : m ≤ n
    · exact ih m s hle hs
    · have hmn : m = n + 1 := by omega
      subst hmn
      have hlt : n + 1 < h.length := by
        rcases Nat.lt_or_ge (n + 1) h.length with c | c
        · exact c
        · rw [List.getElem?_eq_none c] at hs; cases hs
      have ha : h[n]? = some h[n] := List.getElem?_eq_some_iff.2 ⟨by omega, rfl⟩
      exact ⟨lc_step H ih ha hs, retm_step H ih ha hs, rets_step H ih ha hs, a2m_step H ih ha hs,
        a2s_step H ih ha hs, g1_step H ih ha hs, nctm_step H ih ha hs, ncts_step H ih ha hs,
        scm_step H ih ha hs, pst_step H ih ha hs⟩

theorem sm_all (H : Hyp3a cfg c0 h) {n : Nat} {s : Sys} (hn : h[n]? = some s) : Sm h c0 n s :=
  sall H n n s (Nat.le_refl _) hn


/-- the logs of two commit events agree up to the smaller commit index (ghost logs) -/
theorem ev_logs_agree (H : Hyp3a cfg c0 h) {E1 E2 : Ev} (h1 : E1.ok h) (h2 : E2.ok h)
    (hle : E1.c ≤ E2.c) : EqUpTo (EvF h c0 E1) (EvF h c0 E2) E1.c := by
  have H2 := H.toHyp2w
  obtain ⟨l1, hh1, _⟩ := Ev.leaderLog H2 h1
  obtain ⟨l2, _, _⟩ := Ev.leaderLog H2 h2
  have S := sall H (E1.nE + E2.nE + 2)
  have := ctf H2 S h2 h1 (by omega) hle (fun _ => ⟨EvF h c0 E1, l1.mono (by omega)⟩)
  exact ll_eq_below H2 l1 l2 hh1 this

/-- **State-Machine Safety for the ghost logs**: the uncompacted logs of any two nodes, in any two
states of the history, hold the same entry at every index both commit indexes cover -/
theorem sms_ghost (H : Hyp3a cfg c0 h)
    {m1 : Nat} {s1 : Sys} (hm1 : h[m1]? = some s1) {v1 : Nat} {st1 : NState}
    (hv1 : s1.node v1 = some st1)
    {m2 : Nat} {s2 : Sys} (hm2 : h[m2]? = some s2) {v2 : Nat} {st2 : NState}
    (hv2 : s2.node v2 = some st2)
    {k : Nat} (hk1 : k ≤ st1.raft.raftLog.committed) (hk2 : k ≤ st2.raft.raftLog.committed) :
    (FL h c0 st1).entryAt k = (FL h c0 st2).entryAt k := by
  have H2 := H.toHyp2w
  have I1 := (ghost_inv H2 m1 s1 hm1).node v1 st1 hv1
  have I2 := (ghost_inv H2 m2 s2 hm2).node v2 st2 hv2
  by_cases hk0 : k ≤ c0
  · unfold LLog.entryAt
    rw [if_pos (by rw [I1.log.snap]; exact hk0), if_pos (by rw [I2.log.snap]; exact hk0)]
  rcases (sm_all H hm1).nctm v1 st1 hv1 with c | ⟨E1, hE1, _, a3, _, a5⟩
  · omega
  rcases (sm_all H hm2).nctm v2 st2 hv2 with c | ⟨E2, hE2, _, b3, _, b5⟩
  · omega
  rw [a5 k hk1, b5 k hk2]
  rcases Nat.le_total E1.c E2.c with hle | hle
  · exact ev_logs_agree H hE1 hE2 hle k (by omega)
  · exact (ev_logs_agree H hE2 hE1 hle k (by omega)).symm

end Snap5
end Cluster
end RaftModel
