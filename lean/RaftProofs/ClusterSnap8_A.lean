import RaftProofs.ClusterSnapA
import RaftProofs.ClusterSnap7I

/-! SCRIPTED COPY (C01n, `RaftProps/C01n.gen/copy_snap.py` + `patches_snap.py`) of the theorems of
`RaftProofs/ClusterSnapA.lean` into `RaftModel.Cluster.Snap.J`: the compaction stack over bundles with `mv` + `sane`
(C05d's `SaneAnchors`) in place of `nb` (`NoBatch`). -/
namespace RaftModel
namespace Cluster
namespace Snap
namespace J
open Node Raft Raft.CC

theorem KStep.cstep {s s' : Sys} (h : KStep s s') : CStep s s' := by
  cases h with
  | call i st st' rnd op res h1 h2 h3 _ h4 =>
    exact CStep.call s i st st' rnd op res h1 h2 h3 h4
  | deliver i st st' rnd m res h1 h2 h3 h4 => exact CStep.deliver s i st st' rnd m res h1 h2 h3 h4
  | send i st st' h1 h2 _ h3 => exact CStep.send s i st st' h1 h2 h3
  | restart i st st' c rnd h1 h2 h3 => exact CStep.restart s i st st' c rnd h1 h2 h3

theorem KStep.step {s s' : Sys} (h : KStep s s') : Step s s' := h.cstep.step

theorem MOKc.kstep {s s' : Sys} (hm : MOKc s) (hsn : NoSnapNet s)
    (hstep : KStep s s') : MOKc s' := by
  have other : ∀ (k : Nat) (stk : NState) (net' : List Message), (∀ x ∈ s.net, x ∈ net') →
      MOK (Anet net') stk.raft → ∀ j stj, j ≠ k → s.node j = some stj → MOK (Anet net') stj.raft :=
    fun k stk net' hsub _ j stj _ hj => (hm j stj hj).mono (fun _ _ _ => Anet.mono hsub)
  cases hstep with
  | call k st st' rnd op res h1 h2 _ _ h4 =>
    intro j stj hj
    have g := ClusterB.kstep_gb hm hsn h1 (.inl h2) h4
    by_cases hjk : j = k
    · subst hjk
      rw [node_setNode_self] at hj; cases hj
      exact g.mok
    · rw [node_setNode_ne s k j st' hjk] at hj
      exact hm j stj hj
  | deliver k st st' rnd m res h1 h2 _ h4 =>
    intro j stj hj
    have g := ClusterB.kstep_gb hm hsn h1 (.inr ⟨m, rfl, h2⟩) h4
    by_cases hjk : j = k
    · subst hjk
      rw [node_setNode_self] at hj; cases hj
      exact g.mok
    · rw [node_setNode_ne s k j st' hjk] at hj
      exact hm j stj hj
  | send k st st' h1 _ _ h3 =>
    intro j stj hj
    have hsub : ∀ x ∈ s.net, x ∈ s.net ++ st.raft.msgs := fun x hx => List.mem_append_left _ hx
    have hj' : (s.setNode k st').node j = some stj := hj
    by_cases hjk : j = k
    · subst hjk
      rw [node_setNode_self] at hj'; cases hj'
      have hf : st'.raft.state = st.raft.state ∧ st'.raft.prs = st.raft.prs ∧
          st'.raft.id = st.raft.id ∧ st'.raft.raftLog = st.raft.raftLog ∧
          st'.raft.term = st.raft.term := by
        unfold Node.call at h3
        simp only [applyOp] at h3
        cases h3; exact ⟨rfl, rfl, rfl, rfl, rfl⟩
      obtain ⟨f1, f2, f3, f4, f5⟩ := hf
      have h0 := (hm j st h1).mono (fun _ _ _ => Anet.mono (net' := s.net ++ st.raft.msgs) hsub)
      constructor
      rw [f1, f2, f3, f4, f5]
      exact h0.h
    · rw [node_setNode_ne s k j st' hjk] at hj'
      exact (hm j stj hj').mono (fun _ _ _ => Anet.mono hsub)
  | restart k st st' c rnd h1 _ h3 =>
    intro j stj hj
    by_cases hjk : j = k
    · subst hjk
      rw [node_setNode_self] at hj; cases hj
      have hb := CV.boot_booted c _ rnd st' h3
      exact ⟨fun hs => by rw [hb.state] at hs; cases hs⟩
    · rw [node_setNode_ne s k j st' hjk] at hj
      exact hm j stj hj


/-- **provenance**: `K` selects the kind of message; the hypothesis `hfresh` says what a `call` /
`deliver` step establishes for every message of that kind it queues -/
theorem provenance (h : List Sys) (hh : History h)
    (hk : ∀ (n : Nat) (a b : Sys), h[n]? = some a → h[n + 1]? = some b → KStep a b)
    (K : Message → Prop)
    (Φ : Nat → Nat → Message → Prop)
    (hfresh : ∀ n a b i st st' rnd op res, h[n]? = some a → h[n + 1]? = some b →
      a.node i = some st → b.node i = some st' → Node.call st rnd op = .ok (res, st') →
      (appOp op = true ∨ ∃ m, op = .step m ∧ m ∈ a.net ∧ m.to = i) →
      (∀ j, op = .compact j → CompactOk st.raft.raftLog j) →
      b.net = a.net →
      ∀ x ∈ st'.raft.msgs, K x → x ∈ st.raft.msgs ∨ Φ (n + 1) i x) :
    ∀ n s, h[n]? = some s →
      (∀ i st, s.node i = some st → ∀ x ∈ st.raft.msgs, K x → Gen Φ n i x) ∧
      (∀ x ∈ s.net, K x → ∃ i, Gen Φ n i x) := by
  refine hist_induct h _ ?_ ?_
  · intro s h0
    have hinit : Init s := hist_init hh s h0
    refine ⟨fun i st hi x hx _ => ?_, fun x hx _ => ?_⟩
    · rw [init_queue hinit i st hi] at hx; cases hx
    · rw [hinit.1] at hx; cases hx
  · intro n a b ha hb ⟨ihq, ihn⟩
    have hstep := hk n a b ha hb
    have up : ∀ {i x}, Gen Φ n i x → Gen Φ (n + 1) i x := fun g => g.mono (Nat.le_succ n)
    cases hstep with
    | call k st st' rnd op res h1 h2 hnc _ h3 =>
      have hop : appOp op = true ∨ ∃ m, op = .step m ∧ m ∈ a.net ∧ m.to = k := .inl h2
      refine ⟨fun i sti hi x hx hk => ?_, fun x hx hk => (ihn x hx hk).imp (fun _ g => up g)⟩
      by_cases hik : i = k
      · subst hik
        rw [node_setNode_self] at hi; cases hi
        rcases hfresh n a _ i st st' rnd op res ha hb h1 (node_setNode_self a i st') h3 hop hnc rfl x hx hk
          with g | g
        · exact up (ihq i st h1 x g hk)
        · exact ⟨n + 1, Nat.le_refl _, g⟩
      · rw [node_setNode_ne a k i st' hik] at hi
        exact up (ihq i sti hi x hx hk)
    | deliver k st st' rnd m res h1 h2 h3 h4 =>
      refine ⟨fun i sti hi x hx hk => ?_, fun x hx hk => (ihn x hx hk).imp (fun _ g => up g)⟩
      by_cases hik : i = k
      · subst hik
        rw [node_setNode_self] at hi; cases hi
        rcases hfresh n a _ i st st' rnd (.step m) res ha hb h1 (node_setNode_self a i st') h4
          (.inr ⟨m, rfl, h2, h3⟩) (fun j hc => by cases hc) rfl x hx hk with g | g
        · exact up (ihq i st h1 x g hk)
        · exact ⟨n + 1, Nat.le_refl _, g⟩
      · rw [node_setNode_ne a k i st' hik] at hi
        exact up (ihq i sti hi x hx hk)
    | send k st st' h1 h2 _ h3 =>
      have hq : st'.raft.msgs = [] := by
        unfold Node.call at h3
        simp only [applyOp] at h3
        cases h3; rfl
      refine ⟨fun i sti hi x hx hk => ?_, fun x hx hk => ?_⟩
      · have hi' : (a.setNode k st').node i = some sti := hi
        by_cases hik : i = k
        · subst hik
          rw [node_setNode_self] at hi'; cases hi'
          rw [hq] at hx; cases hx
        · rw [node_setNode_ne a k i st' hik] at hi'
          exact up (ihq i sti hi' x hx hk)
      · rcases List.mem_append.1 hx with g | g
        · exact (ihn x g hk).imp (fun _ g => up g)
        · exact ⟨k, up (ihq k st h1 x g hk)⟩
    | restart k st st' c rnd h1 h2 h3 =>
      refine ⟨fun i sti hi x hx hk => ?_, fun x hx hk => (ihn x hx hk).imp (fun _ g => up g)⟩
      by_cases hik : i = k
      · subst hik
        rw [node_setNode_self] at hi; cases hi
        rw [(CV.boot_booted c _ rnd st' h3).msgs] at hx; cases hx
      · rw [node_setNode_ne a k i st' hik] at hi
        exact up (ihq i sti hi x hx hk)


/-- **the standing hypotheses** on a history of `ClusterSem` (all explicit, see the report):
fixed voter configuration (as for Election Safety), the initial states and the absence of batching of
the Log Matching layer, contract-abiding steps (`KStep`), and no snapshot traffic -/
structure Hyp (cfg : JointConfig) (h : List Sys) : Prop where
  hist : History h
  fix : ∀ s ∈ h, FixedCfg cfg s
  ne : cfg.incoming ≠ []
  nd1 : cfg.incoming.Nodup
  nd2 : cfg.outgoing.Nodup
  init : ∀ s : Sys, h[0]? = some s → InitOk s
  steps : ∀ (n : Nat) (a b : Sys), h[n]? = some a → h[n + 1]? = some b → KStep a b
  mv : MultiVoter cfg
  sane : ∀ s ∈ h, SaneAnchors s
  nosnap : ∀ s ∈ h, NoSnapNet s

theorem mem_of_get {h : List Sys} {n : Nat} {s : Sys} (hn : h[n]? = some s) : s ∈ h :=
  List.mem_iff_getElem?.2 ⟨n, hn⟩

theorem Hyp.csteps {cfg : JointConfig} {h : List Sys} (H : Hyp cfg h) :
    ∀ (n : Nat) (a b : Sys), h[n]? = some a → h[n + 1]? = some b → CStep a b :=
  fun n a b ha hb => (H.steps n a b ha hb).cstep

/-- the Log Matching invariant in every state -/
theorem Hyp.invL {cfg : JointConfig} {h : List Sys} (H : Hyp cfg h) :
    ∃ s0, h[0]? = some s0 ∧ ∀ s ∈ h, InvL (Owner h) (EntriesOf s0) s :=
  RaftProps.C05.cluster_inv_batch cfg H.ne H.nd1 H.nd2 h H.hist H.fix H.init H.csteps
    (.inr ⟨H.mv, H.sane⟩)

/-- the Log Matching invariant and the queue invariants of C05d in every state -/
theorem Hyp.invLB {cfg : JointConfig} {h : List Sys} (H : Hyp cfg h) :
    ∃ s0, h[0]? = some s0 ∧ ∀ s ∈ h, InvL (Owner h) (EntriesOf s0) s ∧ InvB s :=
  RaftProps.C05.cluster_invB_batch cfg H.ne H.nd1 H.nd2 h H.hist H.fix H.init H.csteps H.mv H.sane

/-- the matched tables are backed by the transport in every state -/
theorem Hyp.mokc {cfg : JointConfig} {h : List Sys} (H : Hyp cfg h) :
    ∀ (n : Nat) (s : Sys), h[n]? = some s → MOKc s := by
  refine hist_induct h (fun _ s => MOKc s) (fun s h0 => MOKc.init (hist_init H.hist s h0)) ?_
  intro n a b ha hb ih
  exact MOKc.kstep ih (H.nosnap a (mem_of_get ha)) (H.steps n a b ha hb)

/-- **the leader's commit step**: when a step moves the commit index of a node that is leader after
the step, the entry at the new commit index carries the leader's term, and a joint quorum of the
leader's voters has `matched` at least the new commit index, each of them accounted for: the leader
itself with `persisted`, or an accepting append response in the transport -/
theorem Hyp.commit_step {cfg : JointConfig} {h : List Sys} (H : Hyp cfg h) (n : Nat) (a b : Sys)
    (ha : h[n]? = some a) (hb : h[n + 1]? = some b) (l : Nat) (sta stb : NState)
    (hla : a.node l = some sta) (hlb : b.node l = some stb) (hs : stb.raft.state = .leader)
    (hc : sta.raft.raftLog.committed < stb.raft.raftLog.committed) :
    stb.raft.raftLog.term stb.raft.raftLog.committed = .ok stb.raft.term ∧
    ∃ Q, IsJointQuorum cfg Q ∧ ∀ j ∈ Q,
      (j = l ∧ stb.raft.raftLog.committed ≤ stb.raft.raftLog.persisted) ∨
      Anet a.net j stb.raft.term stb.raft.raftLog.committed := by
  have hm := H.mokc n a ha
  have hsn := H.nosnap a (mem_of_get ha)
  have hfix := H.fix b (mem_of_get hb) l stb hlb
  obtain ⟨hid, _⟩ := ((hist_all H.hist).1 b (mem_of_get hb)).ids l stb hlb
  -- the relation of the step at node `l`
  have key : (∃ m, Raft.CB.Gb (Anet a.net) sta.raft m stb.raft) ∨
      stb.raft.raftLog.committed = sta.raft.raftLog.committed ∨ stb.raft.state ≠ .leader := by
    cases H.steps n a b ha hb with
    | call k st st' rnd op res h1 h2 _ _ h4 =>
      by_cases hlk : l = k
      · subst hlk
        rw [node_setNode_self] at hlb; cases hlb
        rw [h1] at hla; cases hla
        exact .inl ⟨_, ClusterB.kstep_gb hm hsn h1 (.inl h2) h4⟩
      · rw [node_setNode_ne a k l st' hlk, hla] at hlb; cases hlb
        exact .inr (.inl rfl)
    | deliver k st st' rnd m res h1 h2 _ h4 =>
      by_cases hlk : l = k
      · subst hlk
        rw [node_setNode_self] at hlb; cases hlb
        rw [h1] at hla; cases hla
        exact .inl ⟨_, ClusterB.kstep_gb hm hsn h1 (.inr ⟨m, rfl, h2⟩) h4⟩
      · rw [node_setNode_ne a k l st' hlk, hla] at hlb; cases hlb
        exact .inr (.inl rfl)
    | send k st st' h1 _ _ h3 =>
      have hlb' : (a.setNode k st').node l = some stb := hlb
      by_cases hlk : l = k
      · subst hlk
        rw [node_setNode_self] at hlb'; cases hlb'
        rw [h1] at hla; cases hla
        right; left
        unfold Node.call at h3
        simp only [applyOp] at h3
        cases h3; rfl
      · rw [node_setNode_ne a k l st' hlk, hla] at hlb'; cases hlb'
        exact .inr (.inl rfl)
    | restart k st st' c rnd h1 _ h3 =>
      by_cases hlk : l = k
      · subst hlk
        rw [node_setNode_self] at hlb; cases hlb
        right; right
        rw [(CV.boot_booted c _ rnd stb h3).state]; intro hcc; cases hcc
      · rw [node_setNode_ne a k l st' hlk, hla] at hlb; cases hlb
        exact .inr (.inl rfl)
  rcases key with ⟨_, g⟩ | g | g
  · rcases g.lc hs with e | ⟨⟨Q, hQ, hQm⟩, hterm⟩
    · omega
    · refine ⟨hterm, Q, by rw [← hfix]; exact hQ, fun j hj => ?_⟩
      obtain ⟨x, hx, hle⟩ := hQm j hj
      rcases g.mok.h hs j x hx with d | ⟨d1, d2⟩ | d
      · omega
      · left; exact ⟨d1.trans hid, Nat.le_trans hle d2⟩
      · right; exact Anet.anti _ _ _ _ hle d
  · omega
  · exact absurd hs g


end J
end Snap
end Cluster
end RaftModel

