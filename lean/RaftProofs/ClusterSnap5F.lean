import RaftProofs.ClusterSnap5E

/-!
[Copy of `ClusterSnap2F.lean` for the development `Snap5` (with `request_snapshot`): `NoReq` is replaced by
`ReqOk`, `SnapCase.restored` is widened — see `ClusterSnap5A.lean`, `RaftProps/C01i.lean`.]

Commit safety of `ClusterSem` with compaction and snapshots, part 2F: **the ghost-log invariant with
snapshots** (`ghost_inv`): in every state of a history under `Snap5.Hyp2`

* the logical log and the stored log of every node have uncompacted versions (`FL` / `FS`), which —
  when no snapshot is pending — share the prefix below the node's snapshot point, and the uncompacted
  stored log holds an entry of the recorded term at the storage's snapshot index (`NodeFull`);
* every `MsgSnapshot` that is queued or in the transport names a point `(index, term)` of an
  uncompacted log derived from the chains of the history (`SnapMsgOk`) — so a node that restores it
  gets an uncompacted version, too.
-/
namespace RaftModel
namespace Cluster
namespace Snap5
open Node Raft Raft.CC RaftProps.C02 RaftProps.C05 Snap

variable {cfg : JointConfig} {c0 : Nat} {h : List Sys}

/-! ### the prefix of an uncompacted log as the uncompacted version of a snapshot -/

/-- the prefix of `F` up to index `i` -/
def pre (F : LLog) (i : Nat) : LLog := { F with ents := F.ents.take (i - F.snapIdx) }

theorem pre_entryAt (F : LLog) (i k : Nat) :
    (pre F i).entryAt k = if k ≤ i then F.entryAt k else none := by
  unfold pre LLog.entryAt
  dsimp only
  by_cases hk0 : k ≤ F.snapIdx
  · rw [if_pos hk0, if_pos hk0]; split <;> rfl
  · rw [if_neg hk0, if_neg hk0, List.getElem?_take]
    by_cases hk : k ≤ i
    · rw [if_pos hk, if_pos (by omega)]
    · rw [if_neg hk, if_neg (by omega)]

theorem pre_prevTerm (F : LLog) (i k : Nat) (hk : k ≤ i) :
    (pre F i).prevTerm k = F.prevTerm k := by
  unfold LLog.prevTerm
  have hs : (pre F i).snapIdx = F.snapIdx := rfl
  have hst : (pre F i).snapTerm = F.snapTerm := rfl
  rw [hs, hst]
  by_cases hk1 : k = F.snapIdx + 1
  · rw [if_pos hk1, if_pos hk1]
  · rw [if_neg hk1, if_neg hk1, pre_entryAt, if_pos (by omega)]

/-- **the uncompacted version of a restored snapshot** `(i, t)`: the prefix up to `i` of an uncompacted
log that holds an entry of term `t` at `i` -/
theorem full_ofSnap {C : LLog → Prop} {F : LLog} (hs : F.snapIdx = c0) (hc : F.Contig)
    (hd : DerivedFrom C F) {i t : Nat} (hi0 : c0 < i) {e : Entry} (he : F.entryAt i = some e)
    (het : e.term = t) :
    Full C c0 { snapIdx := i, snapTerm := some t, ents := [] } (pre F i) := by
  have hil := (F.entryAt_lt he).2
  refine ⟨hs, Nat.le_of_lt hi0, ?_, ?_, fun k hk => ?_, fun h0 => ?_, fun t' ht' _ => ?_,
    fun hn => ?_, ?_⟩
  · intro k x hk
    have hk' : (F.ents.take (i - F.snapIdx))[k]? = some x := hk
    rw [List.getElem?_take] at hk'
    split at hk'
    · exact hc k x hk'
    · cases hk'
  · unfold LLog.lastIndex at hil ⊢
    show F.snapIdx + (F.ents.take (i - F.snapIdx)).length = i + 0
    rw [List.length_take]; omega
  · have hk' : i < k := hk
    rw [pre_entryAt, if_neg (by omega)]
    unfold LLog.entryAt
    rw [if_neg (by show ¬ k ≤ i; omega)]
    rfl
  · have : i = c0 := h0
    omega
  · cases ht'
    exact ⟨e, by rw [pre_entryAt, if_pos (Nat.le_refl _)]; exact he, het⟩
  · cases hn
  · intro k x hk
    rw [pre_entryAt] at hk
    split at hk
    · rename_i hki
      obtain ⟨y, hy, h1, h2⟩ := hd k x hk
      exact ⟨y, hy, h1, fun p hp => h2 p (by rw [← pre_prevTerm F i k hki]; exact hp)⟩
    · cases hk

/-- the stored log of a storage that holds nothing but a snapshot -/
theorem storeLog_snap {s : MemStorage} {md : SnapshotMetadata} (he : s.entries = [])
    (hm : s.snapshotMetadata = md) :
    storeLog s = { snapIdx := md.index, snapTerm := some md.term, ents := [] } := by
  have hf : s.firstIndex = md.index + 1 := by unfold MemStorage.firstIndex; rw [he, hm]; rfl
  unfold storeLog
  rw [hf, he, hm]
  simp

/-- the stored snapshot point after a restart -/
theorem boot_meta (c : Config) (store : MemStorage) (rnd : Option Nat) (st : NState)
    (hw : store.WF) (h : Node.boot c store rnd = .ok (.ok st)) :
    st.raft.raftLog.store.snapshotMetadata = store.snapshotMetadata := by
  unfold Node.boot at h
  split at h
  · rename_i raft hn
    cases h
    unfold RawNode.new at hn
    split at hn
    · cases hn
    · exact (raftNew_log c store rnd raft hw hn).2.2.2
  · cases h
  · cases h
  · cases h

/-- `MemStorage::append` keeps the snapshot point -/
theorem append_meta {s s' : MemStorage} {ents : List Entry} (h : s.append ents = .ok s') :
    s'.snapshotMetadata = s.snapshotMetadata := by
  unfold MemStorage.append at h
  split at h
  · cases h; rfl
  · split at h
    · cases h
    · split at h
      · cases h
      · simp only [] at h
        split at h
        · cases h
        · cases h; rfl

/-- `stabilize` keeps the stored snapshot point -/
theorem stabilize_meta {st st' : NState} {rnd : Option Nat} {res : OpRes}
    (h : Node.call st rnd .stabilize = .ok (res, st')) :
    st'.raft.raftLog.store.snapshotMetadata = st.raft.raftLog.store.snapshotMetadata := by
  unfold Node.call at h
  simp only [applyOp] at h
  unfold Node.stabilize at h
  simp only [] at h
  split at h
  · rename_i l hl
    cases h
    show l.store.snapshotMetadata = _
    split at hl
    · cases hl; rfl
    · split at hl
      · rename_i store ha
        rw [RaftModel.C06.stableEntries_store hl]
        exact append_meta ha
      · cases hl
      · cases hl
  · cases h
  · cases h

/-- `compact` keeps the stored snapshot point -/
theorem compact_meta {st st' : NState} {rnd : Option Nat} {k : Nat} {res : OpRes}
    (h : Node.call st rnd (.compact k) = .ok (res, st')) :
    st'.raft.raftLog.store.snapshotMetadata = st.raft.raftLog.store.snapshotMetadata := by
  unfold Node.call at h
  simp only [applyOp] at h
  split at h
  · rename_i store hc
    cases h
    show store.snapshotMetadata = _
    have hc' : st.raft.raftLog.store.compact k = .ok store := hc
    unfold MemStorage.compact at hc'
    split at hc'
    · cases hc'; rfl
    · split at hc'
      · cases hc'
      · split at hc'
        · cases hc'; rfl
        · split at hc'
          · cases hc'
          · split at hc'
            · cases hc'
            · cases hc'; rfl
  · cases h
  · cases h

/-! ### the invariant -/

/-- the entry `e` at index `k` sits in a chain of a state `h[m]`, `m ≤ n` -/
def Past (h : List Sys) (n k : Nat) (e : Entry) : Prop :=
  ∃ (m : Nat) (s : Sys) (loc : Loc) (g : LLog), m ≤ n ∧ h[m]? = some s ∧ At s loc g ∧
    g.entryAt k = some e

/-- every entry of `F` sits in a chain of a state up to `h[n]` -/
def PastLog (h : List Sys) (n : Nat) (F : LLog) : Prop := ∀ k e, F.entryAt k = some e → Past h n k e

theorem PastLog.mono {h : List Sys} {n n' : Nat} {F : LLog} (hp : PastLog h n F) (hle : n ≤ n') :
    PastLog h n' F := by
  intro k e he
  obtain ⟨m, s, loc, g, h1, h2⟩ := hp k e he
  exact ⟨m, s, loc, g, Nat.le_trans h1 hle, h2⟩

theorem PastLog.of_eq {h : List Sys} {n : Nat} {F G : LLog} (hp : PastLog h n G)
    (heq : ∀ k, F.entryAt k = G.entryAt k) : PastLog h n F :=
  fun k e he => hp k e (by rw [← heq]; exact he)

/-- the ghost logs of a node (of the state `h[n]`) -/
structure NodeFull (h : List Sys) (c0 n : Nat) (st : NState) : Prop where
  log : Full (HistChain h) c0 st.raft.raftLog.abs (FL h c0 st)
  sto : Full (HistChain h) c0 (storeLog st.raft.raftLog.store) (FS h c0 st)
  pre : st.raft.raftLog.unstable.snapshot = none →
    ∀ k, k ≤ st.raft.raftLog.abs.snapIdx → (FL h c0 st).entryAt k = (FS h c0 st).entryAt k
  smeta : c0 < st.raft.raftLog.store.snapshotMetadata.index →
    ∃ e, (FS h c0 st).entryAt st.raft.raftLog.store.snapshotMetadata.index = some e ∧
      e.term = st.raft.raftLog.store.snapshotMetadata.term
  pastL : PastLog h n (FL h c0 st)
  pastS : PastLog h n (FS h c0 st)

theorem NodeFull.of (H : Hyp2w cfg c0 h) {st : NState} {F G : LLog}
    (h1 : Full (HistChain h) c0 st.raft.raftLog.abs F)
    (h2 : Full (HistChain h) c0 (storeLog st.raft.raftLog.store) G)
    {n : Nat} (h5 : PastLog h n F) (h6 : PastLog h n G)
    (h3 : st.raft.raftLog.unstable.snapshot = none →
      ∀ k, k ≤ st.raft.raftLog.abs.snapIdx → F.entryAt k = G.entryAt k)
    (h4 : c0 < st.raft.raftLog.store.snapshotMetadata.index →
      ∃ e, G.entryAt st.raft.raftLog.store.snapshotMetadata.index = some e ∧
        e.term = st.raft.raftLog.store.snapshotMetadata.term) : NodeFull h c0 n st :=
  ⟨fl_spec h1, fl_spec h2, fun hp k hk => by
    unfold FL FS
    rw [fl_eq (hist_agree H) h1, fl_eq (hist_agree H) h2]; exact h3 hp k hk,
   fun hc => by
    unfold FS
    obtain ⟨e, he, het⟩ := h4 hc
    exact ⟨e, by rw [fl_eq (hist_agree H) h2]; exact he, het⟩,
   h5.of_eq (fl_eq (hist_agree H) h1), h6.of_eq (fl_eq (hist_agree H) h2)⟩

/-- a `MsgSnapshot` names a point of an uncompacted log derived from the chains of the history -/
def SnapMsgOk (h : List Sys) (c0 n : Nat) (x : Message) : Prop :=
  x.snapshot.metadata.index ≤ c0 ∨
  ∃ F e, F.snapIdx = c0 ∧ F.Contig ∧ DerivedFrom (HistChain h) F ∧
    F.entryAt x.snapshot.metadata.index = some e ∧ e.term = x.snapshot.metadata.term ∧ PastLog h n F

theorem SnapMsgOk.mono {h : List Sys} {c0 n n' : Nat} {x : Message} (hx : SnapMsgOk h c0 n x)
    (hle : n ≤ n') : SnapMsgOk h c0 n' x := by
  rcases hx with c | ⟨F, e, h1, h2, h3, h4, h5, h6⟩
  · exact .inl c
  · exact .inr ⟨F, e, h1, h2, h3, h4, h5, h6.mono hle⟩

theorem past_abs {n : Nat} {s : Sys} (hn : h[n]? = some s) {i : Nat} {st : NState}
    (hi : s.node i = some st) : PastLog h n st.raft.raftLog.abs :=
  fun _ _ he => ⟨n, s, .log i, _, Nat.le_refl _, hn, ⟨st, hi, rfl⟩, he⟩

theorem past_store {n : Nat} {s : Sys} (hn : h[n]? = some s) {i : Nat} {st : NState}
    (hi : s.node i = some st) : PastLog h n (storeLog st.raft.raftLog.store) :=
  fun _ _ he => ⟨n, s, .store i, _, Nat.le_refl _, hn, ⟨st, hi, rfl⟩, he⟩

theorem past_pre {n : Nat} {F : LLog} (hp : PastLog h n F) (i : Nat) : PastLog h n (pre F i) := by
  intro k e he
  rw [pre_entryAt] at he
  split at he
  · exact hp k e he
  · cases he

theorem past_splice {n : Nat} {F g : LLog} (h1 : F.snapIdx ≤ g.snapIdx) (h2 : g.snapIdx ≤ F.lastIndex)
    (hF : PastLog h n F) (hg : PastLog h n g) : PastLog h n (splice F g) := by
  intro k e he
  by_cases hk : k ≤ g.snapIdx
  · rw [splice_low h1 h2 hk] at he; exact hF k e he
  · rw [splice_high h1 h2 (by omega)] at he; exact hg k e he

/-- the ghost invariant of a state -/
structure GhostInv (h : List Sys) (c0 n : Nat) (s : Sys) : Prop where
  node : ∀ v st, s.node v = some st → NodeFull h c0 n st
  que : ∀ v st, s.node v = some st → ∀ x ∈ st.raft.msgs, x.msgType = .msgSnapshot →
    SnapMsgOk h c0 n x
  net : ∀ x ∈ s.net, x.msgType = .msgSnapshot → SnapMsgOk h c0 n x

/-- the snapshot of a storage names a point of the uncompacted stored log -/
theorem snapshotCore_ok {n : Nat} {st : NState} (I : NodeFull h c0 n st) (hw : st.raft.raftLog.store.WF)
    (hnz : ∀ e ∈ st.raft.raftLog.store.entries, e.term ≠ 0)
    {sn : Snapshot} (hsn : st.raft.raftLog.store.snapshotCore = .ok sn) (hi : c0 < sn.metadata.index) :
    ∃ e, (FS h c0 st).entryAt sn.metadata.index = some e ∧ e.term = sn.metadata.term := by
  unfold MemStorage.snapshotCore at hsn
  dsimp only at hsn
  split at hsn
  · rename_i heq
    cases hsn
    dsimp only at hi ⊢
    rw [heq] at hi ⊢
    exact I.smeta hi
  · split at hsn
    · rename_i hlt
      split at hsn
      · cases hsn
      · rename_i e0 he0
        split at hsn
        · cases hsn
        · rename_i hge
          split at hsn
          · cases hsn
          · rename_i e he
            cases hsn
            dsimp only at hi ⊢
            -- the stored entry at the recorded commit index
            have hfirst : st.raft.raftLog.store.firstIndex = e0.index := by
              unfold MemStorage.firstIndex; rw [he0]
            have hent : (storeLog st.raft.raftLog.store).entryAt
                st.raft.raftLog.store.hardState.commit = some e := by
              rw [LLog.entryAt_some_iff]
              have hp := hw.first_pos
              refine ⟨by show st.raft.raftLog.store.firstIndex - 1 < _; omega, ?_⟩
              show st.raft.raftLog.store.entries[_ - (st.raft.raftLog.store.firstIndex - 1) - 1]? = _
              rw [← he]; congr 1; omega
            exact ⟨e, I.sto.entry hent, rfl⟩
    · cases hsn

theorem ghost_inv (H : Hyp2w cfg c0 h) : ∀ (n : Nat) (s : Sys), h[n]? = some s →
    GhostInv h c0 n s := by
  refine hist_induct h (fun n s => GhostInv h c0 n s) ?_ ?_
  · intro s h0
    have hinit := hist_init H.hist s h0
    refine ⟨fun v st hv => ?_, fun v st hv x hx => ?_, fun x hx => ?_⟩
    · obtain ⟨_, sto, hboot, hwf, _, _⟩ := H.init s h0
      obtain ⟨c, rnd, hb⟩ := hboot v st hv
      obtain ⟨hinv, habs, hsl⟩ := boot_log c _ rnd st (hwf v st hv).1 hb
      have habs' : st.raft.raftLog.abs = storeLog st.raft.raftLog.store := habs.trans hsl.symm
      have hf0 := H.first0 s h0 v st hv
      have hs : (storeLog st.raft.raftLog.store).snapIdx = c0 := by
        show st.raft.raftLog.store.firstIndex - 1 = c0
        rw [hf0]; rfl
      have hF : Full (HistChain h) c0 (storeLog st.raft.raftLog.store)
          (storeLog st.raft.raftLog.store) :=
        Full.self hs (storeLog_contig hinv.storeWF) (hist_store h0 hv)
      refine NodeFull.of H (hF.congr habs') hF (past_store h0 hv) (past_store h0 hv)
        (fun _ _ _ => rfl) (fun hc => ?_)
      have := hinv.storeWF.snap_lt
      omega
    · rw [init_queue hinit v st hv] at hx; cases hx
    · rw [hinit.1] at hx; cases hx
  · intro n a b ha hb ih
    obtain ⟨s0, _, hall⟩ := H.inv_at
    have Ia := hall a (mem_of_get ha)
    obtain ⟨k, stk, stk', hka, hkb, hoth, hs⟩ := H.stp ha hb
    have I := ih.node k stk hka
    have oa := node_ok H ha hka
    have ob := node_ok H hb hkb
    -- the messages: old ones, or queued by an ordinary call from the node's own storage
    have pl := I.pastL.mono (Nat.le_succ n)
    have ps := I.pastS.mono (Nat.le_succ n)
    have hq' : ∀ x ∈ stk'.raft.msgs, x.msgType = .msgSnapshot → SnapMsgOk h c0 (n + 1) x := by
      intro x hx hty
      have old : x ∈ stk.raft.msgs → SnapMsgOk h c0 (n + 1) x :=
        fun g => (ih.que k stk hka x g hty).mono (Nat.le_succ n)
      cases hs with
      | call rnd op res hop hco _ hns hpn hss hcall _ _ =>
        by_cases hold : x ∈ stk.raft.msgs
        · exact old hold
        · have hsn := hss x hx hold hty
          by_cases hi : x.snapshot.metadata.index ≤ c0
          · exact .inl hi
          · obtain ⟨e, he, het⟩ := snapshotCore_ok I oa.inv.storeWF
              (fun e he => Ia.nz (.store k) _ ⟨stk, hka, rfl⟩ e.index e
                ((storeLog_contig oa.inv.storeWF).entryAt_of_mem he)) hsn (by omega)
            exact .inr ⟨_, e, I.sto.snap, I.sto.contig, I.sto.der, he, het, ps⟩
      | snap rnd m _ _ _ _ hout _ =>
        rcases hout.msgs x hx with g | g
        · exact old g
        · rw [g.1] at hty; cases hty
      | psnap rnd _ hout _ _ => rw [hout.msgs] at hx; exact old hx
      | send _ _ hq _ _ _ => rw [hq] at hx; cases hx
      | restart c rnd hboot _ => rw [(CV.boot_booted c _ rnd stk' hboot).msgs] at hx; cases hx
    refine ⟨fun v st hv => ?_, fun v st hv x hx hty => ?_, fun x hx hty => ?_⟩
    · by_cases hvk : v = k
      · subst hvk
        rw [hkb] at hv; cases hv
        cases hs with
        | restart c rnd hboot hnet =>
          obtain ⟨_, habs, hsl⟩ := boot_log c _ rnd stk' oa.inv.storeWF hboot
          have hmeta := boot_meta c _ rnd stk' oa.inv.storeWF hboot
          refine NodeFull.of H (I.sto.congr habs) (I.sto.congr hsl) ps ps (fun _ _ _ => rfl)
            (fun hc => ?_)
          rw [hmeta] at hc ⊢
          exact I.smeta hc
        | send hp hu hq hsame hnet _ =>
          refine NodeFull.of H (I.log.congr (by rw [hsame.1])) (I.sto.congr (by rw [hsame.1])) pl ps
            (fun hp j hj => I.pre (by rw [← hsame.1]; exact hp) j (by rw [hsame.1] at hj; exact hj))
            (fun hc => ?_)
          rw [hsame.1] at hc ⊢
          exact I.smeta hc
        | psnap rnd _ hout hpend _ =>
          cases hout with
          | noop hr =>
            have e1 : stk'.raft.raftLog = stk.raft.raftLog := by rw [hr]
            refine NodeFull.of H (I.log.congr (by rw [e1])) (I.sto.congr (by rw [e1])) pl ps
              (fun hp j hj => I.pre (by rw [← e1]; exact hp) j (by rw [e1] at hj; exact hj))
              (fun hc => ?_)
            rw [e1] at hc ⊢
            exact I.smeta hc
          | done sn L hp0 hr hinvL habs hcm hper hus hue hents hmeta hhs =>
            have e1 : stk'.raft.raftLog = L := by rw [hr]
            have habs1 : stk'.raft.raftLog.abs = stk.raft.raftLog.abs := by rw [e1]; exact habs
            have hsl : storeLog stk'.raft.raftLog.store =
                { snapIdx := sn.metadata.index, snapTerm := some sn.metadata.term, ents := [] } := by
              rw [e1]; exact storeLog_snap hents hmeta
            have habsk : stk.raft.raftLog.abs =
                { snapIdx := sn.metadata.index, snapTerm := some sn.metadata.term,
                  ents := stk.raft.raftLog.unstable.entries } := RaftLog.abs_some hp0
            have hidx : stk.raft.raftLog.abs.snapIdx = sn.metadata.index := by rw [habsk]
            have hterm : stk.raft.raftLog.abs.snapTerm = some sn.metadata.term := by rw [habsk]
            have hle := I.log.le
            rw [hidx] at hle
            have hm1 : stk'.raft.raftLog.store.snapshotMetadata = sn.metadata := by rw [e1]; exact hmeta
            by_cases hi0 : c0 < sn.metadata.index
            · obtain ⟨e, he, het⟩ := I.log.sT _ hterm (by rw [hidx]; exact hi0)
              rw [hidx] at he
              have hF2 := full_ofSnap (C := HistChain h) I.log.snap I.log.contig I.log.der hi0 he het
              refine NodeFull.of H (I.log.congr habs1) (hF2.congr hsl) pl (past_pre pl _)
                (fun _ j hj => ?_)
                (fun _ => ?_)
              · rw [habs1, hidx] at hj
                rw [pre_entryAt, if_pos hj]
              · rw [hm1]
                exact ⟨e, by rw [pre_entryAt, if_pos (Nat.le_refl _)]; exact he, het⟩
            · have heq : sn.metadata.index = c0 := by omega
              have hself : Full (HistChain h) c0 (storeLog stk'.raft.raftLog.store)
                  (storeLog stk'.raft.raftLog.store) :=
                Full.self (by rw [hsl]; exact heq) (storeLog_contig ob.inv.storeWF) (hist_store hb hkb)
              refine NodeFull.of H (I.log.congr habs1) hself pl (past_store hb hkb)
                (fun _ j hj => ?_) (fun hc => ?_)
              · rw [habs1, hidx, heq] at hj
                unfold LLog.entryAt
                rw [if_pos (by rw [I.log.snap]; exact hj),
                  if_pos (by rw [hsl]; show j ≤ sn.metadata.index; omega)]
              · rw [hm1] at hc; omega
        | snap rnd m hm hto hty hpn hout hnet =>
          cases hout with
          | skip hr =>
            have e1 : stk'.raft.raftLog = stk.raft.raftLog := by rw [hr]
            refine NodeFull.of H (I.log.congr (by rw [e1])) (I.sto.congr (by rw [e1])) pl ps
              (fun hp j hj => I.pre (by rw [← e1]; exact hp) j (by rw [e1] at hj; exact hj))
              (fun hc => ?_)
            rw [e1] at hc ⊢
            exact I.smeta hc
          | handled x hsf ht _ _ _ _ _ _ _ hsto hcase =>
            have hsto' : storeLog stk'.raft.raftLog.store = storeLog stk.raft.raftLog.store := by
              rw [hsto]
            have hsm : c0 < stk'.raft.raftLog.store.snapshotMetadata.index →
                ∃ e, (FS h c0 stk).entryAt stk'.raft.raftLog.store.snapshotMetadata.index = some e ∧
                  e.term = stk'.raft.raftLog.store.snapshotMetadata.term := by
              intro hc; rw [hsto] at hc ⊢; exact I.smeta hc
            have keep : stk'.raft.raftLog.unstable = stk.raft.raftLog.unstable →
                NodeFull h c0 (n + 1) stk' := by
              intro hu
              have habs1 := abs_of_eq hsto hu
              exact NodeFull.of H (I.log.congr habs1) (I.sto.congr hsto') pl ps
                (fun hp j hj => I.pre hpn j (by rw [habs1] at hj; exact hj)) hsm
            cases hcase with
            | kept hu _ _ _ => exact keep hu
            | ffwd hu _ _ _ _ _ _ => exact keep hu
            | restored hle hnm hu hc _ _ =>
              have hpend' : stk'.raft.raftLog.unstable.snapshot = some m.snapshot := by rw [hu]; rfl
              have habs1 : stk'.raft.raftLog.abs =
                  { snapIdx := m.snapshot.metadata.index, snapTerm := some m.snapshot.metadata.term,
                    ents := [] } := by
                rw [RaftLog.abs_some hpend', hu]; rfl
              have hnp : ∀ {P : Prop}, stk'.raft.raftLog.unstable.snapshot = none → P := by
                intro P hp; rw [hpend'] at hp; cases hp
              rcases ih.net m hm hty with c | ⟨F, e, f1, f2, f3, f4, f5, f6⟩
              · -- a snapshot at the common snapshot point
                have hge : c0 ≤ m.snapshot.metadata.index := by
                  have := Snap5.NodeOk.snap_le oa
                  have := I.log.le
                  omega
                have heq : m.snapshot.metadata.index = c0 := by omega
                have hself : Full (HistChain h) c0 stk'.raft.raftLog.abs stk'.raft.raftLog.abs :=
                  Full.self (by rw [habs1]; exact heq) (abs_Contig ob.inv) (hist_log hb hkb)
                exact NodeFull.of H hself (I.sto.congr hsto') (past_abs hb hkb) ps
                  (fun hp => hnp hp) hsm
              · by_cases hi0 : c0 < m.snapshot.metadata.index
                · have hF1 := full_ofSnap (C := HistChain h) f1 f2 f3 hi0 f4 f5
                  exact NodeFull.of H (hF1.congr habs1) (I.sto.congr hsto')
                    (past_pre (f6.mono (Nat.le_succ n)) _) ps (fun hp => hnp hp) hsm
                · have hge : c0 ≤ m.snapshot.metadata.index := by
                    have := Snap5.NodeOk.snap_le oa
                    have := I.log.le
                    omega
                  have heq : m.snapshot.metadata.index = c0 := by omega
                  have hself : Full (HistChain h) c0 stk'.raft.raftLog.abs stk'.raft.raftLog.abs :=
                    Full.self (by rw [habs1]; exact heq) (abs_Contig ob.inv) (hist_log hb hkb)
                  exact NodeFull.of H hself (I.sto.congr hsto') (past_abs hb hkb) ps
                    (fun hp => hnp hp) hsm
        | call rnd op res hop hco hca hns hpn hss hcall hnet hpn' =>
          obtain ⟨_, hse, _⟩ := call_more H ha hka hop hco hns hpn hcall
          have hmlt : stk.raft.raftLog.store.snapshotMetadata.index ≤ stk.raft.raftLog.abs.snapIdx := by
            have := oa.inv.storeWF.snap_lt
            rw [← oa.sidx hpn]
            show _ ≤ stk.raft.raftLog.store.firstIndex - 1
            omega
          by_cases hcomp : ∃ j, op = .compact j
          · -- a compaction: the ghost logs stay
            obtain ⟨j, rfl⟩ := hcomp
            have ho := compact_out oa.inv hpn (hco j rfl) hcall
            obtain ⟨l1, l2⟩ := ho.lt oa.inv
            have hF1 := (I.log.compact l1).congr ho.abs
            have hF2 := (I.sto.compact l2).congr ho.sto
            refine NodeFull.of H hF1 hF2 pl ps (fun _ i hi => ?_) (fun hc => ?_)
            · rw [ho.abs, compactTo_snapIdx] at hi
              by_cases hi0 : i ≤ stk.raft.raftLog.abs.snapIdx
              · exact I.pre hpn i hi0
              · rw [I.log.ents i (by omega), I.sto.ents i (by rw [oa.sidx hpn]; omega)]
                exact oa.inv.abs_store_persisted hpn (by have := ho.ok.2; omega)
            · rw [compact_meta hcall] at hc ⊢
              exact I.smeta hc
          · have hnc : ∀ j, op ≠ .compact j := fun j hj => hcomp ⟨j, hj⟩
            have hcs0 := call_step0 H ha hka hop hnc hns hpn hcall
            obtain ⟨k1, k2, k3⟩ := callstep_keeps (c0 := c0) hcs0
              ⟨oa.inv, hpn, oa.sidx hpn, oa.sterm hpn, oa.id, oa.nb⟩ I.log.ne
            have hne' : stk'.raft.raftLog.abs.snapTerm = none → c0 < stk'.raft.raftLog.abs.snapIdx →
                stk'.raft.raftLog.abs.ents ≠ [] := by
              intro hn hp hnil
              rw [k2] at hn
              rw [k1] at hp
              have hne0 := I.log.ne hn hp
              have hlen : 0 < stk.raft.raftLog.abs.ents.length := List.length_pos_iff.2 hne0
              obtain ⟨f, hf⟩ := stk.raft.raftLog.abs.entryAt_exists
                (i := stk.raft.raftLog.abs.snapIdx + 1) (by omega) (by unfold LLog.lastIndex; omega)
              rw [← k3 hn hp] at hf
              have := stk'.raft.raftLog.abs.entryAt_mem hf
              rw [hnil] at this
              cases this
            have hF1 := I.log.splice k1 k2 (abs_Contig ob.inv) (hist_log hb hkb) k3 hne'
            have hlo1 : (FL h c0 stk).snapIdx ≤ stk'.raft.raftLog.abs.snapIdx := by
              rw [I.log.snap, k1]; exact I.log.le
            have hlo2 : stk'.raft.raftLog.abs.snapIdx ≤ (FL h c0 stk).lastIndex := by
              rw [I.log.last, k1]; exact snap_le_last _
            rcases hse with c | c | ⟨j, c, _⟩
            · refine NodeFull.of H hF1 (I.sto.congr c.storeLog)
                (past_splice hlo1 hlo2 pl (past_abs hb hkb)) ps (fun _ i hi => ?_) (fun hc => ?_)
              · rw [splice_low hlo1 hlo2 hi]
                exact I.pre hpn i (by rw [← k1]; exact hi)
              · rw [c.2] at hc ⊢
                exact I.smeta hc
            · subst c
              obtain ⟨u1, _⟩ := stabilize_out oa.inv hpn hcall
              have heq := abs_eq_storeLog ob.inv hpn' u1
              refine NodeFull.of H hF1 (hF1.congr heq.symm)
                (past_splice hlo1 hlo2 pl (past_abs hb hkb))
                (past_splice hlo1 hlo2 pl (past_abs hb hkb)) (fun _ _ _ => rfl) (fun hc => ?_)
              rw [stabilize_meta hcall] at hc ⊢
              obtain ⟨e, he, het⟩ := I.smeta hc
              refine ⟨e, ?_, het⟩
              rw [splice_low hlo1 hlo2 (by rw [k1]; exact hmlt), I.pre hpn _ hmlt]
              exact he
            · exact absurd c (hnc j)
      · rw [hoth v hvk] at hv
        have J := ih.node v st hv
        exact ⟨J.log, J.sto, J.pre, J.smeta, J.pastL.mono (Nat.le_succ n), J.pastS.mono (Nat.le_succ n)⟩
    · by_cases hvk : v = k
      · subst hvk
        rw [hkb] at hv; cases hv
        exact hq' x hx hty
      · rw [hoth v hvk] at hv
        exact (ih.que v st hv x hx hty).mono (Nat.le_succ n)
    · rcases hs.net_sub x hx with g | g
      · exact (ih.net x g hty).mono (Nat.le_succ n)
      · exact (ih.que k stk hka x g hty).mono (Nat.le_succ n)

end Snap5
end Cluster
end RaftModel
