import RaftProofs.ClusterCommit6B

/-!
Cluster-level commit safety with `batch_append`, with queued `MsgSnapshot`s allowed (C01k), part 6C:
**a concrete history (kernel-evaluated) under `Hyp3wQ` in which a `MsgSnapshot` is queued at a leader that
batches**: the history of `C01d_snapshot_state_reachable` (`RaftProofs/ClusterCommit4M.lean`: node 1 leads,
node 2's `request_snapshot` made it queue a `MsgSnapshot` and move node 2's progress to `Snapshot`)
continued by `set_batch_append(true)` and a proposal at node 1.  `nosq` of `Hyp3wB` fails, `NoBatch` fails,
`SaneQ` holds.
-/
namespace RaftModel
namespace ClusterB
open Node Raft Raft.CC Raft.CP Cluster RaftProps.C02 RaftProps.C05

def c01k_a14 := c02x_st (Node.call c01z_a13 none (.setBatchAppend true))
def c01k_a15 := c02x_st (Node.call c01k_a14 none (.propose [] [1]))

def c01k_s29 : Sys := c01z_s28.setNode 1 c01k_a14
def c01k_s30 : Sys := c01k_s29.setNode 1 c01k_a15

def c01k_tail : List Sys := [c01k_s29, c01k_s30]
def c01k_hist : List Sys := c01z_hist ++ c01k_tail

set_option maxRecDepth 100000 in
theorem c01k_ksteps : Chained KStep (c01z_s28 :: c01k_tail) := by
  refine ⟨?_, ?_, trivial⟩
  · exact KStep.call _ 1 c01z_a13 c01k_a14 none (.setBatchAppend true) _ rfl rfl
      (fun k hc => by cases hc) (fun k hc => by cases hc) (c02x_out _ (by decide))
  · exact KStep.call _ 1 c01k_a14 c01k_a15 none (.propose [] [1]) _ rfl rfl
      (fun k hc => by cases hc) (fun k hc => by cases hc) (c02x_out _ (by decide))

theorem c01k_hist_eq : c01k_hist =
    (c01y_hist ++ [c01z_s26, c01z_s27]) ++ c01z_s28 :: c01k_tail := by
  simp [c01k_hist, c01z_hist, c01z_tail]

theorem c01k_ksteps_all : Chained KStep c01k_hist := by
  rw [c01k_hist_eq]
  refine chained_append _ _ _ ?_ c01k_ksteps
  have := c01z_ksteps_all
  simpa [c01z_hist, c01z_tail] using this

theorem c01k_history : History c01k_hist := by
  rw [c01k_hist_eq]
  refine chained_history _ c01z_s28 ?_ _ (Chained.mono (fun _ _ hc => hc.step) _ c01k_ksteps)
  have := c01z_history
  simpa [c01z_hist, c01z_tail] using this

/-- `SaneQ` for one node, decidably: no `MsgSnapshot` queued, or no queued append anchored in the void -/
def c01k_saneq (st : NState) : Bool :=
  st.raft.msgs.all (fun y => decide (y.msgType ≠ .msgSnapshot)) ||
  st.raft.msgs.all (fun x => decide (x.msgType = .msgAppend → x.logTerm = 0 → x.index = 0))

/-- what `Hyp3wQ` assumes about one state -/
def c01k_chk (s : Sys) : Bool :=
  c02x_fixed s && s.net.all (fun x => decide (x.msgType ≠ .msgSnapshot)) &&
  s.nodes.all (fun p => c01x_nodeOk p.2 && c01k_saneq p.2)

theorem c01k_chk_ok (s : Sys) (h : c01k_chk s = true) :
    FixedCfg c02x_cfg s ∧ (∀ x ∈ s.net, x.msgType ≠ .msgSnapshot) ∧
    (∀ i st, s.node i = some st → c01x_nodeOk st = true) ∧ SaneQ s := by
  unfold c01k_chk at h
  simp only [Bool.and_eq_true] at h
  obtain ⟨⟨h1, h3⟩, h4⟩ := h
  rw [List.all_eq_true] at h4
  refine ⟨c02x_fixed_ok s h1, fun x hx => ?_, fun i st hi => ?_, fun i st hi hq x hx hty hz => ?_⟩
  · rw [List.all_eq_true] at h3
    exact of_decide_eq_true (h3 x hx)
  · have := h4 _ (c02_lookup_mem s.nodes i st hi)
    simp only [Bool.and_eq_true] at this
    exact this.1
  · have := h4 _ (c02_lookup_mem s.nodes i st hi)
    simp only [Bool.and_eq_true] at this
    have h5 := this.2
    unfold c01k_saneq at h5
    rcases Bool.or_eq_true _ _ ▸ h5 with c | c
    · obtain ⟨y, hy, hyt⟩ := hq
      rw [List.all_eq_true] at c
      exact absurd hyt (of_decide_eq_true (c y hy))
    · rw [List.all_eq_true] at c
      exact of_decide_eq_true (c x hx) hty hz

set_option maxRecDepth 100000 in
theorem c01k_chk_all : ∀ s ∈ c01k_hist, c01k_chk s = true := by
  intro s hs
  simp only [c01k_hist, c01k_tail, c01z_hist, c01z_tail, c01y_hist, c01y_tail, c01x_hist, c05x_hist,
    c02x_hist, List.cons_append, List.nil_append, List.mem_cons, List.not_mem_nil, or_false] at hs
  rcases hs with rfl | rfl | rfl | rfl | rfl | rfl | rfl | rfl | rfl | rfl | rfl | rfl | rfl |
    rfl | rfl | rfl | rfl | rfl | rfl | rfl | rfl | rfl | rfl | rfl | rfl | rfl | rfl | rfl | rfl |
    rfl | rfl <;> decide

/-- **the history satisfies `Hyp3wQ`** -/
theorem c01k_hyp3wQ : Hyp3wQ c02x_cfg 0 c01k_hist := by
  have h0 : c01k_hist[0]? = some c02x_s0 := rfl
  have hall := fun s hs => c01k_chk_ok s (c01k_chk_all s hs)
  have hnode : ∀ s ∈ c01k_hist, ∀ i st, s.node i = some st →
      st.raft.raftLog.unstable.snapshot = none ∧ st.raft.raftLog.store.firstIndex = 1 ∧
      (st.raft.raftLog.abs.snapTerm = some 0 ∨ st.raft.raftLog.abs.snapTerm = none) := by
    intro s hs i st hi
    have := (hall s hs).2.2.1 i st hi
    unfold c01x_nodeOk at this
    simp only [Bool.and_eq_true, Bool.or_eq_true, decide_eq_true_eq, Option.isNone_iff_eq_none] at this
    exact ⟨this.1.1, this.1.2, this.2⟩
  refine
    { hist := c01k_history, fix := fun s hs => (hall s hs).1, ne := by decide, nd1 := by decide,
      nd2 := by decide, init := ?_, steps := chained_at _ c01k_ksteps_all,
      nosnap := fun s hs x hx => (hall s hs).2.1 x hx, mv := multiVoter_of_nolone c01x_nolone,
      nolone := c01x_nolone,
      shape := fun s hs i st hi => ⟨(hnode s hs i st hi).1, (hnode s hs i st hi).2.1⟩,
      initc := ?_, c0z := rfl, snapt0 := ?_,
      saneq := fun s hs => (hall s hs).2.2.2 }
  · intro s hs
    rw [h0] at hs; cases hs
    exact c05x_initOk
  · intro s hs i st hi
    rw [h0] at hs; cases hs
    have hm := c02_lookup_mem _ i st hi
    simp only [c02x_s0, List.mem_cons, Prod.mk.injEq, List.not_mem_nil, or_false] at hm
    rcases hm with ⟨rfl, rfl⟩ | ⟨rfl, rfl⟩ | ⟨rfl, rfl⟩ <;> decide
  · intro s hs i st hi t0 ht0 j st0 _
    rcases (hnode s (mem_of_get hs) i st hi).2.2 with c | c
    · rw [c] at ht0; cases ht0; exact Nat.zero_le _
    · rw [c] at ht0; cases ht0

end ClusterB
end RaftModel
