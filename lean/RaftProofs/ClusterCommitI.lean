import RaftProofs.ClusterCommitH

/-!
Cluster-level commit safety, helper lemmas part I: `poll`, `campaign`, `hup`.
-/
namespace RaftModel
namespace Raft
namespace CC
open VoteOb

/-- replacing the tracker by one with the same matched table and the same voters -/
theorem G.setPrs {A : Nat → Nat → Nat → Prop} {a r : Raft} {m : Message} {p : ProgressTracker}
    (h0 : G A a m r) (hp : mfun p = mfun r.prs) (hv : p.voters = r.prs.voters) :
    G A a m { r with prs := p } := by
  refine ⟨h0.id, ⟨?_⟩, fun hs => ?_, ?_, ?_, h0.qvk, ?_⟩
  · show r.state = .leader → ∀ j x, mfun p j = some x → _
    rw [hp]; exact h0.mok.h
  · rcases h0.lc hs with g | g
    · exact .inl g
    · right
      unfold LCok at *
      show (∃ Q, IsJointQuorum p.voters Q ∧ ∀ v ∈ Q, ∃ x, mfun p v = some x ∧ _) ∧ _
      rw [hp, hv]; exact g
  · intro x hx hty
    exact (h0.qlk x hx hty).imp (fun g => g) (fun g => ⟨g.lead, g.term, g.frm, g.app, g.hb⟩)
  · intro x hx hty
    exact (h0.qak x hx hty).imp (fun g => g) (fun g => ⟨g.term, g.frm, g.src⟩)
  · intro x hx hty
    exact (h0.qrq x hx hty).imp (fun g => g) (fun g => ⟨g.term, g.last, g.lt⟩)

theorem mfun_recordVote (p : ProgressTracker) (id : Nat) (v : Bool) :
    mfun (p.recordVote id v) = mfun p := by
  unfold ProgressTracker.recordVote; split <;> rfl

theorem voters_recordVote (p : ProgressTracker) (id : Nat) (v : Bool) :
    (p.recordVote id v).voters = p.voters := by
  unfold ProgressTracker.recordVote; split <;> rfl

/-- the vote-request loop of `campaign` -/
theorem sendVoteRequests_g {A : Nat → Nat → Nat → Prop} {a r r' : Raft} {m : Message}
    {ct : CampaignType} {vm : MsgType} {term : Nat}
    (hvm : vm = .msgRequestVote ∨ vm = .msgRequestPreVote) (hterm : term ≠ 0)
    (hrq : vm = .msgRequestVote → term = r.term)
    (hpq : vm = .msgRequestPreVote → term = r.term + 1)
    (h : r.sendVoteRequests ct vm term = .ok r') (h0 : G A a m r) : G A a m r' := by
  obtain ⟨lt, c, cterm, hlt, hci, e⟩ := c02_sendVoteRequests_spec hvm hterm h
  have hci' : c = r.raftLog.committed ∧ r.raftLog.term c = .ok cterm := by
    unfold RaftLog.commitInfo at hci
    split at hci
    · rename_i t ht
      cases hci
      exact ⟨rfl, ht⟩
    · cases hci
    · cases hci
  have hnew : ∀ y ∈ (c02_voteTargets r).map (voteReq r vm ct term c cterm lt),
      y.msgType = vm ∧ y.term = term ∧ y.index = r.raftLog.lastIndex ∧ y.logTerm = lt ∧
      y.commit = c ∧ y.commitTerm = cterm := by
    intro y hy
    obtain ⟨to, _, rfl⟩ := List.mem_map.1 hy
    exact ⟨rfl, rfl, rfl, rfl, rfl, rfl⟩
  have hvm' : lkT vm = false ∧ vm ≠ .msgAppendResponse := by
    rcases hvm with g | g <;> rw [g] <;> exact ⟨rfl, by intro hc; cases hc⟩
  rw [e]
  refine ⟨h0.id, ⟨h0.mok.h⟩, h0.lc, ?_, ?_, ?_, ?_⟩
  · intro y hy hty
    rcases List.mem_append.1 hy with hy | hy
    · exact (h0.qlk y hy hty).imp (fun g => g) (fun g => ⟨g.lead, g.term, g.frm, g.app, g.hb⟩)
    · rw [(hnew y hy).1, hvm'.1] at hty; cases hty
  · intro y hy hty
    rcases List.mem_append.1 hy with hy | hy
    · exact (h0.qak y hy hty).imp (fun g => g) (fun g => ⟨g.term, g.frm, g.src⟩)
    · exact absurd ((hnew y hy).1.symm.trans hty.1) hvm'.2
  · intro y hy hty
    rcases List.mem_append.1 hy with hy | hy
    · exact h0.qvk y hy hty
    · obtain ⟨f1, f2, _, _, f5, f6⟩ := hnew y hy
      right; right
      show y.commit ≤ r.raftLog.committed ∧ r.raftLog.term y.commit = .ok y.commitTerm ∧
        VT r.term y
      rw [f5, f6]
      refine ⟨Nat.le_of_eq hci'.1, hci'.2, fun hc => ?_, fun hc => ?_, fun hc => ?_⟩
      · rw [f2]; exact hpq (f1.symm.trans hc)
      · rw [f2]
        rcases hvm with g | g
        · exact hrq g
        · exact absurd (f1.trans g) hc
      · rw [f1] at hc
        rcases hvm with g | g <;> rw [g] at hc <;> rcases hc with c | c <;> cases c
  · intro y hy hty
    rcases List.mem_append.1 hy with hy | hy
    · exact (h0.qrq y hy hty).imp (fun g => g) (fun g => ⟨g.term, g.last, g.lt⟩)
    · obtain ⟨f1, f2, f3, f4, _, _⟩ := hnew y hy
      right
      exact ⟨f2.trans (hrq (f1.symm.trans hty)), f3, by rw [f4]; exact hlt⟩

theorem becomeLeader_batch {r r' : Raft} (h : r.becomeLeader = .ok r') :
    r'.batchAppend = r.batchAppend := by
  unfold Raft.becomeLeader at h
  split at h
  · cases h
  · simp only [] at h
    split at h
    · cases h
    · split at h
      · cases h
      · split at h
        · rename_i r2 ha
          cases h
          rw [(appendEntry_fields ha).2.1]
          exact reset_batchAppend r r.term
        · cases h
        · cases h
        · cases h

/-- **`poll`**, entered with nothing queued and the commit index of the start -/
theorem pollWith_g {A : Nat → Nat → Nat → Prop} {a r r' : Raft} {m : Message}
    {f : Raft → Res Raft} {frm : Nat} {t : MsgType} {v : Bool} {res : VoteResult}
    (hA : ∀ j t x y, y ≤ x → A j t x → A j t y) (hnb : r.batchAppend = false)
    (hf : ∀ r0 r1, f r0 = .ok r1 → G A a m r0 → Old a r0 → r0.batchAppend = false →
      r0.raftLog.committed = a.raftLog.committed → G A a m r1)
    (h : pollWith f r frm t v = .ok (r', res)) (h0 : G A a m r) (ho : Old a r)
    (hcm : r.raftLog.committed = a.raftLog.committed) :
    G A a m r' ∧ (res ≠ .won → Old a r' ∧ r'.raftLog.committed = a.raftLog.committed ∧
      r'.term = r.term) := by
  have g1 : G A a m (voted r frm v) :=
    h0.setPrs (mfun_recordVote _ _ _) (voters_recordVote _ _ _)
  have ho1 : Old a (voted r frm v) := ho
  obtain ⟨_, hc⟩ := c02_pollWith_cases h
  rcases hc with ⟨c1, _, c3⟩ | ⟨c1, _, c3⟩ | ⟨c1, c2⟩ | ⟨c1, c2⟩
  · exact ⟨hf _ _ c3 g1 ho1 hnb hcm, fun hne => absurd c1 hne⟩
  · unfold wonBy at c3
    obtain ⟨r1, h1, h2⟩ := Res.bind_eq_ok c3
    obtain ⟨g2, _, _, g5⟩ := becomeLeader_g h1 g1 ho1 hcm
    have hb1 : r1.batchAppend = false := (becomeLeader_batch h1).trans hnb
    exact ⟨g2.sf hA (bcastAppend_sf hb1 h2 SF.rfl) (.inl g5), fun hne => absurd c1 hne⟩
  · rw [c2]
    refine ⟨becomeFollower_g _ _ g1 ho1, fun _ => ⟨ho1.becomeFollower _ _, ?_, ?_⟩⟩
    · rw [becomeFollower_committed]; exact hcm
    · exact (becomeFollower_term_vote _ _ _).1
  · rw [c2]
    exact ⟨g1, fun _ => ⟨ho1, hcm, rfl⟩⟩

theorem becomeCandidate_batch {r r' : Raft} (h : r.becomeCandidate = .ok r') :
    r'.batchAppend = r.batchAppend := by
  unfold Raft.becomeCandidate at h
  split at h
  · cases h
  · split at h
    · cases h
    · cases h; exact reset_batchAppend r _

/-- the shape of what `poll` guarantees, as used by `campaign` -/
def PollOk (A : Nat → Nat → Nat → Prop) (a : Raft) (m : Message)
    (poll : Raft → Nat → MsgType → Bool → Res (Raft × VoteResult)) : Prop :=
  ∀ r0 r1 frm t v res, poll r0 frm t v = .ok (r1, res) → G A a m r0 → Old a r0 →
    r0.batchAppend = false → r0.raftLog.committed = a.raftLog.committed →
    G A a m r1 ∧ (res ≠ .won → Old a r1 ∧ r1.raftLog.committed = a.raftLog.committed ∧
      r1.term = r0.term)

theorem campaignWith_g {A : Nat → Nat → Nat → Prop} {a r r' : Raft} {m : Message}
    {poll : Raft → Nat → MsgType → Bool → Res (Raft × VoteResult)} {ct : CampaignType}
    (hpoll : PollOk A a m poll) (hnb : r.batchAppend = false)
    (h : campaignWith poll r ct = .ok r') (h0 : G A a m r) (ho : Old a r)
    (hcm : r.raftLog.committed = a.raftLog.committed) : G A a m r' := by
  unfold Raft.campaignWith at h
  obtain ⟨⟨r1, vm, term⟩, hstart, h⟩ := Res.bind_eq_ok h
  simp only [] at h
  -- the state after the role change
  have hs1 : G A a m r1 ∧ Old a r1 ∧ r1.batchAppend = false ∧
      r1.raftLog.committed = a.raftLog.committed ∧ term ≠ 0 ∧
      (vm = .msgRequestVote ∨ vm = .msgRequestPreVote) ∧ (vm = .msgRequestVote → term = r1.term) ∧
      (vm = .msgRequestPreVote → term = r1.term + 1) := by
    split at hstart
    · obtain ⟨r2, h2, h3⟩ := Res.bind_eq_ok hstart
      obtain ⟨g1, g2⟩ := becomePreCandidate_g h2 h0 ho
      have e : r2.batchAppend = r.batchAppend ∧ r2.raftLog = r.raftLog := by
        unfold Raft.becomePreCandidate at h2
        split at h2
        · cases h2
        · cases h2; exact ⟨rfl, rfl⟩
      split at h3
      · cases h3
      · cases h3
        exact ⟨g1, g2, e.1.trans hnb, by rw [e.2]; exact hcm, by omega, .inr rfl,
          (fun hc => by cases hc), (fun _ => rfl)⟩
    · obtain ⟨r2, h2, h3⟩ := Res.bind_eq_ok hstart
      cases h3
      obtain ⟨g1, g2⟩ := becomeCandidate_g h2 h0 ho
      obtain ⟨hk, e1, _⟩ := c02_becomeCandidate_spec h2
      exact ⟨g1, g2, (becomeCandidate_batch h2).trans hnb, hk.log.committed.trans hcm,
        by rw [e1]; omega, .inl rfl, (fun _ => rfl), (fun hc => by cases hc)⟩
  obtain ⟨g1, o1, b1, c1, t1, v1, q1, p1⟩ := hs1
  obtain ⟨⟨r3, res⟩, hp, h⟩ := Res.bind_eq_ok h
  obtain ⟨g3, hrest⟩ := hpoll _ _ _ _ _ _ hp g1 o1 b1 c1
  simp only [] at h
  split at h
  · cases h; exact g3
  · rename_i hne
    obtain ⟨_, _, t3⟩ := hrest hne
    exact sendVoteRequests_g v1 t1 (fun hv => (q1 hv).trans t3.symm)
      (fun hv => by rw [p1 hv, t3]) h g3

theorem pollWith_ok {A : Nat → Nat → Nat → Prop} {a : Raft} {m : Message} {f : Raft → Res Raft}
    (hA : ∀ j t x y, y ≤ x → A j t x → A j t y)
    (hf : ∀ r0 r1, f r0 = .ok r1 → G A a m r0 → Old a r0 → r0.batchAppend = false →
      r0.raftLog.committed = a.raftLog.committed → G A a m r1) :
    PollOk A a m (pollWith f) :=
  fun _ _ _ _ _ _ h h0 ho hnb hcm => pollWith_g hA hnb hf h h0 ho hcm

theorem campaignAfterPreVote_g {A : Nat → Nat → Nat → Prop} {a r r' : Raft} {m : Message}
    (hA : ∀ j t x y, y ≤ x → A j t x → A j t y) (hnb : r.batchAppend = false)
    (h : r.campaignAfterPreVote = .ok r') (h0 : G A a m r) (ho : Old a r)
    (hcm : r.raftLog.committed = a.raftLog.committed) : G A a m r' := by
  unfold Raft.campaignAfterPreVote at h
  refine campaignWith_g (pollWith_ok hA ?_) hnb h h0 ho hcm
  intro r0 r1 hc
  cases hc

theorem poll_ok {A : Nat → Nat → Nat → Prop} {a : Raft} {m : Message}
    (hA : ∀ j t x y, y ≤ x → A j t x → A j t y) : PollOk A a m Raft.poll := by
  unfold Raft.poll
  exact pollWith_ok hA (fun r0 r1 h h0 ho hnb hcm => campaignAfterPreVote_g hA hnb h h0 ho hcm)

theorem campaign_g {A : Nat → Nat → Nat → Prop} {a r r' : Raft} {m : Message} {ct : CampaignType}
    (hA : ∀ j t x y, y ≤ x → A j t x → A j t y) (hnb : r.batchAppend = false)
    (h : r.campaign ct = .ok r') (h0 : G A a m r) (ho : Old a r)
    (hcm : r.raftLog.committed = a.raftLog.committed) : G A a m r' := by
  unfold Raft.campaign at h
  exact campaignWith_g (poll_ok hA) hnb h h0 ho hcm

theorem hup_g {A : Nat → Nat → Nat → Prop} {a r r' : Raft} {m : Message} {tl : Bool}
    (hA : ∀ j t x y, y ≤ x → A j t x → A j t y) (hnb : r.batchAppend = false)
    (h : r.hup tl = .ok r') (h0 : G A a m r) (ho : Old a r)
    (hcm : r.raftLog.committed = a.raftLog.committed) : G A a m r' := by
  unfold Raft.hup at h
  split at h
  · cases h; exact h0
  · split at h
    · cases h; exact h0
    · split at h
      · cases h
      · cases h
      · cases h; exact h0
      · split at h
        · cases h; exact h0
        · split at h
          · exact campaign_g hA hnb h h0 ho hcm
          · split at h
            · exact campaign_g hA hnb h h0 ho hcm
            · exact campaign_g hA hnb h h0 ho hcm

end CC
end Raft
end RaftModel
