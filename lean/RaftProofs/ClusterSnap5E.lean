import RaftProofs.ClusterSnap5D

/-!
[Copy of `ClusterSnap2E.lean` for the development `Snap5` (with `request_snapshot`): `NoReq` is replaced by
`ReqOk`, `SnapCase.restored` is widened — see `ClusterSnap5A.lean`, `RaftProps/C01i.lean`.]

Commit safety of `ClusterSem` with compaction and snapshots, part 2E: the per-call facts of
`ClusterSnapC` for a call that is not the delivery of a snapshot and runs without a pending snapshot
(`call_facts`, `call_more`), provenance of `MsgAppend`s and `MsgHeartbeat`s, the nodes of a history
(`node_ok`), and **what one step does to the log of one node** (`node_step`: as `Snap.node_step`, plus
the restoration of a snapshot).
-/
namespace RaftModel
namespace Cluster
namespace Snap5
open Node Raft Raft.CC RaftProps.C02 RaftProps.C05 Snap

variable {cfg : JointConfig} {c0 : Nat} {h : List Sys}

/-- everything the node-level layers say about one `call` / `deliver` step of the history -/
theorem call_facts (H : Hyp2w cfg c0 h) {n : Nat} {a : Sys} {i : Nat} {st st' : NState}
    {rnd : Option Nat} {op : NodeOp} {res : OpRes}
    (ha : h[n]? = some a) (hi : a.node i = some st)
    (hop : appOp op = true ∨ ∃ m, op = .step m ∧ m ∈ a.net ∧ m.to = i)
    (hc : ∀ j, op = .compact j → CompactOk st.raft.raftLog j)
    (hms : ∀ m, op = .step m → m.msgType ≠ .msgSnapshot)
    (hpend : st.raft.raftLog.unstable.snapshot = none)
    (hcall : Node.call st rnd op = .ok (res, st')) :
    G (Anet a.net) st.raft (CV.opMsg op) st'.raft ∧ LStep st.raft st'.raft (CV.opMsg op) ∧
    QF st.raft st'.raft ∧ LogRel' st st' op ∧ st.raft.id = i := by
  obtain ⟨s0, _, hall⟩ := H.inv_at
  have I := hall a (mem_of_get ha)
  have hnb := H.nb a (mem_of_get ha)
  have hop1 : appOp op = true ∨ ∃ m, op = .step m ∧ m ∈ a.net := by
    rcases hop with g | ⟨m, g1, g2, _⟩
    · exact .inl g
    · exact .inr ⟨m, g1, g2⟩
  have hop' : op ≠ .drain ∧ ∀ m, op ≠ .rstep m := by
    rcases hop1 with h1 | ⟨m, h1, _⟩
    · constructor
      · intro hc; rw [hc] at h1; cases h1
      · intro m hc; rw [hc] at h1; cases h1
    · rw [h1]
      exact ⟨(by intro hc; cases hc), (by intro m' hc; cases hc)⟩
  have g := kstep_g (H.mokc n a ha) hnb hi hop1 hms hcall
  have hw : ∀ m, op = .step m → m.msgType = .msgAppend → MsgOk m := by
    intro m hm hty
    rcases hop1 with h1 | ⟨m', h1, h2⟩
    · rw [hm] at h1; cases h1
    · rw [hm] at h1; cases h1
      exact I.msgOk h2 hty
  have hL := call_lstep st st' rnd op res (I.inv i st hi) (hnb i st hi) hop' hw hc hcall
  have hid := (((hist_all H.hist).1 a (mem_of_get ha)).ids i st hi).1
  by_cases hco : ∃ j, op = .compact j
  · obtain ⟨j, rfl⟩ := hco
    have hout := compact_out (I.inv i st hi) hpend (hc j rfl) hcall
    exact ⟨g, hL, fun x hx _ => .inl (by rw [← hout.msgs]; exact hx), .inr ⟨j, rfl, hout⟩, hid⟩
  · have hnc : ∀ j, op ≠ .compact j := fun j hj => hco ⟨j, hj⟩
    have hq := call_q st st' rnd op res (I.inv i st hi) (hnb i st hi) hop' hms hnc hpend
      (fun x hx hty => by
        rcases g.qlk x hx (by rw [hty]; rfl) with c | c
        · exact .inl c
        · exact .inr c.lead) hcall
    exact ⟨g, hL, hq.q, .inl hq.l, hid⟩

/-- **provenance of `MsgAppend`s** (the record is `Cluster.AppGen`) -/
theorem append_prov (H : Hyp2w cfg c0 h) : ∀ (n : Nat) (s : Sys), h[n]? = some s →
    (∀ i st, s.node i = some st → ∀ x ∈ st.raft.msgs, x.msgType = .msgAppend →
      Gen (AppGen h) n i x) ∧
    (∀ x ∈ s.net, x.msgType = .msgAppend → ∃ i, Gen (AppGen h) n i x) := by
  refine provenance H.toHyp (fun x => x.msgType = .msgAppend)
    (fun x hx hc => by rw [hx] at hc; cases hc) (AppGen h) ?_
  intro n a b i st st' rnd op res ha hb hi hi' hcall hop hco hns hpn _ _ x hx hty
  obtain ⟨g, _, hq, _, hid⟩ := call_facts H ha hi hop hco hns hpn hcall
  rcases g.qlk x hx (by rw [hty]; rfl) with c | c
  · exact .inl c
  · rcases hq x hx hty with d | d
    · exact .inl d
    · right
      exact ⟨b, st', hb, hi', c.lead, c.term.symm, c.frm.trans (g.id.trans hid), (c.app hty).1,
        (c.app hty).2, d⟩

/-- **provenance of `MsgHeartbeat`s** (the record is `Cluster.HbGen`) -/
theorem hb_prov (H : Hyp2w cfg c0 h) : ∀ (n : Nat) (s : Sys), h[n]? = some s →
    (∀ i st, s.node i = some st → ∀ x ∈ st.raft.msgs, x.msgType = .msgHeartbeat →
      Gen (HbGen h) n i x) ∧
    (∀ x ∈ s.net, x.msgType = .msgHeartbeat → ∃ i, Gen (HbGen h) n i x) := by
  refine provenance H.toHyp (fun x => x.msgType = .msgHeartbeat)
    (fun x hx hc => by rw [hx] at hc; cases hc) (HbGen h) ?_
  intro n a b i st st' rnd op res ha hb hi hi' hcall hop hco hns hpn _ hnet x hx hty
  obtain ⟨g, _, _, _, hid⟩ := call_facts H ha hi hop hco hns hpn hcall
  rcases g.qlk x hx (by rw [hty]; rfl) with c | c
  · exact .inl c
  · right
    have hid' : st'.raft.id = i := g.id.trans hid
    refine ⟨b, st', hb, hi', c.lead, c.term.symm, c.frm.trans hid', (c.hb hty).1, ?_⟩
    rcases (c.hb hty).2 with d | d
    · exact .inl d
    · right; rw [hnet, c.term]; exact d

/-- the commit index, the stored entries and the stored hard state over one `call` / `deliver` step of
the history (`Cluster.call_more`; a compaction keeps the commit index and the hard state) -/
theorem call_more (H : Hyp2w cfg c0 h) {n : Nat} {a : Sys} {i : Nat} {st st' : NState}
    {rnd : Option Nat} {op : NodeOp} {res : OpRes}
    (ha : h[n]? = some a) (hi : a.node i = some st)
    (hop : appOp op = true ∨ ∃ m, op = .step m ∧ m ∈ a.net ∧ m.to = i)
    (hc : ∀ j, op = .compact j → CompactOk st.raft.raftLog j)
    (hms : ∀ m, op = .step m → m.msgType ≠ .msgSnapshot)
    (hs1 : st.raft.raftLog.unstable.snapshot = none)
    (hcall : Node.call st rnd op = .ok (res, st')) :
    Src st st' op ∧
    (SE st.raft st'.raft ∨ op = .stabilize ∨ ∃ k, op = .compact k ∧ CompactOut st st' k) ∧
    HsOut st st' op := by
  obtain ⟨s0, _, hall⟩ := H.inv_at
  have I := hall a (mem_of_get ha)
  have hnb := H.nb a (mem_of_get ha)
  have hop' : op ≠ .drain ∧ ∀ m, op ≠ .rstep m := by
    rcases hop with h1 | ⟨m, h1, _⟩
    · constructor
      · intro hc; rw [hc] at h1; cases h1
      · intro m hc; rw [hc] at h1; cases h1
    · rw [h1]
      exact ⟨(by intro hc; cases hc), (by intro m' hc; cases hc)⟩
  have hw : ∀ m, op = .step m → m.msgType = .msgAppend → MsgOk m := by
    intro m hm hty
    rcases hop with h1 | ⟨m', h1, h2, _⟩
    · rw [hm] at h1; cases h1
    · rw [hm] at h1; cases h1
      exact I.msgOk h2 hty
  have hhs := call_hs st st' rnd op res hop' hs1 hcall
  by_cases hco : ∃ j, op = .compact j
  · obtain ⟨j, rfl⟩ := hco
    have hout := compact_out (I.inv i st hi) hs1 (hc j rfl) hcall
    exact ⟨Src.of_eq hout.committed, .inr (.inr ⟨j, rfl, hout⟩), hhs⟩
  · have hnc : ∀ j, op ≠ .compact j := fun j hj => hco ⟨j, hj⟩
    refine ⟨call_src st st' rnd op res (I.inv i st hi) hop' hnc hs1 hcall, ?_, hhs⟩
    rcases call_sto st st' rnd op res (I.inv i st hi) (hnb i st hi) hop' hw hms hnc hs1 hcall with c | c
    · exact .inl c
    · exact .inr (.inl c)


/-- the logical log is a function of the storage and the unstable part -/
theorem abs_of_eq {l l' : RaftLog} (h1 : l'.store = l.store) (h2 : l'.unstable = l.unstable) :
    l'.abs = l.abs := by
  unfold RaftLog.abs; rw [h1, h2]

/-- the shape of every node of a history under `Hyp2` -/
structure NodeOk (i : Nat) (st : NState) : Prop where
  inv : st.raft.raftLog.Inv
  sidx : st.raft.raftLog.unstable.snapshot = none →
    (storeLog st.raft.raftLog.store).snapIdx = st.raft.raftLog.abs.snapIdx
  sterm : st.raft.raftLog.unstable.snapshot = none →
    (storeLog st.raft.raftLog.store).snapTerm = st.raft.raftLog.abs.snapTerm
  id : st.raft.id = i
  nb : st.raft.batchAppend = false
  req : st.raft.pendingRequestSnapshot ≠ 0 →
    st.raft.raftLog.lastIndex ≤ st.raft.pendingRequestSnapshot

theorem node_ok (H : Hyp2w cfg c0 h) {n : Nat} {s : Sys} (hn : h[n]? = some s) {i : Nat}
    {st : NState} (hi : s.node i = some st) : NodeOk i st := by
  obtain ⟨s0, _, hall⟩ := H.inv_at
  have hm := mem_of_get hn
  refine ⟨(hall s hm).inv i st hi, fun h1 => ?_, fun h1 => ?_,
    (((hist_all H.hist).1 s hm).ids i st hi).1, H.nb s hm i st hi, H.reqok s hm i st hi⟩
  · rw [RaftLog.abs_none h1]; rfl
  · rw [RaftLog.abs_none h1]; rfl

/-- the snapshot point is not beyond the commit index -/
theorem NodeOk.snap_le {i : Nat} {st : NState} (o : NodeOk i st) :
    st.raft.raftLog.abs.snapIdx ≤ st.raft.raftLog.committed := by
  have := o.inv.dummy_le_committed
  rw [o.inv.firstIndex_abs] at this
  simp only [LLog.firstIndex] at this
  omega

/-- what one step does to one node -/
inductive NodeStep (a : Sys) (v : Nat) (sta stb : NState) : Prop
  /-- the logical log is untouched -/
  | same (hl : stb.raft.raftLog.abs = sta.raft.raftLog.abs)
  /-- a leader appended entries of its term -/
  | grew (es : List Entry) (hg : Appended sta.raft stb.raft es)
  /-- a `MsgAppend` of the transport was accepted -/
  | acc (m : Message) (hm : m ∈ a.net) (hty : m.msgType = .msgAppend) (hto : m.to = v)
      (ha : Accepted sta.raft.raftLog.abs stb.raft.raftLog.abs m)
      (hc : stb.raft.raftLog.committed =
        max sta.raft.raftLog.committed (min m.commit (m.index + m.entries.length)))
      (hci : sta.raft.raftLog.committed ≤ m.index)
      (hs : stb.raft.state = .follower) (ht : m.term = stb.raft.term ∨ m.term = 0)
  /-- crash and restart: the log is the stored one -/
  | restart (hl : stb.raft.raftLog.abs = storeLog sta.raft.raftLog.store)
      (hs : stb.raft.state = .follower)
      (ht : stb.raft.term = sta.raft.raftLog.store.hardState.term)
  /-- the application compacted the storage -/
  | compacted (k : Nat) (ho : CompactOut sta stb k)
  /-- the snapshot of a `MsgSnapshot` of the transport replaced the log -/
  | restored (m : Message) (hm : m ∈ a.net) (hty : m.msgType = .msgSnapshot) (hto : m.to = v)
      (hl : stb.raft.raftLog.abs = LLog.ofSnapshot m.snapshot)
      (hc : stb.raft.raftLog.committed = m.snapshot.metadata.index)
      (hle : sta.raft.raftLog.committed ≤ m.snapshot.metadata.index)
      (hnm : sta.raft.raftLog.matchTerm m.snapshot.metadata.index m.snapshot.metadata.term ≠
        .ok true ∨ sta.raft.raftLog.lastIndex ≤ m.snapshot.metadata.index)
      (hs : stb.raft.state = .follower) (ht : m.term = stb.raft.term ∨ m.term = 0)

/-- a call that is not a compaction and not the delivery of a snapshot, without a pending snapshot:
as without compaction (`Cluster.CallStep`) -/
theorem call_step0 (H : Hyp2w cfg c0 h) {n : Nat} {a : Sys} (ha : h[n]? = some a) {k : Nat}
    {st st' : NState} {rnd : Option Nat} {op : NodeOp} {res : OpRes} (h1 : a.node k = some st)
    (hop : appOp op = true ∨ ∃ m, op = .step m ∧ m ∈ a.net ∧ m.to = k)
    (hnc : ∀ j, op ≠ .compact j) (hns : ∀ m, op = .step m → m.msgType ≠ .msgSnapshot)
    (hpn : st.raft.raftLog.unstable.snapshot = none)
    (h4 : Node.call st rnd op = .ok (res, st')) :
    Cluster.CallStep a k st st' := by
  obtain ⟨s0, _, hall⟩ := H.inv_at
  have I := hall a (mem_of_get ha)
  have generic : (∀ m, op = .step m → m.msgType ≠ .msgAppend) → Cluster.CallStep a k st st' := by
    intro hna
    obtain ⟨_, _, _, hl, _⟩ := call_facts H ha h1 hop (fun j hj => absurd hj (hnc j)) hns hpn h4
    rcases hl with (c | ⟨es, c⟩ | c) | ⟨j, c, _⟩
    · exact .same c
    · exact .grew es c
    · rcases hop with h2 | ⟨m, rfl, _, _⟩
      · cases op <;> first | (cases h2; done) | (cases c; done)
      · exact absurd c (hna m rfl)
    · exact absurd c (hnc j)
  rcases hop with h2 | ⟨m, rfl, h2, h3⟩
  · exact generic (fun m hm => by rw [hm] at h2; cases h2)
  · by_cases hty : m.msgType = .msgAppend
    · have hok := I.msgOk h2 hty
      have hag := I.agree .net (msgLog m) (.log k) _ ⟨m, h2, hty, rfl⟩ ⟨st, h1, rfl⟩
      cases append_call (I.inv k st h1) hty hok hag h4 with
      | noacc hl _ _ => exact .same hl
      | acc ha' hc hci hs ht _ => exact .acc m h2 hty h3 ha' hc hci hs ht
    · exact generic (fun m' hm' => by cases hm'; exact hty)

theorem call_step (H : Hyp2w cfg c0 h) {n : Nat} {a : Sys} (ha : h[n]? = some a) {k : Nat}
    {st st' : NState} {rnd : Option Nat} {op : NodeOp} {res : OpRes} (h1 : a.node k = some st)
    (hop : appOp op = true ∨ ∃ m, op = .step m ∧ m ∈ a.net ∧ m.to = k)
    (hco : ∀ j, op = .compact j → CompactOk st.raft.raftLog j)
    (hns : ∀ m, op = .step m → m.msgType ≠ .msgSnapshot)
    (hpn : st.raft.raftLog.unstable.snapshot = none)
    (h4 : Node.call st rnd op = .ok (res, st')) :
    Snap.CallStep a k st st' := by
  by_cases hcomp : ∃ j, op = .compact j
  · obtain ⟨j, rfl⟩ := hcomp
    obtain ⟨s0, _, hall⟩ := H.inv_at
    exact .compacted j (compact_out ((hall a (mem_of_get ha)).inv k st h1) hpn (hco j rfl) h4)
  · cases call_step0 H ha h1 hop (fun j hj => hcomp ⟨j, hj⟩) hns hpn h4 with
    | same hl => exact .same hl
    | grew es hg => exact .grew es hg
    | acc m hm hty hto ha' hc hci hs ht => exact .acc m hm hty hto ha' hc hci hs ht

theorem node_step (H : Hyp2w cfg c0 h) {n : Nat} {a b : Sys} (ha : h[n]? = some a)
    (hb : h[n + 1]? = some b) {v : Nat} {sta stb : NState} (hva : a.node v = some sta)
    (hvb : b.node v = some stb) : NodeStep a v sta stb := by
  obtain ⟨s0, _, hall⟩ := H.inv_at
  have I := hall a (mem_of_get ha)
  obtain ⟨k, stk, stk', hka, hkb, hoth, hs⟩ := H.stp ha hb
  by_cases hvk : v = k
  · subst hvk
    rw [hka] at hva; cases hva
    rw [hkb] at hvb; cases hvb
    cases hs with
    | call rnd op res hop hco _ hns hpn _ hcall _ _ =>
      cases call_step H ha hka hop hco hns hpn hcall with
      | same hl => exact .same hl
      | grew es hg => exact .grew es hg
      | acc m hm hty hto ha' hc hci hs ht => exact .acc m hm hty hto ha' hc hci hs ht
      | compacted j ho => exact .compacted j ho
    | snap rnd m hm hto hty hpn hout _ =>
      cases hout with
      | skip hr => exact .same (by rw [hr])
      | handled x hsf ht _ _ _ _ _ _ _ hsto hcase =>
        cases hcase with
        | kept hu _ _ _ => exact .same (abs_of_eq hsto hu)
        | ffwd hu _ _ _ _ _ _ => exact .same (abs_of_eq hsto hu)
        | restored hle hnm hu hc _ _ =>
          refine .restored m hm hty hto ?_ hc hle hnm hsf ht
          rw [RaftLog.abs_some (sn := m.snapshot) (by rw [hu]; rfl), hu]
          rfl
    | psnap rnd _ hout _ _ =>
      cases hout with
      | noop hr => exact .same (by rw [hr])
      | done sn L _ hr _ habs _ _ _ _ _ _ _ => exact .same (by rw [hr]; exact habs)
    | send _ _ _ hsame _ _ => exact .same (by rw [hsame.1])
    | restart c rnd hboot _ =>
      have hbt := CV.boot_booted c _ rnd stb hboot
      obtain ⟨_, habs, _⟩ := boot_log c _ rnd stb (I.inv v sta hka).storeWF hboot
      exact .restart habs hbt.state hbt.term
  · rw [hoth v hvk, hva] at hvb
    cases hvb
    exact .same rfl

/-- the chains of a history agree pairwise (Log Matching across time) -/
theorem hist_agree (H : Hyp2w cfg c0 h) : ∀ g g', HistChain h g → HistChain h g' → Agree g g' := by
  rintro g g' ⟨m, s, l, hm, hat⟩ ⟨m', s', l', hm', hat'⟩
  exact agree_all H m m' s s' hm hm' l l' g g' hat hat'

end Snap5
end Cluster
end RaftModel
