import RaftProofs.ClusterCommit5c2I
import RaftProofs.ClusterCommit5Z

/-!
Cluster-level commit safety **with `batch_append`** (copy of `ClusterCommit2P.lean` over the bundles without `NoBatch`), part 2P: the hypotheses of the main induction (`Hyp3aB`), `stabilize`
completely, and everything the node-level layers say about the commit index and the storage over one
`call` / `deliver` step of a history (`call_moreB`).
-/
namespace RaftModel
namespace ClusterB
open Node Raft Raft.CC RaftProps.C02 RaftProps.C05 Raft.CB Raft.Bt Cluster

/-- where a `MsgReadIndexResp` comes from: some node led the message's term at some earlier point, with
a commit index that covered the message's index -/
def RirSrc (h : List Sys) (n : Nat) (x : Message) : Prop :=
  ∃ n0 s0 w stw, n0 ≤ n ∧ h[n0]? = some s0 ∧ s0.node w = some stw ∧ stw.raft.state = .leader ∧
    stw.raft.term = x.term ∧ x.index ≤ stw.raft.raftLog.committed

/-- **the hypotheses of the main induction** on top of `Hyp2wB` — two facts about the messages of the
transport that the induction uses (both are *derived* from the other hypotheses in
`RaftProofs/ClusterCommit4L.lean`: `Hyp3wB → Hyp3aB`), and one hypothesis on the initial state
(`snapt0`):
* `anch`: a `MsgAppend` is anchored inside its sender's log (`log_term ≠ 0` unless the anchor is the
  common snapshot point) — follows from `next_idx ≤ last_index + 1` for every progress of a leader;
* `rirs`: a `MsgReadIndexResp` was sent by a leader of its term whose commit index covered its index —
  follows from "every pending read index is at most the commit index";
* `snapt0` (a hypothesis on the initial state, like `InitOk`'s bound on the terms of the initial
  entries): the term an initial storage records for the common snapshot point `c0` is not above the
  initial term of any node. -/
structure Hyp3aB (cfg : JointConfig) (c0 : Nat) (h : List Sys) : Prop extends Hyp2wB cfg c0 h where
  anch : ∀ s ∈ h, ∀ x ∈ s.net, x.msgType = .msgAppend → x.logTerm ≠ 0 ∨ x.index ≤ c0
  rirs : ∀ n s, h[n]? = some s → ∀ x ∈ s.net, x.msgType = .msgReadIndexResp → RirSrc h n x
  snapt0 : ∀ s0, h[0]? = some s0 → ∀ i sti, s0.node i = some sti → ∀ t0,
    sti.raft.raftLog.abs.snapTerm = some t0 → ∀ j stj, s0.node j = some stj → t0 ≤ stj.raft.term

/-- **the hypotheses of the commit layer without proof gaps about the transport and without
`NoBatch`**: a flat bundle (it does *not* contain `sane` of `HypB`, which is derived): the fields of
`HypB` without `sane`, the fields of `Hyp2wB`, `snapt0`, and
* `nosq`: no `MsgSnapshot` is ever queued (it replaces the alternative "a `MsgSnapshot` is queued next
  to it" of the clauses about queued appends, because `SaneAnchors` has no such alternative). -/
structure Hyp3wB (cfg : JointConfig) (c0 : Nat) (h : List Sys) : Prop where
  hist : History h
  fix : ∀ s ∈ h, FixedCfg cfg s
  ne : cfg.incoming ≠ []
  nd1 : cfg.incoming.Nodup
  nd2 : cfg.outgoing.Nodup
  init : ∀ s : Sys, h[0]? = some s → InitOk s
  steps : ∀ (n : Nat) (a b : Sys), h[n]? = some a → h[n + 1]? = some b → KStep a b
  nosnap : ∀ s ∈ h, NoSnapNet s
  mv : MultiVoter cfg
  nolone : ∀ i Q, IsJointQuorum cfg Q → ∃ k ∈ Q, k ≠ i
  shape : ∀ s ∈ h, ∀ i st, s.node i = some st →
    st.raft.raftLog.unstable.snapshot = none ∧ st.raft.raftLog.store.firstIndex = c0 + 1
  initc : ∀ s : Sys, h[0]? = some s → ∀ i st, s.node i = some st → st.raft.raftLog.committed = c0
  c0z : c0 = 0
  snapt0 : ∀ s0, h[0]? = some s0 → ∀ i sti, s0.node i = some sti → ∀ t0,
    sti.raft.raftLog.abs.snapTerm = some t0 → ∀ j stj, s0.node j = some stj → t0 ≤ stj.raft.term
  nosq : ∀ s ∈ h, ∀ i st, s.node i = some st → ∀ y ∈ st.raft.msgs, y.msgType ≠ .msgSnapshot

variable {cfg : JointConfig} {c0 : Nat} {h : List Sys}

/-- the term recorded for the snapshot point never changes -/
theorem snapTerm_const (H : Hyp2wB cfg c0 h) : ∀ (n : Nat) (s : Sys), h[n]? = some s →
    ∀ v st, s.node v = some st → ∃ s0 st0, h[0]? = some s0 ∧ s0.node v = some st0 ∧
      st.raft.raftLog.abs.snapTerm = st0.raft.raftLog.abs.snapTerm := by
  refine hist_induct h _ ?_ ?_
  · intro s h0 v st hv
    exact ⟨s, st, h0, hv, rfl⟩
  · intro n a b ha hb ih v stb hvb
    obtain ⟨sta, hva⟩ := step_node_back (H.steps n a b ha hb).step v stb hvb
    obtain ⟨s0, st0, h0, hv0, he⟩ := ih v sta hva
    refine ⟨s0, st0, h0, hv0, ?_⟩
    rw [← he]
    cases node_step H ha hb hva hvb with
    | same hl => rw [hl]
    | grew es hg => rw [hg.abs]
    | acc m _ _ _ hacc _ _ _ _ => exact hacc.snap.2
    | restart hl _ _ =>
      rw [hl, RaftLog.abs_none (node_okB H ha hva).snap]
      rfl

/-- the term of the common snapshot point is not above the initial term of any node, in every state -/
theorem Hyp3aB.snapt (H : Hyp3aB cfg c0 h) : ∀ s ∈ h, ∀ i st, s.node i = some st → ∀ t0,
    st.raft.raftLog.abs.snapTerm = some t0 →
    ∀ s0, h[0]? = some s0 → ∀ j st0, s0.node j = some st0 → t0 ≤ st0.raft.term := by
  intro s hs i st hi t0 ht0 s0 h0 j st0 hj
  obtain ⟨n, hn⟩ := List.mem_iff_getElem?.1 hs
  obtain ⟨s0', sti, h0', hi0, he⟩ := snapTerm_const H.toHyp2wB n s hn i st hi
  rw [h0] at h0'; cases h0'
  exact H.snapt0 s0 h0 i sti hi0 t0 (by rw [← he]; exact ht0) j st0 hj

end ClusterB
end RaftModel
