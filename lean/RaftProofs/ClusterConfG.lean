import RaftProofs.ClusterConfF

/-!
C09 at the cluster level, part G: `ConfBounded` ("every membership entry of the log beyond the apply
cursor is at or below `pending_conf_index`") alone — without `AtMostOneUnapplied`, which a new leader
need not satisfy for the entries it inherits (see the last example of `RaftProps/C09b.lean`) — through
the writers of a leader's log: the proposal filter + `append_entry`, `become_leader`, `commit_apply`
(auto-leave), and through `Raft::step` for EVERY message and role.  The proofs follow those of
`PendingOk` in `RaftProps/C09b.lean` (bounded half).
-/
namespace RaftModel
namespace Raft
open VoteOb Node RaftProps.C09

/-- the leader discipline as a node invariant: a node in the leader role has `ConfBounded` -/
def LB (r : Raft) : Prop := r.state = .leader → ConfBounded r

theorem cb_of_same {a r : Raft} (hb : ConfBounded a) (habs : r.raftLog.abs = a.raftLog.abs)
    (hcf : CF a r) : ConfBounded r := by
  obtain ⟨hp, ha⟩ := hcf
  intro i e he hc hi
  rw [habs] at he; rw [ha] at hi; rw [hp]
  exact hb i e he hc hi

/-- the entries of the new log are entries of the old one, the apply cursor did not go back,
`pending_conf_index` did not decrease -/
theorem cb_of_sub {a r : Raft} (hb : ConfBounded a)
    (hsub : ∀ i e, r.raftLog.abs.entryAt i = some e → a.raftLog.abs.entryAt i = some e)
    (hap : a.raftLog.applied ≤ r.raftLog.applied) (hp : a.pendingConfIndex ≤ r.pendingConfIndex) :
    ConfBounded r := by
  intro i e he hc hi
  have := hb i e (hsub i e he) hc (by omega)
  omega

theorem cb_after_drop {a r' : Raft} {oes : Option (List Entry)} (hb : ConfBounded a)
    (hf : FilterOut a r'.pendingConfIndex oes) (habs : r'.raftLog.abs = a.raftLog.abs)
    (happ : r'.raftLog.applied = a.raftLog.applied) : ConfBounded r' := by
  intro i e he hc hi
  rw [habs] at he
  rw [happ] at hi
  rcases hf with ⟨h1, _⟩ | ⟨h0, _⟩
  · rw [h1]; exact hb i e he hc hi
  · have := C09_no_unapplied_change_when_not_pending a hb h0 i e he hc
    omega

theorem cb_after_append {a r1 r' : Raft} {es : List Entry}
    (hb : ConfBounded a) (hf : FilterOut a r'.pendingConfIndex (some es))
    (hl1 : r1.raftLog.abs = a.raftLog.abs) (hli : r1.raftLog.lastIndex = a.raftLog.lastIndex)
    (hinv1 : r1.raftLog.Inv) {t : Nat}
    (hA : Appended r1 r' (stampFrom t (r1.raftLog.lastIndex + 1) es))
    (happ : r'.raftLog.applied = a.raftLog.applied) : ConfBounded r' := by
  have cls : ∀ x e, r'.raftLog.abs.entryAt x = some e → isConf e →
      (a.raftLog.abs.entryAt x = some e) ∨
      (a.raftLog.lastIndex < x ∧ ∃ e0, es[x - a.raftLog.lastIndex - 1]? = some e0 ∧ isConf e0) := by
    intro x e hx hc
    rcases c09_appended_entryAt hinv1 hA x e hx with ⟨_, h2⟩ | ⟨h1, h2⟩
    · rw [hl1] at h2; exact .inl h2
    · rw [hli] at h1 h2
      exact .inr ⟨h1, c09_stamp_conf h2 hc⟩
  rcases hf with ⟨h1, h2⟩ | ⟨h0, k, hk1, hk2⟩
  · have old : ∀ x e, r'.raftLog.abs.entryAt x = some e → isConf e →
        a.raftLog.abs.entryAt x = some e := by
      intro x e hx hc
      rcases cls x e hx hc with h | ⟨_, e0, he0, hc0⟩
      · exact h
      · exact absurd hc0 (h2 es rfl e0 (List.mem_of_getElem? he0))
    intro i e he hc hi
    rw [happ] at hi
    rw [h1]; exact hb i e (old i e he hc) hc hi
  · have new : ∀ x e, r'.raftLog.abs.entryAt x = some e → isConf e → a.raftLog.applied < x →
        x = a.raftLog.lastIndex + k + 1 := by
      intro x e hx hc hgt
      rcases cls x e hx hc with h | ⟨hlt, e0, he0, hc0⟩
      · have := C09_no_unapplied_change_when_not_pending a hb h0 x e h hc
        omega
      · have := hk2 es rfl _ e0 he0 hc0
        omega
    intro i e he hc hi
    rw [happ] at hi
    rw [hk1, new i e he hc hi]
    exact Nat.le_refl _

/-- `MsgPropose` on a leader keeps `ConfBounded` (cf. `C09_one_pending_change_propose`) -/
theorem cb_propose {r r' : Raft} {m : Message} {e : Option RaftError}
    (hinv : r.raftLog.Inv) (hap : r.raftLog.applied ≤ r.raftLog.lastIndex)
    (hs : r.state = .leader) (hm : m.msgType = .msgPropose) (hb : ConfBounded r)
    (h : r.stepLeader m = .ok (r', e)) : ConfBounded r' := by
  rcases c09_stepLeader_propose hinv hs hm h with ⟨h1, _⟩ | ⟨r1, oes, hf, hc⟩
  · rw [h1]; exact hb
  · obtain ⟨hF, hlog⟩ := c09_filterOut hap hf
    rcases hc with ⟨h1, _⟩ | ⟨es, ho, _, hcf, hl | hA⟩
    · rw [h1]
      exact cb_after_drop hb hF (by rw [hlog]) (by rw [hlog])
    · refine cb_after_drop (oes := oes) hb (by rw [hcf.1]; exact hF) ?_ ?_
      · rw [hl.abs, hlog]
      · rw [hcf.2, hlog]
    · subst ho
      refine cb_after_append (r1 := r1) hb (by rw [hcf.1]; exact hF) (by rw [hlog])
        (by rw [hlog]) (by rw [hlog]; exact hinv) hA ?_
      rw [hcf.2, hlog]

/-- `step_leader`, every message (cf. `C09_one_pending_change_step_leader`) -/
theorem cb_step_leader {r r' : Raft} {m : Message} {e : Option RaftError}
    (hinv : r.raftLog.Inv) (hap : r.raftLog.applied ≤ r.raftLog.lastIndex)
    (hs : r.state = .leader) (hb : ConfBounded r) (h : r.stepLeader m = .ok (r', e))
    (hs' : r'.state = .leader) : ConfBounded r' := by
  by_cases hm : m.msgType = .msgPropose
  · exact cb_propose hinv hap hs hm hb h
  · rcases stepLeader_log hinv LS.rfl hs h with hl | ⟨hm', _⟩
    · rcases c09_stepLeader_other hm h with hcf | hf
      · exact cb_of_same hb hl.abs hcf
      · rw [hf] at hs'; cases hs'
    · exact absurd hm' hm

/-- `become_leader` then `bcast_append` (`wonBy`): `ConfBounded`, unconditionally -/
theorem wonBy_cb {r0 r' : Raft} (hinv : r0.raftLog.Inv) (h : wonBy r0 r') :
    ConfBounded r' := by
  unfold wonBy at h
  rw [Res.bind_eq_ok_iff] at h
  obtain ⟨r1, h1, h2⟩ := h
  have hb := (C09_one_pending_change_become_leader r0 r1 hinv h1).1
  exact cb_of_same hb (bcastAppend_ls h2 LS.rfl).abs (bcastAppend_cf h2 CF.rfl)

theorem keep_inv {r r0 : Raft} (hk : Keep r r0) (hinv : r.raftLog.Inv) : r0.raftLog.Inv := by
  rw [hk.log.eq]
  exact RaftProps.C20.Inv_limit hinv _

theorem campaignWon_cb {r r' : Raft} (hinv : r.raftLog.Inv) (h : CampaignWon r r') :
    ConfBounded r' := by
  obtain ⟨r0, hk, _, _, _, _, hw⟩ := h.path
  exact wonBy_cb (keep_inv hk hinv) hw

theorem campaign_lb {r r' : Raft} {ct : CampaignType} (hinv : r.raftLog.Inv)
    (h : r.campaign ct = .ok r') : LB r' := by
  intro hl
  rcases c02_campaign_cases h with w | w
  · exact campaignWon_cb hinv w
  · rw [w.state] at hl
    split at hl <;> cases hl

/-- `hup`: nothing, or whoever comes out as leader has `ConfBounded` -/
theorem hup_lb {r r' : Raft} {b : Bool} (hinv : r.raftLog.Inv) (h : r.hup b = .ok r') :
    r' = r ∨ LB r' := by
  rcases c02_hup_cases h with e | ⟨_, _, ct, hc, _⟩
  · exact .inl e
  · exact .inr (campaign_lb hinv hc)

theorem maybeCommitByVote_leader {r r' : Raft} {m : Message} (hs : r.state = .leader)
    (h : r.maybeCommitByVote m = .ok r') : r' = r := by
  unfold Raft.maybeCommitByVote at h
  split at h
  · cases h; rfl
  · simp only [] at h
    rw [if_pos (Or.inr hs)] at h
    cases h; rfl

/-- `poll` then `maybe_commit_by_vote` on a (pre-)candidate: whoever comes out as leader has
`ConfBounded` -/
theorem poll_lb {r r2 r' : Raft} {frm : Nat} {t : MsgType} {v : Bool} {res : VoteResult}
    {m : Message} (hinv : r.raftLog.Inv) (hs : r.state = .candidate ∨ r.state = .preCandidate)
    (hp : r.poll frm t v = .ok (r2, res)) (hc : r2.maybeCommitByVote m = .ok r') : LB r' := by
  intro hl
  obtain ⟨_, _, _, _, _, _, hst⟩ := c02_maybeCommitByVote_spec hc
  have h2l : r2.state = .leader := by
    rcases hst with ⟨g, _⟩ | ⟨_, g, _⟩
    · rw [← g]; exact hl
    · rw [g] at hl; cases hl
  have e := maybeCommitByVote_leader h2l hc
  subst e
  have hvinv : (voted r frm v).raftLog.Inv := hinv
  unfold Raft.poll at hp
  obtain ⟨_, p2⟩ := c02_pollWith_cases hp
  rcases p2 with ⟨_, _, hf⟩ | ⟨_, _, hwon⟩ | ⟨_, e⟩ | ⟨_, e⟩
  · unfold Raft.campaignAfterPreVote at hf
    rcases c02_campaignWith_election (by decide) hf with w | w
    · exact campaignWon_cb hvinv w
    · rw [w.state] at h2l; simp at h2l
  · exact wonBy_cb hvinv hwon
  · subst e; cases h2l
  · subst e
    rcases hs with g | g <;> (have : r.state = .leader := h2l; rw [g] at this; cases this)

/-- **`Raft::step`, every role, every message** keeps the leader discipline: on a node whose log
satisfies the representation invariant and whose apply cursor is within the log, if the node is leader
after the step then `ConfBounded` holds — because it held and the node stayed leader (proposal filter),
or because it just won (`become_leader` sets `pending_conf_index` to the inherited last index) -/
theorem step_lb {r r' : Raft} {m : Message} {e : Option RaftError}
    (hinv : r.raftLog.Inv) (hap : r.raftLog.applied ≤ r.raftLog.lastIndex) (hlb : LB r)
    (h : r.step m = .ok (r', e)) : LB r' := by
  obtain ⟨r1, b, ht, hc⟩ := c02_step_cases h
  -- after the term preamble: the same node up to the queue, or a follower with the same log
  have h1 : (r1.raftLog = r.raftLog ∧ r1.state = r.state ∧
        r1.pendingConfIndex = r.pendingConfIndex ∧
        (r1.state = .candidate ∨ r1.state = .preCandidate ∨ r1.state = .leader → b = true → r1 = r)) ∨
      (r1.state = .follower ∧ r1.raftLog.Inv) := by
    rcases c02_stepTerm_cases ht with ⟨e1, _⟩ | ⟨hb, _, _, x, hs, _⟩ | ⟨_, _, _, _, l, e1⟩
    · subst e1; exact .inl ⟨rfl, rfl, rfl, fun _ _ => rfl⟩
    · have := send_eq _ _ _ hs
      subst this
      exact .inl ⟨rfl, rfl, rfl, fun _ hb' => by rw [hb] at hb'; cases hb'⟩
    · subst e1
      exact .inr ⟨rfl, (becomeFollower_ls _ _ LS.rfl).inv hinv⟩
  have hinv1 : r1.raftLog.Inv := by
    rcases h1 with ⟨a1, _⟩ | ⟨_, a2⟩
    · rw [a1]; exact hinv
    · exact a2
  have lb1 : LB r1 := by
    rcases h1 with ⟨a1, a2, a3, _⟩ | ⟨a1, _⟩
    · intro hl
      have hb := hlb (a2 ▸ hl)
      intro i e he hc hi
      rw [a1] at he hi
      rw [a3]
      exact hb i e he hc hi
    · intro hl; rw [a1] at hl; cases hl
  have viaHup : ∀ tr, r1.hup tr = .ok r' → LB r' := by
    intro tr hh
    rcases hup_lb hinv1 hh with e1 | g
    · rw [e1]; exact lb1
    · exact g
  rcases hc with ⟨_, e1⟩ | ⟨hbt, ⟨_, hh⟩ | ⟨_, hv⟩ | ⟨_, _, _, ⟨hs, hcand⟩ | ⟨hs, hf⟩ | ⟨hs, hl⟩⟩⟩
  · rw [e1]; exact lb1
  · exact viaHup false hh
  · intro hl'
    have hva := c02_stepVote_spec hv
    have hst : r'.state = r1.state := by
      rcases hva.decided with g | g
      · exact (hva.granted g).2.1
      · rcases (hva.refused g).2 with ⟨q, _⟩ | ⟨_, q, _⟩
        · exact q
        · rw [q] at hl'; cases hl'
    have hl1 : r1.state = .leader := hst ▸ hl'
    exact cb_of_same (lb1 hl1) (stepVote_ls hv LS.rfl).abs (c09_stepVote_leader hl1 hv)
  · have hr : r1 = r := by
      rcases h1 with ⟨_, _, _, a4⟩ | ⟨a1, _⟩
      · rcases hs with g | g
        · exact a4 (.inl g) hbt
        · exact a4 (.inr (.inl g)) hbt
      · rcases hs with g | g <;> (rw [a1] at g; cases g)
    subst hr
    rcases c02_stepCandidate_cases hs hcand with e1 | ⟨_, _, hfr⟩ | ⟨_, r2, res, hp, hmc⟩
    · rw [e1]; exact lb1
    · intro hl'
      have : r'.state = .follower := hfr.state.trans rfl
      rw [this] at hl'; cases hl'
    · exact poll_lb hinv hs hp hmc
  · rcases c02_stepFollower_cases hs hf with tvs | ⟨_, _, hh⟩
    · intro hl'
      rw [tvs.state, hs] at hl'; cases hl'
    · exact viaHup true hh
  · have hr : r1 = r := by
      rcases h1 with ⟨_, _, _, a4⟩ | ⟨a1, _⟩
      · exact a4 (.inr (.inr hs)) hbt
      · rw [a1] at hs; cases hs
    subst hr
    intro hl'
    exact cb_step_leader hinv hap hs (hlb hs) hl hl'

end Raft
end RaftModel
