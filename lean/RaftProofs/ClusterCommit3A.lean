import RaftProofs.ClusterCommit2Y

/-!
Cluster-level commit safety, part 3A: `Raft::step` on a `MsgHeartbeat`, unfolded (`step_hb_unfold`),
and one delivery of a heartbeat at a node (`hb_call`): the commit index is untouched, or the heartbeat
was obeyed by a follower of the heartbeat's term — `committed := max(committed, m.commit)`, the logical
log untouched.
-/
namespace RaftModel
namespace Raft
namespace CC
open Node

theorem stepTerm_hb_term {r r1 : Raft} {m : Message} (h : r.stepTerm m = .ok (r1, true))
    (hty : m.msgType = .msgHeartbeat) : m.term = r1.term ∨ m.term = 0 := by
  unfold Raft.stepTerm at h
  split at h
  · rename_i h0; exact .inr h0
  · split at h
    · simp only at h
      split at h
      · cases h
      · split at h
        · rename_i hpv
          rw [hty] at hpv
          rcases hpv with c | ⟨c, _⟩ <;> cases c
        · split at h
          · cases h; exact .inl (becomeFollower_term_vote _ _ _).1.symm
          · cases h; exact .inl (becomeFollower_term_vote _ _ _).1.symm
    · split at h
      · split at h
        · split at h <;> cases h
        · split at h
          · split at h <;> cases h
          · cases h
      · cases h
        left; omega

/-- **`step` on a `MsgHeartbeat`** -/
theorem step_hb_unfold {r r' : Raft} {m : Message} {e : Option RaftError}
    (hm : m.msgType = .msgHeartbeat) (h : r.step m = .ok (r', e)) :
    (∃ r0, r0.handleHeartbeat m = .ok r' ∧ r0.state = .follower ∧ SameLog r r0 ∧
      (m.term = r0.term ∨ m.term = 0)) ∨
    r'.raftLog = r.raftLog := by
  unfold Raft.step at h
  split at h
  · cases h
  · cases h
  · rename_i r1 hst
    cases h
    right
    unfold Raft.stepTerm at hst
    split at hst
    · cases hst
    · split at hst
      · simp only at hst
        split at hst
        · cases hst; rfl
        · split at hst
          · cases hst
          · split at hst <;> cases hst
      · split at hst
        · split at hst
          · split at hst
            · rename_i r2 hs
              cases hst
              rw [send_eq _ _ _ hs]
            · cases hst
            · cases hst
          · split at hst
            · rename_i hpv; rw [hm] at hpv; cases hpv
            · cases hst; rfl
        · cases hst
  · rename_i r1 hst
    have hsl := stepTerm_sameLog hst
    have htm := stepTerm_hb_term hst hm
    rw [hm] at h
    simp only [] at h
    split at h
    · unfold Raft.stepCandidate at h
      rw [hm] at h
      simp only [] at h
      split at h
      · cases h
      · obtain ⟨r2, h2, h⟩ := Res.bind_eq_ok h
        cases h
        left
        refine ⟨_, h2, (RaftProps.C16.becomeFollower_proj _ _ _).1, ?_, ?_⟩
        · exact ⟨(becomeFollower_msgs _ _ _).trans hsl.1, (becomeFollower_id _ _ _).trans hsl.2.1,
            by rw [(becomeFollower_term_vote _ _ _).1]; rename_i hne; have := hsl.2.2.1; omega,
            by
              rw [becomeFollower_raftLog]
              rcases hsl.2.2.2 with e1 | e1 <;> rw [e1] <;> exact .inr rfl⟩
        · left; exact (becomeFollower_term_vote _ _ _).1.symm
    · unfold Raft.stepCandidate at h
      rw [hm] at h
      simp only [] at h
      split at h
      · cases h
      · obtain ⟨r2, h2, h⟩ := Res.bind_eq_ok h
        cases h
        left
        refine ⟨_, h2, (RaftProps.C16.becomeFollower_proj _ _ _).1, ?_, ?_⟩
        · exact ⟨(becomeFollower_msgs _ _ _).trans hsl.1, (becomeFollower_id _ _ _).trans hsl.2.1,
            by rw [(becomeFollower_term_vote _ _ _).1]; rename_i hne; have := hsl.2.2.1; omega,
            by
              rw [becomeFollower_raftLog]
              rcases hsl.2.2.2 with e1 | e1 <;> rw [e1] <;> exact .inr rfl⟩
        · left; exact (becomeFollower_term_vote _ _ _).1.symm
    · rename_i hs
      unfold Raft.stepFollower at h
      rw [hm] at h
      simp only [] at h
      obtain ⟨r2, h2, h⟩ := Res.bind_eq_ok h
      cases h
      left
      exact ⟨_, h2, hs, ⟨hsl.1, hsl.2.1, hsl.2.2.1, hsl.2.2.2⟩, htm⟩
    · unfold Raft.stepLeader at h
      rw [hm] at h
      simp only [] at h
      cases h
      right
      rcases hsl.2.2.2 with e1 | e1
      · exact e1
      · rename_i hs
        rcases RaftProps.C16.stepTerm_true hst with g | ⟨_, _, _, l, g⟩
        · rw [g]
        · rw [g, (RaftProps.C16.becomeFollower_proj _ _ _).1] at hs; cases hs

/-- **one delivery of a `MsgHeartbeat`** -/
theorem hb_call {st st' : NState} {rnd : Option Nat} {m : Message} {res : OpRes}
    (hinv : st.raft.raftLog.Inv) (hm : m.msgType = .msgHeartbeat)
    (h : Node.call st rnd (.step m) = .ok (res, st')) :
    st'.raft.raftLog.committed = st.raft.raftLog.committed ∨
    (st'.raft.raftLog.committed = max st.raft.raftLog.committed m.commit ∧
      (m.term = st'.raft.term ∨ m.term = 0) ∧ st.raft.term ≤ st'.raft.term ∧
      st'.raft.raftLog.abs = st.raft.raftLog.abs ∧ st'.raft.state = .follower) := by
  unfold Node.call at h
  simp only [applyOp] at h
  obtain ⟨raft, e, hx, hr⟩ := CV.unitRes_ok h
  unfold RawNode.step at hx
  split at hx
  · cases hx; left; rw [hr]
  · split at hx
    · rcases step_hb_unfold hm hx with ⟨r0, h0, hs0, hsl, htm⟩ | c
      · right
        have hsl' : SameLog st.raft r0 := hsl
        have hfr := handleHeartbeat_frame h0 Frame.rfl
        have hls := handleHeartbeat_ls h0 LS.rfl
        rw [hr]
        refine ⟨?_, ?_, ?_, ?_, ?_⟩
        · rw [(handleHeartbeat_spec h0).1, hsl'.committed]
        · rw [hfr.term]; exact htm
        · rw [hfr.term]; exact hsl'.2.2.1
        · rw [hls.abs]; exact hsl'.abs
        · rw [hfr.state]; exact hs0
      · left; rw [hr, c]
    · cases hx; left; rw [hr]

end CC
end Raft
end RaftModel
