import RaftProofs.ClusterXferB
import RaftProofs.ClusterFlow2A

/-!
Cluster-level leadership transfer with **compaction, snapshots between nodes and `request_snapshot`**
(C17d), part 2A: provenance of the `MsgTimeoutNow` messages of a history (`tn_prov`, `tn_source` of
`ClusterXferB.lean`) copied over the step contract of the snapshot layer (`Snap5.KStep`, bundle
`Snap5.Hyp`; `Flow2.HypR` — without `reqok` — implies it).  The per-call fact `XF.call_tn` (every
`NodeOp`) is used as it is; the induction along the history is `Snap5.provenance`.
-/
namespace RaftModel
namespace Cluster
namespace Snap5
namespace Xfer2
open Node Raft Raft.CC RaftProps.C02 RaftProps.C05 Snap

variable {cfg : JointConfig} {c0 : Nat} {h : List Sys}

/-- **provenance of the `MsgTimeoutNow` messages** (queues and transport), copy of `Cluster.tn_prov` -/
theorem tn_prov (H : Hyp cfg h) : ∀ (n : Nat) (s : Sys), h[n]? = some s →
    (∀ i st, s.node i = some st → ∀ x ∈ st.raft.msgs, x.msgType = .msgTimeoutNow →
      Gen (TnGen h) n i x) ∧
    (∀ x ∈ s.net, x.msgType = .msgTimeoutNow → ∃ i, Gen (TnGen h) n i x) := by
  refine provenance H (fun x => x.msgType = .msgTimeoutNow)
    (fun x hx => by rw [hx]; intro hc; cases hc) (TnGen h) ?_
  intro n a b i st st' rnd op res _ hb _ hi' hcall _ _ _ _ _ _ x hx hK
  rcases XF.call_tn st st' rnd op res hcall x hx hK with c | ⟨c1, c2, c3, pr, c4, c5⟩
  · exact .inl c
  · have hid := (((hist_all H.hist).1 b (mem_of_get hb)).ids i st' hi').1
    exact .inr ⟨b, st', pr, hb, hi', c1, c2, c3.trans hid, c4, c5⟩

/-- the source of a `MsgTimeoutNow` found anywhere in `h[n]` (copy of `Cluster.tn_source`) -/
theorem tn_source (H : Hyp cfg h) {n : Nat} {s : Sys} (hn : h[n]? = some s) {x : Message}
    (hx : x ∈ s.net ∨ ∃ i st, s.node i = some st ∧ x ∈ st.raft.msgs)
    (hty : x.msgType = .msgTimeoutNow) :
    ∃ (n0 : Nat) (s0 : Sys) (stL : NState) (pr : Progress), n0 ≤ n ∧ h[n0]? = some s0 ∧
      s0.node x.frm = some stL ∧ stL.raft.state = .leader ∧ stL.raft.term = x.term ∧
      stL.raft.prs.get x.to = some pr ∧ pr.matched = stL.raft.raftLog.lastIndex := by
  have hp := tn_prov H n s hn
  have key : ∃ i, Gen (TnGen h) n i x := by
    rcases hx with hx | ⟨i, st, hi, hx⟩
    · exact hp.2 x hx hty
    · exact ⟨i, hp.1 i st hi x hx hty⟩
  obtain ⟨i, n0, hle, s0, stL, pr, h1, h2, h3, h4, h5, h6, h7⟩ := key
  subst h5
  exact ⟨n0, s0, stL, pr, hle, h1, h2, h3, h4.symm, h6, h7⟩

end Xfer2
end Snap5
end Cluster
end RaftModel
