import RaftProofs.ProtoCfgDefs

/-!
An invariant of P that the commit layer never needed: **a vote decided before its term had a
leader was decided against a candidate log whose last term is older than the term.**

(`InvE`: a vote request advertises a last term below its own term unless the term already has a
leader — an entry of term `t` exists only once a leader of `t` exists; a grant flagged `early` was
generated before any leader of its term existed, against such a request.)

It is what excludes a second `win` in a term by a candidate whose log holds entries of that very
term (needed for the same-term part of `win_adj_redundant`).
-/
namespace RaftModel.P

structure InvE (s : PSys) : Prop where
  rq : ∀ r ∈ s.reqs, r.lastTerm < r.term ∨ Elected s r.term
  orq : ∀ i t c lt li, OMsg.voteReq t c lt li ∈ (s.nodes i).outbox → lt < t ∨ Elected s t
  og : ∀ i t v c gh, OMsg.grant t v c gh ∈ (s.nodes i).outbox → gh.early = true → gh.clt < t
  rg : ∀ p ∈ s.rgv, p.2.early = true → p.2.clt < p.1.term

theorem invE_init : InvE init := by
  constructor
  · intro r hr; simp [init] at hr
  · intro i t c lt li hm; simp [init] at hm
  · intro i t v c gh hm; simp [init] at hm
  · intro p hp; simp [init] at hp

theorem elected_congr {s s' : PSys} (h : s'.elected = s.elected) (t : Nat) : Elected s' t ↔ Elected s t := by
  unfold Elected; rw [h]

/-- frame lemma: node `i` is replaced by `n`, the released requests / grant records / elections are
unchanged; the vote requests and grants of the new outbox are old ones or satisfy the clause -/
theorem invE_node (s : PSys) (h : InvE s) (i : Nat) (n : PNode) (s' : PSys)
    (hn : s'.nodes = upd s.nodes i n) (hel : s'.elected = s.elected) (hrgv : s'.rgv = s.rgv)
    (hreqs : s'.reqs = s.reqs)
    (hq : ∀ t c lt li, OMsg.voteReq t c lt li ∈ n.outbox →
      OMsg.voteReq t c lt li ∈ (s.nodes i).outbox ∨ lt < t ∨ Elected s t)
    (hg : ∀ t v c gh, OMsg.grant t v c gh ∈ n.outbox →
      OMsg.grant t v c gh ∈ (s.nodes i).outbox ∨ (gh.early = true → gh.clt < t)) :
    InvE s' := by
  constructor
  · intro r hr; rw [hreqs] at hr; rw [elected_congr hel]; exact h.rq r hr
  · intro j t c lt li hm
    rw [elected_congr hel]
    rw [hn] at hm
    by_cases hj : j = i
    · subst hj
      simp only [upd, if_true] at hm
      rcases hq t c lt li hm with h1 | h1
      · exact h.orq j t c lt li h1
      · exact h1
    · simp only [upd, hj, if_false] at hm
      exact h.orq j t c lt li hm
  · intro j t v c gh hm
    rw [hn] at hm
    by_cases hj : j = i
    · subst hj
      simp only [upd, if_true] at hm
      rcases hg t v c gh hm with h1 | h1
      · exact h.og j t v c gh h1
      · exact h1
    · simp only [upd, hj, if_false] at hm
      exact h.og j t v c gh hm
  · rw [hrgv]; exact h.rg

theorem voteReq_of_append_ack {l : List OMsg} {t c lt li : Nat} {t' f idx : Nat} {pre : List LEntry}
    (h : OMsg.voteReq t c lt li ∈ l ++ [OMsg.ack t' f idx pre]) : OMsg.voteReq t c lt li ∈ l := by
  rcases List.mem_append.1 h with h | h
  · exact h
  · rw [List.mem_singleton] at h; cases h

/-- the last term of a node's log is below the node's term unless that term has a leader already -/
theorem lastTerm_lt_or_elected {s : PSys} (hL : InvL s) (i : Nat) (hpos : 0 < (s.nodes i).term) :
    lastTerm (s.nodes i).log < (s.nodes i).term ∨ Elected s (s.nodes i).term := by
  by_cases hel : Elected s (s.nodes i).term
  · exact Or.inr hel
  · left
    by_cases hne : (s.nodes i).log = []
    · rw [hne]; simpa [lastTerm] using hpos
    · have hlen : 0 < (s.nodes i).log.length := List.length_pos_iff.mpr hne
      obtain ⟨x, hx, hxt⟩ := termAt_some hlen (Nat.le_refl _)
      rw [lastTerm_eq_termAt, hxt]
      have hle := (hL.tle i).1 x (List.mem_of_getElem? hx)
      have hne' : x.term ≠ (s.nodes i).term := by
        intro heq
        have := PFL_mem (keep_log s hL i) _ x hx
        rw [heq, hL.nole _ (fun j hj => hel ⟨j, hj⟩)] at this
        simp at this
      omega

theorem invE_release (s s' : PSys) (i : Nat) (key : OMsg)
    (h : applyEvent s (.release i key) = .ok s') (hE : InvE s) : InvE s' := by
  simp only [applyEvent, ok] at h
  split at h
  · split at h
    · rename_i m hm
      split at h
      · rename_i hg
        cases m with
        | ack t f idx pre =>
          simp only [addReleased] at h
          cases h
          exact ⟨hE.rq, hE.orq, hE.og, hE.rg⟩
        | voteReq t c lt li => simp [OMsg.isAck] at hg
        | grant t vv c gh => simp [OMsg.isAck] at hg
      · cases h
    · cases h
  · split at h
    · rename_i k hk
      split at h
      · rename_i m hm
        split at h
        · rename_i hg
          have hmem : m ∈ (s.nodes i).outbox := List.mem_of_getElem? hm
          have hbase : InvE { s with nodes := upd s.nodes i { s.nodes i with outbox := (s.nodes i).outbox.eraseIdx k } } :=
            invE_node s hE i _ _ rfl rfl rfl rfl
              (fun t c lt li hx => Or.inl (List.mem_of_mem_eraseIdx hx))
              (fun t v c gh hx => Or.inl (List.mem_of_mem_eraseIdx hx))
          cases m with
          | voteReq t c lt li =>
            simp only [addReleased] at h
            cases h
            refine ⟨?_, hbase.orq, hbase.og, hbase.rg⟩
            intro r hr
            rcases List.mem_cons.1 hr with hr | hr
            · subst hr; exact hE.orq i t c lt li hmem
            · exact hE.rq r hr
          | grant t vv c gh =>
            simp only [addReleased] at h
            cases h
            refine ⟨hbase.rq, hbase.orq, hbase.og, ?_⟩
            intro p hp
            rcases List.mem_cons.1 hp with hp | hp
            · subst hp; exact hE.og i t vv c gh hmem
            · exact hE.rg p hp
          | ack t f idx pre =>
            have := hg.2.2
            simp [OMsg.isAck] at this
        · cases h
      · cases h
    · cases h

theorem invE_win (s s' : PSys) (i : Nat) (cfg : Cfg) (q : List Nat)
    (h : applyEvent s (.win i cfg q) = .ok s') (hE : InvE s) : InvE s' := by
  obtain ⟨_, _, _, _, hs', _⟩ := win_guard h
  subst hs'
  have hmono : ∀ t, Elected s t → Elected
      { s with nodes := upd s.nodes i { s.nodes i with role := 2 },
               llog := updT s.llog (s.nodes i).term (s.nodes i).log,
               elog := updT s.elog (s.nodes i).term (s.nodes i).log,
               elected := ((s.nodes i).term, i) :: s.elected,
               ecfgs := ((s.nodes i).term, cfg) :: s.ecfgs } t := by
    rintro t ⟨j, hj⟩; exact ⟨j, List.mem_cons_of_mem _ hj⟩
  constructor
  · intro r hr
    rcases hE.rq r hr with h1 | h1
    · exact Or.inl h1
    · exact Or.inr (hmono _ h1)
  · intro j t c lt li hm
    have hm' : OMsg.voteReq t c lt li ∈ (s.nodes j).outbox := by
      by_cases hj : j = i
      · subst hj; simpa only [upd, if_true] using hm
      · simpa only [upd, hj, if_false] using hm
    rcases hE.orq j t c lt li hm' with h1 | h1
    · exact Or.inl h1
    · exact Or.inr (hmono _ h1)
  · intro j t v c gh hm
    have hm' : OMsg.grant t v c gh ∈ (s.nodes j).outbox := by
      by_cases hj : j = i
      · subst hj; simpa only [upd, if_true] using hm
      · simpa only [upd, hj, if_false] using hm
    exact hE.og j t v c gh hm'
  · exact hE.rg

theorem invE_step (s s' : PSys) (e : Event)
    (h : applyEvent s e = .ok s') (hL : InvL s) (hE : InvE s) : InvE s' := by
  cases e with
  | read r =>
    simp only [applyEvent, ok] at h
    split at h
    · cases h; exact ⟨hE.rq, hE.orq, hE.og, hE.rg⟩
    · cases h
  | bump i t =>
    simp only [applyEvent, ok] at h
    split at h
    · cases h
      exact invE_node s hE i _ _ rfl rfl rfl rfl (fun _ _ _ _ hm => Or.inl hm) (fun _ _ _ _ hm => Or.inl hm)
    · cases h
  | campaign i =>
    simp only [applyEvent, ok] at h
    split at h
    · rename_i hg
      cases h
      have hlt := lastTerm_lt_or_elected hL i hg.2.2.2.2
      refine invE_node s hE i _ _ rfl rfl rfl rfl ?_ ?_
      · intro t c lt li hm
        simp only [List.mem_append, List.mem_cons, List.not_mem_nil, or_false] at hm
        rcases hm with hm | hm | hm
        · exact Or.inl hm
        · right
          injection hm with h1 h2 h3 h4
          subst h1 h3
          exact hlt
        · cases hm
      · intro t v c gh hm
        simp only [List.mem_append, List.mem_cons, List.not_mem_nil, or_false] at hm
        rcases hm with hm | hm | hm
        · exact Or.inl hm
        · cases hm
        · right
          injection hm with h1 _ _ hgh
          subst hgh h1
          intro hearly
          have hne := not_elected_of_early hearly
          rcases hlt with h1 | h1
          · exact h1
          · exact absurd h1 hne
    · cases h
  | grant i c =>
    simp only [applyEvent, ok] at h
    split at h
    · rename_i r hr
      split at h
      · cases h
        refine invE_node s hE i _ _ rfl rfl rfl rfl ?_ ?_
        · intro t c' lt li hm
          simp only [List.mem_append, List.mem_singleton] at hm
          rcases hm with hm | hm
          · exact Or.inl hm
          · cases hm
        · intro t v c' gh hm
          simp only [List.mem_append, List.mem_singleton] at hm
          rcases hm with hm | hm
          · exact Or.inl hm
          · right
            injection hm with h1 _ _ hgh
            subst hgh h1
            intro hearly
            have hne := not_elected_of_early hearly
            have hp := List.find?_some hr
            simp only [decide_eq_true_eq] at hp
            have hmem := List.mem_of_find?_eq_some hr
            rcases hE.rq r hmem with h1 | h1
            · show r.lastTerm < (s.nodes i).term
              rw [← hp.1]; exact h1
            · rw [hp.1] at h1; exact absurd h1 hne
      · cases h
    · cases h
  | rdy i =>
    simp only [applyEvent, ok] at h
    split at h
    · cases h
      exact invE_node s hE i _ _ rfl rfl rfl rfl (fun _ _ _ _ hm => Or.inl hm) (fun _ _ _ _ hm => Or.inl hm)
    · cases h
  | persist i k =>
    simp only [applyEvent, ok] at h
    split at h
    · split at h
      · cases h
        exact invE_node s hE i _ _ rfl rfl rfl rfl (fun _ _ _ _ hm => Or.inl hm) (fun _ _ _ _ hm => Or.inl hm)
      · cases h
    · cases h
  | release i key => exact invE_release s s' i key h hE
  | crash i =>
    simp only [applyEvent, ok] at h
    split at h
    · cases h
      exact invE_node s hE i _ _ rfl rfl rfl rfl (fun _ _ _ _ hm => by cases hm) (fun _ _ _ _ hm => by cases hm)
    · cases h
  | restart i =>
    simp only [applyEvent, ok] at h
    split at h
    · cases h
      refine invE_node s hE i _ _ rfl rfl rfl rfl ?_ ?_
      · intro t c lt li hm
        simp only [List.mem_filter, OMsg.isAck] at hm
        exact absurd hm.2 (by simp)
      · intro t v c gh hm
        simp only [List.mem_filter, OMsg.isAck] at hm
        exact absurd hm.2 (by simp)
    · cases h
  | win i cfg q => exact invE_win s s' i cfg q h hE
  | stepDown i =>
    simp only [applyEvent, ok] at h
    split at h
    · cases h
      exact invE_node s hE i _ _ rfl rfl rfl rfl (fun _ _ _ _ hm => Or.inl hm) (fun _ _ _ _ hm => Or.inl hm)
    · cases h
  | leaderAppend i e =>
    simp only [applyEvent, ok] at h
    split at h
    · cases h
      exact invE_node s hE i _ _ rfl rfl rfl rfl (fun _ _ _ _ hm => Or.inl hm) (fun _ _ _ _ hm => Or.inl hm)
    · cases h
  | sendApp i m =>
    simp only [applyEvent, ok] at h
    split at h
    · cases h; exact ⟨hE.rq, hE.orq, hE.og, hE.rg⟩
    · cases h
  | recvApp i m =>
    simp only [applyEvent, ok] at h
    split at h
    · cases h
      exact invE_node s hE i _ _ rfl rfl rfl rfl (fun _ _ _ _ hm => Or.inl (voteReq_of_append_ack hm))
        (fun _ _ _ _ hm => Or.inl (grant_of_append_ack hm))
    · cases h
  | ackCommitted i =>
    simp only [applyEvent, ok] at h
    split at h
    · cases h
      exact invE_node s hE i _ _ rfl rfl rfl rfl (fun _ _ _ _ hm => Or.inl (voteReq_of_append_ack hm))
        (fun _ _ _ _ hm => Or.inl (grant_of_append_ack hm))
    · cases h
  | ackSelf i idx =>
    simp only [applyEvent, ok] at h
    split at h
    · cases h
      exact invE_node s hE i _ _ rfl rfl rfl rfl (fun _ _ _ _ hm => Or.inl (voteReq_of_append_ack hm))
        (fun _ _ _ _ hm => Or.inl (grant_of_append_ack hm))
    · cases h
  | commitLeader i c cfg q =>
    simp only [applyEvent, ok] at h
    split at h
    · cases h
      exact invE_node s hE i _ _ rfl rfl rfl rfl (fun _ _ _ _ hm => Or.inl hm) (fun _ _ _ _ hm => Or.inl hm)
    · cases h
  | commitApp i c m =>
    simp only [applyEvent, ok] at h
    split at h
    · cases h
      exact invE_node s hE i _ _ rfl rfl rfl rfl (fun _ _ _ _ hm => Or.inl hm) (fun _ _ _ _ hm => Or.inl hm)
    · cases h
  | commitHB i c m =>
    simp only [applyEvent, ok] at h
    split at h
    · cases h
      exact invE_node s hE i _ _ rfl rfl rfl rfl (fun _ _ _ _ hm => Or.inl hm) (fun _ _ _ _ hm => Or.inl hm)
    · cases h
  | commitClaim i m =>
    simp only [applyEvent, ok] at h
    split at h
    · cases h
      exact invE_node s hE i _ _ rfl rfl rfl rfl (fun _ _ _ _ hm => Or.inl hm) (fun _ _ _ _ hm => Or.inl hm)
    · cases h
  | sendHB i to c =>
    simp only [applyEvent, ok] at h
    split at h
    · cases h; exact ⟨hE.rq, hE.orq, hE.og, hE.rg⟩
    · cases h
  | claim i idx =>
    simp only [applyEvent, ok] at h
    split at h
    · cases h; exact ⟨hE.rq, hE.orq, hE.og, hE.rg⟩
    · cases h
  | sendSnap i idx =>
    simp only [applyEvent, ok] at h
    split at h
    · cases h; exact ⟨hE.rq, hE.orq, hE.og, hE.rg⟩
    · cases h
  | installSnap i t idx sterm =>
    simp only [applyEvent, ok] at h
    split at h
    · split at h
      · cases h
        exact invE_node s hE i _ _ rfl rfl rfl rfl (fun _ _ _ _ hm => Or.inl (voteReq_of_append_ack hm))
          (fun _ _ _ _ hm => Or.inl (grant_of_append_ack hm))
      · cases h
    · cases h
  | commitSnap i t idx sterm =>
    simp only [applyEvent, ok] at h
    split at h
    · split at h
      · cases h
        exact invE_node s hE i _ _ rfl rfl rfl rfl (fun _ _ _ _ hm => Or.inl hm) (fun _ _ _ _ hm => Or.inl hm)
      · cases h
    · cases h
  | bootstrap i donor idx =>
    simp only [applyEvent, ok] at h
    split at h
    · cases h
      exact invE_node s hE i _ _ rfl rfl rfl rfl (fun _ _ _ _ hm => Or.inl hm) (fun _ _ _ _ hm => Or.inl hm)
    · cases h

theorem invE_reachR (s : PSys) (h : Reach s) : InvE s := by
  induction h with
  | init => exact invE_init
  | step e hr hs ih => exact invE_step _ _ e hs (invL_reachR _ hr) ih

end RaftModel.P
