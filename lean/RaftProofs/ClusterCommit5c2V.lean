import RaftProofs.ClusterCommit5c2U

/-!
Cluster-level commit safety **with `batch_append`** (copy of `ClusterCommit2V.lean` over the bundles without `NoBatch`), part 2V: where a `MsgAppend` / `MsgHeartbeat` of the transport comes from,
packaged for the main induction (`app_src`, `hb_src`: the sender's log is a leader's log that holds the
batch, reaches its end, and whose commit index — at least the message's — is covered by a past commit
event), the anchor of an accepted batch (`anchor_eq`), and what a `call` / `deliver` step does to the
log and the queue of its node (`call_step`, `fresh_ack2`).
-/
namespace RaftModel
namespace ClusterB
open Node Raft Raft.CC RaftProps.C02 RaftProps.C05 Raft.CB Raft.Bt Cluster

variable {cfg : JointConfig} {c0 : Nat} {h : List Sys}

theorem Covered.mono {h : List Sys} {c0 m m' cm term term' : Nat} {g : LLog}
    (hc : Covered h c0 m cm term g) (hm : m ≤ m') (ht : term ≤ term') :
    Covered h c0 m' cm term' g := by
  rcases hc with c | ⟨E, h1, h2, h3, h4, h5⟩
  · exact .inl c
  · exact .inr ⟨E, h1, Nat.lt_of_lt_of_le h2 hm, h3, Nat.le_trans h4 ht, h5⟩

theorem Promise.mono {h : List Sys} {m m' : Nat} {a : Message} {g : LLog}
    (hp : Promise h m a g) (hm : m ≤ m') : Promise h m' a g := by
  obtain ⟨L, h1, h2⟩ := hp
  exact ⟨L, h1.mono hm, h2⟩

/-- what is known about the sender of a `MsgAppend` -/
structure AppSrc (h : List Sys) (c0 n : Nat) (m : Message) (L : LLog) (cL : Nat) : Prop where
  ll : LeaderLog h n m.term L
  snap : L.snapIdx = c0
  ents : ∀ e ∈ m.entries, L.entryAt e.index = some e
  contig : ContigFrom (m.index + 1) m.entries
  anchor : L.term m.index = .ok m.logTerm
  last : m.index + m.entries.length ≤ L.lastIndex
  commit : m.commit ≤ cL
  cle : cL ≤ L.lastIndex
  cov : Covered h c0 n cL m.term L
  tnz : m.term ≠ 0

theorem app_src (H : Hyp3aB cfg c0 h) {n : Nat} (S : SAll h c0 n) {a : Sys} (ha : h[n]? = some a)
    {m : Message} (hm : m ∈ a.net) (hty : m.msgType = .msgAppend) :
    ∃ L cL, AppSrc h c0 n m L cL := by
  obtain ⟨i, n0, hn0, s1, st, h1, h2, h3, h4, h5, h6, h7, h8⟩ :=
    (append_prov H.toHyp2wB n a ha).2 m hm hty
  have o := node_okB H.toHyp2wB h1 h2
  have hents := subw_entries h8
  have hanchor : st.raft.raftLog.abs.term m.index = .ok m.logTerm := by
    rw [← o.inv.term_abs]; exact h7
  refine ⟨st.raft.raftLog.abs, st.raft.raftLog.committed,
    ⟨n0, s1, i, st, hn0, h1, h2, h3, h4, rfl⟩, o.snapIdx, hents, h8.1, hanchor, ?_, h6, ?_, ?_,
    append_term_ne_zero H.toHyp2wB ha hm hty⟩
  · -- the batch ends inside the sender's log
    by_cases hE : m.entries = []
    · rw [hE]
      simp only [List.length_nil, Nat.add_zero]
      rcases H.anch a (mem_of_get ha) m hm hty with c | c
      · unfold LLog.term at hanchor
        split at hanchor
        · rename_i hout
          injection hanchor with hanchor
          exact absurd hanchor.symm c
        · rename_i hin; omega
      · unfold LLog.lastIndex; rw [o.snapIdx]; omega
    · obtain ⟨e, he⟩ := List.exists_mem_of_ne_nil _ hE
      have hlast : m.entries.getLast? = some (m.entries.getLast hE) := List.getLast?_eq_getLast hE
      have hidx := ContigFrom.getLast h8.1 hlast
      have hin := hents _ (List.getLast_mem hE)
      have := (st.raft.raftLog.abs.entryAt_lt hin).2
      omega
  · rw [← o.inv.lastIndex_abs]; exact o.inv.committed_le_last
  · exact ((S n0 s1 hn0 h1).nctm i st h2).mono hn0 (Nat.le_of_eq h4)

/-- **the anchor of an accepted batch**: a log that matches the anchor of a `MsgAppend` equals the
sender's log up to the anchor -/
theorem anchor_eq (H : Hyp3aB cfg c0 h) {n : Nat} {a : Sys} (ha : h[n]? = some a) {v : Nat}
    {st : NState} (hv : a.node v = some st) {m : Message} (hm : m ∈ a.net)
    (hty : m.msgType = .msgAppend) {N : Nat} {L : LLog} {cL : Nat} (src : AppSrc h c0 N m L cL)
    (hmt : st.raft.raftLog.abs.matchTerm m.index m.logTerm = true) :
    EqUpTo st.raft.raftLog.abs L m.index := by
  have o := node_okB H.toHyp2wB ha hv
  by_cases hle : m.index ≤ c0
  · intro k hk
    unfold LLog.entryAt
    rw [if_pos (by rw [o.snapIdx]; omega), if_pos (by rw [src.snap]; omega)]
  · rcases H.anch a (mem_of_get ha) m hm hty with c | c
    · obtain ⟨e1, he1, ht1⟩ := st.raft.raftLog.abs.matchTerm_entry hmt c (by rw [o.snapIdx]; omega)
      obtain ⟨e2, he2, ht2⟩ := L.entry_of_term src.anchor c (by rw [src.snap]; omega)
      exact eq_ll H.toHyp2wB ha hv src.ll ⟨e1, he1, ht1⟩ ⟨e2, he2, ht2⟩
    · exact absurd c hle

/-- what is known about the sender of a `MsgHeartbeat` -/
structure HbSrc (h : List Sys) (c0 n : Nat) (net : List Message) (m : Message) (L : LLog)
    (cL : Nat) : Prop where
  ll : LeaderLog h n m.term L
  commit : m.commit ≤ cL
  cle : cL ≤ L.lastIndex
  cov : Covered h c0 n cL m.term L
  ack : m.commit = 0 ∨ ∃ x ∈ net, isAck x ∧ x.frm = m.to ∧ x.term = m.term ∧ m.commit ≤ x.index

theorem hb_src (H : Hyp3aB cfg c0 h) {n : Nat} (S : SAll h c0 n) {a : Sys} (ha : h[n]? = some a)
    {m : Message} (hm : m ∈ a.net) (hty : m.msgType = .msgHeartbeat) :
    ∃ L cL, HbSrc h c0 n a.net m L cL := by
  obtain ⟨i, n0, hn0, s1, st, h1, h2, h3, h4, h5, h6, h7⟩ :=
    (hb_prov H.toHyp2wB n a ha).2 m hm hty
  have o := node_okB H.toHyp2wB h1 h2
  refine ⟨st.raft.raftLog.abs, st.raft.raftLog.committed,
    ⟨n0, s1, i, st, hn0, h1, h2, h3, h4, rfl⟩, h6, ?_, ?_, ?_⟩
  · rw [← o.inv.lastIndex_abs]; exact o.inv.committed_le_last
  · exact ((S n0 s1 hn0 h1).nctm i st h2).mono hn0 (Nat.le_of_eq h4)
  · rcases h7 with c | ⟨x, hx, hack, hfrm, hterm, hidx⟩
    · exact .inl c
    · by_cases hz : m.commit = 0
      · exact .inl hz
      · right
        have hmono := (hist_all H.hist).2.2 n0 n s1 a hn0 h1 ha
        have hxa : x ∈ a.net := steps_net hmono x hx
        have hx0 : x.index ≠ 0 := by omega
        have := ((ack_inv H.toHyp2wB n0 s1 h1).2 x hx hack hx0).2
        rcases hterm with d | d
        · exact ⟨x, hxa, hack, hfrm, d, hidx⟩
        · exact absurd d this

/-- what is recorded about a (pre-)vote message when it is queued -/
def VoteGen (h : List Sys) (n i : Nat) (x : Message) : Prop :=
  ∃ s st, h[n]? = some s ∧ s.node i = some st ∧ VkOK st.raft x

/-- **provenance of the (pre-)vote messages** -/
theorem vote_prov (H : Hyp2wB cfg c0 h) : ∀ (n : Nat) (s : Sys), h[n]? = some s →
    (∀ i st, s.node i = some st → ∀ x ∈ st.raft.msgs, isVoteMsg x.msgType = true →
      Gen (VoteGen h) n i x) ∧
    (∀ x ∈ s.net, isVoteMsg x.msgType = true → ∃ i, Gen (VoteGen h) n i x) := by
  refine provenance h H.hist H.steps (fun x => isVoteMsg x.msgType = true) (VoteGen h) ?_
  intro n a b i st st' rnd op res ha hb hi hi' hcall hop hnc hnet x hx hty
  obtain ⟨g, _, _, _⟩ := call_factsB H ha hb hi hi' hnet hop hnc hcall
  rcases g.qvk x hx hty with c | c
  · exact .inl c
  · exact .inr ⟨b, st', hb, hi', c⟩

/-- **the commit point of a (pre-)vote message of the transport**: none, or the sender's log held an
entry of that term there, its commit index was at least that — and was covered by a past commit
event —, and the message's term is the sender's term then (plus one for a pre-vote request; a response
that carries a commit point is a rejection) -/
theorem vote_src (H : Hyp2wB cfg c0 h) {n : Nat} (S : SAll h c0 n) {a : Sys} (ha : h[n]? = some a)
    {m : Message} (hm : m ∈ a.net) (hty : isVoteMsg m.msgType = true) :
    m.commit = 0 ∨ ∃ (n0 : Nat) (s0 : Sys) (w : Nat) (stw : NState), n0 ≤ n ∧ h[n0]? = some s0 ∧
      s0.node w = some stw ∧ m.commit ≤ stw.raft.raftLog.committed ∧
      stw.raft.raftLog.abs.term m.commit = .ok m.commitTerm ∧ VT stw.raft.term m ∧
      Covered h c0 n stw.raft.raftLog.committed stw.raft.term stw.raft.raftLog.abs := by
  obtain ⟨w, n0, hn0, s0, stw, h1, h2, h3⟩ := (vote_prov H n a ha).2 m hm hty
  rcases h3 with c | ⟨c1, c2, c3⟩
  · exact .inl c
  · right
    have o := node_okB H h1 h2
    refine ⟨n0, s0, w, stw, hn0, h1, h2, c1, by rw [← o.inv.term_abs]; exact c2, c3, ?_⟩
    exact ((S n0 s0 hn0 h1).nctm w stw h2).mono hn0 (Nat.le_refl _)

/-- what a `call` / `deliver` step does to the logical log of its node -/
inductive CallStep (a : Sys) (v : Nat) (sta stb : NState) : Prop
  | same (hl : stb.raft.raftLog.abs = sta.raft.raftLog.abs)
  | grew (es : List Entry) (hg : Appended sta.raft stb.raft es)
  | acc (m : Message) (hm : m ∈ a.net) (hty : m.msgType = .msgAppend) (hto : m.to = v)
      (ha : Accepted sta.raft.raftLog.abs stb.raft.raftLog.abs m)
      (hc : stb.raft.raftLog.committed =
        max sta.raft.raftLog.committed (min m.commit (m.index + m.entries.length)))
      (hci : sta.raft.raftLog.committed ≤ m.index)
      (hs : stb.raft.state = .follower) (ht : m.term = stb.raft.term ∨ m.term = 0)

theorem call_step (H : Hyp2wB cfg c0 h) {n : Nat} {a b : Sys} (ha : h[n]? = some a)
    (hb : h[n + 1]? = some b) {k : Nat}
    {st st' : NState} {rnd : Option Nat} {op : NodeOp} {res : OpRes} (h1 : a.node k = some st)
    (h1' : b.node k = some st') (hnet : b.net = a.net)
    (hop : appOp op = true ∨ ∃ m, op = .step m ∧ m ∈ a.net ∧ m.to = k)
    (hnc : ∀ j, op ≠ .compact j) (h4 : Node.call st rnd op = .ok (res, st')) :
    CallStep a k st st' := by
  obtain ⟨s0, _, hall⟩ := H.inv_at
  have I := hall a (mem_of_get ha)
  have generic : (∀ m, op = .step m → m.msgType ≠ .msgAppend) → CallStep a k st st' := by
    intro hna
    obtain ⟨_, _, hq, _⟩ := call_factsB H ha hb h1 h1' hnet hop hnc h4
    rcases hq.l with c | ⟨es, c⟩ | c
    · exact .same c
    · exact .grew es c
    · rcases hop with h2 | ⟨m, rfl, _, _⟩
      · cases op <;> first | (cases h2; done) | (cases c; done)
      · exact absurd c (hna m rfl)
  rcases hop with h2 | ⟨m, rfl, h2, h3⟩
  · exact generic (fun m hm => by rw [hm] at h2; cases h2)
  · by_cases hty : m.msgType = .msgAppend
    · have hok := I.msgOk h2 hty
      have hag := I.agree .net (msgLog m) (.log k) _ ⟨m, h2, hty, rfl⟩ ⟨st, h1, rfl⟩
      cases append_call (I.inv k st h1) hty hok hag h4 with
      | noacc hl _ _ => exact .same hl
      | acc ha' hc hci hs ht _ => exact .acc m h2 hty h3 ha' hc hci hs ht
    · exact generic (fun m' hm' => by cases hm'; exact hty)

/-- **a freshly queued acknowledgement, completely**: it answers a `MsgAppend` of the transport of the
node's (new) term; either the batch was accepted and the response acknowledges its end, or the log is
untouched and the response acknowledges the commit index -/
theorem fresh_ack2 (H : Hyp2wB cfg c0 h) {n : Nat} {a b : Sys} (ha : h[n]? = some a)
    (hb : h[n + 1]? = some b) {k : Nat}
    {st st' : NState} {rnd : Option Nat} {op : NodeOp} {res : OpRes} (h1 : a.node k = some st)
    (h1' : b.node k = some st') (hnet : b.net = a.net)
    (hop : appOp op = true ∨ ∃ m, op = .step m ∧ m ∈ a.net ∧ m.to = k)
    (hnc : ∀ j, op ≠ .compact j) (h4 : Node.call st rnd op = .ok (res, st'))
    {x : Message} (hx : x ∈ st'.raft.msgs) (hold : x ∉ st.raft.msgs) (hack : isAck x)
    (hidx : x.index ≠ 0) :
    x.frm = k ∧ x.term = st'.raft.term ∧ st'.raft.state = .follower ∧
    ∃ m, op = .step m ∧ m ∈ a.net ∧ m.msgType = .msgAppend ∧ m.term = x.term ∧
      ((Accepted st.raft.raftLog.abs st'.raft.raftLog.abs m ∧
          x.index = m.index + m.entries.length) ∨
       (st'.raft.raftLog.abs = st.raft.raftLog.abs ∧ x.index = st.raft.raftLog.committed ∧
          st'.raft.raftLog.committed = st.raft.raftLog.committed)) := by
  obtain ⟨s0, _, hall⟩ := H.inv_at
  have I := hall a (mem_of_get ha)
  rcases fresh_ack H ha hb h1 h1' hnet hop hnc h4 hx hack hidx with c | ⟨c1, c2, c3, c4⟩
  · exact absurd c hold
  refine ⟨c1, c2, c4, ?_⟩
  obtain ⟨g, _, _, hid⟩ := call_factsB H ha hb h1 h1' hnet hop hnc h4
  rcases g.qak x hx hack with c | c
  · exact absurd c hold
  rcases c.src with d | ⟨_, d2, _, _⟩
  · exact absurd d hidx
  rcases hop with g1 | ⟨m, rfl, g2, g3⟩
  · cases op <;> first | (cases g1; done) | (cases d2; done)
  · have hty : m.msgType = .msgAppend := d2
    have hok := I.msgOk g2 hty
    have hag := I.agree .net (msgLog m) (.log k) _ ⟨m, g2, hty, rfl⟩ ⟨st, h1, rfl⟩
    have hmt := append_term_ne_zero H ha g2 hty
    cases append_call (I.inv k st h1) hty hok hag h4 with
    | noacc hl hc hq =>
      rcases hq x hx with e | e | e | ⟨e1, _, e3⟩
      · exact absurd e hold
      · exact absurd e hidx
      · rw [hack.2] at e; cases e
      · refine ⟨m, rfl, g2, hty, ?_, .inr ⟨hl, e1, hc⟩⟩
        rcases e3 with e | e
        · rw [c2]; exact e
        · exact absurd e hmt
    | acc ha' _ _ _ ht hq =>
      rcases hq x hx with e | ⟨_, e⟩
      · exact absurd e hold
      · refine ⟨m, rfl, g2, hty, ?_, .inl ⟨ha', e⟩⟩
        rcases ht with e | e
        · rw [c2]; exact e
        · exact absurd e hmt

end ClusterB
end RaftModel
