import RaftProofs.ProtoA
import RaftProofs.ProtoLStep

/-!
The **commit layer** of P — definitions and list-level lemmas.

* `InvB`: shape of the ghost logs (`llog t = elog t ++ entries of term t`, `elog t` older than `t`),
  every election is backed by a quorum of grant records decided before the term had a leader, against
  the log the winner was elected with.
* `InvC`: acknowledgement truth, retention of acknowledged prefixes (conditional on the leaders in
  between holding them), the voters' logs recorded with grants, quorum evidence of every leader
  commit, **Leader Completeness** (`lc`) and **commit soundness** (`cm`, `cmi`, `cmd` and the
  carriers of commit indexes: appends, heartbeats, snapshots, (index, term) evidence).
-/
namespace RaftModel.P

def Elected (s : PSys) (t : Nat) : Prop := ∃ j, (t, j) ∈ s.elected

/-- every elected leader of a term in `(t0, t]` holds the first `c` entries of the log of the leader of `t0` -/
def NCle (s : PSys) (t0 c t : Nat) : Prop :=
  ∀ t', t0 < t' → t' ≤ t → Elected s t' → (s.llog t').take c = (s.llog t0).take c

/-- the same for the terms in `(t0, t)` -/
def NClt (s : PSys) (t0 c t : Nat) : Prop :=
  ∀ t', t0 < t' → t' < t → Elected s t' → (s.llog t').take c = (s.llog t0).take c

/-- acknowledgements known to a node: generated, covered by a pending image, covered by the durable image -/
def nodeAcks (n : PNode) (m : OMsg) : Prop :=
  m ∈ n.outbox ∨ (∃ im ∈ n.pending, m ∈ im.acks) ∨ m ∈ n.dacks

/-- index `k` is covered by a leader commit of a term not beyond `t` -/
def Cmtd (s : PSys) (t k : Nat) : Prop := k = 0 ∨ ∃ p ∈ s.cmts, k ≤ p.2 ∧ p.1 ≤ t

/-- the first `k` entries of `l` are entries committed by a leader of a term not beyond `t` -/
def CmtPre (s : PSys) (t k : Nat) (l : List LEntry) : Prop :=
  k = 0 ∨ ∃ p ∈ s.cmts, k ≤ p.2 ∧ p.1 ≤ t ∧ l.take k = (s.llog p.1).take k

structure InvB (s : PSys) : Prop where
  ll : ∀ t, ∃ r, s.llog t = s.elog t ++ r ∧ (∀ e ∈ r, e.term = t) ∧ (∀ e ∈ s.elog t, e.term < t)
  eq : ∀ p ∈ s.elected, ∃ cfg q, (p.1, cfg) ∈ s.ecfgs ∧ cfg.isQuorum q = true ∧ ∀ v ∈ q, ∃ gh, ((⟨p.1, v, p.2⟩ : Grant), gh) ∈ s.rgv ∧
          gh.early = true ∧ upToDate (lastTerm (s.elog p.1)) (s.elog p.1).length gh.vlog = true
  gto : ∀ i t v c gh, OMsg.grant t v c gh ∈ (s.nodes i).outbox → upToDate gh.clt gh.cli gh.vlog = true
  gt : ∀ p ∈ s.rgv, upToDate p.2.clt p.2.cli p.2.vlog = true
  /-- a configuration is recorded for a term only when somebody was elected for it -/
  ee : ∀ ec ∈ s.ecfgs, Elected s ec.1

/-- acknowledgement truth and retention of acknowledged prefixes -/
structure InvC1 (s : PSys) : Prop where
  /-- acknowledgement truth: the acknowledged prefix is a prefix of the log of the leader of its term -/
  atr : ∀ i t f idx pre, nodeAcks (s.nodes i) (.ack t f idx pre) →
          idx ≤ (s.llog t).length ∧ pre = (s.llog t).take idx ∧ Elected s t
  /-- retention (volatile / pending images / durable) -/
  ret : ∀ i t0 f idx pre, OMsg.ack t0 f idx pre ∈ (s.nodes i).outbox → ∀ c, c ≤ idx →
          NCle s t0 c (s.nodes i).term → (s.nodes i).log.take c = (s.llog t0).take c
  reti : ∀ i, ∀ im ∈ (s.nodes i).pending, ∀ t0 f idx pre, OMsg.ack t0 f idx pre ∈ im.acks → ∀ c, c ≤ idx →
          NCle s t0 c im.term → im.log.take c = (s.llog t0).take c
  retd : ∀ i t0 f idx pre, OMsg.ack t0 f idx pre ∈ (s.nodes i).dacks → ∀ c, c ≤ idx →
          NCle s t0 c (s.nodes i).dterm → (s.nodes i).dlog.take c = (s.llog t0).take c

/-- the voter's log recorded with a grant (generated / released) retains what the voter had acknowledged -/
structure InvC2 (s : PSys) : Prop where
  rgo : ∀ i t v cd gh, OMsg.grant t v cd gh ∈ (s.nodes i).outbox → gh.early = true →
          ∀ t0 f idx pre, OMsg.ack t0 f idx pre ∈ (s.nodes i).outbox → t0 < t → ∀ c, c ≤ idx →
          NClt s t0 c t → gh.vlog.take c = (s.llog t0).take c
  rgr : ∀ p ∈ s.rgv, p.2.early = true →
          ∀ t0 f idx pre, nodeAcks (s.nodes p.1.voter) (.ack t0 f idx pre) → t0 < p.1.term → ∀ c, c ≤ idx →
          NClt s t0 c p.1.term → p.2.vlog.take c = (s.llog t0).take c

/-- quorum evidence of every leader commit, commit soundness of every node and of every carrier of a
commit index -/
structure InvC3 (s : PSys) : Prop where
  cq : ∀ p ∈ s.cmts, 0 < p.2 ∧ p.2 ≤ (s.llog p.1).length ∧ termAt (s.llog p.1) p.2 = p.1 ∧ Elected s p.1 ∧
          ∃ cfg q, (p, cfg) ∈ s.ccfgs ∧ cfg.isQuorum q = true ∧ ∀ v ∈ q, ∃ a ∈ s.acks, a.term = p.1 ∧ a.frm = v ∧ p.2 ≤ a.idx
  /-- the configuration ghosts of the leader commits are in step with `cmts` -/
  cc : s.ccfgs.map (·.1) = s.cmts
  /-- configurations of a leader commit and of a later-term election: their quorums meet, or the later
  leader was demonstrably elected with the committed prefix (guards of `win` / `commitLeader`) -/
  gd : ∀ pc ∈ s.ccfgs, ∀ ec ∈ s.ecfgs, pc.1.1 < ec.1 →
          adjOk pc.2 ec.2 = true ∨ (s.elog ec.1).take pc.1.2 = (s.llog pc.1.1).take pc.1.2
  cm : ∀ i, CmtPre s (s.nodes i).term (s.nodes i).commit (s.nodes i).log
  cmi : ∀ i, ∀ im ∈ (s.nodes i).pending, CmtPre s im.term im.commit im.log
  cmd : ∀ i, CmtPre s (s.nodes i).dterm (s.nodes i).dcommit (s.nodes i).dlog
  capp : ∀ m ∈ s.apps, Cmtd s m.term m.commit
  chb : ∀ m ∈ s.hbs, Elected s m.term ∧ Cmtd s m.term m.commit ∧
          (m.commit = 0 ∨ ∃ a ∈ s.acks, a.term = m.term ∧ a.frm = m.to ∧ m.commit ≤ a.idx)
  csn : ∀ m ∈ s.snaps, Elected s m.term ∧ Cmtd s m.term m.idx ∧ m.idx ≤ (s.llog m.term).length ∧
          m.pre = (s.llog m.term).take m.idx ∧ m.sterm = termAt (s.llog m.term) m.idx
  ccl : ∀ m ∈ s.claims, m.idx = 0 ∨ ∃ p ∈ s.cmts, m.idx ≤ p.2 ∧ p.1 ≤ m.cterm ∧
          m.term = termAt (s.llog p.1) m.idx

/-- **Leader Completeness**: the log a later leader is elected with holds every committed prefix -/
def InvLC (s : PSys) : Prop :=
  ∀ p ∈ s.cmts, ∀ t, p.1 < t → Elected s t → (s.elog t).take p.2 = (s.llog p.1).take p.2

structure InvC (s : PSys) : Prop where
  c1 : InvC1 s
  c2 : InvC2 s
  c3 : InvC3 s
  lc : InvLC s

/-! ### list lemmas -/

theorem take_of_take_eq {l L : List LEntry} {a b : Nat} (h : l.take a = L.take a) (hb : b ≤ a) :
    l.take b = L.take b := by
  have : (l.take a).take b = (L.take a).take b := by rw [h]
  rwa [List.take_take, List.take_take, Nat.min_eq_left hb] at this

theorem len_of_take_eq {l L : List LEntry} {c : Nat} (h : l.take c = L.take c) (hc : c ≤ L.length) :
    c ≤ l.length := by
  have : (l.take c).length = (L.take c).length := by rw [h]
  rw [List.length_take, List.length_take] at this
  omega

theorem getElem?_of_take_eq {l L : List LEntry} {c k : Nat} (h : l.take c = L.take c) (hk : k < c) :
    l[k]? = L[k]? := by
  have : (l.take c)[k]? = (L.take c)[k]? := by rw [h]
  rw [List.getElem?_take, List.getElem?_take] at this
  simpa [hk] using this

theorem termAt_of_take_eq {l L : List LEntry} {c k : Nat} (h : l.take c = L.take c) (hk : k ≤ c) :
    termAt l k = termAt L k := by
  unfold termAt
  by_cases h0 : k = 0
  · simp [h0]
  · rw [if_neg h0, if_neg h0, getElem?_of_take_eq h (by omega)]

theorem termAt_append_left (l r : List LEntry) {k : Nat} (hk : k ≤ l.length) :
    termAt (l ++ r) k = termAt l k := by
  unfold termAt
  by_cases h0 : k = 0
  · simp [h0]
  · rw [if_neg h0, if_neg h0, List.getElem?_append_left (by omega)]

theorem termAt_take {l : List LEntry} {c k : Nat} (hk : k ≤ c) : termAt (l.take c) k = termAt l k :=
  termAt_of_take_eq (by rw [List.take_take]; simp) hk

theorem lastTerm_eq_termAt (l : List LEntry) : lastTerm l = termAt l l.length := by
  unfold lastTerm termAt
  rw [List.getLast?_eq_getElem?]
  by_cases h : l.length = 0
  · have : l = [] := List.length_eq_zero_iff.mp h
    subst this; rfl
  · rw [if_neg h]

/-- a conflict found by `find_conflict` lies beyond any prefix on which the two logs agree -/
theorem conflictAt_beyond (L : List LEntry) (c : Nat) : ∀ (es l : List LEntry) (pos : Nat),
    es = (L.drop pos).take es.length → pos + es.length ≤ L.length → l.take c = L.take c →
    conflictAt l pos es = 0 ∨ c < conflictAt l pos es := by
  intro es
  induction es with
  | nil => intro l pos _ _ _; left; rfl
  | cons e es ih =>
    intro l pos hes hlen hpre
    have hLe : L[pos]? = some e := by
      have h0 : (e :: es)[0]? = some e := rfl
      rw [hes] at h0
      rw [List.getElem?_take] at h0
      simp at h0
      exact h0
    have hposL : pos < L.length := (List.getElem?_eq_some_iff.mp hLe).1
    have hdrop : L.drop pos = e :: L.drop (pos + 1) := by
      rw [List.drop_eq_getElem_cons hposL]
      congr 1
      exact (List.getElem?_eq_some_iff.mp hLe).2
    have hes' : es = (L.drop (pos + 1)).take es.length := by
      rw [hdrop] at hes
      simp only [List.length_cons, List.take_succ_cons] at hes
      injection hes
    unfold conflictAt
    cases hx : l[pos]? with
    | none =>
      simp only
      right
      by_cases hc : pos < c
      · have := getElem?_of_take_eq hpre hc
        rw [hx, hLe] at this; cases this
      · omega
    | some x =>
      simp only
      by_cases ht : x.term = e.term
      · simp only [ht, if_true]
        exact ih l (pos + 1) hes' (by simp only [List.length_cons] at hlen; omega) hpre
      · simp only [ht, if_false]
        right
        by_cases hc : pos < c
        · have := getElem?_of_take_eq hpre hc
          rw [hx, hLe] at this
          injection this with this
          rw [this] at ht; exact absurd rfl ht
        · omega

/-- after `maybe_append` the log agrees with the leader's log up to the last index of the message -/
theorem mergeAt_take (llog : Nat → List LEntry) (L : List LEntry) (hL : PFL llog L) :
    ∀ (es : List LEntry) (l : List LEntry) (pos : Nat), PFL llog l → pos ≤ l.length →
      l.take pos = L.take pos → es = (L.drop pos).take es.length → pos + es.length ≤ L.length →
      (mergeAt l pos es).take (pos + es.length) = L.take (pos + es.length) := by
  intro es
  induction es with
  | nil => intro l pos _ _ hpre _ _; simpa [mergeAt] using hpre
  | cons e es ih =>
    intro l pos hl hpos hpre hes hlen
    have hLe : L[pos]? = some e := by
      have h0 : (e :: es)[0]? = some e := rfl
      rw [hes] at h0
      rw [List.getElem?_take] at h0
      simp at h0
      exact h0
    have hposL : pos < L.length := (List.getElem?_eq_some_iff.mp hLe).1
    have hdrop : L.drop pos = e :: L.drop (pos + 1) := by
      rw [List.drop_eq_getElem_cons hposL]
      congr 1
      exact (List.getElem?_eq_some_iff.mp hLe).2
    have hes' : es = (L.drop (pos + 1)).take es.length := by
      rw [hdrop] at hes
      simp only [List.length_cons, List.take_succ_cons] at hes
      injection hes
    have hconf : l.take pos ++ (e :: es) = L.take (pos + (e :: es).length) := by
      rw [hpre, hes, List.length_take]
      have : min (e :: es).length (L.drop pos).length = (e :: es).length := by
        rw [List.length_drop]; simp only [List.length_cons] at hlen ⊢; omega
      rw [this, List.take_add]
    have hconf' : (l.take pos ++ (e :: es)).take (pos + (e :: es).length) = L.take (pos + (e :: es).length) := by
      rw [hconf, List.take_take]; simp
    unfold mergeAt
    cases hx : l[pos]? with
    | none => simpa using hconf'
    | some x =>
      simp only
      by_cases ht : x.term = e.term
      · simp only [ht, if_true]
        have hagree := PFL_agree hl hL hx hLe ht
        have hpos' : pos + 1 ≤ l.length := by
          have := (List.getElem?_eq_some_iff.mp hx).1; omega
        have := ih l (pos + 1) hl hpos' hagree hes' (by simp only [List.length_cons] at hlen; omega)
        have e1 : pos + (e :: es).length = pos + 1 + es.length := by simp only [List.length_cons]; omega
        rw [e1]; exact this
      · simp only [ht, if_false]; exact hconf'

/-- `maybe_append` keeps every prefix on which the follower already agreed with the leader -/
theorem mergeAt_keep (L : List LEntry) (c : Nat) (es l : List LEntry) (pos : Nat) (hpos : pos ≤ l.length)
    (hes : es = (L.drop pos).take es.length) (hlen : pos + es.length ≤ L.length)
    (hpre : l.take c = L.take c) : (mergeAt l pos es).take c = L.take c := by
  have hp := mergeAt_prefix es l pos hpos
  rcases conflictAt_beyond L c es l pos hes hlen hpre with h0 | hgt
  · rw [hp.1 h0]; exact hpre
  · have := (hp.2 (by omega)).2
    rw [take_of_take_eq this (by omega)]; exact hpre

/-- no conflict and a matching anchor: the follower's log agrees with the leader's up to the end of the message -/
theorem noconflict_take (llog : Nat → List LEntry) (L : List LEntry) (hL : PFL llog L)
    (es l : List LEntry) (pos : Nat) (hl : PFL llog l) (hpos : pos ≤ l.length)
    (hpre : l.take pos = L.take pos) (hes : es = (L.drop pos).take es.length)
    (hlen : pos + es.length ≤ L.length) (h0 : conflictAt l pos es = 0) :
    l.take (pos + es.length) = L.take (pos + es.length) := by
  have := mergeAt_take llog L hL es l pos hl hpos hpre hes hlen
  rwa [(mergeAt_prefix es l pos hpos).1 h0] at this

/-- a non-empty prefix-from-leader list is a prefix of the log of the leader of its last term -/
theorem pfl_last {llog : Nat → List LEntry} {l : List LEntry} (h : PFL llog l) (hne : l ≠ []) :
    l = (llog (lastTerm l)).take l.length := by
  have hpos : 0 < l.length := List.length_pos_iff.mpr hne
  have hx : l[l.length - 1]? = some (l[l.length - 1]'(by omega)) := List.getElem?_eq_getElem (by omega)
  have := h (l.length - 1) _ hx
  have e : l.length - 1 + 1 = l.length := by omega
  rw [e, List.take_length] at this
  have hlt : lastTerm l = (l[l.length - 1]'(by omega)).term := by
    unfold lastTerm
    rw [List.getLast?_eq_getElem?, hx]
  rw [hlt]; exact this

/-- terms are non-decreasing along every prefix-from-leader list, given the shape of the ghost logs -/
theorem pfl_sorted {llog elog : Nat → List LEntry}
    (hll : ∀ t, ∃ r, llog t = elog t ++ r ∧ (∀ e ∈ r, e.term = t) ∧ (∀ e ∈ elog t, e.term < t))
    {l : List LEntry} (h : PFL llog l) {i j : Nat} {x y : LEntry} (hij : i ≤ j)
    (hx : l[i]? = some x) (hy : l[j]? = some y) : x.term ≤ y.term := by
  have hj := h j y hy
  have hxi : (llog y.term)[i]? = some x := by
    have := getElem?_of_take_eq hj (show i < j + 1 by omega)
    rw [← this]; exact hx
  obtain ⟨r, hr, hrt, het⟩ := hll y.term
  rw [hr] at hxi
  by_cases hlt : i < (elog y.term).length
  · rw [List.getElem?_append_left hlt] at hxi
    exact Nat.le_of_lt (het x (List.mem_of_getElem? hxi))
  · rw [List.getElem?_append_right (by omega)] at hxi
    exact Nat.le_of_eq (hrt x (List.mem_of_getElem? hxi))

/-! ### the "leaders in between" condition only gets harder to meet -/

theorem NCle_mono {s : PSys} {t0 c t t' : Nat} (h : NCle s t0 c t) (ht : t' ≤ t) : NCle s t0 c t' :=
  fun u h1 h2 h3 => h u h1 (by omega) h3

theorem NCle_of_lt {s : PSys} {t0 c t : Nat} (h : NClt s t0 c t) (hne : ¬ Elected s t) : NCle s t0 c t := by
  intro u h1 h2 h3
  by_cases hu : u = t
  · subst hu; exact absurd h3 hne
  · exact h u h1 (by omega) h3

theorem NClt_of_le {s : PSys} {t0 c t : Nat} (h : NCle s t0 c t) : NClt s t0 c t :=
  fun u h1 h2 h3 => h u h1 (by omega) h3

theorem NCle_self (s : PSys) (t c : Nat) : NCle s t c t := fun u h1 h2 _ => by omega

/-! ### ghost logs and elections only grow -/

/-- what every step does to the ghost history: elections are added, the ghost log of an elected term
is extended by entries of that term -/
structure Grow (s s' : PSys) : Prop where
  el : ∀ t, Elected s t → Elected s' t
  ext : ∀ t, Elected s t → ∃ r, s'.llog t = s.llog t ++ r ∧ ∀ e ∈ r, e.term = t

theorem Grow.refl' {s s' : PSys} (h1 : s'.llog = s.llog) (h2 : s'.elected = s.elected) : Grow s s' :=
  ⟨fun t ⟨j, hj⟩ => ⟨j, by rw [h2]; exact hj⟩, fun t _ => ⟨[], by rw [h1]; simp, by simp⟩⟩

/-- a prefix inside the ghost log of an elected term is stable -/
theorem Grow.take_eq {s s' : PSys} (g : Grow s s') {t c : Nat} (ht : Elected s t)
    (hc : c ≤ (s.llog t).length) : (s'.llog t).take c = (s.llog t).take c := by
  obtain ⟨r, hr, _⟩ := g.ext t ht
  rw [hr, List.take_append_of_le_length hc]

theorem Grow.len_le {s s' : PSys} (g : Grow s s') {t : Nat} (ht : Elected s t) :
    (s.llog t).length ≤ (s'.llog t).length := by
  obtain ⟨r, hr, _⟩ := g.ext t ht
  rw [hr, List.length_append]; omega

theorem Grow.termAt_eq {s s' : PSys} (g : Grow s s') {t c : Nat} (ht : Elected s t)
    (hc : c ≤ (s.llog t).length) : termAt (s'.llog t) c = termAt (s.llog t) c := by
  obtain ⟨r, hr, _⟩ := g.ext t ht
  rw [hr, termAt_append_left _ _ hc]

/-- the condition on the leaders in between can only be lost, never gained, along a step -/
theorem Grow.ncle {s s' : PSys} (g : Grow s s') {t0 c T : Nat} (ht0 : Elected s t0)
    (hc : c ≤ (s.llog t0).length) (hlt : ∀ e ∈ s.llog t0, e.term ≤ t0)
    (h : NCle s' t0 c T) : NCle s t0 c T := by
  intro t' h1 h2 h3
  have h' := h t' h1 h2 (g.el t' h3)
  rw [g.take_eq ht0 hc] at h'
  obtain ⟨r, hr, hrt⟩ := g.ext t' h3
  rw [hr] at h'
  by_cases hle : c ≤ (s.llog t').length
  · rwa [List.take_append_of_le_length hle] at h'
  · exfalso
    have hk : (s.llog t').length < c := by omega
    have hlen : ((s.llog t' ++ r).take c).length = c := by
      rw [h', List.length_take]; omega
    have hlt2 : (s.llog t').length < (s.llog t' ++ r).length := by
      rw [List.length_take] at hlen; omega
    have hx := getElem?_of_take_eq h' hk
    rw [List.getElem?_append_right (Nat.le_refl _), Nat.sub_self] at hx
    have hr0 : 0 < r.length := by rw [List.length_append] at hlt2; omega
    have hx0 : r[0]? = some (r[0]'hr0) := List.getElem?_eq_getElem hr0
    rw [hx0] at hx
    have hm1 : r[0]'hr0 ∈ r := List.getElem_mem hr0
    have hm2 : r[0]'hr0 ∈ s.llog t0 := List.mem_of_getElem? hx.symm
    have := hrt _ hm1
    have := hlt _ hm2
    omega

theorem Grow.nclt {s s' : PSys} (g : Grow s s') {t0 c T : Nat} (ht0 : Elected s t0)
    (hc : c ≤ (s.llog t0).length) (hlt : ∀ e ∈ s.llog t0, e.term ≤ t0)
    (h : NClt s' t0 c T) : NClt s t0 c T := by
  intro t' h1 h2 h3
  have : NCle s' t0 c t' := fun u a b d => h u a (by omega) d
  exact (g.ncle ht0 hc hlt this) t' h1 (Nat.le_refl _) h3

theorem Cmtd.mono {s s' : PSys} {t k : Nat} (h : Cmtd s t k) (hc : ∀ p ∈ s.cmts, p ∈ s'.cmts) : Cmtd s' t k := by
  rcases h with h | ⟨p, hp, h1, h2⟩
  · exact Or.inl h
  · exact Or.inr ⟨p, hc p hp, h1, h2⟩

theorem Cmtd.mono_term {s : PSys} {t t' k : Nat} (h : Cmtd s t k) (ht : t ≤ t') : Cmtd s t' k := by
  rcases h with h | ⟨p, hp, h1, h2⟩
  · exact Or.inl h
  · exact Or.inr ⟨p, hp, h1, by omega⟩

theorem Cmtd.mono_idx {s : PSys} {t k k' : Nat} (h : Cmtd s t k) (hk : k' ≤ k) : Cmtd s t k' := by
  rcases h with h | ⟨p, hp, h1, h2⟩
  · exact Or.inl (by omega)
  · exact Or.inr ⟨p, hp, by omega, h2⟩

theorem CmtPre.cmtd {s : PSys} {t k : Nat} {l : List LEntry} (h : CmtPre s t k l) : Cmtd s t k := by
  rcases h with h | ⟨p, hp, h1, h2, _⟩
  · exact Or.inl h
  · exact Or.inr ⟨p, hp, h1, h2⟩

theorem addReleased_llog (s : PSys) (m : OMsg) : (addReleased s m).llog = s.llog ∧ (addReleased s m).elected = s.elected ∧
    (addReleased s m).nodes = s.nodes ∧ (addReleased s m).cmts = s.cmts ∧ (addReleased s m).elog = s.elog := by
  cases m <;> simp [addReleased]

/-- nobody was elected before for the term a candidate wins -/
theorem win_fresh (s : PSys) (hV : InvV (vsys s))
    (hL : InvL s) (i : Nat) (cfg : Cfg) (q : List Nat) (hrole : (s.nodes i).role = 1)
    (hq : cfg.isQuorum q = true) (hall : ∀ x ∈ q, (⟨(s.nodes i).term, x, i⟩ : Grant) ∈ s.grants)
    (hadj : ∀ p ∈ s.ecfgs, p.1 = (s.nodes i).term → adjOk cfg p.2 = true) :
    ¬ Elected s (s.nodes i).term := by
  rintro ⟨j, hj⟩
  exact win_fresh_elected s hV hL i cfg q hrole hq hall hadj j hj

/-- the guard of `win`, unpacked -/
theorem win_guard {s s' : PSys} {i : Nat} {cfg : Cfg} {q : List Nat} (h : applyEvent s (.win i cfg q) = .ok s') :
    (s.nodes i).role = 1 ∧ cfg.isQuorum q = true ∧
    (∀ x ∈ q, (⟨(s.nodes i).term, x, i⟩ : Grant) ∈ s.grants) ∧
    (∀ x ∈ q, ∃ p ∈ s.rgv, p.1 = ⟨(s.nodes i).term, x, i⟩ ∧ p.2.early = true ∧
        p.2.clt = lastTerm (s.nodes i).log ∧ p.2.cli = (s.nodes i).log.length) ∧
    s' = { s with nodes := upd s.nodes i { s.nodes i with role := 2 },
                  llog := updT s.llog (s.nodes i).term (s.nodes i).log,
                  elog := updT s.elog (s.nodes i).term (s.nodes i).log,
                  elected := ((s.nodes i).term, i) :: s.elected,
                  ecfgs := ((s.nodes i).term, cfg) :: s.ecfgs } ∧
    adjOk cfg cfg = true ∧
    (∀ p ∈ s.ecfgs, p.1 = (s.nodes i).term → adjOk cfg p.2 = true) ∧
    (∀ p ∈ s.ccfgs, p.1.1 < (s.nodes i).term → adjOk p.2 cfg = true ∨
        (s.nodes i).log.take p.1.2 = (s.llog p.1.1).take p.1.2) := by
  simp only [applyEvent, ok] at h
  split at h
  · rename_i hg
    injection h with h
    refine ⟨hg.2.1, hg.2.2.2.1, ?_, ?_, h.symm, hg.2.2.2.2.2.2.2.1, ?_, ?_⟩
    · have := hg.2.2.2.2.2.1
      simp only [List.all_eq_true, List.contains_iff_mem] at this
      exact this
    · have := hg.2.2.2.2.2.2.1
      simp only [List.all_eq_true, List.any_eq_true, decide_eq_true_eq] at this
      intro x hx
      obtain ⟨p, hp, h1⟩ := this x hx
      exact ⟨p, hp, h1.1, h1.2.1, h1.2.2.1, h1.2.2.2⟩
    · have := hg.2.2.2.2.2.2.2.2.1
      simp only [List.all_eq_true, Bool.or_eq_true, decide_eq_true_eq] at this
      intro p hp hpt
      rcases this p hp with h1 | h1
      · exact absurd hpt h1
      · exact h1
    · have := hg.2.2.2.2.2.2.2.2.2
      simp only [List.all_eq_true, Bool.or_eq_true, decide_eq_true_eq] at this
      intro p hp hlt
      rcases this p hp with h1 | h1 | h1
      · omega
      · exact Or.inl h1
      · exact Or.inr h1
  · cases h

/-- the guard of `commitLeader`, unpacked -/
theorem commitLeader_guard {s s' : PSys} {i c : Nat} {cfg : Cfg} {q : List Nat}
    (h : applyEvent s (.commitLeader i c cfg q) = .ok s') :
    (s.nodes i).up = true ∧ (s.nodes i).role = 2 ∧ (s.nodes i).commit < c ∧ c ≤ (s.nodes i).log.length ∧
    termAt (s.nodes i).log c = (s.nodes i).term ∧ cfg.isQuorum q = true ∧
    (∀ v ∈ q, ∃ a ∈ s.acks, a.term = (s.nodes i).term ∧ a.frm = v ∧ c ≤ a.idx) ∧
    adjOk cfg cfg = true ∧
    (∀ p ∈ s.ecfgs, (s.nodes i).term < p.1 → adjOk cfg p.2 = true ∨
        (s.elog p.1).take c = (s.nodes i).log.take c) ∧
    s' = { s with nodes := upd s.nodes i { s.nodes i with commit := c },
                  cmts := ((s.nodes i).term, c) :: s.cmts,
                  ccfgs := (((s.nodes i).term, c), cfg) :: s.ccfgs } := by
  simp only [applyEvent, ok] at h
  split at h
  · rename_i hg
    injection h with h
    refine ⟨hg.1, hg.2.1, hg.2.2.1, hg.2.2.2.1, hg.2.2.2.2.1, hg.2.2.2.2.2.1, ?_, hg.2.2.2.2.2.2.2.1, ?_, h.symm⟩
    · have := hg.2.2.2.2.2.2.1
      simp only [List.all_eq_true, List.any_eq_true, decide_eq_true_eq] at this
      exact this
    · have := hg.2.2.2.2.2.2.2.2
      simp only [List.all_eq_true, Bool.or_eq_true, decide_eq_true_eq] at this
      intro p hp hlt
      rcases this p hp with h1 | h1 | h1
      · omega
      · exact Or.inl h1
      · exact Or.inr h1
  · cases h

theorem grow_step (s s' : PSys) (e : Event)
    (hV : InvV (vsys s)) (hL : InvL s) (h : applyEvent s e = .ok s') : Grow s s' := by
  cases e with
  | read r =>
    simp only [applyEvent, ok] at h
    split at h
    · cases h; exact Grow.refl' rfl rfl
    · cases h
  | win i cfg q =>
    obtain ⟨hrole, hq, hall, _, hs', _, hadj, _⟩ := win_guard h
    have hf := win_fresh s hV hL i cfg q hrole hq hall hadj
    subst hs'
    constructor
    · rintro t ⟨j, hj⟩; exact ⟨j, List.mem_cons_of_mem _ hj⟩
    · intro t ht
      have : t ≠ (s.nodes i).term := by intro he; rw [he] at ht; exact hf ht
      exact ⟨[], by simp [updT, this], by simp⟩
  | leaderAppend i e =>
    simp only [applyEvent, ok] at h
    split at h
    · rename_i hg
      cases h
      constructor
      · intro t ht; exact ht
      · intro t _
        by_cases ht : t = (s.nodes i).term
        · subst ht
          refine ⟨[e], ?_, ?_⟩
          · simp only [updT, if_true]; rw [hL.ll i hg.2.1]
          · intro x hx; simp only [List.mem_singleton] at hx; rw [hx]; exact hg.2.2
        · exact ⟨[], by simp [updT, ht], by simp⟩
    · cases h
  | release i key =>
    simp only [applyEvent, ok] at h
    split at h
    · split at h
      · split at h
        · cases h; exact Grow.refl' (addReleased_llog _ _).1 (addReleased_llog _ _).2.1
        · cases h
      · cases h
    · split at h
      · split at h
        · split at h
          · cases h; exact Grow.refl' (addReleased_llog _ _).1 (addReleased_llog _ _).2.1
          · cases h
        · cases h
      · cases h
  | grant i c =>
    simp only [applyEvent, ok] at h
    split at h
    · split at h
      · cases h; exact Grow.refl' rfl rfl
      · cases h
    · cases h
  | persist i k =>
    simp only [applyEvent, ok] at h
    split at h
    · split at h
      · cases h; exact Grow.refl' rfl rfl
      · cases h
    · cases h
  | installSnap i t idx sterm =>
    simp only [applyEvent, ok] at h
    split at h
    · split at h
      · cases h; exact Grow.refl' rfl rfl
      · cases h
    · cases h
  | commitSnap i t idx sterm =>
    simp only [applyEvent, ok] at h
    split at h
    · split at h
      · cases h; exact Grow.refl' rfl rfl
      · cases h
    · cases h
  | bump i t | campaign i | rdy i | crash i | restart i | stepDown i | sendApp i m | recvApp i m
  | ackCommitted i | ackSelf i idx | commitLeader i c cfg q | commitApp i c m | commitHB i c m
  | commitClaim i m | sendHB i to c | claim i idx | sendSnap i idx | bootstrap i donor idx =>
    simp only [applyEvent, ok] at h
    split at h
    · cases h; exact Grow.refl' rfl rfl
    · cases h

/-- the log of every leader of a term not before a leader commit holds the committed prefix -/
theorem cmt_prefix {s : PSys} (hB : InvB s) (h3 : InvC3 s) (hlc : InvLC s)
    {p : Nat × Nat} (hp : p ∈ s.cmts) {t : Nat} (ht : p.1 ≤ t) (hel : Elected s t) :
    (s.llog t).take p.2 = (s.llog p.1).take p.2 := by
  by_cases he : p.1 = t
  · rw [he]
  · have h1 := hlc p hp t (by omega) hel
    obtain ⟨r, hr, _, _⟩ := hB.ll t
    have hlen := len_of_take_eq h1 (h3.cq p hp).2.1
    rw [hr, List.take_append_of_le_length hlen]; exact h1

/-- ... and any shorter prefix of it -/
theorem cmt_prefix_le {s : PSys} (hB : InvB s) (h3 : InvC3 s) (hlc : InvLC s)
    {p : Nat × Nat} (hp : p ∈ s.cmts) {t : Nat} (ht : p.1 ≤ t) (hel : Elected s t) {k : Nat} (hk : k ≤ p.2) :
    (s.llog t).take k = (s.llog p.1).take k :=
  take_of_take_eq (cmt_prefix hB h3 hlc hp ht hel) hk

end RaftModel.P
