import RaftProofs.ClusterSnapV

/-!
Commit safety of `ClusterSem`, towards snapshots, part 2A: `Raft::step` on a `MsgSnapshot`, unfolded
(`step_snap_unfold`: either `handle_snapshot` runs on a follower state that differs from the start
state only in role, term and bookkeeping, or the log is untouched).
-/
namespace RaftModel
namespace Raft
namespace CC
open Node

theorem stepTerm_snap_term {r r1 : Raft} {m : Message} (h : r.stepTerm m = .ok (r1, true))
    (hty : m.msgType = .msgSnapshot) : m.term = r1.term ∨ m.term = 0 := by
  unfold Raft.stepTerm at h
  split at h
  · rename_i h0; exact .inr h0
  · split at h
    · simp only at h
      split at h
      · cases h
      · split at h
        · rename_i hpv
          rw [hty] at hpv
          rcases hpv with c | ⟨c, _⟩ <;> cases c
        · split at h
          · cases h; exact .inl (becomeFollower_term_vote _ _ _).1.symm
          · cases h; exact .inl (becomeFollower_term_vote _ _ _).1.symm
    · split at h
      · split at h
        · split at h <;> cases h
        · split at h
          · split at h <;> cases h
          · cases h
      · cases h
        left; omega

theorem becomeFollower_prs (r : Raft) (t l : Nat) :
    (r.becomeFollower t l).pendingRequestSnapshot = r.pendingRequestSnapshot := rfl

theorem stepTerm_prs {r r1 : Raft} {m : Message} (h : r.stepTerm m = .ok (r1, true)) :
    r1.pendingRequestSnapshot = r.pendingRequestSnapshot := by
  rcases RaftProps.C16.stepTerm_true h with g | ⟨_, _, _, l, g⟩
  · rw [g]
  · rw [g]; rfl

/-- **`step` on a `MsgSnapshot`** -/
theorem step_snap_unfold {r r' : Raft} {m : Message} {e : Option RaftError}
    (hm : m.msgType = .msgSnapshot) (h : r.step m = .ok (r', e)) :
    (∃ r0, r0.handleSnapshot m = .ok r' ∧ r0.state = .follower ∧ SameLog r r0 ∧
      (m.term = r0.term ∨ m.term = 0) ∧ r0.pendingRequestSnapshot = r.pendingRequestSnapshot) ∨
    r' = r := by
  unfold Raft.step at h
  split at h
  · cases h
  · cases h
  · rename_i r1 hst
    cases h
    right
    unfold Raft.stepTerm at hst
    split at hst
    · cases hst
    · split at hst
      · simp only at hst
        split at hst
        · cases hst; rfl
        · split at hst
          · cases hst
          · split at hst <;> cases hst
      · split at hst
        · split at hst
          · rename_i hcond
            rcases hcond.2 with c | c <;> rw [hm] at c <;> cases c
          · split at hst
            · rename_i hpv; rw [hm] at hpv; cases hpv
            · cases hst; rfl
        · cases hst
  · rename_i r1 hst
    have hsl := stepTerm_sameLog hst
    have htm := stepTerm_snap_term hst hm
    rw [hm] at h
    simp only [] at h
    split at h
    · unfold Raft.stepCandidate at h
      rw [hm] at h
      simp only [] at h
      split at h
      · cases h
      · obtain ⟨r2, h2, h⟩ := Res.bind_eq_ok h
        cases h
        left
        refine ⟨_, h2, (RaftProps.C16.becomeFollower_proj _ _ _).1, ?_, ?_⟩
        · exact ⟨(becomeFollower_msgs _ _ _).trans hsl.1, (becomeFollower_id _ _ _).trans hsl.2.1,
            by rw [(becomeFollower_term_vote _ _ _).1]; rename_i hne; have := hsl.2.2.1; omega,
            by
              rw [becomeFollower_raftLog]
              rcases hsl.2.2.2 with e1 | e1 <;> rw [e1] <;> exact .inr rfl⟩
        · exact ⟨.inl (becomeFollower_term_vote _ _ _).1.symm,
            (becomeFollower_prs _ _ _).trans (stepTerm_prs hst)⟩
    · unfold Raft.stepCandidate at h
      rw [hm] at h
      simp only [] at h
      split at h
      · cases h
      · obtain ⟨r2, h2, h⟩ := Res.bind_eq_ok h
        cases h
        left
        refine ⟨_, h2, (RaftProps.C16.becomeFollower_proj _ _ _).1, ?_, ?_⟩
        · exact ⟨(becomeFollower_msgs _ _ _).trans hsl.1, (becomeFollower_id _ _ _).trans hsl.2.1,
            by rw [(becomeFollower_term_vote _ _ _).1]; rename_i hne; have := hsl.2.2.1; omega,
            by
              rw [becomeFollower_raftLog]
              rcases hsl.2.2.2 with e1 | e1 <;> rw [e1] <;> exact .inr rfl⟩
        · exact ⟨.inl (becomeFollower_term_vote _ _ _).1.symm,
            (becomeFollower_prs _ _ _).trans (stepTerm_prs hst)⟩
    · rename_i hs
      unfold Raft.stepFollower at h
      rw [hm] at h
      simp only [] at h
      obtain ⟨r2, h2, h⟩ := Res.bind_eq_ok h
      cases h
      left
      exact ⟨_, h2, hs, ⟨hsl.1, hsl.2.1, hsl.2.2.1, hsl.2.2.2⟩, htm,
        (show r1.pendingRequestSnapshot = _ from stepTerm_prs hst)⟩
    · unfold Raft.stepLeader at h
      rw [hm] at h
      simp only [] at h
      cases h
      right
      rename_i hs
      rcases RaftProps.C16.stepTerm_true hst with g | ⟨_, _, _, l, g⟩
      · exact g
      · rw [g, (RaftProps.C16.becomeFollower_proj _ _ _).1] at hs; cases hs


/-- away from the leader role `post_conf_change` only recomputes `promotable` -/
theorem postConfChange_nl_eq {r r' : Raft} {cs : ConfState} (hs : r.state ≠ .leader)
    (h : r.postConfChange = .ok (r', cs)) :
    r' = { r with promotable := Joint.contains r.prs.voters r.id } := by
  unfold Raft.postConfChange at h
  have hb : (r.state == StateRole.leader) = false := by
    cases hst : r.state <;> simp_all
  simp only [hb, Bool.and_false, hs, ne_eq, not_false_eq_true, true_or, if_true, if_false,
    Bool.false_eq_true] at h
  cases h
  rfl

/-- **`Raft::restore` on a follower without a pending snapshot request**, completely: nothing is
queued, role / term / identity and the storage are untouched, and either the log is kept — the commit
index stays, or is fast-forwarded to the snapshot index, which the log holds with the snapshot's term —
or the log is replaced by the snapshot (`RaftLog::restore`; the snapshot is not below the commit index
and the log does not hold its last entry) -/
theorem restore_full {r r' : Raft} {snap : Snapshot} {b : Bool} (hf : r.state = .follower)
    (hreq : r.pendingRequestSnapshot = 0) (h : r.restore snap = .ok (r', b)) :
    r'.msgs = r.msgs ∧ r'.term = r.term ∧ r'.state = r.state ∧ r'.id = r.id ∧
    r'.raftLog.store = r.raftLog.store ∧
    ((b = false ∧ r'.raftLog.unstable = r.raftLog.unstable ∧
        r'.raftLog.persisted = r.raftLog.persisted ∧ r'.raftLog.applied = r.raftLog.applied ∧
        (r'.raftLog.committed = r.raftLog.committed ∨
          (r.raftLog.committed ≤ snap.metadata.index ∧
            r'.raftLog.committed = snap.metadata.index ∧
            r.raftLog.matchTerm snap.metadata.index snap.metadata.term = .ok true ∧
            snap.metadata.index ≤ r.raftLog.lastIndex))) ∨
     (b = true ∧ r.raftLog.committed ≤ snap.metadata.index ∧
        r.raftLog.matchTerm snap.metadata.index snap.metadata.term ≠ .ok true ∧
        r.raftLog.restore snap = .ok r'.raftLog)) := by
  unfold Raft.restore at h
  simp only at h
  split at h
  · cases h
    exact ⟨rfl, rfl, rfl, rfl, rfl, .inl ⟨rfl, rfl, rfl, rfl, .inl rfl⟩⟩
  · rename_i hge
    split at h
    · rename_i hst; exact absurd hf hst
    · split at h
      · cases h
        exact ⟨rfl, rfl, rfl, rfl, rfl, .inl ⟨rfl, rfl, rfl, rfl, .inl rfl⟩⟩
      · split at h
        · cases h
        · cases h
        · rename_i hff
          have hmt : r.raftLog.matchTerm snap.metadata.index snap.metadata.term = .ok true := by
            split at hff
            · split at hff
              · rename_i b1 hb1; cases hff; exact hb1
              · cases hff
              · cases hff
            · cases hff
          split at h
          · rename_i log hc
            cases h
            have hsame := c05_commitTo_same hc
            have hsto : log.store = r.raftLog.store := RaftModel.C06.commitTo_store hc
            have hfields : log.unstable = r.raftLog.unstable ∧ log.persisted = r.raftLog.persisted ∧
                log.applied = r.raftLog.applied := by
              unfold RaftLog.commitTo at hc
              split at hc
              · cases hc; exact ⟨rfl, rfl, rfl⟩
              · split at hc
                · cases hc
                · cases hc; exact ⟨rfl, rfl, rfl⟩
            refine ⟨rfl, rfl, rfl, rfl, hsto, .inl ⟨rfl, hfields.1, hfields.2.1, hfields.2.2, ?_⟩⟩
            by_cases hlt : r.raftLog.committed < snap.metadata.index
            · right
              rcases RaftLog.c04_commitTo_spec hc with ⟨h1, _⟩ | ⟨_, h2, heq⟩
              · omega
              · exact ⟨by omega, by rw [heq], hmt, h2⟩
            · left
              show log.committed = _
              rw [RaftLog.c04_commitTo_committed hc]
              exact Nat.max_eq_left (by omega)
          · cases h
          · cases h
        · rename_i hff
          have hnm : r.raftLog.matchTerm snap.metadata.index snap.metadata.term ≠ .ok true := by
            intro hc
            rw [if_pos (.inl hreq), hc] at hff
            cases hff
          split at h
          · cases h
          · cases h
          · rename_i log hl
            split at h
            · cases h
            · rename_i prs hprs
              obtain ⟨⟨r1, cs1⟩, hpc, h⟩ := Res.bind_eq_ok h
              have hnl : ({ r with raftLog := log, prs := prs } : Raft).state ≠ .leader := by
                show r.state ≠ .leader; rw [hf]; intro hc; cases hc
              have e1 := postConfChange_nl_eq hnl hpc
              simp only at h
              split at h
              · cases h
              · split at h
                · cases h
                · split at h
                  · cases h
                  · obtain ⟨⟨pr1, b1⟩, _, h⟩ := Res.bind_eq_ok h
                    cases h
                    subst e1
                    have hsto := RaftModel.C06.restore_store hl
                    exact ⟨rfl, rfl, rfl, rfl, hsto, .inr ⟨rfl, by omega, hnm, hl⟩⟩

end CC
end Raft
end RaftModel
