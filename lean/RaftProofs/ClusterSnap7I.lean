import RaftProofs.ClusterSnap7H
import RaftProofs.ClusterCommit5cV

/-!
Commit safety of `ClusterSem` with log compaction AND `batch_append`, part 7I (C01n): **the cluster-level
gateways of the batching layer over the joined bundle**, conditional on C05d's `SaneAnchors`
(`hsane`).  These are the drop-in replacements for the places where the compaction stack
(`ClusterSnapA–V`, `3A–3C`) uses `nb`:

* `prov0S` (for `HypB.prov0`): the proviso `Prov0` of the batching per-call layer at every step;
* `nodeRelS` (for `cstep_nodeRel … H.nb`, `ClusterSnapB/H/J`): one step, one node;
* `trans_of_cstepS` (for `Snap.trans_of_cstep … H.nb`, `ClusterSnapB/H`): the Log-Matching transition of a
  step, compaction (`CompactOk`) included;
* `call_factsS` (for `Snap.call_facts`, `ClusterSnapC`, hand-written): what the node-level layers say about
  one `call` / `deliver` step — `Gb`, `LStepB`, `LogRel'` (the call may be a compaction).

The first three are a SCRIPTED COPY (`RaftProps/C01n.gen/copy_gw.py`) of `HypB.prov0` (5N), `nodeRelB` (5cU),
`trans_of_cstepB` (5cV): their proofs see the steps of the history only as `CStep`s.
-/
namespace RaftModel
namespace Cluster
namespace Snap7
open Node Raft Raft.CC Raft.CB Raft.Bt ClusterB RaftProps.C02 RaftProps.C05

variable {cfg : JointConfig} {c0 : Nat} {h : List Sys}

/-- **the proviso of the batching per-call layer holds for every `call` / `deliver` step of the
history**: a node that is leader before the call has a clean queue; a node that is leader only after the
call was candidate of the same term with its vote request in the transport, so its queue holds no
`MsgAppend` at all -/
theorem prov0S (H : Hyp3wB cfg c0 h) (hSA : ∀ s ∈ h, SaneAnchors s) {n : Nat} {a b : Sys} (ha : h[n]? = some a)
    (hb : h[n + 1]? = some b) {i : Nat} {st st' : NState} {rnd : Option Nat} {op : NodeOp}
    {res : OpRes} (hi : a.node i = some st) (hi' : b.node i = some st') (hnet : b.net = a.net)
    (hop : appOp op = true ∨ ∃ m, op = .step m ∧ m ∈ a.net ∧ m.to = i)
    (hcall : Node.call st rnd op = .ok (res, st')) :
    (st'.raft.state = .leader →
      st.raft.term = st'.raft.term ∧
        ((st.raft.state = .candidate ∧ ∀ x ∈ st.raft.msgs, x.msgType ≠ .msgAppend) ∨
          st.raft.state = .leader)) ∧
    Prov0 st.raft st'.raft := by
  obtain ⟨s0, _, hall⟩ := H.invLB_partial hSA
  obtain ⟨all1, all2, _⟩ := hist_all H.hist
  have hma := Snap.mem_of_get ha
  have hmb := Snap.mem_of_get hb
  have I := (hall a hma).1
  have rt := call_rt st st' rnd op res (I.inv i st hi) (op_ok hop) hcall
  exact prov0_of_inv H.nd1 H.nd2 (multiVoter_of_nolone H.nolone) (hall a hma).2 (all1 a hma) (all1 b hmb)
    (all2 cfg H.fix b hmb) hi hi' hnet rt

/-- **one step, one node**, batching allowed (`cstep_nodeRel` without `NoBatch`) -/
theorem nodeRelS (H : Hyp3wB cfg c0 h) (hSA : ∀ s ∈ h, SaneAnchors s) {n : Nat} {a b : Sys} (ha : h[n]? = some a)
    (hb : h[n + 1]? = some b) (i : Nat) (sta stb : NState)
    (hia : a.node i = some sta) (hib : b.node i = some stb) :
    NodeRel sta stb ∨ IsRestart i a b := by
  obtain ⟨s0, _, hall⟩ := H.invLB_partial hSA
  obtain ⟨all1, all2, _⟩ := hist_all H.hist
  have hma := Snap.mem_of_get ha
  have hmb := Snap.mem_of_get hb
  exact RaftProps.C05.cstep_nodeRel_batch H.nd1 H.nd2 (multiVoter_of_nolone H.nolone) (hall a hma).1 (hall a hma).2 (all1 a hma)
    (all1 b hmb) (all2 cfg H.fix b hmb) (H.csteps n a b ha hb) i sta stb hia hib

/-- the transition a contract-abiding step of the history induces, batching on or off
(`trans_of_cstep` without `NoBatch`; the step is given by its position in the history) -/
theorem trans_of_cstepS (H : Hyp3wB cfg c0 h) (hSA : ∀ s ∈ h, SaneAnchors s) {n : Nat} {a b : Sys} (ha : h[n]? = some a)
    (hb : h[n + 1]? = some b) :
    ∃ k st st' pers crash, Trans a b k st st' pers crash := by
  obtain ⟨s0, _, hall⟩ := H.invLB_partial hSA
  have I := (hall a (Snap.mem_of_get ha)).1
  have callCase : ∀ (k : Nat) (st st' : NState) (rnd : Option Nat) (op : NodeOp) (res : OpRes),
      a.node k = some st → (appOp op = true ∨ ∃ m, op = .step m ∧ m ∈ a.net ∧ m.to = k) →
      (∀ j, op = .compact j → CompactOk st.raft.raftLog j) →
      Node.call st rnd op = .ok (res, st') → b = a.setNode k st' →
      ∃ k st st' pers crash, Trans a b k st st' pers crash := by
    intro k st st' rnd op res hk hop hc hcall hs'
    subst hs'
    have hsane := hSA _ (Snap.mem_of_get hb)
    have hself : (a.setNode k st').node k = some st' := node_setNode_self a k st'
    have hop1 : appOp op = true ∨ ∃ m, op = .step m ∧ m ∈ a.net := by
      rcases hop with g | ⟨m, g1, g2, _⟩
      · exact .inl g
      · exact .inr ⟨m, g1, g2⟩
    have hw : ∀ m, op = .step m → m.msgType = .msgAppend → MsgOk m := by
      intro m hm hty
      rcases hop1 with h1 | ⟨m', h1, h2⟩
      · rw [hm] at h1; cases h1
      · rw [hm] at h1; cases h1
        exact I.msgOk h2 hty
    have hp := (prov0S H hSA ha hb hk hself rfl hop hcall).2
    have hL := call_lstep_b st st' rnd op res (I.inv k st hk) hp (op_ok hop) hw hc hcall
    exact ⟨k, st, st', _, _, trans_call_b I hk hop1 hcall hL
      (fun x hx hty => hsane.notWeird hself hx hty)⟩
  cases H.csteps n a b ha hb with
  | call i st st' rnd op res h1 h2 h3 h4 =>
    exact callCase i st st' rnd op res h1 (.inl h2) h3 h4 rfl
  | deliver i st st' rnd m res h1 h2 h3 h4 =>
    exact callCase i st st' rnd (.step m) res h1 (.inr ⟨m, rfl, h2, h3⟩)
      (fun j hc => by cases hc) h4 rfl
  | send i st st' h1 h2 h3 => exact ⟨i, st, st', _, _, trans_send I h1 h2 h3⟩
  | restart i st st' c rnd h1 _ h3 => exact ⟨i, st, st', _, _, trans_restart I h1 h3⟩

/-- **everything the node-level layers say about one `call` / `deliver` step of a history with batching
and compaction** (`Snap.call_facts` / `ClusterB.call_factsB` joined): the relation `Gb` of the commit
layer, the effect `LStepB` of the Log Matching layer with batching, and how the logical log changed —
as without compaction (`LogRel`), or the call is a compaction (`Snap.LogRel'`) -/
theorem call_factsS (H : Hyp3wB cfg c0 h) (hSA : ∀ s ∈ h, SaneAnchors s)
    {n : Nat} {a b : Sys} {i : Nat} {st st' : NState}
    {rnd : Option Nat} {op : NodeOp} {res : OpRes}
    (ha : h[n]? = some a) (hb : h[n + 1]? = some b) (hi : a.node i = some st)
    (hi' : b.node i = some st') (hnet : b.net = a.net)
    (hop : appOp op = true ∨ ∃ m, op = .step m ∧ m ∈ a.net ∧ m.to = i)
    (hc : ∀ j, op = .compact j → CompactOk st.raft.raftLog j)
    (hcall : Node.call st rnd op = .ok (res, st')) :
    Gb (Anet a.net) st.raft (CV.opMsg op) st'.raft ∧ LStepB st.raft st'.raft (CV.opMsg op) ∧
    Snap.LogRel' st st' op ∧ st.raft.id = i := by
  obtain ⟨s0, _, hall⟩ := H.invLB_partial hSA
  have I := (hall a (Snap.mem_of_get ha)).1
  have hsn := H.nosnap a (Snap.mem_of_get ha)
  have hop1 : appOp op = true ∨ ∃ m, op = .step m ∧ m ∈ a.net := by
    rcases hop with g | ⟨m, g1, g2, _⟩
    · exact .inl g
    · exact .inr ⟨m, g1, g2⟩
  have hop' := op_ok hop
  have hms : ∀ m, op = .step m → m.msgType ≠ .msgSnapshot := by
    intro m hm
    rcases hop1 with h1 | ⟨m', h1, h2⟩
    · rw [hm] at h1; cases h1
    · rw [hm] at h1; cases h1; exact hsn m h2
  have g := kstep_gb (H.mokc n a ha) hsn hi hop1 hcall
  have hw : ∀ m, op = .step m → m.msgType = .msgAppend → MsgOk m := by
    intro m hm hty
    rcases hop1 with h1 | ⟨m', h1, h2⟩
    · rw [hm] at h1; cases h1
    · rw [hm] at h1; cases h1
      exact I.msgOk h2 hty
  have hp := (prov0S H hSA ha hb hi hi' hnet hop hcall).2
  have hs1 := H.nopend a (Snap.mem_of_get ha) i st hi
  have hL := call_lstep_b st st' rnd op res (I.inv i st hi) hp hop' hw hc hcall
  have hid := (((hist_all H.hist).1 a (Snap.mem_of_get ha)).ids i st hi).1
  by_cases hco : ∃ j, op = .compact j
  · obtain ⟨j, rfl⟩ := hco
    have hout := Snap.compact_out (I.inv i st hi) hs1 (hc j rfl) hcall
    exact ⟨g, hL, .inr ⟨j, rfl, hout⟩, hid⟩
  · have hnc : ∀ j, op ≠ .compact j := fun j hj => hco ⟨j, hj⟩
    have hq : LogRel st.raft st'.raft (CV.opMsg op) := by
      rcases call_stob st st' rnd op res (I.inv i st hi) hp hop' hw hms hnc hs1 hcall with c | c
      · exact c.l
      · subst c
        exact .inl (stabilize_out (I.inv i st hi) hs1 hcall).2.2.1
    exact ⟨g, hL, .inl hq, hid⟩

end Snap7
end Cluster
end RaftModel
