import RaftProofs.ClusterRead4F

/-!
Cluster-level ReadIndex safety, helper lemmas part G: what ONE call of `Node.call` does to the part of a
node the read path uses — `call_rd` for every `NodeOp` other than `read_index` (and other than the
delivery of a `MsgReadIndex` / `MsgSnapshot`), and `readIndex_cases` for `read_index`.
-/
namespace RaftModel
namespace Raft
namespace RD
namespace R4
open VoteOb CV Node

/-- the per-call relation of the read path, with the voter configuration `V` the quorum was checked
against made explicit -/
structure ROut (V : JointConfig) (a : Raft) (m : Message) (r : Raft) : Prop where
  id : r.id = a.id
  tle : a.term ≤ r.term
  opt : r.readOnly.option = a.readOnly.option
  pend : ∀ K rs, (K, rs) ∈ r.readOnly.pendingReadIndex → r.term = a.term ∧
    (∃ rs0, (K, rs0) ∈ a.readOnly.pendingReadIndex ∧ rs.req = rs0.req ∧ rs.index = rs0.index) ∧
    ∀ u ∈ rs.acks, AckOk a m K u
  queue : ∃ d, r.readOnly.readIndexQueue = a.readOnly.readIndexQueue.drop d
  rst : ∀ x ∈ r.readStates, x ∈ a.readStates ∨ m.msgType = .msgReadIndexResp ∨ Ans V a m x
  msgs : ∀ x ∈ r.msgs, x ∈ a.msgs ∨ rdT x.msgType = false ∨ HbOk a x ∨ HbrOk a m x ∨ RirOk V a m x

theorem RInv.out {a r : Raft} {m : Message} (h : RInv a m r) : ROut a.prs.voters a m r :=
  ⟨h.id, h.tle, h.opt, h.pend, h.queue, h.rst, h.msgs⟩

/-- the anchor may differ in fields the invariant does not read -/
theorem RInv.rebaseRand {a r : Raft} {m : Message} {rnd : Option Nat}
    (h : RInv ({ a with nextRand := rnd } : Raft) m r) : RInv a m r :=
  ⟨h.id, h.tle, h.opt, h.pend, h.queue, h.conf, h.rst, h.msgs⟩

theorem applyConfChange_out (a : Raft) (cc : ConfChangeV2) :
    Res.Post (fun x => ∃ V, (V = a.prs.voters ∨ V = x.1.prs.voters) ∧ ROut V a mLocal x.1)
      (a.applyConfChange cc) := by
  unfold applyConfChange
  dsimp only
  split
  · exact ⟨_, .inl rfl, (RInv.refl a mLocal).out⟩
  · rename_i cfg changes _
    apply Res.post_bind (postConfChange_rinv (RInv.refl
      ({ a with prs := a.prs.applyConf cfg changes a.raftLog.lastIndex } : Raft) mLocal))
    rintro ⟨r', cs⟩ h
    dsimp only at h ⊢
    have hv : ({ a with prs := a.prs.applyConf cfg changes a.raftLog.lastIndex } : Raft).prs.voters
        = r'.prs.voters := by
      unfold ProgressTracker.voters; rw [h.conf]
    refine ⟨r'.prs.voters, .inr rfl, h.id, h.tle, h.opt, h.pend, h.queue, ?_, ?_⟩
    · intro x hx
      have := h.rst x hx
      rw [hv] at this
      exact this
    · intro x hx
      have := h.msgs x hx
      rw [hv] at this
      exact this

/-! ### `read_index` -/

/-- the request message `RawNode::read_index` builds -/
def riMsg (K : Bytes) : Message := { msgType := .msgReadIndex, entries := [{ data := K }] }

/-- what a `read_index(K)` call does -/
inductive RiOut (a : Raft) (K : Bytes) (r : Raft) : Prop
  /-- dropped, or forwarded to the leader: nothing the read path reads has changed -/
  | frame (h : RF a r)
  /-- forwarded to the leader: a follower with a known leader queues the request -/
  | fwd (hfo : a.state = .follower) (hlead : a.leaderId ≠ 0) (hcore : rcore r = rcore a)
      (hmsgs : r.msgs = a.msgs ++
        [a.sendFill { msgType := .msgReadIndex, to := a.leaderId, entries := [{ data := K }] }])
  /-- answered at once: single-voter group or lease-based reads -/
  | now (hs : a.prs.isSingleton = true ∨ a.readOnly.option ≠ .safe)
  /-- the leader has committed in its term: the request is registered (unless it is pending already)
  with the commit index as read index, and heartbeats carrying `K` are queued -/
  | reg (hl : a.state = .leader) (hc : a.commitToCurrentTerm = .ok true) (ro : ReadOnly)
      (hadd : a.readOnly.addRequest a.raftLog.committed (riMsg K) a.id = .ok ro)
      (hcore : rcore r = rcore ({ a with readOnly := ro } : Raft))
      (hmsgs : ∀ x ∈ r.msgs, x ∈ a.msgs ∨ (x.msgType = .msgHeartbeat ∧ x.context = K))

theorem readIndex_cases {a r : Raft} {K : Bytes} (h : RawNode.readIndex a K = .ok r) :
    RiOut a K r := by
  unfold RawNode.readIndex Raft.stepIgnore at h
  obtain ⟨⟨r1, e⟩, hstep, hr⟩ := Res.bind_eq_ok h
  cases hr
  change a.step (riMsg K) = .ok (r, e) at hstep
  unfold Raft.step at hstep
  have hterm : a.stepTerm (riMsg K) = .ok (a, true) := by simp [stepTerm, riMsg]
  rw [hterm] at hstep
  simp only [riMsg] at hstep
  split at hstep
  · -- (pre-)candidate
    unfold stepCandidate at hstep
    simp only at hstep
    cases hstep; exact .frame (RF.refl _)
  · unfold stepCandidate at hstep
    simp only at hstep
    cases hstep; exact .frame (RF.refl _)
  · -- follower
    rename_i hfo
    unfold stepFollower at hstep
    simp only at hstep
    split at hstep
    · cases hstep; exact .frame (RF.refl _)
    · rename_i hlead
      obtain ⟨r2, hs, hr⟩ := Res.bind_eq_ok hstep
      cases hr
      rw [send_eq a r _ hs]
      exact .fwd hfo hlead rfl rfl
  · -- leader
    rename_i hl
    unfold stepLeader at hstep
    simp only at hstep
    split at hstep
    · cases hstep
    · cases hstep
    · cases hstep; exact .frame (RF.refl _)
    · rename_i hc
      split at hstep
      · rename_i hsing
        refine .now (.inl ?_)
        simp only [Bool.and_eq_true] at hsing
        exact hsing.1
      · split at hstep
        · rename_i hsafe
          simp only [List.head?_cons] at hstep
          obtain ⟨ro, hadd, hb⟩ := Res.bind_eq_ok hstep
          obtain ⟨r2, hbc, hr⟩ := Res.bind_eq_ok hb
          cases hr
          obtain ⟨k1, k2⟩ := Res.Post.of_eq (bcastHeartbeatWithCtx_out _ _) hbc
          exact .reg hl hc ro hadd k1 k2
        · rename_i hlease
          exact .now (.inr (by rw [hlease]; decide))

/-! ### one call of a node -/

/-- **one call of a node** (any `NodeOp` but `read_index`, `drain`; no `MsgReadIndex` / `MsgSnapshot`
is stepped) -/
theorem call_rd (st st' : NState) (rnd : Option Nat) (op : NodeOp) (res : OpRes)
    (hri : ∀ K, op ≠ .readIndex K) (hdr : op ≠ .drain)
    (hm : ∀ m, op = .step m ∨ op = .rstep m →
      m.msgType ≠ .msgReadIndex ∧ m.msgType ≠ .msgSnapshot)
    (h : Node.call st rnd op = .ok (res, st')) :
    ∃ V, (V = st.raft.prs.voters ∨ V = st'.raft.prs.voters) ∧
      ROut V st.raft (opMsg op) st'.raft := by
  unfold Node.call at h
  have hrefl : RInv st.raft mLocal ({ st.raft with nextRand := rnd } : Raft) :=
    (RInv.refl st.raft mLocal).rf (by simp [RF, rcore])
  have fin : ∀ {m : Message} {r : Raft}, RInv st.raft m r →
      ∃ V, (V = st.raft.prs.voters ∨ V = r.prs.voters) ∧ ROut V st.raft m r :=
    fun hh => ⟨_, .inl rfl, hh.out⟩
  cases op with
  | tick =>
    simp only [applyOp] at h
    split at h
    · rename_i raft b heq
      cases h
      exact fin (Res.Post.of_eq (tick_rinv _) heq).rebaseRand
    · cases h
    · cases h
  | step m =>
    simp only [applyOp] at h
    obtain ⟨raft, e, hx, hr⟩ := unitRes_ok h
    rw [hr]
    obtain ⟨m1, m2⟩ := hm m (.inl rfl)
    exact fin (Res.Post.of_eq (rawStep_rinv _ m m1 m2) hx).rebaseRand
  | rstep m =>
    simp only [applyOp] at h
    obtain ⟨raft, e, hx, hr⟩ := unitRes_ok h
    rw [hr]
    obtain ⟨m1, m2⟩ := hm m (.inr rfl)
    exact fin (Res.Post.of_eq (step_rinv (RInv.refl _ m) m1 m2) hx).rebaseRand
  | propose c d =>
    simp only [applyOp] at h
    obtain ⟨raft, e, hx, hr⟩ := unitRes_ok h
    rw [hr]
    exact fin (Res.Post.of_eq (localStep_rinv _ _ rfl (by simp) (by simp)) hx).rebaseRand
  | proposeCc t c d =>
    simp only [applyOp] at h
    obtain ⟨raft, e, hx, hr⟩ := unitRes_ok h
    rw [hr]
    exact fin (Res.Post.of_eq (localStep_rinv _ _ rfl (by simp) (by simp)) hx).rebaseRand
  | readIndex c => exact absurd rfl (hri c)
  | transferLeader x =>
    simp only [applyOp] at h
    obtain ⟨raft, hx, hr⟩ := okRes_ok h
    rw [hr]
    exact fin (Res.Post.of_eq (localStepIgnore_rinv _ _ rfl (by simp) (by simp)) hx).rebaseRand
  | campaign =>
    simp only [applyOp] at h
    obtain ⟨raft, e, hx, hr⟩ := unitRes_ok h
    rw [hr]
    exact fin (Res.Post.of_eq (localStep_rinv _ _ rfl (by simp) (by simp)) hx).rebaseRand
  | ping =>
    simp only [applyOp] at h
    obtain ⟨raft, hx, hr⟩ := okRes_ok h
    rw [hr]
    unfold RawNode.ping Raft.ping at hx
    split at hx
    · exact fin (Res.Post.of_eq (bcastHeartbeat_rinv hrefl) hx)
    · cases hx; exact fin hrefl
  | requestSnapshot =>
    simp only [applyOp] at h
    obtain ⟨raft, e, hx, hr⟩ := unitRes_ok h
    rw [hr]
    exact fin (hrefl.rf (Res.Post.of_eq (P := fun x => RF _ x.1) (requestSnapshot_rf _) hx))
  | reportUnreachable x =>
    simp only [applyOp] at h
    obtain ⟨raft, hx, hr⟩ := okRes_ok h
    rw [hr]
    exact fin (Res.Post.of_eq (localStepIgnore_rinv _ _ rfl (by simp) (by simp)) hx).rebaseRand
  | reportSnapshot x f =>
    simp only [applyOp] at h
    obtain ⟨raft, hx, hr⟩ := okRes_ok h
    rw [hr]
    exact fin (Res.Post.of_eq (localStepIgnore_rinv _ _ rfl (by simp) (by simp)) hx).rebaseRand
  | applyConfChange cc =>
    simp only [applyOp] at h
    have key : ∀ raft e, RawNode.applyConfChange ({ st.raft with nextRand := rnd } : Raft) cc =
        .ok (raft, e) → ∃ V, (V = st.raft.prs.voters ∨ V = raft.prs.voters) ∧
          ROut V st.raft mLocal raft := by
      intro raft e heq
      obtain ⟨V, hV, ho⟩ := Res.Post.of_eq (applyConfChange_out _ cc) heq
      exact ⟨V, hV, ho.id, ho.tle, ho.opt, ho.pend, ho.queue, ho.rst, ho.msgs⟩
    split at h
    · rename_i raft cs heq
      cases h
      exact key _ _ heq
    · rename_i raft e heq
      cases h
      exact key _ _ heq
    · cases h
    · cases h
  | stabilize =>
    simp only [applyOp, Node.stabilize] at h
    split at h
    · rename_i l _
      cases h
      exact fin (hrefl.rf (by simp [RF, rcore]))
    · cases h
    · cases h
  | onPersistEntries i t =>
    simp only [applyOp] at h
    obtain ⟨raft, hx, hr⟩ := okRes_ok h
    rw [hr]
    exact fin (hrefl.rf (Res.Post.of_eq (onPersistEntries_rf _ _ _) hx))
  | persistSnap =>
    simp only [applyOp, Node.persistSnap] at h
    split at h
    · cases h; exact fin hrefl
    · rename_i s _
      split at h
      · cases h; exact fin hrefl
      · cases h
      · rename_i store hap
        split at h
        · cases h
        · cases h
        · rename_i l hl
          split at h
          · rename_i raft hop
            cases h
            have hf := Res.Post.of_eq (onPersistSnap_rf _ _) hop
            exact fin ((hrefl.rf (by simp [RF, rcore])).rf hf)
          · cases h
          · cases h
  | commitApply k =>
    simp only [applyOp, Node.commitApply] at h
    split at h
    · rename_i r2 hb
      rw [Res.bind_eq_ok_iff] at hb
      obtain ⟨r1, h1, h2⟩ := hb
      have hv1 : RInv st.raft mLocal r1 := by
        split at h1
        · split at h1
          · cases h1; exact hrefl.rf (reduceUncommittedSize_rf _ _)
          · cases h1; exact hrefl
          · cases h1
        · cases h1; exact hrefl
      have hv2 : RInv st.raft mLocal r2 := hv1.rf (Res.Post.of_eq (commitApply_rf _ _) h2)
      cases h
      split
      · exact fin (hv2.rf (by simp [RF, rcore, withStore]))
      · exact fin hv2
    · cases h
    · cases h
  | compact k =>
    simp only [applyOp] at h
    split at h
    · cases h
      exact fin (hrefl.rf (by simp [RF, rcore, withStore]))
    · cases h
    · cases h
  | drain => exact absurd rfl hdr
  | triggerSnap =>
    simp only [applyOp] at h
    cases h
    exact fin (hrefl.rf (by simp [RF, rcore, withStore]))
  | triggerLog b =>
    simp only [applyOp] at h
    cases h
    exact fin (hrefl.rf (by simp [RF, rcore, withStore]))
  | setPriority p =>
    simp only [applyOp] at h
    cases h
    exact fin (hrefl.rf (by simp [RF, rcore, Raft.setPriority]))
  | setBatchAppend b =>
    simp only [applyOp] at h
    cases h
    exact fin (hrefl.rf (by simp [RF, rcore, Raft.setBatchAppend]))
  | skipBcastCommit b =>
    simp only [applyOp] at h
    cases h
    exact fin (hrefl.rf (by simp [RF, rcore, Raft.setSkipBcastCommit]))
  | setCheckQuorum b =>
    simp only [applyOp] at h
    cases h
    exact fin (hrefl.rf (by simp [RF, rcore, Raft.setCheckQuorum]))
  | adjustMaxInflight id cap =>
    simp only [applyOp] at h
    obtain ⟨raft, hx, hr⟩ := okRes_ok h
    rw [hr]
    exact fin (hrefl.rf (Res.Post.of_eq (adjustMaxInflightMsgs_rf _ _ _) hx))
  | maybeFreeInflightBuffers =>
    simp only [applyOp] at h
    cases h
    have hf : RF ({ st.raft with nextRand := rnd } : Raft)
        (Raft.maybeFreeInflightBuffers ({ st.raft with nextRand := rnd } : Raft)) :=
      mapProgress_rf _ _
    exact fin (hrefl.rf hf)
  | enableGroupCommit b =>
    simp only [applyOp] at h
    obtain ⟨raft, hx, hr⟩ := okRes_ok h
    rw [hr]
    exact fin (hrefl.rf (Res.Post.of_eq (enableGroupCommit_rf _ _) hx))
  | assignCommitGroups v =>
    simp only [applyOp] at h
    obtain ⟨raft, hx, hr⟩ := okRes_ok h
    rw [hr]
    exact fin (hrefl.rf (Res.Post.of_eq (assignCommitGroups_rf _ _) hx))
  | clearCommitGroup =>
    simp only [applyOp] at h
    cases h
    have hf : RF ({ st.raft with nextRand := rnd } : Raft)
        (Raft.clearCommitGroup ({ st.raft with nextRand := rnd } : Raft)) :=
      mapProgress_rf _ _
    exact fin (hrefl.rf hf)
  | checkGroupCommitConsistent =>
    simp only [applyOp] at h
    split at h
    · cases h; exact fin hrefl
    · cases h; exact fin hrefl
    · cases h
    · cases h
  | setMaxApplyUnpersistedLogLimit x =>
    simp only [applyOp] at h
    cases h
    exact fin (hrefl.rf (by simp [RF, rcore, Raft.setMaxApplyUnpersistedLogLimit]))
  | setMaxCommittedSizePerReady x =>
    simp only [applyOp] at h
    cases h
    exact fin (hrefl.rf (by simp [RF, rcore, Raft.setMaxCommittedSizePerReady]))
  | onEntriesFetched to term aggr =>
    rcases onEntriesFetched_ok h with h | ⟨-, -, -, raft, hx, h⟩
    · cases h; exact fin hrefl
    · cases h
      rcases hx with hx | hx
      · exact fin (hrefl.rf (Res.Post.of_eq (sendAppendAggressively_rf _ _) hx))
      · exact fin (hrefl.rf (Res.Post.of_eq (sendAppend_rf _ _) hx))

/-! ### `RawNode::new` -/

/-- nothing is pending, nothing was answered -/
def Fresh (r : Raft) : Prop :=
  r.readOnly.pendingReadIndex = [] ∧ r.readOnly.readIndexQueue = [] ∧ r.readStates = []

theorem Fresh.rs {r r' : Raft} (h : Fresh r) (hs : RS r r') : Fresh r' := by
  obtain ⟨h1, h2, h3⟩ := h
  refine ⟨?_, ?_, by rw [hs.rs]; exact h3⟩
  · rcases hs.keep with ⟨g, _⟩ | g
    · rw [g]; exact h1
    · rw [g]; rfl
  · rcases hs.keep with ⟨g, _⟩ | g
    · rw [g]; exact h2
    · rw [g]; rfl

theorem raftNew_fresh (c : Config) (store : MemStorage) (rnd : Option Nat) (r : Raft)
    (h : Raft.new c store rnd = .ok (.ok r)) : Fresh r := by
  unfold Raft.new at h
  split at h
  · cases h
  · dsimp only at h
    split at h
    · cases h
    · cases h
    · rename_i log hnew
      split at h
      · cases h
      · rename_i prs _
        rw [postConfChange_follower_eq _ rfl] at h
        simp only [Res.bind] at h
        split at h
        · cases h
        · generalize hr1 : (if store.initialState.1 ≠ {} then
            Raft.loadState _ store.initialState.1 else Res.ok _) = r1 at h
          cases r1 with
          | ok b =>
            dsimp only [Res.bind] at h
            generalize hr2 : (if c.applied > 0 then b.commitApplyInternal c.applied true
              else Res.ok b) = r2 at h
            cases r2 with
            | ok d =>
              dsimp only [Res.bind] at h
              cases h
              have hb : Fresh b := by
                by_cases hhs : store.initialState.1 ≠ {}
                · rw [if_pos hhs] at hr1
                  unfold Raft.loadState at hr1
                  split at hr1
                  · cases hr1
                  · cases hr1
                    exact ⟨rfl, rfl, rfl⟩
                · rw [if_neg hhs] at hr1
                  cases hr1
                  exact ⟨rfl, rfl, rfl⟩
              have hd : RF b d := by
                by_cases hca : c.applied > 0
                · rw [if_pos hca] at hr2
                  exact Res.Post.of_eq (commitApplyInternal_rf _ _ _) hr2
                · rw [if_neg hca] at hr2
                  cases hr2; exact RF.refl _
              exact (hb.rs hd.toRS).rs (becomeFollower_rs d d.term 0 (Nat.le_refl _))
            | err e => cases h
            | panic s => cases h
          | err e => cases h
          | panic s => cases h

theorem boot_fresh (c : Config) (store : MemStorage) (rnd : Option Nat) (st : NState)
    (h : Node.boot c store rnd = .ok (.ok st)) : Fresh st.raft := by
  unfold Node.boot at h
  split at h
  · rename_i raft hn
    cases h
    unfold RawNode.new at hn
    split at hn
    · cases hn
    · exact raftNew_fresh c store rnd raft hn
  · cases h
  · cases h
  · cases h

end R4
end RD
end Raft
end RaftModel
