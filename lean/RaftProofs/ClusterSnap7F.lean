import RaftProofs.ClusterCommit5R
import RaftProofs.ClusterSnap7A
import RaftProofs.ClusterSnap7E

/-! SCRIPTED COPY (C01n, `RaftProps/C01n.gen/copy_pw.py` + `patches_pw.py`) of `RaftProofs/ClusterCommit5R.lean`
into the nested namespace `RaftModel.Raft.PB.F`: the per-call relation of the batching layer with the
two extra facts `fi` / `qf` (anchors of new appends are not below the snapshot point). -/

namespace RaftModel
namespace Raft
namespace PB
namespace F
open CP RaftProps.C13

/-- what a call leaves (the relation without the bookkeeping on the log) -/
structure PRb (a r : Raft) : Prop where
  po : r.state = .leader → QSnap r.msgs ∨ PAll r.raftLog.lastIndex r.prs
  rd : r.state = .leader → ∀ p ∈ r.readOnly.pendingReadIndex, p.2.index ≤ r.raftLog.committed
  qa : ∀ x ∈ r.msgs, x.msgType = .msgAppend →
    (∃ y ∈ a.msgs, y.msgType = .msgAppend ∧ y.index = x.index ∧ y.logTerm = x.logTerm) ∨
      QSnap r.msgs ∨ x.index ≤ r.raftLog.lastIndex
  qr : ∀ x ∈ r.msgs, x.msgType = .msgReadIndexResp → x ∈ a.msgs ∨ x.index ≤ r.raftLog.committed
  sn : ∀ x ∈ a.msgs, x.msgType = .msgSnapshot → x ∈ r.msgs
  /-- every new `MsgAppend` is anchored at or above the snapshot point the log had when the call
  started, or at the anchor of an old queued `MsgAppend` (or the queue is poisoned) -/
  qf : ∀ x ∈ r.msgs, x.msgType = .msgAppend →
    (∃ y ∈ a.msgs, y.msgType = .msgAppend ∧ y.index = x.index ∧ y.logTerm = x.logTerm) ∨
      QSnap r.msgs ∨ a.raftLog.firstIndex ≤ x.index + 1

theorem PWb.pr {a r : Raft} (h : PWb a r) : PRb a r := ⟨h.po, h.rd, h.qa, h.qr, h.sn, h.qf⟩

/-- the result relation of part 4F implies the generalised one -/
theorem _root_.RaftModel.Raft.CP.PR.prf {a r : Raft} (h : PR a r) : PRb a r := by
  refine ⟨h.po, h.rd, fun x hx hty => ?_, h.qr, h.sn, fun x hx hty => ?_⟩
  · rcases h.qa x hx hty with c | c | c
    · exact .inl ⟨x, c, hty, rfl, rfl⟩
    · exact .inr (.inl c)
    · exact .inr (.inr c)
  · rcases h.qf x hx hty with c | c | c
    · exact .inl ⟨x, c, hty, rfl, rfl⟩
    · exact .inr (.inl c)
    · exact .inr (.inr c)

/-- the per-call relation of part 4A implies the generalised one -/
theorem _root_.RaftModel.Raft.CP.PW.pwf {a r : Raft} (h : PW a r) : PWb a r := by
  refine ⟨h.inv, h.po, h.rd, fun x hx hty => ?_, h.qr, h.sn, h.fi, fun x hx hty => ?_⟩
  · rcases h.qa x hx hty with c | c | c
    · exact .inl ⟨x, c, hty, rfl, rfl⟩
    · exact .inr (.inl c)
    · exact .inr (.inr c)
  · rcases h.qf x hx hty with c | c | c
    · exact .inl ⟨x, c, hty, rfl, rfl⟩
    · exact .inr (.inl c)
    · exact .inr (.inr c)

theorem _root_.RaftModel.Raft.CP.NF.prf {a r : Raft} (h : NF a r) (hs : r.state ≠ .leader) : PRb a r :=
  ⟨fun c => absurd c hs, fun c => absurd c hs,
   fun x hx hty => .inl ⟨x, h.old x hx (by rw [hty]; rfl), hty, rfl, rfl⟩,
   fun x hx hty => .inl (h.old x hx (by rw [hty]; rfl)), h.sn,
   fun x hx hty => .inl ⟨x, h.old x hx (by rw [hty]; rfl), hty, rfl, rfl⟩⟩

theorem sendVoteRequests_pw {a r r' : Raft} {ct : CampaignType} {vm : MsgType} {t : Nat}
    (hvm : wqT vm = false) (h : r.sendVoteRequests ct vm t = .ok r') (h0 : PWb a r) : PWb a r' := by
  unfold Raft.sendVoteRequests at h
  split at h
  · cases h
  · cases h
  · split at h
    · cases h
    · cases h
    · refine foldl_pres (PWb a) _ ?_ _ _ h (by intro r1 e; cases e; exact h0)
      intro acc id r1 h1
      cases acc with
      | err e => cases h1
      | panic s => cases h1
      | ok r0 =>
        refine ⟨r0, rfl, fun h0 => ?_⟩
        change (if id = r0.id then Res.ok r0 else _) = _ at h1
        split at h1
        · cases h1; exact h0
        · exact send_pw h1 hvm h0

theorem pollWith_pw {a r r' : Raft} {onPreWin : Raft → Res Raft} {frm : Nat} {t : MsgType}
    {v : Bool} {res : VoteResult}
    (hpre : ∀ r r', onPreWin r = .ok r' → PWb a r → PWb a r')
    (h : pollWith onPreWin r frm t v = .ok (r', res)) (h0 : PWb a r) : PWb a r' := by
  unfold Raft.pollWith at h
  have h1 : PWb a { r with prs := r.prs.recordVote frm v } := by
    refine h0.prs (fun hs => ?_)
    rcases h0.po hs with c | c
    · exact .inl c
    · right
      intro p hp
      rw [recordVote_progress] at hp
      exact c p hp
  simp only [] at h
  split at h
  · split at h
    · rw [Res.bind_eq_ok_iff] at h
      obtain ⟨r2, h2, h3⟩ := h
      cases h3
      exact hpre _ _ h2 h1
    · rw [Res.bind_eq_ok_iff] at h
      obtain ⟨r2, h2, h3⟩ := h
      cases h3
      rw [Res.bind_eq_ok_iff] at h2
      obtain ⟨r3, h4, h5⟩ := h2
      exact (bcastAppend_lw h5 (becomeLeader_lw h4 h1)).1
  · cases h; exact becomeFollower_pw _ _ h1
  · cases h; exact h1

theorem campaignWith_pw {a r r' : Raft}
    {poll : Raft → Nat → MsgType → Bool → Res (Raft × VoteResult)} {ct : CampaignType}
    (hpoll : ∀ r frm t v r' res, poll r frm t v = .ok (r', res) → PWb a r → PWb a r')
    (h : campaignWith poll r ct = .ok r') (h0 : PWb a r) : PWb a r' := by
  unfold Raft.campaignWith at h
  rw [Res.bind_eq_ok_iff] at h
  obtain ⟨⟨r1, vm, term⟩, h1, h2⟩ := h
  have g1 : PWb a r1 ∧ wqT vm = false := by
    split at h1
    · rw [Res.bind_eq_ok_iff] at h1
      obtain ⟨r2, h3, h4⟩ := h1
      split at h4
      · cases h4
      · cases h4; exact ⟨(becomePreCandidate_pw h3 h0).1, rfl⟩
    · rw [Res.bind_eq_ok_iff] at h1
      obtain ⟨r2, h3, h4⟩ := h1
      cases h4; exact ⟨(becomeCandidate_pw h3 h0).1, rfl⟩
  dsimp only at h2
  rw [Res.bind_eq_ok_iff] at h2
  obtain ⟨⟨r3, res⟩, h5, h6⟩ := h2
  have g3 := hpoll _ _ _ _ _ _ h5 g1.1
  dsimp only at h6
  split at h6
  · cases h6; exact g3
  · exact sendVoteRequests_pw g1.2 h6 g3

theorem campaignAfterPreVote_pw {a r r' : Raft} (h : r.campaignAfterPreVote = .ok r')
    (h0 : PWb a r) : PWb a r' := by
  unfold Raft.campaignAfterPreVote at h
  exact campaignWith_pw (fun r frm t v r' res hp h1 =>
    pollWith_pw (fun _ _ hc => by cases hc) hp h1) h h0

theorem poll_pw {a r r' : Raft} {frm : Nat} {t : MsgType} {v : Bool} {res : VoteResult}
    (h : r.poll frm t v = .ok (r', res)) (h0 : PWb a r) : PWb a r' := by
  unfold Raft.poll at h
  exact pollWith_pw (fun _ _ hc h1 => campaignAfterPreVote_pw hc h1) h h0

theorem campaign_pw {a r r' : Raft} {ct : CampaignType} (h : r.campaign ct = .ok r')
    (h0 : PWb a r) : PWb a r' := by
  unfold Raft.campaign at h
  exact campaignWith_pw (fun _ _ _ _ _ _ hp h1 => poll_pw hp h1) h h0

theorem hup_pw {a r r' : Raft} {tl : Bool} (h : r.hup tl = .ok r') (h0 : PWb a r) : PWb a r' := by
  unfold Raft.hup at h
  split at h
  · cases h; exact h0
  · split at h
    · cases h; exact h0
    · split at h
      · cases h
      · cases h
      · cases h; exact h0
      · split at h
        · cases h; exact h0
        · split at h
          · exact campaign_pw h h0
          · split at h
            · exact campaign_pw h h0
            · exact campaign_pw h h0

theorem maybeCommitByVote_pw {a r r' : Raft} {m : Message} (h : r.maybeCommitByVote m = .ok r')
    (h0 : PWb a r) : PWb a r' := by
  unfold Raft.maybeCommitByVote at h
  split at h
  · cases h; exact h0
  · simp only at h
    split at h
    · cases h; exact h0
    · split at h
      · cases h
      · cases h
      · cases h; exact h0
      · rename_i log hm
        have h1 : PWb a { r with raftLog := log } := h0.log (c05_maybeCommit_same hm)
        split at h
        · cases h; exact h1
        · split at h
          · cases h
          · cases h
          · cases h; exact becomeFollower_pw _ _ h1
          · cases h; exact h1

theorem stepVoteGrant_pw {a r r' : Raft} {m : Message} {t : MsgType} (ht : wqT t = false)
    (h : r.stepVoteGrant m t = .ok r') (h0 : PWb a r) : PWb a r' := by
  unfold Raft.stepVoteGrant at h
  split at h
  · rename_i r1 hs
    have g1 := send_pw hs ht h0
    split at h
    · cases h; exact PWb.mk' g1
    · cases h; exact g1
  · cases h
  · cases h

theorem stepVoteReject_pw {a r r' : Raft} {m : Message} {t : MsgType} (ht : wqT t = false)
    (h : r.stepVoteReject m t = .ok r') (h0 : PWb a r) : PWb a r' := by
  unfold Raft.stepVoteReject at h
  split at h
  · cases h
  · cases h
  · split at h
    · rename_i r1 hs
      have g1 := send_pw hs ht h0
      split at h
      · exact maybeCommitByVote_pw h g1
      · cases h; exact g1
    · cases h
    · cases h

theorem stepVote_pw {a r r' : Raft} {m : Message} (h : r.stepVote m = .ok r') (h0 : PWb a r) :
    PWb a r' := by
  unfold Raft.stepVote at h
  split at h
  · cases h
  · rename_i rt hrt
    have ht := voteResp_wq hrt
    split at h
    · exact stepVoteGrant_pw ht h h0
    · exact stepVoteReject_pw ht h h0
    · cases h
    · cases h

theorem sendRequestSnapshot_pw {a r r' : Raft} (h : r.sendRequestSnapshot = .ok r')
    (h0 : PWb a r) : PWb a r' := by
  unfold Raft.sendRequestSnapshot at h
  simp only [] at h
  split at h
  · exact send_pw h rfl h0
  · cases h
  · cases h

theorem handleHeartbeat_pw {a r r' : Raft} {m : Message}
    (h : r.handleHeartbeat m = .ok r') (h0 : PWb a r) : PWb a r' := by
  unfold Raft.handleHeartbeat at h
  split at h
  · cases h
  · cases h
  · rename_i log hc
    have h1 : PWb a { r with raftLog := log } := h0.log (c05_commitTo_same hc)
    simp only [] at h
    split at h
    · exact sendRequestSnapshot_pw h h1
    · exact send_pw h rfl h1

theorem requestSnapshot_pw {a r r' : Raft} {e : Option RaftError}
    (h : r.requestSnapshot = .ok (r', e)) (h0 : PWb a r) : PWb a r' := by
  unfold Raft.requestSnapshot at h
  repeat' (first | split at h | (simp only at h; split at h))
  all_goals first
    | (cases h; exact h0)
    | (cases h; done)
    | skip
  rw [Res.bind_eq_ok_iff] at h
  obtain ⟨r1, h1, h2⟩ := h
  cases h2
  exact sendRequestSnapshot_pw h1 (PWb.mk' h0)

theorem stepTerm_pw {a r r' : Raft} {m : Message} {b : Bool} (h : r.stepTerm m = .ok (r', b))
    (h0 : PWb a r) : PWb a r' := by
  unfold Raft.stepTerm at h
  pwf_auto h [send_pw, becomeFollower_pw]

theorem stepCandidate_pw {a r r' : Raft} {m : Message} {e : Option RaftError}
    (h : r.stepCandidate m = .ok (r', e)) (h0 : PWb a r) (hna : m.msgType ≠ .msgAppend)
    (hms : m.msgType ≠ .msgSnapshot) : PWb a r' := by
  unfold Raft.stepCandidate at h
  split at h
  · cases h; exact h0
  · rename_i hty; exact absurd hty hna
  · split at h
    · cases h
    · rw [Res.bind_eq_ok_iff] at h
      obtain ⟨r1, h1, h2⟩ := h
      cases h2
      exact handleHeartbeat_pw h1 (becomeFollower_pw _ _ h0)
  · rename_i hty; exact absurd hty hms
  · split at h
    · cases h; exact h0
    · split at h
      · cases h; exact h0
      · rw [Res.bind_eq_ok_iff] at h
        obtain ⟨⟨r1, vr⟩, h1, h2⟩ := h
        rw [Res.bind_eq_ok_iff] at h2
        obtain ⟨r2, h3, h4⟩ := h2
        cases h4
        exact maybeCommitByVote_pw h3 (poll_pw h1 h0)
  · split at h
    · cases h; exact h0
    · split at h
      · cases h; exact h0
      · rw [Res.bind_eq_ok_iff] at h
        obtain ⟨⟨r1, vr⟩, h1, h2⟩ := h
        rw [Res.bind_eq_ok_iff] at h2
        obtain ⟨r2, h3, h4⟩ := h2
        cases h4
        exact maybeCommitByVote_pw h3 (poll_pw h1 h0)
  · cases h; exact h0

theorem stepFollower_pw {a r r' : Raft} {m : Message} {e : Option RaftError}
    (h : r.stepFollower m = .ok (r', e)) (h0 : PWb a r) (hna : m.msgType ≠ .msgAppend)
    (hms : m.msgType ≠ .msgSnapshot) : PWb a r' := by
  unfold Raft.stepFollower at h
  split at h
  · rename_i hty
    split at h
    · cases h; exact h0
    · split at h
      · cases h; exact h0
      · rw [Res.bind_eq_ok_iff] at h
        obtain ⟨r1, h1, h2⟩ := h
        cases h2
        exact send_pw h1 (by show wqT m.msgType = false; rw [hty]; rfl) h0
  · rename_i hty; exact absurd hty hna
  · rw [Res.bind_eq_ok_iff] at h
    obtain ⟨r1, h1, h2⟩ := h
    cases h2
    exact handleHeartbeat_pw h1 (PWb.mk' h0)
  · rename_i hty; exact absurd hty hms
  · rename_i hty
    split at h
    · cases h; exact h0
    · rw [Res.bind_eq_ok_iff] at h
      obtain ⟨r1, h1, h2⟩ := h
      cases h2
      exact send_pw h1 (by show wqT m.msgType = false; rw [hty]; rfl) h0
  · split at h
    · rw [Res.bind_eq_ok_iff] at h
      obtain ⟨r1, h1, h2⟩ := h
      cases h2
      exact hup_pw h1 h0
    · cases h; exact h0
  · rename_i hty
    split at h
    · cases h; exact h0
    · rw [Res.bind_eq_ok_iff] at h
      obtain ⟨r1, h1, h2⟩ := h
      cases h2
      exact send_pw h1 (by show wqT m.msgType = false; rw [hty]; rfl) h0
  · split at h
    · simp only [] at h
      split at h
      · rename_i log b hm
        cases h
        exact PWb.mk' (r := { r with raftLog := log }) (h0.log (c05_maybeCommit_same hm))
      · cases h
      · cases h
    · cases h; exact h0
  · cases h; exact h0

/-- `Raft::step` on a message that is neither a `MsgAppend` nor a `MsgSnapshot` -/
theorem step_pw {a r r' : Raft} {m : Message} {e : Option RaftError}
    (h : r.step m = .ok (r', e)) (h0 : PWb a r) (hna : m.msgType ≠ .msgAppend)
    (hms : m.msgType ≠ .msgSnapshot)
    (hB : r.state = .leader → m.msgType = .msgAppendResponse → m.reject = false →
      (m.term = 0 ∨ m.term = r.term) → m.index ≤ r.raftLog.lastIndex) : PWb a r' := by
  unfold Raft.step at h
  split at h
  · cases h
  · cases h
  · rename_i r1 ht
    cases h; exact stepTerm_pw ht h0
  · rename_i r1 ht
    have g1 := stepTerm_pw ht h0
    split at h
    · rw [Res.bind_eq_ok_iff] at h
      obtain ⟨r2, h1, h2⟩ := h
      cases h2
      exact hup_pw h1 g1
    · split at h
      · rename_i r2 hv
        cases h; exact stepVote_pw hv g1
      · cases h
      · cases h
    · split at h
      · rename_i r2 hv
        cases h; exact stepVote_pw hv g1
      · cases h
      · cases h
    · split at h
      · exact stepCandidate_pw h g1 hna hms
      · exact stepCandidate_pw h g1 hna hms
      · exact stepFollower_pw h g1 hna hms
      · rename_i hl
        obtain ⟨he, hterm⟩ := stepTerm_lead ht hl
        subst he
        exact stepLeader_pw h ⟨g1, hl⟩ (fun hty hrej => hB hl hty hrej (hterm hty))

/-- `Raft::step` on a `MsgAppend`: the only call that may shorten the log queues nothing of the
relation's types, and a node that goes through `handle_append_entries` is a follower afterwards -/
theorem step_app_pr {a r r' : Raft} {m : Message} {e : Option RaftError}
    (h : r.step m = .ok (r', e)) (h0 : PWb a r) (hn : NF a r) (hty : m.msgType = .msgAppend) :
    PRb a r' := by
  unfold Raft.step at h
  split at h
  · cases h
  · cases h
  · rename_i r1 ht
    cases h; exact (stepTerm_pw ht h0).pr
  · rename_i r1 ht
    have g1 := stepTerm_pw ht h0
    have n1 := stepTerm_nf ht hn
    -- a follower that handles the append
    have key : ∀ (r2 : Raft), NF a r2 → r2.state = .follower →
        r2.handleAppendEntries m = .ok r' → PRb a r' := by
      intro r2 n2 s2 hh
      obtain ⟨⟨resp, hm, hr⟩, _⟩ := handleAppendEntries_msgs hh
      refine (n2.push hm (by rw [hr]; rfl)).prf ?_
      rw [(handleAppendEntries_frame hh Frame.rfl).state, s2]
      intro hc; cases hc
    rw [hty] at h
    simp only [] at h
    split at h
    · -- candidate
      unfold Raft.stepCandidate at h
      rw [hty] at h
      simp only [] at h
      split at h
      · cases h
      · rw [Res.bind_eq_ok_iff] at h
        obtain ⟨r2, h1, h2⟩ := h
        cases h2
        exact key _ (n1.of_msgs (becomeFollower_msgs _ _ _)) rfl h1
    · unfold Raft.stepCandidate at h
      rw [hty] at h
      simp only [] at h
      split at h
      · cases h
      · rw [Res.bind_eq_ok_iff] at h
        obtain ⟨r2, h1, h2⟩ := h
        cases h2
        exact key _ (n1.of_msgs (becomeFollower_msgs _ _ _)) rfl h1
    · rename_i hs
      unfold Raft.stepFollower at h
      rw [hty] at h
      simp only [] at h
      rw [Res.bind_eq_ok_iff] at h
      obtain ⟨r2, h1, h2⟩ := h
      cases h2
      exact key { r1 with electionElapsed := 0, leaderId := m.frm } (n1.of_msgs rfl) hs h1
    · unfold Raft.stepLeader at h
      rw [hty] at h
      simp only [] at h
      cases h
      exact g1.pr

end F
end PB
end Raft
end RaftModel
