import RaftProofs.ProtoVStep

/-!
Promise durability for the other released messages (vote requests, append acknowledgements):
the durable term of the sender is never behind the term of anything it released, at release time
and at all later times (`InvR`).
-/
namespace RaftModel.P

def OMsg.owner : OMsg → Nat
  | .voteReq _ c _ _ => c
  | .grant _ v _ => v
  | .ack _ f _ _ => f

structure InvR (s : PSys) : Prop where
  own : ∀ i, ∀ m ∈ (s.nodes i).outbox, m.owner = i
  rq : ∀ r ∈ s.reqs, r.term ≤ (s.nodes r.cand).dterm
  ak : ∀ a ∈ s.acks, a.term ≤ (s.nodes a.frm).dterm

theorem invR_init : InvR init := by
  constructor <;> simp [init]

/-- a step that changes node `i` only, keeps its durable term from decreasing, keeps `reqs`/`acks`,
and whose new outbox messages are owned by `i` -/
theorem invR_node (s : PSys) (h : InvR s) (i : Nat) (n : PNode) (s' : PSys)
    (hn : s'.nodes = upd s.nodes i n) (hr : s'.reqs = s.reqs) (ha : s'.acks = s.acks)
    (hd : (s.nodes i).dterm ≤ n.dterm) (ho : ∀ m ∈ n.outbox, m.owner = i) : InvR s' := by
  constructor
  · intro j m hm
    rw [hn] at hm
    by_cases hj : j = i
    · subst hj; simp only [upd, if_true] at hm; exact ho m hm
    · simp only [upd, hj, if_false] at hm; exact h.own j m hm
  · intro r hr'
    rw [hr] at hr'
    have := h.rq r hr'
    rw [hn]
    by_cases hj : r.cand = i
    · simp only [upd, hj, if_true]; rw [hj] at this; omega
    · simp only [upd, hj, if_false]; exact this
  · intro a ha'
    rw [ha] at ha'
    have := h.ak a ha'
    rw [hn]
    by_cases hj : a.frm = i
    · simp only [upd, hj, if_true]; rw [hj] at this; omega
    · simp only [upd, hj, if_false]; exact this

theorem mem_append_singleton_owner {l : List OMsg} {i : Nat} {x : OMsg}
    (h : ∀ m ∈ l, m.owner = i) (hx : x.owner = i) : ∀ m ∈ l ++ [x], m.owner = i := by
  intro m hm
  simp only [List.mem_append, List.mem_singleton] at hm
  rcases hm with hm | hm
  · exact h m hm
  · subst hm; exact hx

set_option maxHeartbeats 800000 in
theorem invR_step (c0 : Cfg) (s s' : PSys) (e : Event) (hV : InvV c0 (vsys s)) (hI : InvR s)
    (h : applyEvent s e = .ok s') : InvR s' := by
  cases e with
  | bump i t =>
    simp only [applyEvent, ok] at h
    split at h
    · cases h; exact invR_node s hI i _ _ rfl rfl rfl (Nat.le_refl _) (hI.own i)
    · cases h
  | campaign i =>
    simp only [applyEvent, ok] at h
    split at h
    · cases h
      refine invR_node s hI i _ _ rfl rfl rfl (Nat.le_refl _) ?_
      intro m hm
      simp only [List.mem_append, List.mem_cons, List.not_mem_nil, or_false] at hm
      rcases hm with hm | hm | hm
      · exact hI.own i m hm
      · subst hm; rfl
      · subst hm; rfl
    · cases h
  | grant i c =>
    simp only [applyEvent, ok] at h
    split at h
    · cases h
      exact invR_node s hI i _ _ rfl rfl rfl (Nat.le_refl _) (mem_append_singleton_owner (hI.own i) rfl)
    · cases h
  | rdy i =>
    simp only [applyEvent, ok] at h
    split at h
    · cases h; exact invR_node s hI i _ _ rfl rfl rfl (Nat.le_refl _) (hI.own i)
    · cases h
  | persist i k =>
    simp only [applyEvent, ok] at h
    split at h
    · split at h
      · rename_i im him
        cases h
        refine invR_node s hI i _ _ rfl rfl rfl ?_ (hI.own i)
        -- the durable term never goes back: pending images are later than the durable one
        have hmem : (im.term, im.vote) ∈ ((vsys s).nodes i).pend := by
          simp only [vsys, vproj, List.mem_map]
          exact ⟨im, List.mem_of_getElem? him, rfl⟩
        have := (hV.pa i _ hmem).1
        simp only [le2, VNode.d, vsys, vproj] at this
        simp only; omega
      · cases h
    · cases h
  | release i key =>
    simp only [applyEvent, ok] at h
    split at h
    · rename_i k hk
      split at h
      · rename_i m hm
        split at h
        · rename_i hg
          have hmem : m ∈ (s.nodes i).outbox := List.mem_of_getElem? hm
          have hown := hI.own i m hmem
          have hsub : ∀ x ∈ (s.nodes i).outbox.eraseIdx k, x.owner = i :=
            fun x hx => hI.own i x (List.mem_of_mem_eraseIdx hx)
          have hr := hg.2
          cases m with
          | voteReq t c lt li =>
            simp only [addReleased] at h
            cases h
            simp only [OMsg.owner] at hown
            simp only [releasable, Bool.or_eq_true, Bool.and_eq_true, decide_eq_true_eq] at hr
            constructor
            · intro j x hx
              by_cases hj : j = i
              · subst hj; simp only [upd, if_true] at hx; exact hsub x hx
              · simp only [upd, hj, if_false] at hx; exact hI.own j x hx
            · intro r hr'
              simp only [List.mem_cons] at hr'
              rcases hr' with hr' | hr'
              · subst hr'; simp only [upd, hown, if_true]; omega
              · have := hI.rq r hr'
                by_cases hj : r.cand = i
                · simp only [upd, hj, if_true]; rw [hj] at this; exact this
                · simp only [upd, hj, if_false]; exact this
            · intro a ha'
              have := hI.ak a ha'
              by_cases hj : a.frm = i
              · simp only [upd, hj, if_true]; rw [hj] at this; exact this
              · simp only [upd, hj, if_false]; exact this
          | grant t vv c =>
            simp only [addReleased] at h
            cases h
            exact invR_node s hI i _ _ rfl rfl rfl (Nat.le_refl _) hsub
          | ack t f idx pre =>
            simp only [addReleased] at h
            cases h
            simp only [OMsg.owner] at hown
            simp only [releasable, Bool.or_eq_true, Bool.and_eq_true, decide_eq_true_eq] at hr
            constructor
            · intro j x hx
              by_cases hj : j = i
              · subst hj; simp only [upd, if_true] at hx; exact hsub x hx
              · simp only [upd, hj, if_false] at hx; exact hI.own j x hx
            · intro r hr'
              have := hI.rq r hr'
              by_cases hj : r.cand = i
              · simp only [upd, hj, if_true]; rw [hj] at this; exact this
              · simp only [upd, hj, if_false]; exact this
            · intro a ha'
              simp only [List.mem_cons] at ha'
              rcases ha' with ha' | ha'
              · subst ha'; simp only [upd, hown, if_true]; omega
              · have := hI.ak a ha'
                by_cases hj : a.frm = i
                · simp only [upd, hj, if_true]; rw [hj] at this; exact this
                · simp only [upd, hj, if_false]; exact this
        · cases h
      · cases h
    · cases h
  | crash i =>
    simp only [applyEvent, ok] at h
    split at h
    · cases h; exact invR_node s hI i _ _ rfl rfl rfl (Nat.le_refl _) (by simp)
    · cases h
  | restart i =>
    simp only [applyEvent, ok] at h
    split at h
    · cases h; exact invR_node s hI i _ _ rfl rfl rfl (Nat.le_refl _) (by simp)
    · cases h
  | win i cfg q =>
    simp only [applyEvent, ok] at h
    split at h
    · cases h; exact invR_node s hI i _ _ rfl rfl rfl (Nat.le_refl _) (hI.own i)
    · cases h
  | stepDown i =>
    simp only [applyEvent, ok] at h
    split at h
    · cases h; exact invR_node s hI i _ _ rfl rfl rfl (Nat.le_refl _) (hI.own i)
    · cases h
  | leaderAppend i e =>
    simp only [applyEvent, ok] at h
    split at h
    · cases h; exact invR_node s hI i _ _ rfl rfl rfl (Nat.le_refl _) (hI.own i)
    · cases h
  | sendApp i m =>
    simp only [applyEvent, ok] at h
    split at h
    · cases h; exact ⟨hI.own, hI.rq, hI.ak⟩
    · cases h
  | recvApp i m =>
    simp only [applyEvent, ok] at h
    split at h
    · cases h
      exact invR_node s hI i _ _ rfl rfl rfl (Nat.le_refl _) (mem_append_singleton_owner (hI.own i) rfl)
    · cases h
  | ackCommitted i =>
    simp only [applyEvent, ok] at h
    split at h
    · cases h
      exact invR_node s hI i _ _ rfl rfl rfl (Nat.le_refl _) (mem_append_singleton_owner (hI.own i) rfl)
    · cases h
  | commitLeader i c cfg q =>
    simp only [applyEvent, ok] at h
    split at h
    · cases h; exact invR_node s hI i _ _ rfl rfl rfl (Nat.le_refl _) (hI.own i)
    · cases h
  | commitApp i c m =>
    simp only [applyEvent, ok] at h
    split at h
    · cases h; exact invR_node s hI i _ _ rfl rfl rfl (Nat.le_refl _) (hI.own i)
    · cases h
  | commitHB i c m =>
    simp only [applyEvent, ok] at h
    split at h
    · cases h; exact invR_node s hI i _ _ rfl rfl rfl (Nat.le_refl _) (hI.own i)
    · cases h
  | commitClaim i m =>
    simp only [applyEvent, ok] at h
    split at h
    · cases h; exact invR_node s hI i _ _ rfl rfl rfl (Nat.le_refl _) (hI.own i)
    · cases h
  | sendHB i to c =>
    simp only [applyEvent, ok] at h
    split at h
    · cases h; exact ⟨hI.own, hI.rq, hI.ak⟩
    · cases h
  | claim i idx =>
    simp only [applyEvent, ok] at h
    split at h
    · cases h; exact ⟨hI.own, hI.rq, hI.ak⟩
    · cases h
  | sendSnap i idx =>
    simp only [applyEvent, ok] at h
    split at h
    · cases h; exact ⟨hI.own, hI.rq, hI.ak⟩
    · cases h
  | installSnap i t idx sterm =>
    simp only [applyEvent, ok] at h
    split at h
    · split at h
      · cases h
        exact invR_node s hI i _ _ rfl rfl rfl (Nat.le_refl _) (mem_append_singleton_owner (hI.own i) rfl)
      · cases h
    · cases h
  | commitSnap i t idx sterm =>
    simp only [applyEvent, ok] at h
    split at h
    · split at h
      · cases h; exact invR_node s hI i _ _ rfl rfl rfl (Nat.le_refl _) (hI.own i)
      · cases h
    · cases h
  | bootstrap i donor idx =>
    simp only [applyEvent, ok] at h
    split at h
    · rename_i hg
      cases h
      refine invR_node s hI i _ _ rfl rfl rfl ?_ (hI.own i)
      simp only; omega
    · cases h

theorem invR_reach (c0 : Cfg) (s : PSys) (h : ReachC c0 s) : InvR s := by
  induction h with
  | init => exact invR_init
  | step e hr _ hs ih => exact invR_step c0 _ _ e (invV_reach c0 _ hr) ih hs

end RaftModel.P
