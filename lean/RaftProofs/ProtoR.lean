import RaftProofs.ProtoVStep

/-!
Promise durability for the other released messages (vote requests, append acknowledgements):
the durable term of the sender is never behind the term of anything it released, at release time
and at all later times (`InvR`).  Acknowledgements are released only when the durable image covers
them (`dacks`), and every image covers only acknowledgements generated at or below its term.
-/
namespace RaftModel.P

def OMsg.owner : OMsg → Nat
  | .voteReq _ c _ _ => c
  | .grant _ v _ _ => v
  | .ack _ f _ _ => f

def OMsg.term : OMsg → Nat
  | .voteReq t _ _ _ => t
  | .grant t _ _ _ => t
  | .ack t _ _ _ => t

structure InvR (s : PSys) : Prop where
  own : ∀ i, ∀ m ∈ (s.nodes i).outbox, m.owner = i ∧ (m.isAck = true → m.term ≤ (s.nodes i).term)
  pim : ∀ i, ∀ im ∈ (s.nodes i).pending, ∀ m ∈ im.acks, m.owner = i ∧ m.term ≤ im.term
  dak : ∀ i, ∀ m ∈ (s.nodes i).dacks, m.owner = i ∧ m.term ≤ (s.nodes i).dterm
  rq : ∀ r ∈ s.reqs, r.term ≤ (s.nodes r.cand).dterm
  ak : ∀ a ∈ s.acks, a.term ≤ (s.nodes a.frm).dterm

theorem invR_init : InvR init := by
  constructor <;> simp [init]

/-- a step that changes node `i` only and releases nothing -/
theorem invR_node (s : PSys) (h : InvR s) (i : Nat) (n : PNode) (s' : PSys)
    (hn : s'.nodes = upd s.nodes i n) (hr : s'.reqs = s.reqs) (ha : s'.acks = s.acks)
    (hd : (s.nodes i).dterm ≤ n.dterm)
    (ho : ∀ m ∈ n.outbox, m.owner = i ∧ (m.isAck = true → m.term ≤ n.term))
    (hp : ∀ im ∈ n.pending, ∀ m ∈ im.acks, m.owner = i ∧ m.term ≤ im.term)
    (hk : ∀ m ∈ n.dacks, m.owner = i ∧ m.term ≤ n.dterm) : InvR s' := by
  have hnode : ∀ j, j ≠ i → s'.nodes j = s.nodes j := by intro j hj; rw [hn]; simp [upd, hj]
  have hnodei : s'.nodes i = n := by rw [hn]; simp [upd]
  constructor
  · intro j m hm
    by_cases hj : j = i
    · subst hj; rw [hnodei] at hm ⊢; exact ho m hm
    · rw [hnode j hj] at hm ⊢; exact h.own j m hm
  · intro j im him m hm
    by_cases hj : j = i
    · subst hj; rw [hnodei] at him; exact hp im him m hm
    · rw [hnode j hj] at him; exact h.pim j im him m hm
  · intro j m hm
    by_cases hj : j = i
    · subst hj; rw [hnodei] at hm ⊢; exact hk m hm
    · rw [hnode j hj] at hm ⊢; exact h.dak j m hm
  · intro r hr'
    rw [hr] at hr'
    have := h.rq r hr'
    by_cases hj : r.cand = i
    · rw [hj, hnodei]; rw [hj] at this; omega
    · rw [hnode _ hj]; exact this
  · intro a ha'
    rw [ha] at ha'
    have := h.ak a ha'
    by_cases hj : a.frm = i
    · rw [hj, hnodei]; rw [hj] at this; omega
    · rw [hnode _ hj]; exact this

theorem own_append {l : List OMsg} {i t : Nat} {x : OMsg}
    (h : ∀ m ∈ l, m.owner = i ∧ (m.isAck = true → m.term ≤ t)) (hx : x.owner = i ∧ (x.isAck = true → x.term ≤ t)) :
    ∀ m ∈ l ++ [x], m.owner = i ∧ (m.isAck = true → m.term ≤ t) := by
  intro m hm
  simp only [List.mem_append, List.mem_singleton] at hm
  rcases hm with hm | hm
  · exact h m hm
  · subst hm; exact hx

set_option maxHeartbeats 800000 in
theorem invR_step (c0 : Cfg) (s s' : PSys) (e : Event) (hV : InvV (vsys s)) (hI : InvR s)
    (h : applyEvent s e = .ok s') : InvR s' := by
  cases e with
  | bump i t =>
    simp only [applyEvent, ok] at h
    split at h
    · rename_i hg; cases h
      refine invR_node s hI i _ _ rfl rfl rfl (Nat.le_refl _) ?_ (hI.pim i) (hI.dak i)
      intro m hm; have := hI.own i m hm
      exact ⟨this.1, fun ha => by have := this.2 ha; simp only; omega⟩
    · cases h
  | campaign i =>
    simp only [applyEvent, ok] at h
    split at h
    · cases h
      refine invR_node s hI i _ _ rfl rfl rfl (Nat.le_refl _) ?_ (hI.pim i) (hI.dak i)
      intro m hm
      simp only [List.mem_append, List.mem_cons, List.not_mem_nil, or_false] at hm
      rcases hm with hm | hm | hm
      · exact hI.own i m hm
      · subst hm; exact ⟨rfl, by simp [OMsg.isAck]⟩
      · subst hm; exact ⟨rfl, by simp [OMsg.isAck]⟩
    · cases h
  | grant i c =>
    simp only [applyEvent, ok] at h
    split at h
    · split at h
      · cases h
        exact invR_node s hI i _ _ rfl rfl rfl (Nat.le_refl _)
          (own_append (hI.own i) ⟨rfl, by simp [OMsg.isAck]⟩) (hI.pim i) (hI.dak i)
      · cases h
    · cases h
  | rdy i =>
    simp only [applyEvent, ok] at h
    split at h
    · cases h
      refine invR_node s hI i _ _ rfl rfl rfl (Nat.le_refl _) (hI.own i) ?_ (hI.dak i)
      intro im him m hm
      simp only [List.mem_append, List.mem_singleton] at him
      rcases him with him | him
      · exact hI.pim i im him m hm
      · subst him
        simp only [image, List.mem_filter] at hm
        have := hI.own i m hm.1
        exact ⟨this.1, this.2 hm.2⟩
    · cases h
  | persist i k =>
    simp only [applyEvent, ok] at h
    split at h
    · split at h
      · rename_i im him
        cases h
        have hmemi : im ∈ (s.nodes i).pending := List.mem_of_getElem? him
        refine invR_node s hI i _ _ rfl rfl rfl ?_ (hI.own i)
          (fun x hx => hI.pim i x (List.mem_of_mem_drop hx)) (hI.pim i im hmemi)
        have hmem : (im.term, im.vote) ∈ ((vsys s).nodes i).pend := by
          simp only [vsys, vproj, List.mem_map]
          exact ⟨im, hmemi, rfl⟩
        have := (hV.pa i _ hmem).1
        simp only [le2, VNode.d, vsys, vproj] at this
        simp only; omega
      · cases h
    · cases h
  | release i key =>
    simp only [applyEvent, ok] at h
    split at h
    · split at h
      · rename_i m hm
        split at h
        · rename_i hg
          have hmem : m ∈ (s.nodes i).dacks := List.mem_of_find?_eq_some hm
          have hd := hI.dak i m hmem
          cases m with
          | ack t f idx pre =>
            simp only [addReleased] at h
            cases h
            simp only [OMsg.owner, OMsg.term] at hd
            refine ⟨hI.own, hI.pim, hI.dak, hI.rq, ?_⟩
            intro a ha
            simp only [List.mem_cons] at ha
            rcases ha with ha | ha
            · subst ha; simp only; rw [hd.1]; exact hd.2
            · exact hI.ak a ha
          | voteReq t c lt li => simp [OMsg.isAck] at hg
          | grant t vv c gh => simp [OMsg.isAck] at hg
        · cases h
      · cases h
    · split at h
      · rename_i k hk
        split at h
        · rename_i m hm
          split at h
          · rename_i hg
            have hmem : m ∈ (s.nodes i).outbox := List.mem_of_getElem? hm
            have hown := (hI.own i m hmem).1
            have hsub : ∀ x ∈ (s.nodes i).outbox.eraseIdx k, x.owner = i ∧ (x.isAck = true → x.term ≤ (s.nodes i).term) :=
              fun x hx => hI.own i x (List.mem_of_mem_eraseIdx hx)
            have hr := hg.2.1
            cases m with
            | voteReq t c lt li =>
              simp only [addReleased] at h
              cases h
              simp only [OMsg.owner] at hown
              simp only [releasable, Bool.or_eq_true, Bool.and_eq_true, decide_eq_true_eq] at hr
              have hbase := invR_node s hI i { s.nodes i with outbox := (s.nodes i).outbox.eraseIdx k }
                { s with nodes := upd s.nodes i { s.nodes i with outbox := (s.nodes i).outbox.eraseIdx k } }
                rfl rfl rfl (Nat.le_refl _) hsub (hI.pim i) (hI.dak i)
              refine ⟨hbase.own, hbase.pim, hbase.dak, ?_, hbase.ak⟩
              intro r hr'
              simp only [List.mem_cons] at hr'
              rcases hr' with hr' | hr'
              · subst hr'; simp only [upd, hown, if_true]; omega
              · exact hbase.rq r hr'
            | grant t vv c gh =>
              simp only [addReleased] at h
              cases h
              exact invR_node s hI i _ _ rfl rfl rfl (Nat.le_refl _) hsub (hI.pim i) (hI.dak i)
            | ack t f idx pre => simp [OMsg.isAck] at hg
          · cases h
        · cases h
      · cases h
  | crash i =>
    simp only [applyEvent, ok] at h
    split at h
    · cases h; exact invR_node s hI i _ _ rfl rfl rfl (Nat.le_refl _) (by simp) (by simp) (hI.dak i)
    · cases h
  | restart i =>
    simp only [applyEvent, ok] at h
    split at h
    · cases h
      refine invR_node s hI i _ _ rfl rfl rfl (Nat.le_refl _) ?_ (by simp) (hI.dak i)
      intro m hm
      simp only [List.mem_filter] at hm
      have := hI.dak i m hm.1
      exact ⟨this.1, fun _ => this.2⟩
    · cases h
  | read r =>
    simp only [applyEvent, ok] at h
    split at h
    · cases h; exact ⟨hI.own, hI.pim, hI.dak, hI.rq, hI.ak⟩
    · cases h
  | win i cfg q =>
    simp only [applyEvent, ok] at h
    split at h
    · cases h; exact invR_node s hI i _ _ rfl rfl rfl (Nat.le_refl _) (hI.own i) (hI.pim i) (hI.dak i)
    · cases h
  | stepDown i =>
    simp only [applyEvent, ok] at h
    split at h
    · cases h; exact invR_node s hI i _ _ rfl rfl rfl (Nat.le_refl _) (hI.own i) (hI.pim i) (hI.dak i)
    · cases h
  | leaderAppend i e =>
    simp only [applyEvent, ok] at h
    split at h
    · cases h; exact invR_node s hI i _ _ rfl rfl rfl (Nat.le_refl _) (hI.own i) (hI.pim i) (hI.dak i)
    · cases h
  | sendApp i m =>
    simp only [applyEvent, ok] at h
    split at h
    · cases h; exact ⟨hI.own, hI.pim, hI.dak, hI.rq, hI.ak⟩
    · cases h
  | recvApp i m =>
    simp only [applyEvent, ok] at h
    split at h
    · cases h
      exact invR_node s hI i _ _ rfl rfl rfl (Nat.le_refl _)
        (own_append (hI.own i) ⟨rfl, fun _ => Nat.le_refl _⟩) (hI.pim i) (hI.dak i)
    · cases h
  | ackCommitted i =>
    simp only [applyEvent, ok] at h
    split at h
    · cases h
      exact invR_node s hI i _ _ rfl rfl rfl (Nat.le_refl _)
        (own_append (hI.own i) ⟨rfl, fun _ => Nat.le_refl _⟩) (hI.pim i) (hI.dak i)
    · cases h
  | ackSelf i idx =>
    simp only [applyEvent, ok] at h
    split at h
    · cases h
      exact invR_node s hI i _ _ rfl rfl rfl (Nat.le_refl _)
        (own_append (hI.own i) ⟨rfl, fun _ => Nat.le_refl _⟩) (hI.pim i) (hI.dak i)
    · cases h
  | commitLeader i c cfg q =>
    simp only [applyEvent, ok] at h
    split at h
    · cases h; exact invR_node s hI i _ _ rfl rfl rfl (Nat.le_refl _) (hI.own i) (hI.pim i) (hI.dak i)
    · cases h
  | commitApp i c m =>
    simp only [applyEvent, ok] at h
    split at h
    · cases h; exact invR_node s hI i _ _ rfl rfl rfl (Nat.le_refl _) (hI.own i) (hI.pim i) (hI.dak i)
    · cases h
  | commitHB i c m =>
    simp only [applyEvent, ok] at h
    split at h
    · cases h; exact invR_node s hI i _ _ rfl rfl rfl (Nat.le_refl _) (hI.own i) (hI.pim i) (hI.dak i)
    · cases h
  | commitClaim i m =>
    simp only [applyEvent, ok] at h
    split at h
    · cases h; exact invR_node s hI i _ _ rfl rfl rfl (Nat.le_refl _) (hI.own i) (hI.pim i) (hI.dak i)
    · cases h
  | sendHB i to c =>
    simp only [applyEvent, ok] at h
    split at h
    · cases h; exact ⟨hI.own, hI.pim, hI.dak, hI.rq, hI.ak⟩
    · cases h
  | claim i idx =>
    simp only [applyEvent, ok] at h
    split at h
    · cases h; exact ⟨hI.own, hI.pim, hI.dak, hI.rq, hI.ak⟩
    · cases h
  | sendSnap i idx =>
    simp only [applyEvent, ok] at h
    split at h
    · cases h; exact ⟨hI.own, hI.pim, hI.dak, hI.rq, hI.ak⟩
    · cases h
  | installSnap i t idx sterm =>
    simp only [applyEvent, ok] at h
    split at h
    · split at h
      · cases h
        exact invR_node s hI i _ _ rfl rfl rfl (Nat.le_refl _)
          (own_append (hI.own i) ⟨rfl, fun _ => Nat.le_refl _⟩) (hI.pim i) (hI.dak i)
      · cases h
    · cases h
  | commitSnap i t idx sterm =>
    simp only [applyEvent, ok] at h
    split at h
    · split at h
      · cases h; exact invR_node s hI i _ _ rfl rfl rfl (Nat.le_refl _) (hI.own i) (hI.pim i) (hI.dak i)
      · cases h
    · cases h
  | bootstrap i donor idx =>
    simp only [applyEvent, ok] at h
    split at h
    · rename_i hg
      cases h
      refine invR_node s hI i _ _ rfl rfl rfl ?_ ?_ (hI.pim i) ?_
      · simp only; omega
      · intro m hm; rw [hg.2.2.2.2.2.2.2.2.1] at hm; cases hm
      · intro m hm
        have := hI.dak i m hm
        exact ⟨this.1, by simp only; omega⟩
    · cases h

theorem invR_reachR (s : PSys) (h : Reach s) : InvR s := by
  induction h with
  | init => exact invR_init
  | step e hr hs ih => exact invR_step ⟨[], []⟩ _ _ e (invV_reachR _ hr) ih hs

theorem invR_reach (c0 : Cfg) (s : PSys) (h : ReachC c0 s) : InvR s :=
  invR_reachR s (reach_of_reachC h)

end RaftModel.P
