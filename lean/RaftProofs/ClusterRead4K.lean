import RaftProofs.ClusterRead4J

/-!
Cluster-level ReadIndex safety for **forwarded** reads, part 4K: late contexts and the term floor behind
every heartbeat response that carries a late context (`hbr_floor`; copy of
`RaftProofs/ClusterReadK.lean` over `Reg`, with a case for delivered `MsgReadIndex`s).
-/
namespace RaftModel
namespace Cluster
namespace R4
open Node Raft Raft.CC Raft.RD.R4 RaftProps.C02 RaftProps.C05

variable {cfg : JointConfig} {c0 : Nat} {h : List Sys}

/-- the context `K` is not empty and is not registered by any step before index `n0` -/
def Late (h : List Sys) (n0 : Nat) (K : Bytes) : Prop := K ≠ [] ∧ ∀ n i, Reg h n i K → n0 ≤ n

theorem late_not_occ (H : Hyp3w cfg c0 h)
    (safe : ∀ s ∈ h, ∀ i st, s.node i = some st → st.raft.readOnly.option = .safe)
    {n0 k : Nat} {s : Sys} (hk : h[k]? = some s)
    (hle : k ≤ n0) {K : Bytes} (hL : Late h n0 K) : ¬ Occ s K := by
  intro ho
  obtain ⟨n, i, h1, h2⟩ := occ_issued H safe k s hk K hL.1 ho
  have := hL.2 n i h2
  omega

/-- every heartbeat response with a late context was sent after `h[n0]` -/
structure HbrFloor (h : List Sys) (n0 : Nat) (s0 s : Sys) : Prop where
  q : ∀ v st, s.node v = some st → ∀ x ∈ st.raft.msgs, x.msgType = .msgHeartbeatResponse →
    Late h n0 x.context → FloorOK s0 x
  net : ∀ x ∈ s.net, x.msgType = .msgHeartbeatResponse → Late h n0 x.context → FloorOK s0 x

theorem hbr_floor (H : Hyp3w cfg c0 h)
    (safe : ∀ s ∈ h, ∀ i st, s.node i = some st → st.raft.readOnly.option = .safe)
    {n0 : Nat} {s0 : Sys} (hn0 : h[n0]? = some s0) :
    ∀ (k : Nat) (s : Sys), h[k]? = some s → HbrFloor h n0 s0 s := by
  have H2 := H.toHyp2w
  refine hist_induct h _ ?_ ?_
  · intro s h0
    have hinit := hist_init H2.hist s h0
    refine ⟨fun v st hv x hx => ?_, fun x hx => ?_⟩
    · rw [init_queue hinit v st hv] at hx; cases hx
    · rw [hinit.1] at hx; cases hx
  · intro n a b ha hb ih
    -- a heartbeat response of the queue of the moved node that was queued before
    have old : ∀ (k : Nat) (st : NState) (r1 r : Raft), a.node k = some st → RS st.raft r1 →
        (∀ x ∈ r.msgs, x.msgType = .msgHeartbeatResponse → x ∈ r1.msgs) →
        ∀ x ∈ r.msgs, x.msgType = .msgHeartbeatResponse → Late h n0 x.context → FloorOK s0 x := by
      intro k st r1 r hk hs hm x hx hty hL
      have : x ∈ rdOf r1.msgs := mem_rdOf.2 ⟨hm x hx hty, by unfold isRd; rw [hty]; rfl⟩
      rw [hs.rd] at this
      exact ih.q k st hk x (mem_rdOf.1 this).1 hty hL
    cases rd_step H ha hb with
    | call k st st' m hk hbe hm ho hrir =>
      subst hbe
      refine ⟨fun v stv hv x hx hty hL => ?_, ih.net⟩
      rcases node_cases hv with ⟨e1, e2⟩ | ⟨_, e2⟩
      · subst e1; subst e2
        rcases ho.msgs x hx with c | c | c | c | c
        · exact ih.q v st hk x c hty hL
        · rw [hty] at c; cases c
        · rw [c.1] at hty; cases hty
        · -- a fresh response: the step is after `n0`
          have hle : n0 ≤ n := by
            apply Classical.byContradiction
            intro hc
            exact late_not_occ H safe hb (by omega) hL
              (.inl ⟨v, stv, node_setNode_self a v stv, .inr (.inr ⟨x, hx, .inr hty, rfl⟩)⟩)
          intro τ hτ
          obtain ⟨st2, q1, q2, _⟩ := hτ.later H2.hist hn0 ha hle
          have hid := (node_ok H2 ha hk).id
          rw [c.2.2.2.1, hid, hk] at q1
          cases q1
          exact Nat.le_trans q2 c.2.2.2.2
        · rw [c.1] at hty; cases hty
      · exact ih.q v stv e2 x hx hty hL
    | read k st st' K' rnd res hk hbe hcall ho =>
      subst hbe
      refine ⟨fun v stv hv x hx hty hL => ?_, ih.net⟩
      rcases node_cases hv with ⟨e1, e2⟩ | ⟨_, e2⟩
      · subst e1; subst e2
        cases ho with
        | frame hf =>
          exact old v st stv.raft stv.raft hk hf.toRS (fun _ hx _ => hx) x hx hty hL
        | fwd hfo hlead hcore hmsgs =>
          refine old v st st.raft stv.raft hk (RS.refl _) (fun y hy hyt => ?_) x hx hty hL
          rw [hmsgs] at hy
          rcases List.mem_append.1 hy with c | c
          · exact c
          · exfalso
            rw [List.mem_singleton.1 c] at hyt
            have := (sendFill_ri st.raft
              { msgType := .msgReadIndex, to := st.raft.leaderId, entries := [{ data := K' }] } rfl).1
            rw [this] at hyt; cases hyt
        | now hs =>
          exfalso
          rcases hs with c | c
          · rw [not_singleton H2 (mem_of_get ha) hk] at c; cases c
          · exact c (safe a (mem_of_get ha) v st hk)
        | reg hl hc ro hadd hcore hmsgs =>
          rcases hmsgs x hx with c | ⟨c, _⟩
          · exact ih.q v st hk x c hty hL
          · rw [c] at hty; cases hty
      · exact ih.q v stv e2 x hx hty hL
    | ri k st st' m rnd res hk hbe hm hto hty' hcall ho =>
      subst hbe
      refine ⟨fun v stv hv x hx hty hL => ?_, ih.net⟩
      rcases node_cases hv with ⟨e1, e2⟩ | ⟨_, e2⟩
      · subst e1; subst e2
        cases ho with
        | keep hs _ =>
          exact old v st stv.raft stv.raft hk hs (fun _ hx _ => hx) x hx hty hL
        | fwd r1 hs hfo hcore y hmsgs hy =>
          refine old v st r1 stv.raft hk hs (fun z hz hzt => ?_) x hx hty hL
          rw [hmsgs] at hz
          rcases List.mem_append.1 hz with c | c
          · exact c
          · exfalso
            rw [List.mem_singleton.1 c, hy.1] at hzt; cases hzt
        | now hs =>
          exfalso
          rcases hs with c | c
          · rw [not_singleton H2 (mem_of_get ha) hk] at c; cases c
          · exact c (safe a (mem_of_get ha) v st hk)
        | reg hl hc ro hadd hcore hmsgs =>
          rcases hmsgs x hx with c | ⟨c, _⟩
          · exact ih.q v st hk x c hty hL
          · rw [c] at hty; cases hty
      · exact ih.q v stv e2 x hx hty hL
    | send k st st' hk hbe hst =>
      subst hbe
      refine ⟨fun v stv hv x hx hty hL => ?_, fun x hx hty hL => ?_⟩
      · have hv' : (a.setNode k st').node v = some stv := hv
        rcases node_cases hv' with ⟨e1, e2⟩ | ⟨_, e2⟩
        · subst e1; subst e2
          rw [hst] at hx; cases hx
        · exact ih.q v stv e2 x hx hty hL
      · have hx' : x ∈ a.net ++ st.raft.msgs := hx
        rcases List.mem_append.1 hx' with c | c
        · exact ih.net x c hty hL
        · exact ih.q k st hk x c hty hL
    | restart k st st' hk hbe hf hq =>
      subst hbe
      refine ⟨fun v stv hv x hx hty hL => ?_, ih.net⟩
      rcases node_cases hv with ⟨e1, e2⟩ | ⟨_, e2⟩
      · subst e1; subst e2
        rw [hq] at hx; cases hx
      · exact ih.q v stv e2 x hx hty hL

end R4
end Cluster
end RaftModel
