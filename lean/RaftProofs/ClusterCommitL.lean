import RaftProofs.ClusterCommitK

/-!
Cluster-level commit safety, helper lemmas part L: `tick`.
-/
namespace RaftModel
namespace Raft
namespace CC
open VoteOb

theorem noAck_local {A : Nat → Nat → Nat → Prop} {m : Message}
    (hm : m.msgType ≠ .msgAppendResponse) : ∀ t, AckIn m t → A m.frm t m.index :=
  fun _ h => absurd h.1 hm

/-- the local `MsgCheckQuorum` stepped by a leader queues nothing and keeps log and flags -/
theorem cq_step {r r' : Raft} {frm : Option Nat} (hs : r.state = .leader)
    (h : r.stepIgnore (newMessage 0 .msgCheckQuorum frm) = .ok r') :
    r'.msgs = r.msgs ∧ r'.raftLog.committed = r.raftLog.committed ∧
    r'.batchAppend = r.batchAppend := by
  unfold Raft.stepIgnore Raft.step Raft.stepTerm at h
  simp only [newMessage, if_true, hs] at h
  unfold Raft.stepLeader at h
  simp only [Raft.checkQuorumActive] at h
  cases hq : (r.prs.quorumRecentlyActive r.id).2
  · simp only [hq, Bool.not_false, if_true, Res.bind] at h
    cases h
    exact ⟨becomeFollower_msgs _ _ _, becomeFollower_committed _ _ _,
      becomeFollower_batchAppend _ _ _⟩
  · simp only [hq, Bool.not_true, Bool.false_eq_true, if_false, Res.bind] at h
    cases h
    exact ⟨rfl, rfl, rfl⟩

theorem tick_g {A : Nat → Nat → Nat → Prop} {r r' : Raft} {m : Message} {b : Bool}
    (hA : ∀ j t x y, y ≤ x → A j t x → A j t y) (hnb : r.batchAppend = false)
    (hmok : MOK A r) (h : r.tick = .ok (r', b)) : G A r m r' := by
  unfold Raft.tick at h
  have elect : r.tickElection = .ok (r', b) → G A r m r' := by
    intro h
    unfold Raft.tickElection at h
    simp only [] at h
    split at h
    · cases h; exact G.mk' (G.start hmok)
    · obtain ⟨r1, h1, h⟩ := Res.bind_eq_ok h
      cases h
      have g := stepIgnore_g (a := r) hA (r := { r with electionElapsed := 0 }) hnb
        (by intro hc; cases hc) (noAck_local (by intro hc; cases hc)) h1
        (G.mk' (G.start hmok)) (Old.mk' Old.rfl) rfl
      exact g.reanchor (by intro hc; cases hc)
  split at h
  · exact elect h
  · exact elect h
  · exact elect h
  · rename_i hs
    unfold Raft.tickHeartbeat at h
    simp only [] at h
    obtain ⟨⟨r1, b1⟩, h1, h⟩ := Res.bind_eq_ok h
    -- after the check-quorum part
    have key : G A r (newMessage 0 .msgBeat (some r.id)) r1 ∧ Old r r1 ∧
        r1.raftLog.committed = r.raftLog.committed ∧ r1.batchAppend = false := by
      split at h1
      · obtain ⟨⟨r2, b2⟩, h2, h1⟩ := Res.bind_eq_ok h1
        have k2 : G A r (newMessage 0 .msgBeat (some r.id)) r2 ∧ Old r r2 ∧
            r2.raftLog.committed = r.raftLog.committed ∧ r2.batchAppend = false := by
          split at h2
          · obtain ⟨r3, h3, h2⟩ := Res.bind_eq_ok h2
            cases h2
            have g := stepIgnore_g (a := r) hA
              (r := { r with heartbeatElapsed := r.heartbeatElapsed + 1, electionElapsed := 0 }) hnb
              (by intro hc; cases hc) (noAck_local (by intro hc; cases hc)) h3
              (G.mk' (G.start hmok)) (Old.mk' Old.rfl) rfl
            obtain ⟨c1, c2, c3⟩ := cq_step
              (r := { r with heartbeatElapsed := r.heartbeatElapsed + 1, electionElapsed := 0 }) hs h3
            refine ⟨g.reanchor (by intro hc; cases hc), ?_, c2, c3.trans hnb⟩
            unfold Old; rw [c1]; exact fun _ hx => hx
          · cases h2
            exact ⟨G.mk' (G.start hmok), Old.mk' Old.rfl, rfl, hnb⟩
        simp only [] at h1
        split at h1
        · cases h1
          exact ⟨G.mk' k2.1, Old.mk' k2.2.1, k2.2.2.1, k2.2.2.2⟩
        · cases h1; exact k2
      · cases h1
        exact ⟨G.mk' (G.start hmok), Old.mk' Old.rfl, rfl, hnb⟩
    obtain ⟨g1, o1, c1, n1⟩ := key
    simp only [] at h
    split at h
    · cases h; exact g1.reanchor (by intro hc; cases hc)
    · split at h
      · obtain ⟨r3, h3, h⟩ := Res.bind_eq_ok h
        cases h
        have g := stepIgnore_g (a := r) hA (r := { r1 with heartbeatElapsed := 0 }) n1
          (by intro hc; cases hc) (noAck_local (by intro hc; cases hc)) h3
          (G.mk' (g1.reanchor (by intro hc; cases hc))) (Old.mk' o1) c1
        exact g.reanchor (by intro hc; cases hc)
      · cases h; exact g1.reanchor (by intro hc; cases hc)

end CC
end Raft
end RaftModel
