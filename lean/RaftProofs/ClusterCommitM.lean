import RaftProofs.ClusterCommitL

/-!
Cluster-level commit safety, helper lemmas part M: `post_conf_change`, `apply_conf_change`,
`on_persist_entries`, `commit_apply`, the group-commit switches.
-/
namespace RaftModel
namespace Raft
namespace CC
open VoteOb

theorem maybeCommit_keeps {r r' : Raft} {b : Bool} (h : r.maybeCommit = .ok (r', b)) :
    r'.state = r.state ∧ r'.batchAppend = r.batchAppend ∧ r'.msgs = r.msgs ∧
    r'.readOnly = r.readOnly ∧ r'.leadTransferee = r.leadTransferee := by
  obtain ⟨mci, gc, _, hh | hh⟩ := maybeCommit_spec h
  · rw [hh.2.2.2.2]; exact ⟨rfl, rfl, rfl, rfl, rfl⟩
  · rw [hh.2]; exact ⟨rfl, rfl, rfl, rfl, rfl⟩

/-- the leader part of `post_conf_change` / the group-commit switches: `maybe_commit`, then sends -/
theorem commitThenSend_g {A : Nat → Nat → Nat → Prop} {a r r1 r' : Raft} {m : Message} {b : Bool}
    (hA : ∀ j t x y, y ≤ x → A j t x → A j t y) (hnb : r.batchAppend = false)
    (hs : r.state = .leader) (hmc : r.maybeCommit = .ok (r1, b)) (hsf : r1.batchAppend = false → SF r1 r')
    (h0 : G A a m r) : G A a m r' ∧ r'.state = .leader := by
  obtain ⟨e1, e2, _⟩ := maybeCommit_keeps hmc
  have hsf := hsf (e2.trans hnb)
  exact ⟨(maybeCommit_g hmc h0).sf hA hsf (.inl (e1.trans hs)), hsf.state.trans (e1.trans hs)⟩

theorem postConfChange_g {A : Nat → Nat → Nat → Prop} {a r r' : Raft} {m : Message} {cs : ConfState}
    (hA : ∀ j t x y, y ≤ x → A j t x → A j t y) (hnb : r.batchAppend = false)
    (h : r.postConfChange = .ok (r', cs)) (h0 : G A a m r) (ho : Old a r) : G A a m r' := by
  unfold Raft.postConfChange at h
  simp only at h
  split at h
  · cases h; exact becomeFollower_g _ _ (G.mk' h0) (Old.mk' ho)
  · split at h
    · cases h; exact G.mk' h0
    · rename_i hl
      have hs : r.state = .leader := by
        cases hr : r.state <;> simp [hr] at hl ⊢
      obtain ⟨r1, hr1, h⟩ := Res.bind_eq_ok h
      have h1 : G A a m r1 ∧ r1.state = .leader := by
        split at hr1
        · rename_i r3 hm
          exact commitThenSend_g (r := { r with promotable := Joint.contains r.prs.voters r.id })
            hA hnb hs hm (fun hb => bcastAppend_sf hb hr1 SF.rfl) (G.mk' h0)
        · rename_i r3 hm
          refine commitThenSend_g (r := { r with promotable := Joint.contains r.prs.voters r.id })
            hA hnb hs hm (fun hb => ?_) (G.mk' h0)
          refine forEachPeer_sf (fun r id pr r' pr' hh _ _ hh0 => ?_) hr1 SF.rfl
          obtain ⟨⟨r4, pr4, b4⟩, h4, h5⟩ := Res.bind_eq_ok hh
          cases h5
          exact maybeSendAppend_sf hb h4 hh0
        · cases hr1
        · cases hr1
      obtain ⟨g1, s1⟩ := h1
      obtain ⟨r2, hr2, h⟩ := Res.bind_eq_ok h
      have hsf2 : SF r1 r2 := by
        sf_auto hr2 [respondReadStates_sf]
      have g2 := g1.sf hA hsf2 (.inl s1)
      split at h
      · split at h
        · cases h; exact G.mk' g2
        · cases h; exact g2
      · cases h; exact g2

/-! ### `apply_conf_change` -/

theorem lookup_cons_eq {α : Type} (k : Nat) (v : α) (l : List (Nat × α)) :
    ((k, v) :: l).lookup k = some v := by
  simp [List.lookup_cons]

theorem lookup_cons_ne {α : Type} (j k : Nat) (v : α) (l : List (Nat × α)) (h : j ≠ k) :
    ((k, v) :: l).lookup j = l.lookup j := by
  have : (j == k) = false := by simpa using h
  simp [List.lookup_cons, this]

theorem lookup_insert {α : Type} (k : Nat) (v : α) (l : List (Nat × α)) (j : Nat) (p : α)
    (h : (NatMap.insert k v l).lookup j = some p) : (j = k ∧ p = v) ∨ l.lookup j = some p := by
  induction l with
  | nil =>
    simp only [NatMap.insert] at h
    by_cases hj : j = k
    · subst hj; rw [lookup_cons_eq] at h; injection h with h; exact .inl ⟨rfl, h.symm⟩
    · rw [lookup_cons_ne _ _ _ _ hj] at h; cases h
  | cons x rest ih =>
    obtain ⟨k', v'⟩ := x
    simp only [NatMap.insert] at h
    by_cases hj : j = k
    · subst hj
      split at h
      · rw [lookup_cons_eq] at h; injection h with h; exact .inl ⟨rfl, h.symm⟩
      · split at h
        · rw [lookup_cons_eq] at h; injection h with h; exact .inl ⟨rfl, h.symm⟩
        · rename_i h1 h2
          rw [lookup_cons_ne _ _ _ _ (fun hc => h2 hc)] at h
          rcases ih h with g | g
          · exact .inl g
          · right; rw [lookup_cons_ne _ _ _ _ (fun hc => h2 hc)]; exact g
    · right
      split at h
      · rw [lookup_cons_ne _ _ _ _ hj] at h; exact h
      · split at h
        · rename_i hk
          subst hk
          rw [lookup_cons_ne _ _ _ _ hj] at h
          rw [lookup_cons_ne _ _ _ _ hj]; exact h
        · by_cases hj' : j = k'
          · subst hj'
            rw [lookup_cons_eq] at h ⊢; exact h
          · rw [lookup_cons_ne _ _ _ _ hj'] at h ⊢
            rcases ih h with ⟨g, _⟩ | g
            · exact absurd g hj
            · exact g

theorem lookup_erase {α : Type} (k : Nat) (l : List (Nat × α)) (j : Nat) (p : α)
    (h : (NatMap.erase k l).lookup j = some p) : l.lookup j = some p := by
  induction l with
  | nil => cases h
  | cons x rest ih =>
    obtain ⟨k', v'⟩ := x
    unfold NatMap.erase at h ih
    by_cases hk : k' = k
    · subst hk
      have hf : List.filter (fun p => p.1 != k') ((k', v') :: rest) =
          List.filter (fun p => p.1 != k') rest := by
        simp [List.filter_cons]
      rw [hf] at h
      by_cases hj : j = k'
      · subst hj
        have hnone : ∀ l : List (Nat × α), (l.filter (fun p => p.1 != j)).lookup j = none := by
          intro l
          induction l with
          | nil => rfl
          | cons y r ih2 =>
            obtain ⟨ky, vy⟩ := y
            by_cases hy : ky = j
            · subst hy; simpa [List.filter_cons] using ih2
            · have : ((ky, vy).1 != j) = true := by simpa using hy
              rw [List.filter_cons, if_pos this, lookup_cons_ne _ _ _ _ (fun hc => hy hc.symm)]
              exact ih2
        rw [hnone] at h; cases h
      · rw [lookup_cons_ne _ _ _ _ hj]; exact ih h
    · have hf : List.filter (fun p => p.1 != k) ((k', v') :: rest) =
          (k', v') :: List.filter (fun p => p.1 != k) rest := by
        have : ((k', v').1 != k) = true := by simpa using hk
        rw [List.filter_cons, if_pos this]
      rw [hf] at h
      by_cases hj : j = k'
      · subst hj; rw [lookup_cons_eq] at h ⊢; exact h
      · rw [lookup_cons_ne _ _ _ _ hj] at h ⊢; exact ih h

theorem foldl_lookup {α β : Type} (f : List (Nat × α) → β → List (Nat × α)) (P : α → Prop) (j : Nat)
    (hf : ∀ m c p, (f m c).lookup j = some p → P p ∨ m.lookup j = some p) :
    ∀ (cs : List β) (l : List (Nat × α)) (p : α), (cs.foldl f l).lookup j = some p →
      P p ∨ l.lookup j = some p := by
  intro cs
  induction cs with
  | nil => intro l p hl; exact .inr hl
  | cons c rest ih =>
    intro l p hl
    simp only [List.foldl_cons] at hl
    rcases ih _ p hl with g | g
    · exact .inl g
    · exact hf _ _ _ g

theorem applyConf_mfun (t : ProgressTracker) (conf : Configuration) (changes : MapChange)
    (nextIdx : Nat) (j x : Nat) (h : mfun (t.applyConf conf changes nextIdx) j = some x) :
    x = 0 ∨ mfun t j = some x := by
  unfold mfun ProgressTracker.get at *
  cases hl : (t.applyConf conf changes nextIdx).progress.lookup j with
  | none => rw [hl] at h; cases h
  | some pr =>
    rw [hl] at h
    injection h with h
    have : pr.matched = 0 ∨ t.progress.lookup j = some pr := by
      unfold ProgressTracker.applyConf at hl
      refine foldl_lookup _ (fun p : Progress => p.matched = 0) j (fun m c p hh => ?_) _ _ _ hl
      split at hh
      · rcases lookup_insert _ _ _ _ _ hh with ⟨_, g2⟩ | g2
        · left; rw [g2]; rfl
        · exact .inr g2
      · exact .inr (lookup_erase _ _ _ _ hh)
    rcases this with g | g
    · left; rw [← h]; exact g
    · right; rw [g]; simp [h]

theorem applyConfChange_g {A : Nat → Nat → Nat → Prop} {r r' : Raft} {m : Message}
    {cc : ConfChangeV2} {res : Except ErrKind ConfState}
    (hA : ∀ j t x y, y ≤ x → A j t x → A j t y) (hnb : r.batchAppend = false) (hmok : MOK A r)
    (h : r.applyConfChange cc = .ok (r', res)) : G A r m r' := by
  unfold Raft.applyConfChange at h
  simp only [] at h
  split at h
  · cases h; exact G.start hmok
  · rename_i cfg changes _
    obtain ⟨⟨r1, cs⟩, h1, h⟩ := Res.bind_eq_ok h
    cases h
    refine postConfChange_g
      (r := ({ r with prs := r.prs.applyConf cfg changes r.raftLog.lastIndex } : Raft)) hA hnb h1
      (G.of_old Old.rfl rfl ⟨fun hs j x hx => ?_⟩ (fun _ => .inl rfl)) Old.rfl
    rcases applyConf_mfun _ _ _ _ j x hx with g | g
    · exact .inl g
    · exact hmok.h hs j x g

end CC
end Raft
end RaftModel
