import RaftProofs.ClusterSnap5H

/-!
[Copy of `ClusterSnap2I.lean` for the development `Snap5` (with `request_snapshot`): `NoReq` is replaced by
`ReqOk`, `SnapCase.restored` is widened — see `ClusterSnap5A.lean`, `RaftProps/C01i.lean`.]

Commit safety of `ClusterSem` with compaction and snapshots, part 2I: `req_inv` (a candidate's vote
requests describe the end of its log), `cand_q` and `leader_no_ack` of `ClusterSnapI`, for steps that
may deliver or install a snapshot.
-/
namespace RaftModel
namespace Cluster
namespace Snap5
open Node Raft Raft.CC RaftProps.C02 RaftProps.C05 Snap

variable {cfg : JointConfig} {c0 : Nat} {h : List Sys}

/-- a step of a node that changes neither role, term, queue nor the end of the log -/
structure Quiet (st st' : NState) : Prop where
  state : st'.raft.state = st.raft.state
  term : st'.raft.term = st.raft.term
  msgs : st'.raft.msgs = st.raft.msgs
  last : st'.raft.raftLog.lastIndex = st.raft.raftLog.lastIndex
  lterm : st'.raft.raftLog.lastTerm = st.raft.raftLog.lastTerm

theorem quiet_of_raft {st st' : NState} {rnd : Option Nat}
    (hr : st'.raft = { st.raft with nextRand := rnd }) : Quiet st st' := by
  constructor <;> rw [hr]

theorem quiet_psnap {st st' : NState} {rnd : Option Nat} (hinv : st.raft.raftLog.Inv)
    (hout : PersistOut st st' rnd) : Quiet st st' := by
  cases hout with
  | noop hr => exact quiet_of_raft hr
  | done sn L _ hr hinvL habs _ _ _ _ _ _ _ =>
    refine ⟨by rw [hr], by rw [hr], by rw [hr], ?_, ?_⟩
    · rw [hr]; show L.lastIndex = _; rw [hinvL.lastIndex_abs, hinv.lastIndex_abs, habs]
    · rw [hr]; show L.lastTerm = _; rw [hinvL.lastTerm_abs, hinv.lastTerm_abs, habs]

/-- what a step does to the role, the term, the queue and the end of the log of its node, unless it is
an ordinary call: nothing, or the node is a follower afterwards -/
theorem stp_quiet (H : Hyp2w cfg c0 h) {n : Nat} {a b : Sys} (ha : h[n]? = some a) {k : Nat}
    {st st' : NState} (hka : a.node k = some st) (hs : Stp a b k st st') :
    (∃ rnd op res, (appOp op = true ∨ ∃ m, op = .step m ∧ m ∈ a.net ∧ m.to = k) ∧
      (∀ j, op = .compact j → CompactOk st.raft.raftLog j) ∧
      (∀ m, op = .step m → m.msgType ≠ .msgSnapshot) ∧
      st.raft.raftLog.unstable.snapshot = none ∧ Node.call st rnd op = .ok (res, st') ∧
      b.net = a.net) ∨
    (Quiet st st' ∧ b.net = a.net) ∨ (st'.raft.state = .follower ∧ b.net = a.net) ∨
    (st'.raft.msgs = [] ∧ st'.raft.state = st.raft.state ∧ st'.raft.term = st.raft.term ∧
      st'.raft.raftLog = st.raft.raftLog ∧ b.net = a.net ++ st.raft.msgs) := by
  cases hs with
  | call rnd op res hop hco _ hns hpn _ hcall hnet _ =>
    exact .inl ⟨rnd, op, res, hop, hco, hns, hpn, hcall, hnet⟩
  | snap rnd m _ _ _ _ hout hnet =>
    cases hout with
    | skip hr => exact .inr (.inl ⟨quiet_of_raft hr, hnet⟩)
    | handled y hsf _ _ _ _ _ _ _ _ _ _ => exact .inr (.inr (.inl ⟨hsf, hnet⟩))
  | psnap rnd _ hout _ hnet => exact .inr (.inl ⟨quiet_psnap (node_ok H ha hka).inv hout, hnet⟩)
  | send _ _ hq hsame hnet _ => exact .inr (.inr (.inr ⟨hq, hsame.2.2, hsame.2.1, hsame.1, hnet⟩))
  | restart c rnd hboot hnet => exact .inr (.inr (.inl ⟨(CV.boot_booted c _ rnd st' hboot).state, hnet⟩))

theorem req_inv (H : Hyp2w cfg c0 h) : ∀ (n : Nat) (s : Sys), h[n]? = some s → ReqInv s := by
  have hall1 := (hist_all H.hist).1
  refine hist_induct h _ ?_ ?_
  · intro s h0 x st hx hs
    obtain ⟨c, store, rnd, _, hb⟩ := (hist_init H.hist s h0).2 x st hx
    rw [(CV.boot_booted c store rnd st hb).state] at hs; cases hs
  · intro n a b ha hb ih
    have I1 := hall1 a (mem_of_get ha)
    obtain ⟨k, stk, stk', hka, hkb, hoth, hstp⟩ := H.stp ha hb
    -- a real vote request of `x` that was around before the step, at a term `x` had not reached
    have noOld : ∀ x st q, a.node x = some st → (q ∈ a.net ∨ q ∈ st.raft.msgs) →
        q.msgType = .msgRequestVote → q.frm = x → q.term ≤ st.raft.term := by
      intro x st q hx hq hty hfrm
      have hrv : CV.isRVm q = true := by simp [CV.isRVm, hty]
      have hge : CV.Ge st.raft q.term (tgt q) := by
        rcases hq with g | g
        · obtain ⟨stq, h1, hok, _⟩ := I1.net q g hrv
          rw [hfrm, hx] at h1; cases h1
          exact hok.2.2.2.1
        · exact (I1.queue x st hx q g hrv).2.2.2.1
      rcases hge with c | ⟨c, _⟩ <;> omega
    intro x stx hx hs q hq hty hfrm hterm
    by_cases hxk : x = k
    · subst hxk
      rw [hkb] at hx; cases hx
      rcases stp_quiet H ha hka hstp with ⟨rnd, op, res, hop, hnc, hns, hpn, h4, hnet⟩ |
        ⟨hqt, hnet⟩ | ⟨hf, _⟩ | ⟨f1, f2, f4, f3, hnet⟩
      · obtain ⟨g, hL, _, _, _⟩ := call_facts H ha hka hop hnc hns hpn h4
        -- a request queued in this call is accurate
        have fresh : q ∈ stk'.raft.msgs → q ∉ stk.raft.msgs →
            q.index = stk'.raft.raftLog.lastIndex ∧ stk'.raft.raftLog.lastTerm = .ok q.logTerm := by
          intro hq1 hq2
          rcases g.qrq q hq1 hty with c | c
          · exact absurd c hq2
          · exact ⟨c.last, c.lt⟩
        rcases hL.rt.cand hs with c | ⟨c1, c2⟩
        · have hold : ¬ (q ∈ a.net ∨ q ∈ stk.raft.msgs) := by
            intro hc
            have := noOld x stk q hka hc hty hfrm
            omega
          rcases hq with g1 | g1
          · rw [hnet] at g1; exact absurd (.inl g1) hold
          · exact fresh g1 (fun hc => hold (.inr hc))
        · have hns' := node_step H ha hb hka hkb
          have hi1 := (node_ok H ha hka).inv
          have hi2 := (node_ok H hb hkb).inv
          have he12 : stk'.raft.raftLog.lastIndex = stk.raft.raftLog.lastIndex ∧
              stk'.raft.raftLog.lastTerm = stk.raft.raftLog.lastTerm := by
            rw [hi1.lastIndex_abs, hi2.lastIndex_abs, hi1.lastTerm_abs, hi2.lastTerm_abs]
            cases hns' with
            | same hl => rw [hl]; exact ⟨rfl, rfl⟩
            | grew es hg => rw [hg.leader] at hs; cases hs
            | acc m _ _ _ _ _ _ hs' _ => rw [hs'] at hs; cases hs
            | restart _ hs' _ => rw [hs'] at hs; cases hs
            | compacted j ho =>
              rw [ho.abs]
              obtain ⟨k1, k2⟩ := compactTo_last _ (j - 1) (ho.lt hi1).1
              exact ⟨k2, k1⟩
            | restored m _ _ _ _ _ _ _ hs' _ => rw [hs'] at hs; cases hs
          obtain ⟨e1, e2⟩ := he12
          by_cases hold : q ∈ a.net ∨ q ∈ stk.raft.msgs
          · have := ih x stk hka c2 q hold hty hfrm (by omega)
            rw [e1, e2]; exact this
          · rcases hq with g1 | g1
            · rw [hnet] at g1; exact absurd (.inl g1) hold
            · exact fresh g1 (fun hc => hold (.inr hc))
      · rw [hqt.last, hqt.lterm]
        rw [hnet, hqt.msgs] at hq
        exact ih x stk hka (by rw [← hqt.state]; exact hs) q hq hty hfrm (by rw [← hqt.term]; exact hterm)
      · rw [hf] at hs; cases hs
      · rw [f3]
        refine ih x stk hka (by rw [← f2]; exact hs) q ?_ hty hfrm (by rw [← f4]; exact hterm)
        rcases hq with g | g
        · rw [hnet] at g; exact (List.mem_append.1 g).imp (fun c => c) (fun c => c)
        · rw [f1] at g; cases g
    · rw [hoth x hxk] at hx
      refine ih x stx hx hs q ?_ hty hfrm hterm
      rcases hq with g | g
      · rcases hstp.net_sub q g with c | c
        · exact .inl c
        · -- a queued real vote request carries its sender
          have hrv : CV.isRVm q = true := by simp [CV.isRVm, hty]
          have := (I1.queue k stk hka q c hrv).1
          exact absurd (hfrm.symm.trans this) hxk
      · exact .inr g

/-- a real vote request of `x` that is around carries a term `x` has reached -/
theorem req_term_le (H : Hyp2w cfg c0 h) {n : Nat} {a : Sys} (ha : h[n]? = some a) {x : Nat}
    {st : NState} {q : Message} (hx : a.node x = some st) (hq : q ∈ a.net ∨ q ∈ st.raft.msgs)
    (hty : q.msgType = .msgRequestVote) (hfrm : q.frm = x) : q.term ≤ st.raft.term := by
  have I1 := (hist_all H.hist).1 a (mem_of_get ha)
  have hrv : CV.isRVm q = true := by simp [CV.isRVm, hty]
  have hge : CV.Ge st.raft q.term (tgt q) := by
    rcases hq with g | g
    · obtain ⟨stq, h1, hok, _⟩ := I1.net q g hrv
      rw [hfrm, hx] at h1; cases h1
      exact hok.2.2.2.1
    · exact (I1.queue x st hx q g hrv).2.2.2.1
  rcases hge with c | ⟨c, _⟩ <;> omega

theorem cand_q (H : Hyp2w cfg c0 h) : ∀ (n : Nat) (s : Sys), h[n]? = some s → CandQ s := by
  have hall1 := (hist_all H.hist).1
  refine hist_induct h _ ?_ ?_
  · intro s h0 x st hx _ _ a ha
    rw [init_queue (hist_init H.hist s h0) x st hx] at ha; cases ha
  · intro n a b ha hb ih
    have I1 := hall1 a (mem_of_get ha)
    obtain ⟨k, stk, stk', hka, hkb, hoth, hstp⟩ := H.stp ha hb
    intro x stx hx hs ⟨q, hq, hty, hfrm, hterm⟩ y hy hack
    -- the request was in the transport before, unless the step is a `send` of the requester
    by_cases hxk : x = k
    · subst hxk
      rw [hkb] at hx; cases hx
      rcases stp_quiet H ha hka hstp with ⟨rnd, op, res, hop, hnc, hns, hpn, h4, hnet⟩ |
        ⟨hqt, hnet⟩ | ⟨hf, _⟩ | ⟨f1, _, _, _, _⟩
      · rw [hnet] at hq
        apply Classical.byContradiction
        intro hidx
        obtain ⟨_, hL, _, _⟩ := call_facts H ha hka hop hnc hns hpn h4
        have hqt := req_term_le H ha hka (.inl hq) hty hfrm
        rcases fresh_ack H ha hka hop hnc hns hpn h4 hy hack hidx with c | ⟨_, _, _, c⟩
        · have hold : (stk.raft.state = .candidate ∨ stk.raft.state = .leader) ∧
              stk.raft.term = stk'.raft.term := by
            rcases hs with hs | hs
            · rcases hL.rt.cand hs with d | ⟨d1, d2⟩
              · omega
              · exact ⟨.inl d2, d1⟩
            · rcases hL.rt.lead hs with d | ⟨d1, d2⟩
              · omega
              · exact ⟨d2, d1⟩
          exact hidx (ih x stk hka hold.1 ⟨q, hq, hty, hfrm, by rw [hold.2]; exact hterm⟩ y c hack)
        · rcases hs with hs | hs <;> rw [c] at hs <;> cases hs
      · rw [hnet] at hq
        rw [hqt.msgs] at hy
        exact ih x stk hka (by rw [← hqt.state]; exact hs)
          ⟨q, hq, hty, hfrm, by rw [← hqt.term]; exact hterm⟩ y hy hack
      · rw [hf] at hs; rcases hs with hs | hs <;> cases hs
      · rw [f1] at hy; cases hy
    · rw [hoth x hxk] at hx
      refine ih x stx hx hs ⟨q, ?_, hty, hfrm, hterm⟩ y hy hack
      rcases hstp.net_sub q hq with c | c
      · exact c
      · have hrv : CV.isRVm q = true := by simp [CV.isRVm, hty]
        have := (I1.queue k stk hka q c hrv).1
        exact absurd (hfrm.symm.trans this) hxk

/-- **a leader's queue holds no acknowledgement** -/
theorem leader_no_ack (H : Hyp2w cfg c0 h) {n : Nat} {s : Sys} (hn : h[n]? = some s) {l : Nat}
    {st : NState} (hl : s.node l = some st) (hs : st.raft.state = .leader) :
    ∀ a ∈ st.raft.msgs, isAck a → a.index = 0 := by
  have hall := hist_all H.hist
  have hm := mem_of_get hn
  have I1 := hall.1 s hm
  have I2 := hall.2.1 cfg H.fix s hm
  obtain ⟨Q, hQ, hQg⟩ := I2.lead l st hl hs
  obtain ⟨j, hj, hjl⟩ := H.nolone l Q hQ
  rcases hQg j hj with c | ⟨g, hg, g1, g2, g3, g4, g5⟩
  · exact absurd c hjl
  · have hrv : CV.isRVm g = true := by simp [CV.isRVm, g1, g2]
    obtain ⟨stj, _, hok, _⟩ := I1.net g hg hrv
    obtain ⟨q, hq, q1, q2, q3⟩ := hok.2.2.2.2 g1
    exact cand_q H n s hn l st hl (.inr hs) ⟨q, hq, q1, by rw [q2, g4], by rw [q3, g5]⟩



end Snap5
end Cluster
end RaftModel
