import RaftProps.C16
import RaftProofs.ClusterVoteH

/-!
Cluster-level lease theorem (C16, second half), helper lemmas part A: the *plain frame* `ls_MF a r`
("`r` is reached from `a` by sending / replication / bookkeeping helpers only"): term, role, id, known
leader, pending transferee and the recorded votes are untouched, and every message of the queue is an
old one (up to the fields `try_batching` rewrites) or a *plain* message — not a (pre-)vote message,
not a `MsgTimeoutNow`, carrying a term `≤` the node's term.  Anchored lemmas in the style of
`RaftProofs.RaftNodeC16`, for every helper of the node model.
-/
namespace RaftModel
namespace Raft
namespace LS

/-- the fields of a message the lease argument reads (everything `try_batching` leaves alone) -/
def hd (x : Message) : MsgType × Nat × Nat × Bool × Bytes :=
  (x.msgType, x.term, x.frm, x.reject, x.context)

/-- message types the helpers send: no (pre-)vote message, no `MsgTimeoutNow` -/
def plainT : MsgType → Bool
  | .msgRequestVote | .msgRequestPreVote | .msgRequestVoteResponse | .msgRequestPreVoteResponse
  | .msgTimeoutNow => false
  | _ => true

theorem plainT_vote {t : MsgType} (h : plainT t = true) : isVoteMsg t = false := by
  cases t <;> simp_all [plainT, isVoteMsg]

theorem plainT_tn {t : MsgType} (h : plainT t = true) : t ≠ .msgTimeoutNow := by
  cases t <;> simp_all [plainT]

/-- a plain message queued while the node's term is (at most) `tm` -/
def Plain (tm : Nat) (x : Message) : Prop := plainT x.msgType = true ∧ x.term ≤ tm

theorem Plain.congr {tm : Nat} {x y : Message} (h : hd y = hd x) (hp : Plain tm y) : Plain tm x := by
  unfold hd at h
  injection h with h1 h2
  injection h2 with h2 h3
  unfold Plain at *
  rw [← h1, ← h2]; exact hp

/-- old message of the queue `q`, up to the rewritten fields -/
def Old (q : List Message) (x : Message) : Prop := ∃ y ∈ q, hd y = hd x

theorem Old.of_mem {q : List Message} {x : Message} (h : x ∈ q) : Old q x := ⟨x, h, rfl⟩

theorem Old.trans {q q' : List Message} {x : Message} (h : Old q' x) (hq : ∀ y ∈ q', Old q y) :
    Old q x := by
  obtain ⟨y, hy, e⟩ := h
  obtain ⟨z, hz, e'⟩ := hq y hy
  exact ⟨z, hz, e'.trans e⟩

/-- the plain frame, anchored at `a` -/
structure MF (a r : Raft) : Prop where
  term : r.term = a.term
  state : r.state = a.state
  id : r.id = a.id
  leaderId : r.leaderId = a.leaderId
  lt : r.leadTransferee = a.leadTransferee
  votes : r.prs.votes = a.prs.votes
  msgs : ∀ x ∈ r.msgs, Old a.msgs x ∨ Plain a.term x

theorem MF.rf {r : Raft} : MF r r :=
  ⟨Eq.refl _, Eq.refl _, Eq.refl _, Eq.refl _, Eq.refl _, Eq.refl _, fun _ hx => Or.inl (Old.of_mem hx)⟩

theorem MF.trans {a b c : Raft} (h1 : MF a b) (h2 : MF b c) : MF a c := by
  refine ⟨h2.term.trans h1.term, h2.state.trans h1.state, h2.id.trans h1.id,
    h2.leaderId.trans h1.leaderId, h2.lt.trans h1.lt, h2.votes.trans h1.votes, ?_⟩
  intro x hx
  rcases h2.msgs x hx with ⟨y, hy, e⟩ | hp
  · rcases h1.msgs y hy with ho | hp
    · obtain ⟨z, hz, e'⟩ := ho
      exact Or.inl ⟨z, hz, e'.trans e⟩
    · exact Or.inr (Plain.congr e hp)
  · rw [h1.term] at hp; exact Or.inr hp

/-- any structure update of the fields outside the frame keeps the frame -/
theorem MF.mk' {a r : Raft} {x2 : Nat} {x4 : List ReadState} {x5 : RaftLog} {x6 x7 x8 : Nat} {x10 : Bool}
    {x13 : Nat} {x14 : ReadOnly} {x15 x16 : Nat} {x17 x18 x19 x20 x21 : Bool}
    {x22 x23 x24 x25 x26 : Nat} {x27 : Int} {x28 : UncommittedState} {x29 : Nat}
    {y1 : List (Nat × Progress)} {y2 : Configuration} {y4 : Nat} {y5 : Bool} {x32 : Option Nat}
    (h0 : MF a r) :
    MF a { term := r.term, vote := x2, id := r.id, readStates := x4, raftLog := x5,
           maxInflight := x6, maxMsgSize := x7, pendingRequestSnapshot := x8, state := r.state,
           promotable := x10, leaderId := r.leaderId, leadTransferee := r.leadTransferee,
           pendingConfIndex := x13, readOnly := x14, electionElapsed := x15,
           heartbeatElapsed := x16, checkQuorum := x17, preVote := x18,
           skipBcastCommit := x19, batchAppend := x20, disableProposalForwarding := x21,
           heartbeatTimeout := x22, electionTimeout := x23, randomizedElectionTimeout := x24,
           minElectionTimeout := x25, maxElectionTimeout := x26, priority := x27,
           uncommittedState := x28, maxCommittedSizePerReady := x29,
           prs := { progress := y1, conf := y2, votes := r.prs.votes, maxInflight := y4,
                    groupCommit := y5 },
           msgs := r.msgs, nextRand := x32 } :=
  h0.trans ⟨Eq.refl _, Eq.refl _, Eq.refl _, Eq.refl _, Eq.refl _, Eq.refl _,
    fun _ hx => Or.inl (Old.of_mem hx)⟩

theorem sendFill_term (r : Raft) (m : Message) (hp : plainT m.msgType = true) (h0 : m.term = 0) :
    (r.sendFill m).term ≤ r.term := by
  have hv := plainT_vote hp
  unfold sendFill
  simp only
  by_cases hf : m.frm = 0
  · by_cases hq : m.msgType = .msgPropose ∨ m.msgType = .msgReadIndex
    · rcases hq with hq | hq <;> simp [hf, hq, isVoteMsg, h0]
    · have h1 : m.msgType ≠ .msgPropose := fun e => hq (Or.inl e)
      have h2 : m.msgType ≠ .msgReadIndex := fun e => hq (Or.inr e)
      have h3 : m.msgType ≠ .msgRequestVote := by intro e; rw [e] at hp; cases hp
      have h4 : m.msgType ≠ .msgRequestPreVote := by intro e; rw [e] at hp; cases hp
      simp [hf, hv, h1, h2, h3, h4]
  · by_cases hq : m.msgType = .msgPropose ∨ m.msgType = .msgReadIndex
    · rcases hq with hq | hq <;> simp [hf, hq, isVoteMsg, h0]
    · have h1 : m.msgType ≠ .msgPropose := fun e => hq (Or.inl e)
      have h2 : m.msgType ≠ .msgReadIndex := fun e => hq (Or.inr e)
      have h3 : m.msgType ≠ .msgRequestVote := by intro e; rw [e] at hp; cases hp
      have h4 : m.msgType ≠ .msgRequestPreVote := by intro e; rw [e] at hp; cases hp
      simp [hf, hv, h1, h2, h3, h4]

/-- … and so does queueing a plain message -/
theorem MF.mk_send' {a r : Raft} {m : Message} {x2 : Nat} {x4 : List ReadState} {x5 : RaftLog} {x6 x7 x8 : Nat} {x10 : Bool}
    {x13 : Nat} {x14 : ReadOnly} {x15 x16 : Nat} {x17 x18 x19 x20 x21 : Bool}
    {x22 x23 x24 x25 x26 : Nat} {x27 : Int} {x28 : UncommittedState} {x29 : Nat}
    {y1 : List (Nat × Progress)} {y2 : Configuration} {y4 : Nat} {y5 : Bool} {x32 : Option Nat}
    (h0 : MF a r) (hp : plainT m.msgType = true) (ht : m.term = 0) :
    MF a { term := r.term, vote := x2, id := r.id, readStates := x4, raftLog := x5,
           maxInflight := x6, maxMsgSize := x7, pendingRequestSnapshot := x8, state := r.state,
           promotable := x10, leaderId := r.leaderId, leadTransferee := r.leadTransferee,
           pendingConfIndex := x13, readOnly := x14, electionElapsed := x15,
           heartbeatElapsed := x16, checkQuorum := x17, preVote := x18,
           skipBcastCommit := x19, batchAppend := x20, disableProposalForwarding := x21,
           heartbeatTimeout := x22, electionTimeout := x23, randomizedElectionTimeout := x24,
           minElectionTimeout := x25, maxElectionTimeout := x26, priority := x27,
           uncommittedState := x28, maxCommittedSizePerReady := x29,
           prs := { progress := y1, conf := y2, votes := r.prs.votes, maxInflight := y4,
                    groupCommit := y5 },
           msgs := r.msgs ++ [r.sendFill m], nextRand := x32 } := by
  refine h0.trans ⟨Eq.refl _, Eq.refl _, Eq.refl _, Eq.refl _, Eq.refl _, Eq.refl _, ?_⟩
  intro x hx
  rcases List.mem_append.1 hx with g | g
  · exact Or.inl (Old.of_mem g)
  · rw [List.mem_singleton.1 g]
    exact Or.inr ⟨by rw [sendFill_msgType]; exact hp, sendFill_term r m hp ht⟩

theorem p_ar : plainT .msgAppendResponse = true := rfl
theorem p_hbr : plainT .msgHeartbeatResponse = true := rfl
theorem p_hb : plainT .msgHeartbeat = true := rfl
theorem p_rir : plainT .msgReadIndexResp = true := rfl

macro "ls_pre" h:ident : tactic =>
  `(tactic| (frame_dec $h:ident <;> (iterate 2 (try (first | apply MF.mk' | apply MF.mk_send')))))

/-- `ls_pre`, then chaining the anchored lemmas given in the list -/
macro "ls_auto" h:ident "[" ls:Lean.Parser.Tactic.SolveByElim.arg,* "]" : tactic =>
  `(tactic| (ls_pre $h:ident <;> (solve_by_elim (maxDepth := 14) [MF.rf, $ls,*, MF.mk', MF.mk_send', p_ar, p_hbr, p_hb, p_rir])))

macro "ls_auto0" h:ident : tactic =>
  `(tactic| (ls_pre $h:ident <;> (solve_by_elim (maxDepth := 14) [MF.rf, MF.mk', MF.mk_send', p_ar, p_hbr, p_hb, p_rir])))

/-! ### sending -/

/-- `send` of a plain message -/
theorem send_mf {a r r' : Raft} {m : Message} (h : r.send m = .ok r')
    (hp : plainT m.msgType = true) (h0 : MF a r) : MF a r' := by
  have hv := plainT_vote hp
  have ht0 : m.term = 0 := by
    unfold Raft.send at h
    rw [hv] at h
    simp only [Bool.false_and, Bool.false_eq_true, if_false, Bool.not_false, Bool.true_and] at h
    split at h
    · cases h
    · rename_i hc; simpa using hc
  rw [send_eq r r' m h]
  refine h0.trans ⟨Eq.refl _, Eq.refl _, Eq.refl _, Eq.refl _, Eq.refl _, Eq.refl _, ?_⟩
  intro x hx
  rcases List.mem_append.1 hx with g | g
  · exact Or.inl (Old.of_mem g)
  · rw [List.mem_singleton.1 g]
    exact Or.inr ⟨by rw [sendFill_msgType]; exact hp, sendFill_term r m hp ht0⟩


theorem prepareSendSnapshot_mf {a r r' : Raft} {m m' : Message} {pr pr' : Progress} {to : Nat}
    {b : Bool} (h : r.prepareSendSnapshot m pr to = .ok (r', m', pr', b)) (h0 : MF a r) :
    MF a r' := by
  refine h0.trans ?_
  unfold Raft.prepareSendSnapshot at h
  ls_pre h <;> exact MF.rf

theorem prepareSendSnapshot_type {r r' : Raft} {m m' : Message} {pr pr' : Progress} {to : Nat}
    (h : r.prepareSendSnapshot m pr to = .ok (r', m', pr', true)) : m'.msgType = .msgSnapshot := by
  unfold Raft.prepareSendSnapshot at h
  frame_dec h <;> rfl

theorem prepareSendEntries_type' {r : Raft} {m m' : Message} {pr pr' : Progress} {term : Nat}
    {ents : List Entry} (h : r.prepareSendEntries m pr term ents = .ok (m', pr')) :
    m'.msgType = .msgAppend := by
  unfold Raft.prepareSendEntries at h
  frame_dec h <;> rfl

theorem tryBatchingLoop_old (committed to : Nat) (pr : Progress) (ents : List Entry) :
    ∀ (msgs msgs' : List Message) (pr' : Progress) (b : Bool),
      tryBatchingLoop committed to pr ents msgs = .ok (msgs', pr', b) →
      ∀ x ∈ msgs', Old msgs x := by
  intro msgs
  induction msgs with
  | nil =>
    intro msgs' pr' b h
    simp [tryBatchingLoop] at h
    intro x hx; rw [h.1] at hx; cases hx
  | cons msg rest ih =>
    intro msgs' pr' b h x hx
    unfold tryBatchingLoop at h
    have hold : ∀ (e : List Entry) (c : Nat), x ∈ ({ msg with entries := e, commit := c } : Message) :: rest →
        Old (msg :: rest) x := by
      intro e c hx
      rcases List.mem_cons.1 hx with g | g
      · exact ⟨msg, List.mem_cons_self, by rw [g]; rfl⟩
      · exact Old.of_mem (List.mem_cons_of_mem _ g)
    split at h
    · split at h
      · split at h
        · cases h; exact Old.of_mem hx
        · simp only at h
          split at h
          · cases h
          · split at h
            · cases h; exact hold _ _ hx
            · cases h
            · cases h
      · cases h; exact hold _ _ hx
    · split at h
      · rename_i rest' pr1 b1 heq
        cases h
        rcases List.mem_cons.1 hx with g | g
        · exact Old.of_mem (by rw [g]; exact List.mem_cons_self)
        · obtain ⟨y, hy, e⟩ := ih _ _ _ heq x g
          exact ⟨y, List.mem_cons_of_mem _ hy, e⟩
      · cases h
      · cases h

theorem tryBatching_mf {a r r' : Raft} {to : Nat} {pr pr' : Progress} {ents : List Entry} {b : Bool}
    (h : r.tryBatching to pr ents = .ok (r', pr', b)) (h0 : MF a r) : MF a r' := by
  refine h0.trans ?_
  unfold Raft.tryBatching at h
  split at h
  · rename_i msgs pr1 b1 heq
    cases h
    exact ⟨Eq.refl _, Eq.refl _, Eq.refl _, Eq.refl _, Eq.refl _, Eq.refl _,
      fun x hx => Or.inl (tryBatchingLoop_old _ _ _ _ _ _ _ _ heq x hx)⟩
  · cases h
  · cases h

theorem plainT_of_eq {m : Message} {t : MsgType} (h : m.msgType = t) (ht : plainT t = true) :
    plainT m.msgType = true := by rw [h]; exact ht

theorem maybeSendAppend_mf {a r r' : Raft} {to : Nat} {pr pr' : Progress} {ae b : Bool}
    (h : r.maybeSendAppend to pr ae = .ok (r', pr', b)) (h0 : MF a r) : MF a r' := by
  have hsnap : ∀ {r1 r2 r3 : Raft} {m m' : Message} {p p' : Progress},
      r1.prepareSendSnapshot m p to = .ok (r2, m', p', true) → r2.send m' = .ok r3 → MF a r1 → MF a r3 :=
    fun h1 h2 h3 => send_mf h2 (plainT_of_eq (prepareSendSnapshot_type h1) rfl)
      (prepareSendSnapshot_mf h1 h3)
  have hent : ∀ {r1 r3 : Raft} {m m' : Message} {p p' : Progress} {t : Nat} {es : List Entry},
      r1.prepareSendEntries m p t es = .ok (m', p') → r1.send m' = .ok r3 → MF a r1 → MF a r3 :=
    fun h1 h2 h3 => send_mf h2 (plainT_of_eq (prepareSendEntries_type' h1) rfl) h3
  unfold Raft.maybeSendAppend at h
  ls_auto h [hsnap, hent, prepareSendSnapshot_mf, tryBatching_mf]

theorem sendAppendPr_mf {a r r' : Raft} {to : Nat} {pr pr' : Progress}
    (h : r.sendAppendPr to pr = .ok (r', pr')) (h0 : MF a r) : MF a r' := by
  unfold Raft.sendAppendPr at h
  ls_auto h [maybeSendAppend_mf]

theorem sendAppendAggressivelyPr_mf {a r' : Raft} {to : Nat} {pr' : Progress} :
    ∀ (fuel : Nat) (r : Raft) (pr : Progress),
      sendAppendAggressivelyPr fuel r to pr = .ok (r', pr') → MF a r → MF a r' := by
  intro fuel
  induction fuel with
  | zero => intro r pr h; simp [sendAppendAggressivelyPr] at h
  | succ n ih =>
    intro r pr h h0
    unfold sendAppendAggressivelyPr at h
    split at h
    · rename_i r1 pr1 hm
      exact ih r1 pr1 h (maybeSendAppend_mf hm h0)
    · rename_i r1 pr1 hm
      cases h; exact maybeSendAppend_mf hm h0
    · cases h
    · cases h

theorem sendHeartbeat_mf {a r r' : Raft} {to : Nat} {pr : Progress} {ctx : Option Bytes}
    (h : r.sendHeartbeat to pr ctx = .ok r') (h0 : MF a r) : MF a r' := by
  unfold Raft.sendHeartbeat at h
  exact send_mf h rfl h0

theorem sendAppend_mf {a r r' : Raft} {to : Nat}
    (h : r.sendAppend to = .ok r') (h0 : MF a r) : MF a r' := by
  unfold Raft.sendAppend at h
  ls_auto h [sendAppendPr_mf]

theorem sendAppendAggressively_mf {a r r' : Raft} {to : Nat}
    (h : r.sendAppendAggressively to = .ok r') (h0 : MF a r) : MF a r' := by
  unfold Raft.sendAppendAggressively at h
  ls_auto h [sendAppendAggressivelyPr_mf]

/-- folding a frame-preserving step over a list, in the `Res` monad -/
theorem foldl_mf {α : Type} {a r' : Raft} (step : Res Raft → α → Res Raft)
    (hstep : ∀ acc x r1, step acc x = .ok r1 → ∃ r0, acc = .ok r0 ∧ (MF a r0 → MF a r1)) :
    ∀ (l : List α) (acc : Res Raft), l.foldl step acc = .ok r' →
      (∀ r, acc = .ok r → MF a r) → MF a r' := by
  intro l
  induction l with
  | nil => intro acc h h0; exact h0 r' h
  | cons x rest ih =>
    intro acc h h0
    simp only [List.foldl_cons] at h
    refine ih (step acc x) h ?_
    intro r1 h1
    obtain ⟨r0, e0, hf⟩ := hstep acc x r1 h1
    exact hf (h0 r0 e0)

theorem forEachPeer_mf {a r r' : Raft} {f : Raft → Nat → Progress → Res (Raft × Progress)}
    (hf : ∀ r id pr r' pr', f r id pr = .ok (r', pr') → MF a r → MF a r')
    (h : r.forEachPeer f = .ok r') (h0 : MF a r) : MF a r' := by
  unfold Raft.forEachPeer at h
  refine foldl_mf _ ?_ _ _ h (by intro r1 e; cases e; exact h0)
  intro acc id r1 h1
  cases acc with
  | err e => cases h1
  | panic s => cases h1
  | ok r0 =>
    refine ⟨r0, rfl, fun h0 => ?_⟩
    change (if id = r0.id then Res.ok r0 else _) = _ at h1
    ls_auto h1 [hf]

theorem bcastAppend_mf {a r r' : Raft} (h : r.bcastAppend = .ok r') (h0 : MF a r) :
    MF a r' := by
  unfold Raft.bcastAppend at h
  exact forEachPeer_mf (fun r id pr r' pr' h => sendAppendPr_mf h) h h0

theorem bcastHeartbeatWithCtx_mf {a r r' : Raft} {ctx : Option Bytes}
    (h : r.bcastHeartbeatWithCtx ctx = .ok r') (h0 : MF a r) : MF a r' := by
  unfold Raft.bcastHeartbeatWithCtx at h
  refine forEachPeer_mf (fun r id pr r' pr' h h0 => ?_) h h0
  ls_auto h [sendHeartbeat_mf]

theorem bcastHeartbeat_mf {a r r' : Raft} (h : r.bcastHeartbeat = .ok r') (h0 : MF a r) :
    MF a r' := by
  unfold Raft.bcastHeartbeat at h
  exact bcastHeartbeatWithCtx_mf h h0

theorem ping_mf {a r r' : Raft} (h : r.ping = .ok r') (h0 : MF a r) : MF a r' := by
  unfold Raft.ping at h
  ls_auto h [bcastHeartbeat_mf]

theorem maybeCommit_mf {a r r' : Raft} {b : Bool} (h : r.maybeCommit = .ok (r', b))
    (h0 : MF a r) : MF a r' := by
  unfold Raft.maybeCommit at h
  simp only [Raft.modifyProgress] at h
  ls_auto0 h

theorem maybeIncreaseUncommittedSize_mf {a r r' : Raft} {es : List Entry} {b : Bool}
    (h : r.maybeIncreaseUncommittedSize es = (r', b)) (h0 : MF a r) : MF a r' := by
  unfold Raft.maybeIncreaseUncommittedSize at h
  split at h
  cases h
  exact MF.mk' h0

theorem appendEntry_mf {a r r' : Raft} {es : List Entry} {b : Bool}
    (h : r.appendEntry es = .ok (r', b)) (h0 : MF a r) : MF a r' := by
  unfold Raft.appendEntry at h
  ls_auto h [maybeIncreaseUncommittedSize_mf]

theorem handleReadyReadIndex_mf {a r r' : Raft} {req : Message} {i : Nat} {om : Option Message}
    (h : r.handleReadyReadIndex req i = .ok (r', om)) (h0 : MF a r) : MF a r' := by
  unfold Raft.handleReadyReadIndex at h
  ls_auto0 h

theorem handleReadyReadIndex_type {r r' : Raft} {req : Message} {i : Nat} {m' : Message}
    (h : r.handleReadyReadIndex req i = .ok (r', some m')) : plainT m'.msgType = true := by
  unfold Raft.handleReadyReadIndex at h
  frame_dec h
  rfl

theorem respondReadStates_mf {a r r' : Raft} {rss : List ReadIndexStatus}
    (h : r.respondReadStates rss = .ok r') (h0 : MF a r) : MF a r' := by
  unfold Raft.respondReadStates at h
  refine foldl_mf _ ?_ _ _ h (by intro r1 e; cases e; exact h0)
  intro acc rs r1 h1
  cases acc with
  | err e => cases h1
  | panic s => cases h1
  | ok r0 =>
    refine ⟨r0, rfl, fun h0 => ?_⟩
    change (r0.handleReadyReadIndex rs.req rs.index).bind _ = _ at h1
    rw [Res.bind_eq_ok_iff] at h1
    obtain ⟨⟨r2, om⟩, h2, h3⟩ := h1
    have h4 := handleReadyReadIndex_mf h2 h0
    cases om with
    | none => cases h3; exact h4
    | some m' => exact send_mf h3 (handleReadyReadIndex_type h2) h4

/-! ### leader side -/

theorem checkQuorumActive_mf {a r r' : Raft} {b : Bool} (h : r.checkQuorumActive = (r', b))
    (h0 : MF a r) : MF a r' := by
  unfold Raft.checkQuorumActive at h
  split at h
  rename_i prs b1 heq
  cases h
  unfold ProgressTracker.quorumRecentlyActive at heq
  cases heq
  exact MF.mk' h0

theorem handleHeartbeatResponse_mf {a r r' : Raft} {m : Message}
    (h : r.handleHeartbeatResponse m = .ok r') (h0 : MF a r) : MF a r' := by
  unfold Raft.handleHeartbeatResponse at h
  ls_auto h [sendAppendPr_mf, respondReadStates_mf]

theorem handleSnapshotStatus_mf {a r : Raft} {m : Message} (h0 : MF a r) :
    MF a (r.handleSnapshotStatus m) := by
  unfold Raft.handleSnapshotStatus
  split
  · exact h0
  · split
    · exact h0
    · exact MF.mk' h0

theorem handleUnreachable_mf {a r : Raft} {m : Message} (h0 : MF a r) :
    MF a (r.handleUnreachable m) := by
  unfold Raft.handleUnreachable
  split
  · exact h0
  · split
    · exact MF.mk' h0
    · exact h0

theorem filterProposalEntry_mf {a r r' : Raft} {i : Nat} {e e' : Entry}
    (h : r.filterProposalEntry i e = some (r', e')) (h0 : MF a r) : MF a r' := by
  unfold Raft.filterProposalEntry at h
  ls_auto0 h

theorem filterProposal_mf {a : Raft} : ∀ (es : List Entry) (r r' : Raft) (i : Nat)
    (oes : Option (List Entry)), r.filterProposal i es = (r', oes) → MF a r → MF a r' := by
  intro es
  induction es with
  | nil => intro r r' i oes h h0; simp [Raft.filterProposal] at h; rw [← h.1]; exact h0
  | cons e es ih =>
    intro r r' i oes h h0
    unfold Raft.filterProposal at h
    split at h
    · cases h; exact h0
    · rename_i r1 e1 h1
      have h2 := filterProposalEntry_mf h1 h0
      split at h
      · rename_i r2 es2 h3
        cases h; exact ih _ _ _ _ h3 h2
      · rename_i r2 h3
        cases h; exact ih _ _ _ _ h3 h2

/-! ### follower side -/

theorem sendRequestSnapshot_mf {a r r' : Raft} (h : r.sendRequestSnapshot = .ok r')
    (h0 : MF a r) : MF a r' := by
  unfold Raft.sendRequestSnapshot at h
  ls_auto h [send_mf]

theorem handleAppendEntries_mf {a r r' : Raft} {m : Message}
    (h : r.handleAppendEntries m = .ok r') (h0 : MF a r) : MF a r' := by
  unfold Raft.handleAppendEntries at h
  ls_auto h [send_mf, sendRequestSnapshot_mf]

theorem handleHeartbeat_mf {a r r' : Raft} {m : Message}
    (h : r.handleHeartbeat m = .ok r') (h0 : MF a r) : MF a r' := by
  unfold Raft.handleHeartbeat at h
  ls_auto h [send_mf, sendRequestSnapshot_mf]

theorem requestSnapshot_mf {a r r' : Raft} {e : Option RaftError}
    (h : r.requestSnapshot = .ok (r', e)) (h0 : MF a r) : MF a r' := by
  unfold Raft.requestSnapshot at h
  ls_auto h [sendRequestSnapshot_mf]

/-! ### bookkeeping calls -/

theorem onPersistSnap_mf {a r r' : Raft} {i : Nat} (h : r.onPersistSnap i = .ok r') (h0 : MF a r) :
    MF a r' := by
  unfold Raft.onPersistSnap at h
  ls_auto0 h

theorem onPersistEntries_mf {a r r' : Raft} {i t : Nat} (h : r.onPersistEntries i t = .ok r')
    (h0 : MF a r) : MF a r' := by
  unfold Raft.onPersistEntries at h
  ls_auto h [maybeCommit_mf, bcastAppend_mf]

theorem commitApplyInternal_mf {a r r' : Raft} {i : Nat} {b : Bool}
    (h : r.commitApplyInternal i b = .ok r') (h0 : MF a r) : MF a r' := by
  unfold Raft.commitApplyInternal at h
  ls_auto h [appendEntry_mf]

theorem commitApply_mf {a r r' : Raft} {i : Nat} (h : r.commitApply i = .ok r') (h0 : MF a r) :
    MF a r' := commitApplyInternal_mf h h0

theorem reduceUncommittedSize_mf {a r : Raft} {es : List Entry} (h0 : MF a r) :
    MF a (r.reduceUncommittedSize es) := by
  unfold Raft.reduceUncommittedSize
  split
  · exact h0
  · exact MF.mk' h0

theorem adjustMaxInflightMsgs_mf {a r r' : Raft} {t c : Nat}
    (h : r.adjustMaxInflightMsgs t c = .ok r') (h0 : MF a r) : MF a r' := by
  unfold Raft.adjustMaxInflightMsgs at h
  ls_auto0 h

theorem enableGroupCommit_mf {a r r' : Raft} {b : Bool}
    (h : r.enableGroupCommit b = .ok r') (h0 : MF a r) : MF a r' := by
  unfold Raft.enableGroupCommit at h
  ls_auto h [maybeCommit_mf, bcastAppend_mf]

theorem assignCommitGroups_mf {a r r' : Raft} {ids : List (Nat × Nat)}
    (h : r.assignCommitGroups ids = .ok r') (h0 : MF a r) : MF a r' := by
  unfold Raft.assignCommitGroups at h
  rw [Res.bind_eq_ok_iff] at h
  obtain ⟨r1, h1, h2⟩ := h
  have h3 : MF a r1 := by
    refine foldl_mf _ ?_ _ _ h1 (by intro r2 e; cases e; exact h0)
    intro acc p r2 h4
    cases acc with
    | err e => cases h4
    | panic s => cases h4
    | ok r0 =>
      refine ⟨r0, rfl, fun h0 => ?_⟩
      change (if p.2 = 0 then _ else _) = _ at h4
      simp only [Raft.modifyProgress] at h4
      ls_auto0 h4
  ls_auto h2 [maybeCommit_mf, bcastAppend_mf]

end LS
end Raft
end RaftModel
