import RaftProofs.ClusterCommit5C

/-! Commit layer without `batch_append = false`, part D: `handle_append_response`, `step_leader`, queueing a message that is not leader-side, and the follower handlers (copy of `ClusterCommitG/H`). -/
namespace RaftModel
namespace Raft
namespace CB
open CC

/-- writing back a progress entry whose `matched` grew to a value backed by `A` -/
theorem Gb.setMatched {A : Nat → Nat → Nat → Prop} {a r : Raft} {m : Message} {id : Nat}
    {pr : Progress} (h0 : Gb A a m r)
    (hb : pr.matched = 0 ∨ (id = r.id ∧ pr.matched ≤ r.raftLog.persisted) ∨ A id r.term pr.matched)
    (hge : ∀ old, r.prs.get id = some old → old.matched ≤ pr.matched) :
    Gb A a m { r with prs := r.prs.set id pr } := by
  have hm : ∀ j x, mfun (r.prs.set id pr) j = some x →
      (j = id ∧ x = pr.matched) ∨ (j ≠ id ∧ mfun r.prs j = some x) := by
    intro j x hx
    by_cases hj : j = id
    · subst hj
      left
      unfold mfun at hx
      cases hg : r.prs.get j with
      | none =>
        have : (r.prs.set j pr).get j = none := by
          simp only [ProgressTracker.get, ProgressTracker.set] at *
          rw [c04_lookup_modify_self, hg]; rfl
        rw [this] at hx; cases hx
      | some old =>
        rw [c04_get_set_self r.prs j pr old hg] at hx
        injection hx with hx
        exact ⟨rfl, hx.symm⟩
    · right
      unfold mfun at hx ⊢
      rw [c04_get_set_ne r.prs id j pr hj] at hx
      exact ⟨hj, hx⟩
  refine ⟨h0.id, ⟨fun hs j x hx => ?_⟩, fun hs => ?_, ?_, ?_, h0.qvk, ?_⟩
  · rcases hm j x hx with ⟨g1, g2⟩ | ⟨_, g⟩
    · rw [g1, g2]; exact hb
    · exact h0.mok.h hs j x g
  · rcases h0.lc hs with g | ⟨⟨Q, hQ, hQm⟩, g2⟩
    · exact .inl g
    · right
      refine ⟨⟨Q, hQ, fun v hv => ?_⟩, g2⟩
      obtain ⟨x, hx, hle⟩ := hQm v hv
      by_cases hvi : v = id
      · subst hvi
        obtain ⟨old, ho, hom⟩ := get_of_mfun hx
        refine ⟨pr.matched, ?_, ?_⟩
        · show mfun (r.prs.set v pr) v = some pr.matched
          unfold mfun; rw [c04_get_set_self r.prs v pr old ho]; rfl
        · have := hge old ho
          show r.raftLog.committed ≤ pr.matched
          omega
      · refine ⟨x, ?_, hle⟩
        show mfun (r.prs.set id pr) v = some x
        unfold mfun at hx ⊢
        rw [c04_get_set_ne r.prs id v pr hvi]; exact hx
  · intro x hx hty
    exact (h0.qlk x hx hty).imp (fun g => g) (fun g => g.imp (fun g => ⟨g.lead, g.term, g.frm, g.app, g.hb⟩) (fun g => ⟨g.1, g.2.1, g.2.2⟩))
  · intro x hx hty
    exact (h0.qak x hx hty).imp (fun g => g) (fun g => ⟨g.term, g.frm, g.src⟩)
  · intro x hx hty
    exact (h0.qrq x hx hty).imp (fun g => g) (fun g => ⟨g.term, g.last, g.lt⟩)

theorem handleAppendResponseAccepted_gb {A : Nat → Nat → Nat → Prop} {a r r' : Raft} {m : Message}
    {pr : Progress} {op : Bool}
    (hA : ∀ j t x y, y ≤ x → A j t x → A j t y)
    (hs : r.state = .leader) (hb : A m.frm r.term pr.matched)
    (hge : ∀ old, r.prs.get m.frm = some old → old.matched ≤ pr.matched)
    (h : r.handleAppendResponseAccepted m pr op = .ok r') (h0 : Gb A a m r) : Gb A a m r' := by
  unfold Raft.handleAppendResponseAccepted at h
  obtain ⟨pr1, hp1, h⟩ := Res.bind_eq_ok h
  have hm1 : pr1.matched = pr.matched := by
    split at hp1
    · cases hp1; rfl
    · cases hp1; split
      · exact becomeProbe_matched _
      · rfl
    · split at hp1
      · cases hp1; rfl
      · cases hp1
  simp only [] at h
  have h1 : Gb A a m ({ r with prs := r.prs.set m.frm pr1 } : Raft) :=
    h0.setMatched (by rw [hm1]; exact .inr (.inr hb)) (fun old ho => by rw [hm1]; exact hge old ho)
  obtain ⟨r2, hr2, h⟩ := Res.bind_eq_ok h
  -- the state after `maybe_commit`
  have key : ∀ (r3 : Raft) (b : Bool),
      ({ r with prs := r.prs.set m.frm pr1 } : Raft).maybeCommit = .ok (r3, b) →
      Gb A a m r3 ∧ r3.state = .leader := by
    intro r3 b hmc
    have hsp := maybeCommit_spec hmc
    refine ⟨maybeCommit_gb hmc h1, ?_⟩
    obtain ⟨mci, gc, _, hh | hh⟩ := hsp
    · rw [hh.2.2.2.2]; exact hs
    · rw [hh.2]; exact hs
  have h2 : Gb A a m r2 ∧ r2.state = .leader := by
    split at hr2
    · rename_i r3 hmc
      obtain ⟨g1, g2⟩ := key r3 true hmc
      split at hr2
      · have hsf := bcastAppend_sfb hr2 SFb.rfl
        exact ⟨g1.sf hA hsf (.inl g2), hsf.state.trans g2⟩
      · cases hr2; exact ⟨g1, g2⟩
    · rename_i r3 hmc
      obtain ⟨g1, g2⟩ := key r3 false hmc
      split at hr2
      · have hsf := sendAppend_sfb hr2 SFb.rfl
        exact ⟨g1.sf hA hsf (.inl g2), hsf.state.trans g2⟩
      · cases hr2; exact ⟨g1, g2⟩
    · cases hr2
    · cases hr2
  obtain ⟨g1, g2⟩ := h2
  obtain ⟨r4, hr4, h⟩ := Res.bind_eq_ok h
  have hsf4 := sendAppendAggressively_sfb hr4 SFb.rfl
  have g4 := g1.sf hA hsf4 (.inl g2)
  split at h
  · split at h
    · cases h
    · split at h
      · have hsf5 := sendTimeoutNow_sfb h SFb.rfl
        exact g4.sf hA hsf5 (.inl (hsf4.state.trans g2))
      · cases h; exact g4
  · cases h; exact g4

theorem handleAppendResponse_gb {A : Nat → Nat → Nat → Prop} {a r r' : Raft} {m : Message}
    (hA : ∀ j t x y, y ≤ x → A j t x → A j t y)
    (hs : r.state = .leader)
    (hin : m.reject = false → A m.frm r.term m.index)
    (h : r.handleAppendResponse m = .ok r') (h0 : Gb A a m r) : Gb A a m r' := by
  unfold Raft.handleAppendResponse at h
  obtain ⟨npi, _, h⟩ := Res.bind_eq_ok h
  split at h
  · cases h; exact h0
  · rename_i pr hg
    simp only [] at h
    have hm0 : (({ pr with recentActive := true } : Progress).updateCommitted m.commit).matched =
        pr.matched := updateCommitted_matched _ _
    split at h
    · -- rejected: the progress is only probed back
      split at h
      · cases h
      · cases h
      · rename_i pr2 hd
        have hm2 := (maybeDecrTo_matched hd).trans hm0
        have hmq : (if pr2.state = .replicate then pr2.becomeProbe else pr2).matched = pr.matched := by
          split
          · rw [becomeProbe_matched]; exact hm2
          · exact hm2
        have hsf1 := (SFb.rfl (r := r)).setPr (id := m.frm)
          (pr := if pr2.state = .replicate then pr2.becomeProbe else pr2)
          (fun old ho => by rw [hg] at ho; cases ho; exact hmq)
        have hsf2 := sendAppend_sfb h hsf1
        exact h0.sf hA hsf2 (.inl hs)
      · rename_i pr2 hd
        cases h
        have hm2 := (maybeDecrTo_matched hd).trans hm0
        exact h0.sf hA (SFb.rfl.setPr (fun old ho => by rw [hg] at ho; cases ho; exact hm2)) (.inl hs)
    · rename_i hrej
      have hrej' : m.reject = false := by simpa using hrej
      split at h
      · cases h
      · cases h
      · rename_i pr2 hu
        cases h
        have hm2 := ((maybeUpdate_matched hu).1 rfl).trans hm0
        exact h0.sf hA (SFb.rfl.setPr (fun old ho => by rw [hg] at ho; cases ho; exact hm2)) (.inl hs)
      · rename_i pr2 hu
        obtain ⟨e1, e2⟩ := (maybeUpdate_matched hu).2 rfl
        rw [hm0] at e2
        refine handleAppendResponseAccepted_gb hA hs (by rw [e1]; exact hin hrej')
          (fun old ho => by rw [hg] at ho; cases ho; omega) h h0
/-- **`step_leader`**, entered with nothing queued yet and the commit index of the start -/
theorem stepLeader_gb {A : Nat → Nat → Nat → Prop} {a r r' : Raft} {m : Message}
    {e : Option RaftError}
    (hA : ∀ j t x y, y ≤ x → A j t x → A j t y)
    (hs : r.state = .leader) (ho : Old a r) (hcm : r.raftLog.committed = a.raftLog.committed)
    (hin : m.msgType = .msgAppendResponse → m.reject = false → A m.frm r.term m.index)
    (h : r.stepLeader m = .ok (r', e)) (h0 : Gb A a m r) : Gb A a m r' := by
  unfold Raft.stepLeader at h
  split at h
  · -- beat
    obtain ⟨r1, h1, h⟩ := Res.bind_eq_ok h
    cases h
    exact h0.sf hA (bcastHeartbeat_sfb h1 SFb.rfl) (.inl hs)
  · -- check quorum
    split at h
    rename_i r1 active hq
    have hsf := checkQuorumActive_sfb hq SFb.rfl
    have hm1 : r1.msgs = r.msgs := by
      unfold Raft.checkQuorumActive at hq
      split at hq
      cases hq; rfl
    have g1 := h0.sf hA hsf (.inl hs)
    have ho1 : Old a r1 := by unfold Old; rw [hm1]; exact ho
    split at h
    · cases h; exact becomeFollower_gb _ _ g1 ho1
    · cases h; exact g1
  · -- propose
    split at h
    · cases h
    · split at h
      · cases h; exact h0
      · split at h
        · cases h; exact h0
        · split at h
          · rename_i r1 hf
            cases h
            exact h0.sf hA (filterProposal_sfb _ _ _ _ _ hf SFb.rfl) (.inl hs)
          · rename_i r1 es hf
            have hsf := filterProposal_sfb _ _ _ _ _ hf (SFb.rfl (r := r))
            have g1 := h0.sf hA hsf (.inl hs)
            have ho1 := filterProposal_msgs (a := a) _ _ _ _ _ hf ho
            have hc1 : r1.raftLog.committed = a.raftLog.committed := hsf.committed.trans hcm
            split at h
            · rename_i r2 ha
              cases h
              exact (appendEntry_gb ha g1 ho1 hc1).1
            · rename_i r2 ha
              obtain ⟨g2, _, _⟩ := appendEntry_gb ha g1 ho1 hc1
              obtain ⟨e1, e2, e3, e4, e5⟩ := appendEntry_spec ha
              obtain ⟨_, e7, _⟩ := appendEntry_fields ha
              obtain ⟨r3, h3, h⟩ := Res.bind_eq_ok h
              cases h
              exact g2.sf hA (bcastAppend_sfb h3 SFb.rfl)
                (.inl (e5.trans (hsf.state.trans hs)))
            · cases h
            · cases h
  · -- read index
    split at h
    · cases h
    · cases h
    · cases h; exact h0
    · simp only [] at h
      have answer : ∀ r0 : Raft, Gb A a m r0 → r0.state = .leader →
          ((r0.handleReadyReadIndex m r0.raftLog.committed).bind (fun x =>
            match x.2 with
            | some m' => (x.1.send m').bind (fun r => .ok (r, none))
            | none => .ok (x.1, none)) : Res (Raft × Option RaftError)) = .ok (r', e) →
          Gb A a m r' := by
        intro r0 g0 hs0 hh
        obtain ⟨⟨r1, om⟩, h1, hh⟩ := Res.bind_eq_ok hh
        obtain ⟨hk, hty⟩ := handleReadyReadIndex_sfb h1 (SFb.rfl (r := r0))
        cases om with
        | none => cases hh; exact g0.sf hA hk (.inl hs0)
        | some m' =>
          obtain ⟨r2, h2, hh⟩ := Res.bind_eq_ok hh
          cases hh
          obtain ⟨t1, t2⟩ := hty _ rfl
          exact g0.sf hA (send_sfb h2 (sent_other r1 m' t2 (by rw [t1]; rfl) (by rw [t1]; decide)
            (by rw [t1]; decide)) hk) (.inl hs0)
      split at h
      · exact answer r h0 hs h
      · split at h
        · split at h
          · cases h
          · obtain ⟨ro, h1, h⟩ := Res.bind_eq_ok h
            obtain ⟨r2, h2, h⟩ := Res.bind_eq_ok h
            cases h
            exact h0.sf hA (bcastHeartbeatWithCtx_sfb h2 (SFb.mk' SFb.rfl)) (.inl hs)
        · exact answer r h0 hs h
  · -- append response
    obtain ⟨r1, h1, h⟩ := Res.bind_eq_ok h
    cases h
    rename_i hty
    exact handleAppendResponse_gb hA hs (hin hty) h1 h0
  · obtain ⟨r1, h1, h⟩ := Res.bind_eq_ok h
    cases h
    exact h0.sf hA (handleHeartbeatResponse_sfb h1 SFb.rfl) (.inl hs)
  · cases h; exact h0.sf hA (handleSnapshotStatus_sfb SFb.rfl) (.inl hs)
  · cases h; exact h0.sf hA (handleUnreachable_sfb SFb.rfl) (.inl hs)
  · obtain ⟨r1, h1, h⟩ := Res.bind_eq_ok h
    cases h
    exact h0.sf hA (handleTransferLeader_sfb h1 SFb.rfl) (.inl hs)
  · cases h; exact h0

/-- queueing one message that is not of a leader-side type -/
theorem send_gb {A : Nat → Nat → Nat → Prop} {a r r' : Raft} {m x : Message}
    (h : r.send x = .ok r') (h0 : Gb A a m r) (hlk : lkT x.msgType = false)
    (hak : isAck (r.sendFill x) → AkOK m r (r.sendFill x))
    (hvk : isVoteMsg x.msgType = true → VkOK r (r.sendFill x))
    (hrq : x.msgType = .msgRequestVote → RqOK r (r.sendFill x)) : Gb A a m r' := by
  rw [send_eq r r' x h]
  refine ⟨h0.id, ⟨h0.mok.h⟩, h0.lc, ?_, ?_, ?_, ?_⟩
  · intro y hy hty
    rcases List.mem_append.1 hy with hy | hy
    · exact (h0.qlk y hy hty).imp (fun g => g) (fun g => g.imp (fun g => ⟨g.lead, g.term, g.frm, g.app, g.hb⟩) (fun g => ⟨g.1, g.2.1, g.2.2⟩))
    · rw [List.mem_singleton.1 hy, sendFill_msgType, hlk] at hty; cases hty
  · intro y hy hty
    rcases List.mem_append.1 hy with hy | hy
    · exact (h0.qak y hy hty).imp (fun g => g) (fun g => ⟨g.term, g.frm, g.src⟩)
    · rw [List.mem_singleton.1 hy] at hty ⊢
      have := hak hty
      exact .inr ⟨this.term, this.frm, this.src⟩
  · intro y hy hty
    rcases List.mem_append.1 hy with hy | hy
    · exact h0.qvk y hy hty
    · rw [List.mem_singleton.1 hy] at hty ⊢
      rw [sendFill_msgType] at hty
      exact .inr (hvk hty)
  · intro y hy hty
    rcases List.mem_append.1 hy with hy | hy
    · exact (h0.qrq y hy hty).imp (fun g => g) (fun g => ⟨g.term, g.last, g.lt⟩)
    · rw [List.mem_singleton.1 hy] at hty ⊢
      rw [sendFill_msgType] at hty
      have := hrq hty
      exact .inr ⟨this.term, this.last, this.lt⟩

/-- a message whose type is none of the tracked kinds -/
theorem send_g_plain {A : Nat → Nat → Nat → Prop} {a r r' : Raft} {m x : Message}
    (h : r.send x = .ok r') (h0 : Gb A a m r) (hlk : lkT x.msgType = false)
    (hak : x.msgType ≠ .msgAppendResponse ∨ x.reject = true)
    (hvk : isVoteMsg x.msgType = false) : Gb A a m r' := by
  have hrej : (r.sendFill x).reject = x.reject := by
    unfold sendFill; simp only; split <;> split <;> split <;> rfl
  refine send_gb h h0 hlk (fun hc => ?_) (fun hc => by rw [hvk] at hc; cases hc) (fun hc => ?_)
  · rcases hak with g | g
    · exact absurd (by rw [← sendFill_msgType r x]; exact hc.1) g
    · have := hc.2; rw [hrej, g] at this; cases this
  · rw [hc] at hvk; cases hvk
theorem sendRequestSnapshot_gb {A : Nat → Nat → Nat → Prop} {a r r' : Raft} {m : Message}
    (h : r.sendRequestSnapshot = .ok r') (h0 : Gb A a m r) : Gb A a m r' := by
  unfold Raft.sendRequestSnapshot at h
  simp only [] at h
  split at h
  · exact send_g_plain h h0 rfl (.inr rfl) rfl
  · cases h
  · cases h

/-- **`handle_append_entries`** on a follower, entered with nothing queued -/
theorem handleAppendEntries_gb {A : Nat → Nat → Nat → Prop} {a r r' : Raft} {m : Message}
    (hs : r.state = .follower) (ho : Old a r) (hm : m.msgType = .msgAppend)
    (h : r.handleAppendEntries m = .ok r') (h0 : Gb A a m r) : Gb A a m r' := by
  unfold Raft.handleAppendEntries at h
  split at h
  · exact sendRequestSnapshot_gb h h0
  · split at h
    · -- already committed beyond the anchor: acknowledge the commit index
      refine send_gb h h0 rfl (fun _ => ?_) (fun hc => by cases hc) (fun hc => by cases hc)
      exact akok_of_fill r _ rfl rfl (.inr ⟨hs, hm, rfl, .inl (Nat.le_refl _)⟩)
    · split at h
      · cases h
      · cases h
      · rename_i log ci last hma
        simp only [] at h
        have hlast : last = m.index + m.entries.length := by
          rcases RaftLog.c04_maybeAppend_spec hma with ⟨hn, _⟩ | ⟨ci', hn, _⟩
          · cases hn
          · injection hn with hn; injection hn with _ hn
        have g1 : Gb A a m ({ r with raftLog := log } : Raft) :=
          Gb.of_old_nl ho h0.id (by rw [hs]; intro hc; cases hc)
        refine send_gb h g1 rfl (fun _ => ?_) (fun hc => by cases hc) (fun hc => by cases hc)
        exact akok_of_fill _ _ rfl rfl (.inr ⟨hs, hm, rfl, .inr hlast⟩)
      · rename_i log hma
        simp only [] at h
        split at h
        · cases h
        · cases h
        · cases h
        · have g1 : Gb A a m ({ r with raftLog := log } : Raft) :=
            Gb.of_old_nl ho h0.id (by rw [hs]; intro hc; cases hc)
          exact send_g_plain h g1 rfl (.inr rfl) rfl

/-- **`handle_heartbeat`** on a follower, entered with nothing queued -/
theorem handleHeartbeat_gb {A : Nat → Nat → Nat → Prop} {a r r' : Raft} {m : Message}
    (hs : r.state = .follower) (ho : Old a r)
    (h : r.handleHeartbeat m = .ok r') (h0 : Gb A a m r) : Gb A a m r' := by
  unfold Raft.handleHeartbeat at h
  split at h
  · cases h
  · cases h
  · rename_i log hc
    simp only [] at h
    have g1 : Gb A a m ({ r with raftLog := log } : Raft) :=
      Gb.of_old_nl ho h0.id (by rw [hs]; intro hc; cases hc)
    split at h
    · exact sendRequestSnapshot_gb h g1
    · exact send_g_plain h g1 rfl (.inl (by intro hc; cases hc)) rfl

end CB
end Raft
end RaftModel
