import RaftProofs.ClusterSnap8_A
import RaftProofs.ClusterCommit5cV

/-! SCRIPTED COPY (C01n, copy_snap.py) of `HypB.prov0` (5N), `nodeRelB` (5cU), `trans_of_cstepB` (5cV) over `Snap.J.Hyp`. -/
namespace RaftModel
namespace Cluster
namespace Snap
namespace J
open Node Raft Raft.CC Raft.CB Raft.Bt ClusterB RaftProps.C02 RaftProps.C05

variable {cfg : JointConfig} {h : List Sys}

/-- **the proviso of the batching per-call layer holds for every `call` / `deliver` step of the
history**: a node that is leader before the call has a clean queue; a node that is leader only after the
call was candidate of the same term with its vote request in the transport, so its queue holds no
`MsgAppend` at all -/
theorem Hyp.prov0 (H : Hyp cfg h) {n : Nat} {a b : Sys} (ha : h[n]? = some a)
    (hb : h[n + 1]? = some b) {i : Nat} {st st' : NState} {rnd : Option Nat} {op : NodeOp}
    {res : OpRes} (hi : a.node i = some st) (hi' : b.node i = some st') (hnet : b.net = a.net)
    (hop : appOp op = true ∨ ∃ m, op = .step m ∧ m ∈ a.net ∧ m.to = i)
    (hcall : Node.call st rnd op = .ok (res, st')) :
    (st'.raft.state = .leader →
      st.raft.term = st'.raft.term ∧
        ((st.raft.state = .candidate ∧ ∀ x ∈ st.raft.msgs, x.msgType ≠ .msgAppend) ∨
          st.raft.state = .leader)) ∧
    Prov0 st.raft st'.raft := by
  obtain ⟨s0, _, hall⟩ := H.invLB
  obtain ⟨all1, all2, _⟩ := hist_all H.hist
  have hma := mem_of_get ha
  have hmb := mem_of_get hb
  have I := (hall a hma).1
  have rt := call_rt st st' rnd op res (I.inv i st hi) (op_ok hop) hcall
  exact prov0_of_inv H.nd1 H.nd2 H.mv (hall a hma).2 (all1 a hma) (all1 b hmb)
    (all2 cfg H.fix b hmb) hi hi' hnet rt

/-- **one step, one node**, batching allowed (`cstep_nodeRel` without `NoBatch`) -/
theorem nodeRelB (H : Hyp cfg h) {n : Nat} {a b : Sys} (ha : h[n]? = some a)
    (hb : h[n + 1]? = some b) (i : Nat) (sta stb : NState)
    (hia : a.node i = some sta) (hib : b.node i = some stb) :
    NodeRel sta stb ∨ IsRestart i a b := by
  obtain ⟨s0, _, hall⟩ := H.invLB
  obtain ⟨all1, all2, _⟩ := hist_all H.hist
  have hma := mem_of_get ha
  have hmb := mem_of_get hb
  exact RaftProps.C05.cstep_nodeRel_batch H.nd1 H.nd2 H.mv (hall a hma).1 (hall a hma).2 (all1 a hma)
    (all1 b hmb) (all2 cfg H.fix b hmb) (H.csteps n a b ha hb) i sta stb hia hib

/-- the transition a contract-abiding step of the history induces, batching on or off
(`trans_of_cstep` without `NoBatch`; the step is given by its position in the history) -/
theorem trans_of_cstepB (H : Hyp cfg h) {n : Nat} {a b : Sys} (ha : h[n]? = some a)
    (hb : h[n + 1]? = some b) :
    ∃ k st st' pers crash, Trans a b k st st' pers crash := by
  obtain ⟨s0, _, hall⟩ := H.invL
  have I := hall a (mem_of_get ha)
  have callCase : ∀ (k : Nat) (st st' : NState) (rnd : Option Nat) (op : NodeOp) (res : OpRes),
      a.node k = some st → (appOp op = true ∨ ∃ m, op = .step m ∧ m ∈ a.net ∧ m.to = k) →
      (∀ j, op = .compact j → CompactOk st.raft.raftLog j) →
      Node.call st rnd op = .ok (res, st') → b = a.setNode k st' →
      ∃ k st st' pers crash, Trans a b k st st' pers crash := by
    intro k st st' rnd op res hk hop hc hcall hs'
    subst hs'
    have hsane := H.sane _ (mem_of_get hb)
    have hself : (a.setNode k st').node k = some st' := node_setNode_self a k st'
    have hop1 : appOp op = true ∨ ∃ m, op = .step m ∧ m ∈ a.net := by
      rcases hop with g | ⟨m, g1, g2, _⟩
      · exact .inl g
      · exact .inr ⟨m, g1, g2⟩
    have hw : ∀ m, op = .step m → m.msgType = .msgAppend → MsgOk m := by
      intro m hm hty
      rcases hop1 with h1 | ⟨m', h1, h2⟩
      · rw [hm] at h1; cases h1
      · rw [hm] at h1; cases h1
        exact I.msgOk h2 hty
    have hp := (H.prov0 ha hb hk hself rfl hop hcall).2
    have hL := call_lstep_b st st' rnd op res (I.inv k st hk) hp (op_ok hop) hw hc hcall
    exact ⟨k, st, st', _, _, trans_call_b I hk hop1 hcall hL
      (fun x hx hty => hsane.notWeird hself hx hty)⟩
  cases H.csteps n a b ha hb with
  | call i st st' rnd op res h1 h2 h3 h4 =>
    exact callCase i st st' rnd op res h1 (.inl h2) h3 h4 rfl
  | deliver i st st' rnd m res h1 h2 h3 h4 =>
    exact callCase i st st' rnd (.step m) res h1 (.inr ⟨m, rfl, h2, h3⟩)
      (fun j hc => by cases hc) h4 rfl
  | send i st st' h1 h2 h3 => exact ⟨i, st, st', _, _, trans_send I h1 h2 h3⟩
  | restart i st st' c rnd h1 _ h3 => exact ⟨i, st, st', _, _, trans_restart I h1 h3⟩

end J
end Snap
end Cluster
end RaftModel
